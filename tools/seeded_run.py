#!/usr/bin/env python3
"""Run the registered checks against a seeded change without touching /repo.

usage: tools/seeded_run.py <seeded-dir> [--props C01,C09,...] [--tier quick] [--suite] [--seeds 0]

<seeded-dir> holds patch.diff, demo.py (optional) and meta.json ({"property": "Cxx", ...}).
A scratch git worktree of /repo is created under /tmp, the patch applied there, then
  * (--suite) the unedited test-suite is run there (must pass),
  * demo.py is run on the clean and on the patched tree (must pass / fail),
  * harness/check.py is run for the property (and any --props) with VERIF_REPO pointing to the
    scratch tree; evidence/ and replays/ of /verif are protected (evidence is restored afterwards).
The worktree is removed at the end.  Prints one line per check: CAUGHT / MISSED.
This is a campaign tool, not a registered check.
"""
import argparse
import json
import os
import shutil
import subprocess
import sys
import tempfile

VERIF = os.path.dirname(os.path.dirname(os.path.abspath(__file__)))
PY = "/venv/bin/python"


def sh(cmd, cwd=None, env=None, timeout=3600):
    p = subprocess.run(cmd, cwd=cwd, env=env, stdout=subprocess.PIPE, stderr=subprocess.STDOUT, timeout=timeout)
    return p.returncode, p.stdout.decode(errors="replace")


def main():
    ap = argparse.ArgumentParser()
    ap.add_argument("dir")
    ap.add_argument("--props", default=None)
    ap.add_argument("--tier", default="quick")
    ap.add_argument("--suite", action="store_true")
    ap.add_argument("--seeds", default="0")
    ap.add_argument("--record", action="store_true", help="store the outcome in meta.json (key lead_confirmation)")
    a = ap.parse_args()
    d = os.path.abspath(a.dir)
    meta = json.load(open(os.path.join(d, "meta.json")))
    props = a.props.split(",") if a.props else [meta["property"]]
    wt = tempfile.mkdtemp(prefix="seedrun-", dir="/tmp")
    os.rmdir(wt)
    rc, out = sh(["git", "-C", "/repo", "worktree", "add", "--detach", wt, "HEAD"])
    if rc != 0:
        print(out)
        return 2
    result = {"dir": d, "property": meta["property"], "checks": {}}
    try:
        demo = os.path.join(d, "demo.py")
        if os.path.exists(demo):
            # run from the tree root (some demos insist on importing the package from the current directory)
            shutil.copy(demo, os.path.join(wt, "_demo_seeded.py"))
            demo = os.path.join(wt, "_demo_seeded.py")
            rc, out = sh([PY, demo], cwd=wt)
            result["demo_clean_rc"] = rc
        rc, out = sh(["git", "-C", wt, "apply", os.path.join(d, "patch.diff")])
        if rc != 0:
            print("patch does not apply:", out)
            return 2
        if os.path.exists(demo):
            rc, out = sh([PY, demo], cwd=wt)
            result["demo_patched_rc"] = rc
            result["demo_patched_tail"] = out[-400:]
        if a.suite:
            rc, out = sh([PY, "-m", "pytest", "-q", "-p", "no:cacheprovider", "--timeout=900", "--ignore=_demo_seeded.py"], cwd=wt)
            result["suite_rc"] = rc
            result["suite_tail"] = out.strip().splitlines()[-1] if out.strip() else ""
        # protect evidence
        evbak = tempfile.mkdtemp(prefix="evbak-", dir="/tmp")
        shutil.copytree(os.path.join(VERIF, "evidence"), os.path.join(evbak, "evidence"))
        try:
            for pid in props:
                for seed in a.seeds.split(","):
                    env = dict(os.environ, VERIF_REPO=wt, VERIF_SEED=seed)
                    rc, out = sh([PY, os.path.join(VERIF, "harness", "check.py"), pid, "--tier", a.tier], cwd=VERIF, env=env)
                    vl = [l for l in out.splitlines() if l.startswith("VIOLATION")]
                    notes = [l.strip() for l in out.splitlines() if l.strip().startswith(("kind=", "case="))]
                    verdict = "CAUGHT" if rc == 1 and vl else ("MISSED" if rc == 0 else f"INFRA(rc={rc})")
                    concrete = any("no-failing-input-found" not in l for l in vl)
                    result["checks"][f"{pid}@{seed}"] = {"verdict": verdict, "concrete": concrete, "violations": vl[:5], "notes": notes[:6],
                                                          "tail": out[-300:] if verdict.startswith("INFRA") else ""}
                    print(f"{verdict} {os.path.basename(d)} by {pid} seed={seed} concrete={concrete} :: {vl[:1]}")
        finally:
            shutil.rmtree(os.path.join(VERIF, "evidence"))
            shutil.copytree(os.path.join(evbak, "evidence"), os.path.join(VERIF, "evidence"))
            shutil.rmtree(evbak)
    finally:
        sh(["git", "-C", "/repo", "worktree", "remove", "--force", wt])
        shutil.rmtree(wt, ignore_errors=True)
    print(json.dumps(result, indent=1))
    if a.record:
        meta["lead_confirmation"] = {
            "ran": [
                "scratch worktree of /repo HEAD under /tmp, `git apply patch.diff`",
                "/venv/bin/python demo.py on the clean and on the patched tree",
                "/venv/bin/python -m pytest -q -p no:cacheprovider --timeout=900 (patched tree)" if a.suite else "(suite not re-run in this invocation)",
                "VERIF_REPO=<scratch> /venv/bin/python harness/check.py <id> --tier " + a.tier + " for: " + ", ".join(props),
            ],
            "demo_clean_rc": result.get("demo_clean_rc"),
            "demo_patched_rc": result.get("demo_patched_rc"),
            "suite": result.get("suite_tail"),
            "checks": {k: {"verdict": v["verdict"], "concrete_failing_input": v["concrete"], "first": (v["notes"][:2])}
                       for k, v in result["checks"].items()},
        }
        with open(os.path.join(d, "meta.json"), "w") as f:
            json.dump(meta, f, indent=1)
    return 0


if __name__ == "__main__":
    sys.exit(main())
