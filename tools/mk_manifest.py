#!/usr/bin/env python3
"""Regenerates MANIFEST.json from the table below (keeps it schema-valid and current)."""
import json, os
HERE = os.path.dirname(os.path.dirname(os.path.abspath(__file__)))
ALL = [f"C{i:02d}" for i in range(1, 21)]

# one file per claimed property: manifest/Cxx.json = {"text":…, "note":…, "technique":…, "design_ref":…}
CLAIMED = {}
for fn in sorted(os.listdir(os.path.join(HERE, "manifest"))):
    if fn.endswith(".json"):
        d = json.load(open(os.path.join(HERE, "manifest", fn)))
        CLAIMED[fn[:-5]] = (d["text"], d["note"], d["technique"], d["design_ref"])
PENDING_REASON = "check not built yet in this revision (work in progress; Lean proof + correspondence is applicable and planned, see DESIGN.md section 6)"

def main():
    checks = []
    for pid in ALL:
        if pid not in CLAIMED:
            continue
        text, note, tech, ref = CLAIMED[pid]
        checks.append({
            "property_id": pid,
            "quick_cmd": f"/venv/bin/python harness/check.py {pid} --tier quick",
            "thorough_cmd": f"/venv/bin/python harness/check.py {pid} --tier thorough",
            "evidence_file": f"evidence/{pid}.json",
            "replay_cmd_template": f"/venv/bin/python harness/check.py {pid} --replay {{path}}",
            "engine": "lean4-proof+correspondence",
            "level_claimed": {"category": "proof", "text": text, "design_ref": ref},
            "level_note": note,
            "technique": tech,
        })
    man = {
        "version": 1,
        "setup_cmd": "cd lean && lake build SpVerif spdriver",
        "hooks": {
            "guard": "SPACEPACKETS_VERIF",
            "enable": "no hooks are needed: every observation goes through the public API of the package imported from /repo's working tree (sys.path[0]=/repo)",
            "baseline_off_cmd": "cd /repo && /venv/bin/python -m pytest -q -p no:cacheprovider --timeout=900",
            "source_commits": [],
            "add_only": True,
        },
        "engines": [{
            "name": "lean4-proof+correspondence",
            "path": "lean/ (Lean 4 project SpVerif: models, theorems, compiled driver) + harness/ (Python: real code in-process vs driver)",
            "serves_properties": sorted(CLAIMED),
            "kind_free_text": "machine-checked proof in Lean 4 about hand-written executable models; correspondence check (differential, seeded, with exhaustive sub-domains) ties the models to /repo on every run; failing-input search and replay files on any disagreement",
        }],
        "checks": checks,
        "not_applicable": [{"property_id": p, "reason": PENDING_REASON} for p in ALL if p not in CLAIMED],
        "notes": "All checks: exit 0 = held, exit 1 + 'VIOLATION property=<id> replay=<path>' = violation (suffix no-failing-input-found when only a proof/correspondence broke), exit 2 = infrastructure problem. VERIF_SEED seeds every random choice. known_findings.json lists repaired defects ('fixed:' entries, which suppress nothing).",
    }
    with open(os.path.join(HERE, "MANIFEST.json"), "w") as f:
        json.dump(man, f, indent=1)
    print("claimed:", sorted(CLAIMED))

if __name__ == "__main__":
    main()
