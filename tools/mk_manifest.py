#!/usr/bin/env python3
"""Regenerates MANIFEST.json from the table below (keeps it schema-valid and current)."""
import json, os
HERE = os.path.dirname(os.path.dirname(os.path.abspath(__file__)))
ALL = [f"C{i:02d}" for i in range(1, 21)]

# property -> (level text, level note, technique, design section)
CLAIMED = {
 "C01": ("Lean 4 theorems over the header model: pack = CCSDS 133.0-B-2 layout for all 2^48 in-range headers, decode∘encode = id with any suffix, encode∘decode = b[:6] for every octet string ≥ 6, packet-id / sequence-control word round trips, refusal of every out-of-range APID/count/length, reported length = data length + 7. The model is tied to /repo on every run by the correspondence check (exhaustive 65 536-value sweeps of each header word, all 8 192 packet-id and 65 536 sequence-control words, boundary pools, out-of-range pools, random tuples with suffixes).",
         "Trusted: Lean kernel; axioms propext, Classical.choice, Quot.sound only (audited each run); the hand-written model's faithfulness is checked differentially, not proved; CPython int/struct/enum semantics are modelled.",
         "Lean 4 proof (kernel-checked theorems over an executable model) + differential correspondence check model vs implementation", "6 C01"),
}
PENDING_REASON = "check not built yet in this revision (work in progress; Lean proof + correspondence is applicable and planned, see DESIGN.md section 6)"

def main():
    checks = []
    for pid in ALL:
        if pid not in CLAIMED:
            continue
        text, note, tech, ref = CLAIMED[pid]
        checks.append({
            "property_id": pid,
            "quick_cmd": f"/venv/bin/python harness/check.py {pid} --tier quick",
            "thorough_cmd": f"/venv/bin/python harness/check.py {pid} --tier thorough",
            "evidence_file": f"evidence/{pid}.json",
            "replay_cmd_template": f"/venv/bin/python harness/check.py {pid} --replay {{path}}",
            "engine": "lean4-proof+correspondence",
            "level_claimed": {"category": "proof", "text": text, "design_ref": ref},
            "level_note": note,
            "technique": tech,
        })
    man = {
        "version": 1,
        "setup_cmd": "cd lean && lake build SpVerif spdriver",
        "hooks": {
            "guard": "SPACEPACKETS_VERIF",
            "enable": "no hooks are needed: every observation goes through the public API of the package imported from /repo's working tree (sys.path[0]=/repo)",
            "baseline_off_cmd": "cd /repo && /venv/bin/python -m pytest -q -p no:cacheprovider --timeout=900",
            "source_commits": [],
            "add_only": True,
        },
        "engines": [{
            "name": "lean4-proof+correspondence",
            "path": "lean/ (Lean 4 project SpVerif: models, theorems, compiled driver) + harness/ (Python: real code in-process vs driver)",
            "serves_properties": sorted(CLAIMED),
            "kind_free_text": "machine-checked proof in Lean 4 about hand-written executable models; correspondence check (differential, seeded, with exhaustive sub-domains) ties the models to /repo on every run; failing-input search and replay files on any disagreement",
        }],
        "checks": checks,
        "not_applicable": [{"property_id": p, "reason": PENDING_REASON} for p in ALL if p not in CLAIMED],
        "notes": "All checks: exit 0 = held, exit 1 + 'VIOLATION property=<id> replay=<path>' = violation (suffix no-failing-input-found when only a proof/correspondence broke), exit 2 = infrastructure problem. VERIF_SEED seeds every random choice. known_findings.json lists repaired defects ('fixed:' entries, which suppress nothing).",
    }
    with open(os.path.join(HERE, "MANIFEST.json"), "w") as f:
        json.dump(man, f, indent=1)
    print("claimed:", sorted(CLAIMED))

if __name__ == "__main__":
    main()
