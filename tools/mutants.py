#!/usr/bin/env python3
"""Mutation sweep (campaign tool, not a registered check).

Generates small syntactic mutants of /repo/spacepackets (comparison direction, +-1 on integer
literals, swapped arithmetic/bit operators, and/or, dropped guards, lost assignments, struct byte
order), keeps those that still pass the unedited test-suite, and runs the quick checks of every
property whose anchors name the mutated file against each of them (in scratch copies, through
VERIF_REPO; /repo is never touched).  Output: one JSON line per mutant in the result file:
  {"id", "file", "line", "op", "before", "after", "suite": "pass|fail|error", "checks": {"Cxx": "CAUGHT|MISSED|INFRA"}}
Mutants that pass the suite and are MISSED by every check are either equivalent (no property broken)
or gaps; they are triaged by hand (notes/mutants-triage.md).

usage: tools/mutants.py gen   --out /tmp/mut/mutants.jsonl [--files a.py,b.py] [--max-per-file N] [--seed S]
       tools/mutants.py run   --in /tmp/mut/mutants.jsonl --out /tmp/mut/results.jsonl [--jobs 12] [--props C01,..]
       tools/mutants.py report --in /tmp/mut/results.jsonl
"""
import argparse
import ast
import json
import os
import random
import shutil
import subprocess
import sys
import tempfile
from concurrent.futures import ThreadPoolExecutor

VERIF = os.path.dirname(os.path.dirname(os.path.abspath(__file__)))
REPO = "/repo"
PY = "/venv/bin/python"
SKIP_FILES = {"spacepackets/version.py", "spacepackets/countdown.py", "spacepackets/log.py"}


# ------------------------------------------------------------------------------------------------
# generation
# ------------------------------------------------------------------------------------------------
def seg(src_lines, node):
    """(start, end) absolute offsets of a node in the source text"""
    def off(l, c):
        # col offsets are in utf-8 bytes; files are ascii in practice
        return sum(len(x) for x in src_lines[: l - 1]) + c
    return off(node.lineno, node.col_offset), off(node.end_lineno, node.end_col_offset)


CMP = {ast.Lt: "<", ast.LtE: "<=", ast.Gt: ">", ast.GtE: ">=", ast.Eq: "==", ast.NotEq: "!="}
CMP_SWAP = {"<": ["<="], "<=": ["<"], ">": [">="], ">=": [">"], "==": ["!="], "!=": ["=="]}
BIN = {ast.Add: "+", ast.Sub: "-", ast.LShift: "<<", ast.RShift: ">>", ast.BitAnd: "&", ast.BitOr: "|", ast.Mult: "*"}
BIN_SWAP = {"+": ["-"], "-": ["+"], "<<": [">>"], ">>": ["<<"], "&": ["|"], "|": ["&"], "*": []}


def in_docstring_or_str(node):
    return False


def gen_file(relpath):
    path = os.path.join(REPO, relpath)
    src = open(path).read()
    lines = src.splitlines(keepends=True)
    tree = ast.parse(src)
    muts = []

    def add(start, end, new, op, line):
        old = src[start:end]
        if old == new:
            return
        muts.append({"file": relpath, "line": line, "op": op, "start": start, "end": end, "before": old, "after": new})

    # skip __repr__/__str__ bodies and logging / printing helpers
    skip_ranges = []
    for n in ast.walk(tree):
        if isinstance(n, (ast.FunctionDef,)) and n.name in ("__repr__", "__str__", "print_full_packet_string",
                                                              "get_full_packet_string", "get_printable_data_string",
                                                              "get_source_data_string"):
            skip_ranges.append((n.lineno, n.end_lineno))

    def skipped(n):
        return any(a <= n.lineno <= b for a, b in skip_ranges)

    for n in ast.walk(tree):
        if not hasattr(n, "lineno") or skipped(n):
            continue
        if isinstance(n, ast.Compare) and len(n.ops) == 1 and type(n.ops[0]) in CMP:
            # operator text lies between left and comparator
            ls, le = seg(lines, n.left)
            rs, re_ = seg(lines, n.comparators[0])
            between = src[le:rs]
            sym = CMP[type(n.ops[0])]
            if between.strip() == sym:
                for alt in CMP_SWAP[sym]:
                    add(le, rs, between.replace(sym, alt), f"cmp {sym}->{alt}", n.lineno)
        elif isinstance(n, ast.BinOp) and type(n.op) in BIN:
            ls, le = seg(lines, n.left)
            rs, re_ = seg(lines, n.right)
            between = src[le:rs]
            sym = BIN[type(n.op)]
            if between.strip() == sym:
                for alt in BIN_SWAP[sym]:
                    add(le, rs, between.replace(sym, alt), f"bin {sym}->{alt}", n.lineno)
        elif isinstance(n, ast.BoolOp) and len(n.values) == 2:
            ls, le = seg(lines, n.values[0])
            rs, re_ = seg(lines, n.values[1])
            between = src[le:rs]
            sym = "and" if isinstance(n.op, ast.And) else "or"
            if between.strip() == sym:
                add(le, rs, between.replace(sym, "or" if sym == "and" else "and"), f"bool {sym}", n.lineno)
        elif isinstance(n, ast.Constant) and isinstance(n.value, int) and not isinstance(n.value, bool):
            s, e = seg(lines, n)
            txt = src[s:e]
            v = n.value
            if v > 1 << 40:
                continue
            for nv in (v + 1, v - 1):
                if nv < 0:
                    continue
                if txt.startswith("0b"):
                    new = bin(nv)
                elif txt.startswith("0x"):
                    new = hex(nv)
                else:
                    new = str(nv)
                add(s, e, new, f"int {v}->{nv}", n.lineno)
        elif isinstance(n, ast.Constant) and isinstance(n.value, str) and n.value[:1] in "!><" and 2 <= len(n.value) <= 6 \
                and all(ch in "BHIQbhiq" for ch in n.value[1:]):
            s, e = seg(lines, n)
            txt = src[s:e]
            add(s, e, txt.replace(n.value, "<" + n.value[1:] if n.value[0] != "<" else "!" + n.value[1:]), "struct byte order", n.lineno)
        elif isinstance(n, ast.If):
            # guard `if c: raise ...` -> never taken
            if len(n.body) == 1 and isinstance(n.body[0], ast.Raise) and not n.orelse:
                s, e = seg(lines, n.test)
                add(s, e, "False", "drop guard", n.lineno)
        elif isinstance(n, ast.Assign) and len(n.targets) == 1 and isinstance(n.targets[0], ast.Attribute) \
                and isinstance(n.targets[0].value, ast.Name) and n.targets[0].value.id == "self":
            s, e = seg(lines, n)
            add(s, e, "pass", "lost assignment", n.lineno)
        elif isinstance(n, ast.Expr) and isinstance(n.value, ast.Call) and isinstance(n.value.func, ast.Attribute) \
                and isinstance(n.value.func.value, ast.Name) and n.value.func.value.id == "self" \
                and n.value.func.attr.startswith("_"):
            # dropped call of a private recalculation helper (self._calculate_..., self._setup ...)
            s, e = seg(lines, n)
            add(s, e, "pass", "dropped helper call", n.lineno)
    # validate: mutant must parse
    ok = []
    for m in muts:
        new_src = src[: m["start"]] + m["after"] + src[m["end"]:]
        try:
            ast.parse(new_src)
        except SyntaxError:
            continue
        ok.append(m)
    return ok


def cmd_gen(a):
    rng = random.Random(a.seed)
    files = []
    if a.files:
        files = a.files.split(",")
    else:
        for root, _, fs in os.walk(os.path.join(REPO, "spacepackets")):
            for f in fs:
                if f.endswith(".py") and f != "__init__.py":
                    rel = os.path.relpath(os.path.join(root, f), REPO)
                    if rel not in SKIP_FILES:
                        files.append(rel)
    files.sort()
    out = []
    for rel in files:
        ms = gen_file(rel)
        if a.max_per_file and len(ms) > a.max_per_file:
            ms = rng.sample(ms, a.max_per_file)
            ms.sort(key=lambda m: m["start"])
        out += ms
    os.makedirs(os.path.dirname(os.path.abspath(a.out)), exist_ok=True)
    with open(a.out, "w") as f:
        for i, m in enumerate(out):
            m["id"] = i
            f.write(json.dumps(m) + "\n")
    byfile = {}
    for m in out:
        byfile[m["file"]] = byfile.get(m["file"], 0) + 1
    print(f"{len(out)} mutants over {len(byfile)} files")
    for k, v in sorted(byfile.items()):
        print(f"  {v:5d} {k}")


# ------------------------------------------------------------------------------------------------
# running
# ------------------------------------------------------------------------------------------------
def props_by_file():
    m = {}
    for l in open(os.path.join(VERIF, "properties.jsonl")):
        p = json.loads(l)
        for f in p["anchors"].get("files", []):
            m.setdefault(f, []).append(p["id"])
    return m


def claimed():
    man = json.load(open(os.path.join(VERIF, "MANIFEST.json")))
    return {c["property_id"] for c in man["checks"]}


def make_scratch():
    d = tempfile.mkdtemp(prefix="mutwk-", dir="/tmp")
    for name in ("spacepackets", "tests", "pytest.ini", "pyproject.toml", "README.md"):
        src = os.path.join(REPO, name)
        if os.path.isdir(src):
            shutil.copytree(src, os.path.join(d, name), ignore=shutil.ignore_patterns("__pycache__"))
        elif os.path.exists(src):
            shutil.copy(src, d)
    return d


def run_one(m, wk, props_filter, pbf, claimed_set, suite_only=False):
    path = os.path.join(wk, m["file"])
    orig = open(os.path.join(REPO, m["file"])).read()
    new = orig[: m["start"]] + m["after"] + orig[m["end"]:]
    res = {k: m[k] for k in ("id", "file", "line", "op", "before", "after")}
    if orig[m["start"]: m["end"]] != m["before"]:
        res["suite"] = "stale"      # /repo changed since the mutant list was generated
        res["checks"] = {}
        return res
    env = dict(os.environ, PYTHONDONTWRITEBYTECODE="1")
    try:
        with open(path, "w") as f:
            f.write(new)
        try:
            p = subprocess.run([PY, "-m", "pytest", "-x", "-q", "-p", "no:cacheprovider", "--timeout=120"], cwd=wk, env=env,
                               stdout=subprocess.PIPE, stderr=subprocess.STDOUT, timeout=600)
            res["suite"] = "pass" if p.returncode == 0 else "fail"
        except subprocess.TimeoutExpired:
            res["suite"] = "timeout"
        res["checks"] = {}
        if res["suite"] == "pass" and not suite_only:
            props = [p for p in pbf.get(m["file"], []) if p in claimed_set]
            if props_filter:
                props = [p for p in props if p in props_filter]
            for pid in props:
                env2 = dict(env, VERIF_REPO=wk, VERIF_SEED="0", VERIF_EVIDENCE_DIR=os.path.join(wk, "_ev"),
                            VERIF_REPLAY_DIR=os.path.join(wk, "_rp"))
                try:
                    p = subprocess.run([PY, os.path.join(VERIF, "harness", "check.py"), pid, "--tier", "quick"], cwd=VERIF,
                                       env=env2, stdout=subprocess.PIPE, stderr=subprocess.STDOUT, timeout=900)
                    out = p.stdout.decode(errors="replace")
                    if p.returncode == 1 and "VIOLATION" in out:
                        v = "CAUGHT" if any(l.startswith("VIOLATION") and "no-failing-input-found" not in l for l in out.splitlines()) else "CAUGHT-noinput"
                    elif p.returncode == 0:
                        v = "MISSED"
                    else:
                        v = f"INFRA:{out.strip().splitlines()[-1][:120] if out.strip() else p.returncode}"
                except subprocess.TimeoutExpired:
                    v = "TIMEOUT"
                res["checks"][pid] = v
                if v.startswith("CAUGHT") and not os.environ.get("MUT_ALL_CHECKS"):
                    break
    finally:
        with open(path, "w") as f:
            f.write(orig)
    return res


def cmd_run(a):
    muts = [json.loads(l) for l in open(a.inp)]
    done = set()
    if os.path.exists(a.out):
        for l in open(a.out):
            done.add(json.loads(l)["id"])
    muts = [m for m in muts if m["id"] not in done]
    if a.only_missed_from:
        ok = set()
        for l in open(a.only_missed_from):
            r0 = json.loads(l)
            if r0["suite"] == "pass" and not any(v.startswith("CAUGHT") for v in r0["checks"].values()):
                ok.add(r0["id"])
        muts = [m for m in muts if m["id"] in ok]
    if a.only_suite_pass_from:
        ok = {json.loads(l)["id"] for l in open(a.only_suite_pass_from) if json.loads(l)["suite"] == "pass"}
        muts = [m for m in muts if m["id"] in ok]
    pbf = props_by_file()
    cl = claimed()
    pf = set(a.props.split(",")) if a.props else None
    workers = [make_scratch() for _ in range(a.jobs)]
    free = list(workers)
    import threading
    lock = threading.Lock()
    outf = open(a.out, "a")

    def job(m):
        with lock:
            wk = free.pop()
        try:
            r = run_one(m, wk, pf, pbf, cl, a.suite_only)
        except Exception as e:  # noqa
            r = {"id": m["id"], "file": m["file"], "line": m["line"], "op": m["op"], "suite": f"error:{e!r}", "checks": {}}
        finally:
            with lock:
                free.append(wk)
        with lock:
            outf.write(json.dumps(r) + "\n")
            outf.flush()
        return r

    try:
        with ThreadPoolExecutor(max_workers=a.jobs) as ex:
            n = 0
            for r in ex.map(job, muts):
                n += 1
                if n % 50 == 0:
                    print(f"{n}/{len(muts)}", flush=True)
    finally:
        for w in workers:
            shutil.rmtree(w, ignore_errors=True)


def cmd_report(a):
    rs = [json.loads(l) for l in open(a.inp)]
    tot = len(rs)
    suite_pass = [r for r in rs if r["suite"] == "pass"]
    caught = [r for r in suite_pass if any(v.startswith("CAUGHT") for v in r["checks"].values())]
    nochk = [r for r in suite_pass if not r["checks"]]
    missed = [r for r in suite_pass if r["checks"] and not any(v.startswith("CAUGHT") for v in r["checks"].values())]
    infra = [r for r in missed if any(v.startswith(("INFRA", "TIMEOUT")) for v in r["checks"].values())]
    print(f"mutants {tot}; killed by the suite {tot - len(suite_pass)}; pass the suite {len(suite_pass)}")
    print(f"  of those: caught by a check {len(caught)}; not caught {len(missed)} (infra/timeouts among them {len(infra)}); no claimed check anchors the file {len(nochk)}")
    if a.list:
        for r in missed:
            print(f"  MISSED #{r['id']} {r['file']}:{r['line']} [{r['op']}] {r.get('before')!r} -> {r.get('after')!r} :: {r['checks']}")


def main():
    ap = argparse.ArgumentParser()
    sub = ap.add_subparsers(dest="cmd", required=True)
    g = sub.add_parser("gen")
    g.add_argument("--out", required=True)
    g.add_argument("--files", default=None)
    g.add_argument("--max-per-file", type=int, default=0)
    g.add_argument("--seed", type=int, default=0)
    r = sub.add_parser("run")
    r.add_argument("--in", dest="inp", required=True)
    r.add_argument("--out", required=True)
    r.add_argument("--jobs", type=int, default=12)
    r.add_argument("--props", default=None)
    r.add_argument("--suite-only", action="store_true")
    r.add_argument("--only-missed-from", default=None, help="results file of an earlier run: only mutants that passed the suite and were caught by no check there")
    r.add_argument("--only-suite-pass-from", default=None, help="results file of a --suite-only run: only mutants that passed the suite there are run")
    p = sub.add_parser("report")
    p.add_argument("--in", dest="inp", required=True)
    p.add_argument("--list", action="store_true")
    a = ap.parse_args()
    {"gen": cmd_gen, "run": cmd_run, "report": cmd_report}[a.cmd](a)


if __name__ == "__main__":
    sys.exit(main())
