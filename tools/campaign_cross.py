#!/usr/bin/env python3
"""Cross-property campaign run (campaign tool, not a registered check).

For every patch under harmless/ (or seeded/) that applies to /repo HEAD, run the quick check of EVERY property whose
anchors name a file the patch touches (not only the property the patch was written for), in parallel, against scratch
worktrees of /repo (VERIF_REPO; evidence and replays go to scratch directories).
  harmless: any VIOLATION is a false alarm to investigate;
  seeded:   shows which other checks also catch the change.
usage: tools/campaign_cross.py harmless|seeded [--jobs 4] [--seed 0] [--only C06-2,C09-1]
Writes <kind>/<id>/cross.json and prints one line per (patch, property).
"""
import argparse
import json
import os
import re
import shutil
import subprocess
import sys
import tempfile
from concurrent.futures import ThreadPoolExecutor

VERIF = os.path.dirname(os.path.dirname(os.path.abspath(__file__)))
PY = "/venv/bin/python"


def props_by_file():
    m = {}
    for l in open(os.path.join(VERIF, "properties.jsonl")):
        p = json.loads(l)
        for f in p["anchors"].get("files", []):
            m.setdefault(f, []).append(p["id"])
    return m


def touched(patch):
    return sorted(set(re.findall(r"^\+\+\+ b/(\S+)", open(patch).read(), flags=re.M)))


def run_patch(kind, d, seed, pbf):
    pdir = os.path.join(VERIF, kind, d)
    patch = os.path.join(pdir, "patch.diff")
    files = touched(patch)
    props = {p for f in files for p in pbf.get(f, [])}
    try:  # always run the property the patch was written for (indirect faults touch files it is not anchored in)
        props.add(json.load(open(os.path.join(pdir, "meta.json")))["property"])
    except Exception:  # noqa
        pass
    props = sorted(props)
    wt = tempfile.mkdtemp(prefix="cross-", dir="/tmp")
    os.rmdir(wt)
    out = {"files": files, "checks": {}}
    if subprocess.run(["git", "-C", "/repo", "worktree", "add", "-q", "--detach", wt, "HEAD"], capture_output=True).returncode != 0:
        return d, {"error": "worktree"}
    try:
        if subprocess.run(["git", "-C", wt, "apply", patch], capture_output=True).returncode != 0:
            return d, {"error": "patch does not apply to HEAD", "files": files}
        for pid in props:
            env = dict(os.environ, VERIF_REPO=wt, VERIF_SEED=str(seed), VERIF_EVIDENCE_DIR=os.path.join(wt, "_ev"),
                       VERIF_REPLAY_DIR=os.path.join(wt, "_rp"), PYTHONDONTWRITEBYTECODE="1")
            p = subprocess.run([PY, os.path.join(VERIF, "harness", "check.py"), pid, "--tier", "quick"], cwd=VERIF, env=env,
                               stdout=subprocess.PIPE, stderr=subprocess.STDOUT, timeout=1800)
            txt = p.stdout.decode(errors="replace")
            lines = [l for l in txt.splitlines() if l.startswith("VIOLATION") or l.strip().startswith(("kind=", "case="))]
            out["checks"][pid] = {"rc": p.returncode, "report": lines[:3]}
            print(f"{kind}/{d} {pid}: {'ALARM' if p.returncode == 1 else ('ok' if p.returncode == 0 else 'rc=%d' % p.returncode)} "
                  f"{lines[1][:150] if len(lines) > 1 else ''}", flush=True)
    finally:
        subprocess.run(["git", "-C", "/repo", "worktree", "remove", "--force", wt], capture_output=True)
        shutil.rmtree(wt, ignore_errors=True)
    return d, out


def main():
    ap = argparse.ArgumentParser()
    ap.add_argument("kind", choices=["harmless", "seeded"])
    ap.add_argument("--jobs", type=int, default=4)
    ap.add_argument("--seed", type=int, default=0)
    ap.add_argument("--only", default=None)
    a = ap.parse_args()
    pbf = props_by_file()
    dirs = sorted(os.listdir(os.path.join(VERIF, a.kind)))
    if a.only:
        dirs = [d for d in dirs if d in a.only.split(",")]
    dirs = [d for d in dirs if os.path.exists(os.path.join(VERIF, a.kind, d, "patch.diff"))]
    with ThreadPoolExecutor(max_workers=a.jobs) as ex:
        for d, out in ex.map(lambda d: run_patch(a.kind, d, a.seed, pbf), dirs):
            with open(os.path.join(VERIF, a.kind, d, "cross.json"), "w") as f:
                json.dump(out, f, indent=1)
    return 0


if __name__ == "__main__":
    sys.exit(main())
