#!/usr/bin/env python3
"""Re-generates the tables of DESIGN.md section 13 between the BEGIN/END markers."""
import os, re, subprocess, sys
HERE = os.path.dirname(os.path.dirname(os.path.abspath(__file__)))
p = os.path.join(HERE, "DESIGN.md")
s = open(p).read()
def sub(tag, text):
    global s
    s = re.sub(r"(<!-- BEGIN:%s -->\n).*?(<!-- END:%s -->)" % (tag, tag), lambda m: m.group(1) + text.strip("\n") + "\n" + m.group(2), s, flags=re.S)
status = subprocess.check_output([sys.executable, os.path.join(HERE, "tools", "status_table.py")]).decode()
camp = subprocess.check_output([sys.executable, os.path.join(HERE, "tools", "campaign_table.py")]).decode()
seeded, harmless = camp.split("\n\n", 1)
sub("status", status)
sub("seeded", seeded)
sub("harmless", harmless)
mt = os.path.join(HERE, "notes", "mutants-summary.md")
if os.path.exists(mt):
    sub("mutants", open(mt).read())
open(p, "w").write(s)
print("DESIGN.md refreshed")
