#!/usr/bin/env python3
"""Prints the per-property status table of DESIGN.md section 13 from MANIFEST.json, evidence/*.json
and the Lean sources (line counts of the Props/Model/Proofs files a property's check audits)."""
import json, os, re
HERE = os.path.dirname(os.path.dirname(os.path.abspath(__file__)))
man = json.load(open(os.path.join(HERE, "MANIFEST.json")))
print("| property | theorems (audited each run) | Props file(s), lines | quick: cases / wall | exhaustive sub-domains |")
print("|---|---|---|---|---|")
for c in man["checks"]:
    pid = c["property_id"]
    ev = json.load(open(os.path.join(HERE, "evidence", f"{pid}.json")))
    cov = ev["coverage"]
    mods = {t.rsplit(".", 1)[0] for t in cov.get("theorems", [])}
    # modules named by the harness module(s) of the property (theorems of several files may share one namespace)
    import re as _re
    for hp in [pid.lower()] + ([pid.lower() + "_fixed", pid.lower() + "_var"] if pid == "C06" else []):
        hf = os.path.join(HERE, "harness", "props", hp + ".py")
        if os.path.exists(hf):
            for lm in _re.findall(r"lean_modules\s*=\s*\[([^\]]*)\]", open(hf).read()):
                mods.update(_re.findall(r'"(SpVerif\.Props\.[A-Za-z0-9_]+)"', lm))
    mods = sorted(mods)
    files = []
    for m in mods:
        m2 = m.replace("SpVerif.Props.", "")
        p = os.path.join(HERE, "lean", "SpVerif", "Props", m2 + ".lean")
        if os.path.exists(p):
            files.append(f"Props/{m2}.lean ({sum(1 for _ in open(p))})")
    note = (cov.get("exhaustive_note") or "").replace("|", "/")
    note = note if len(note) < 200 else note[:199] + "…"
    print(f"| {pid} | {cov.get('discharged')}/{cov.get('obligations')} | {', '.join(files)} | {cov.get('evaluations')} / {ev.get('wall_s')} s ({ev.get('tier')}) | {note} |")
na = man.get("not_applicable", [])
if na:
    print("\nnot claimed: " + ", ".join(x["property_id"] for x in na))
tot = 0
for root, _, fs in os.walk(os.path.join(HERE, "lean", "SpVerif")):
    for f in fs:
        if f.endswith(".lean"):
            tot += sum(1 for _ in open(os.path.join(root, f)))
print(f"\nLean sources under lean/SpVerif: {tot} lines")
