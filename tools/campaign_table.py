#!/usr/bin/env python3
"""Prints the markdown tables of the seeded-change and harmless-rewrite campaigns from
seeded/*/meta.json and harmless/*/meta.json (the `lead_confirmation` blocks written by
tools/seeded_run.py --record). Used to refresh DESIGN.md section 13."""
import json
import os

HERE = os.path.dirname(os.path.dirname(os.path.abspath(__file__)))


def short(s, n=150):
    s = " ".join(str(s).split())
    return s if len(s) <= n else s[: n - 1] + "…"


def main():
    print("| id | property | change (needs to manifest) | demo clean/patched | suite | caught by (quick, seed 0) | also caught by (cross run) | first report |")
    print("|---|---|---|---|---|---|---|---|")
    for d in sorted(os.listdir(os.path.join(HERE, "seeded"))):
        mp = os.path.join(HERE, "seeded", d, "meta.json")
        if not os.path.exists(mp):
            continue
        m = json.load(open(mp))
        lc = m.get("lead_confirmation", {})
        checks = lc.get("checks", {})
        caught = ", ".join(f"{k.split('@')[0]}:{v['verdict']}{'' if v.get('concrete_failing_input') else ' (no input)'}" for k, v in checks.items())
        first = ""
        for v in checks.values():
            if v.get("first"):
                first = short(v["first"][0], 70)
                break
        needs = m.get("needs_to_manifest") or m.get("needs") or ""
        also = ""
        cp = os.path.join(HERE, "seeded", d, "cross.json")
        if os.path.exists(cp):
            cj = json.load(open(cp))
            also = ", ".join(k for k, v in cj.get("checks", {}).items() if v.get("rc") == 1 and k != m.get("property"))
        print(f"| {d}{' (r%d)' % m['round'] if m.get('round', 1) > 1 else ''} | {m.get('property')} | {short(m.get('summary', ''), 140)} — *{short(needs, 110)}* | "
              f"{lc.get('demo_clean_rc')}/{lc.get('demo_patched_rc')} | {short(lc.get('suite', ''), 12)} | {caught} | {also} | {first} |")
        if m.get("lead_note"):
            print(f"| | | ↳ {short(m['lead_note'], 400)} | | | | | |")
    print()
    print("| id | property | harmless rewrite | alarm? |")
    print("|---|---|---|---|")
    hd = os.path.join(HERE, "harmless")
    if os.path.isdir(hd):
        for d in sorted(os.listdir(hd)):
            mp = os.path.join(hd, d, "meta.json")
            if not os.path.exists(mp):
                continue
            m = json.load(open(mp))
            res = m.get("lead_result", "no alarm (seeds 0, 1)")
            print(f"| {d} | {m.get('property')} | {short(m.get('summary', ''), 230)} | {res} |")


if __name__ == "__main__":
    main()
