#!/usr/bin/env python3
"""Translate a configured list of integer expressions of /repo's Python source into Lean 4 `Nat`
definitions (`lean/SpVerif/Generated/Bits.lean`) plus a sidecar JSON (`Bits.json`).

The expressions are located with Python's `ast` (file, qualified function name, selector) in the
CURRENT source text, so a changed shift distance or mask changes the generated Lean text and the
theorems of `lean/SpVerif/Proofs/GeneratedBits.lean` (generated def = the hand-written model's
arithmetic) have to be re-proved against it.

Sub-language: names / attribute reads / `x[<literal or name>]` (-> Lean parameters), integer literals,
`<< >> & | ^ + - * // %`, `x & ~m` (-> `andNot`), `int(e)`, `pow(2, n)` / `2 ** n` (-> `2 ^ n`), module constants and enum members that
are integers (resolved by importing the module from the repo and reading the value), and configured
calls of another translated expression (`self.packet_id.raw()`). Everything else is refused: the
tool exits non-zero and names the expression; it never guesses.

usage: pyexpr2lean.py [--repo /repo] [--out lean/SpVerif/Generated/Bits.lean] [--sidecar <json>]
                      [--keep-going] [--report <json>] [--list]
"""
from __future__ import annotations

import argparse
import ast
import importlib
import json
import os
import re
import sys
from typing import Any, Dict, List, Optional, Tuple

HERE = os.path.dirname(os.path.dirname(os.path.abspath(__file__)))

SP = "spacepackets/ccsds/spacepacket.py"
HDR = "spacepackets/cfdp/pdu/header.py"
TC = "spacepackets/ecss/tc.py"
TM = "spacepackets/ecss/tm.py"
UH = "spacepackets/uslp/header.py"
UF = "spacepackets/uslp/frame.py"
ACK = "spacepackets/cfdp/pdu/ack.py"
EOF = "spacepackets/cfdp/pdu/eof.py"
FIN = "spacepackets/cfdp/pdu/finished.py"
MD = "spacepackets/cfdp/pdu/metadata.py"
PR = "spacepackets/cfdp/pdu/prompt.py"
FD = "spacepackets/cfdp/pdu/file_data.py"
TLV = "spacepackets/cfdp/tlv/tlv.py"
RID = "spacepackets/ecss/req_id.py"
CDS = "spacepackets/ccsds/time/cds.py"
SEQ = "spacepackets/seqcount.py"
UTIL = "spacepackets/util.py"


def E(name, file, qual, sel, owners, inline=None):
    return {"name": name, "file": file, "qual": qual, "sel": sel, "owners": owners, "inline": inline or {}}


# selector steps:
#   ("return", n=0)            value of the n-th return statement of the function
#   ("assign", "<target>", n=0) right-hand side of the n-th assignment whose target reads <target>
#   ("call", "<func>", n=0)    the n-th call whose callee reads <func> (e.g. "header.append", "struct.pack")
#   ("if", n=0)                test of the n-th if statement
#   ("arg", k) ("kw", "<name>") argument of the selected call;  ("elt", k) element of a tuple / list display
#   ("operand", k)             operand of the selected comparison (0 = left, k = k-th comparator) or of the
#                              selected `and` / `or` (k-th value)
#   ("unwrap", "<func>")       the single argument of a call of <func> (enum constructor, bool, bytes, ...)
EXPRESSIONS: List[Dict[str, Any]] = [
    # ---- CCSDS space packet primary header (C01) ------------------------------------------------
    E("packetSeqCtrl_raw", SP, "PacketSeqCtrl.raw", [("return",)], ["C01"]),
    E("packetSeqCtrl_from_raw_seq_flags", SP, "PacketSeqCtrl.from_raw",
      [("return",), ("kw", "seq_flags"), ("unwrap", "SequenceFlags")], ["C01"]),
    E("packetSeqCtrl_from_raw_seq_count", SP, "PacketSeqCtrl.from_raw", [("return",), ("kw", "seq_count")], ["C01"]),
    E("packetId_raw", SP, "PacketId.raw", [("return",)], ["C01"]),
    E("packetId_from_raw_ptype", SP, "PacketId.from_raw", [("return",), ("kw", "ptype"), ("unwrap", "PacketType")], ["C01"]),
    E("packetId_from_raw_sec_header_flag", SP, "PacketId.from_raw",
      [("return",), ("kw", "sec_header_flag"), ("unwrap", "bool")], ["C01"]),
    E("packetId_from_raw_apid", SP, "PacketId.from_raw", [("return",), ("kw", "apid")], ["C01"]),
    E("sph_pack_word0", SP, "SpacePacketHeader.pack", [("assign", "packet_id_with_version")], ["C01"],
      inline={"self.packet_id.raw()": "packetId_raw"}),
    E("sph_pack_word1", SP, "SpacePacketHeader.pack", [("call", "struct.pack", 1), ("arg", 1)], ["C01"],
      inline={"self._psc.raw()": "packetSeqCtrl_raw"}),
    E("sph_pack_word2", SP, "SpacePacketHeader.pack", [("call", "struct.pack", 2), ("arg", 1)], ["C01"]),
    E("sph_unpack_version", SP, "SpacePacketHeader.unpack", [("assign", "packet_version")], ["C01"]),
    E("sph_unpack_ptype", SP, "SpacePacketHeader.unpack", [("assign", "packet_type"), ("unwrap", "PacketType")], ["C01"]),
    E("sph_unpack_sec_header_flag", SP, "SpacePacketHeader.unpack", [("assign", "secondary_header_flag")], ["C01"]),
    E("sph_unpack_apid", SP, "SpacePacketHeader.unpack", [("assign", "apid")], ["C01"]),
    E("sph_unpack_seq_flags", SP, "SpacePacketHeader.unpack", [("assign", "sequence_flags")], ["C01"]),
    E("sph_unpack_seq_count", SP, "SpacePacketHeader.unpack", [("assign", "ssc")], ["C01"]),
    E("idBytes_byte_one", SP, "get_space_packet_id_bytes", [("assign", "byte_one")], ["C01"]),
    E("idBytes_byte_two", SP, "get_space_packet_id_bytes", [("assign", "byte_two")], ["C01"]),
    E("apid_from_raw_space_packet", SP, "get_apid_from_raw_space_packet", [("return",)], ["C01"]),
    # ---- CFDP fixed PDU header (C05) ----------------------------------------------------------
    E("pduHeader_pack_octet0", HDR, "PduHeader.pack", [("call", "header.append", 0), ("arg", 0)], ["C05"]),
    E("pduHeader_pack_octet1", HDR, "PduHeader.pack", [("call", "header.append", 1), ("arg", 0)], ["C05"]),
    E("pduHeader_pack_octet2", HDR, "PduHeader.pack", [("call", "header.append", 2), ("arg", 0)], ["C05"]),
    E("pduHeader_pack_octet3", HDR, "PduHeader.pack", [("call", "header.append", 3), ("arg", 0)], ["C05"]),
    E("pduHeader_unpack_version", HDR, "PduHeader.unpack", [("assign", "version_raw")], ["C05"]),
    E("pduHeader_unpack_pdu_type", HDR, "PduHeader.unpack", [("assign", "pdu_header._pdu_type"), ("unwrap", "PduType")], ["C05"]),
    E("pduHeader_unpack_direction", HDR, "PduHeader.unpack", [("assign", "pdu_header.direction"), ("unwrap", "Direction")], ["C05"]),
    E("pduHeader_unpack_trans_mode", HDR, "PduHeader.unpack",
      [("assign", "pdu_header.transmission_mode"), ("unwrap", "TransmissionMode")], ["C05"]),
    E("pduHeader_unpack_crc_flag", HDR, "PduHeader.unpack", [("assign", "pdu_header.crc_flag"), ("unwrap", "CrcFlag")], ["C05"]),
    E("pduHeader_unpack_file_flag", HDR, "PduHeader.unpack", [("assign", "pdu_header.file_flag"), ("unwrap", "LargeFileFlag")], ["C05"]),
    E("pduHeader_unpack_data_field_len", HDR, "PduHeader.unpack", [("assign", "pdu_header.pdu_data_field_len")], ["C05"]),
    E("pduHeader_unpack_seg_ctrl", HDR, "PduHeader.unpack",
      [("assign", "pdu_header.seg_ctrl"), ("unwrap", "SegmentationControl")], ["C05"]),
    E("pduHeader_unpack_entity_id_len", HDR, "PduHeader.unpack",
      [("assign", "expected_len_entity_ids"), ("unwrap", "cls.check_len_in_bytes")], ["C05"]),
    E("pduHeader_unpack_seg_meta_flag", HDR, "PduHeader.unpack",
      [("assign", "pdu_header.segment_metadata_flag"), ("unwrap", "SegmentMetadataFlag")], ["C05"]),
    E("pduHeader_unpack_seq_num_len", HDR, "PduHeader.unpack",
      [("assign", "expected_len_seq_num"), ("unwrap", "cls.check_len_in_bytes")], ["C05"]),
    E("headerLenFromRaw_entity_id_len", HDR, "AbstractPduBase.header_len_from_raw", [("assign", "entity_id_len")], ["C05"]),
    E("headerLenFromRaw_seq_num_len", HDR, "AbstractPduBase.header_len_from_raw", [("assign", "seq_num_len")], ["C05"]),
    E("headerLenFromRaw_total", HDR, "AbstractPduBase.header_len_from_raw", [("return",)], ["C05"]),
    # ---- PUS TC / TM secondary headers (C02, C03) -----------------------------------------------
    E("pusTc_pack_octet0", TC, "PusTcDataFieldHeader.pack", [("call", "header_raw.append", 0), ("arg", 0)], ["C02"]),
    E("pusTc_unpack_pus_version", TC, "PusTcDataFieldHeader.unpack", [("assign", "pus_version")], ["C02"]),
    E("pusTc_unpack_ack_flags", TC, "PusTcDataFieldHeader.unpack", [("assign", "ack_flags")], ["C02"]),
    E("pusTm_pack_octet0", TM, "PusTmSecondaryHeader.pack", [("call", "secondary_header.append", 0), ("arg", 0)], ["C03"]),
    E("pusTm_unpack_pus_version", TM, "PusTmSecondaryHeader.unpack", [("assign", "secondary_header.pus_version")], ["C03"]),
    E("pusTm_unpack_time_ref", TM, "PusTmSecondaryHeader.unpack", [("assign", "secondary_header.spacecraft_time_ref")], ["C03"]),
    # ---- USLP (C17) ---------------------------------------------------------------------------
    E("uslp_common_octet0", UH, "PrimaryHeaderBase._pack_common_header", [("call", "packet.append", 0), ("arg", 0)], ["C17"]),
    E("uslp_common_octet1", UH, "PrimaryHeaderBase._pack_common_header", [("call", "packet.append", 1), ("arg", 0)], ["C17"]),
    E("uslp_common_octet2", UH, "PrimaryHeaderBase._pack_common_header", [("call", "packet.append", 2), ("arg", 0)], ["C17"]),
    E("uslp_common_octet3", UH, "PrimaryHeaderBase._pack_common_header", [("call", "packet.append", 3), ("arg", 0)], ["C17"]),
    E("uslp_base_version", UH, "PrimaryHeaderBase._unpack_raw_header_base_fields", [("assign", "version_number")], ["C17"]),
    E("uslp_base_scid", UH, "PrimaryHeaderBase._unpack_raw_header_base_fields", [("assign", "scid")], ["C17"]),
    E("uslp_base_src_dest", UH, "PrimaryHeaderBase._unpack_raw_header_base_fields", [("assign", "src_dest")], ["C17"]),
    E("uslp_base_vcid", UH, "PrimaryHeaderBase._unpack_raw_header_base_fields", [("assign", "vcid")], ["C17"]),
    E("uslp_base_map_id", UH, "PrimaryHeaderBase._unpack_raw_header_base_fields", [("assign", "map_id")], ["C17"]),
    E("uslp_base_end_of_header", UH, "PrimaryHeaderBase._unpack_raw_header_base_fields",
      [("assign", "end_of_frame_primary_header")], ["C17"]),
    E("uslp_primary_pack_octet4", UH, "PrimaryHeader.pack", [("call", "packet.append", 0), ("arg", 0)], ["C17"]),
    E("uslp_primary_pack_octet5", UH, "PrimaryHeader.pack", [("call", "packet.append", 1), ("arg", 0)], ["C17"]),
    E("uslp_primary_pack_octet6", UH, "PrimaryHeader.pack", [("call", "packet.append", 2), ("arg", 0)], ["C17"]),
    E("uslp_primary_unpack_frame_len", UH, "PrimaryHeader.unpack", [("assign", "packet.frame_len")], ["C17"]),
    E("uslp_primary_unpack_bypass", UH, "PrimaryHeader.unpack", [("assign", "packet.bypass_seq_ctrl_flag")], ["C17"]),
    E("uslp_primary_unpack_prot_ctrl", UH, "PrimaryHeader.unpack", [("assign", "packet.prot_ctrl_cmd_flag")], ["C17"]),
    E("uslp_primary_unpack_op_ctrl", UH, "PrimaryHeader.unpack", [("assign", "packet.op_ctrl_flag")], ["C17"]),
    E("uslp_primary_unpack_vcf_count_len", UH, "PrimaryHeader.unpack", [("assign", "packet.vcf_count_len")], ["C17"]),
    E("uslp_header_type_test", UH, "determine_header_type", [("if", 1)], ["C17"]),
    E("tfdf_pack_octet0", UF, "TransferFrameDataField.pack", [("call", "packet.append", 0), ("arg", 0)], ["C17"]),
    E("tfdf_unpack_rules", UF, "TransferFrameDataField.unpack", [("assign", "tfdf.tfdz_contr_rules")], ["C17"]),
    E("tfdf_unpack_upid", UF, "TransferFrameDataField.unpack", [("assign", "tfdf.uslp_ident")], ["C17"]),
    E("tfdf_unpack_fhp_or_lvop", UF, "TransferFrameDataField.unpack", [("assign", "tfdf.fhp_or_lvop")], ["C17"]),
    # ---- CFDP file directives (C06) and the file data segment-metadata octet (C07) -------------
    E("ack_pack_octet0", ACK, "AckPdu.pack", [("call", "packet.append", 0), ("arg", 0)], ["C06"]),
    E("ack_pack_octet1", ACK, "AckPdu.pack", [("call", "packet.append", 1), ("arg", 0)], ["C06"]),
    E("ack_unpack_acked_code", ACK, "AckPdu.unpack", [("assign", "ack_packet.directive_code_of_acked_pdu")], ["C06"]),
    E("ack_unpack_subtype", ACK, "AckPdu.unpack", [("assign", "ack_packet.directive_subtype_code")], ["C06"]),
    E("ack_unpack_condition_code", ACK, "AckPdu.unpack", [("assign", "ack_packet.condition_code_of_acked_pdu")], ["C06"]),
    E("ack_unpack_transaction_status", ACK, "AckPdu.unpack", [("assign", "ack_packet.transaction_status")], ["C06"]),
    E("eof_pack_octet0", EOF, "EofPdu.pack", [("call", "eof_pdu.append", 0), ("arg", 0)], ["C06"]),
    E("eof_unpack_condition_code", EOF, "EofPdu.unpack", [("assign", "eof_pdu.condition_code")], ["C06"]),
    E("finished_pack_octet0", FIN, "FinishedPdu.pack", [("call", "packet.append", 0), ("arg", 0)], ["C06"]),
    E("finished_unpack_condition_code", FIN, "FinishedPdu.unpack",
      [("assign", "params"), ("kw", "condition_code"), ("unwrap", "ConditionCode")], ["C06"]),
    E("finished_unpack_delivery_code", FIN, "FinishedPdu.unpack",
      [("assign", "params"), ("kw", "delivery_code"), ("unwrap", "DeliveryCode")], ["C06"]),
    E("finished_unpack_file_status", FIN, "FinishedPdu.unpack",
      [("assign", "params"), ("kw", "file_status"), ("unwrap", "FileStatus")], ["C06"]),
    E("metadata_pack_octet0", MD, "MetadataPdu.pack", [("call", "packet.append", 0), ("arg", 0)], ["C06"]),
    E("metadata_unpack_closure_requested", MD, "MetadataPdu.unpack",
      [("assign", "params.closure_requested"), ("unwrap", "bool")], ["C06"]),
    E("metadata_unpack_checksum_type", MD, "MetadataPdu.unpack",
      [("assign", "params.checksum_type"), ("unwrap", "ChecksumType")], ["C06"]),
    E("prompt_pack_octet0", PR, "PromptPdu.pack", [("call", "prompt_pdu.append", 0), ("arg", 0)], ["C06"]),
    E("prompt_unpack_response_required", PR, "PromptPdu.unpack",
      [("assign", "prompt_pdu.response_required"), ("unwrap", "ResponseRequired")], ["C06"]),
    E("fileData_pack_seg_meta_octet", FD, "FileDataPdu.pack", [("call", "file_data_pdu.append", 0), ("arg", 0)], ["C07"]),
    E("fileData_unpack_rec_cont_state", FD, "FileDataPdu.unpack",
      [("assign", "rec_cont_state"), ("unwrap", "RecordContinuationState")], ["C07"]),
    E("fileData_unpack_seg_meta_len", FD, "FileDataPdu.unpack", [("assign", "segment_metadata_len")], ["C07"]),
    # ---- CFDP TLVs (C08) ------------------------------------------------------------------------
    E("filestore_pack_octet0", TLV, "FileStoreRequestBase._common_packer", [("call", "tlv_value.append", 0), ("arg", 0)], ["C08"]),
    E("filestore_unpack_action_code", TLV, "FileStoreRequestBase._common_unpacker", [("assign", "action_code_as_int")], ["C08"]),
    E("filestore_unpack_status_code", TLV, "FileStoreRequestBase._common_unpacker", [("assign", "status_code_as_int")], ["C08"]),
    E("filestore_response_status_named", TLV, "FileStoreResponseTlv._set_fields",
      [("assign", "status_code_named"), ("unwrap", "FilestoreResponseStatusCode")], ["C08"]),
    E("map_enum_status_code_to_int", TLV, "map_enum_status_code_to_int", [("return",)], ["C08"]),
    E("map_enum_status_code_action", TLV, "map_enum_status_code_to_action_status_code",
      [("return",), ("elt", 0), ("unwrap", "FilestoreActionCode")], ["C08"]),
    E("map_enum_status_code_status", TLV, "map_enum_status_code_to_action_status_code", [("return",), ("elt", 1)], ["C08"]),
    E("map_int_status_code_to_enum", TLV, "map_int_status_code_to_enum",
      [("assign", "status_code"), ("unwrap", "FilestoreResponseStatusCode")], ["C08"]),
    E("faultHandler_pack_octet", TLV, "FaultHandlerOverrideTlv.__init__",
      [("call", "CfdpTlv", 0), ("kw", "value"), ("unwrap", "bytes"), ("elt", 0)], ["C08"]),
    E("faultHandler_unpack_condition_code", TLV, "FaultHandlerOverrideTlv.from_tlv",
      [("assign", "fault_handler_tlv.condition_code")], ["C08"]),
    E("faultHandler_unpack_handler_code", TLV, "FaultHandlerOverrideTlv.from_tlv",
      [("assign", "fault_handler_tlv.handler_code")], ["C08"]),
    # ---- PUS request id (C15) -------------------------------------------------------------------
    E("reqId_unpack_version", RID, "RequestId.unpack", [("return",), ("kw", "ccsds_version")], ["C15"]),
    E("reqId_pack_word0", RID, "RequestId.pack", [("assign", "packet_id_and_version")], ["C15"],
      inline={"self.tc_packet_id.raw()": "packetId_raw"}),
    E("reqId_pack_word1", RID, "RequestId.pack", [("call", "struct.pack", 1), ("arg", 1)], ["C15"],
      inline={"self.tc_psc.raw()": "packetSeqCtrl_raw"}),
    E("reqId_as_u32_word0", RID, "RequestId.as_u32", [("assign", "packet_id_and_version")], ["C15"],
      inline={"self.tc_packet_id.raw()": "packetId_raw"}),
    E("reqId_as_u32", RID, "RequestId.as_u32", [("return",)], ["C15"],
      inline={"self.tc_psc.raw()": "packetSeqCtrl_raw"}),
    # ---- CDS short timestamp (C14) --------------------------------------------------------------
    E("cds_pfield", CDS, "CdsShortTimestamp.__init__", [("call", "bytes", 0), ("arg", 0), ("elt", 0)], ["C14"]),
    E("cds_len_of_day_seg", CDS, "len_of_day_seg_from_pfield", [("return",), ("unwrap", "LenOfDaysSegment")], ["C14"]),
    E("cds_unpack_time_code", CDS, "CdsShortTimestamp.unpack_from_raw", [("if", 1), ("operand", 0)], ["C14"]),
    E("cds_unix_seconds_of_days", CDS, "CdsShortTimestamp._calculate_unix_seconds", [("assign", "self._unix_seconds")], ["C14"]),
    E("cds_add_ms_of_day", CDS, "CdsShortTimestamp.__add__", [("assign", "ms_of_day")], ["C14"]),
    E("cds_add_ms_per_day", CDS, "CdsShortTimestamp.__add__", [("if", 1), ("operand", 1)], ["C14"]),
    E("cds_add_max_days", CDS, "CdsShortTimestamp.__add__", [("if", 2), ("operand", 1)], ["C14"]),
    E("cds_from_datetime_ms", CDS, "CdsShortTimestamp.from_datetime", [("assign", "instance._ms_of_day")], ["C14"]),
    # ---- sequence counters (C19) ----------------------------------------------------------------
    E("seqMem_modulus", SEQ, "SeqCountProvider.get_and_increment", [("assign", "modulus")], ["C19"]),
    E("seqMem_curr_count", SEQ, "SeqCountProvider.get_and_increment", [("assign", "curr_count")], ["C19"]),
    E("seqMem_next_count", SEQ, "SeqCountProvider.get_and_increment", [("assign", "self.count")], ["C19"]),
    E("seqFile_check_max", SEQ, "FileSeqCountProvider.check_count", [("if", 1), ("operand", 1), ("operand", 1)], ["C19"]),
    E("seqFile_incr_max", SEQ, "FileSeqCountProvider._increment_with_rollover", [("if", 0), ("operand", 1)], ["C19"]),
    E("seqFile_incr_next", SEQ, "FileSeqCountProvider._increment_with_rollover", [("return", 1)], ["C19"]),
    # ---- integer <-> octets helpers and unsigned byte fields (C20) -------------------------------
    E("toSigned_max", UTIL, "IntByteConversion.to_signed", [("if", 2), ("operand", 1)], ["C20"]),
    E("toUnsigned_max", UTIL, "IntByteConversion.to_unsigned", [("if", 2), ("operand", 1)], ["C20"]),
    E("byteField_verify_int_max", UTIL, "UnsignedByteField._verify_int_value",
      [("if", 0), ("operand", 0), ("operand", 1)], ["C20"]),
]


class Unsupported(Exception):
    pass


LEAN_RESERVED = {
    "end", "at", "from", "open", "in", "do", "then", "else", "if", "let", "have", "show", "fun", "by", "with", "match",
    "def", "theorem", "namespace", "section", "import", "where", "instance", "structure", "class", "Type", "Prop", "Sort",
    "for", "return", "mut", "try", "catch", "finally", "export", "variable", "universe", "macro", "syntax", "deriving",
    "andNot",
}

BINOPS = {
    ast.LShift: "<<<", ast.RShift: ">>>", ast.BitAnd: "&&&", ast.BitOr: "|||", ast.BitXor: "^^^",
    ast.Add: "+", ast.Sub: "-", ast.Mult: "*", ast.FloorDiv: "/", ast.Mod: "%",
}


def seg(src: str, node: ast.AST) -> str:
    s = ast.get_source_segment(src, node)
    return s if s is not None else ast.unparse(node)


def oneline(s: str) -> str:
    return re.sub(r"\s+", " ", s).strip()


def ordered_nodes(fn: ast.AST) -> List[ast.AST]:
    """all nodes of the function body in source order, without descending into nested defs / lambdas / classes"""
    out: List[ast.AST] = []

    def rec(n: ast.AST):
        for c in ast.iter_child_nodes(n):
            if isinstance(c, (ast.FunctionDef, ast.AsyncFunctionDef, ast.Lambda, ast.ClassDef)):
                continue
            out.append(c)
            rec(c)

    for st in fn.body:  # type: ignore[attr-defined]
        if isinstance(st, (ast.FunctionDef, ast.AsyncFunctionDef, ast.ClassDef)):
            continue
        out.append(st)
        rec(st)
    out.sort(key=lambda n: (getattr(n, "lineno", 10 ** 9), getattr(n, "col_offset", 10 ** 9)))
    return out


def find_function(tree: ast.Module, qual: str) -> Tuple[ast.FunctionDef, Optional[str]]:
    parts = qual.split(".")
    scope: List[ast.stmt] = tree.body
    cls_name = None
    for i, p in enumerate(parts):
        last = i == len(parts) - 1
        cands = [n for n in scope if isinstance(n, (ast.FunctionDef, ast.ClassDef) if last else ast.ClassDef) and n.name == p]
        if last:
            cands = [n for n in cands if isinstance(n, ast.FunctionDef)]
        if len(cands) != 1:
            raise Unsupported(f"{'no' if not cands else 'more than one'} definition of `{qual}`")
        if last:
            return cands[0], cls_name  # type: ignore[return-value]
        cls_name = p
        scope = cands[0].body
    raise Unsupported(f"no definition of `{qual}`")


def select(src: str, fn: ast.FunctionDef, sel: List[tuple]) -> Tuple[ast.AST, List[str]]:
    nodes = ordered_nodes(fn)
    cur: Optional[ast.AST] = None
    wrappers: List[str] = []
    for step in sel:
        kind = step[0]
        if kind == "return":
            n = step[1] if len(step) > 1 else 0
            rets = [x for x in nodes if isinstance(x, ast.Return) and x.value is not None]
            if n >= len(rets):
                raise Unsupported(f"return statement #{n} not found")
            cur = rets[n].value
        elif kind == "assign":
            target = step[1]
            n = step[2] if len(step) > 2 else 0
            hits = []
            for x in nodes:
                if isinstance(x, ast.Assign) and len(x.targets) == 1 and oneline(seg(src, x.targets[0])) == target:
                    hits.append(x.value)
                elif isinstance(x, ast.AnnAssign) and x.value is not None and oneline(seg(src, x.target)) == target:
                    hits.append(x.value)
            if n >= len(hits):
                raise Unsupported(f"assignment #{n} to `{target}` not found")
            cur = hits[n]
        elif kind == "call":
            func = step[1]
            n = step[2] if len(step) > 2 else 0
            hits = [x for x in nodes if isinstance(x, ast.Call) and oneline(seg(src, x.func)) == func]
            if n >= len(hits):
                raise Unsupported(f"call #{n} of `{func}` not found")
            cur = hits[n]
        elif kind == "if":
            n = step[1] if len(step) > 1 else 0
            hits = [x for x in nodes if isinstance(x, ast.If)]
            if n >= len(hits):
                raise Unsupported(f"if statement #{n} not found")
            cur = hits[n].test
        elif kind == "arg":
            if not isinstance(cur, ast.Call) or step[1] >= len(cur.args) or any(isinstance(a, ast.Starred) for a in cur.args):
                raise Unsupported(f"positional argument {step[1]} not found")
            cur = cur.args[step[1]]
        elif kind == "kw":
            if not isinstance(cur, ast.Call):
                raise Unsupported(f"keyword argument `{step[1]}`: not a call")
            hits = [k.value for k in cur.keywords if k.arg == step[1]]
            if len(hits) != 1:
                raise Unsupported(f"keyword argument `{step[1]}` not found")
            cur = hits[0]
        elif kind == "elt":
            if not isinstance(cur, (ast.Tuple, ast.List)) or step[1] >= len(cur.elts):
                raise Unsupported(f"element {step[1]}: not a tuple / list display of that size")
            cur = cur.elts[step[1]]
        elif kind == "operand":
            k = step[1]
            if isinstance(cur, ast.Compare):
                ops = [cur.left] + list(cur.comparators)
            elif isinstance(cur, ast.BoolOp):
                ops = list(cur.values)
            else:
                raise Unsupported(f"operand {k}: not a comparison / `and` / `or`")
            if k >= len(ops):
                raise Unsupported(f"operand {k} not found")
            cur = ops[k]
        elif kind == "unwrap":
            if not (isinstance(cur, ast.Call) and len(cur.args) == 1 and not cur.keywords
                    and not isinstance(cur.args[0], ast.Starred) and oneline(seg(src, cur.func)) == step[1]):
                raise Unsupported(f"expected a call `{step[1]}(<one argument>)`, found `{oneline(seg(src, cur))[:80]}`")
            wrappers.append(step[1])
            cur = cur.args[0]
        else:
            raise Unsupported(f"unknown selector step {step!r}")
    if cur is None:
        raise Unsupported("empty selector")
    return cur, wrappers


def local_names(fn: ast.FunctionDef) -> set:
    names = set()
    a = fn.args
    for arg in list(a.posonlyargs) + list(a.args) + list(a.kwonlyargs):
        names.add(arg.arg)
    if a.vararg:
        names.add(a.vararg.arg)
    if a.kwarg:
        names.add(a.kwarg.arg)
    for n in ordered_nodes(fn):
        if isinstance(n, ast.Name) and isinstance(n.ctx, ast.Store):
            names.add(n.id)
    return names


def attr_chain(node: ast.AST) -> Optional[List[str]]:
    parts: List[str] = []
    while isinstance(node, ast.Attribute):
        parts.append(node.attr)
        node = node.value
    if isinstance(node, ast.Name):
        parts.append(node.id)
        return list(reversed(parts))
    return None


def lean_ident(chain_text: str) -> str:
    parts = [p.lstrip("_") for p in chain_text.split(".")]
    if parts and parts[0] in ("self", "cls") and len(parts) > 1:
        parts = parts[1:]
    name = "_".join(p for p in parts if p)
    name = re.sub(r"[^A-Za-z0-9_]", "_", name)
    if not name or name[0].isdigit():
        name = "x_" + name
    if name in LEAN_RESERVED:
        name += "_"
    return name


class Translator:
    def __init__(self, src: str, module: Any, fn: ast.FunctionDef, cls_name: Optional[str], entry: Dict[str, Any],
                 done: Dict[str, Dict[str, Any]]):
        self.src = src
        self.module = module
        self.fn = fn
        self.cls_name = cls_name
        self.entry = entry
        self.done = done
        self.locals = local_names(fn)
        self.params: List[Tuple[str, str]] = []      # (python atom text, lean name) in order of first occurrence
        self.constants: List[Tuple[str, int]] = []   # resolved module constants / enum members

    # -- atoms ------------------------------------------------------------------------------
    def param(self, text: str) -> str:
        for t, l in self.params:
            if t == text:
                return l
        l = lean_ident(text)
        if any(l == l2 for _, l2 in self.params):
            raise Unsupported(f"two different source atoms map to the Lean parameter `{l}`")
        self.params.append((text, l))
        return l

    def resolve_global(self, chain: List[str]) -> Optional[int]:
        obj: Any = self.module
        for p in chain:
            if not hasattr(obj, p):
                return None
            obj = getattr(obj, p)
        if isinstance(obj, bool) or not isinstance(obj, int):
            return None
        return int(obj)

    def const(self, text: str, val: int) -> str:
        if val < 0:
            raise Unsupported(f"constant `{text}` is negative ({val})")
        if (text, val) not in self.constants:
            self.constants.append((text, val))
        return str(val) if val < 16 else "0x%X" % val

    def atom(self, node: ast.AST) -> str:
        if isinstance(node, ast.Subscript):
            base = attr_chain(node.value)
            if base is None:
                raise Unsupported(f"subscript of `{oneline(seg(self.src, node.value))}`")
            if base[0] not in self.locals:
                raise Unsupported(f"subscript of the non-local `{'.'.join(base)}`")
            idx = node.slice
            if isinstance(idx, ast.Constant) and isinstance(idx.value, int) and not isinstance(idx.value, bool) and idx.value >= 0:
                return self.param(".".join(base) + "." + str(idx.value))
            if isinstance(idx, ast.Name) and idx.id in self.locals:
                return self.param(".".join(base) + "." + idx.id)
            raise Unsupported(f"subscript index `{oneline(seg(self.src, idx))}` (only a literal or a local name)")
        chain = attr_chain(node)
        if chain is None:
            raise Unsupported(f"`{oneline(seg(self.src, node))}`")
        text = ".".join(chain)
        if chain[0] in self.locals:
            # class-level integer constant read through self / cls (e.g. cls.FIXED_LENGTH)
            if chain[0] in ("self", "cls") and len(chain) == 2 and self.cls_name is not None:
                cls = getattr(self.module, self.cls_name, None)
                raw = None
                for k in (getattr(cls, "__mro__", ()) if cls is not None else ()):
                    if chain[1] in vars(k):
                        raw = vars(k)[chain[1]]
                        break
                if isinstance(raw, int) and not isinstance(raw, bool):
                    return self.const(text, int(raw))
            return self.param(text)
        val = self.resolve_global(chain)
        if val is None:
            raise Unsupported(f"`{text}` is neither a local of the function nor an integer constant of the module")
        return self.const(text, val)

    # -- expressions ------------------------------------------------------------------------
    def tr(self, node: ast.AST) -> str:
        text = oneline(seg(self.src, node))
        if text in self.entry["inline"]:
            return self.inline_call(node, self.entry["inline"][text])
        if isinstance(node, ast.Constant):
            v = node.value
            if isinstance(v, bool) or not isinstance(v, int):
                raise Unsupported(f"literal `{text}` is not an integer")
            lit = text.replace("_", "")
            if re.fullmatch(r"0[xX][0-9a-fA-F]+", lit):
                return "0x" + lit[2:].upper()
            if re.fullmatch(r"0[bB][01]+", lit):
                return "0b" + lit[2:]
            return str(v)
        if isinstance(node, ast.BinOp):
            if isinstance(node.op, ast.Pow):
                return self.pow2(node.left, node.right, text)
            op = BINOPS.get(type(node.op))
            if op is None:
                raise Unsupported(f"operator `{type(node.op).__name__}` in `{text}`")
            if isinstance(node.op, ast.BitAnd):
                for a, b in ((node.left, node.right), (node.right, node.left)):
                    if isinstance(b, ast.UnaryOp) and isinstance(b.op, ast.Invert):
                        return f"(andNot {self.tr_arg(a)} {self.tr_arg(b.operand)})"
            return f"({self.tr(node.left)} {op} {self.tr(node.right)})"
        if isinstance(node, ast.UnaryOp):
            if isinstance(node.op, ast.UAdd):
                return self.tr(node.operand)
            raise Unsupported(f"unary operator `{type(node.op).__name__}` in `{text}` (only `x & ~m` is translated)")
        if isinstance(node, ast.Call):
            if (isinstance(node.func, ast.Name) and node.func.id == "int" and "int" not in self.locals
                    and len(node.args) == 1 and not node.keywords and not isinstance(node.args[0], ast.Starred)):
                return self.tr(node.args[0])
            if (isinstance(node.func, ast.Name) and node.func.id == "pow" and "pow" not in self.locals
                    and len(node.args) == 2 and not node.keywords and not any(isinstance(a, ast.Starred) for a in node.args)):
                return self.pow2(node.args[0], node.args[1], text)
            raise Unsupported(f"call `{text}`")
        if isinstance(node, (ast.Name, ast.Attribute, ast.Subscript)):
            return self.atom(node)
        raise Unsupported(f"syntax `{type(node).__name__}`: `{text[:80]}`")

    def pow2(self, base: ast.AST, exp: ast.AST, text: str) -> str:
        """`pow(2, n)` / `2 ** n` with a non-negative exponent (a `Nat` term) -> `2 ^ n`"""
        if not (isinstance(base, ast.Constant) and isinstance(base.value, int) and not isinstance(base.value, bool)
                and base.value == 2):
            raise Unsupported(f"power `{text}` (only base 2 is translated)")
        return f"(2 ^ {self.tr_arg(exp)})"

    def tr_arg(self, node: ast.AST) -> str:
        s = self.tr(node)
        return s if re.fullmatch(r"[A-Za-z0-9_']+", s) or s.startswith("(") else f"({s})"

    def inline_call(self, node: ast.AST, callee: str) -> str:
        if callee not in self.done:
            raise Unsupported(f"`{callee}` (called here) was not translated")
        if not (isinstance(node, ast.Call) and not node.args and not node.keywords and isinstance(node.func, ast.Attribute)):
            raise Unsupported("an inlined call must be a method call without arguments")
        recv = attr_chain(node.func.value)
        if recv is None or recv[0] not in self.locals:
            raise Unsupported("receiver of the inlined call is not an attribute chain of a local")
        args = []
        for ptext, _ in self.done[callee]["params_py"]:
            parts = ptext.split(".")
            if parts[0] != "self":
                raise Unsupported(f"`{callee}` reads `{ptext}`, which is not an attribute of its receiver")
            args.append(self.param(".".join(recv + parts[1:])))
        return "(" + " ".join([callee] + args) + ")"


def translate_all(repo: str) -> Tuple[List[Dict[str, Any]], List[Dict[str, Any]]]:
    repo = os.path.abspath(repo)
    if sys.path[0] != repo:
        sys.path.insert(0, repo)
    ok: List[Dict[str, Any]] = []
    failed: List[Dict[str, Any]] = []
    done: Dict[str, Dict[str, Any]] = {}
    cache: Dict[str, Tuple[str, ast.Module, Any]] = {}
    for e in EXPRESSIONS:
        rec = {"name": e["name"], "file": e["file"], "function": e["qual"], "owners": e["owners"],
               "theorem": f"SpVerif.Generated.{e['name']}_eq", "line": 0, "source": ""}
        try:
            if e["file"] not in cache:
                path = os.path.join(repo, e["file"])
                try:
                    src = open(path, encoding="utf-8").read()
                    tree = ast.parse(src)
                except (OSError, SyntaxError) as ex:
                    raise Unsupported(f"cannot read / parse the file: {ex}")
                modname = e["file"][:-3].replace("/", ".")
                try:
                    module = importlib.import_module(modname)
                except BaseException as ex:  # noqa
                    raise Unsupported(f"cannot import {modname}: {type(ex).__name__}: {ex}")
                got = os.path.abspath(getattr(module, "__file__", ""))
                if got != os.path.abspath(path):
                    raise Unsupported(f"imported {modname} from {got}, not from the repo under translation")
                cache[e["file"]] = (src, tree, module)
            src, tree, module = cache[e["file"]]
            fn, cls_name = find_function(tree, e["qual"])
            rec["line"] = fn.lineno
            node, wrappers = select(src, fn, e["sel"])
            rec["line"] = node.lineno
            rec["source"] = oneline(seg(src, node))
            t = Translator(src, module, fn, cls_name, e, done)
            body = t.tr(node)
            rec.update({"lean": body, "params": [l for _, l in t.params], "params_py": t.params,
                        "constants": t.constants, "wrappers": wrappers})
            done[e["name"]] = rec
            ok.append(rec)
        except Unsupported as ex:
            rec["reason"] = str(ex)
            failed.append(rec)
    return ok, failed


HEADER = """/-!
# Generated by `tools/pyexpr2lean.py` — do not edit

One `Nat` definition per integer expression located in the Python source of the package under
verification (file, function and selector are configured in the tool). The text is regenerated from
the current source on every check run; `SpVerif/Proofs/GeneratedBits.lean` proves each definition
equal to the arithmetic of the hand-written model.

Python `int` operators are rendered on `Nat`: `<<` `>>` `&` `|` `^` as `<<<` `>>>` `&&&` `|||` `^^^`,
`//` `%` as `/` `%` (all operands are non-negative in the domain of the theorems), `-` as truncated
subtraction (the theorems carry the hypotheses under which it does not truncate), and `x & ~m` as
`andNot x m = x - (x &&& m)` (clearing the bits of `m`; equal to Python's result for `x, m ≥ 0`),
`pow(2, n)` / `2 ** n` as `2 ^ n` (the exponent is a `Nat` term: non-negative).
-/
namespace SpVerif.Generated

/-- Python `x & ~m` for non-negative `x`, `m`: the bits of `m` cleared in `x`. -/
def andNot (x m : Nat) : Nat := x - (x &&& m)
"""


def render(ok: List[Dict[str, Any]]) -> str:
    out = [HEADER]
    for r in ok:
        doc = f"`{r['file']}:{r['line']}` in `{r['function']}`: `{r['source']}`".replace("-/", "- /")
        extras = []
        if r["constants"]:
            extras.append("constants: " + ", ".join(f"`{t}` = {v}" + (f" = 0x{v:X}" if v >= 16 else "") for t, v in r["constants"]))
        if r["wrappers"]:
            extras.append("the value is passed to " + ", ".join(f"`{w}(…)`" for w in r["wrappers"]))
        if extras:
            doc += "\n    (" + "; ".join(extras) + ")"
        binder = f" ({' '.join(r['params'])} : Nat)" if r["params"] else ""
        out.append(f"/-- {doc} -/\ndef {r['name']}{binder} : Nat :=\n  {r['lean']}\n")
    out.append("end SpVerif.Generated\n")
    return "\n".join(out)


def sidecar(ok: List[Dict[str, Any]]) -> str:
    keep = ("name", "file", "line", "function", "source", "theorem", "owners", "params", "lean")
    return json.dumps([{k: r[k] for k in keep} for r in ok], indent=1, sort_keys=True) + "\n"


def main(argv: List[str]) -> int:
    ap = argparse.ArgumentParser()
    ap.add_argument("--repo", default=os.environ.get("VERIF_REPO", "/repo"))
    ap.add_argument("--out", default=os.path.join(HERE, "lean", "SpVerif", "Generated", "Bits.lean"))
    ap.add_argument("--sidecar", default=None, help="default: <out with .json>")
    ap.add_argument("--keep-going", action="store_true", help="write the output for the translatable expressions even if some fail")
    ap.add_argument("--report", default=None, help="write {ok:[...], failed:[...]} as JSON")
    ap.add_argument("--list", action="store_true")
    args = ap.parse_args(argv)
    if args.list:
        for e in EXPRESSIONS:
            print(e["name"], e["file"], e["qual"], ",".join(e["owners"]))
        return 0
    ok, failed = translate_all(args.repo)
    for r in failed:
        print(f"pyexpr2lean: cannot translate {r['name']} ({r['file']}:{r['line']} in {r['function']}): {r['reason']}",
              file=sys.stderr)
    if args.report:
        keep = ("name", "file", "line", "function", "source", "theorem", "owners", "reason")
        with open(args.report, "w") as f:
            json.dump({"ok": [r["name"] for r in ok], "failed": [{k: r.get(k) for k in keep} for r in failed]}, f, indent=1)
    if not failed or args.keep_going:
        side = args.sidecar or (os.path.splitext(args.out)[0] + ".json")
        os.makedirs(os.path.dirname(os.path.abspath(args.out)), exist_ok=True)
        with open(args.out, "w", encoding="utf-8") as f:
            f.write(render(ok))
        with open(side, "w", encoding="utf-8") as f:
            f.write(sidecar(ok))
    return 1 if failed else 0


if __name__ == "__main__":
    sys.exit(main(sys.argv[1:]))
