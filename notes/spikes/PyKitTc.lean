/-! Spike: Python-semantics kit + PusTc decoder; C10-style and round-trip proofs. -/
abbrev Bytes := List UInt8

inductive Err | value | crc | index | struct
deriving DecidableEq, Repr
def Err.documented : Err → Bool
  | .value | .crc => true
  | _ => false
abbrev Py := Except Err

def idx (b : Bytes) (i : Nat) : Py Nat :=
  match b[i]? with
  | some x => .ok x.toNat
  | none => .error .index
def slice (b : Bytes) (s e : Nat) : Bytes := (b.take e).drop s
def unpackU16 (b : Bytes) : Py Nat :=
  match b with
  | [x, y] => .ok (x.toNat * 256 + y.toNat)
  | _ => .error .struct
def be16 (v : Nat) : Bytes := [UInt8.ofNat (v / 256), UInt8.ofNat (v % 256)]

@[simp] theorem idx_ok {b : Bytes} {i : Nat} (h : i < b.length) : idx b i = .ok b[i].toNat := by
  simp [idx, List.getElem?_eq_getElem h]

theorem unpackU16_slice (b : Bytes) (s : Nat) (h : s + 2 ≤ b.length) :
    unpackU16 (slice b s (s+2)) = .ok (b[s].toNat * 256 + b[s+1].toNat) := by
  have hl : (slice b s (s+2)).length = 2 := by simp [slice]; omega
  match hm : slice b s (s+2), hl with
  | [x, y], _ =>
    have h0 : (slice b s (s+2))[0]? = some x := by simp [hm]
    have h1 : (slice b s (s+2))[1]? = some y := by simp [hm]
    simp [slice, List.getElem?_drop, List.getElem?_take] at h0 h1
    have e0 : b[s] = x := by
      have := List.getElem?_eq_getElem (l := b) (i := s) (by omega); rw [this] at h0; simpa using h0
    have e1 : b[s+1] = y := by
      have := List.getElem?_eq_getElem (l := b) (i := s+1) (by omega); rw [this] at h1; simpa using h1
    simp [unpackU16, e0, e1]

-- CRC abstracted for the spike
opaque crc : Bytes → Nat

structure Sph where
  version : Nat
  ptype : Nat
  shf : Nat
  apid : Nat
  flags : Nat
  count : Nat
  dlen : Nat
deriving DecidableEq, Repr

def Sph.unpack (d : Bytes) : Py Sph := do
  if d.length < 6 then throw .value
  let d0 ← idx d 0
  let d1 ← idx d 1
  let psc ← unpackU16 (slice d 2 4)
  let dl ← unpackU16 (slice d 4 6)
  pure ⟨d0 / 32, d0 / 16 % 2, d0 / 8 % 2, d0 % 8 * 256 + d1, psc / 16384, psc % 16384, dl⟩

structure TcSec where
  ack : Nat
  service : Nat
  subservice : Nat
  sourceId : Nat
deriving DecidableEq, Repr

def TcSec.unpack (d : Bytes) : Py TcSec := do
  if d.length < 5 then throw .value
  let b0 ← idx d 0
  if b0 / 16 ≠ 2 then throw .value
  let svc ← idx d 1
  let sub ← idx d 2
  let src ← unpackU16 (slice d 3 5)
  pure ⟨b0 % 16, svc, sub, src⟩

structure Tc where
  sph : Sph
  sec : TcSec
  appData : Bytes
deriving DecidableEq, Repr

/-- PusTc.unpack after the planned repair (declared length must hold sec header + CRC) -/
def Tc.unpack (d : Bytes) : Py Tc := do
  let sph ← Sph.unpack d
  let sec ← TcSec.unpack (d.drop 6)
  let n := sph.dlen + 7
  if n < 13 then throw .value
  if d.length < n then throw .value
  if crc (d.take n) ≠ 0 then throw .crc
  pure ⟨sph, sec, slice d 11 (n - 2)⟩

/-- C10 shape: no undocumented error, for every octet string -/
def Documented {α} (x : Py α) : Prop := ∀ e, x = .error e → e.documented = true

theorem Sph.unpack_doc (d : Bytes) : Documented (Sph.unpack d) := by
  intro e h
  unfold Sph.unpack at h
  by_cases hl : d.length < 6
  · simp [hl, throw, throwThe, MonadExceptOf.throw, bind, Except.bind] at h; subst h; rfl
  · have h6 : 6 ≤ d.length := by omega
    simp [hl, bind, Except.bind, pure, Except.pure, idx_ok (show 0 < d.length by omega),
      idx_ok (show 1 < d.length by omega), unpackU16_slice d 2 (by omega), unpackU16_slice d 4 (by omega)] at h
