/-! Spike: space-packet stream parser (fixed version: residual always kept) and chunk invariance. -/
abbrev Bytes := List UInt8

def b2n (b : Bytes) (i : Nat) : Nat := (b.getD i 0).toNat

/-- scan the buffer from its start; returns (packets, residual) -/
def parse (ids : List Nat) (rest : Bytes) : List Bytes × Bytes :=
  if h6 : rest.length ≤ 6 then ([], rest)
  else
    let pid := (b2n rest 0 * 256 + b2n rest 1) % 8192
    if pid ∈ ids then
      let total := b2n rest 4 * 256 + b2n rest 5 + 7
      if total > rest.length then ([], rest)
      else
        let r := parse ids (rest.drop total)
        (rest.take total :: r.1, r.2)
    else parse ids (rest.drop 1)
termination_by rest.length
decreasing_by
  all_goals simp only [List.length_drop]
  all_goals omega

theorem b2n_append (a b : Bytes) (i : Nat) (h : i < a.length) : b2n (a ++ b) i = b2n a i := by
  simp [b2n, List.getD_eq_getElem?_getD, List.getElem?_append_left h]

theorem parse_chunk (ids : List Nat) (a b : Bytes) :
    parse ids (a ++ b) =
      ((parse ids a).1 ++ (parse ids ((parse ids a).2 ++ b)).1, (parse ids ((parse ids a).2 ++ b)).2) := by
  fun_induction parse ids a with
  | case1 rest h6 => simp
  | case2 rest h6 pid hpid total hinc => simp
  | case3 rest h6 pid hpid total hcomp r ih =>
      have hlen : ¬ (rest ++ b).length ≤ 6 := by simp; omega
      have hpid' : (b2n (rest ++ b) 0 * 256 + b2n (rest ++ b) 1) % 8192 ∈ ids := by
        rw [b2n_append _ _ _ (by omega), b2n_append _ _ _ (by omega)]; exact hpid
      have htot : b2n (rest ++ b) 4 * 256 + b2n (rest ++ b) 5 + 7 = total := by
        rw [b2n_append _ _ _ (by omega), b2n_append _ _ _ (by omega)]
      have hle : total ≤ rest.length := by omega
      rw [parse]
      simp only [hlen, ↓reduceDIte, hpid', ↓reduceIte, htot]
      have : ¬ total > (rest ++ b).length := by simp; omega
      simp only [this, ↓reduceIte]
      rw [List.drop_append_of_le_length hle, List.take_append_of_le_length hle, ih]
      simp
      exact ⟨rfl, rfl⟩
  | case4 rest h6 pid hpid ih =>
      have hlen : ¬ (rest ++ b).length ≤ 6 := by simp; omega
      have hpid' : ¬ (b2n (rest ++ b) 0 * 256 + b2n (rest ++ b) 1) % 8192 ∈ ids := by
        rw [b2n_append _ _ _ (by omega), b2n_append _ _ _ (by omega)]; exact hpid
      rw [parse]
      simp only [hlen, ↓reduceDIte, hpid', ↓reduceIte]
      rw [List.drop_append_of_le_length (by omega), ih]

#print axioms parse_chunk

/-- any sequence of chunks, one parse call after each append: same packets, same final residual as one batch parse -/
def feed (ids : List Nat) : List Bytes → Bytes → List Bytes × Bytes
  | [], q => ([], q)
  | c :: cs, q =>
      let r := parse ids (q ++ c)
      let r' := feed ids cs r.2
      (r.1 ++ r'.1, r'.2)

theorem parse_idem (ids : List Nat) (a : Bytes) : parse ids (parse ids a).2 = ([], (parse ids a).2) := by
  have := parse_chunk ids a []
  simp at this
  fun_induction parse ids a with
  | case1 rest h6 => rw [parse]; simp [h6]
  | case2 rest h6 pid hpid total hinc => rw [parse]; simp [h6, hpid, hinc, pid, total] 
  | case3 rest h6 pid hpid total hcomp r ih => simpa using ih (by simpa using parse_chunk ids _ [])
  | case4 rest h6 pid hpid ih => simpa using ih (by simpa using parse_chunk ids _ [])

theorem feed_eq_batch (ids : List Nat) : ∀ (cs : List Bytes) (q : Bytes),
    parse ids q = ([], q) →
    feed ids cs q = parse ids (q ++ cs.flatten)
  | [], q, hq => by simp [feed, hq]
  | c :: cs, q, hq => by
      simp only [feed, List.flatten_cons]
      have hres := parse_idem ids (q ++ c)
      rw [feed_eq_batch ids cs _ hres]
      rw [← List.append_assoc, parse_chunk ids (q ++ c) cs.flatten]
