import sys, random, itertools
sys.path.insert(0, "/repo")
from spacepackets.cfdp import *
from spacepackets.cfdp.pdu import *
from spacepackets.cfdp.pdu.header import PduHeader
from spacepackets.cfdp.defs import *
from spacepackets.cfdp.tlv import *
from spacepackets.util import *
from spacepackets.uslp.header import *
from spacepackets.uslp.frame import *
from spacepackets.ecss.tc import PusTc
from spacepackets.ecss.tm import PusTm
from spacepackets.ecss.pus_1_verification import *
from spacepackets.ecss.fields import PacketFieldEnum
rnd = random.Random(7)
bad = 0
# C05 header all flags x widths
for pt, d, tm, crc, lf, sc, smf in itertools.product(range(2), repeat=7):
    for iw in (1,2,4,8):
        for sw in (1,2,4,8):
            src = rnd.randrange(256**iw); dst = rnd.randrange(256**iw); seq = rnd.randrange(256**sw); dl = rnd.choice([0,1,255,256,65535, rnd.randrange(65536)])
            conf = PduConfig(ByteFieldGenerator.from_int(iw, src), ByteFieldGenerator.from_int(iw, dst), ByteFieldGenerator.from_int(sw, seq),
                             TransmissionMode(tm), LargeFileFlag(lf), CrcFlag(crc), Direction(d), SegmentationControl(sc))
            h = PduHeader(PduType(pt), SegmentMetadataFlag(smf), dl, conf)
            raw = h.pack()
            exp = bytes([0x20 | pt<<4 | d<<3 | tm<<2 | crc<<1 | lf, dl>>8, dl&0xff, sc<<7 | (iw-1)<<4 | smf<<3 | (sw-1)]) + src.to_bytes(iw,'big') + seq.to_bytes(sw,'big') + dst.to_bytes(iw,'big')
            if bytes(raw) != exp: bad += 1; print("C05 pack mismatch", raw.hex(), exp.hex())
            u = PduHeader.unpack(bytes(raw) + b"\xaa\xbb")
            ok = (u.pdu_type==pt and u.direction==d and u.transmission_mode==tm and u.crc_flag==crc and u.file_flag==lf and u.seg_ctrl==sc and u.segment_metadata_flag==smf
                  and u.pdu_data_field_len==dl and u.source_entity_id.value==src and u.source_entity_id.byte_len==iw and u.dest_entity_id.value==dst and u.transaction_seq_num.value==seq and u.transaction_seq_num.byte_len==sw and u.header_len==4+2*iw+sw and u.pack()==raw)
            if not ok: bad += 1; print("C05 unpack mismatch", raw.hex())
print("C05 bad:", bad)
# C17 header
bad=0
for _ in range(20000):
    scid=rnd.randrange(65536); sd=rnd.randrange(2); vcid=rnd.randrange(64); mapid=rnd.randrange(16); fl=rnd.randrange(65536); b=rnd.randrange(2); p=rnd.randrange(2); o=rnd.randrange(2); vl=rnd.randrange(8); vc=rnd.randrange(256**vl) if vl else 0
    h = PrimaryHeader(scid, sd, vcid, mapid, fl, b, p, bool(o), vl, vc)
    raw = h.pack()
    x = (0xC<<44 | scid<<28 | sd<<27 | vcid<<21 | mapid<<17 | 0<<16 | fl) 
    exp = x.to_bytes(6,'big') + bytes([b<<7 | p<<6 | o<<3 | vl]) + vc.to_bytes(vl,'big')
    if bytes(raw)!=exp: bad+=1; print("C17 pack", raw.hex(), exp.hex()); break
    u = PrimaryHeader.unpack(bytes(raw)+b"\x55")
    if not (u.scid==scid and u.src_dest==sd and u.vcid==vcid and u.map_id==mapid and u.frame_len==fl and u.bypass_seq_ctrl_flag==b and u.prot_ctrl_cmd_flag==p and u.op_ctrl_flag==o and u.vcf_count_len==vl and u.vcf_count==vc and u.len()==7+vl):
        bad+=1; print("C17 unpack", raw.hex()); break
    t = TruncatedPrimaryHeader(scid, sd, vcid, mapid); raw=t.pack()
    if bytes(raw) != ((0xC<<28 | scid<<12 | sd<<11 | vcid<<5 | mapid<<1 | 1).to_bytes(4,'big')): bad+=1; print("C17 trunc", raw.hex()); break
print("C17 header bad:", bad)
# C15 service 1 widths
bad=0
for _ in range(3000):
    tc = PusTc(service=rnd.randrange(256), subservice=rnd.randrange(256), apid=rnd.randrange(2048), seq_count=rnd.randrange(16384))
    sb = rnd.choice([1,2,4,8]); eb = rnd.choice([1,2,4,8]); tl = rnd.randrange(0, 12)
    step = PacketFieldEnum(sb*8, rnd.randrange(256**sb)); fn = lambda: FailureNotice(PacketFieldEnum(eb*8, rnd.randrange(256**eb)), bytes(rnd.randrange(256) for _ in range(rnd.randrange(0,6))))
    ts = bytes(rnd.randrange(256) for _ in range(tl))
    sub = rnd.randrange(1,9)
    vp = VerificationParams(RequestId.from_pus_tc(tc), step if sub in (5,6) else None, fn() if sub%2==0 else None)
    t = Service1Tm(rnd.randrange(2048), Subservice(sub), ts, vp)
    raw = t.pack()
    u = Service1Tm.unpack(bytes(raw), UnpackParams(tl, sb, eb))
    ok = u.tc_req_id == vp.req_id and u.step_id == vp.step_id if sub in (5,6) else u.step_id is None
    if sub%2==0: ok = ok and u.failure_notice.code == vp.failure_notice.code and u.failure_notice.data == vp.failure_notice.data
    ok = ok and u.pack()==raw
    if not ok: bad+=1; print("C15 mismatch sub", sub, sb, eb, tl); break
print("C15 bad:", bad)
# C18 reserved
bad=0
for _ in range(3000):
    iw = rnd.choice([1,2,4,8]); sw = rnd.choice([1,2,4,8])
    tid = TransactionId(ByteFieldGenerator.from_int(iw, rnd.randrange(256**iw)), ByteFieldGenerator.from_int(sw, rnd.randrange(256**sw)))
    m = OriginatingTransactionId(tid); raw = m.pack()
    u = MessageToUserTlv.unpack(bytes(raw)); r = u.to_reserved_msg_tlv(); g = r.get_originating_transaction_id()
    if not (g.source_id == tid.source_id and g.seq_num == tid.seq_num and g.source_id.byte_len==iw and g.seq_num.byte_len==sw): bad+=1; print("C18 otid", iw, sw); break
    n1 = bytes(rnd.randrange(256) for _ in range(rnd.randrange(0,100))); n2 = bytes(rnd.randrange(256) for _ in range(rnd.randrange(0,100)))
    p = ProxyPutRequestParams(ByteFieldGenerator.from_int(iw, rnd.randrange(256**iw)), CfdpLv(n1), CfdpLv(n2))
    m = ProxyPutRequest(p); raw=m.pack(); r = MessageToUserTlv.unpack(bytes(raw)).to_reserved_msg_tlv(); g = r.get_proxy_put_request_params()
    if g is None or not (g.dest_entity_id == p.dest_entity_id and g.source_file_name == p.source_file_name and g.dest_file_name == p.dest_file_name): bad+=1; print("C18 put", len(n1), len(n2), g); break
    d = DirectoryParams(CfdpLv(n1), CfdpLv(n2)); s = bool(rnd.randrange(2))
    m = DirectoryListingResponse(s, d); r = MessageToUserTlv.unpack(bytes(m.pack())).to_reserved_msg_tlv(); g = r.get_dir_listing_response_params()
    if g is None or g[0]!=s or g[1]!=d: bad+=1; print("C18 dirresp"); break
print("C18 bad:", bad)
