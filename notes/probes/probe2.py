import sys
sys.path.insert(0, "/repo")
import struct, copy, datetime
from spacepackets.cfdp import *
from spacepackets.cfdp.pdu import *
from spacepackets.cfdp.pdu.file_data import SegmentMetadata, RecordContinuationState
from spacepackets.cfdp.pdu.prompt import ResponseRequired
from spacepackets.cfdp.tlv import *
from spacepackets.cfdp.defs import *
from spacepackets.util import *
from spacepackets.crc import CRC16_CCITT_FUNC

def attempt(name, f):
    try:
        r = f()
        print(f"[{name}] OK -> {r!r}")
        return r
    except Exception as e:
        print(f"[{name}] EXC {type(e).__module__}.{type(e).__name__}: {e}")

def conf(crc=False, large=False, w=1):
    return PduConfig(source_entity_id=ByteFieldGenerator.from_int(w, 1), dest_entity_id=ByteFieldGenerator.from_int(w, 2),
        transaction_seq_num=ByteFieldGenerator.from_int(w, 3), trans_mode=TransmissionMode.ACKNOWLEDGED,
        file_flag=LargeFileFlag.LARGE if large else LargeFileFlag.NORMAL, crc_flag=CrcFlag.WITH_CRC if crc else CrcFlag.NO_CRC)

# EOF condition code
e = EofPdu(conf(), b"\x01\x02\x03\x04", 10, condition_code=ConditionCode.FILESTORE_REJECTION)
raw = e.pack()
u = attempt("EOF cc unpack", lambda: EofPdu.unpack(bytes(raw)))
print("  cc after unpack:", u.condition_code, "eq:", u == e)
attempt("  repack", lambda: u.pack() == raw)
# EOF with CRC
e = EofPdu(conf(crc=True), b"\x01\x02\x03\x04", 10)
raw = e.pack(); print("EOF crc len", len(raw), e.packet_len)
attempt("EOF crc unpack", lambda: EofPdu.unpack(bytes(raw)))
# Finished with CRC, no TLVs
f = FinishedPdu(conf(crc=True), FinishedParams(ConditionCode.NO_ERROR, DeliveryCode.DATA_COMPLETE, FileStatus.FILE_RETAINED))
raw = f.pack(); attempt("Finished crc unpack", lambda: FinishedPdu.unpack(bytes(raw)))
f = FinishedPdu(conf(), FinishedParams(ConditionCode.NO_ERROR, DeliveryCode.DATA_COMPLETE, FileStatus.FILE_RETAINED))
raw = f.pack(); attempt("Finished + trailing", lambda: FinishedPdu.unpack(bytes(raw)+b"\x00\x00"))
# Finished fault location with NO_ERROR
f = FinishedPdu(conf(), FinishedParams(ConditionCode.NO_ERROR, DeliveryCode.DATA_COMPLETE, FileStatus.FILE_RETAINED, fault_location=EntityIdTlv(b"\x01")))
print("Finished NO_ERROR+fault loc: packet_len", f.packet_len, "len(pack)", len(f.pack()))
# Metadata with CRC
m = MetadataPdu(conf(crc=True), MetadataParams(True, ChecksumType.CRC_32, 100, "a.txt", "b.txt"))
raw = m.pack(); attempt("Metadata crc unpack", lambda: MetadataPdu.unpack(bytes(raw)))
m = MetadataPdu(conf(), MetadataParams(True, ChecksumType.CRC_32, 100, "a.txt", "b.txt"))
raw = m.pack(); r = attempt("Metadata + trailing TLV-like", lambda: MetadataPdu.unpack(bytes(raw)+b"\x05\x01\xaa")); print("  options:", r.options if r else None)
# metadata truncated LV
hdr = PduHeader(PduType.FILE_DIRECTIVE, SegmentMetadataFlag.NOT_PRESENT, 8, conf()).pack()
attempt("Metadata lv2 missing", lambda: MetadataPdu.unpack(bytes(hdr) + bytes([7, 0, 0,0,0,0, 1, 0x41])))
# NAK with CRC
n = NakPdu(conf(crc=True), 0, 100, [(0, 10)])
raw = n.pack(); attempt("NAK crc unpack", lambda: NakPdu.unpack(bytes(raw)))
n = NakPdu(conf(), 0, 100, [(0, 10)])
raw = n.pack(); r = attempt("NAK + 8 trailing", lambda: NakPdu.unpack(bytes(raw)+bytes(8))); print("  segs:", r.segment_requests if r else None)
c = conf(); c.direction = Direction.TOWARDS_RECEIVER; NakPdu(c, 0, 0); print("NAK mutates caller conf direction:", c.direction)
hdr = PduHeader(PduType.FILE_DIRECTIVE, SegmentMetadataFlag.NOT_PRESENT, 1, conf()).pack()
attempt("NAK short", lambda: NakPdu.unpack(bytes(hdr) + bytes([8])))
attempt("ACK short", lambda: AckPdu.unpack(bytes(hdr) + bytes([6])))
# KeepAlive endianness
k = KeepAlivePdu(conf(), 0x01020304); raw = k.pack(); print("KeepAlive raw", raw.hex())
r = attempt("KeepAlive unpack", lambda: KeepAlivePdu.unpack(bytes(raw))); print("  progress", hex(r.progress))
k = KeepAlivePdu(conf(crc=True), 5); k.file_flag = LargeFileFlag.LARGE; print("KeepAlive crc after file_flag: packet_len", k.packet_len, "len(pack)", len(k.pack()))
# FileData
fd = FileDataPdu(conf(crc=True), FileDataParams(b"hello", 7)); raw = fd.pack()
r = attempt("FileData crc unpack", lambda: FileDataPdu.unpack(bytes(raw))); print("  file_data:", r.file_data if r else None)
fd = FileDataPdu(conf(), FileDataParams(b"", 7)); raw = fd.pack()
attempt("FileData empty unpack", lambda: FileDataPdu.unpack(bytes(raw)))
fd = FileDataPdu(conf(), FileDataParams(b"hello", 7, SegmentMetadata(RecordContinuationState.START_AND_END, b"\x01\x02"))); raw = fd.pack()
r = attempt("FileData segmeta unpack", lambda: FileDataPdu.unpack(bytes(raw))); print("  packet_len after unpack", r.packet_len, "orig", fd.packet_len, "repack equal:", r.pack()==raw, "eq:", r == fd)
hdr = PduHeader(PduType.FILE_DATA, SegmentMetadataFlag.PRESENT, 0, conf()).pack()
attempt("FileData segmeta hdr only", lambda: FileDataPdu.unpack(bytes(hdr)))
# Factory
attempt("Factory empty", lambda: PduFactory.from_raw(b""))
attempt("Factory 3 bytes", lambda: PduFactory.from_raw(b"\x20\x00\x00"))
attempt("Factory hdr only", lambda: PduFactory.from_raw(bytes(PduHeader(PduType.FILE_DIRECTIVE, SegmentMetadataFlag.NOT_PRESENT, 0, conf()).pack())))
# LV / TLV
attempt("LV empty", lambda: CfdpLv.unpack(b""))
attempt("TLV [6,2]", lambda: CfdpTlv.unpack(b"\x06\x02"))
attempt("EntityId unpack of flow label", lambda: EntityIdTlv.unpack(b"\x05\x01\x07"))
attempt("FaultHandler unpack of flow label", lambda: FaultHandlerOverrideTlv.unpack(b"\x05\x01\x07"))
attempt("MsgToUser unpack of flow label", lambda: MessageToUserTlv.unpack(b"\x05\x01\x07"))
attempt("FaultHandler empty value", lambda: FaultHandlerOverrideTlv.unpack(b"\x04\x00"))
attempt("FsReq 1 byte", lambda: FileStoreRequestTlv.unpack(b"\x00"))
attempt("FsReq empty", lambda: FileStoreRequestTlv.unpack(b""))
t = FileStoreRequestTlv(FilestoreActionCode.CREATE_FILE_SNM, "ä.txt"); print("FsReq non-ascii: packet_len", t.packet_len, "len(pack)", len(t.pack()))
attempt("is_reserved non-utf8", lambda: MessageToUserTlv(b"\xff\xfe\x00\x00\x00").is_reserved_cfdp_message())
