import sys, traceback
sys.path.insert(0, "/repo")
import spacepackets, struct
print("spacepackets from", spacepackets.__file__)
from collections import deque
from spacepackets.ccsds.spacepacket import *
from spacepackets.ecss.tc import PusTc
from spacepackets.ecss.tm import PusTm
from spacepackets.crc import CRC16_CCITT_FUNC
from spacepackets.seqcount import SeqCountProvider

def attempt(name, f):
    try:
        r = f()
        print(f"[{name}] OK -> {r!r}")
    except Exception as e:
        print(f"[{name}] EXC {type(e).__module__}.{type(e).__name__}: {e}")

# C13 parser: short tail dropped
tc = PusTc(service=17, subservice=1, apid=5).pack()
pid = PusTc(service=17, subservice=1, apid=5).packet_id
q = deque()
q.append(tc + tc[:3])
r = parse_space_packets(q, [pid]); print("C13 a: got", len(r), "queue after:", list(q))
q = deque(); q.append(tc[:4]); r = parse_space_packets(q, [pid]); print("C13 b: got", len(r), "queue after:", list(q))
q = deque(); q.append(tc[:6]); r = parse_space_packets(q, [pid]); print("C13 c: got", len(r), "queue after:", list(q))
q = deque(); q.append(tc[:7]); r = parse_space_packets(q, [pid]); print("C13 d: got", len(r), "queue after:", list(q))
# exactly-one-minimal packet of 7 bytes
sp = SpacePacketHeader(PacketType.TC, apid=5, seq_count=0, data_len=0, sec_header_flag=True).pack() + b"\x01"
q = deque(); q.append(sp); r = parse_space_packets(q, [pid]); print("C13 e (7-byte packet alone): got", len(r), "queue after:", list(q))
q = deque(); q.append(tc+sp); r = parse_space_packets(q, [pid]); print("C13 f (tc + 7-byte packet): got", len(r), "queue after:", list(q))

# C19
p = SeqCountProvider(2)
print("C19 in-mem width 2:", [next(p) for _ in range(6)])

# C02: declared length too small accepted with crafted CRC
hdr = SpacePacketHeader(PacketType.TC, apid=5, seq_count=0, data_len=0, sec_header_flag=True).pack()
# packet_len = 7; craft byte 6..: CRC over first 7 bytes must be 0: bytes[0:5] + crc16(bytes[0:5])
first5 = bytes(hdr[:5])
crc = struct.pack("!H", CRC16_CCITT_FUNC(first5))
# but byte 5 is part of header (data_len low = 0) -> need data[5] to be crc hi. Use data_len so that consistent: brute force
found=None
for dl in range(0, 6):
    for b6 in range(256):
        h = SpacePacketHeader(PacketType.TC, apid=5, seq_count=0, data_len=dl, sec_header_flag=True).pack()
        n = 7+dl
        buf = bytearray(h) + bytearray([0x20|0xF, 17, 1, 0, 0]) + bytearray(8)
        buf[6] = 0x2F
        # try to fix last two bytes of first n
        body = bytes(buf[:n-2])
        c = struct.pack("!H", CRC16_CCITT_FUNC(body))
        cand = bytearray(body + c + bytes(buf[n:]))
        # sec header bytes must still be PUS C version at cand[6]
        if (cand[6] >> 4) == 2 and len(cand) >= 11:
            found = cand; break
    if found: break
print("C02 crafted:", found.hex() if found else None)
if found:
    attempt("C02 small declared len", lambda: PusTc.unpack(bytes(found)))
    attempt("C02 same, only first N", lambda: PusTc.unpack(bytes(found[:SpacePacketHeader.unpack(found).packet_len])))
