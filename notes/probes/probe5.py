import sys, random, itertools
sys.path.insert(0, "/repo")
from spacepackets.uslp.header import *
from spacepackets.uslp.frame import *
from spacepackets.uslp.defs import *
from spacepackets.cfdp.tlv import *
from spacepackets.cfdp import *
from spacepackets.cfdp.defs import *
from spacepackets.util import *
rnd = random.Random(11)
rb = lambda n: bytes(rnd.randrange(256) for _ in range(n))
issues = {}
def note(k, m):
    if k not in issues: issues[k] = m
# C17 frames
for it in range(20000):
    rule = TfdzConstructionRules(rnd.randrange(8)); upid = rnd.choice(list(UslpProtocolIdentifier))
    fixed = rule.value <= 2
    truncated = (not fixed) and rnd.random() < 0.25
    has_iz = rnd.random() < .5 and not truncated; izl = rnd.randrange(1,5)
    has_ocf = rnd.random() < .5 and not truncated
    has_fecf = rnd.random() < .5; fl = rnd.choice([2,4])
    vl = rnd.randrange(8)
    tfdz = rb(rnd.randrange(1, 12))
    fhp = rnd.randrange(65536) if fixed else None
    tfdf = TransferFrameDataField(rule, upid, tfdz, fhp)
    if truncated:
        hdr = TruncatedPrimaryHeader(rnd.randrange(65536), rnd.randrange(2), rnd.randrange(64), rnd.randrange(16))
    else:
        hdr = PrimaryHeader(rnd.randrange(65536), rnd.randrange(2), rnd.randrange(64), rnd.randrange(16), 0, rnd.randrange(2), rnd.randrange(2), has_ocf, vl, rnd.randrange(256**vl) if vl else 0)
    fr = TransferFrame(hdr, tfdf, insert_zone=rb(izl) if has_iz else None, op_ctrl_field=rb(4) if has_ocf else None, fecf=rb(fl) if has_fecf else None)
    fr.set_frame_len_in_header()
    try:
        raw = fr.pack(truncated=truncated)
    except Exception as e:
        note("pack:"+type(e).__name__, f"rule={rule} trunc={truncated} {e}"); continue
    if fr.len() != len(raw): note("len", f"len()={fr.len()} packed={len(raw)} rule={rule} trunc={truncated} fhp={fhp}")
    if not truncated and (raw[4]<<8|raw[5]) != len(raw)-1: note("framelen", "field")
    ft = FrameType.FIXED if fixed else FrameType.VARIABLE
    props = FixedFrameProperties(len(raw), has_iz, has_fecf, izl if has_iz else None, fl if has_fecf else None) if fixed else VarFrameProperties(has_iz, has_fecf, len(raw), izl if has_iz else None, fl if has_fecf else None)
    try:
        u = TransferFrame.unpack(bytes(raw), ft, props)
    except Exception as e:
        note("unpack:"+type(e).__name__, f"rule={rule} trunc={truncated} iz={has_iz} ocf={has_ocf} fecf={has_fecf} len={len(raw)}"); continue
    ok = (bytes(u.tfdf.tfdz) == tfdz and u.tfdf.tfdz_contr_rules == rule and u.tfdf.uslp_ident == upid and u.tfdf.fhp_or_lvop == fhp
          and (bytes(u.insert_zone) if u.insert_zone is not None else None) == (fr.insert_zone)
          and (bytes(u.op_ctrl_field) if u.op_ctrl_field is not None else None) == fr.op_ctrl_field
          and (bytes(u.fecf) if u.fecf is not None else None) == fr.fecf and u.header.pack() == hdr.pack() and u.len() == len(raw))
    if not ok: note("roundtrip", f"rule={rule} trunc={truncated} iz={has_iz} ocf={has_ocf} fecf={has_fecf} tfdz={tfdz.hex()} got={bytes(u.tfdf.tfdz).hex()} fhp={u.tfdf.fhp_or_lvop}")
    try:
        if bytes(u.pack(truncated=truncated)) != bytes(raw): note("repack", f"rule={rule} trunc={truncated}")
    except Exception as e:
        note("repack:"+type(e).__name__, f"rule={rule} trunc={truncated} {e}")
print("C17 frame issues:"); [print("  ", k, "->", v) for k,v in issues.items()]
# C08 concrete TLVs
issues = {}
for ac in FilestoreActionCode:
    for n1, n2 in [("a.txt","b.txt"), ("", ""), ("x"*100, "y"*100)]:
        t = FileStoreRequestTlv(ac, n1, n2); raw = t.pack()
        if t.packet_len != len(raw): note("fsreq len", f"{ac} {t.packet_len} {len(raw)}")
        u = FileStoreRequestTlv.unpack(bytes(raw) + b"\xff")
        two = ac in (FilestoreActionCode.RENAME_FILE_SNP, FilestoreActionCode.APPEND_FILE_SNP, FilestoreActionCode.REPLACE_FILE_SNP)
        if not (u.action_code == ac and u.first_file_name == n1 and (u.second_file_name == n2 if two else True) and u.pack() == raw): note("fsreq rt", f"{ac} {n1[:5]!r}")
        exp = bytes([0, 1 + 1 + len(n1) + ((1+len(n2)) if two else 0), ac << 4, len(n1)]) + n1.encode() + ((bytes([len(n2)]) + n2.encode()) if two else b"")
        if bytes(raw) != exp: note("fsreq layout", f"{ac} {raw.hex()} {exp.hex()}")
    for sc in FilestoreResponseStatusCode:
        if sc == FilestoreResponseStatusCode.INVALID or (sc >> 4) != ac and sc not in (0, 15, 2): continue
        if (sc >> 4) != ac: continue
        try:
            t = FileStoreResponseTlv(ac, sc, "a", "b", CfdpLv(b"msg")); raw = t.pack()
            if t.packet_len != len(raw): note("fsresp len", f"{ac} {sc}")
            u = FileStoreResponseTlv.unpack(bytes(raw))
            if not (u.action_code == ac and u.status_code == sc and u.filestore_msg == t.filestore_msg and u.pack() == raw and u.packet_len == len(raw)): note("fsresp rt", f"{ac} {sc!r} -> {u.status_code!r}")
        except Exception as e: note("fsresp exc", f"{ac} {sc!r} {type(e).__name__} {e}")
for cc in ConditionCode:
    if cc < 0: continue
    for hc in FaultHandlerCode:
        t = FaultHandlerOverrideTlv(cc, hc); raw = t.pack()
        u = FaultHandlerOverrideTlv.unpack(bytes(raw))
        if not (u.condition_code == cc and u.handler_code == hc and bytes(raw) == bytes([4,1,cc<<4|hc]) and u.pack()==raw): note("fh", f"{cc} {hc}")
# holders
from spacepackets.cfdp.tlv import TlvHolder
for tt in TlvType:
    g = CfdpTlv(tt, b"\x11")
    for name, want in [("to_fs_request", 0), ("to_fs_response", 1), ("to_msg_to_user", 2), ("to_fault_handler_override", 4), ("to_flow_label", 5), ("to_entity_id", 6)]:
        try:
            r = getattr(TlvHolder(g), name)()
            if tt != want: note(f"holder {name} accepts {tt!r}", repr(r))
        except (TlvTypeMissmatch, TypeError): pass
        except Exception as e:
            if tt != want: note(f"holder {name} on {tt!r} raises {type(e).__name__}", str(e)[:50])
print("C08 issues:"); [print("  ", k, "->", v) for k,v in issues.items()]
