import sys, os, random, copy, datetime, itertools, collections
REPO = os.environ.get("REPO", "/repo"); sys.path.insert(0, REPO)
import spacepackets; assert spacepackets.__file__.startswith(REPO), spacepackets.__file__
from collections import deque
from spacepackets.ccsds.spacepacket import *
from spacepackets.ccsds.time import CdsShortTimestamp
from spacepackets.ecss.tc import PusTc, InvalidTcCrc16
from spacepackets.ecss.tm import PusTm, InvalidTmCrc16
from spacepackets.ecss.pus_1_verification import *
from spacepackets.ecss.fields import PacketFieldEnum
from spacepackets.ecss import check_pus_crc
from spacepackets.cfdp import *
from spacepackets.cfdp.pdu import *
from spacepackets.cfdp.pdu.header import PduHeader, AbstractPduBase
from spacepackets.cfdp.pdu.file_data import SegmentMetadata, RecordContinuationState
from spacepackets.cfdp.pdu.prompt import ResponseRequired
from spacepackets.cfdp.tlv import *
from spacepackets.cfdp.defs import *
from spacepackets.util import *
from spacepackets.uslp.header import *
from spacepackets.uslp.frame import *
from spacepackets.uslp.defs import *
from spacepackets.seqcount import SeqCountProvider
from spacepackets.crc import CRC16_CCITT_FUNC
DOC = (ValueError, InvalidTcCrc16, InvalidTmCrc16, InvalidCrc, UnsupportedCfdpVersion, TlvTypeMissmatch,
       UslpInvalidFrameHeader, UslpInvalidRawPacketOrFrameLen, UslpInvalidConstructionRules, UslpFhpVhopFieldMissing,
       UslpTruncatedFrameNotAllowed, UslpVersionMissmatch, UslpTypeMissmatch)
rnd = random.Random(5); rb = lambda n: bytes(rnd.randrange(256) for _ in range(n))
issues = collections.OrderedDict()
def note(k, m):
    if k not in issues: issues[k] = m
def conf(crc=None, large=None):
    iw = rnd.choice([1,2,4,8]); sw = rnd.choice([1,2,4,8])
    return PduConfig(ByteFieldGenerator.from_int(iw, rnd.randrange(256**iw)), ByteFieldGenerator.from_int(iw, rnd.randrange(256**iw)),
        ByteFieldGenerator.from_int(sw, rnd.randrange(256**sw)), TransmissionMode(rnd.randrange(2)),
        LargeFileFlag(rnd.randrange(2) if large is None else large), CrcFlag(rnd.randrange(2) if crc is None else crc), Direction(rnd.randrange(2)), SegmentationControl(rnd.randrange(2)))
def fss(c): return rnd.choice([0,1,255,256,2**32-1, rnd.randrange(2**32)] + ([2**32, 2**64-1, rnd.randrange(2**64)] if c.file_flag else []))
def ent(): return EntityIdTlv(rb(rnd.choice([1,2,4,8])))
def fsr(): return FileStoreResponseTlv(FilestoreActionCode.RENAME_FILE_SNP, FilestoreResponseStatusCode.RENAME_NOT_ALLOWED, "ä"*rnd.randrange(4), "b"*rnd.randrange(4), CfdpLv(rb(rnd.randrange(3))))
CCS = [c for c in ConditionCode if c >= 0]
def mk(kind):
    c = conf()
    if kind == 'eof':
        cc = rnd.choice(CCS); return EofPdu(c, rb(4), fss(c), ent() if rnd.random()<.5 else None, cc)
    if kind == 'fin':
        cc = rnd.choice(CCS); mh = cc not in (ConditionCode.NO_ERROR, ConditionCode.UNSUPPORTED_CHECKSUM_TYPE)
        return FinishedPdu(c, FinishedParams(cc, DeliveryCode(rnd.randrange(2)), FileStatus(rnd.randrange(4)), [fsr() for _ in range(rnd.randrange(3))], ent() if (mh and rnd.random()<.5) else None))
    if kind == 'ack': return AckPdu(c, rnd.choice([DirectiveType.EOF_PDU, DirectiveType.FINISHED_PDU]), rnd.choice(CCS), TransactionStatus(rnd.randrange(4)))
    if kind == 'md':
        opts = [CfdpTlv(rnd.choice(list(TlvType)), rb(rnd.randrange(4))) for _ in range(rnd.randrange(3))] if rnd.random()<.6 else None
        return MetadataPdu(c, MetadataParams(bool(rnd.randrange(2)), rnd.choice(list(ChecksumType)), fss(c), rnd.choice([None, "s.txt", "ä"*5]), rnd.choice([None, "d.txt"])), opts)
    if kind == 'nak': return NakPdu(c, fss(c), fss(c), [(fss(c), fss(c)) for _ in range(rnd.randrange(3))])
    if kind == 'prompt': return PromptPdu(c, ResponseRequired(rnd.randrange(2)))
    if kind == 'ka': return KeepAlivePdu(c, fss(c))
    if kind == 'fd': return FileDataPdu(c, FileDataParams(rb(rnd.choice([0,1,5])), fss(c), SegmentMetadata(RecordContinuationState(rnd.randrange(4)), rb(rnd.choice([0,1,63]))) if rnd.random()<.5 else None))
CLS = {'eof': EofPdu, 'fin': FinishedPdu, 'ack': AckPdu, 'md': MetadataPdu, 'nak': NakPdu, 'prompt': PromptPdu, 'ka': KeepAlivePdu, 'fd': FileDataPdu}
for it in range(4000):
    for kind, cls in CLS.items():
        p = mk(kind); raw = bytes(p.pack()); crc = p.pdu_header.crc_flag == CrcFlag.WITH_CRC
        hl = p.pdu_header.header_len
        if p.packet_len != len(raw): note(f"{kind}:len", f"packet_len {p.packet_len} != {len(raw)} crc={crc}")
        if (raw[1]<<8|raw[2]) != len(raw) - hl: note(f"{kind}:field", "len field")
        if crc and CRC16_CCITT_FUNC(raw) != 0: note(f"{kind}:crc", "crc residue")
        try:
            u = cls.unpack(raw)
            if not (u == p): note(f"{kind}:eq", f"unpacked != original crc={crc} large={p.pdu_header.file_flag}")
            if bytes(u.pack()) != raw: note(f"{kind}:repack", f"crc={crc}")
            f = PduFactory.from_raw(raw)
            if type(f) is not cls or bytes(f.pack()) != raw: note(f"{kind}:factory", str(type(f)))
        except Exception as e:
            note(f"{kind}:unpack-exc", f"{type(e).__name__} {e} crc={crc} large={p.pdu_header.file_flag}")
        for suf in (b"\x00", rb(8), rb(16), b"\x05\x01\xaa", raw):
            try:
                u2 = cls.unpack(raw + suf)
                if bytes(u2.pack()) != raw or not (u2 == p): note(f"{kind}:suffix-fold", f"suffix {suf.hex()[:12]} crc={crc}")
            except DOC: pass
            except Exception as e: note(f"{kind}:suffix-exc", f"{type(e).__name__} crc={crc}")
        if it < 300:
            for k in range(len(raw)):
                try: cls.unpack(raw[:k]); note(f"{kind}:prefix-accepted", f"k={k}/{len(raw)}")
                except DOC: pass
                except Exception as e: note(f"{kind}:prefix-exc", f"{type(e).__name__} k={k}")
                try: PduFactory.from_raw(raw[:k])
                except DOC: pass
                except Exception as e: note(f"factory:prefix-exc", f"{type(e).__name__} k={k} {kind}")
            for pos in range(min(len(raw), hl+6)):
                for v in (0,1,0x7f,0x80,0xff):
                    q = bytearray(raw); q[pos] = v
                    for f in (cls.unpack, PduFactory.from_raw):
                        try: f(bytes(q))
                        except DOC: pass
                        except Exception as e: note(f"{kind}:subst-exc:{f.__qualname__}", f"{type(e).__name__} pos={pos} v={v} crc={crc}")
            if crc:
                for bit in range(32, len(raw)*8):
                    q = bytearray(raw); q[bit//8] ^= 0x80 >> (bit%8)
                    try: cls.unpack(bytes(q)); note(f"{kind}:bitflip-accepted", f"bit {bit}")
                    except DOC: pass
                    except Exception as e: note(f"{kind}:bitflip-exc", f"{type(e).__name__}")
# TLV prefix/junk
for _ in range(3000):
    d = rb(rnd.randrange(0, 12))
    for f in (CfdpTlv.unpack, CfdpLv.unpack, EntityIdTlv.unpack, FlowLabelTlv.unpack, FaultHandlerOverrideTlv.unpack, MessageToUserTlv.unpack, FileStoreRequestTlv.unpack, FileStoreResponseTlv.unpack):
        try: f(d)
        except DOC: pass
        except Exception as e: note(f"tlvfuzz:{f.__qualname__}", f"{type(e).__name__} {d.hex()}")
for tt in TlvType:
    raw = bytes(CfdpTlv(tt, b"\x21").pack())
    for cls2 in (EntityIdTlv, FlowLabelTlv, FaultHandlerOverrideTlv, MessageToUserTlv, FileStoreRequestTlv, FileStoreResponseTlv):
        if cls2.TLV_TYPE == tt: continue
        try: cls2.unpack(raw); note(f"typesafe:{cls2.__name__}", f"accepted {tt!r}")
        except TlvTypeMissmatch: pass
        except Exception as e: note(f"typesafe:{cls2.__name__}:exc", f"{type(e).__name__} for {tt!r}")
# TC / TM
for _ in range(3000):
    tc = PusTc(service=rnd.randrange(256), subservice=rnd.randrange(256), apid=rnd.randrange(2048), seq_count=rnd.randrange(16384), app_data=rb(rnd.randrange(5)), source_id=rnd.randrange(65536), ack_flags=rnd.randrange(16))
    raw = bytes(tc.pack())
    for dl in range(0, 6):
        q = bytearray(raw + rb(10)); q[4]=0; q[5]=dl; n = 7+dl
        c = CRC16_CCITT_FUNC(bytes(q[:n-2])); q[n-2]=c>>8; q[n-1]=c&0xff
        try: PusTc.unpack(bytes(q)); note("tc:small-len-accepted", f"dl={dl}")
        except DOC: pass
        except Exception as e: note("tc:small-exc", type(e).__name__)
    tsl = rnd.randrange(0, 9)
    tm = PusTm(service=rnd.randrange(256), subservice=rnd.randrange(256), timestamp=rb(tsl), apid=rnd.randrange(2048), source_data=rb(rnd.randrange(5)), message_counter=rnd.randrange(65536), destination_id=rnd.randrange(65536), space_time_ref=rnd.randrange(16), packet_version=rnd.randrange(8))
    raw = bytes(tm.pack()); u = PusTm.unpack(raw + rb(3), tsl)
    if not (u == tm and bytes(u.pack()) == raw): note("tm:rt", "x")
    for dl in range(0, tsl+8):
        q = bytearray(raw + rb(12)); q[4]=0; q[5]=dl; n = 7+dl
        c = CRC16_CCITT_FUNC(bytes(q[:n-2])); q[n-2]=c>>8; q[n-1]=c&0xff
        if (q[6]>>4) != 2: continue
        try: PusTm.unpack(bytes(q), tsl); note("tm:small-len-accepted", f"dl={dl} tsl={tsl}")
        except DOC: pass
        except Exception as e: note("tm:small-exc", type(e).__name__)
    tc.app_data = rb(rnd.randrange(9)); r2 = tc.pack()
    if tc.packet_len != len(r2) or (r2[4]<<8|r2[5]) != len(r2)-7: note("tc:setter", "stale")
# parser: all cuts
tcs = [bytes(PusTc(service=17, subservice=1, apid=5, app_data=rb(n)).pack()) for n in (0, 1, 3)]
pid = PusTc(service=17, subservice=1, apid=5).packet_id
stream = tcs[0] + tcs[1] + tcs[2]
for _ in range(4000):
    cuts = sorted(set(rnd.sample(range(1, len(stream)), rnd.randrange(0, 8))))
    chunks = [stream[a:b] for a,b in zip([0]+cuts, cuts+[len(stream)])]
    q = deque(); got = []
    for ch in chunks:
        q.append(bytearray(ch)); got += [bytes(x) for x in parse_space_packets(q, [pid])]
    if got != tcs or len(b"".join(q)) != 0: note("parser:chunks", f"cuts={cuts} got {len(got)} rest={b''.join(q).hex()}"); break
# time
utc = datetime.timezone.utc; E58 = datetime.datetime(1958,1,1,tzinfo=utc)
for _ in range(20000):
    d = rnd.randrange(0, 65536); ms = rnd.randrange(86400000); us = rnd.randrange(1000)
    dt = E58 + datetime.timedelta(days=d, milliseconds=ms, microseconds=us)
    s = CdsShortTimestamp.from_datetime(dt)
    if (s.ccsds_days, s.ms_of_day) != (d, ms): note("cds:from_datetime", f"{dt.isoformat()} -> {s.ccsds_days},{s.ms_of_day} exp {d},{ms}")
    s = CdsShortTimestamp(d, ms)
    if s.as_datetime() != E58 + datetime.timedelta(days=d, milliseconds=ms): note("cds:as_datetime", f"{d},{ms} {s.as_datetime()}")
    from fractions import Fraction
    if round(Fraction(s.as_unix_seconds()) * 1000) != (d-4383)*86400000 + ms: note("cds:unix", f"{d},{ms} {s.as_unix_seconds()!r}")
    td = datetime.timedelta(days=rnd.randrange(3), seconds=rnd.choice([0, 86399, rnd.randrange(86400)]), microseconds=rnd.choice([0, 999999, 1000, rnd.randrange(10**6)]))
    tot = d*86400000 + ms + (td.days*86400*10**6 + td.seconds*10**6 + td.microseconds)//1000
    try:
        r = CdsShortTimestamp(d, ms) + td
        if (r.ccsds_days, r.ms_of_day) != divmod(tot, 86400000): note("cds:add", f"{d},{ms}+{td} -> {r.ccsds_days},{r.ms_of_day} exp {divmod(tot,86400000)}")
    except OverflowError:
        if tot // 86400000 <= 65535: note("cds:add-overflow", f"{d},{ms}+{td}")
s = CdsShortTimestamp(10, 86399000) + datetime.timedelta(seconds=1); 
if (s.ccsds_days, s.ms_of_day) != (11, 0): note("cds:midnight", f"{s.ccsds_days},{s.ms_of_day}")
p = SeqCountProvider(3); seq = [next(p) for _ in range(20)]
if seq != [i % 8 for i in range(20)]: note("seq", str(seq))
# service 1 equality
tc = PusTc(service=17, subservice=1, apid=5, seq_count=3)
t = create_step_failure_tm(5, tc, PacketFieldEnum(16, 300), FailureNotice(PacketFieldEnum(32, 3), b"\x01\x02"), rb(7)); raw = bytes(t.pack())
u = Service1Tm.unpack(raw, UnpackParams(7, 2, 4))
if not (u == t): note("srv1:eq", "failure report unequal")
# reserved
try:
    if MessageToUserTlv(b"\xff\xfe\x00\x00\x00").is_reserved_cfdp_message(): note("reserved", "true?")
except Exception as e: note("reserved:exc", type(e).__name__)
# uslp
hdr = PrimaryHeader(1, 0, 2, 3, 0, 0, 0, True)
tf = TransferFrame(hdr, TransferFrameDataField(TfdzConstructionRules.VpNoSegmentation, UslpProtocolIdentifier.USER_DEFINED_OCTET_STREAM, b"abcd"), op_ctrl_field=rb(4), fecf=rb(2)); tf.set_frame_len_in_header(); raw = bytes(tf.pack())
for k in range(len(raw)):
    try: TransferFrame.unpack(raw[:k], FrameType.VARIABLE, VarFrameProperties(False, True, 12, fecf_len=2)); note("uslp:prefix-accepted", f"k={k}")
    except DOC: pass
    except Exception as e: note("uslp:prefix-exc", f"{type(e).__name__} k={k}")
for dl in (1, 2):
    h2 = PrimaryHeader(1, 0, 2, 3, 7+dl-1, 0, 0, False)
    try: TransferFrame.unpack(bytes(h2.pack()) + bytes(dl), FrameType.FIXED, FixedFrameProperties(7+dl, False, False))
    except DOC: pass
    except Exception as e: note("uslp:short-tfdf", type(e).__name__)
print(f"REPO={REPO}: {len(issues)} issue kinds")
for k, v in issues.items(): print("  ", k, "->", v)
