import sys
sys.path.insert(0, "/repo")
import struct, datetime
from spacepackets.ccsds.time import CdsShortTimestamp
from spacepackets.ccsds.spacepacket import *
from spacepackets.ecss.tm import PusTm
from spacepackets.ecss.tc import PusTc
from spacepackets.ecss.pus_1_verification import *
from spacepackets.ecss.fields import PacketFieldEnum
from spacepackets.crc import CRC16_CCITT_FUNC
from spacepackets.uslp.header import *
from spacepackets.uslp.frame import *
from spacepackets.util import *

def attempt(name, f):
    try:
        r = f()
        print(f"[{name}] OK -> {r!r}")
        return r
    except Exception as e:
        print(f"[{name}] EXC {type(e).__module__}.{type(e).__name__}: {e}")

utc = datetime.timezone.utc
E58 = datetime.datetime(1958,1,1,tzinfo=utc)
s = CdsShortTimestamp(0, 1000)
print("C14 pre-1970: unix", s.as_unix_seconds(), "expected", (E58 + datetime.timedelta(milliseconds=1000)).timestamp(), s.as_datetime())
s = CdsShortTimestamp(10, 86399000) + datetime.timedelta(seconds=1)
print("C14 add to midnight:", s.ccsds_days, s.ms_of_day)
dt = datetime.datetime(1969,12,31,23,59,59,tzinfo=utc)
s = CdsShortTimestamp.from_datetime(dt); print("C14 from_datetime 1969-12-31T23:59:59:", s.ccsds_days, s.ms_of_day, "expected", (dt-E58).days, 86399000)
dt = datetime.datetime(2023,11,14,22,13,20,1000,tzinfo=utc)
s = CdsShortTimestamp.from_datetime(dt); print("C14 from_datetime .001:", s.ccsds_days, s.ms_of_day, "expected ms", ((dt-E58).seconds*1000 + 1))
bad=0
import random
rnd = random.Random(1)
for _ in range(20000):
    d = rnd.randrange(4383, 65536); ms = rnd.randrange(0, 86400000)
    dt = E58 + datetime.timedelta(days=d, milliseconds=ms)
    s = CdsShortTimestamp.from_datetime(dt)
    if (s.ccsds_days, s.ms_of_day) != (d, ms): bad += 1
print("C14 from_datetime whole-ms mismatches post-1970:", bad, "/ 20000")
bad=0
for _ in range(20000):
    d = rnd.randrange(4383, 65536); ms = rnd.randrange(0, 86400000)
    s = CdsShortTimestamp(d, ms)
    dt = E58 + datetime.timedelta(days=d, milliseconds=ms)
    if s.as_datetime() != dt: bad += 1
print("C14 as_datetime mismatches post-1970:", bad)
attempt("C14 pfield 0x41", lambda: CdsShortTimestamp.unpack(bytes([0x41,0,1,0,0,0,1])))
attempt("C14 pfield 0x44", lambda: CdsShortTimestamp.unpack(bytes([0x44,0,1,0,0,0,1])))
attempt("C14 pfield 0xC0", lambda: CdsShortTimestamp.unpack(bytes([0xC0,0,1,0,0,0,1])))

# C03 TM: declared too small for ts + crc
tm = PusTm(service=17, subservice=2, timestamp=bytes(7), apid=5)
raw = tm.pack()
# declare packet len 13+7 = 20 (no room for CRC) => data_len = 13
h = SpacePacketHeader(PacketType.TM, apid=5, seq_count=0, data_len=13, sec_header_flag=True).pack()
body = bytearray(h) + bytearray([0x20, 17, 2, 0,0,0,0]) + bytearray(5)
c = struct.pack("!H", CRC16_CCITT_FUNC(bytes(body)))
buf = bytes(body + c)
print(len(buf))
r = attempt("C03 TM epl=20 ts_len=7", lambda: PusTm.unpack(buf, 7))
if r: print("   ts", r.timestamp.hex(), "src", r.source_data, "repack len", len(r.pack()))
# truncated timestamp: epl=15, buffer 15
h = SpacePacketHeader(PacketType.TM, apid=5, seq_count=0, data_len=8, sec_header_flag=True).pack()
body = bytearray(h) + bytearray([0x20, 17, 2, 0,0,0,0])
c = struct.pack("!H", CRC16_CCITT_FUNC(bytes(body)))
buf = bytes(body + c)
r = attempt("C03 TM epl=15 ts_len=7", lambda: PusTm.unpack(buf, 7))
if r: print("   ts", r.timestamp.hex())

# C15 failure-notice equality
tc = PusTc(service=17, subservice=1, apid=5, seq_count=3)
t = create_start_failure_tm(5, tc, FailureNotice(PacketFieldEnum(8, 3), b"\x01\x02"), bytes(7))
raw = t.pack()
u = Service1Tm.unpack(bytes(raw), UnpackParams(7, 1, 1))
print("C15 failure report eq:", u == t, "repack:", u.pack() == raw, u.failure_notice)
t = create_step_success_tm(5, tc, PacketFieldEnum(16, 300), bytes(7)); raw = t.pack()
u = Service1Tm.unpack(bytes(raw), UnpackParams(7, 2, 1)); print("C15 step success eq:", u == t)

# C17 USLP
hdr = PrimaryHeader(scid=0x1234, src_dest=SourceOrDestField.SOURCE, vcid=0x2A, map_id=0xB, frame_len=0, bypass_seq_ctrl_flag=BypassSequenceControlFlag.SEQ_CTRLD_QOS, prot_ctrl_cmd_flag=ProtocolCommandFlag.USER_DATA, op_ctrl_flag=False)
tfdf = TransferFrameDataField(TfdzConstructionRules.FpPacketSpanningMultipleFrames, UslpProtocolIdentifier.SPACE_PACKETS_ENCAPSULATION_PACKETS, b"", fhp_or_lvop=0)
# craft: fixed frame with exact_tfdf_len = 1
raw = bytearray(hdr.pack()); raw[4]=0; raw[5]=7  # frame_len+1 = 8
raw += bytes([0x00])
attempt("C17 tfdf len 1 FP", lambda: TransferFrame.unpack(bytes(raw), FrameType.FIXED, FixedFrameProperties(8, False, False)))
attempt("C17 TFDF.unpack short", lambda: TransferFrameDataField.unpack(b"\x00", False, 1, FrameType.FIXED))
# variable frame prefix cut in FECF
hdr.op_ctrl_flag = True
tfdf = TransferFrameDataField(TfdzConstructionRules.VpNoSegmentation, UslpProtocolIdentifier.SPACE_PACKETS_ENCAPSULATION_PACKETS, b"abcd")
fr = TransferFrame(hdr, tfdf, insert_zone=None, op_ctrl_field=b"\x01\x02\x03\x04", fecf=b"\xaa\xbb")
fr.set_frame_len_in_header(); raw = fr.pack(); print("frame len", len(raw), fr.len(), hdr.frame_len)
props = VarFrameProperties(False, True, 12, fecf_len=2)
r = attempt("C17 var full", lambda: TransferFrame.unpack(bytes(raw), FrameType.VARIABLE, props))
r = attempt("C17 var prefix -3", lambda: TransferFrame.unpack(bytes(raw[:-3]), FrameType.VARIABLE, props))
if r: print("   ocf", r.op_ctrl_field, "fecf", r.fecf)
