import SpVerif.Driver
def main : IO Unit := do
  let hin ← IO.getStdin
  let hout ← IO.getStdout
  SpVerif.Driver.loop hin hout
  hout.flush
