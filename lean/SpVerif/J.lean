import Lean.Data.Json
import SpVerif.Py
/-!
# JSON glue for the line protocol (driver only; no model or theorem depends on this file)
-/
namespace SpVerif.J
open Lean

abbrev R := Except String

def hexChar (n : Nat) : Char :=
  if n < 10 then Char.ofNat (48 + n) else Char.ofNat (87 + n)

def hexOfBytes (b : Bytes) : String :=
  String.ofList (b.flatMap fun x => [hexChar (x.toNat / 16), hexChar (x.toNat % 16)])

def hexVal (c : Char) : Option Nat :=
  if '0' ≤ c ∧ c ≤ '9' then some (c.toNat - 48)
  else if 'a' ≤ c ∧ c ≤ 'f' then some (c.toNat - 87)
  else if 'A' ≤ c ∧ c ≤ 'F' then some (c.toNat - 55)
  else none

def bytesOfHexAux : List Char → Bytes → R Bytes
  | [], acc => .ok acc.reverse
  | [_], _ => .error "odd hex length"
  | a :: b :: rest, acc =>
    match hexVal a, hexVal b with
    | some x, some y => bytesOfHexAux rest (u8 (x * 16 + y) :: acc)
    | _, _ => .error "bad hex digit"

def bytesOfHex (s : String) : R Bytes := bytesOfHexAux s.toList []

def field (j : Json) (k : String) : R Json :=
  match j.getObjVal? k with
  | .ok v => .ok v
  | .error _ => .error s!"missing field {k}"

def getInt (j : Json) (k : String) : R Int := do
  let v ← field j k
  match v.getInt? with
  | .ok i => .ok i
  | .error _ => .error s!"field {k}: not an integer"

def getNat (j : Json) (k : String) : R Nat := do
  let i ← getInt j k
  if i < 0 then .error s!"field {k}: negative" else .ok i.toNat

def getBool (j : Json) (k : String) : R Bool := do
  let v ← field j k
  match v.getBool? with
  | .ok b => .ok b
  | .error _ => .error s!"field {k}: not a bool"

def getStr (j : Json) (k : String) : R String := do
  let v ← field j k
  match v.getStr? with
  | .ok s => .ok s
  | .error _ => .error s!"field {k}: not a string"

def getHex (j : Json) (k : String) : R Bytes := do
  bytesOfHex (← getStr j k)

/-- `null` → none -/
def getHexOpt (j : Json) (k : String) : R (Option Bytes) := do
  let v ← field j k
  if v.isNull then .ok none else
  match v.getStr? with
  | .ok s => some <$> bytesOfHex s
  | .error _ => .error s!"field {k}: not a string/null"

def getIntOpt (j : Json) (k : String) : R (Option Int) := do
  let v ← field j k
  if v.isNull then .ok none else
  match v.getInt? with
  | .ok i => .ok (some i)
  | .error _ => .error s!"field {k}: not an int/null"

def getArr (j : Json) (k : String) : R (List Json) := do
  let v ← field j k
  match v.getArr? with
  | .ok a => .ok a.toList
  | .error _ => .error s!"field {k}: not an array"

def jn (n : Nat) : Json := Json.num (JsonNumber.fromNat n)
def ji (n : Int) : Json := Json.num (JsonNumber.fromInt n)
def jh (b : Bytes) : Json := Json.str (hexOfBytes b)
def jb (b : Bool) : Json := Json.bool b
def js (s : String) : Json := Json.str s
def jarr (l : List Json) : Json := Json.arr l.toArray
def obj (kvs : List (String × Json)) : Json := Json.mkObj kvs
def jopt {α} (f : α → Json) : Option α → Json
  | none => Json.null
  | some a => f a

/-- canonical result line: `{"ok": …}` or `{"err": "<category>"}` -/
def res {α} (f : α → Json) : Py α → Json
  | .ok a => obj [("ok", f a)]
  | .error e => obj [("err", js e.name)]

abbrev Handler := Json → R Json

end SpVerif.J
