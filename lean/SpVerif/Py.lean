/-!
# Python-semantics kit

Octet strings, the error categories of the library (documented and undocumented ones) and the
primitive operations whose *failure modes* matter for the properties: indexing (`IndexError`),
`struct.unpack` on a slice of the wrong size (`struct.error`), `struct.pack` / `bytearray.append`
of an out-of-range integer, `IntEnum(v)`.

Nothing here totalises silently: every access that can fail in CPython can fail here.
-/
namespace SpVerif

abbrev Bytes := List UInt8

/-- Error categories. `documented` are those the library's docstrings / exception modules name. -/
inductive Err
  | value        -- ValueError and subclasses (BytesTooShortError, TmSrcDataTooShortError, UnicodeDecodeError)
  | crc          -- InvalidTcCrc16 / InvalidTmCrc16 / InvalidCrc
  | cfdpVersion  -- UnsupportedCfdpVersion
  | tlvType      -- TlvTypeMissmatch
  | uslp         -- the seven Uslp* exception classes
  | verifParams  -- InvalidVerifParams
  | overflow     -- OverflowError
  | fileNotFound -- FileNotFoundError
  | type         -- TypeError
  | index        -- IndexError
  | struct       -- struct.error
  | attr         -- AttributeError
  | key          -- KeyError
  | assertion    -- AssertionError
  | fuel         -- model-only: a fuelled loop ran out of fuel (shown impossible by lemmas)
deriving DecidableEq, Repr, Inhabited

def Err.documented : Err → Bool
  | .value | .crc | .cfdpVersion | .tlvType | .uslp | .verifParams | .overflow | .fileNotFound => true
  | _ => false

def Err.name : Err → String
  | .value => "value" | .crc => "crc" | .cfdpVersion => "cfdp_version" | .tlvType => "tlv_type"
  | .uslp => "uslp" | .verifParams => "verif_params" | .overflow => "overflow"
  | .fileNotFound => "file_not_found" | .type => "type" | .index => "index" | .struct => "struct"
  | .attr => "attribute" | .key => "key" | .assertion => "assertion" | .fuel => "fuel"

abbrev Py := Except Err

/-- A computation fails, if at all, only with a documented error. -/
def Documented {α : Type} (x : Py α) : Prop := ∀ e, x = .error e → e.documented = true

/-- `UInt8` from a natural number (callers establish `n < 256` where it matters). -/
abbrev u8 (n : Nat) : UInt8 := UInt8.ofNat n

@[simp] theorem u8_toNat (n : Nat) : (u8 n).toNat = n % 256 := by
  simp [u8]

@[simp] theorem u8_toNat_self (x : UInt8) : u8 x.toNat = x := by
  simp [u8]

theorem toNat_lt (x : UInt8) : x.toNat < 256 := UInt8.toNat_lt x

/-- `b[i]` for a non-negative index; `IndexError` when out of range. -/
def idx (b : Bytes) (i : Nat) : Py Nat :=
  match b[i]? with
  | some x => .ok x.toNat
  | none => .error .index

/-- `b[s:e]` for non-negative `s`, `e` (total, clamps like Python). -/
def slice (b : Bytes) (s e : Nat) : Bytes := (b.take e).drop s

/-- `b[s:]`. -/
abbrev sliceFrom (b : Bytes) (s : Nat) : Bytes := b.drop s

/-- `bytearray.append(v)` / `bytes([v])`: `ValueError` outside 0..255. -/
def byteOf (v : Int) : Py UInt8 :=
  if 0 ≤ v ∧ v < 256 then .ok (u8 v.toNat) else .error .value

/-- `bytearray.append(v)` for `v ≥ 0`. -/
def byteOfN (v : Nat) : Py UInt8 :=
  if v < 256 then .ok (u8 v) else .error .value

theorem byteOfN_ok {v : Nat} (h : v < 256) : byteOfN v = .ok (u8 v) := by simp [byteOfN, h]

/-- `IntEnum(v)`: `ValueError` iff `v` is not a member. -/
def enumOf (members : List Nat) (v : Nat) : Py Nat :=
  if v ∈ members then .ok v else .error .value

@[simp] theorem idx_ok {b : Bytes} {i : Nat} (h : i < b.length) : idx b i = .ok b[i].toNat := by
  simp [idx, List.getElem?_eq_getElem h]

theorem idx_err {b : Bytes} {i : Nat} (h : b.length ≤ i) : idx b i = .error .index := by
  simp [idx, List.getElem?_eq_none h]

@[simp] theorem slice_length (b : Bytes) (s e : Nat) : (slice b s e).length = min e b.length - s := by
  simp [slice]

theorem slice_append_left (a b : Bytes) (s e : Nat) (h : e ≤ a.length) :
    slice (a ++ b) s e = slice a s e := by
  simp [slice, List.take_append_of_le_length h]

theorem idx_append_left (a b : Bytes) (i : Nat) (h : i < a.length) : idx (a ++ b) i = idx a i := by
  simp [idx, List.getElem?_append_left h]

theorem idx_drop (b : Bytes) (k i : Nat) : idx (b.drop k) i = idx b (k + i) := by
  simp [idx, List.getElem?_drop]

theorem slice_drop (b : Bytes) (k s e : Nat) : slice (b.drop k) s e = slice b (k + s) (k + e) := by
  simp only [slice, List.take_drop, List.drop_drop]

theorem slice_eq_of_append (a m c : Bytes) : slice (a ++ m ++ c) a.length (a.length + m.length) = m := by
  simp [slice, List.take_append, List.drop_append]

/-- Simp set that unfolds the `Except` monad plumbing in decoder models. -/
theorem bind_ok {α β : Type} (a : α) (f : α → Py β) : (Except.ok a >>= f) = f a := rfl
theorem bind_err {α β : Type} (e : Err) (f : α → Py β) : ((Except.error e : Py α) >>= f) = .error e := rfl

theorem Documented.ok {α : Type} (a : α) : Documented (Except.ok a : Py α) := by
  intro e h; cases h

theorem Documented.err {α : Type} {e : Err} (h : e.documented = true) :
    Documented (Except.error e : Py α) := by
  intro e' h'; cases h'; exact h

theorem Documented.bind {α β : Type} {x : Py α} {f : α → Py β}
    (hx : Documented x) (hf : ∀ a, x = .ok a → Documented (f a)) : Documented (x >>= f) := by
  cases x with
  | error e =>
    intro e' h'
    have : (Except.error e : Py β) = .error e' := h'
    cases this; exact hx e rfl
  | ok a => exact hf a rfl

end SpVerif
