import SpVerif.Model.Verificator
/-!
# Lemmas about the tracker model (`Model/Verificator.lean`), reusable by other Props files

* association-list algebra: `lookup` / `set` / `erase` / `keys` / filter, with and without the
  unique-keys invariant;
* equational characterisation of every call (`addTc_*`, `addTm_*`, `removeEntry_*`);
* `checkSubservice_eq` : the transcription of the `if/elif` chain equals the per-field table;
* `KeysUnique` is preserved by every call.
-/
namespace SpVerif.Verificator
open SpVerif

/-- the dictionary invariant -/
def KeysUnique (t : Tracker) : Prop := (keys t).Nodup

/-! ## association lists -/

@[simp] theorem lookup_nil (r : Nat) : lookup [] r = none := rfl

@[simp] theorem lookup_cons (k : Nat) (s : VStatus) (t : Tracker) (r : Nat) :
    lookup ((k, s) :: t) r = if k = r then some s else lookup t r := rfl

@[simp] theorem keys_nil : keys ([] : Tracker) = [] := rfl

@[simp] theorem keys_cons (e : Nat × VStatus) (t : Tracker) : keys (e :: t) = e.1 :: keys t := rfl

theorem lookup_eq_none_iff (t : Tracker) (r : Nat) : lookup t r = none ↔ r ∉ keys t := by
  induction t with
  | nil => simp
  | cons e t ih =>
    obtain ⟨k, s⟩ := e
    by_cases h : k = r
    · simp [h]
    · have h' : ¬ r = k := fun x => h x.symm
      simp [h, h', ih]

theorem lookup_isSome_iff (t : Tracker) (r : Nat) : (lookup t r).isSome = true ↔ r ∈ keys t := by
  have := lookup_eq_none_iff t r
  cases h : lookup t r with
  | none => simp [h] at this; simp [this]
  | some s => simp [h] at this; simp [this]

theorem mem_of_lookup {t : Tracker} {r : Nat} {s : VStatus} (h : lookup t r = some s) : (r, s) ∈ t := by
  induction t with
  | nil => simp at h
  | cons e t ih =>
    obtain ⟨k, s0⟩ := e
    by_cases hk : k = r
    · simp [hk] at h; simp [hk, h]
    · simp [hk] at h; exact List.mem_cons_of_mem _ (ih h)

theorem lookup_of_mem {t : Tracker} (hu : KeysUnique t) {r : Nat} {s : VStatus} (h : (r, s) ∈ t) :
    lookup t r = some s := by
  induction t with
  | nil => simp at h
  | cons e t ih =>
    obtain ⟨k, s0⟩ := e
    have hu' : k ∉ keys t ∧ (keys t).Nodup := by simpa [KeysUnique] using hu
    rcases List.mem_cons.1 h with h1 | h1
    · cases h1; simp
    · have hr : r ∈ keys t := List.mem_map.2 ⟨(r, s), h1, rfl⟩
      have hk : ¬ k = r := fun x => hu'.1 (x ▸ hr)
      simp [hk, ih hu'.2 h1]

theorem lookup_append (t u : Tracker) (r : Nat) :
    lookup (t ++ u) r = (lookup t r).or (lookup u r) := by
  induction t with
  | nil => simp
  | cons e t ih =>
    obtain ⟨k, s⟩ := e
    by_cases hk : k = r <;> simp [hk, ih]

theorem keys_append (t u : Tracker) : keys (t ++ u) = keys t ++ keys u := by simp [keys]

theorem keys_set (t : Tracker) (r : Nat) (s : VStatus) : keys (set t r s) = keys t := by
  induction t with
  | nil => rfl
  | cons e t ih =>
    obtain ⟨k, s0⟩ := e
    by_cases hk : k = r <;> simp [set, hk, ih]

theorem lookup_set_ne (t : Tracker) (r r' : Nat) (s : VStatus) (h : r' ≠ r) :
    lookup (set t r s) r' = lookup t r' := by
  induction t with
  | nil => rfl
  | cons e t ih =>
    obtain ⟨k, s0⟩ := e
    by_cases hk : k = r
    · have : ¬ k = r' := fun x => h (x ▸ hk ▸ rfl)
      simp [set, hk]
      subst hk
      simp [this]
    · simp [set, hk, ih]

theorem lookup_set_eq (t : Tracker) (r : Nat) (s : VStatus) (h : (lookup t r).isSome = true) :
    lookup (set t r s) r = some s := by
  induction t with
  | nil => simp at h
  | cons e t ih =>
    obtain ⟨k, s0⟩ := e
    by_cases hk : k = r
    · simp [set, hk]
    · simp [hk] at h
      simp [set, hk, ih h]

theorem length_set (t : Tracker) (r : Nat) (s : VStatus) : (set t r s).length = t.length := by
  have := congrArg List.length (keys_set t r s)
  simpa [keys] using this

/-- modifying the entry of an existing key = applying the change to every entry with that key
    (there is exactly one) -/
theorem set_eq_map {t : Tracker} (hu : KeysUnique t) {r : Nat} {s0 : VStatus} (h : lookup t r = some s0)
    (f : VStatus → VStatus) :
    set t r (f s0) = t.map (fun e => if e.1 = r then (e.1, f e.2) else e) := by
  induction t with
  | nil => simp at h
  | cons e t ih =>
    obtain ⟨k, s⟩ := e
    have hu' : k ∉ keys t ∧ (keys t).Nodup := by simpa [KeysUnique] using hu
    by_cases hk : k = r
    · simp [hk] at h
      subst hk; subst h
      have : t.map (fun e => if e.1 = k then (e.1, f e.2) else e) = t := by
        have : ∀ e ∈ t, (fun e : Nat × VStatus => if e.1 = k then (e.1, f e.2) else e) e = e := by
          intro e he
          have : e.1 ∈ keys t := List.mem_map.2 ⟨e, he, rfl⟩
          have hne : ¬ e.1 = k := fun x => hu'.1 (x ▸ this)
          simp [hne]
        rw [List.map_congr_left this]; simp
      simp [set, this]
    · simp [hk] at h
      simp [set, hk, ih hu'.2 h]

theorem keys_erase (t : Tracker) (r : Nat) : keys (erase t r) = (keys t).erase r := by
  induction t with
  | nil => rfl
  | cons e t ih =>
    obtain ⟨k, s⟩ := e
    by_cases hk : k = r
    · simp [erase, hk]
    · simp only [keys_cons, erase, hk, ↓reduceIte]; rw [List.erase_cons_tail (show ¬ (k == r) = true by simp [hk]), ih]

theorem lookup_erase_ne (t : Tracker) (r r' : Nat) (h : r' ≠ r) : lookup (erase t r) r' = lookup t r' := by
  induction t with
  | nil => rfl
  | cons e t ih =>
    obtain ⟨k, s⟩ := e
    by_cases hk : k = r
    · have : ¬ k = r' := fun x => h (x ▸ hk ▸ rfl)
      simp [erase, hk]
      subst hk
      simp [this]
    · simp [erase, hk, ih]

theorem erase_eq_filter {t : Tracker} (hu : KeysUnique t) (r : Nat) :
    erase t r = t.filter (fun e => decide (e.1 ≠ r)) := by
  induction t with
  | nil => rfl
  | cons e t ih =>
    obtain ⟨k, s⟩ := e
    have hu' : k ∉ keys t ∧ (keys t).Nodup := by simpa [KeysUnique] using hu
    by_cases hk : k = r
    · subst hk
      simp only [erase, ↓reduceIte, List.filter_cons, ne_eq, not_true_eq_false, decide_false]
      symm
      apply List.filter_eq_self.2
      intro e he
      have : e.1 ∈ keys t := List.mem_map.2 ⟨e, he, rfl⟩
      have hne : ¬ e.1 = k := fun x => hu'.1 (x ▸ this)
      simp [hne]
    · simp [erase, hk, ih hu'.2]

theorem erase_of_not_mem {t : Tracker} {r : Nat} (h : lookup t r = none) : erase t r = t := by
  induction t with
  | nil => rfl
  | cons e t ih =>
    obtain ⟨k, s⟩ := e
    by_cases hk : k = r
    · simp [hk] at h
    · simp [hk] at h; simp [erase, hk, ih h]

theorem lookup_erase_eq {t : Tracker} (hu : KeysUnique t) (r : Nat) : lookup (erase t r) r = none := by
  rw [lookup_eq_none_iff, keys_erase]
  exact fun h => (List.Nodup.mem_erase_iff hu).1 h |>.1 rfl

theorem keys_filter_sublist (t : Tracker) (p : Nat × VStatus → Bool) :
    (keys (t.filter p)).Sublist (keys t) :=
  (List.filter_sublist (l := t)).map Prod.fst

/-- looking a key up in a filtered dictionary (unique keys) -/
theorem lookup_filter {t : Tracker} (hu : KeysUnique t) (p : Nat × VStatus → Bool) (r : Nat) :
    lookup (t.filter p) r = (lookup t r).filter (fun s => p (r, s)) := by
  induction t with
  | nil => rfl
  | cons e t ih =>
    obtain ⟨k, s⟩ := e
    have hu' : k ∉ keys t ∧ (keys t).Nodup := by simpa [KeysUnique] using hu
    by_cases hk : k = r
    · subst hk
      have hnone : lookup t k = none := (lookup_eq_none_iff t k).2 hu'.1
      cases hp : p (k, s)
      · have := ih hu'.2
        simp [hp, Option.filter, this, hnone]
      · simp [hp, Option.filter]
    · cases hp : p (k, s) <;> simp [hp, hk, ih hu'.2]

/-! ## the transition function -/

/-- **the `if/elif` chain computes the per-field table**, for every subservice 1..8 and every
    status record (a step report must carry a step id) -/
theorem checkSubservice_eq (s : VStatus) (sub : Nat) (v : Option Nat)
    (h1 : 1 ≤ sub) (h8 : sub ≤ 8) (hv : sub = 5 ∨ sub = 6 → v.isSome = true) :
    checkSubservice s sub v = (Spec.report s sub v, .ok (Spec.resultFlag sub)) := by
  obtain ⟨r, a, st, sp, l, c⟩ := s
  have hs : sub = 1 ∨ sub = 2 ∨ sub = 3 ∨ sub = 4 ∨ sub = 5 ∨ sub = 6 ∨ sub = 7 ∨ sub = 8 := by omega
  rcases hs with h | h | h | h | h | h | h | h <;> subst h
  · cases r <;> cases a <;> cases st <;> cases sp <;> rfl
  · cases r <;> cases a <;> cases st <;> cases sp <;> rfl
  · cases r <;> cases a <;> cases st <;> cases sp <;> rfl
  · cases r <;> cases a <;> cases st <;> cases sp <;> rfl
  · cases v with
    | none => simp at hv
    | some x => cases r <;> cases a <;> cases st <;> cases sp <;> rfl
  · cases v with
    | none => simp at hv
    | some x => cases r <;> cases a <;> cases st <;> cases sp <;> rfl
  · cases r <;> cases a <;> cases st <;> cases sp <;> rfl
  · cases r <;> cases a <;> cases st <;> cases sp <;> rfl

/-- a step report without a step id raises `AttributeError` after the record has been changed -/
theorem checkSubservice_no_step_id (s : VStatus) (sub : Nat) (h : sub = 5 ∨ sub = 6) :
    (checkSubservice s sub none).2 = .error .attr := by
  rcases h with h | h <;> subst h <;> rfl

/-- the record after `_check_subservice` is the table's record for **every** subservice value and
    whether or not a step id is present (outside 1..8 nothing changes; a missing step id leaves the
    step list alone) -/
theorem checkSubservice_fst (s : VStatus) (sub : Nat) (v : Option Nat) :
    (checkSubservice s sub v).1 = Spec.report s sub v := by
  obtain ⟨r, a, st, sp, l, c⟩ := s
  by_cases h8 : sub ≤ 8
  · have hs : sub = 0 ∨ sub = 1 ∨ sub = 2 ∨ sub = 3 ∨ sub = 4 ∨ sub = 5 ∨ sub = 6 ∨ sub = 7 ∨ sub = 8 := by omega
    rcases hs with h | h | h | h | h | h | h | h | h <;> subst h <;> cases v <;>
      cases r <;> cases a <;> cases st <;> cases sp <;> rfl
  · have n1 : ¬ sub = 1 := by omega
    have n2 : ¬ sub = 2 := by omega
    have n3 : ¬ sub = 3 := by omega
    have n4 : ¬ sub = 4 := by omega
    have n5 : ¬ sub = 5 := by omega
    have n6 : ¬ sub = 6 := by omega
    have n7 : ¬ sub = 7 := by omega
    have n8 : ¬ sub = 8 := by omega
    simp [checkSubservice, Spec.report, Spec.accepted, Spec.started, Spec.stepField, Spec.completed,
      Spec.stepList, Spec.finishes, n1, n2, n3, n4, n5, n6, n7, n8]

/-! ## the table, field by field -/

theorem Spec.report_step_of_failure (s : VStatus) (sub : Nat) (v : Option Nat) (h : s.step = .failure) :
    (Spec.report s sub v).step = .failure := by
  simp [Spec.report, Spec.stepField, h]

theorem Spec.report_allRecvd_of_true (s : VStatus) (sub : Nat) (v : Option Nat) (h : s.allRecvd = true) :
    (Spec.report s sub v).allRecvd = true := by
  simp [Spec.report, h]

/-- the step values a single call appends to the list of request id `r` -/
def stepsOf (r : Nat) : Op → List Nat
  | .addTm r' sub (some v) => if r' = r ∧ (sub = 5 ∨ sub = 6) then [v] else []
  | _ => []

/-- the step values the reports of a history carry for request id `r`, in order -/
def stepsFor (r : Nat) (ops : List Op) : List Nat := ops.flatMap (stepsOf r)

theorem Spec.report_stepList (s : VStatus) (r sub : Nat) (v : Option Nat) :
    (Spec.report s sub v).stepList = s.stepList ++ stepsOf r (.addTm r sub v) := by
  cases v with
  | none => simp [Spec.report, Spec.stepList, stepsOf]
  | some x =>
    by_cases h : sub = 5 ∨ sub = 6
    · simp [Spec.report, Spec.stepList, stepsOf, h]
    · simp [Spec.report, Spec.stepList, stepsOf, h]

/-! ## equational characterisation of the calls -/

theorem addTc_known {t : Tracker} {r : Nat} {s : VStatus} (h : lookup t r = some s) :
    step t (.addTc r) = (t, .added false) := by
  simp [step, addTc, h]

theorem addTc_new {t : Tracker} {r : Nat} (h : lookup t r = none) :
    step t (.addTc r) = (t ++ [(r, VStatus.init)], .added true) := by
  simp [step, addTc, h]

theorem addTm_unknown {t : Tracker} {r : Nat} (h : lookup t r = none) (sub : Nat) (v : Option Nat) :
    step t (.addTm r sub v) = (t, .noResult) := by
  simp [step, addTm, h]

theorem addTm_bad_subservice {t : Tracker} {r : Nat} {s : VStatus} (h : lookup t r = some s) (sub : Nat)
    (v : Option Nat) (hs : sub = 0 ∨ 8 < sub) : step t (.addTm r sub v) = (t, .raised .value) := by
  have : sub = 0 ∨ 8 < sub := by omega
  simp [step, addTm, h, this]

theorem addTm_known {t : Tracker} {r : Nat} {s : VStatus} (h : lookup t r = some s) (sub : Nat)
    (v : Option Nat) (h1 : 1 ≤ sub) (h8 : sub ≤ 8) (hv : sub = 5 ∨ sub = 6 → v.isSome = true) :
    step t (.addTm r sub v)
      = (set t r (Spec.report s sub v), .result (Spec.report s sub v) (Spec.resultFlag sub)) := by
  have : ¬ (sub = 0 ∨ 8 < sub) := by omega
  simp [step, addTm, h, this, checkSubservice_eq s sub v h1 h8 hv]

/-- a report with a subservice in 1..8 for a registered id, with or without a step id -/
theorem addTm_in_range {t : Tracker} {r : Nat} {s : VStatus} (h : lookup t r = some s) (sub : Nat)
    (v : Option Nat) (h1 : 1 ≤ sub) (h8 : sub ≤ 8) :
    step t (.addTm r sub v)
      = (set t r (Spec.report s sub v),
          match (checkSubservice s sub v).2 with
          | .ok c => .result (Spec.report s sub v) c
          | .error e => .raised e) := by
  have : ¬ (sub ≤ 0 ∨ sub > 8) := by omega
  simp only [step, addTm, h, this, ↓reduceIte, checkSubservice_fst]
  rfl

theorem addTm_no_step_id {t : Tracker} {r : Nat} {s : VStatus} (h : lookup t r = some s) (sub : Nat)
    (hs : sub = 5 ∨ sub = 6) :
    (step t (.addTm r sub none)).2 = .raised .attr := by
  have : ¬ (sub = 0 ∨ 8 < sub) := by omega
  simp [step, addTm, h, this, checkSubservice_no_step_id s sub hs]

theorem removeEntry_known {t : Tracker} {r : Nat} {s : VStatus} (h : lookup t r = some s) :
    step t (.removeEntry r) = (erase t r, .removed true) := by
  simp [step, removeEntry, h]

theorem removeEntry_unknown {t : Tracker} {r : Nat} (h : lookup t r = none) :
    step t (.removeEntry r) = (t, .removed false) := by
  simp [step, removeEntry, h]

theorem removeCompleted_eq (t : Tracker) :
    step t .removeCompleted = (t.filter (fun e => !e.2.allRecvd), .done) := rfl

/-! ## histories -/

theorem run_append (t : Tracker) (a b : List Op) : run t (a ++ b) = run (run t a) b := by
  induction a generalizing t with
  | nil => rfl
  | cons o os ih => simp [run, ih]

theorem trace_length (t : Tracker) (ops : List Op) : (trace t ops).length = ops.length := by
  induction ops generalizing t with
  | nil => rfl
  | cons o os ih => simp [trace, ih]

theorem trace_append (t : Tracker) (a b : List Op) :
    trace t (a ++ b) = trace t a ++ trace (run t a) b := by
  induction a generalizing t with
  | nil => rfl
  | cons o os ih => simp [trace, run, ih]

/-- the trackers recorded in the trace are the trackers after each prefix of the history -/
theorem trace_getElem (t : Tracker) (ops : List Op) (i : Nat) (h : i < ops.length) :
    (trace t ops)[i]? = some ((step (run t (ops.take i)) ops[i]).2, run t (ops.take (i + 1))) := by
  induction ops generalizing t i with
  | nil => simp at h
  | cons o os ih =>
    cases i with
    | zero => simp [trace, run]
    | succ j =>
      have hj : j < os.length := by simpa using h
      simp [trace, run, ih (step t o).1 j hj]

/-! ## the dictionary invariant -/

/-- what a call does to the key list -/
theorem keys_step (t : Tracker) (o : Op) :
    keys (step t o).1 =
      match o with
      | .addTc r => if r ∈ keys t then keys t else keys t ++ [r]
      | .addTm _ _ _ => keys t
      | .removeEntry r => (keys t).erase r
      | .removeCompleted => keys (t.filter (fun e => !e.2.allRecvd)) := by
  cases o with
  | addTc r =>
    cases h : lookup t r with
    | none =>
      have : r ∉ keys t := (lookup_eq_none_iff t r).1 h
      simp [addTc_new h, keys_append, this]
    | some s =>
      have : r ∈ keys t := (lookup_isSome_iff t r).1 (by simp [h])
      simp [addTc_known h, this]
  | addTm r sub v =>
    simp only [step, addTm]
    cases h : lookup t r with
    | none => rfl
    | some s =>
      by_cases hb : sub = 0 ∨ 8 < sub
      · simp [hb]
      · simp [hb, keys_set]
  | removeEntry r =>
    cases h : lookup t r with
    | none =>
      have : r ∉ keys t := (lookup_eq_none_iff t r).1 h
      simp [removeEntry_unknown h, List.erase_of_not_mem this]
    | some s => simp [removeEntry_known h, keys_erase]
  | removeCompleted => rfl

/-- every call keeps the keys unique -/
theorem keysUnique_step {t : Tracker} (hu : KeysUnique t) (o : Op) : KeysUnique (step t o).1 := by
  unfold KeysUnique at hu ⊢
  rw [keys_step]
  cases o with
  | addTc r =>
    by_cases h : r ∈ keys t
    · simpa [h] using hu
    · simp only [h, ↓reduceIte]
      rw [List.nodup_append]
      refine ⟨hu, by simp, ?_⟩
      intro a ha b hb
      simp at hb; subst hb
      exact fun x => h (x ▸ ha)
  | addTm r sub v => exact hu
  | removeEntry r => exact hu.erase r
  | removeCompleted => exact hu.sublist (keys_filter_sublist t _)

theorem keysUnique_run {t : Tracker} (hu : KeysUnique t) (ops : List Op) : KeysUnique (run t ops) := by
  induction ops generalizing t with
  | nil => exact hu
  | cons o os ih => exact ih (keysUnique_step hu o)

/-- **what one call can do to the entry of a request id that is present before and after it**:
    nothing, or — if the call is a report for that very id — the table's transition -/
theorem step_entry {t : Tracker} (hu : KeysUnique t) {r : Nat} {s s' : VStatus} (h : lookup t r = some s)
    (o : Op) (h' : lookup (step t o).1 r = some s') :
    (s' = s ∧ stepsOf r o = [] ∨ ∃ sub v, o = .addTm r sub v ∧ 1 ≤ sub ∧ sub ≤ 8 ∧ s' = Spec.report s sub v) := by
  cases o with
  | addTc r0 =>
    cases h0 : lookup t r0 with
    | some s0 =>
      rw [addTc_known h0] at h'
      exact .inl ⟨by simpa [h] using h'.symm, rfl⟩
    | none =>
      rw [addTc_new h0] at h'
      simp [lookup_append, h] at h'
      exact .inl ⟨h'.symm, rfl⟩
  | addTm r0 sub v =>
    by_cases hr : r0 = r
    · subst hr
      by_cases hb : sub = 0 ∨ 8 < sub
      · rw [addTm_bad_subservice h sub v hb] at h'
        refine .inl ⟨by simpa [h] using h'.symm, ?_⟩
        cases v with
        | none => rfl
        | some x =>
          have : ¬ (sub = 5 ∨ sub = 6) := by omega
          simp [stepsOf, this]
      · have hb' : ¬ (sub ≤ 0 ∨ sub > 8) := by omega
        simp only [step, addTm, h, hb', ↓reduceIte] at h'
        rw [lookup_set_eq _ _ _ (by simp [h]), checkSubservice_fst] at h'
        exact .inr ⟨sub, v, rfl, by omega, by omega, by simpa using h'.symm⟩
    · have hne : r ≠ r0 := fun x => hr x.symm
      have hsteps : stepsOf r (.addTm r0 sub v) = [] := by
        cases v with
        | none => rfl
        | some x => simp [stepsOf, hr]
      refine .inl ⟨?_, hsteps⟩
      simp only [step, addTm] at h'
      cases h0 : lookup t r0 with
      | none => simp [h0, h] at h'; exact h'.symm
      | some s0 =>
        by_cases hb : sub ≤ 0 ∨ sub > 8
        · simp only [h0, hb, ↓reduceIte, h] at h'; simpa using h'.symm
        · simp only [h0, hb, ↓reduceIte] at h'
          rw [lookup_set_ne _ _ _ _ hne, h] at h'
          simpa using h'.symm
  | removeEntry r0 =>
    refine .inl ⟨?_, rfl⟩
    cases h0 : lookup t r0 with
    | none => rw [removeEntry_unknown h0, h] at h'; simpa using h'.symm
    | some s0 =>
      rw [removeEntry_known h0] at h'
      by_cases hr : r0 = r
      · subst hr
        simp [lookup_erase_eq hu] at h'
      · rw [lookup_erase_ne _ _ _ (fun x => hr x.symm), h] at h'
        simpa using h'.symm
  | removeCompleted =>
    refine .inl ⟨?_, rfl⟩
    rw [removeCompleted_eq, lookup_filter hu, h] at h'
    simp [Option.filter] at h'
    exact h'.2.symm

/-- the entry of request id `r` survives every call of the history -/
def Alive (t : Tracker) (r : Nat) : List Op → Prop
  | [] => True
  | o :: os => (lookup (step t o).1 r).isSome = true ∧ Alive (step t o).1 r os

/-- surviving every call = being present after every non-empty prefix of the history -/
theorem alive_iff_prefixes (t : Tracker) (r : Nat) (ops : List Op) :
    Alive t r ops ↔ ∀ n, 0 < n → n ≤ ops.length → (lookup (run t (ops.take n)) r).isSome = true := by
  induction ops generalizing t with
  | nil => simp only [Alive, List.length_nil, true_iff]; intro n hn hle; omega
  | cons o os ih =>
    simp only [Alive, ih]
    constructor
    · rintro ⟨h0, hrest⟩ n hn hle
      cases n with
      | zero => omega
      | succ m =>
        cases m with
        | zero => simpa [run] using h0
        | succ k =>
          have := hrest (k + 1) (by omega) (by simpa using hle)
          simpa [run] using this
    · intro hall
      refine ⟨by simpa [run] using hall 1 (by omega) (by simp), ?_⟩
      intro n hn hle
      have := hall (n + 1) (by omega) (by simpa using hle)
      simpa [run] using this

/-- a property of the record of `r` that every table transition preserves holds after every history
    the entry survives -/
theorem entry_invariant {P : VStatus → Prop} (hP : ∀ s sub v, P s → P (Spec.report s sub v))
    {t : Tracker} (hu : KeysUnique t) {r : Nat} {s : VStatus} (h : lookup t r = some s) (hs : P s)
    (ops : List Op) (alive : Alive t r ops) :
    ∃ s', lookup (run t ops) r = some s' ∧ P s' := by
  induction ops generalizing t s with
  | nil => exact ⟨s, h, hs⟩
  | cons o os ih =>
    obtain ⟨h0, hrest⟩ := alive
    obtain ⟨s1, h1⟩ := Option.isSome_iff_exists.1 h0
    have hP1 : P s1 := by
      rcases step_entry hu h o h1 with ⟨e, _⟩ | ⟨sub, v, _, _, _, e⟩
      · exact e ▸ hs
      · exact e ▸ hP s sub v hs
    exact ih (keysUnique_step hu o) h1 hP1 hrest

theorem keysUnique_empty : KeysUnique Tracker.empty := List.nodup_nil

theorem Reachable.keysUnique {t : Tracker} (h : Reachable t) : KeysUnique t := by
  obtain ⟨ops, rfl⟩ := h
  exact keysUnique_run keysUnique_empty ops

theorem Reachable.step {t : Tracker} (h : Reachable t) (o : Op) : Reachable (step t o).1 := by
  obtain ⟨ops, rfl⟩ := h
  exact ⟨ops ++ [o], by simp [run_append, run]⟩

theorem Reachable.run {t : Tracker} (h : Reachable t) (ops : List Op) : Reachable (run t ops) := by
  obtain ⟨pre, rfl⟩ := h
  exact ⟨pre ++ ops, run_append _ _ _⟩

end SpVerif.Verificator
