import SpVerif.Model.FileDirective
import SpVerif.Props.C05
/-!
# Lemmas about the file-directive base model (shared by all seven directive kinds)

* `packInt_nat`, `packInt_neg`, `packInt_big`
* `new_eq`, `setParamLen_eq` — complete case analyses of the constructor / length setter
* `specOctets` — the directive header as the standard lays it out (C05 layout ‖ directive code),
  `pack_spec`, `unpack_spec`, `unpack_ok`, `unpack_inv`, `unpack_error`, `unpack_documented`
* `prelude` — what every directive decoder does first (`FileDirectivePduBase.unpack`,
  `verify_length_and_checksum`, cut to `end_of_params`), with `prelude_ok_iff`, `prelude_error`,
  `prelude_documented`, `prelude_take` (only the declared PDU matters) and `prelude_spec`
  (what it returns on header ‖ code ‖ parameters ‖ optional CRC trailer ‖ anything)
* `parseFss_eq`, `parseFss_spec`, `verifyFileLen_eq`, `beq_refl`
-/
namespace SpVerif.FileDirective
open SpVerif SpVerif.CfdpHeader
open SpVerif.Props

/-! ## `struct.pack` of a Python int -/

theorem packInt_nat (n v : Nat) : packInt n (v : Int) = packBE n v := by
  have : ¬ ((v : Int) < 0) := by omega
  simp [packInt, this]

theorem packInt_neg (n : Nat) (v : Int) (h : v < 0) : packInt n v = .error .struct := by
  simp [packInt, h]

theorem packInt_big (n : Nat) (v : Int) (h0 : 0 ≤ v) (h : 256 ^ n ≤ v.toNat) :
    packInt n v = .error .struct := by
  have h0 : ¬ v < 0 := by omega
  have h1 : ¬ v.toNat < 256 ^ n := by omega
  simp [packInt, h0, packBE, h1]

theorem packInt_ok (n : Nat) (v : Nat) (h : v < 256 ^ n) : packInt n (v : Int) = .ok (beBytes n v) := by
  rw [packInt_nat, packBE_ok h]

/-- `struct.pack` fails exactly outside `[0, 256^n)` -/
theorem packInt_error_iff (n : Nat) (v : Int) :
    (∃ e, packInt n v = .error e) ↔ (v < 0 ∨ 256 ^ n ≤ v.toNat) := by
  constructor
  · rintro ⟨e, he⟩
    by_cases h0 : v < 0
    · exact Or.inl h0
    · right
      obtain ⟨m, rfl⟩ := Int.eq_ofNat_of_zero_le (by omega : 0 ≤ v)
      rw [packInt_nat] at he
      unfold packBE at he
      split at he
      · cases he
      · simp only [Int.toNat_natCast]; omega
  · rintro (h | h)
    · exact ⟨_, packInt_neg n v h⟩
    · by_cases h0 : v < 0
      · exact ⟨_, packInt_neg n v h0⟩
      · exact ⟨_, packInt_big n v (by omega) h⟩

/-! ## constructor, setters -/

theorem new_eq (c : PduConfig) (code pl : Nat) :
    FileDirective.new c code pl =
      if 65535 < pl + 1 ∨ c.source.width ≠ c.dest.width then .error .value
      else .ok ⟨⟨0, 0, pl + 1, c⟩, code⟩ := by
  unfold FileDirective.new
  rw [CfdpHeader.new_eq]
  split <;> rfl

theorem setParamLen_eq (d : FileDirective) (n : Nat) :
    d.setParamLen n = if 65535 < n + 1 then .error .value
      else .ok { d with header := { d.header with dataFieldLen := n + 1 } } := by
  unfold FileDirective.setParamLen
  rw [setDataFieldLen_eq]
  split <;> rfl

theorem headerBeq_refl (h : PduHeader) : headerBeq h h = true := by simp [headerBeq]
theorem beq_refl (d : FileDirective) : d.beq d = true := by simp [FileDirective.beq, headerBeq_refl]

/-! ## layout -/

/-- the directive header as CCSDS 727.0-B-5 lays it out: fixed PDU header (C05), then the
    directive code octet -/
def specOctets (d : FileDirective) : Bytes := C05.Spec.octets d.header ++ [u8 d.code]

theorem specOctets_length (d : FileDirective) (wf : C05.WF d.header) :
    (specOctets d).length = d.headerLen := by
  simp [specOctets, FileDirective.headerLen, (C05.C05_len d.header wf).2.1]

theorem pack_spec (d : FileDirective) (wf : C05.WF d.header) (hc : d.code < 256) :
    d.pack = .ok (specOctets d) := by
  unfold FileDirective.pack
  rw [C05.C05_pack_exact d.header wf, byteOfN_ok hc]
  rfl

/-- a directive code above 255 cannot be appended (`ValueError`) -/
theorem pack_bad_code (d : FileDirective) (wf : C05.WF d.header) (hc : 256 ≤ d.code) :
    d.pack = .error .value := by
  unfold FileDirective.pack
  rw [C05.C05_pack_exact d.header wf]
  have : ¬ d.code < 256 := by omega
  simp [byteOfN, this, bind, Except.bind]

/-! ## `FileDirectivePduBase.unpack` -/

theorem unpack_hdr_err (raw : Bytes) (e : Err) (h : PduHeader.unpack raw = .error e) :
    FileDirective.unpack raw = .error e := by
  simp [FileDirective.unpack, h, bind, Except.bind]

theorem unpack_short (raw : Bytes) (h : PduHeader) (hu : PduHeader.unpack raw = .ok h)
    (hl : raw.length ≤ h.headerLen) : FileDirective.unpack raw = .error .value := by
  have : h.headerLen + 1 > raw.length := by omega
  simp [FileDirective.unpack, hu, bind, Except.bind, this, throw, throwThe, MonadExceptOf.throw]

theorem unpack_ok (raw : Bytes) (h : PduHeader) (hu : PduHeader.unpack raw = .ok h)
    (hl : h.headerLen < raw.length) :
    FileDirective.unpack raw = .ok ⟨h, raw[h.headerLen].toNat⟩ := by
  have : ¬ h.headerLen + 1 > raw.length := by omega
  simp [FileDirective.unpack, hu, bind, Except.bind, this, idx_ok hl, pure, Except.pure]

/-- inversion: what an accepted buffer looks like -/
theorem unpack_inv (raw : Bytes) (d : FileDirective) (hu : FileDirective.unpack raw = .ok d) :
    PduHeader.unpack raw = .ok d.header ∧ d.header.headerLen < raw.length ∧
      idx raw d.header.headerLen = .ok d.code ∧ d.code < 256 := by
  cases hh : PduHeader.unpack raw with
  | error e => rw [unpack_hdr_err raw e hh] at hu; cases hu
  | ok h =>
    by_cases hl : h.headerLen < raw.length
    · rw [unpack_ok raw h hh hl] at hu
      cases hu
      exact ⟨rfl, hl, idx_ok hl, toNat_lt _⟩
    · rw [unpack_short raw h hh (by omega)] at hu; cases hu

theorem unpack_error (raw : Bytes) (e : Err) (h : FileDirective.unpack raw = .error e) :
    e = .value ∨ e = .cfdpVersion := by
  cases hh : PduHeader.unpack raw with
  | error e' =>
    rw [unpack_hdr_err raw e' hh] at h; cases h
    exact CfdpHeader.unpack_error raw _ hh
  | ok hd =>
    by_cases hl : hd.headerLen < raw.length
    · rw [unpack_ok raw hd hh hl] at h; cases h
    · rw [unpack_short raw hd hh (by omega)] at h; cases h; exact Or.inl rfl

theorem unpack_documented (raw : Bytes) : Documented (FileDirective.unpack raw) := by
  intro e h
  rcases unpack_error raw e h with rfl | rfl <;> rfl

/-- decoding the laid-out directive header, whatever follows -/
theorem unpack_spec (d : FileDirective) (wf : C05.WF d.header) (hc : d.code < 256) (rest : Bytes) :
    FileDirective.unpack (specOctets d ++ rest) = .ok d := by
  have hlen := (C05.C05_len d.header wf).2.1
  have e : specOctets d ++ rest = C05.Spec.octets d.header ++ (u8 d.code :: rest) := by
    simp [specOctets]
  have hu : PduHeader.unpack (specOctets d ++ rest) = .ok d.header := by
    rw [e]; exact C05.C05_roundtrip d.header wf _
  have hl : d.header.headerLen < (specOctets d ++ rest).length := by
    simp only [specOctets, List.length_append, List.length_cons, List.length_nil, hlen]; omega
  rw [unpack_ok _ _ hu hl]
  have : (specOctets d ++ rest)[d.header.headerLen] = u8 d.code := by
    simp only [e, hlen]
    rw [List.getElem_append_right (Nat.le_refl _)]
    simp
  rw [this]
  have : (u8 d.code).toNat = d.code := by rw [u8_toNat]; omega
  rw [this]

/-! ## the common prelude of every directive decoder -/

/-- `FileDirectivePduBase.unpack(data)`, `verify_length_and_checksum(data)`, then
    `data = data[:end_of_params]`; returns the base object and the cut buffer -/
def prelude (data : Bytes) : Py (FileDirective × Bytes) := do
  let fd ← FileDirective.unpack data
  let _ ← fd.verify data
  pure (fd, data.take fd.paramsEnd)

theorem prelude_ok_iff (data : Bytes) (fd : FileDirective) (p : Bytes) :
    prelude data = .ok (fd, p) ↔
      (PduHeader.unpack data = .ok fd.header ∧ idx data fd.header.headerLen = .ok fd.code ∧
        fd.packetLen ≤ data.length ∧
        (fd.header.conf.crcFlag = 1 → Crc.crc16 (data.take fd.packetLen) = 0) ∧
        p = data.take fd.paramsEnd) := by
  unfold prelude
  constructor
  · intro h
    cases hu : FileDirective.unpack data with
    | error e => simp [hu, bind, Except.bind] at h
    | ok d =>
      cases hv : d.verify data with
      | error e => simp [hu, hv, bind, Except.bind] at h
      | ok n =>
        simp only [hu, hv, bind, Except.bind, pure, Except.pure, Except.ok.injEq, Prod.mk.injEq] at h
        obtain ⟨rfl, rfl⟩ := h
        obtain ⟨h1, _, h3, _⟩ := unpack_inv data d hu
        obtain ⟨_, h5, h6⟩ := (verify_ok_iff d.header data n).mp hv
        exact ⟨h1, h3, h5, h6, rfl⟩
  · rintro ⟨h1, h2, h3, h4, rfl⟩
    have hl : fd.header.headerLen < data.length := by
      by_cases hl : fd.header.headerLen < data.length
      · exact hl
      · rw [idx_err (by omega)] at h2; cases h2
    have hu : FileDirective.unpack data = .ok fd := by
      rw [unpack_ok data fd.header h1 hl]
      rw [idx_ok hl] at h2
      cases fd
      simp only [Except.ok.injEq] at h2
      simp only [h2]
    have hv : fd.verify data = .ok fd.packetLen :=
      (verify_ok_iff fd.header data _).mpr ⟨rfl, h3, h4⟩
    simp [hu, hv, bind, Except.bind, pure, Except.pure]

theorem prelude_error (data : Bytes) (e : Err) (h : prelude data = .error e) :
    e = .value ∨ e = .cfdpVersion ∨ e = .crc := by
  unfold prelude at h
  cases hu : FileDirective.unpack data with
  | error e' =>
    simp only [hu, bind, Except.bind] at h
    cases h
    rcases unpack_error data _ hu with rfl | rfl <;> simp
  | ok d =>
    cases hv : d.verify data with
    | error e' =>
      simp only [hu, hv, bind, Except.bind] at h
      cases h
      rcases verify_error d.header data _ hv with ⟨rfl, _⟩ | ⟨rfl, _⟩ <;> simp
    | ok n => simp [hu, hv, bind, Except.bind, pure, Except.pure] at h

theorem prelude_documented (data : Bytes) : Documented (prelude data) := by
  intro e h
  rcases prelude_error data e h with rfl | rfl | rfl <;> rfl

/-- facts about an accepted prelude that the parameter parsers rely on -/
theorem prelude_facts (data : Bytes) (fd : FileDirective) (p : Bytes) (h : prelude data = .ok (fd, p)) :
    C05.WF fd.header ∧ fd.code < 256 ∧ p.length = fd.paramsEnd ∧ fd.paramsEnd ≤ fd.packetLen ∧
      fd.packetLen ≤ data.length ∧ fd.header.headerLen < data.length := by
  obtain ⟨h1, h2, h3, _, rfl⟩ := (prelude_ok_iff data fd p).mp h
  have wf := (C05.C05_decode_encode data fd.header h1).1
  have hl : fd.header.headerLen < data.length := by
    by_cases hl : fd.header.headerLen < data.length
    · exact hl
    · rw [idx_err (by omega)] at h2; cases h2
  have hc : fd.code < 256 := by
    rw [idx_ok hl] at h2
    have := Except.ok.inj h2
    rw [← this]; exact toNat_lt _
  have hp : fd.paramsEnd ≤ fd.packetLen := by
    unfold FileDirective.paramsEnd; split <;> omega
  refine ⟨wf, hc, ?_, hp, h3, hl⟩
  simp only [List.length_take]; omega

/-- **only the declared PDU matters**: when the declared data field is not empty, the prelude of
    the buffer cut to `packet_len`, followed by anything, is the prelude of the buffer -/
theorem prelude_take (data : Bytes) (fd : FileDirective) (p : Bytes) (h : prelude data = .ok (fd, p))
    (h1 : 1 ≤ fd.header.dataFieldLen) (rest : Bytes) :
    prelude (data.take fd.packetLen ++ rest) = .ok (fd, p) := by
  obtain ⟨hu, hi, hl, hc, rfl⟩ := (prelude_ok_iff data fd _).mp h
  obtain ⟨_, _, _, hpe, _, hlt⟩ := prelude_facts data fd _ h
  have hpl : fd.packetLen = fd.header.dataFieldLen + fd.header.headerLen := rfl
  have hmin : min fd.packetLen data.length = fd.packetLen := by omega
  rw [prelude_ok_iff]
  refine ⟨?_, ?_, ?_, ?_, ?_⟩
  · have := C05.C05_unpack_prefix data fd.header hu
      ((data.take fd.packetLen).drop fd.header.headerLen ++ rest)
    have e : data.take fd.header.headerLen ++ ((data.take fd.packetLen).drop fd.header.headerLen ++ rest)
        = data.take fd.packetLen ++ rest := by
      rw [← List.append_assoc]
      congr 1
      have : data.take fd.header.headerLen = (data.take fd.packetLen).take fd.header.headerLen := by
        rw [List.take_take]; congr 1; omega
      rw [this, List.take_append_drop]
    rw [e] at this
    exact this
  · have hlt' : fd.header.headerLen < (data.take fd.packetLen).length := by
      simp only [List.length_take]; omega
    rw [idx_append_left _ _ _ hlt']
    rw [idx_ok hlt] at hi
    rw [idx_ok hlt']
    simp only [List.getElem_take]
    exact hi
  · simp only [List.length_append, List.length_take]; omega
  · intro hcf
    have : (data.take fd.packetLen ++ rest).take fd.packetLen = data.take fd.packetLen := by
      apply List.take_left'
      simp only [List.length_take]; omega
    rw [this]
    exact hc hcf
  · have : (data.take fd.packetLen ++ rest).take fd.paramsEnd = data.take fd.paramsEnd := by
      rw [List.take_append_of_le_length (by simp only [List.length_take]; omega), List.take_take]
      congr 1; omega
    rw [this]

/-- **the prelude on a laid-out PDU**: directive header ‖ parameters `P` ‖ CRC trailer iff flagged
    ‖ anything, with the data-field length the standard prescribes -/
theorem prelude_spec (d : FileDirective) (wf : C05.WF d.header) (hc : d.code < 256) (P rest : Bytes)
    (hl : d.header.dataFieldLen = 1 + P.length + (if d.header.conf.crcFlag = 1 then 2 else 0)) :
    prelude (withCrc d.header.conf.crcFlag (specOctets d ++ P) ++ rest) = .ok (d, specOctets d ++ P) ∧
    (withCrc d.header.conf.crcFlag (specOctets d ++ P)).length = d.packetLen := by
  have hsl := specOctets_length d wf
  have hpl : d.packetLen = d.header.dataFieldLen + d.header.headerLen := rfl
  have hhl : d.headerLen = d.header.headerLen + 1 := rfl
  by_cases hcf : d.header.conf.crcFlag = 1
  · simp only [hcf, ↓reduceIte] at hl
    have hlen : (specOctets d ++ P).length + 2 = d.packetLen := by
      simp only [List.length_append, hsl]; omega
    constructor
    · rw [prelude_ok_iff]
      simp only [withCrc, hcf, ↓reduceIte]
      have e : specOctets d ++ P ++ Crc.crcTrailer (specOctets d ++ P) ++ rest
          = specOctets d ++ (P ++ Crc.crcTrailer (specOctets d ++ P) ++ rest) := by
        simp only [List.append_assoc]
      have hu := unpack_spec d wf hc (P ++ Crc.crcTrailer (specOctets d ++ P) ++ rest)
      rw [← e] at hu
      obtain ⟨u1, _, u3, _⟩ := unpack_inv _ _ hu
      have tl : (Crc.crcTrailer (specOctets d ++ P)).length = 2 := by simp [Crc.crcTrailer, Crc.be16]
      refine ⟨u1, u3, ?_, ?_, ?_⟩
      · simp only [List.length_append, tl] at hlen ⊢; omega
      · intro _
        have : (specOctets d ++ P ++ Crc.crcTrailer (specOctets d ++ P) ++ rest).take d.packetLen
            = specOctets d ++ P ++ Crc.crcTrailer (specOctets d ++ P) := by
          apply List.take_left'
          simp only [List.length_append, tl] at hlen ⊢; omega
        rw [this, Crc.crc16_residue]
      · have : d.paramsEnd = (specOctets d ++ P).length := by
          simp only [FileDirective.paramsEnd, hcf, ↓reduceIte]; omega
        rw [this, List.append_assoc (specOctets d ++ P), List.take_left' rfl]
    · simp only [withCrc, hcf, ↓reduceIte, List.length_append, Crc.crcTrailer, Crc.be16,
        List.length_cons, List.length_nil] at hlen ⊢
      omega
  · simp only [hcf, ↓reduceIte] at hl
    have hlen : (specOctets d ++ P).length = d.packetLen := by
      simp only [List.length_append, hsl]; omega
    constructor
    · rw [prelude_ok_iff]
      simp only [withCrc, hcf, ↓reduceIte]
      have e : specOctets d ++ P ++ rest = specOctets d ++ (P ++ rest) := by
        simp only [List.append_assoc]
      have hu := unpack_spec d wf hc (P ++ rest)
      rw [← e] at hu
      obtain ⟨u1, _, u3, _⟩ := unpack_inv _ _ hu
      refine ⟨u1, u3, ?_, ?_, ?_⟩
      · simp only [List.length_append] at hlen ⊢; omega
      · intro h; first | exact h.elim | exact absurd h hcf
      · have : d.paramsEnd = (specOctets d ++ P).length := by
          simp only [FileDirective.paramsEnd, hcf, ↓reduceIte]; omega
        rw [this, List.take_left' rfl]
    · simp only [withCrc, hcf, ↓reduceIte]; exact hlen

/-! ## reading parameters behind the directive header -/

theorem idx_after (A P : Bytes) (k : Nat) : idx (A ++ P) (A.length + k) = idx P k := by
  simp [idx, List.getElem?_append_right]

theorem slice_after (A P : Bytes) (s e : Nat) :
    slice (A ++ P) (A.length + s) (A.length + e) = slice P s e := by
  simp only [slice]
  rw [List.take_append, List.drop_append]
  have h1 : (A.take (A.length + e)).length = A.length := by simp
  have h2 : A.length + s - (A.take (A.length + e)).length = s := by omega
  have h3 : A.length + e - A.length = e := by omega
  rw [h2, h3]
  have : (A.take (A.length + e)).drop (A.length + s) = [] := by
    apply List.drop_eq_nil_of_le; omega
  rw [this, List.nil_append]

theorem drop_after (A P : Bytes) (k : Nat) : (A ++ P).drop (A.length + k) = P.drop k := by
  rw [List.drop_append]
  have : A.drop (A.length + k) = [] := by apply List.drop_eq_nil_of_le; omega
  rw [this, List.nil_append]
  congr 1; omega

/-! ## `parse_fss_field`, `_verify_file_len` -/

theorem parseFss_eq (d : FileDirective) (raw : Bytes) (i : Nat) :
    d.parseFss raw i =
      if raw.length < i + fssWidth d.header.conf.fileFlag then .error .value
      else .ok (i + fssWidth d.header.conf.fileFlag,
                beNat (slice raw i (i + fssWidth d.header.conf.fileFlag))) := by
  unfold FileDirective.parseFss fssWidth
  by_cases hf : d.header.conf.fileFlag = 1
  · simp only [hf, ↓reduceIte]
    by_cases hl : raw.length < i + 8
    · have : i + 8 > raw.length := hl
      simp [hl, this, bind, Except.bind, throw, throwThe, MonadExceptOf.throw]
    · have : ¬ i + 8 > raw.length := hl
      have h8 : (slice raw i (i + 8)).length = 8 := by simp; omega
      simp [hl, this, bind, Except.bind, pure, Except.pure, unpackBE_ok h8]
  · simp only [hf, ↓reduceIte]
    by_cases hl : raw.length < i + 4
    · have : i + 4 > raw.length := hl
      simp [hl, this, bind, Except.bind, throw, throwThe, MonadExceptOf.throw]
    · have : ¬ i + 4 > raw.length := hl
      have h4 : (slice raw i (i + 4)).length = 4 := by simp; omega
      simp [hl, this, bind, Except.bind, pure, Except.pure, unpackBE_ok h4]

/-- an FSS value laid out big-endian in the selected width is read back exactly -/
theorem parseFss_spec (d : FileDirective) (pre rest : Bytes) (v : Nat)
    (hv : v < 256 ^ fssWidth d.header.conf.fileFlag) :
    d.parseFss (pre ++ beBytes (fssWidth d.header.conf.fileFlag) v ++ rest) pre.length =
      .ok (pre.length + fssWidth d.header.conf.fileFlag, v) := by
  rw [parseFss_eq]
  have hl : ¬ (pre ++ beBytes (fssWidth d.header.conf.fileFlag) v ++ rest).length
      < pre.length + fssWidth d.header.conf.fileFlag := by simp
  rw [if_neg hl]
  have := slice_eq_of_append pre (beBytes (fssWidth d.header.conf.fileFlag) v) rest
  simp only [beBytes_length] at this
  rw [this, beNat_beBytes _ _ hv]

theorem parseFss_documented (d : FileDirective) (raw : Bytes) (i : Nat) : Documented (d.parseFss raw i) := by
  rw [parseFss_eq]
  split
  · exact Documented.err rfl
  · exact Documented.ok _

theorem verifyFileLen_eq (d : FileDirective) (size : Int) :
    d.verifyFileLen size =
      if (d.header.conf.fileFlag = 1 ∧ size > 18446744073709551616) ∨
         (d.header.conf.fileFlag = 0 ∧ size > 4294967296) then .error .value else .ok () := by
  unfold FileDirective.verifyFileLen
  by_cases h1 : d.header.conf.fileFlag = 1 ∧ size > 18446744073709551616
  · simp [h1]
  · by_cases h2 : d.header.conf.fileFlag = 0 ∧ size > 4294967296
    · simp [h1, h2]
    · simp [h1, h2]

end SpVerif.FileDirective

namespace SpVerif.FileDirective
open SpVerif SpVerif.CfdpHeader

/-! ## decoders of the form "prelude, then a parameter parser" -/

theorem bind_prelude_documented {α : Type} (f : FileDirective × Bytes → Py α)
    (hf : ∀ r, Documented (f r)) (d : Bytes) : Documented (prelude d >>= f) :=
  Documented.bind (prelude_documented d) (fun r _ => hf r)

theorem bind_prelude_inv {α : Type} (f : FileDirective × Bytes → Py α) (d : Bytes) (a : α)
    (h : (prelude d >>= f) = .ok a) : ∃ fd p, prelude d = .ok (fd, p) ∧ f (fd, p) = .ok a := by
  cases hp : prelude d with
  | error e => rw [hp] at h; cases h
  | ok r => rw [hp] at h; exact ⟨r.1, r.2, rfl, h⟩

end SpVerif.FileDirective

namespace SpVerif.FileDirective
open SpVerif SpVerif.CfdpHeader SpVerif.Props

/-- **every strict prefix of a laid-out PDU is refused by the prelude with `ValueError`**
    (`oct` = directive header ‖ anything, of the declared total length) -/
theorem prelude_truncated (d : FileDirective) (wf : C05.WF d.header) (R : Bytes)
    (hlen : (specOctets d ++ R).length = d.packetLen) (k : Nat) (hk : k < d.packetLen) :
    prelude ((specOctets d ++ R).take k) = .error .value := by
  have hh := (C05.C05_len d.header wf).2.1
  have hsl := specOctets_length d wf
  have hhl : d.headerLen = d.header.headerLen + 1 := rfl
  unfold prelude
  by_cases h1 : k < d.header.headerLen
  · have e : (specOctets d ++ R).take k = (C05.Spec.octets d.header).take k := by
      simp only [specOctets, List.append_assoc]
      rw [List.take_append_of_le_length (by omega)]
    rw [e, unpack_hdr_err _ _ (C05.C05_truncated d.header wf k h1)]
    rfl
  · have e : (specOctets d ++ R).take k
        = C05.Spec.octets d.header ++ ((u8 d.code :: R).take (k - d.header.headerLen)) := by
      simp only [specOctets, List.append_assoc, List.singleton_append]
      rw [List.take_append, hh]
      rw [List.take_of_length_le (by omega)]
    have hu : PduHeader.unpack ((specOctets d ++ R).take k) = .ok d.header := by
      rw [e]; exact C05.C05_roundtrip d.header wf _
    have hkl : ((specOctets d ++ R).take k).length = k := by
      simp only [List.length_take]; omega
    by_cases h2 : k = d.header.headerLen
    · rw [unpack_short _ _ hu (by omega)]; rfl
    · rw [unpack_ok _ _ hu (by omega)]
      simp only [bind, Except.bind, FileDirective.verify]
      rw [verify_eq, if_pos (by rw [hkl]; exact hk)]

theorem bind_prelude_truncated {α : Type} (f : FileDirective × Bytes → Py α) (d : FileDirective)
    (wf : C05.WF d.header) (R : Bytes) (hlen : (specOctets d ++ R).length = d.packetLen) (k : Nat)
    (hk : k < d.packetLen) : (prelude ((specOctets d ++ R).take k) >>= f) = .error .value := by
  rw [prelude_truncated d wf R hlen k hk]; rfl

end SpVerif.FileDirective
