import SpVerif.Model.Nak
import SpVerif.Proofs.FileDirective
/-!
# Lemmas about the NAK PDU model (reused by C04 / C09 / C10 / C11 / C12)

* `calcLen_eq`, `new_eq`, `setSegs_eq`, `setFileFlag_eq` — constructor and documented setters
* `specSegs` (segment requests as the standard lays them out), `packPair_ok`, `packSegs_spec`,
  `parseSegs_spec` (the decoder loop reads them back), `parseSegs_ok` (the loop never raises
  `struct.error` on a whole number of requests — the guard before the loop ensures that)
* `unpack_eq` (prelude, then `parse`), `parse_eq` (complete case analysis), `unpack_documented`,
  `unpack_inv` (an accepted buffer is exactly the declared PDU: nothing may follow it)
-/
namespace SpVerif.Nak
open SpVerif SpVerif.CfdpHeader SpVerif.FileDirective

/-- FSS width as the pack / parse loops select it -/
def segW (large : Bool) : Nat := if large then 8 else 4

theorem segW_eq (fd : FileDirective) : segW fd.header.largeFileFlagSet = fssWidth fd.header.conf.fileFlag := by
  unfold PduHeader.largeFileFlagSet fssWidth segW
  by_cases h : fd.header.conf.fileFlag = 1 <;> simp [h]

theorem segW_pos (large : Bool) : 4 ≤ segW large := by unfold segW; split <;> omega
theorem fssWidth_pos (f : Nat) : 4 ≤ fssWidth f := by unfold fssWidth; split <;> omega
theorem fssWidth_le (f : Nat) : fssWidth f ≤ 8 := by unfold fssWidth; split <;> omega

/-- directive-parameter length of a NAK PDU with `n` segment requests -/
def nakParamLen (fileFlag crcFlag n : Nat) : Nat :=
  2 * fssWidth fileFlag * (n + 1) + (if crcFlag = 1 then 2 else 0)

theorem calcLen_eq (fd : FileDirective) (n : Nat) (hf : fd.header.conf.fileFlag < 2) :
    calcLen fd n = fd.setParamLen (nakParamLen fd.header.conf.fileFlag fd.header.conf.crcFlag n) := by
  unfold calcLen nakParamLen fssWidth
  have : fd.header.conf.fileFlag = 0 ∨ fd.header.conf.fileFlag = 1 := by omega
  have e1 : ¬ ((1 : Nat) = 0) := by omega
  rcases this with h | h <;> by_cases hc : fd.header.conf.crcFlag = 1 <;>
    simp only [h, hc, e1, ↓reduceIte, bind, Except.bind, pure, Except.pure, Nat.zero_ne_one] <;>
    congr 1 <;> omega

theorem calcLen_bad_flag (fd : FileDirective) (n : Nat) (hf : 2 ≤ fd.header.conf.fileFlag) :
    calcLen fd n = .error .value := by
  unfold calcLen
  have h0 : ¬ fd.header.conf.fileFlag = 0 := by omega
  have h1 : ¬ fd.header.conf.fileFlag = 1 := by omega
  simp [h0, h1, bind, Except.bind, throw, throwThe, MonadExceptOf.throw]

/-- `_calculate_directive_field_len`: complete verdict for a valid file flag -/
theorem calcLen_eq' (fd : FileDirective) (n : Nat) (hf : fd.header.conf.fileFlag < 2) :
    calcLen fd n =
      if 65535 < nakParamLen fd.header.conf.fileFlag fd.header.conf.crcFlag n + 1 then .error .value
      else .ok { fd with header := { fd.header with
        dataFieldLen := nakParamLen fd.header.conf.fileFlag fd.header.conf.crcFlag n + 1 } } := by
  rw [calcLen_eq fd n hf, setParamLen_eq]

/-- **complete case analysis of the constructor** (file flag NORMAL or LARGE) -/
theorem new_eq (c : PduConfig) (s e : Int) (segs : List Seg) (hf : c.fileFlag < 2) :
    Nak.new c s e segs =
      if c.source.width ≠ c.dest.width ∨ 65535 < nakParamLen c.fileFlag c.crcFlag segs.length + 1
      then .error .value
      else .ok ⟨⟨⟨0, 0, nakParamLen c.fileFlag c.crcFlag segs.length + 1, { c with direction := 1 }⟩, 8⟩,
                s, e, segs⟩ := by
  unfold Nak.new
  simp only [DIR_NAK]
  rw [FileDirective.new_eq]
  by_cases h2 : c.source.width = c.dest.width
  · have g : ¬ (65535 < 8 + 1 ∨ c.source.width ≠ c.dest.width) := by omega
    rw [if_neg g]
    simp only [bind, Except.bind]
    rw [calcLen_eq' _ _ hf]
    by_cases h3 : 65535 < nakParamLen c.fileFlag c.crcFlag segs.length + 1
    · have g' : c.source.width ≠ c.dest.width ∨ 65535 < nakParamLen c.fileFlag c.crcFlag segs.length + 1 :=
        Or.inr h3
      rw [if_pos g']
      simp only [h3, ↓reduceIte]
    · have g' : ¬ (c.source.width ≠ c.dest.width ∨ 65535 < nakParamLen c.fileFlag c.crcFlag segs.length + 1) := by
        omega
      rw [if_neg g']
      simp only [h3, ↓reduceIte, pure, Except.pure]
  · have g : (65535 < 8 + 1 ∨ c.source.width ≠ c.dest.width) := Or.inr h2
    have g' : c.source.width ≠ c.dest.width ∨ 65535 < nakParamLen c.fileFlag c.crcFlag segs.length + 1 :=
      Or.inl h2
    rw [if_pos g, if_pos g']
    rfl

/-- the `segment_requests` setter -/
theorem setSegs_eq (k : Nak) (segs : List Seg) (hf : k.fd.header.conf.fileFlag < 2) :
    k.setSegs segs =
      if 65535 < nakParamLen k.fd.header.conf.fileFlag k.fd.header.conf.crcFlag segs.length + 1
      then .error .value
      else .ok { k with segs := segs, fd := { k.fd with header := { k.fd.header with
        dataFieldLen := nakParamLen k.fd.header.conf.fileFlag k.fd.header.conf.crcFlag segs.length + 1 } } } := by
  unfold Nak.setSegs
  rw [calcLen_eq' _ _ hf]
  split <;> rfl

/-- the `file_flag` setter -/
theorem setFileFlag_eq (k : Nak) (f : Nat) (hf : f < 2) :
    k.setFileFlag f =
      if 65535 < nakParamLen f k.fd.header.conf.crcFlag k.segs.length + 1 then .error .value
      else .ok { k with fd := { k.fd with header := { k.fd.header with
        dataFieldLen := nakParamLen f k.fd.header.conf.crcFlag k.segs.length + 1,
        conf := { k.fd.header.conf with fileFlag := f } } } } := by
  unfold Nak.setFileFlag
  rw [calcLen_eq' _ _ (by simpa [FileDirective.setFileFlag] using hf)]
  simp only [FileDirective.setFileFlag]
  by_cases h3 : 65535 < nakParamLen f k.fd.header.conf.crcFlag k.segs.length + 1
  · simp only [h3, ↓reduceIte, bind, Except.bind]
  · simp only [h3, ↓reduceIte, bind, Except.bind, pure, Except.pure]

/-! ## segment requests: layout, encoder loop, decoder loop -/

/-- a non-negative offset that fits `w` octets -/
def fits (w : Nat) (v : Int) : Prop := 0 ≤ v ∧ v.toNat < 256 ^ w

instance (w : Nat) (v : Int) : Decidable (fits w v) := by unfold fits; infer_instance

/-- one (start, end) pair as the standard lays it out: two big-endian FSS fields -/
def specPair (w : Nat) (a b : Int) : Bytes := beBytes w a.toNat ++ beBytes w b.toNat

/-- the segment requests in list order -/
def specSegs (w : Nat) : List Seg → Bytes
  | [] => []
  | p :: r => specPair w p.1 p.2 ++ specSegs w r

theorem specPair_length (w : Nat) (a b : Int) : (specPair w a b).length = 2 * w := by
  simp [specPair]; omega

theorem specSegs_length (w : Nat) (l : List Seg) : (specSegs w l).length = l.length * (2 * w) := by
  induction l with
  | nil => simp [specSegs]
  | cons p r ih => simp only [specSegs, List.length_append, specPair_length, ih, List.length_cons]; 
                   rw [Nat.add_mul]; omega

theorem packInt_fits (w : Nat) (v : Int) (h : fits w v) : packInt w v = .ok (beBytes w v.toNat) := by
  obtain ⟨h0, h1⟩ := h
  obtain ⟨n, rfl⟩ := Int.eq_ofNat_of_zero_le h0
  simpa using packInt_ok w n (by simpa using h1)

theorem fits4_le (v : Int) (h : fits 4 v) : ¬ v > 4294967295 := by
  obtain ⟨h0, h1⟩ := h
  have : (256 : Nat) ^ 4 = 4294967296 := by decide
  omega

theorem packPair_ok (large : Bool) (a b : Int) (ha : fits (segW large) a) (hb : fits (segW large) b) :
    packPair large a b = .ok (specPair (segW large) a b) := by
  unfold packPair
  cases large with
  | false =>
    have ha' : fits 4 a := ha
    have hb' : fits 4 b := hb
    have g : ¬ (a > 4294967295 ∨ b > 4294967295) := by
      have := fits4_le a ha'; have := fits4_le b hb'; omega
    simp only [Bool.false_eq_true, not_false_eq_true, ↓reduceIte, g, bind, Except.bind,
      packInt_fits 4 a ha', packInt_fits 4 b hb', pure, Except.pure, pure, specPair, segW]
  | true =>
    have ha' : fits 8 a := ha
    have hb' : fits 8 b := hb
    simp only [not_true_eq_false, ↓reduceIte, bind, Except.bind,
      packInt_fits 8 a ha', packInt_fits 8 b hb', pure, Except.pure, specPair, segW]

/-- **a value that does not fit makes the pair fail** (never a truncated encoding):
    `ValueError` from the explicit 32-bit guard, `struct.error` from `struct.pack` otherwise -/
theorem packPair_overflow (large : Bool) (a b : Int)
    (h : ¬ fits (segW large) a ∨ ¬ fits (segW large) b) :
    packPair large a b = .error .value ∨ packPair large a b = .error .struct := by
  unfold packPair
  cases large with
  | false =>
    simp only [Bool.false_eq_true, not_false_eq_true, ↓reduceIte]
    by_cases g : a > 4294967295 ∨ b > 4294967295
    · left; simp [g, bind, Except.bind, throw, throwThe, MonadExceptOf.throw]
    · right
      simp only [g, ↓reduceIte, bind, Except.bind]
      by_cases ha : fits 4 a
      · have hb : ¬ fits 4 b := by
          rcases h with h | h
          · exact absurd ha h
          · exact h
        rw [packInt_fits 4 a ha]
        simp only
        have : b < 0 := by
          unfold fits at hb
          have : (256 : Nat) ^ 4 = 4294967296 := by decide
          omega
        rw [packInt_neg 4 b this]
      · have : a < 0 := by
          unfold fits at ha
          have : (256 : Nat) ^ 4 = 4294967296 := by decide
          omega
        rw [packInt_neg 4 a this]
  | true =>
    right
    simp only [not_true_eq_false, ↓reduceIte, bind, Except.bind]
    by_cases ha : fits 8 a
    · have hb : ¬ fits 8 b := by
        rcases h with h | h
        · exact absurd ha h
        · exact h
      rw [packInt_fits 8 a ha]
      simp only
      obtain ⟨e, he⟩ := (packInt_error_iff 8 b).mpr (by unfold fits at hb; omega)
      have : e = .struct := by
        unfold packInt packBE at he
        split at he
        · cases he; rfl
        · split at he
          · cases he
          · cases he; rfl
      rw [he, this]
    · obtain ⟨e, he⟩ := (packInt_error_iff 8 a).mpr (by unfold fits at ha; omega)
      have : e = .struct := by
        unfold packInt packBE at he
        split at he
        · cases he; rfl
        · split at he
          · cases he
          · cases he; rfl
      rw [he, this]

/-- every offset of every request fits -/
def SegsFit (w : Nat) (l : List Seg) : Prop := ∀ p ∈ l, fits w p.1 ∧ fits w p.2

theorem packSegs_spec (large : Bool) (l : List Seg) (h : SegsFit (segW large) l) :
    packSegs large l = .ok (specSegs (segW large) l) := by
  induction l with
  | nil => rfl
  | cons p r ih =>
    have hp := h p (List.mem_cons_self)
    have hr : SegsFit (segW large) r := fun q hq => h q (List.mem_cons_of_mem _ hq)
    simp only [packSegs, packPair_ok large p.1 p.2 hp.1 hp.2, ih hr, bind, Except.bind, pure, Except.pure,
      specSegs]

/-- **a request that does not fit makes the loop fail** -/
theorem packSegs_overflow (large : Bool) (l : List Seg) (h : ¬ SegsFit (segW large) l) :
    packSegs large l = .error .value ∨ packSegs large l = .error .struct := by
  induction l with
  | nil => exact absurd (fun p hp => by cases hp) h
  | cons p r ih =>
    by_cases hp : fits (segW large) p.1 ∧ fits (segW large) p.2
    · have hr : ¬ SegsFit (segW large) r := by
        intro hr
        apply h
        intro q hq
        rcases List.mem_cons.mp hq with rfl | hq
        · exact hp
        · exact hr q hq
      simp only [packSegs, packPair_ok large p.1 p.2 hp.1 hp.2, bind, Except.bind]
      rcases ih hr with e | e <;> simp [e]
    · have := packPair_overflow large p.1 p.2 (by
        by_cases h1 : fits (segW large) p.1
        · right; intro h2; exact hp ⟨h1, h2⟩
        · left; exact h1)
      simp only [packSegs, bind, Except.bind]
      rcases this with e | e <;> simp [e]

theorem toNat_cast_fits (w : Nat) (v : Int) (h : fits w v) : ((v.toNat : Nat) : Int) = v := by
  obtain ⟨h0, _⟩ := h; omega

/-- **the decoder loop reads laid-out segment requests back**, in order -/
theorem parseSegs_spec (large : Bool) (l : List Seg) (h : SegsFit (segW large) l) :
    parseSegs large (specSegs (segW large) l) = .ok l := by
  induction l with
  | nil => rw [parseSegs]; simp [specSegs]; rfl
  | cons p r ih =>
    have hp := h p (List.mem_cons_self)
    have hr : SegsFit (segW large) r := fun q hq => h q (List.mem_cons_of_mem _ hq)
    have hw := segW_pos large
    have hne : specSegs (segW large) (p :: r) ≠ [] := by
      intro he
      have := congrArg List.length he
      simp only [specSegs_length, List.length_cons, List.length_nil] at this
      have : 0 < (r.length + 1) * (2 * segW large) := Nat.mul_pos (by omega) (by omega)
      omega
    rw [parseSegs]
    simp only [hne, ↓reduceDIte]
    have hw' : (if large = true then 8 else 4) = segW large := rfl
    simp only [hw']
    have e : specSegs (segW large) (p :: r)
        = beBytes (segW large) p.1.toNat ++ beBytes (segW large) p.2.toNat ++ specSegs (segW large) r := by
      simp [specSegs, specPair]
    have s1 : slice (specSegs (segW large) (p :: r)) 0 (segW large) = beBytes (segW large) p.1.toNat := by
      rw [e]
      have := slice_eq_of_append [] (beBytes (segW large) p.1.toNat)
        (beBytes (segW large) p.2.toNat ++ specSegs (segW large) r)
      simpa using this
    have s2 : slice (specSegs (segW large) (p :: r)) (segW large) (segW large + segW large)
        = beBytes (segW large) p.2.toNat := by
      rw [e]
      have := slice_eq_of_append (beBytes (segW large) p.1.toNat) (beBytes (segW large) p.2.toNat)
        (specSegs (segW large) r)
      simpa using this
    have s3 : (specSegs (segW large) (p :: r)).drop (segW large + segW large) = specSegs (segW large) r := by
      rw [e]
      apply List.drop_left'
      simp
    rw [s1, s2, s3, ih hr, unpackBE_beBytes _ _ hp.1.2, unpackBE_beBytes _ _ hp.2.2]
    simp only [bind, Except.bind, pure, Except.pure, toNat_cast_fits _ _ hp.1, toNat_cast_fits _ _ hp.2]

/-- **the loop never raises `struct.error` on a whole number of requests** and returns that many -/
theorem parseSegs_ok (large : Bool) : ∀ (n : Nat) (d : Bytes), d.length = n * (2 * segW large) →
    ∃ l, parseSegs large d = .ok l ∧ l.length = n ∧ SegsFit (segW large) l
  | 0, d, h => by
    have : d = [] := List.eq_nil_of_length_eq_zero (by simpa using h)
    subst this
    refine ⟨[], ?_, rfl, fun p hp => by cases hp⟩
    rw [parseSegs]; simp; rfl
  | n + 1, d, h => by
    have hw := segW_pos large
    have hlen : 2 * segW large ≤ d.length := by
      rw [h, Nat.add_mul]; omega
    have hne : d ≠ [] := by
      intro he; subst he; simp at hlen; omega
    have hd : (d.drop (segW large + segW large)).length = n * (2 * segW large) := by
      simp only [List.length_drop, h, Nat.add_mul]; omega
    obtain ⟨l, hl, hn, hfit⟩ := parseSegs_ok large n _ hd
    have l1 : (slice d 0 (segW large)).length = segW large := by simp; omega
    have l2 : (slice d (segW large) (segW large + segW large)).length = segW large := by simp; omega
    have b1 := beNat_lt (slice d 0 (segW large))
    have b2 := beNat_lt (slice d (segW large) (segW large + segW large))
    rw [l1] at b1
    rw [l2] at b2
    refine ⟨((beNat (slice d 0 (segW large)) : Nat), (beNat (slice d (segW large) (segW large + segW large)) : Nat)) :: l,
      ?_, by simp [hn], ?_⟩
    · rw [parseSegs]
      simp only [hne, ↓reduceDIte]
      have hw' : (if large = true then 8 else 4) = segW large := rfl
      simp only [hw', unpackBE_ok l1, unpackBE_ok l2, hl, bind, Except.bind, pure, Except.pure]
    · intro q hq
      rcases List.mem_cons.mp hq with rfl | hq
      · exact ⟨⟨by omega, by simpa using b1⟩, ⟨by omega, by simpa using b2⟩⟩
      · exact hfit q hq

/-! ## the decoder -/

/-- the parameter parser (`n` = length of the buffer as passed to `unpack`) -/
def parse (n : Nat) (r : FileDirective × Bytes) : Py Nak := do
  let fd := r.1
  if fd.code ≠ DIR_NAK then throw .value
  if n > fd.packetLen then throw .value
  let data := r.2
  let i := fd.headerLen
  let large := fd.header.largeFileFlagSet
  let w := if ¬ large then 4 else 8
  if i + 2 * w > data.length then throw .value
  let s ← unpackBE w (slice data i (i + w))
  let i := i + w
  let e ← unpackBE w (slice data i (i + w))
  let i := i + w
  if i < data.length then
    if (data.length - i) % (w * 2) ≠ 0 then throw .value
    let segs ← parseSegs large (data.drop i)
    let fd ← calcLen fd segs.length
    pure ⟨fd, (s : Int), (e : Int), segs⟩
  else
    pure ⟨fd, (s : Int), (e : Int), []⟩

theorem unpack_eq (d : Bytes) : Nak.unpack d = prelude d >>= parse d.length := by
  unfold Nak.unpack prelude parse
  cases FileDirective.unpack d with
  | error e => rfl
  | ok fd =>
    cases hv : fd.verify d with
    | error e => simp [hv, bind, Except.bind]
    | ok n => simp [hv, bind, Except.bind, pure, Except.pure]

theorem width_eq (fd : FileDirective) :
    (if ¬ fd.header.largeFileFlagSet then 4 else 8) = fssWidth fd.header.conf.fileFlag := by
  unfold PduHeader.largeFileFlagSet fssWidth
  by_cases h : fd.header.conf.fileFlag = 1 <;> simp [h]

/-- start / end of scope as read from the cut buffer -/
def scopeOf (fd : FileDirective) (p : Bytes) : Int × Int :=
  ((beNat (slice p fd.headerLen (fd.headerLen + fssWidth fd.header.conf.fileFlag)) : Nat),
   (beNat (slice p (fd.headerLen + fssWidth fd.header.conf.fileFlag)
      (fd.headerLen + fssWidth fd.header.conf.fileFlag + fssWidth fd.header.conf.fileFlag)) : Nat))

/-- **complete case analysis of the parameter parser** -/
theorem parse_eq (n : Nat) (fd : FileDirective) (p : Bytes) :
    parse n (fd, p) =
      if fd.code ≠ 8 then .error .value
      else if n > fd.packetLen then .error .value
      else if p.length < fd.headerLen + 2 * fssWidth fd.header.conf.fileFlag then .error .value
      else if p.length = fd.headerLen + 2 * fssWidth fd.header.conf.fileFlag then
        .ok ⟨fd, (scopeOf fd p).1, (scopeOf fd p).2, []⟩
      else if (p.length - (fd.headerLen + 2 * fssWidth fd.header.conf.fileFlag))
                % (2 * fssWidth fd.header.conf.fileFlag) ≠ 0 then .error .value
      else parseSegs fd.header.largeFileFlagSet (p.drop (fd.headerLen + 2 * fssWidth fd.header.conf.fileFlag))
        >>= fun segs => calcLen fd segs.length
        >>= fun fd' => .ok ⟨fd', (scopeOf fd p).1, (scopeOf fd p).2, segs⟩ := by
  unfold parse
  simp only [width_eq, DIR_NAK]
  generalize hw : fssWidth fd.header.conf.fileFlag = w
  have hwp : 4 ≤ w := by rw [← hw]; exact fssWidth_pos _
  by_cases h1 : fd.code ≠ 8
  · simp [h1, throw, throwThe, MonadExceptOf.throw, bind, Except.bind]
  · by_cases h2 : n > fd.packetLen
    · simp [h1, h2, throw, throwThe, MonadExceptOf.throw, bind, Except.bind]
    · by_cases h3 : p.length < fd.headerLen + 2 * w
      · have : fd.headerLen + 2 * w > p.length := h3
        simp [h1, h2, h3, this, throw, throwThe, MonadExceptOf.throw, bind, Except.bind]
      · have g3 : ¬ fd.headerLen + 2 * w > p.length := h3
        have l1 : (slice p fd.headerLen (fd.headerLen + w)).length = w := by simp; omega
        have l2 : (slice p (fd.headerLen + w) (fd.headerLen + w + w)).length = w := by simp; omega
        have e2 : fd.headerLen + w + w = fd.headerLen + 2 * w := by omega
        have e3 : w * 2 = 2 * w := by omega
        simp only [h1, h2, h3, g3, ↓reduceIte, bind, Except.bind, unpackBE_ok l1, unpackBE_ok l2,
          pure, Except.pure, scopeOf, hw, not_true_eq_false, not_false_eq_true]
        by_cases h4 : p.length = fd.headerLen + 2 * w
        · have t : ¬ fd.headerLen + w + w < p.length := by omega
          rw [if_neg t, if_pos h4]
        · have t : fd.headerLen + w + w < p.length := by omega
          rw [if_pos t, if_neg h4, e2, e3]
          by_cases h5 : (p.length - (fd.headerLen + 2 * w)) % (2 * w) ≠ 0
          · rw [if_pos h5, if_pos h5]
            rfl
          · rw [if_neg h5, if_neg h5]

theorem calcLen_documented (fd : FileDirective) (n : Nat) : Documented (calcLen fd n) := by
  by_cases hf : fd.header.conf.fileFlag < 2
  · rw [calcLen_eq' fd n hf]
    split
    · exact Documented.err rfl
    · exact Documented.ok _
  · rw [calcLen_bad_flag fd n (by omega)]; exact Documented.err rfl

theorem parse_documented (n : Nat) (r : FileDirective × Bytes) : Documented (parse n r) := by
  obtain ⟨fd, p⟩ := r
  rw [parse_eq]
  split
  · exact Documented.err rfl
  · split
    · exact Documented.err rfl
    · split
      · exact Documented.err rfl
      · split
        · exact Documented.ok _
        · split
          · exact Documented.err rfl
          · rename_i h3 h4 h5
            have hw := fssWidth_pos fd.header.conf.fileFlag
            have h5' : (p.length - (fd.headerLen + 2 * fssWidth fd.header.conf.fileFlag))
                % (2 * fssWidth fd.header.conf.fileFlag) = 0 := by omega
            obtain ⟨k, hk⟩ := Nat.dvd_of_mod_eq_zero h5'
            have hd : (p.drop (fd.headerLen + 2 * fssWidth fd.header.conf.fileFlag)).length
                = k * (2 * segW fd.header.largeFileFlagSet) := by
              rw [segW_eq, List.length_drop, hk, Nat.mul_comm]
            obtain ⟨l, hl, _, _⟩ := parseSegs_ok _ k _ hd
            rw [hl]
            apply Documented.bind (calcLen_documented fd l.length)
            intro fd' _
            exact Documented.ok _

/-- the decoder fails, on any octet string whatever, only with `ValueError`,
    `UnsupportedCfdpVersion` or `InvalidCrc` (in particular never with `struct.error`) -/
theorem unpack_documented (d : Bytes) : Documented (Nak.unpack d) := by
  rw [unpack_eq]; exact bind_prelude_documented (parse d.length) (parse_documented d.length) d

/-- `packet_len` of a header with the CRC flag leaves room for the trailer that was verified -/
theorem paramsEnd_eq (fd : FileDirective) :
    fd.paramsEnd + (if fd.header.conf.crcFlag = 1 then 2 else 0) = fd.packetLen := by
  have := packetLen_ge fd.header
  unfold FileDirective.paramsEnd FileDirective.packetLen
  split <;> omega

/-- on an accepted prelude the parser leaves the base object (header, data-field length) as
    decoded; the buffer is exactly the declared PDU and every decoded offset fits the width -/
theorem parse_fd (n : Nat) (d : Bytes) (fd : FileDirective) (p : Bytes) (hp : prelude d = .ok (fd, p))
    (a : Nak) (h : parse n (fd, p) = .ok a) :
    a.fd = fd ∧ n ≤ fd.packetLen ∧ fd.code = 8 ∧
      fd.header.dataFieldLen = nakParamLen fd.header.conf.fileFlag fd.header.conf.crcFlag a.segs.length + 1 ∧
      SegsFit (fssWidth fd.header.conf.fileFlag) a.segs := by
  obtain ⟨wf, _, hlen, _, _, _⟩ := prelude_facts d fd p hp
  have hff : fd.header.conf.fileFlag < 2 := wf.2.2.2.2.1
  have hdl : fd.header.dataFieldLen < 65536 := wf.2.2.2.2.2.2.2.1
  have hw := fssWidth_pos fd.header.conf.fileFlag
  have hpe := paramsEnd_eq fd
  have hpl : fd.packetLen = fd.header.dataFieldLen + fd.header.headerLen := rfl
  have hhl : fd.headerLen = fd.header.headerLen + 1 := rfl
  generalize hc2 : (if fd.header.conf.crcFlag = 1 then 2 else 0) = c2 at hpe
  rw [parse_eq] at h
  split at h
  · cases h
  · rename_i h1
    split at h
    · cases h
    · rename_i h2
      split at h
      · cases h
      · split at h
        · rename_i h3 h4
          cases h
          refine ⟨rfl, by omega, by omega, ?_, ?_⟩
          · simp only [nakParamLen, List.length_nil, hc2]; omega
          · intro q hq; cases hq
        · split at h
          · cases h
          · rename_i h3 h4 h5
            have h5' : (p.length - (fd.headerLen + 2 * fssWidth fd.header.conf.fileFlag))
                % (2 * fssWidth fd.header.conf.fileFlag) = 0 := by omega
            obtain ⟨k, hk⟩ := Nat.dvd_of_mod_eq_zero h5'
            have hd : (p.drop (fd.headerLen + 2 * fssWidth fd.header.conf.fileFlag)).length
                = k * (2 * segW fd.header.largeFileFlagSet) := by
              rw [segW_eq, List.length_drop, hk, Nat.mul_comm]
            obtain ⟨l, hl, hlk, hfit⟩ := parseSegs_ok _ k _ hd
            rw [hl] at h
            simp only [bind, Except.bind] at h
            have hdl' : fd.header.dataFieldLen
                = nakParamLen fd.header.conf.fileFlag fd.header.conf.crcFlag l.length + 1 := by
              simp only [nakParamLen, hlk, hc2]
              have e1 : 2 * fssWidth fd.header.conf.fileFlag * (k + 1)
                  = 2 * fssWidth fd.header.conf.fileFlag * k + 2 * fssWidth fd.header.conf.fileFlag := by
                rw [Nat.mul_add]; omega
              rw [e1]
              generalize 2 * fssWidth fd.header.conf.fileFlag * k = m at hk
              omega
            rw [calcLen_eq' fd l.length hff] at h
            have g : ¬ 65535 < nakParamLen fd.header.conf.fileFlag fd.header.conf.crcFlag l.length + 1 := by
              omega
            rw [if_neg g, ← hdl'] at h
            cases h
            exact ⟨rfl, by omega, by omega, hdl', by rw [← segW_eq]; exact hfit⟩

/-- **inversion**: an accepted buffer is *exactly* the declared PDU (nothing may follow it), with a
    NAK directive code, a valid CRC when flagged and a data-field length consistent with the
    number of decoded segment requests -/
theorem unpack_inv (d : Bytes) (a : Nak) (h : Nak.unpack d = .ok a) :
    prelude d = .ok (a.fd, d.take a.fd.paramsEnd) ∧ parse d.length (a.fd, d.take a.fd.paramsEnd) = .ok a ∧
    d.length = a.packetLen ∧ a.fd.code = 8 ∧
    (a.fd.header.conf.crcFlag = 1 → Crc.crc16 d = 0) ∧
    a.fd.header.dataFieldLen
      = nakParamLen a.fd.header.conf.fileFlag a.fd.header.conf.crcFlag a.segs.length + 1 ∧
    SegsFit (fssWidth a.fd.header.conf.fileFlag) a.segs := by
  rw [unpack_eq] at h
  obtain ⟨fd, p, hp, hf⟩ := bind_prelude_inv (parse d.length) d a h
  obtain ⟨_, _, h3, h4, h5⟩ := (prelude_ok_iff d fd p).mp hp
  obtain ⟨hfd, hn, hc, hdl, hfit⟩ := parse_fd d.length d fd p hp a hf
  subst hfd
  subst h5
  have hlen : d.length = a.fd.packetLen := by omega
  refine ⟨hp, hf, hlen, hc, ?_, hdl, hfit⟩
  intro hcf
  have := h4 hcf
  rwa [List.take_of_length_le (by omega)] at this

/-- a buffer longer than the PDU it declares is refused with `ValueError` (by design) -/
theorem unpack_longer (d : Bytes) (fd : FileDirective) (p : Bytes) (hp : prelude d = .ok (fd, p))
    (hl : fd.packetLen < d.length) : Nak.unpack d = .error .value := by
  rw [unpack_eq, hp]
  show parse d.length (fd, p) = _
  rw [parse_eq]
  by_cases h1 : fd.code ≠ 8
  · rw [if_pos h1]
  · rw [if_neg h1, if_pos hl]

end SpVerif.Nak
