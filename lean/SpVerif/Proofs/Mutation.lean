import SpVerif.Model.Mutation
import SpVerif.Proofs.FileDirective
import SpVerif.Proofs.Nak
import SpVerif.Proofs.KeepAlive
import SpVerif.Proofs.FileData
/-!
# Lemmas for the setter state machines (C11; reusable by C09/C10/C12)

"What a successful `pack` tells about its pieces": lengths of the octet strings the primitive
encoders return whenever they return at all — no well-formedness hypothesis, so the length clauses
of C11 hold for every object that packs, in whatever way it was reached.
-/
namespace SpVerif.Mutation
open SpVerif

/-- inversion of a successful `>>=` in the `Py` monad -/
theorem bind_ok_inv {α β : Type} {x : Py α} {f : α → Py β} {b : β} (h : (x >>= f) = .ok b) :
    ∃ a, x = .ok a ∧ f a = .ok b := by
  cases x with
  | error e => cases h
  | ok a => exact ⟨a, rfl, h⟩

theorem pure_ok_inv {α : Type} {a b : α} (h : (pure a : Py α) = .ok b) : a = b := by
  cases h; rfl

theorem packBE_inv {n v : Nat} {w : Bytes} (h : packBE n v = .ok w) : w = beBytes n v ∧ v < 256 ^ n := by
  unfold packBE at h
  split at h
  · cases h; exact ⟨rfl, by assumption⟩
  · cases h

theorem packBE_len {n v : Nat} {w : Bytes} (h : packBE n v = .ok w) : w.length = n := by
  rw [(packBE_inv h).1]; simp

theorem packInt_len {n : Nat} {v : Int} {w : Bytes} (h : FileDirective.packInt n v = .ok w) : w.length = n := by
  unfold FileDirective.packInt at h
  split at h
  · cases h
  · exact packBE_len h

section SpacePacket
open SpVerif.SpacePacket

/-- a packed space packet header has six octets, the last two being the data length field -/
theorem sph_pack_inv {h : Sph} {b : Bytes} (hp : h.pack = .ok b) :
    b.length = 6 ∧ b.drop 4 = beBytes 2 h.dlen ∧ h.dlen < 65536 := by
  unfold Sph.pack at hp
  obtain ⟨w0, h0, hp⟩ := bind_ok_inv hp
  obtain ⟨w1, h1, hp⟩ := bind_ok_inv hp
  obtain ⟨w2, h2, hp⟩ := bind_ok_inv hp
  have := pure_ok_inv hp
  subst this
  obtain ⟨e0, _⟩ := packBE_inv h0
  obtain ⟨e1, _⟩ := packBE_inv h1
  obtain ⟨e2, b2⟩ := packBE_inv h2
  subst e0 e1 e2
  refine ⟨by simp, ?_, by simpa using b2⟩
  simp [beBytes_2]

end SpacePacket

theorem byteOfN_inv {v : Nat} {x : UInt8} (h : byteOfN v = .ok x) : v < 256 ∧ x = u8 v := by
  unfold byteOfN at h
  split at h
  · cases h; exact ⟨by assumption, rfl⟩
  · cases h

/-- the PUS TC secondary header packs to five octets -/
theorem tcsec_pack_len {s : PusTc.TcSec} {b : Bytes} (hp : s.pack = .ok b) : b.length = 5 := by
  unfold PusTc.TcSec.pack at hp
  obtain ⟨b0, _, hp⟩ := bind_ok_inv hp
  obtain ⟨b1, _, hp⟩ := bind_ok_inv hp
  obtain ⟨b2, _, hp⟩ := bind_ok_inv hp
  obtain ⟨src, hs, hp⟩ := bind_ok_inv hp
  have := pure_ok_inv hp
  subst this
  simp [packBE_len hs]

/-- the PUS TM secondary header packs to seven octets plus the timestamp -/
theorem tmsec_pack_len {s : PusTm.TmSec} {b : Bytes} (hp : s.pack = .ok b) : b.length = 7 + s.timestamp.length := by
  unfold PusTm.TmSec.pack at hp
  obtain ⟨b0, _, hp⟩ := bind_ok_inv hp
  obtain ⟨b1, _, hp⟩ := bind_ok_inv hp
  obtain ⟨b2, _, hp⟩ := bind_ok_inv hp
  obtain ⟨cnt, hc, hp⟩ := bind_ok_inv hp
  obtain ⟨dst, hd, hp⟩ := bind_ok_inv hp
  have := pure_ok_inv hp
  subst this
  simp [packBE_len hc, packBE_len hd]
  omega

section Cfdp
open SpVerif.CfdpHeader SpVerif.FileDirective

/-- a packed CFDP header is `header_len` octets long (ID widths agreeing, as every constructor and
    the decoder enforce) and its octets 1–2 hold the cached data-field length -/
theorem hdr_pack_inv {h : PduHeader} {b : Bytes} (hp : h.pack = .ok b)
    (hw : h.conf.dest.width = h.conf.source.width) :
    b.length = h.headerLen ∧
    (b.drop 1).take 2 = [u8 (h.dataFieldLen / 256 % 256), u8 (h.dataFieldLen % 256)] := by
  unfold PduHeader.pack at hp
  obtain ⟨b0, _, hp⟩ := bind_ok_inv hp
  by_cases hz : h.conf.source.width = 0 ∨ h.conf.seqNum.width = 0
  · simp [hz, throw, throwThe, MonadExceptOf.throw, bind, Except.bind] at hp
  · simp only [hz, ↓reduceIte] at hp
    obtain ⟨b3, _, hp⟩ := bind_ok_inv hp
    have := pure_ok_inv hp
    subst this
    constructor
    · simp only [List.length_append, List.length_cons, List.length_nil, BF.bytes_length, PduHeader.headerLen, hw]
      omega
    · simp

/-- a packed file-directive base: header plus the directive code octet -/
theorem fd_pack_inv {d : FileDirective} {b : Bytes} (hp : d.pack = .ok b)
    (hw : d.header.conf.dest.width = d.header.conf.source.width) :
    b.length = d.header.headerLen + 1 ∧
    (b.drop 1).take 2 = [u8 (d.header.dataFieldLen / 256 % 256), u8 (d.header.dataFieldLen % 256)] := by
  unfold FileDirective.pack at hp
  obtain ⟨hb, hh, hp⟩ := bind_ok_inv hp
  obtain ⟨c, _, hp⟩ := bind_ok_inv hp
  have := pure_ok_inv hp
  subst this
  obtain ⟨hl, hf⟩ := hdr_pack_inv hh hw
  have h4 := headerLen_ge d.header
  refine ⟨by simp [hl], ?_⟩
  rw [List.drop_append_of_le_length (by omega), List.take_append_of_le_length (by simp; omega), hf]

theorem withCrc_length (c : Nat) (p : Bytes) : (withCrc c p).length = p.length + (if c = 1 then 2 else 0) := by
  unfold withCrc
  split <;> simp [Crc.crcTrailer, Crc.be16]

theorem withCrc_len_field (c : Nat) (p : Bytes) (h : 3 ≤ p.length) :
    ((withCrc c p).drop 1).take 2 = (p.drop 1).take 2 := by
  unfold withCrc
  split
  · rw [List.drop_append_of_le_length (by omega), List.take_append_of_le_length (by simp; omega)]
  · rfl

end Cfdp

section Nak
open SpVerif.Nak SpVerif.FileDirective

theorem packPair_len {large : Bool} {a b : Int} {x : Bytes} (h : packPair large a b = .ok x) :
    x.length = 2 * segW large := by
  unfold packPair at h
  cases large with
  | false =>
    simp only [Bool.false_eq_true, not_false_eq_true, ↓reduceIte] at h
    by_cases g : a > 4294967295 ∨ b > 4294967295
    · simp [g, throw, throwThe, MonadExceptOf.throw, bind, Except.bind] at h
    · simp only [g, ↓reduceIte] at h
      obtain ⟨p, hp, h⟩ := bind_ok_inv h
      obtain ⟨q, hq, h⟩ := bind_ok_inv h
      have := pure_ok_inv h
      subst this
      simp [packInt_len hp, packInt_len hq, segW]
  | true =>
    simp only [not_true_eq_false, ↓reduceIte] at h
    obtain ⟨p, hp, h⟩ := bind_ok_inv h
    obtain ⟨q, hq, h⟩ := bind_ok_inv h
    have := pure_ok_inv h
    subst this
    simp [packInt_len hp, packInt_len hq, segW]

theorem packSegs_len {large : Bool} : ∀ {l : List Seg} {x : Bytes}, packSegs large l = .ok x →
    x.length = l.length * (2 * segW large)
  | [], x, h => by
    have := pure_ok_inv h
    subst this
    simp
  | p :: r, x, h => by
    unfold packSegs at h
    obtain ⟨y, hy, h⟩ := bind_ok_inv h
    obtain ⟨rest, hr, h⟩ := bind_ok_inv h
    have := pure_ok_inv h
    subst this
    simp only [List.length_append, List.length_cons, packPair_len hy, packSegs_len hr, Nat.add_mul, Nat.one_mul]
    omega

end Nak

end SpVerif.Mutation
