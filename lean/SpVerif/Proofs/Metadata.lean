import SpVerif.Model.Metadata
import SpVerif.Proofs.Eof
import SpVerif.Proofs.Lv
/-!
# Lemmas about the Metadata PDU model (reused by C04 / C09 / C10 / C11 / C12)

* `mdParamLen`, `calcLen_eq'`, `new_eq`, `setOptions_eq`, `setSrcName_eq`, `setDstName_eq`
* `parseOptions_documented` — the option loop terminates (well-founded recursion on the unconsumed
  octets) and fails only with `ValueError`; `parseOptions_length` — it consumes exactly its input
* `parse`, `unpack_eq` (prelude, then `parse`), `parse_documented`, `unpack_documented`,
  `unpack_inv` (the decoded base object is the declared one), `unpack_take`
-/
namespace SpVerif.Metadata
open SpVerif SpVerif.CfdpHeader SpVerif.FileDirective SpVerif.Tlv SpVerif.Lv

/-- directive-parameter length of a Metadata PDU -/
def mdParamLen (fileFlag crcFlag : Nat) (src dst : CfdpLv) (opts : Option (List AnyTlv)) : Nat :=
  1 + fssWidth fileFlag + src.packetLen + dst.packetLen + optionsLen (optList opts)
    + (if crcFlag = 1 then 2 else 0)

theorem calcLen_eq (fd : FileDirective) (src dst : CfdpLv) (opts : Option (List AnyTlv)) :
    calcLen fd src dst opts =
      fd.setParamLen (mdParamLen fd.header.conf.fileFlag fd.header.conf.crcFlag src dst opts) := by
  unfold calcLen mdParamLen fssWidth
  by_cases hf : fd.header.conf.fileFlag = 1 <;> by_cases hc : fd.header.conf.crcFlag = 1 <;>
    simp only [hf, hc, ↓reduceIte] <;> congr 1 <;> omega

theorem calcLen_eq' (fd : FileDirective) (src dst : CfdpLv) (opts : Option (List AnyTlv)) :
    calcLen fd src dst opts =
      if 65535 < mdParamLen fd.header.conf.fileFlag fd.header.conf.crcFlag src dst opts + 1 then .error .value
      else .ok { fd with header := { fd.header with
        dataFieldLen := mdParamLen fd.header.conf.fileFlag fd.header.conf.crcFlag src dst opts + 1 } } := by
  rw [calcLen_eq, setParamLen_eq]

theorem calcLen_documented (fd : FileDirective) (src dst : CfdpLv) (opts : Option (List AnyTlv)) :
    Documented (calcLen fd src dst opts) := by
  rw [calcLen_eq]; exact setParamLen_documented _ _

/-- octets of a name as the constructor / setters take it (`None` = no name) -/
def nameOctets : Option Bytes → Bytes
  | some n => n
  | none => []

theorem nameLv_eq (n : Option Bytes) :
    nameLv n = if (nameOctets n).length ≤ 255 then .ok ⟨nameOctets n⟩ else .error .value := by
  cases n with
  | none => simp [nameLv, nameOctets, CfdpLv.new]
  | some b =>
    show CfdpLv.new b = if b.length ≤ 255 then .ok ⟨b⟩ else .error .value
    by_cases h : b.length ≤ 255
    · rw [CfdpLv.new_ok h, if_pos h]
    · rw [CfdpLv.new_err (by omega), if_neg h]

/-- **complete case analysis of the constructor** -/
theorem new_eq (c : PduConfig) (cl : Bool) (ct : Nat) (size : Int) (src dst : Option Bytes)
    (opts : Option (List AnyTlv)) :
    Metadata.new c cl ct size src dst opts =
      if 255 < (nameOctets src).length ∨ 255 < (nameOctets dst).length then .error .value
      else if c.source.width ≠ c.dest.width ∨
          65535 < mdParamLen c.fileFlag c.crcFlag ⟨nameOctets src⟩ ⟨nameOctets dst⟩ opts + 1 then .error .value
      else .ok ⟨⟨⟨0, 0, mdParamLen c.fileFlag c.crcFlag ⟨nameOctets src⟩ ⟨nameOctets dst⟩ opts + 1,
                  { c with direction := 0 }⟩, 7⟩, cl, ct, size, ⟨nameOctets src⟩, ⟨nameOctets dst⟩, opts⟩ := by
  unfold Metadata.new
  simp only [DIR_METADATA, nameLv_eq]
  by_cases h1 : (nameOctets src).length ≤ 255
  · by_cases h2 : (nameOctets dst).length ≤ 255
    · have g0 : ¬ (255 < (nameOctets src).length ∨ 255 < (nameOctets dst).length) := by omega
      rw [if_neg g0]
      simp only [h1, h2, ↓reduceIte, bind_ok]
      rw [FileDirective.new_eq]
      by_cases h3 : c.source.width = c.dest.width
      · have g : ¬ (65535 < 5 + 1 ∨ c.source.width ≠ c.dest.width) := by omega
        rw [if_neg g, bind_ok, calcLen_eq']
        by_cases h4 : 65535 < mdParamLen c.fileFlag c.crcFlag ⟨nameOctets src⟩ ⟨nameOctets dst⟩ opts + 1
        · rw [if_pos (Or.inr h4)]
          simp only [h4, ↓reduceIte, bind, Except.bind]
        · have g' : ¬ (c.source.width ≠ c.dest.width ∨
              65535 < mdParamLen c.fileFlag c.crcFlag ⟨nameOctets src⟩ ⟨nameOctets dst⟩ opts + 1) := by omega
          rw [if_neg g']
          simp only [h4, ↓reduceIte, bind, Except.bind, pure, Except.pure]
      · have g : (65535 < 5 + 1 ∨ c.source.width ≠ c.dest.width) := Or.inr h3
        rw [if_pos g, if_pos (Or.inl h3)]
        rfl
    · have g0 : (255 < (nameOctets src).length ∨ 255 < (nameOctets dst).length) := by omega
      rw [if_pos g0]
      simp only [h1, h2, ↓reduceIte, bind, Except.bind]
  · have g0 : (255 < (nameOctets src).length ∨ 255 < (nameOctets dst).length) := by omega
    rw [if_pos g0]
    simp only [h1, ↓reduceIte, bind, Except.bind]

/-- the `options` setter -/
theorem setOptions_eq (k : Metadata) (opts : Option (List AnyTlv)) :
    k.setOptions opts =
      if 65535 < mdParamLen k.fd.header.conf.fileFlag k.fd.header.conf.crcFlag k.srcLv k.dstLv opts + 1
      then .error .value
      else .ok { k with options := opts, fd := { k.fd with header := { k.fd.header with
        dataFieldLen := mdParamLen k.fd.header.conf.fileFlag k.fd.header.conf.crcFlag k.srcLv k.dstLv opts + 1 } } } := by
  unfold Metadata.setOptions
  rw [calcLen_eq']
  split <;> rfl

/-- the `source_file_name` setter -/
theorem setSrcName_eq (k : Metadata) (n : Option Bytes) :
    k.setSrcName n =
      if 255 < (nameOctets n).length ∨
        65535 < mdParamLen k.fd.header.conf.fileFlag k.fd.header.conf.crcFlag ⟨nameOctets n⟩ k.dstLv k.options + 1
      then .error .value
      else .ok { k with srcLv := ⟨nameOctets n⟩, fd := { k.fd with header := { k.fd.header with
        dataFieldLen :=
          mdParamLen k.fd.header.conf.fileFlag k.fd.header.conf.crcFlag ⟨nameOctets n⟩ k.dstLv k.options + 1 } } } := by
  unfold Metadata.setSrcName
  rw [nameLv_eq]
  by_cases h1 : (nameOctets n).length ≤ 255
  · rw [if_pos h1, bind_ok, calcLen_eq']
    by_cases h2 : 65535 < mdParamLen k.fd.header.conf.fileFlag k.fd.header.conf.crcFlag ⟨nameOctets n⟩ k.dstLv k.options + 1
    · rw [if_pos h2, if_pos (Or.inr h2)]; rfl
    · rw [if_neg h2, if_neg (by omega)]; rfl
  · rw [if_neg h1, if_pos (Or.inl (by omega))]; rfl

/-- the `dest_file_name` setter -/
theorem setDstName_eq (k : Metadata) (n : Option Bytes) :
    k.setDstName n =
      if 255 < (nameOctets n).length ∨
        65535 < mdParamLen k.fd.header.conf.fileFlag k.fd.header.conf.crcFlag k.srcLv ⟨nameOctets n⟩ k.options + 1
      then .error .value
      else .ok { k with dstLv := ⟨nameOctets n⟩, fd := { k.fd with header := { k.fd.header with
        dataFieldLen :=
          mdParamLen k.fd.header.conf.fileFlag k.fd.header.conf.crcFlag k.srcLv ⟨nameOctets n⟩ k.options + 1 } } } := by
  unfold Metadata.setDstName
  rw [nameLv_eq]
  by_cases h1 : (nameOctets n).length ≤ 255
  · rw [if_pos h1, bind_ok, calcLen_eq']
    by_cases h2 : 65535 < mdParamLen k.fd.header.conf.fileFlag k.fd.header.conf.crcFlag k.srcLv ⟨nameOctets n⟩ k.options + 1
    · rw [if_pos h2, if_pos (Or.inr h2)]; rfl
    · rw [if_neg h2, if_neg (by omega)]; rfl
  · rw [if_neg h1, if_pos (Or.inl (by omega))]; rfl

/-! ## the option loop -/

/-- **the loop fails only with `ValueError`** on any input; termination is by construction
    (well-founded recursion on the number of unconsumed octets) -/
theorem parseOptions_documented : ∀ (n : Nat) (d : Bytes), d.length = n → Documented (parseOptions d) := by
  intro n
  induction n using Nat.strongRecOn with
  | _ n ih =>
    intro d hn
    rw [parseOptions]
    apply Documented.bind (CfdpTlv.unpack_documented d)
    intro t _
    split
    · exact Documented.err rfl
    · split
      · exact Documented.ok _
      · have hp : 0 < t.packetLen := by simp only [CfdpTlv.packetLen]; omega
        apply Documented.bind
        · exact ih (d.drop t.packetLen).length (by simp only [List.length_drop]; omega) _ rfl
        · intro rest _; exact Documented.ok _

/-! ## the decoder -/

/-- index just behind the first parameter octet and the file size -/
def fixedEnd (fd : FileDirective) : Nat := fd.headerLen + 1 + fssWidth fd.header.conf.fileFlag

/-- the parameter parser on the base object and the cut buffer the prelude returns -/
def parse (r : FileDirective × Bytes) : Py Metadata := do
  let fd := r.1
  let data := r.2
  let i := fd.headerLen
  if data.length < (if fd.header.conf.fileFlag = 1 then i + 7 + 4 else i + 7) then throw .value
  let b ← idx data i
  let ct ← enumOf checksumTypes (b % 16)
  let (j, size) ← fd.parseFss data (i + 1)
  let s ← CfdpLv.unpack (data.drop j)
  let j := j + s.packetLen
  let t ← CfdpLv.unpack (data.drop j)
  let j := j + t.packetLen
  if j < data.length then
    let opts ← parseOptions (data.drop j)
    pure ⟨fd, decide (b / 64 % 2 = 1), ct, (size : Int), s, t, some (opts.map AnyTlv.generic)⟩
  else
    pure ⟨fd, decide (b / 64 % 2 = 1), ct, (size : Int), s, t, none⟩

theorem unpack_eq (d : Bytes) : Metadata.unpack d = prelude d >>= parse := by
  unfold Metadata.unpack prelude parse
  cases FileDirective.unpack d with
  | error e => rfl
  | ok fd =>
    cases hv : fd.verify d with
    | error e => simp [hv, bind, Except.bind]
    | ok n =>
      obtain ⟨_, hle, _⟩ := (verify_ok_iff fd.header d n).mp hv
      have hle' : fd.packetLen ≤ d.length := hle
      simp only [hv, bind, Except.bind, pure, Except.pure]
      generalize hm : (if fd.header.conf.fileFlag = 1 then fd.headerLen + 7 + 4 else fd.headerLen + 7) = m
      by_cases h1 : d.length < max m fd.packetLen
      · have h2 : (d.take fd.paramsEnd).length < m := by
          simp only [List.length_take]; omega
        simp only [h1, h2, ↓reduceIte, throw, throwThe, MonadExceptOf.throw]
      · simp only [h1, ↓reduceIte]

theorem minLen_ge (fd : FileDirective) :
    fd.headerLen + 7 ≤ (if fd.header.conf.fileFlag = 1 then fd.headerLen + 7 + 4 else fd.headerLen + 7) := by
  split <;> omega

theorem parse_documented (r : FileDirective × Bytes) : Documented (parse r) := by
  obtain ⟨fd, p⟩ := r
  unfold parse
  simp only []
  have hm7 := minLen_ge fd
  generalize (if fd.header.conf.fileFlag = 1 then fd.headerLen + 7 + 4 else fd.headerLen + 7) = m at hm7 ⊢
  by_cases hlt : p.length < m
  · simp only [hlt, ↓reduceIte]
    exact Documented.err rfl
  · simp only [hlt, ↓reduceIte]
    have hi : fd.headerLen < p.length := by omega
    rw [idx_ok hi]
    simp only [bind_ok]
    apply Documented.bind (enumOf_documented _ _)
    intro ct _
    apply Documented.bind (parseFss_documented _ _ _)
    intro js _
    apply Documented.bind (CfdpLv.unpack_documented _)
    intro s _
    apply Documented.bind (CfdpLv.unpack_documented _)
    intro t _
    split
    · apply Documented.bind (parseOptions_documented _ _ rfl)
      intro o _
      exact Documented.ok _
    · exact Documented.ok _

/-- the decoder fails, on any octet string whatever, only with `ValueError`,
    `UnsupportedCfdpVersion` or `InvalidCrc` (never `IndexError` / `struct.error`) -/
theorem unpack_documented (d : Bytes) : Documented (Metadata.unpack d) := by
  rw [unpack_eq]; exact bind_prelude_documented parse parse_documented d

/-- the parser keeps the decoded base object -/
theorem parse_fd (fd : FileDirective) (p : Bytes) (a : Metadata) (h : parse (fd, p) = .ok a) :
    a.fd = fd ∧ fd.headerLen + 7 ≤ p.length := by
  unfold parse at h
  simp only [] at h
  have hm7 := minLen_ge fd
  generalize (if fd.header.conf.fileFlag = 1 then fd.headerLen + 7 + 4 else fd.headerLen + 7) = m at hm7 h
  by_cases hlt : p.length < m
  · simp [hlt, throw, throwThe, MonadExceptOf.throw, bind, Except.bind] at h
  · simp only [hlt, ↓reduceIte] at h
    have hl : fd.headerLen + 7 ≤ p.length := by omega
    refine ⟨?_, hl⟩
    cases h1 : idx p fd.headerLen with
    | error e => rw [h1] at h; cases h
    | ok b =>
      rw [h1, bind_ok] at h
      cases h2 : enumOf checksumTypes (b % 16) with
      | error e => rw [h2] at h; cases h
      | ok ct =>
        rw [h2, bind_ok] at h
        cases h3 : fd.parseFss p (fd.headerLen + 1) with
        | error e => rw [h3] at h; cases h
        | ok js =>
          rw [h3, bind_ok] at h
          cases h4 : CfdpLv.unpack (p.drop js.1) with
          | error e => rw [h4] at h; cases h
          | ok s =>
            rw [h4, bind_ok] at h
            cases h5 : CfdpLv.unpack (p.drop (js.1 + s.packetLen)) with
            | error e => rw [h5] at h; cases h
            | ok t =>
              rw [h5, bind_ok] at h
              split at h
              · cases h6 : parseOptions (p.drop (js.1 + s.packetLen + t.packetLen)) with
                | error e => rw [h6] at h; cases h
                | ok o => rw [h6, bind_ok] at h; cases h; rfl
              · cases h; rfl

/-- **inversion**: an accepted buffer holds the whole declared PDU (CRC-16 zero when flagged); the
    decoded base object is the declared one -/
theorem unpack_inv (d : Bytes) (a : Metadata) (h : Metadata.unpack d = .ok a) :
    ∃ p, prelude d = .ok (a.fd, p) ∧ parse (a.fd, p) = .ok a ∧ a.packetLen ≤ d.length ∧
      (a.fd.header.conf.crcFlag = 1 → Crc.crc16 (d.take a.packetLen) = 0) ∧
      8 ≤ a.fd.header.dataFieldLen := by
  rw [unpack_eq] at h
  obtain ⟨fd, p, hp, hf, h3, h4, _⟩ := bind_prelude_take parse d a h
  obtain ⟨_, _, hlen, hpe, _, _⟩ := prelude_facts d fd p hp
  obtain ⟨hfd, hl⟩ := parse_fd fd p a hf
  subst hfd
  have hpl : a.fd.packetLen = a.fd.header.dataFieldLen + a.fd.header.headerLen := rfl
  have hhl : a.fd.headerLen = a.fd.header.headerLen + 1 := rfl
  exact ⟨p, hp, hf, h3, h4, by omega⟩

/-- **only the declared PDU matters** -/
theorem unpack_take (d : Bytes) (a : Metadata) (h : Metadata.unpack d = .ok a) (rest : Bytes) :
    Metadata.unpack (d.take a.packetLen ++ rest) = .ok a := by
  obtain ⟨p, hp, hf, _, _, h8⟩ := unpack_inv d a h
  rw [unpack_eq, show a.packetLen = a.fd.packetLen from rfl, prelude_take d a.fd p hp (by omega) rest]
  exact hf

end SpVerif.Metadata
