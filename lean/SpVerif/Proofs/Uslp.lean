import SpVerif.Model.UslpFrame
set_option linter.unusedSimpArgs false
set_option linter.unusedVariables false
/-!
# Characterisation and prefix lemmas for the USLP models (reused by C09 / C10 / C11)

Every decoder gets an equational characterisation (`unpack raw = if … then error … else ok ⟨…⟩`),
an "only the declared prefix is read" lemma (`unpack raw = ok h → unpack (raw ++ rest) = ok h`,
`unpack (raw.take h.len) = ok h`) and an error-class lemma (only `Uslp*` classes / `ValueError`).
-/
namespace SpVerif.Uslp

/-! ## generic helpers -/

theorem slice_of_decomp {raw a m c : Bytes} {s e : Nat} (h : raw = a ++ m ++ c)
    (hs : s = a.length) (he : e = a.length + m.length) : slice raw s e = m := by
  subst h hs he; exact slice_eq_of_append a m c

theorem drop_of_decomp {raw a c : Bytes} {k : Nat} (h : raw = a ++ c) (hk : k = a.length) :
    raw.drop k = c := by
  subst h hk; simp

theorem slice_append_long (a b : Bytes) (s e : Nat) (h : e ≤ a.length) :
    slice (a ++ b) s e = slice a s e := slice_append_left a b s e h

theorem slice_take (b : Bytes) (s e k : Nat) (h : e ≤ k) : slice (b.take k) s e = slice b s e := by
  simp [slice, List.take_take, Nat.min_eq_left h]

theorem getElem_toNat_append {a b : Bytes} {i : Nat} (h : i < a.length) (h' : i < (a ++ b).length) :
    (a ++ b)[i].toNat = a[i].toNat := by
  rw [List.getElem_append_left h]

/-- `8k ||| v = 8k + v` for a three-bit `v` (octet 6 of the header: flags and VCF count length) -/
theorem or8 (k v : Nat) (hv : v < 8) : (8 * k) ||| v = 8 * k + v := by
  have := Nat.two_pow_add_eq_or_of_lt (i := 3) (b := v) (by simpa using hv) k
  simpa using this.symm

/-- `32r ||| u = 32r + u` for a five-bit `u` (data field header: construction rule and protocol id) -/
theorem or32 (r u : Nat) (hu : u < 32) : (32 * r) ||| u = 32 * r + u := by
  have := Nat.two_pow_add_eq_or_of_lt (i := 5) (b := u) (by simpa using hu) r
  simpa using this.symm

/-! ## common header part -/

theorem packCommon_nat (s v m : Nat) (sd tr : Bool) :
    packCommon (s : Int) sd (v : Int) (m : Int) tr =
      if 65535 < s ∨ 63 < v ∨ 15 < m then .error (.py .value)
      else .ok [u8 (versionNumber * 16 + s / 4096 % 16), u8 (s / 16 % 256),
                u8 (s % 16 * 16 + b2n sd * 8 + v / 8 % 8), u8 (v % 8 * 32 + m * 2 + b2n tr)] := by
  unfold packCommon
  by_cases h : 65535 < s ∨ 63 < v ∨ 15 < m
  · have : ((s : Int) > 65535 ∨ (s : Int) < 0) ∨ ((v : Int) > 63 ∨ (v : Int) < 0) ∨ ((m : Int) > 15 ∨ (m : Int) < 0) := by omega
    simp [this, h]
  · have : ¬ (((s : Int) > 65535 ∨ (s : Int) < 0) ∨ ((v : Int) > 63 ∨ (v : Int) < 0) ∨ ((m : Int) > 15 ∨ (m : Int) < 0)) := by omega
    simp [this, h]

/-- out-of-range identifiers (negative ones included) are refused with `ValueError` -/
theorem packCommon_refuse (scid vcid mapId : Int) (sd tr : Bool)
    (h : scid < 0 ∨ 65535 < scid ∨ vcid < 0 ∨ 63 < vcid ∨ mapId < 0 ∨ 15 < mapId) :
    packCommon scid sd vcid mapId tr = .error (.py .value) := by
  unfold packCommon
  split
  · rfl
  · omega

theorem unpackBase_short (raw : Bytes) (tr : Bool) (ver : Nat) (h : raw.length < 4) :
    unpackBase raw tr ver = .error (.uslp .invalidLen) := by
  simp [unpackBase, h, bind, Except.bind, throw, throwThe, MonadExceptOf.throw]

theorem unpackBase_eq (raw : Bytes) (tr : Bool) (ver : Nat) (h4 : 4 ≤ raw.length) :
    unpackBase raw tr ver =
      if raw[0].toNat / 16 ≠ ver then .error (.uslp .versionMismatch)
      else if (raw[3].toNat % 2 == 1) ≠ tr then .error (.uslp .typeMismatch)
      else .ok (raw[0].toNat % 16 * 4096 + raw[1].toNat * 16 + raw[2].toNat / 16,
                raw[2].toNat / 8 % 2 == 1, raw[2].toNat % 8 * 8 + raw[3].toNat / 32 % 8,
                raw[3].toNat / 2 % 16) := by
  have hl : ¬ raw.length < 4 := by omega
  unfold unpackBase
  simp only [hl, ↓reduceIte, bind, Except.bind, pure, Except.pure, throw, throwThe, MonadExceptOf.throw,
    idx_ok (show 0 < raw.length by omega), idx_ok (show 1 < raw.length by omega),
    idx_ok (show 2 < raw.length by omega), idx_ok (show 3 < raw.length by omega), liftPy_ok]

/-! ## truncated header -/

theorem TruncatedHeader.unpack_short (raw : Bytes) (ver : Nat) (h : raw.length < 4) :
    TruncatedHeader.unpack raw ver = .error (.uslp .invalidLen) := by
  simp [TruncatedHeader.unpack, unpackBase_short raw true ver h, bind, Except.bind]

theorem TruncatedHeader.unpack_eq (raw : Bytes) (ver : Nat) (h4 : 4 ≤ raw.length) :
    TruncatedHeader.unpack raw ver =
      if raw[0].toNat / 16 ≠ ver then .error (.uslp .versionMismatch)
      else if raw[3].toNat % 2 ≠ 1 then .error (.uslp .typeMismatch)
      else .ok ⟨((raw[0].toNat % 16 * 4096 + raw[1].toNat * 16 + raw[2].toNat / 16 : Nat) : Int),
                raw[2].toNat / 8 % 2 == 1, ((raw[2].toNat % 8 * 8 + raw[3].toNat / 32 % 8 : Nat) : Int),
                ((raw[3].toNat / 2 % 16 : Nat) : Int)⟩ := by
  unfold TruncatedHeader.unpack
  rw [unpackBase_eq raw true ver h4]
  by_cases hv : raw[0].toNat / 16 ≠ ver
  · simp [hv, bind, Except.bind]
  · by_cases ht : raw[3].toNat % 2 = 1
    · simp [hv, ht, bind, Except.bind, pure, Except.pure]
    · simp [hv, ht, bind, Except.bind]

/-! ## VCF count -/

theorem vcfLoop_eq (raw : Bytes) (k pos acc : Nat) (h : pos + k ≤ raw.length) :
    vcfLoop raw k pos acc = .ok (acc + beNat (slice raw pos (pos + k))) := by
  induction k generalizing pos acc with
  | zero => simp [vcfLoop, slice, pure, Except.pure]
  | succ k ih =>
    have hp : pos < raw.length := by omega
    unfold vcfLoop
    simp only [idx_ok hp, liftPy_ok, bind, Except.bind]
    rw [ih (pos + 1) _ (by omega)]
    have hs : slice raw pos (pos + (k + 1)) = raw[pos] :: slice raw (pos + 1) (pos + 1 + k) := by
      simp only [slice]
      rw [show pos + (k + 1) = pos + 1 + k by omega]
      have : List.drop pos (List.take (pos + 1 + k) raw) =
          (List.take (pos + 1 + k) raw)[pos]'(by simp; omega) :: List.drop (pos + 1) (List.take (pos + 1 + k) raw) := by
        rw [List.drop_eq_getElem_cons]
      rw [this]
      simp
    rw [hs, beNat_cons]
    have hl : (slice raw (pos + 1) (pos + 1 + k)).length = k := by simp; omega
    rw [hl, Nat.add_assoc]

/-- under the length guard every branch that reads the VCF count yields the big-endian value of
    the `n` octets after the fixed part -/
theorem readVcf_eq (raw : Bytes) (n : Nat) (h : 7 + n ≤ raw.length) :
    readVcf raw n = .ok (beNat (slice raw 7 (7 + n))) := by
  unfold readVcf
  by_cases h1 : n = 1
  · subst h1
    have h7 : 7 < raw.length := by omega
    have := vcfLoop_eq raw 1 7 0 (by omega)
    simp only [vcfLoop, idx_ok h7, liftPy_ok, bind, Except.bind, pure, Except.pure] at this
    simp at this
    simp [idx_ok h7, this]
  · by_cases h2 : n = 2
    · subst h2
      have hl : (slice raw 7 9).length = 2 := by simp; omega
      simp [unpackBE_ok hl]
    · by_cases h4 : n = 4
      · subst h4
        have hl : (slice raw 7 11).length = 4 := by simp; omega
        simp [unpackBE_ok hl]
      · simp only [h1, h2, h4, ↓reduceIte]
        rw [vcfLoop_eq raw n 7 0 h]; simp

/-! ## primary header -/

theorem PrimaryHeader.unpack_short (raw : Bytes) (ver : Nat) (h : raw.length < 7) :
    PrimaryHeader.unpack raw ver = .error (.uslp .invalidLen) := by
  simp [PrimaryHeader.unpack, h, bind, Except.bind, throw, throwThe, MonadExceptOf.throw]

/-- the decoded regular header as a function of the octets -/
def hdrOf (raw : Bytes) (h7 : 7 ≤ raw.length) : PrimaryHeader :=
  ⟨((raw[0].toNat % 16 * 4096 + raw[1].toNat * 16 + raw[2].toNat / 16 : Nat) : Int),
   raw[2].toNat / 8 % 2 == 1, ((raw[2].toNat % 8 * 8 + raw[3].toNat / 32 % 8 : Nat) : Int),
   ((raw[3].toNat / 2 % 16 : Nat) : Int), raw[4].toNat * 256 + raw[5].toNat,
   raw[6].toNat / 128 % 2 == 1, raw[6].toNat / 64 % 2 == 1, raw[6].toNat / 8 % 2 == 1, raw[6].toNat % 8,
   some (beNat (slice raw 7 (7 + raw[6].toNat % 8)))⟩

theorem PrimaryHeader.unpack_eq (raw : Bytes) (ver : Nat) (h7 : 7 ≤ raw.length) :
    PrimaryHeader.unpack raw ver =
      if raw[0].toNat / 16 ≠ ver then .error (.uslp .versionMismatch)
      else if raw[3].toNat % 2 = 1 then .error (.uslp .typeMismatch)
      else if raw.length - 7 < raw[6].toNat % 8 then .error (.uslp .invalidLen)
      else .ok (hdrOf raw h7) := by
  have hl : ¬ raw.length < 7 := by omega
  unfold PrimaryHeader.unpack
  simp only [hl, ↓reduceIte, bind, Except.bind, pure, Except.pure, throw, throwThe, MonadExceptOf.throw]
  rw [unpackBase_eq raw false ver (by omega)]
  by_cases hv : raw[0].toNat / 16 ≠ ver
  · simp [hv]
  · by_cases ht : raw[3].toNat % 2 = 1
    · simp [hv, ht]
    · simp only [hv, ht, ↓reduceIte, idx_ok (show 4 < raw.length by omega),
        idx_ok (show 5 < raw.length by omega), idx_ok (show 6 < raw.length by omega), liftPy_ok]
      have ht' : ¬ ((raw[3].toNat % 2 == 1) ≠ false) := by simp [ht]
      simp only [ht', ↓reduceIte]
      by_cases hg : raw.length - 7 < raw[6].toNat % 8
      · simp [hg]
      · have hr := readVcf_eq raw (raw[6].toNat % 8) (by omega)
        simp only [gt_iff_lt, hg, ↓reduceIte, hr]
        rfl


/-! ## header type -/

theorem headerIsTruncated_eq (raw : Bytes) (h4 : 4 ≤ raw.length) :
    headerIsTruncated raw = .ok (raw[3].toNat % 2 == 1) := by
  have hl : ¬ raw.length < 4 := by omega
  simp [headerIsTruncated, hl, idx_ok (show 3 < raw.length by omega), bind, Except.bind, pure, Except.pure]

theorem headerIsTruncated_short (raw : Bytes) (h : raw.length < 4) :
    headerIsTruncated raw = .error (.py .value) := by
  simp [headerIsTruncated, h, bind, Except.bind, throw, throwThe, MonadExceptOf.throw]

/-! ## data field -/

/-- the construction rule belongs to the frame type (always true when no type is passed) -/
def rulesOk (rules : Nat) : Option FrameType → Bool
  | some f => verifyFrameType rules f
  | none => true

theorem Tfdf.unpack_nil (tr : Bool) (n : Nat) (ft : Option FrameType) :
    Tfdf.unpack [] tr n ft = .error (.uslp .invalidLen) := by
  simp [Tfdf.unpack, bind, Except.bind, throw, throwThe, MonadExceptOf.throw]

theorem Tfdf.unpack_badRules (raw : Bytes) (h1 : 1 ≤ raw.length) (tr : Bool) (n : Nat) (ft : Option FrameType)
    (hb : rulesOk (raw[0].toNat / 32 % 8) ft = false) :
    Tfdf.unpack raw tr n ft = .error (.uslp .invalidConstructionRules) := by
  have hl : ¬ raw.length < 1 := by omega
  cases ft with
  | none => simp [rulesOk] at hb
  | some f =>
    simp only [rulesOk] at hb
    simp [Tfdf.unpack, hl, idx_ok (show 0 < raw.length by omega), hb, bind, Except.bind, throw, throwThe,
      MonadExceptOf.throw]

theorem Tfdf.unpack_fhp_short (raw : Bytes) (h1 : 1 ≤ raw.length) (tr : Bool) (n : Nat) (h3 : raw.length < 3 ∨ n < 3)
    (ft : Option FrameType) (hok : rulesOk (raw[0].toNat / 32 % 8) ft = true)
    (hs : shouldHaveFhp (raw[0].toNat / 32 % 8) tr ft = true) :
    Tfdf.unpack raw tr n ft = .error (.uslp .invalidLen) := by
  have hl : ¬ raw.length < 1 := by omega
  cases ft with
  | none =>
    simp [Tfdf.unpack, hl, idx_ok (show 0 < raw.length by omega), hs, h3, bind, Except.bind, pure, Except.pure,
      throw, throwThe, MonadExceptOf.throw]
  | some f =>
    simp only [rulesOk] at hok
    simp [Tfdf.unpack, hl, idx_ok (show 0 < raw.length by omega), hok, hs, h3, bind, Except.bind, pure,
      Except.pure, throw, throwThe, MonadExceptOf.throw]

theorem Tfdf.unpack_fhp (raw : Bytes) (h3 : 3 ≤ raw.length) (tr : Bool) (n : Nat) (hn : 3 ≤ n)
    (ft : Option FrameType) (hok : rulesOk (raw[0].toNat / 32 % 8) ft = true)
    (hs : shouldHaveFhp (raw[0].toNat / 32 % 8) tr ft = true) :
    Tfdf.unpack raw tr n ft =
      .ok ⟨raw[0].toNat / 32 % 8, raw[0].toNat % 32, some (raw[1].toNat * 256 + raw[2].toNat), slice raw 3 n⟩ := by
  have hl : ¬ raw.length < 1 := by omega
  have hl3 : ¬ (raw.length < 3 ∨ n < 3) := by omega
  cases ft with
  | none =>
    simp [Tfdf.unpack, hl, hl3, idx_ok (show 0 < raw.length by omega), idx_ok (show 1 < raw.length by omega),
      idx_ok (show 2 < raw.length by omega), hs, bind, Except.bind, pure, Except.pure]
  | some f =>
    simp only [rulesOk] at hok
    simp [Tfdf.unpack, hl, hl3, idx_ok (show 0 < raw.length by omega), idx_ok (show 1 < raw.length by omega),
      idx_ok (show 2 < raw.length by omega), hok, hs, bind, Except.bind, pure, Except.pure]

theorem Tfdf.unpack_nofhp (raw : Bytes) (h1 : 1 ≤ raw.length) (tr : Bool) (n : Nat)
    (ft : Option FrameType) (hok : rulesOk (raw[0].toNat / 32 % 8) ft = true)
    (hs : shouldHaveFhp (raw[0].toNat / 32 % 8) tr ft = false) :
    Tfdf.unpack raw tr n ft = .ok ⟨raw[0].toNat / 32 % 8, raw[0].toNat % 32, none, slice raw 1 n⟩ := by
  have hl : ¬ raw.length < 1 := by omega
  cases ft with
  | none =>
    simp [Tfdf.unpack, hl, idx_ok (show 0 < raw.length by omega), hs, bind, Except.bind, pure, Except.pure]
  | some f =>
    simp only [rulesOk] at hok
    simp [Tfdf.unpack, hl, idx_ok (show 0 < raw.length by omega), hok, hs, bind, Except.bind, pure, Except.pure]

/-- the data-field decoder fails only with `UslpInvalidRawPacketOrFrameLen` or
    `UslpInvalidConstructionRules` -/
theorem Tfdf.unpack_err (raw : Bytes) (tr : Bool) (n : Nat) (ft : Option FrameType) (e : UErr)
    (h : Tfdf.unpack raw tr n ft = .error e) :
    e = .uslp .invalidLen ∨ e = .uslp .invalidConstructionRules := by
  by_cases h1 : 1 ≤ raw.length
  · cases hok : rulesOk (raw[0].toNat / 32 % 8) ft with
    | false => rw [Tfdf.unpack_badRules raw h1 tr n ft hok] at h; cases h; exact Or.inr rfl
    | true =>
      cases hs : shouldHaveFhp (raw[0].toNat / 32 % 8) tr ft with
      | false => rw [Tfdf.unpack_nofhp raw h1 tr n ft hok hs] at h; cases h
      | true =>
        by_cases h3 : 3 ≤ raw.length ∧ 3 ≤ n
        · rw [Tfdf.unpack_fhp raw h3.1 tr n h3.2 ft hok hs] at h; cases h
        · rw [Tfdf.unpack_fhp_short raw h1 tr n (by omega) ft hok hs] at h; cases h; exact Or.inl rfl
  · have : raw = [] := by
      cases raw with
      | nil => rfl
      | cons x r => simp at h1
    subst this
    rw [Tfdf.unpack_nil] at h; cases h; exact Or.inl rfl


/-! ## transfer frame: header stage -/

theorem Frame.unpackHeader_short (raw : Bytes) (ft : FrameType) (p : FrameProps) (h : raw.length < 4) :
    Frame.unpackHeader raw ft p = .error (.uslp .invalidLen) := by
  simp [Frame.unpackHeader, h, bind, Except.bind, throw, throwThe, MonadExceptOf.throw]

/-- the guards of `TransferFrame.unpack` in the order the code applies them -/
theorem Frame.unpackHeader_eq (raw : Bytes) (ft : FrameType) (p : FrameProps) (h4 : 4 ≤ raw.length) :
    Frame.unpackHeader raw ft p =
      if ft = .fixed ∧ p.kind ≠ .fixed then .error (.py .value)
      else if ft = .fixed ∧ raw.length < p.lenParam then .error (.uslp .invalidLen)
      else if raw[3].toNat % 2 = 1 then
        if ft ≠ .variable then .error (.uslp .truncatedNotAllowed)
        else if p.kind ≠ .variable then .error (.py .value)
        else if raw.length < p.lenParam then .error (.uslp .invalidLen)
        else (TruncatedHeader.unpack raw).bind (fun h => .ok (Header.truncated h))
      else (PrimaryHeader.unpack raw).bind (fun h => .ok (Header.primary h)) := by
  have hl : ¬ raw.length < 4 := by omega
  unfold Frame.unpackHeader
  rw [headerIsTruncated_eq raw h4]
  cases ft <;> cases hk : p.kind <;> by_cases hlen : raw.length < p.lenParam <;>
    by_cases ht : raw[3].toNat % 2 = 1 <;>
    simp [hl, hk, hlen, ht, bind, Except.bind, pure, Except.pure, throw, throwThe, MonadExceptOf.throw]

/-- a truncated header is produced only for the variable frame type with variable-frame properties -/
theorem Frame.unpackHeader_truncated (raw : Bytes) (ft : FrameType) (p : FrameProps) (h : TruncatedHeader)
    (hu : Frame.unpackHeader raw ft p = .ok (.truncated h)) :
    ft = .variable ∧ p.kind = .variable ∧ p.lenParam ≤ raw.length ∧ 4 ≤ raw.length := by
  by_cases h4 : 4 ≤ raw.length
  · rw [Frame.unpackHeader_eq raw ft p h4] at hu
    cases ft <;> cases hk : p.kind <;> by_cases hlen : raw.length < p.lenParam <;>
      by_cases ht : raw[3].toNat % 2 = 1 <;> simp [hk, hlen, ht] at hu <;>
      first
        | (refine ⟨rfl, rfl, by omega, h4⟩)
        | (exfalso; revert hu; cases PrimaryHeader.unpack raw <;> simp [Except.bind])
  · rw [Frame.unpackHeader_short raw ft p (by omega)] at hu; cases hu

/-- a regular header comes from `PrimaryHeader.unpack`; for the fixed type the properties are
    fixed-frame properties and the buffer holds at least the fixed length -/
theorem Frame.unpackHeader_primary (raw : Bytes) (ft : FrameType) (p : FrameProps) (h : PrimaryHeader)
    (hu : Frame.unpackHeader raw ft p = .ok (.primary h)) :
    PrimaryHeader.unpack raw = .ok h ∧ (ft = .fixed → p.kind = .fixed ∧ p.lenParam ≤ raw.length) := by
  by_cases h4 : 4 ≤ raw.length
  · rw [Frame.unpackHeader_eq raw ft p h4] at hu
    cases ft <;> cases hk : p.kind <;> by_cases hlen : raw.length < p.lenParam <;>
      by_cases ht : raw[3].toNat % 2 = 1 <;> simp [hk, hlen, ht] at hu <;>
      first
        | (exfalso; revert hu; cases TruncatedHeader.unpack raw <;> simp [Except.bind]; done)
        | (revert hu; cases hp : PrimaryHeader.unpack raw <;> simp [Except.bind] <;> intro hu <;>
            subst hu <;> simp <;> omega)
  · rw [Frame.unpackHeader_short raw ft p (by omega)] at hu; cases hu


/-! ## transfer frame: body stage -/

theorem tfdfLen_primary (ft : FrameType) (h : PrimaryHeader) (L : Nat) (p : FrameProps) :
    tfdfLen ft (.primary h) L p =
      if ft = .fixed ∧ (L : Int) < (h.frameLen : Int) + 1 - (h.len : Int) then .error (.uslp .invalidLen)
      else .ok ((h.frameLen : Int) + 1 - (h.len : Int) - optSizeI p.fecf - (if h.ocf then 4 else 0)
                - optSizeI p.insertZone) := by
  cases ft <;> by_cases hc : (L : Int) < (h.frameLen : Int) + 1 - (h.len : Int) <;>
    simp [tfdfLen, Header.len, Header.hasOcf, hc, bind, Except.bind, pure, Except.pure, throw, throwThe,
      MonadExceptOf.throw]
  all_goals (split <;> simp_all)

theorem tfdfLen_truncated (h : TruncatedHeader) (L : Nat) (p : FrameProps) (hk : p.kind = .variable) :
    tfdfLen .variable (.truncated h) L p =
      .ok ((p.lenParam : Int) - 4 - optSizeI p.fecf - optSizeI p.insertZone) := by
  simp [tfdfLen, Header.len, TruncatedHeader.len, Header.hasOcf, hk, bind, Except.bind, pure, Except.pure]

/-- Assembly of the decoded frame from the octet ranges: when the checks on the frame length pass,
    the derived data-field length is the length of `tb` and the data-field decoder accepts `tb`
    (followed by whatever comes after it), the decoder returns the header, that data field, and
    the insert zone / OCF / FECF taken from their places. -/
theorem Frame.unpackBody_assemble (hdr : Header) (hb izb tb ob fb rest : Bytes) (ft : FrameType)
    (p : FrameProps) (t : Tfdf)
    (hhl : hb.length = hdr.len)
    (hiz : optSize p.insertZone = izb.length)
    (hfe : optSize p.fecf = fb.length)
    (hob : ob.length = if hdr.hasOcf then 4 else 0)
    (hchk : frameLenCheck (hb ++ (izb ++ (tb ++ (ob ++ (fb ++ rest))))) ft p hdr = .ok ())
    (hlen : tfdfLen ft hdr (hb ++ (izb ++ (tb ++ (ob ++ (fb ++ rest))))).length p = .ok (tb.length : Int))
    (htb : 1 ≤ tb.length)
    (htf : Tfdf.unpack (tb ++ (ob ++ (fb ++ rest))) hdr.isTruncated tb.length (some ft) = .ok t) :
    Frame.unpackBody (hb ++ (izb ++ (tb ++ (ob ++ (fb ++ rest))))) ft p hdr =
      .ok ⟨hdr, t, p.insertZone.map (fun _ => izb), if hdr.hasOcf then some ob else none,
           p.fecf.map (fun _ => fb)⟩ := by
  unfold Frame.unpackBody
  rw [hchk, hlen]
  have hL : (hb ++ (izb ++ (tb ++ (ob ++ (fb ++ rest))))).length =
      hdr.len + izb.length + tb.length + ob.length + fb.length + rest.length := by
    simp [hhl]; omega
  have g1 : ¬ ((tb.length : Int) ≤ 0 ∨ (hdr.len : Int) + (tb.length : Int) >
      ((hb ++ (izb ++ (tb ++ (ob ++ (fb ++ rest))))).length : Int)) := by
    rw [hL]; omega
  have g2 : ¬ (p.insertZone.isSome = true ∧ hdr.len + optSize p.insertZone + tb.length >
      (hb ++ (izb ++ (tb ++ (ob ++ (fb ++ rest))))).length) := by
    rw [hL, hiz]; omega
  have hdrop : (hb ++ (izb ++ (tb ++ (ob ++ (fb ++ rest))))).drop (hdr.len + optSize p.insertZone) =
      tb ++ (ob ++ (fb ++ rest)) :=
    drop_of_decomp (a := hb ++ izb) (by simp) (by simp [hhl, hiz])
  have hizs : p.insertZone.map (fun s => slice (hb ++ (izb ++ (tb ++ (ob ++ (fb ++ rest))))) hdr.len (hdr.len + s)) =
      p.insertZone.map (fun _ => izb) := by
    cases hz : p.insertZone with
    | none => rfl
    | some s =>
      have : s = izb.length := by simpa [hz, optSize] using hiz
      subst this
      simp only [Option.map_some]
      congr 1
      exact slice_of_decomp (a := hb) (m := izb) (c := tb ++ (ob ++ (fb ++ rest))) (by simp) hhl.symm (by rw [hhl])
  have hocf : slice (hb ++ (izb ++ (tb ++ (ob ++ (fb ++ rest))))) (hdr.len + optSize p.insertZone + tb.length)
      (hdr.len + optSize p.insertZone + tb.length + ob.length) = ob :=
    slice_of_decomp (a := hb ++ izb ++ tb) (m := ob) (c := fb ++ rest) (by simp) (by simp [hhl, hiz] <;> omega) (by simp [hhl, hiz] <;> omega)
  have hfecf : p.fecf.map (fun s => slice (hb ++ (izb ++ (tb ++ (ob ++ (fb ++ rest)))))
      (hdr.len + optSize p.insertZone + tb.length + ob.length)
      (hdr.len + optSize p.insertZone + tb.length + ob.length + s)) = p.fecf.map (fun _ => fb) := by
    cases hz : p.fecf with
    | none => rfl
    | some s =>
      have : s = fb.length := by simpa [hz, optSize] using hfe
      subst this
      simp only [Option.map_some]
      congr 1
      exact slice_of_decomp (a := hb ++ izb ++ tb ++ ob) (m := fb) (c := rest) (by simp) (by simp [hhl, hiz] <;> omega)
        (by simp [hhl, hiz] <;> omega)
  simp only [bind, Except.bind, pure, Except.pure, g1, g2, ↓reduceIte, Int.toNat_natCast, hdrop, htf, hizs]
  cases ho : hdr.hasOcf with
  | false =>
    have : ob.length = 0 := by simpa [ho] using hob
    rw [this] at hfecf
    simp only [Nat.add_zero] at hfecf
    simp [hfecf]
  | true =>
    have : ob.length = 4 := by simpa [ho] using hob
    rw [this] at hfecf hocf
    simp [hfecf, hocf]


/-! ## sufficient conditions for the stages to succeed (used by the round-trip theorem) -/

theorem Frame.unpackHeader_primary_ok (raw : Bytes) (ft : FrameType) (p : FrameProps) (h : PrimaryHeader)
    (h4 : 4 ≤ raw.length) (h3 : raw[3].toNat % 2 = 0) (hu : PrimaryHeader.unpack raw = .ok h)
    (hfix : ft = .fixed → p.kind = .fixed ∧ p.lenParam ≤ raw.length) :
    Frame.unpackHeader raw ft p = .ok (.primary h) := by
  rw [Frame.unpackHeader_eq raw ft p h4, hu]
  have ht : ¬ raw[3].toNat % 2 = 1 := by omega
  cases ft
  · obtain ⟨mk, ml⟩ := hfix rfl
    have g : ¬ raw.length < p.lenParam := by omega
    simp [mk, g, ht, Except.bind]
  · simp [ht, Except.bind]

theorem Frame.unpackHeader_truncated_ok (raw : Bytes) (p : FrameProps) (h : TruncatedHeader)
    (h4 : 4 ≤ raw.length) (h3 : raw[3].toNat % 2 = 1) (hu : TruncatedHeader.unpack raw = .ok h)
    (hk : p.kind = .variable) (hl : p.lenParam ≤ raw.length) :
    Frame.unpackHeader raw .variable p = .ok (.truncated h) := by
  rw [Frame.unpackHeader_eq raw .variable p h4, hu]
  have g : ¬ raw.length < p.lenParam := by omega
  simp [hk, g, h3, Except.bind]

theorem frameLenCheck_primary_ok (raw : Bytes) (ft : FrameType) (p : FrameProps) (h : PrimaryHeader)
    (h1 : h.frameLen + 1 ≤ raw.length) (h2 : ft = .fixed → h.frameLen + 1 = p.lenParam) :
    frameLenCheck raw ft p (.primary h) = .ok () := by
  have g1 : ¬ raw.length < h.frameLen + 1 := by omega
  have g2 : ¬ (ft = .fixed ∧ h.frameLen + 1 ≠ p.lenParam) := fun ⟨a, b⟩ => b (h2 a)
  simp [frameLenCheck, g1, g2, bind, Except.bind, pure, Except.pure]

private theorem tfdfLen_arith (fl hl n a b c L : Nat) (hL : fl + 1 ≤ L) (hn : fl + 1 = hl + n + a + b + c) :
    ¬ ((L : Int) < (fl : Int) + 1 - (hl : Int)) ∧
    (fl : Int) + 1 - (hl : Int) - (a : Int) - (b : Int) - (c : Int) = (n : Int) := by
  omega

theorem tfdfLen_primary_ok (ft : FrameType) (h : PrimaryHeader) (L : Nat) (p : FrameProps) (n : Nat)
    (hL : h.frameLen + 1 ≤ L)
    (hn : h.frameLen + 1 = h.len + n + optSize p.fecf + (if h.ocf then 4 else 0) + optSize p.insertZone) :
    tfdfLen ft (.primary h) L p = .ok (n : Int) := by
  rw [tfdfLen_primary]
  have hc : (if h.ocf = true then (4 : Int) else 0) = (((if h.ocf then 4 else 0 : Nat)) : Int) := by
    split <;> rfl
  obtain ⟨g, e⟩ := tfdfLen_arith h.frameLen h.len n (optSize p.fecf) (if h.ocf then 4 else 0)
    (optSize p.insertZone) L hL hn
  have g' : ¬ (ft = .fixed ∧ (L : Int) < (h.frameLen : Int) + 1 - (h.len : Int)) := fun ⟨_, b⟩ => g b
  simp only [g', ↓reduceIte, optSizeI, hc]
  rw [e]


/-! ## inversion: what an accepted frame guarantees -/

theorem Frame.unpackHeader_truncated_unpack (raw : Bytes) (ft : FrameType) (p : FrameProps) (h : TruncatedHeader)
    (hu : Frame.unpackHeader raw ft p = .ok (.truncated h)) : TruncatedHeader.unpack raw = .ok h := by
  obtain ⟨hft, hk, hl, h4⟩ := Frame.unpackHeader_truncated raw ft p h hu
  subst hft
  rw [Frame.unpackHeader_eq _ _ _ h4] at hu
  have g : ¬ raw.length < p.lenParam := by omega
  by_cases ht : raw[3].toNat % 2 = 1
  · simp [hk, g, ht] at hu
    revert hu
    cases TruncatedHeader.unpack raw <;> simp [Except.bind]
  · simp [ht] at hu
    revert hu
    cases PrimaryHeader.unpack raw <;> simp [Except.bind]

theorem frameLenCheck_primary_inv (raw : Bytes) (ft : FrameType) (p : FrameProps) (h : PrimaryHeader)
    (hc : frameLenCheck raw ft p (.primary h) = .ok ()) :
    h.frameLen + 1 ≤ raw.length ∧ (ft = .fixed → h.frameLen + 1 = p.lenParam) := by
  by_cases g1 : raw.length < h.frameLen + 1
  · simp [frameLenCheck, g1, bind, Except.bind, throw, throwThe, MonadExceptOf.throw] at hc
  · by_cases g2 : ft = .fixed ∧ h.frameLen + 1 ≠ p.lenParam
    · simp [frameLenCheck, g1, g2, bind, Except.bind, throw, throwThe, MonadExceptOf.throw, pure, Except.pure] at hc
    · refine ⟨by omega, fun hf => ?_⟩
      by_cases he : h.frameLen + 1 = p.lenParam
      · exact he
      · exact absurd ⟨hf, he⟩ g2

/-- the frame-length checks fail only with `UslpInvalidRawPacketOrFrameLen` -/
theorem frameLenCheck_err (raw : Bytes) (ft : FrameType) (p : FrameProps) (hdr : Header) (e : UErr)
    (hc : frameLenCheck raw ft p hdr = .error e) : e = .uslp .invalidLen := by
  cases hdr with
  | truncated t => simp [frameLenCheck, pure, Except.pure] at hc
  | primary h =>
    by_cases g1 : raw.length < h.frameLen + 1
    · simp [frameLenCheck, g1, bind, Except.bind, throw, throwThe, MonadExceptOf.throw] at hc
      exact hc.symm
    · by_cases g2 : ft = .fixed ∧ h.frameLen + 1 ≠ p.lenParam
      · simp [frameLenCheck, g1, g2, bind, Except.bind, throw, throwThe, MonadExceptOf.throw, pure, Except.pure] at hc
        exact hc.symm
      · simp [frameLenCheck, g1, g2, bind, Except.bind, throw, throwThe, MonadExceptOf.throw, pure, Except.pure] at hc

/-- what the body stage guarantees when it accepts -/
theorem Frame.unpackBody_inv (raw : Bytes) (ft : FrameType) (p : FrameProps) (hdr : Header) (f : Frame)
    (hu : Frame.unpackBody raw ft p hdr = .ok f) :
    frameLenCheck raw ft p hdr = .ok () ∧
    ∃ e : Int, tfdfLen ft hdr raw.length p = .ok e ∧ 0 < e ∧ (hdr.len : Int) + e ≤ (raw.length : Int) ∧
      f.header = hdr ∧
      Tfdf.unpack (raw.drop (hdr.len + optSize p.insertZone)) hdr.isTruncated e.toNat (some ft) = .ok f.tfdf := by
  unfold Frame.unpackBody at hu
  cases hc : frameLenCheck raw ft p hdr with
  | error e => simp [hc, bind, Except.bind] at hu
  | ok u =>
    cases ht : tfdfLen ft hdr raw.length p with
    | error e => simp [hc, ht, bind, Except.bind] at hu
    | ok e =>
      simp only [hc, ht, bind, Except.bind] at hu
      by_cases g : e ≤ 0 ∨ (hdr.len : Int) + e > (raw.length : Int)
      · simp [g, throw, throwThe, MonadExceptOf.throw] at hu
      · simp only [g, ↓reduceIte, pure, Except.pure] at hu
        by_cases g2 : p.insertZone.isSome = true ∧ hdr.len + optSize p.insertZone + e.toNat > raw.length
        · simp [g2, throw, throwThe, MonadExceptOf.throw] at hu
        · simp only [g2, ↓reduceIte] at hu
          cases htf : Tfdf.unpack (raw.drop (hdr.len + optSize p.insertZone)) hdr.isTruncated e.toNat (some ft) with
          | error e' => simp [htf] at hu
          | ok t =>
            simp only [htf, Except.ok.injEq] at hu
            subst hu
            exact ⟨rfl, e, rfl, by omega, by omega, rfl, htf⟩

/-- the body stage fails only with `UslpInvalidRawPacketOrFrameLen` / `UslpInvalidConstructionRules`,
    provided the header came out of the header stage (no attribute access on the wrong class) -/
theorem Frame.unpackBody_err (raw : Bytes) (ft : FrameType) (p : FrameProps) (hdr : Header) (e : UErr)
    (hreach : ∀ t, hdr = .truncated t → ft = .variable ∧ p.kind = .variable)
    (hu : Frame.unpackBody raw ft p hdr = .error e) :
    e = .uslp .invalidLen ∨ e = .uslp .invalidConstructionRules := by
  unfold Frame.unpackBody at hu
  cases hc : frameLenCheck raw ft p hdr with
  | error e1 =>
    simp [hc, bind, Except.bind] at hu
    subst hu
    exact Or.inl (frameLenCheck_err raw ft p hdr _ hc)
  | ok u =>
    have hlen : (∃ e1, tfdfLen ft hdr raw.length p = .ok e1) ∨ tfdfLen ft hdr raw.length p = .error (.uslp .invalidLen) := by
      cases hdr with
      | primary h =>
        rw [tfdfLen_primary]
        split
        · exact Or.inr rfl
        · exact Or.inl ⟨_, rfl⟩
      | truncated t =>
        obtain ⟨rfl, hk⟩ := hreach t rfl
        rw [tfdfLen_truncated _ _ _ hk]
        exact Or.inl ⟨_, rfl⟩
    rcases hlen with ⟨e1, ht⟩ | ht
    · simp only [hc, ht, bind, Except.bind] at hu
      by_cases g : e1 ≤ 0 ∨ (hdr.len : Int) + e1 > (raw.length : Int)
      · simp [g, throw, throwThe, MonadExceptOf.throw] at hu
        exact Or.inl hu.symm
      · simp only [g, ↓reduceIte, pure, Except.pure] at hu
        by_cases g2 : p.insertZone.isSome = true ∧ hdr.len + optSize p.insertZone + e1.toNat > raw.length
        · simp [g2, throw, throwThe, MonadExceptOf.throw] at hu
          exact Or.inl hu.symm
        · simp only [g2, ↓reduceIte] at hu
          cases htf : Tfdf.unpack (raw.drop (hdr.len + optSize p.insertZone)) hdr.isTruncated e1.toNat (some ft) with
          | error e' =>
            simp [htf] at hu
            subst hu
            exact Tfdf.unpack_err _ _ _ _ _ htf
          | ok t => simp [htf] at hu
    · simp [hc, ht, bind, Except.bind] at hu
      exact Or.inl hu.symm


/-! ## error classes of the decoders (C10 for these units) -/

/-- only `Uslp*` classes -/
def UErr.isUslp : UErr → Bool
  | .uslp _ => true
  | .py _ => false

/-- `Uslp*` classes or `ValueError` -/
def UErr.isUslpOrValue : UErr → Bool
  | .uslp _ => true
  | .py .value => true
  | .py _ => false

theorem UErr.documented_of_isUslpOrValue (e : UErr) (h : e.isUslpOrValue = true) : e.toErr.documented = true := by
  cases e with
  | uslp k => rfl
  | py e => cases e <;> simp [UErr.isUslpOrValue] at h <;> rfl

theorem TruncatedHeader.unpack_err (raw : Bytes) (ver : Nat) (e : UErr)
    (h : TruncatedHeader.unpack raw ver = .error e) :
    e = .uslp .invalidLen ∨ e = .uslp .versionMismatch ∨ e = .uslp .typeMismatch := by
  by_cases h4 : 4 ≤ raw.length
  · rw [TruncatedHeader.unpack_eq raw ver h4] at h
    split at h
    · cases h; exact Or.inr (Or.inl rfl)
    · split at h
      · cases h; exact Or.inr (Or.inr rfl)
      · cases h
  · rw [TruncatedHeader.unpack_short raw ver (by omega)] at h; cases h; exact Or.inl rfl

theorem PrimaryHeader.unpack_err (raw : Bytes) (ver : Nat) (e : UErr)
    (h : PrimaryHeader.unpack raw ver = .error e) :
    e = .uslp .invalidLen ∨ e = .uslp .versionMismatch ∨ e = .uslp .typeMismatch := by
  by_cases h7 : 7 ≤ raw.length
  · rw [PrimaryHeader.unpack_eq raw ver h7] at h
    split at h
    · cases h; exact Or.inr (Or.inl rfl)
    · split at h
      · cases h; exact Or.inr (Or.inr rfl)
      · split at h
        · cases h; exact Or.inl rfl
        · cases h
  · rw [PrimaryHeader.unpack_short raw ver (by omega)] at h; cases h; exact Or.inl rfl

/-- an accepted regular header lies inside the buffer -/
theorem PrimaryHeader.unpack_len (raw : Bytes) (ver : Nat) (h : PrimaryHeader)
    (hu : PrimaryHeader.unpack raw ver = .ok h) : h.len ≤ raw.length ∧ h.vcfLen ≤ 7 := by
  by_cases h7 : 7 ≤ raw.length
  · rw [PrimaryHeader.unpack_eq raw ver h7] at hu
    split at hu
    · cases hu
    · split at hu
      · cases hu
      · split at hu
        · cases hu
        · cases hu
          simp only [hdrOf, PrimaryHeader.len]
          omega
  · rw [PrimaryHeader.unpack_short raw ver (by omega)] at hu; cases hu

/-- the header decoder reads only the declared header: trailing octets do not matter (C09) -/
theorem PrimaryHeader.unpack_append (raw rest : Bytes) (ver : Nat) (h : PrimaryHeader)
    (hu : PrimaryHeader.unpack raw ver = .ok h) : PrimaryHeader.unpack (raw ++ rest) ver = .ok h := by
  by_cases h7 : 7 ≤ raw.length
  · have h7' : 7 ≤ (raw ++ rest).length := by simp; omega
    rw [PrimaryHeader.unpack_eq raw ver h7] at hu
    rw [PrimaryHeader.unpack_eq _ ver h7']
    have e0 : (raw ++ rest)[0] = raw[0] := List.getElem_append_left (by omega)
    have e1 : (raw ++ rest)[1] = raw[1] := List.getElem_append_left (by omega)
    have e2 : (raw ++ rest)[2] = raw[2] := List.getElem_append_left (by omega)
    have e3 : (raw ++ rest)[3] = raw[3] := List.getElem_append_left (by omega)
    have e4 : (raw ++ rest)[4] = raw[4] := List.getElem_append_left (by omega)
    have e5 : (raw ++ rest)[5] = raw[5] := List.getElem_append_left (by omega)
    have e6 : (raw ++ rest)[6] = raw[6] := List.getElem_append_left (by omega)
    by_cases c1 : raw[0].toNat / 16 ≠ ver
    · simp [c1] at hu
    · by_cases c2 : raw[3].toNat % 2 = 1
      · simp [c1, c2] at hu
      · by_cases c3 : raw.length - 7 < raw[6].toNat % 8
        · simp [c1, c2, c3] at hu
        · have c3' : ¬ ((raw ++ rest).length - 7 < raw[6].toNat % 8) := by simp; omega
          simp only [c1, c2, c3, ↓reduceIte, Except.ok.injEq] at hu
          simp only [e0, e3, e6, c1, c2, c3', ↓reduceIte, Except.ok.injEq]
          rw [← hu]
          simp only [hdrOf, e0, e1, e2, e3, e4, e5, e6]
          rw [slice_append_long raw rest 7 _ (by omega)]
  · rw [PrimaryHeader.unpack_short raw ver (by omega)] at hu; cases hu

theorem TruncatedHeader.unpack_append (raw rest : Bytes) (ver : Nat) (h : TruncatedHeader)
    (hu : TruncatedHeader.unpack raw ver = .ok h) : TruncatedHeader.unpack (raw ++ rest) ver = .ok h := by
  by_cases h4 : 4 ≤ raw.length
  · have h4' : 4 ≤ (raw ++ rest).length := by simp; omega
    rw [TruncatedHeader.unpack_eq raw ver h4] at hu
    rw [TruncatedHeader.unpack_eq _ ver h4']
    have e0 : (raw ++ rest)[0] = raw[0] := List.getElem_append_left (by omega)
    have e1 : (raw ++ rest)[1] = raw[1] := List.getElem_append_left (by omega)
    have e2 : (raw ++ rest)[2] = raw[2] := List.getElem_append_left (by omega)
    have e3 : (raw ++ rest)[3] = raw[3] := List.getElem_append_left (by omega)
    simp only [e0, e1, e2, e3]
    exact hu
  · rw [TruncatedHeader.unpack_short raw ver (by omega)] at hu; cases hu

theorem Frame.unpackHeader_err (raw : Bytes) (ft : FrameType) (p : FrameProps) (e : UErr)
    (h : Frame.unpackHeader raw ft p = .error e) : e.isUslpOrValue = true := by
  by_cases h4 : 4 ≤ raw.length
  · rw [Frame.unpackHeader_eq raw ft p h4] at h
    repeat' split at h
    all_goals first
      | (cases h; rfl)
      | (revert h
         cases hp : TruncatedHeader.unpack raw with
         | ok v => simp [Except.bind]
         | error e' =>
           intro h
           simp [Except.bind] at h
           subst h
           rcases TruncatedHeader.unpack_err raw _ e' hp with rfl | rfl | rfl <;> rfl)
      | (revert h
         cases hp : PrimaryHeader.unpack raw with
         | ok v => simp [Except.bind]
         | error e' =>
           intro h
           simp [Except.bind] at h
           subst h
           rcases PrimaryHeader.unpack_err raw _ e' hp with rfl | rfl | rfl <;> rfl)
  · rw [Frame.unpackHeader_short raw ft p (by omega)] at h; cases h; rfl

/-- `TransferFrame.unpack` fails, for every buffer, frame type and managed-parameter object, only
    with one of the `Uslp*` classes or `ValueError` — never IndexError / struct.error /
    AttributeError -/
theorem Frame.unpack_err (raw : Bytes) (ft : FrameType) (p : FrameProps) (e : UErr)
    (h : Frame.unpack raw ft p = .error e) : e.isUslpOrValue = true := by
  unfold Frame.unpack at h
  cases hh : Frame.unpackHeader raw ft p with
  | error e' =>
    simp [hh, bind, Except.bind] at h
    subst h
    exact Frame.unpackHeader_err raw ft p _ hh
  | ok hdr =>
    simp only [hh, bind, Except.bind] at h
    have hreach : ∀ t, hdr = .truncated t → ft = .variable ∧ p.kind = .variable := by
      intro t ht
      subst ht
      have := Frame.unpackHeader_truncated raw ft p t hh
      exact ⟨this.1, this.2.1⟩
    rcases Frame.unpackBody_err raw ft p hdr e hreach h with rfl | rfl <;> rfl

theorem Frame.unpack_documented (raw : Bytes) (ft : FrameType) (p : FrameProps) :
    Documented (Frame.unpack raw ft p).toPy := by
  intro e h
  cases hu : Frame.unpack raw ft p with
  | ok f => simp [hu] at h
  | error e' =>
    simp [hu] at h
    subst h
    exact UErr.documented_of_isUslpOrValue _ (Frame.unpack_err raw ft p e' hu)

end SpVerif.Uslp
