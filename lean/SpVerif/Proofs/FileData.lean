import SpVerif.Model.FileData
import SpVerif.Proofs.CfdpHeader
/-!
# Characterisation lemmas for the File Data PDU model (reused by C04/C09/C10/C11/C12)

* `recalc_eq` (complete case analysis of `_calculate_pdu_data_field_len`), `recalc_dfl_irrel`
* `packMeta_eq`, `packBody_eq_of`, `pack_eq_of`
* `parseMeta_none` / `parseMeta_some`, `parseRest_eq`, `parseBody_none` / `parseBody_some`
  (complete case analysis of the body decoder in terms of the octets after the header)
* `unpack_header_error`, `unpack_of_header` (complete case analysis of `FileDataPdu.unpack`)
* `unpack_error`, `unpack_documented`, `parseBody_documented`
* `unpack_append` (the verdict and the result depend only on the declared PDU)
* `unpack_accept_crc` (acceptance implies CRC residue zero over exactly the declared PDU)
-/
namespace SpVerif.FileData
open SpVerif SpVerif.CfdpHeader

/-- length of the CRC trailer the header announces -/
def crcLen (h : PduHeader) : Nat := if h.conf.crcFlag = 1 then 2 else 0

theorem crcLen_le (h : PduHeader) : crcLen h ≤ 2 := by unfold crcLen; split <;> omega

theorem offWidth_eq (h : PduHeader) : offWidth h = if h.conf.fileFlag = 1 then 8 else 4 := by
  unfold offWidth PduHeader.largeFileFlagSet
  by_cases hf : h.conf.fileFlag = 1 <;> simp [hf]

theorem offWidth_cases (h : PduHeader) : offWidth h = 4 ∨ offWidth h = 8 := by
  rw [offWidth_eq]; split <;> simp

theorem offWidth_pos (h : PduHeader) : 4 ≤ offWidth h ∧ offWidth h ≤ 8 := by
  rcases offWidth_cases h with h' | h' <;> omega

theorem calcLen_eq (p : Pdu) :
    p.calcLen = metaLen p.params.segMeta + offWidth p.header + p.params.fileData.length + crcLen p.header := rfl

/-! ## `_calculate_pdu_data_field_len` -/

/-- **complete case analysis** -/
theorem recalc_eq (p : Pdu) :
    p.recalc = if 65535 < p.calcLen then .error .value
      else .ok { p with header := { p.header with dataFieldLen := p.calcLen } } := by
  unfold Pdu.recalc
  rw [setDataFieldLen_eq]
  split <;> rfl

theorem recalc_ok {p : Pdu} (h : p.calcLen ≤ 65535) :
    p.recalc = .ok { p with header := { p.header with dataFieldLen := p.calcLen } } := by
  rw [recalc_eq, if_neg (by omega)]

theorem recalc_refuse {p : Pdu} (h : 65535 < p.calcLen) : p.recalc = .error .value := by
  rw [recalc_eq, if_pos h]

/-- the previous cached length plays no role -/
theorem recalc_dfl_irrel (h : PduHeader) (ps : Params) (n : Nat) :
    Pdu.recalc ⟨{ h with dataFieldLen := n }, ps⟩ = Pdu.recalc ⟨h, ps⟩ := by
  rw [recalc_eq, recalc_eq]
  rfl

theorem recalc_error (p : Pdu) (e : Err) (h : p.recalc = .error e) : e = .value := by
  rw [recalc_eq] at h
  split at h
  · cases h; rfl
  · cases h

/-! ## pack -/

theorem packMeta_none : packMeta none = .ok [] := rfl

/-- **complete case analysis of the metadata part of `pack`** -/
theorem packMeta_some (m : SegMeta) :
    packMeta (some m) =
      if 63 < m.metadata.length then .error .value
      else if m.state * 64 + m.metadata.length < 256 then
        .ok (u8 (m.state * 64 + m.metadata.length) :: m.metadata)
      else .error .value := by
  unfold packMeta byteOfN
  by_cases h1 : 63 < m.metadata.length
  · have : m.metadata.length > 63 := h1
    simp [this, throw, throwThe, MonadExceptOf.throw, bind, Except.bind]
  · have : ¬ m.metadata.length > 63 := h1
    by_cases h2 : m.state * 64 + m.metadata.length < 256
    · simp [this, h2, bind, Except.bind, pure, Except.pure]
    · simp [this, h2, bind, Except.bind]

theorem packMeta_error (m : Option SegMeta) (e : Err) (h : packMeta m = .error e) : e = .value := by
  cases m with
  | none => cases h
  | some m =>
    rw [packMeta_some] at h
    split at h
    · cases h; rfl
    · split at h
      · cases h
      · cases h; rfl

/-- pack from its three parts -/
theorem packBody_eq_of {p : Pdu} {hdr md : Bytes} (h1 : p.header.pack = .ok hdr)
    (h2 : packMeta p.params.segMeta = .ok md) (h3 : p.params.offset < 256 ^ offWidth p.header) :
    p.packBody = .ok (hdr ++ md ++ beBytes (offWidth p.header) p.params.offset ++ p.params.fileData) := by
  unfold Pdu.packBody
  simp only [h1, h2, packBE_ok h3, bind, Except.bind, pure, Except.pure]

theorem pack_eq_of {p : Pdu} {body : Bytes} (h : p.packBody = .ok body) :
    p.pack = .ok (if p.header.conf.crcFlag = 1 then body ++ Crc.crcTrailer body else body) := by
  unfold Pdu.pack
  simp only [h, bind, Except.bind, pure, Except.pure]
  split <;> rfl

theorem byteOfN_error {v : Nat} {e : Err} (h : byteOfN v = .error e) : e = .value := by
  unfold byteOfN at h
  split at h
  · cases h
  · cases h; rfl

/-- the header's `pack` fails only with `ValueError` -/
theorem header_pack_error (h : PduHeader) (e : Err) (he : h.pack = .error e) : e = .value := by
  unfold PduHeader.pack at he
  cases h0 : byteOfN (32 + h.pduType * 16 + h.conf.direction * 8 + h.conf.transMode * 4
                      + h.conf.crcFlag * 2 + h.conf.fileFlag) with
  | error e0 =>
    simp only [h0, bind, Except.bind] at he
    cases he; exact byteOfN_error h0
  | ok b0 =>
    simp only [h0, bind, Except.bind] at he
    by_cases hw : h.conf.source.width = 0 ∨ h.conf.seqNum.width = 0
    · simp only [hw, ↓reduceIte, throw, throwThe, MonadExceptOf.throw] at he
      cases he; rfl
    · simp only [hw, ↓reduceIte, pure, Except.pure] at he
      cases h3 : byteOfN (h.conf.segCtrl * 128 + (h.conf.source.width - 1) * 16 + h.segMeta * 8
                      + (h.conf.seqNum.width - 1)) with
      | error e3 =>
        simp only [h3] at he
        cases he; exact byteOfN_error h3
      | ok b3 => simp only [h3] at he; cases he

/-! ## the body decoder -/

theorem enumOf_rcs {v : Nat} (h : v < 4) : enumOf recordContStates v = .ok v := by
  have : v = 0 ∨ v = 1 ∨ v = 2 ∨ v = 3 := by omega
  rcases this with h | h | h | h <;> simp [enumOf, recordContStates, h]

theorem parseMeta_none {h : PduHeader} (data : Bytes) (hm : h.segMeta = 0) :
    parseMeta h data = .ok (⟨h, Params.empty⟩, h.headerLen) := by
  simp [parseMeta, hm, pure, Except.pure]

private theorem drop_cons_facts {data : Bytes} {k : Nat} {b : UInt8} {t : Bytes}
    (hd : data.drop k = b :: t) : data.length = k + 1 + t.length := by
  have := congrArg List.length hd
  simp only [List.length_drop, List.length_cons] at this
  omega

/-- the object the metadata part of the decoder produces: header flag set, provisional length -/
def metaPdu (h : PduHeader) (st : Nat) (md : Bytes) : Pdu :=
  ⟨{ h with segMeta := 1, dataFieldLen := 1 + md.length + offWidth h + crcLen h }, ⟨[], 0, some ⟨st, md⟩⟩⟩

theorem parseMeta_some {h : PduHeader} (data : Bytes) (hm : h.segMeta ≠ 0) :
    parseMeta h data =
      match data.drop h.headerLen with
      | [] => .error .value
      | b :: t =>
        if t.length ≤ b.toNat % 64 then .error .value
        else .ok (metaPdu h (b.toNat / 64 % 4) (t.take (b.toNat % 64)), h.headerLen + 1 + b.toNat % 64) := by
  unfold parseMeta
  simp only [hm, ne_eq, not_false_eq_true, ↓reduceIte]
  cases hd : data.drop h.headerLen with
  | nil =>
    have hl : h.headerLen ≥ data.length := by
      have := List.drop_eq_nil_iff.mp hd; omega
    simp [hl, throw, throwThe, MonadExceptOf.throw, bind, Except.bind]
  | cons b t =>
    have hlen := drop_cons_facts hd
    have g1 : ¬ h.headerLen ≥ data.length := by omega
    have i0 : idx data h.headerLen = .ok b.toNat := by
      have := idx_drop data h.headerLen 0
      rw [hd] at this
      simpa [idx] using this.symm
    have hst : b.toNat / 64 % 4 < 4 := Nat.mod_lt _ (by omega)
    simp only [g1, ↓reduceIte, i0, enumOf_rcs hst, bind, Except.bind]
    by_cases g2 : t.length ≤ b.toNat % 64
    · have : h.headerLen + 1 + b.toNat % 64 ≥ data.length := by omega
      simp [g2, this, throw, throwThe, MonadExceptOf.throw]
    · have g2' : ¬ h.headerLen + 1 + b.toNat % 64 ≥ data.length := by omega
      have hs : slice data (h.headerLen + 1) (h.headerLen + 1 + b.toNat % 64) = t.take (b.toNat % 64) := by
        have := slice_drop data h.headerLen 1 (1 + b.toNat % 64)
        rw [hd] at this
        rw [show h.headerLen + 1 + b.toNat % 64 = h.headerLen + (1 + b.toNat % 64) by omega, ← this]
        simp [slice, Nat.add_comm 1]
      have hml : b.toNat % 64 < 64 := Nat.mod_lt _ (by omega)
      have htl : (t.take (b.toNat % 64)).length = b.toNat % 64 := by simp; omega
      simp only [g2, g2', ↓reduceIte, hs, pure, Except.pure]
      unfold Pdu.setSegMeta
      have hw := offWidth_pos h
      have hc := crcLen_le h
      have hcl : (Pdu.putSegMeta ⟨h, Params.empty⟩ (some ⟨b.toNat / 64 % 4, t.take (b.toNat % 64)⟩)).calcLen
          = 1 + (t.take (b.toNat % 64)).length + offWidth h + crcLen h := by
        simp [Pdu.calcLen, Pdu.putSegMeta, metaLen, Params.empty, offWidth, PduHeader.largeFileFlagSet, crcLen]
      rw [recalc_ok (by rw [hcl, htl]; omega), hcl]
      rfl

/-- **complete case analysis of the offset / file-data part**, in terms of the octets from index `i` on -/
theorem parseRest_eq (p : Pdu) (i : Nat) (data : Bytes) :
    parseRest p i data =
      if (data.drop i).length < offWidth p.header then .error .value
      else Pdu.recalc ⟨p.header, { p.params with
              offset := beNat ((data.drop i).take (offWidth p.header)),
              fileData := (data.drop i).drop (offWidth p.header) }⟩ := by
  unfold parseRest
  by_cases g : (data.drop i).length < offWidth p.header
  · have hg : (data.drop i).length = data.length - i := List.length_drop
    have : i + offWidth p.header > data.length := by rw [hg] at g; omega
    rw [if_pos g]
    simp only [this, ↓reduceIte, throw, throwThe, MonadExceptOf.throw, bind, Except.bind]
  · have hg : (data.drop i).length = data.length - i := List.length_drop
    have hw := offWidth_pos p.header
    have g' : ¬ i + offWidth p.header > data.length := by rw [hg] at g; omega
    have hs : slice data i (i + offWidth p.header) = (data.drop i).take (offWidth p.header) := by
      simp [slice, List.drop_take]
    have hl : ((data.drop i).take (offWidth p.header)).length = offWidth p.header := by
      rw [List.length_take, hg]; rw [hg] at g; omega
    rw [if_neg g]
    simp only [g', ↓reduceIte, hs, unpackBE_ok hl, bind, Except.bind, sliceFrom, Pdu.setFileData,
      Pdu.putFileData, List.drop_drop]

theorem parseRest_error (p : Pdu) (i : Nat) (data : Bytes) (e : Err) (h : parseRest p i data = .error e) :
    e = .value := by
  rw [parseRest_eq] at h
  split at h
  · cases h; rfl
  · exact recalc_error _ _ h

/-- **body decoder without segment metadata**: `t` = the octets after the header -/
theorem parseBody_none {h : PduHeader} (data : Bytes) (hm : h.segMeta = 0) :
    parseBody h data =
      if (data.drop h.headerLen).length < offWidth h then .error .value
      else Pdu.recalc ⟨h, ⟨(data.drop h.headerLen).drop (offWidth h),
              beNat ((data.drop h.headerLen).take (offWidth h)), none⟩⟩ := by
  unfold parseBody
  rw [parseMeta_none data hm]
  simp only [bind, Except.bind]
  rw [parseRest_eq]
  rfl

/-- **body decoder with segment metadata**: first octet `b` = `state << 6 | len`, then `len` octets
    of metadata, then offset and file data -/
theorem parseBody_some {h : PduHeader} (data : Bytes) (hm : h.segMeta ≠ 0) :
    parseBody h data =
      match data.drop h.headerLen with
      | [] => .error .value
      | b :: t =>
        if t.length ≤ b.toNat % 64 then .error .value
        else if (t.drop (b.toNat % 64)).length < offWidth h then .error .value
        else Pdu.recalc ⟨{ h with segMeta := 1 },
              ⟨(t.drop (b.toNat % 64)).drop (offWidth h), beNat ((t.drop (b.toNat % 64)).take (offWidth h)),
               some ⟨b.toNat / 64 % 4, t.take (b.toNat % 64)⟩⟩⟩ := by
  unfold parseBody
  rw [parseMeta_some data hm]
  cases hd : data.drop h.headerLen with
  | nil => rfl
  | cons b t =>
    simp only
    by_cases g : t.length ≤ b.toNat % 64
    · simp [g, bind, Except.bind]
    · simp only [g, ↓reduceIte, bind, Except.bind]
      rw [parseRest_eq]
      have hdrop : data.drop (h.headerLen + 1 + b.toNat % 64) = t.drop (b.toNat % 64) := by
        rw [show h.headerLen + 1 + b.toNat % 64 = h.headerLen + (1 + b.toNat % 64) by omega, ← List.drop_drop, hd]
        simp [Nat.add_comm 1]
      rw [hdrop]
      have hw : offWidth (metaPdu h (b.toNat / 64 % 4) (t.take (b.toNat % 64))).header = offWidth h := rfl
      rw [hw]
      split
      · rfl
      · exact recalc_dfl_irrel { h with segMeta := 1 } _ _

theorem parseBody_error (h : PduHeader) (data : Bytes) (e : Err) (he : parseBody h data = .error e) :
    e = .value := by
  by_cases hm : h.segMeta = 0
  · rw [parseBody_none data hm] at he
    split at he
    · cases he; rfl
    · exact recalc_error _ _ he
  · rw [parseBody_some data hm] at he
    split at he
    · cases he; rfl
    · split at he
      · cases he; rfl
      · split at he
        · cases he; rfl
        · exact recalc_error _ _ he

theorem parseBody_documented (h : PduHeader) (data : Bytes) : Documented (parseBody h data) := by
  intro e he
  rw [parseBody_error h data e he]; rfl

/-! ## `FileDataPdu.unpack` -/

theorem endOfData_eq (h : PduHeader) (n : Nat) : endOfData h n = n - crcLen h := by
  unfold endOfData crcLen; split <;> rfl

theorem unpack_header_error {d : Bytes} {e : Err} (hu : PduHeader.unpack d = .error e) :
    Pdu.unpack d = .error e := by
  simp [Pdu.unpack, hu, bind, Except.bind]

/-- **complete case analysis of `FileDataPdu.unpack`** once the header decodes -/
theorem unpack_of_header {d : Bytes} {h : PduHeader} (hu : PduHeader.unpack d = .ok h) :
    Pdu.unpack d =
      if d.length < h.packetLen then .error .value
      else if h.conf.crcFlag = 1 ∧ Crc.crc16 (d.take h.packetLen) ≠ 0 then .error .crc
      else parseBody h (d.take (h.packetLen - crcLen h)) := by
  unfold Pdu.unpack
  simp only [hu, bind, Except.bind]
  rw [verify_eq]
  by_cases g1 : d.length < h.packetLen
  · rw [if_pos g1, if_pos g1]
  · by_cases g2 : h.conf.crcFlag = 1 ∧ Crc.crc16 (d.take h.packetLen) ≠ 0
    · rw [if_neg g1, if_pos g2, if_neg g1, if_pos g2]
    · rw [if_neg g1, if_neg g2, if_neg g1, if_neg g2]
      simp only [endOfData_eq, slice, List.drop_zero]

/-- the only errors: `ValueError` (too short at some stage), `UnsupportedCfdpVersion`, `InvalidCrc` -/
theorem unpack_error (d : Bytes) (e : Err) (he : Pdu.unpack d = .error e) :
    e = .value ∨ e = .cfdpVersion ∨ e = .crc := by
  cases hu : PduHeader.unpack d with
  | error e' =>
    rw [unpack_header_error hu] at he
    cases he
    rcases CfdpHeader.unpack_error d _ hu with h | h
    · exact Or.inl h
    · exact Or.inr (Or.inl h)
  | ok h =>
    rw [unpack_of_header hu] at he
    split at he
    · cases he; exact Or.inl rfl
    · split at he
      · cases he; exact Or.inr (Or.inr rfl)
      · exact Or.inl (parseBody_error _ _ _ he)

theorem unpack_documented (d : Bytes) : Documented (Pdu.unpack d) := by
  intro e he
  rcases unpack_error d e he with rfl | rfl | rfl <;> rfl

/-- the header decoder reads nothing beyond the header -/
theorem header_unpack_append {d : Bytes} {h : PduHeader} (rest : Bytes)
    (hp : PduHeader.unpack (d.take h.headerLen ++ (d.drop h.headerLen ++ rest)) = .ok h) :
    PduHeader.unpack (d ++ rest) = .ok h := by
  have : d ++ rest = d.take h.headerLen ++ (d.drop h.headerLen ++ rest) := by
    rw [← List.append_assoc, List.take_append_drop]
  rw [this]; exact hp

/-- **the verdict and the result depend only on the declared PDU** (given that the header decoder
    has the prefix property, which C05 proves): octets after the declared PDU are never read -/
theorem unpack_append {d : Bytes} {h : PduHeader} (hu : PduHeader.unpack d = .ok h)
    (hl : h.packetLen ≤ d.length) (rest : Bytes) (hu' : PduHeader.unpack (d ++ rest) = .ok h) :
    Pdu.unpack (d ++ rest) = Pdu.unpack d := by
  rw [unpack_of_header hu, unpack_of_header hu']
  have g1 : ¬ (d ++ rest).length < h.packetLen := by simp; omega
  have g2 : ¬ d.length < h.packetLen := by omega
  have t1 : (d ++ rest).take h.packetLen = d.take h.packetLen := List.take_append_of_le_length hl
  have t2 : (d ++ rest).take (h.packetLen - crcLen h) = d.take (h.packetLen - crcLen h) :=
    List.take_append_of_le_length (by omega)
  simp only [g1, g2, ↓reduceIte, t1, t2]

/-- acceptance implies: the declared PDU lies inside the buffer and, with the CRC flag, the CRC-16
    over exactly the declared PDU is zero (C04) -/
theorem unpack_accept_crc {d : Bytes} {x : Pdu} (hx : Pdu.unpack d = .ok x) :
    ∃ h, PduHeader.unpack d = .ok h ∧ h.packetLen ≤ d.length ∧
      (h.conf.crcFlag = 1 → Crc.crc16 (d.take h.packetLen) = 0) ∧
      parseBody h (d.take (h.packetLen - crcLen h)) = .ok x := by
  cases hu : PduHeader.unpack d with
  | error e => rw [unpack_header_error hu] at hx; cases hx
  | ok h =>
    rw [unpack_of_header hu] at hx
    split at hx
    · cases hx
    · split at hx
      · cases hx
      · rename_i g1 g2
        refine ⟨h, rfl, by omega, ?_, hx⟩
        intro hc
        by_cases hz : Crc.crc16 (d.take h.packetLen) = 0
        · exact hz
        · exact absurd ⟨hc, hz⟩ g2

end SpVerif.FileData
