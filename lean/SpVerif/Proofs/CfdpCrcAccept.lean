import SpVerif.Model.CfdpFront
import SpVerif.Proofs.CfdpHeader
import SpVerif.Proofs.CrcBurstBytes
/-!
# What acceptance by the CFDP front (header + `verify_length_and_checksum`) says about the CRC

`cfdpDeclaredLen d`, `cfdpCrcFlag d` — PDU length and CRC flag as functions of octets 0–3 only.
-/
namespace SpVerif.CfdpCrc
open SpVerif SpVerif.CfdpHeader SpVerif.CfdpFront

def oct (d : Bytes) (i : Nat) : Nat := (d[i]?.getD 0).toNat

/-- header length declared by the width codes in octet 3 -/
def cfdpHeaderLen (d : Bytes) : Nat := 4 + 2 * (oct d 3 / 16 % 8 + 1) + (oct d 3 % 8 + 1)
/-- total PDU length: data-field length (octets 1–2) + header length -/
def cfdpDeclaredLen (d : Bytes) : Nat := oct d 1 * 256 + oct d 2 + cfdpHeaderLen d
/-- the CRC flag (bit 1 of octet 0) -/
def cfdpCrcFlag (d : Bytes) : Nat := oct d 0 / 2 % 2

/-- window `[k, k + len)` does not meet octets 0–3 -/
def AvoidsFixedHeader (k : Nat) : Prop := 32 ≤ k

instance (k : Nat) : Decidable (AvoidsFixedHeader k) := by unfold AvoidsFixedHeader; infer_instance

theorem fixed_congr {d d' : Bytes} (h : ∀ i, i < 4 → d'[i]? = d[i]?) :
    cfdpHeaderLen d' = cfdpHeaderLen d ∧ cfdpDeclaredLen d' = cfdpDeclaredLen d ∧ cfdpCrcFlag d' = cfdpCrcFlag d := by
  simp only [cfdpHeaderLen, cfdpDeclaredLen, cfdpCrcFlag, oct, h 0 (by omega), h 1 (by omega), h 2 (by omega),
    h 3 (by omega), and_self]

/-- the header decoder reads length, CRC flag and header length off octets 0–3 -/
theorem unpack_fixed {d : Bytes} {h : PduHeader} (hu : PduHeader.unpack d = .ok h) :
    h.packetLen = cfdpDeclaredLen d ∧ h.conf.crcFlag = cfdpCrcFlag d ∧ h.headerLen = cfdpHeaderLen d ∧
    h.headerLen ≤ d.length := by
  by_cases h4 : d.length < 4
  · rw [unpack_short d h4] at hu; cases hu
  · obtain ⟨x0, x1, x2, x3, r, rfl⟩ := exists_cons4 d (by omega)
    rw [unpack_cons4] at hu
    split at hu
    · cases hu
    · split at hu
      · cases hu
      · split at hu
        · cases hu
        · split at hu
          · cases hu
          · rename_i hr
            have := Except.ok.inj hu
            subst this
            simp only [decoded, PduHeader.packetLen, PduHeader.headerLen, cfdpDeclaredLen, cfdpHeaderLen, cfdpCrcFlag,
              oct, List.getElem?_cons_zero, List.getElem?_cons_succ, Option.getD_some, List.length_cons]
            have hl4 : (x0 :: x1 :: x2 :: x3 :: r).length = r.length + 4 := by simp
            refine ⟨?_, ?_, ?_, ?_⟩ <;> first | trivial | omega

/-- whether the header decoder accepts depends on octets 0–3 and the buffer length only -/
theorem unpack_ok_of_fixed {d d' : Bytes} {h : PduHeader} (hu : PduHeader.unpack d = .ok h)
    (hl : d'.length = d.length) (hf : ∀ i, i < 4 → d'[i]? = d[i]?) : ∃ h', PduHeader.unpack d' = .ok h' := by
  by_cases h4 : d.length < 4
  · rw [unpack_short d h4] at hu; cases hu
  · obtain ⟨x0, x1, x2, x3, r, rfl⟩ := exists_cons4 d (by omega)
    obtain ⟨y0, y1, y2, y3, r', rfl⟩ := exists_cons4 d' (by simp at hl ⊢; omega)
    have e0 := hf 0 (by omega)
    have e1 := hf 1 (by omega)
    have e2 := hf 2 (by omega)
    have e3 := hf 3 (by omega)
    simp only [List.getElem?_cons_zero, List.getElem?_cons_succ, Option.some.injEq] at e0 e1 e2 e3
    subst e0 e1 e2 e3
    have hr : r'.length = r.length := by simpa using hl
    rw [unpack_cons4] at hu ⊢
    rw [hr]
    split at hu
    · cases hu
    · split at hu
      · cases hu
      · split at hu
        · cases hu
        · split at hu
          · cases hu
          · rename_i g1 g2 g3 g4
            simp only [g1, g2, g3, g4, ↓reduceIte]
            exact ⟨_, rfl⟩

/-- **acceptance implies CRC** for `verify_length_and_checksum` with the CRC flag set -/
theorem verify_accept_crc {h : PduHeader} {d : Bytes} {n : Nat} (hv : h.verifyLengthAndChecksum d = .ok n)
    (hc : h.conf.crcFlag = 1) : n = h.packetLen ∧ h.packetLen ≤ d.length ∧ Crc.crc16 (d.take h.packetLen) = 0 := by
  obtain ⟨h1, h2, h3⟩ := (verify_ok_iff h d n).mp hv
  exact ⟨h1, h2, h3 hc⟩

/-- the front accepts exactly when header decode and verification accept -/
theorem pduFront_ok_iff (d : Bytes) (h : PduHeader) :
    pduFront d = .ok h ↔ PduHeader.unpack d = .ok h ∧ ∃ n, h.verifyLengthAndChecksum d = .ok n := by
  unfold pduFront
  cases hu : PduHeader.unpack d with
  | error e => simp [bind, Except.bind]
  | ok h0 =>
    cases hv : h0.verifyLengthAndChecksum d with
    | error e =>
      simp only [bind, Except.bind, hv, Except.ok.injEq]
      constructor
      · intro h'; cases h'
      · rintro ⟨rfl, n, hn⟩; rw [hv] at hn; cases hn
    | ok n =>
      simp only [bind, Except.bind, hv, pure, Except.pure, Except.ok.injEq]
      constructor
      · rintro rfl; exact ⟨rfl, n, hv⟩
      · rintro ⟨rfl, _⟩; rfl

/-- **front: acceptance of a CRC-flagged PDU implies residue zero over exactly the declared PDU** -/
theorem front_accept_crc {d : Bytes} {h : PduHeader} (ha : pduFront d = .ok h) (hc : cfdpCrcFlag d = 1) :
    h.packetLen = cfdpDeclaredLen d ∧ cfdpDeclaredLen d ≤ d.length ∧ Crc.crc16 (d.take (cfdpDeclaredLen d)) = 0 := by
  obtain ⟨hu, n, hv⟩ := (pduFront_ok_iff d h).mp ha
  obtain ⟨e1, e2, _, _⟩ := unpack_fixed hu
  obtain ⟨_, h2, h3⟩ := verify_accept_crc hv (by rw [e2]; exact hc)
  rw [e1] at h2 h3
  exact ⟨e1, h2, h3⟩

/-- a burst that avoids octets 0–3 leaves them unchanged -/
theorem burst_fixed {d d' : Bytes} {k : Nat} {B : List Bool} (hb : Crc.Burst d d' k B) (hav : AvoidsFixedHeader k) :
    ∀ i, i < 4 → d'[i]? = d[i]? := by
  intro i hi
  exact hb.getElem?_eq i (Or.inl (by unfold AvoidsFixedHeader at hav; omega))

/-- **burst on an accepted CRC-flagged PDU**: the header still decodes (to a header with the same
    declared length, header length and CRC flag), and `verify_length_and_checksum` raises `InvalidCrc`. -/
theorem burst_verify_crc {d d' : Bytes} {h : PduHeader} {k : Nat} {B : List Bool}
    (ha : pduFront d = .ok h) (hc : cfdpCrcFlag d = 1) (hb : Crc.Burst d d' k B)
    (hB : B.length ≤ 16) (hne : B ≠ List.replicate B.length false)
    (hin : k + B.length ≤ 8 * cfdpDeclaredLen d) (hav : AvoidsFixedHeader k) :
    ∃ h', PduHeader.unpack d' = .ok h' ∧ h'.packetLen = h.packetLen ∧ h'.headerLen = h.headerLen ∧
      h'.conf.crcFlag = 1 ∧ h'.verifyLengthAndChecksum d' = .error .crc ∧
      Crc.crc16 (d'.take (cfdpDeclaredLen d')) ≠ 0 := by
  obtain ⟨hu, _, _⟩ := (pduFront_ok_iff d h).mp ha
  obtain ⟨e1, hle, hz⟩ := front_accept_crc ha hc
  have hf := burst_fixed hb hav
  obtain ⟨f1, f2, f3⟩ := fixed_congr hf
  obtain ⟨h', hu'⟩ := unpack_ok_of_fixed hu hb.length_eq hf
  obtain ⟨g1, g2, g3, _⟩ := unpack_fixed hu'
  obtain ⟨_, _, k3, _⟩ := unpack_fixed hu
  have hne0 : Crc.crc16 (d'.take (cfdpDeclaredLen d)) ≠ 0 := hb.crc_take_ne_zero _ hle hin hz hB hne
  refine ⟨h', hu', by rw [g1, f2, e1], by rw [g3, f1, k3], by rw [g2, f3, hc], ?_, by rw [f2]; exact hne0⟩
  rw [verify_eq]
  have hlen : ¬ d'.length < h'.packetLen := by rw [g1, f2, hb.length_eq]; omega
  have hcc : h'.conf.crcFlag = 1 ∧ Crc.crc16 (d'.take h'.packetLen) ≠ 0 := by
    refine ⟨by rw [g2, f3, hc], ?_⟩
    rw [g1, f2]; exact hne0
  rw [if_neg hlen, if_pos hcc]

/-- every decoder built on the front fails with `InvalidCrc` when the front does -/
theorem front_bind_error {α : Type} {d : Bytes} {e : Err} (he : pduFront d = .error e) (body : PduHeader → Py α) :
    (pduFront d >>= body) = .error e := by
  rw [he]; rfl

/-- the file-directive front accepts only what the plain front accepts, with room for the directive code -/
theorem directiveFront_ok {d : Bytes} {h : PduHeader} {c : Nat} (ha : directiveFront d = .ok (h, c)) :
    pduFront d = .ok h ∧ h.headerLen + 1 ≤ d.length := by
  unfold directiveFront at ha
  cases hu : PduHeader.unpack d with
  | error e => simp [hu, bind, Except.bind] at ha
  | ok h0 =>
    simp only [hu, bind, Except.bind] at ha
    by_cases g : h0.headerLen + 1 > d.length
    · simp [g, throw, throwThe, MonadExceptOf.throw] at ha
    · simp only [g, ↓reduceIte, idx_ok (show h0.headerLen < d.length by omega)] at ha
      cases hv : h0.verifyLengthAndChecksum d with
      | error e => simp [hv] at ha
      | ok n =>
        simp only [hv, pure, Except.pure, Except.ok.injEq, Prod.mk.injEq] at ha
        obtain ⟨rfl, _⟩ := ha
        exact ⟨(pduFront_ok_iff d h0).mpr ⟨hu, n, hv⟩, by omega⟩

/-- the front on a burst-corrupted accepted PDU: `InvalidCrc` -/
theorem burst_front_crc {d d' : Bytes} {h : PduHeader} {k : Nat} {B : List Bool}
    (ha : pduFront d = .ok h) (hc : cfdpCrcFlag d = 1) (hb : Crc.Burst d d' k B)
    (hB : B.length ≤ 16) (hne : B ≠ List.replicate B.length false)
    (hin : k + B.length ≤ 8 * cfdpDeclaredLen d) (hav : AvoidsFixedHeader k) : pduFront d' = .error .crc := by
  obtain ⟨h', hu', _, _, _, hv', _⟩ := burst_verify_crc ha hc hb hB hne hin hav
  simp [pduFront, hu', hv', bind, Except.bind]

theorem burst_directiveFront_crc {d d' : Bytes} {h : PduHeader} {c k : Nat} {B : List Bool}
    (ha : directiveFront d = .ok (h, c)) (hc : cfdpCrcFlag d = 1) (hb : Crc.Burst d d' k B)
    (hB : B.length ≤ 16) (hne : B ≠ List.replicate B.length false)
    (hin : k + B.length ≤ 8 * cfdpDeclaredLen d) (hav : AvoidsFixedHeader k) : directiveFront d' = .error .crc := by
  obtain ⟨hf, hroom⟩ := directiveFront_ok ha
  obtain ⟨h', hu', _, hh, _, hv', _⟩ := burst_verify_crc hf hc hb hB hne hin hav
  have g : ¬ h'.headerLen + 1 > d'.length := by rw [hh, hb.length_eq]; omega
  simp only [directiveFront, hu', bind, Except.bind, g, ↓reduceIte,
    idx_ok (show h'.headerLen < d'.length by omega), hv']

end SpVerif.CfdpCrc
