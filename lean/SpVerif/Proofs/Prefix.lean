import SpVerif.Model.Prefix
import SpVerif.Props.C01
import SpVerif.Props.C02
import SpVerif.Props.C03
import SpVerif.Props.C05
import SpVerif.Props.C08
import SpVerif.Props.C14
import SpVerif.Props.C15
import SpVerif.Props.C17
import SpVerif.Props.C20
import SpVerif.Proofs.PusCrcAccept
/-!
# Locality of the decoders (reusable by C10/C11/C12)

`Local c` — whenever the decoder of codec `c` accepts a buffer `d` with result `r`, the length `r`
reports lies inside `d`, and **every** buffer that agrees with `d` on those first `c.len r` octets
(and has at least that many) is decoded to the same `r`. It is the conjunction of

* `Restricts c` — decoding just the first `c.len r` octets gives `r` (nothing beyond is needed), and
* `Extends c` — appending anything to an accepted buffer does not change the result (nothing beyond
  is looked at).

The generic part derives from `Local` the forms C09 states (prefix, prefix ‖ suffix, packed ‖
suffix) and the split theorems by induction over the list of units. The per-unit part proves
`Local` for every codec of `Model/Prefix.lean` from the characterisation lemmas of the owning
properties.
-/
namespace SpVerif.Prefix
open SpVerif

/-! ## the notions -/

/-- the result `r` of decoding `d` is determined by the first `c.len r` octets of `d` -/
def LocalAt {α : Type} (c : Codec α) (d : Bytes) (r : α) : Prop :=
  c.len r ≤ d.length ∧
    ∀ d' : Bytes, d'.take (c.len r) = d.take (c.len r) → c.len r ≤ d'.length → c.decode d' = .ok r

def Local {α : Type} (c : Codec α) : Prop := ∀ d r, c.decode d = .ok r → LocalAt c d r

def Restricts {α : Type} (c : Codec α) : Prop :=
  ∀ d r, c.decode d = .ok r → c.len r ≤ d.length ∧ c.decode (d.take (c.len r)) = .ok r

def Extends {α : Type} (c : Codec α) : Prop :=
  ∀ d r s, c.decode d = .ok r → c.decode (d ++ s) = .ok r

theorem local_of {α : Type} {c : Codec α} (hr : Restricts c) (he : Extends c) : Local c := by
  intro d r h
  obtain ⟨hl, ht⟩ := hr d r h
  refine ⟨hl, fun d' hd' hl' => ?_⟩
  have : d' = d.take (c.len r) ++ d'.drop (c.len r) := by
    rw [← hd', List.take_append_drop]
  rw [this]
  exact he _ r _ ht

theorem LocalAt.take {α : Type} {c : Codec α} {d : Bytes} {r : α} (h : LocalAt c d r) :
    c.decode (d.take (c.len r)) = .ok r :=
  h.2 _ (by rw [List.take_take, Nat.min_self]) (by rw [List.length_take]; have := h.1; omega)

theorem LocalAt.take_append {α : Type} {c : Codec α} {d : Bytes} {r : α} (h : LocalAt c d r) (s : Bytes) :
    c.decode (d.take (c.len r) ++ s) = .ok r := by
  have hl : (d.take (c.len r)).length = c.len r := by rw [List.length_take]; have := h.1; omega
  refine h.2 _ ?_ (by rw [List.length_append]; omega)
  rw [List.take_append_of_le_length (by omega), List.take_take, Nat.min_self]

theorem LocalAt.append {α : Type} {c : Codec α} {d : Bytes} {r : α} (h : LocalAt c d r) (s : Bytes) :
    c.decode (d ++ s) = .ok r :=
  h.2 _ (List.take_append_of_le_length h.1) (by rw [List.length_append]; have := h.1; omega)

theorem Local.restricts {α : Type} {c : Codec α} (h : Local c) : Restricts c :=
  fun d r hd => ⟨(h d r hd).1, (h d r hd).take⟩

theorem Local.extends {α : Type} {c : Codec α} (h : Local c) : Extends c :=
  fun d r s hd => (h d r hd).append s

/-- locality is inherited by a decoder that post-processes the result without touching the buffer,
    as long as the reported length is the same -/
theorem Local.bind {α β : Type} {c : Codec α} (h : Local c) (f : α → Py β) (len' : β → Nat)
    (hlen : ∀ a b, f a = .ok b → len' b = c.len a) :
    Local ⟨fun d => c.decode d >>= f, len'⟩ := by
  intro d r hd
  simp only at hd
  cases ha : c.decode d with
  | error e => rw [ha] at hd; cases hd
  | ok a =>
    rw [ha] at hd
    have hf : f a = .ok r := hd
    obtain ⟨hl, hloc⟩ := h d a ha
    have e : len' r = c.len a := hlen a r hf
    refine ⟨by simp only [e]; exact hl, fun d' hd' hl' => ?_⟩
    simp only [e] at hd' hl'
    simp only [hloc d' hd' hl']
    exact hf

/-- … in particular by a relabelling of the result -/
theorem Local.map {α β : Type} {c : Codec α} (h : Local c) (f : α → β) (len' : β → Nat)
    (hlen : ∀ a, len' (f a) = c.len a) :
    Local ⟨fun d => f <$> c.decode d, len'⟩ := by
  have := h.bind (fun a => pure (f a)) len' (by
    intro a b hab
    have : f a = b := Except.ok.inj hab
    rw [← this]; exact hlen a)
  intro d r hd
  have e : ∀ d, (f <$> c.decode d) = (c.decode d >>= fun a => pure (f a)) := by
    intro d; cases c.decode d <;> rfl
  simp only [e] at hd ⊢
  obtain ⟨hl, hloc⟩ := this d r hd
  exact ⟨hl, fun d' h1 h2 => by simpa only [e] using hloc d' h1 h2⟩

/-! ## splitting: induction over the list of units, no bound on their number -/

/-- a packed unit: a buffer the decoder accepts and whose length is exactly the reported one -/
def Packed {α : Type} (c : Codec α) (p : Bytes) (r : α) : Prop := c.decode p = .ok r ∧ c.len r = p.length

theorem splitN_concat {α : Type} (c : Codec α) (he : Extends c) (units : List (Bytes × α))
    (hp : ∀ u ∈ units, Packed c u.1 u.2) (tail : Bytes) :
    splitN c units.length ((units.map (·.1)).flatten ++ tail) = .ok (units.map (·.2), tail) := by
  induction units with
  | nil => rfl
  | cons u us ih =>
    obtain ⟨hd, hl⟩ := hp u (by simp)
    have e : (((u :: us).map (·.1)).flatten ++ tail) = u.1 ++ ((us.map (·.1)).flatten ++ tail) := by simp
    rw [e]
    simp only [List.length_cons, splitN, he u.1 u.2 _ hd, bind, Except.bind, hl, List.drop_left]
    rw [ih (fun v hv => hp v (by simp [hv]))]
    rfl

theorem splitAll_concat {α : Type} (c : Codec α) (he : Extends c) (units : List (Bytes × α))
    (hp : ∀ u ∈ units, Packed c u.1 u.2) (hpos : ∀ u ∈ units, 0 < u.1.length) (fuel : Nat)
    (hf : units.length < fuel) :
    splitAll c fuel (units.map (·.1)).flatten = .ok (units.map (·.2)) := by
  induction units generalizing fuel with
  | nil =>
    cases fuel with
    | zero => omega
    | succ f => simp [splitAll, pure, Except.pure]
  | cons u us ih =>
    cases fuel with
    | zero => omega
    | succ f =>
      obtain ⟨hd, hl⟩ := hp u (by simp)
      have hu := hpos u (by simp)
      have e : ((u :: us).map (·.1)).flatten = u.1 ++ (us.map (·.1)).flatten := by simp
      have hne : ¬ (u.1 ++ (us.map (·.1)).flatten).length = 0 := by rw [List.length_append]; omega
      have hz : ¬ u.1.length = 0 := by omega
      rw [e]
      simp only [splitAll, hne, ↓reduceIte, he u.1 u.2 _ hd, bind, Except.bind, hl, hz, List.drop_left]
      rw [ih (fun v hv => hp v (by simp [hv])) (fun v hv => hpos v (by simp [hv])) f
        (by simp only [List.length_cons] at hf; omega)]
      rfl

theorem flatten_length_ge {units : List (Bytes × α)} (hpos : ∀ u ∈ units, 0 < u.1.length) :
    units.length ≤ (units.map (·.1)).flatten.length := by
  induction units with
  | nil => simp
  | cons u us ih =>
    have := hpos u (by simp)
    have := ih (fun v hv => hpos v (by simp [hv]))
    simp only [List.map_cons, List.flatten_cons, List.length_append, List.length_cons]
    omega

theorem splitStream_concat {α : Type} (c : Codec α) (he : Extends c) (units : List (Bytes × α))
    (hp : ∀ u ∈ units, Packed c u.1 u.2) (hpos : ∀ u ∈ units, 0 < u.1.length) :
    splitStream c (units.map (·.1)).flatten = .ok (units.map (·.2)) := by
  unfold splitStream
  exact splitAll_concat c he units hp hpos _ (by have := flatten_length_ge hpos; omega)

theorem splitKinds_concat (units : List (Kind × Bytes × Decoded))
    (he : ∀ u ∈ units, Extends u.1.codec)
    (hp : ∀ u ∈ units, Packed u.1.codec u.2.1 u.2.2) (tail : Bytes) :
    splitKinds (units.map (·.1)) ((units.map (·.2.1)).flatten ++ tail) = .ok (units.map (·.2.2), tail) := by
  induction units with
  | nil => rfl
  | cons u us ih =>
    obtain ⟨hd, hl⟩ := hp u (by simp)
    have hd' : u.1.decode u.2.1 = .ok u.2.2 := hd
    have hl' : u.2.2.len = u.2.1.length := hl
    have hx := he u (by simp) u.2.1 u.2.2 (((us.map (·.2.1)).flatten ++ tail)) hd
    have hx' : u.1.decode (u.2.1 ++ ((us.map (·.2.1)).flatten ++ tail)) = .ok u.2.2 := hx
    have e : (((u :: us).map (·.2.1)).flatten ++ tail) = u.2.1 ++ ((us.map (·.2.1)).flatten ++ tail) := by simp
    rw [e]
    simp only [List.map_cons, splitKinds, hx', bind, Except.bind, hl', List.drop_left]
    rw [ih (fun v hv => he v (by simp [hv])) (fun v hv => hp v (by simp [hv]))]
    rfl

/-! ## agreement on a prefix: the primitives of the Python kit -/

theorem getElem?_of_take_eq {d d' : Bytes} {n i : Nat} (h : d'.take n = d.take n) (hi : i < n) :
    d'[i]? = d[i]? := by
  have := congrArg (fun l => l[i]?) h
  simpa [List.getElem?_take, hi] using this

theorem idx_of_take_eq {d d' : Bytes} {n i : Nat} (h : d'.take n = d.take n) (hi : i < n) :
    idx d' i = idx d i := by
  simp [idx, getElem?_of_take_eq h hi]

theorem take_of_take_eq {d d' : Bytes} {n m : Nat} (h : d'.take n = d.take n) (hm : m ≤ n) :
    d'.take m = d.take m := by
  have := congrArg (List.take m) h
  simpa [List.take_take, Nat.min_eq_left hm] using this

theorem slice_of_take_eq {d d' : Bytes} {n : Nat} (h : d'.take n = d.take n) (s e : Nat) (he : e ≤ n) :
    slice d' s e = slice d s e := by
  simp only [slice, take_of_take_eq h he]

theorem drop_take_of_take_eq {d d' : Bytes} {n : Nat} (h : d'.take n = d.take n) (k : Nat) :
    (d'.drop k).take (n - k) = (d.drop k).take (n - k) := by
  by_cases hk : k ≤ n
  · have e : ∀ l : Bytes, (l.drop k).take (n - k) = (l.take n).drop k := by
      intro l; rw [List.drop_take]
    rw [e, e, h]
  · have : n - k = 0 := by omega
    simp [this]

/-- a generic route to locality: the decoder's accepted inputs start with the canonical encoding of
    the result, and the canonical encoding followed by anything decodes to the result -/
theorem local_of_spec {α : Type} (c : Codec α) (WF : α → Prop) (spec : α → Bytes)
    (h1 : ∀ d r, c.decode d = .ok r → WF r ∧ c.len r ≤ d.length ∧ d.take (c.len r) = spec r)
    (h2 : ∀ r s, WF r → c.decode (spec r ++ s) = .ok r) : Local c := by
  intro d r h
  obtain ⟨wf, hl, ht⟩ := h1 d r h
  refine ⟨hl, fun d' hd' _ => ?_⟩
  have : d' = spec r ++ d'.drop (c.len r) := by
    rw [← ht, ← hd', List.take_append_drop]
  rw [this]
  exact h2 r _ wf

/-! ## space packet primary header -/

theorem sph_local : Local sphCodec := by
  apply local_of_spec sphCodec Props.C01.WF Props.C01.Spec.octets
  · intro d r h
    have h6 : 6 ≤ d.length := by
      by_cases h6 : d.length < 6
      · have := Props.C01.C01_short d h6
        simp only [sphCodec] at h; rw [this] at h; cases h
      · omega
    obtain ⟨r', hu, wf, hp⟩ := Props.C01.C01_pack_unpack d h6
    simp only [sphCodec] at h
    rw [hu] at h
    have := Except.ok.inj h
    subst this
    rw [Props.C01.C01_pack_exact r' wf] at hp
    exact ⟨wf, h6, (Except.ok.inj hp).symm⟩
  · intro r s wf
    exact Props.C01.C01_unpack_pack r wf s

theorem Sph.unpack_congr {d d' : Bytes} {n : Nat} (h : d'.take n = d.take n) (hn : 6 ≤ n)
    (hl : n ≤ d.length) (hl' : n ≤ d'.length) : SpacePacket.Sph.unpack d' = SpacePacket.Sph.unpack d := by
  have g : ¬ d.length < 6 := by omega
  have g' : ¬ d'.length < 6 := by omega
  unfold SpacePacket.Sph.unpack
  simp only [g, g', ↓reduceIte, idx_of_take_eq h (show 0 < n by omega), idx_of_take_eq h (show 1 < n by omega),
    slice_of_take_eq h 2 4 (by omega), slice_of_take_eq h 4 6 (by omega)]


/-! ## PUS telecommand -/

theorem TcSec.unpack_congr {x x' : Bytes} {m : Nat} (h : x'.take m = x.take m) (hm : 5 ≤ m)
    (hl : m ≤ x.length) (hl' : m ≤ x'.length) : PusTc.TcSec.unpack x' = PusTc.TcSec.unpack x := by
  have g : ¬ x.length < 5 := by omega
  have g' : ¬ x'.length < 5 := by omega
  unfold PusTc.TcSec.unpack
  simp only [g, g', ↓reduceIte, idx_of_take_eq h (show 0 < m by omega), idx_of_take_eq h (show 1 < m by omega),
    idx_of_take_eq h (show 2 < m by omega), slice_of_take_eq h 3 5 (by omega)]

/-- two buffers that agree on the declared packet (and hold all of it) are decoded alike -/
theorem Tc.unpack_congr {d d' : Bytes} {n : Nat} (hn : n = PusCrc.declaredLen d) (h13 : 13 ≤ n)
    (hl : n ≤ d.length) (hl' : n ≤ d'.length) (h : d'.take n = d.take n) :
    PusTc.Tc.unpack d' = PusTc.Tc.unpack d := by
  have e1 := Sph.unpack_congr h (by omega) hl hl'
  have e2 : PusTc.TcSec.unpack (d'.drop 6) = PusTc.TcSec.unpack (d.drop 6) :=
    TcSec.unpack_congr (drop_take_of_take_eq h 6) (by omega) (by simp; omega) (by simp; omega)
  unfold PusTc.Tc.unpack
  rw [e1, e2]
  cases hs : SpacePacket.Sph.unpack d with
  | error e => rfl
  | ok sph =>
    have hp : sph.packetLen = n := by rw [hn]; exact (PusCrc.sph_unpack_declaredLen hs).2.1
    cases PusTc.TcSec.unpack (d.drop 6) with
    | error e => rfl
    | ok sec =>
      have g : ¬ d.length < n := by omega
      have g' : ¬ d'.length < n := by omega
      simp only [bind, Except.bind, hp, g, g', ↓reduceIte, slice_of_take_eq h 11 (n - 2) (by omega), h]

theorem tc_local : Local tcCodec := by
  intro d t ht
  have ht' : PusTc.Tc.unpack d = .ok t := ht
  obtain ⟨e, h13, hle, _⟩ := PusCrc.tc_accept_crc ht'
  refine ⟨by simp only [tcCodec, e]; exact hle, fun d' hd' hl' => ?_⟩
  simp only [tcCodec, e] at hd' hl' ⊢
  rw [Tc.unpack_congr rfl h13 hle hl' hd']
  exact ht'

/-! ## PUS telemetry (any timestamp length), service 17, service 1 -/

theorem TmSec.unpack_congr {x x' : Bytes} {m : Nat} (ts : Nat) (h : x'.take m = x.take m) (hm : 7 + ts ≤ m)
    (hl : m ≤ x.length) (hl' : m ≤ x'.length) : PusTm.TmSec.unpack x' ts = PusTm.TmSec.unpack x ts := by
  have g : ¬ x.length < 7 := by omega
  have g' : ¬ x'.length < 7 := by omega
  unfold PusTm.TmSec.unpack
  simp only [g, g', ↓reduceIte, idx_of_take_eq h (show 0 < m by omega), idx_of_take_eq h (show 1 < m by omega),
    idx_of_take_eq h (show 2 < m by omega), slice_of_take_eq h 3 5 (by omega),
    slice_of_take_eq h 5 7 (by omega), slice_of_take_eq h 7 (7 + ts) (by omega)]

theorem Tm.unpack_congr {d d' : Bytes} {n : Nat} (ts : Nat) (hn : n = PusCrc.declaredLen d)
    (h15 : 13 + ts + 2 ≤ n) (hl : n ≤ d.length) (hl' : n ≤ d'.length) (h : d'.take n = d.take n) :
    PusTm.Tm.unpack d' ts = PusTm.Tm.unpack d ts := by
  have e1 := Sph.unpack_congr h (by omega) hl hl'
  have e2 : PusTm.TmSec.unpack (d'.drop 6) ts = PusTm.TmSec.unpack (d.drop 6) ts :=
    TmSec.unpack_congr ts (drop_take_of_take_eq h 6) (by omega) (by simp; omega) (by simp; omega)
  unfold PusTm.Tm.unpack
  rw [e1, e2]
  cases hs : SpacePacket.Sph.unpack d with
  | error e => rfl
  | ok sph =>
    have hp : SpacePacket.totalLenFromLenField sph.dlen = n := by
      rw [hn]; exact (PusCrc.sph_unpack_declaredLen hs).2.2
    have g : ¬ n > d.length := by omega
    have g' : ¬ n > d'.length := by omega
    simp only [bind, Except.bind, hp, g, g', ↓reduceIte]
    split
    · rfl
    · cases PusTm.TmSec.unpack (d.drop 6) ts with
      | error e => rfl
      | ok sec =>
        simp only [slice_of_take_eq h (sec.headerSize + 6) (n - 2) (by omega), h]

theorem tm_local (ts : Nat) : Local (tmCodec ts) := by
  intro d t ht
  have ht' : PusTm.Tm.unpack d ts = .ok t := ht
  obtain ⟨e, h15, hle, _⟩ := PusCrc.tm_accept_crc ht'
  refine ⟨by simp only [tmCodec, e]; exact hle, fun d' hd' hl' => ?_⟩
  simp only [tmCodec, e] at hd' hl' ⊢
  rw [Tm.unpack_congr ts rfl h15 hle hl' hd']
  exact ht'

theorem s17_local (ts : Nat) : Local (s17Codec ts) := tm_local ts

theorem s1_local (ts sb eb : Nat) : Local (s1Codec ts sb eb) := by
  have := (tm_local ts).bind (fun tm => Srv1.unpackRaw tm sb eb) (fun s => s.tm.packetLen) (by
    intro tm s hs
    have : s.tm = tm := by
      unfold Srv1.unpackRaw at hs
      simp only [bind, Except.bind, throw, throwThe, MonadExceptOf.throw, pure, Except.pure] at hs
      repeat' split at hs
      all_goals first | (cases hs; done) | (have := (Except.ok.inj hs).symm; subst this; rfl)
    simp only [tmCodec, this])
  exact this


/-! ## CDS short timestamp, request id, packet field enumeration -/

theorem cds_local : Local cdsCodec := by
  intro d r h
  have h' : Cds.unpackFromRaw d = .ok r := h
  have h7 : 7 ≤ d.length := by
    by_cases h7 : d.length < 7
    · rw [Props.C14.C14_refuse_short d h7] at h'; cases h'
    · omega
  refine ⟨h7, fun d' hd' hl' => ?_⟩
  simp only [cdsCodec, cdsLen, Cds.TIMESTAMP_SIZE] at hd' hl' ⊢
  rw [← h']
  have g : ¬ d.length < 7 := by omega
  have g' : ¬ d'.length < 7 := by omega
  unfold Cds.unpackFromRaw
  simp only [Cds.TIMESTAMP_SIZE, g, g', ↓reduceIte, idx_of_take_eq hd' (show 0 < 7 by omega),
    slice_of_take_eq hd' 1 3 (by omega), slice_of_take_eq hd' 3 7 (by omega)]

theorem reqId_local : Local reqIdCodec := by
  intro d r h
  have h' : Srv1.ReqId.unpack d = .ok r := h
  have h4 : 4 ≤ d.length := by
    by_cases h4 : d.length < 4
    · rw [Srv1.ReqId.unpack_short d h4] at h'; cases h'
    · omega
  refine ⟨h4, fun d' hd' hl' => ?_⟩
  simp only [reqIdCodec, reqIdLen] at hd' hl' ⊢
  rw [← h']
  have g : ¬ d.length < 4 := by omega
  have g' : ¬ d'.length < 4 := by omega
  unfold Srv1.ReqId.unpack
  simp only [g, g', ↓reduceIte, slice_of_take_eq hd' 0 2 (by omega), slice_of_take_eq hd' 2 4 (by omega)]

theorem pfe_local (pfc : Nat) : Local (pfeCodec pfc) := by
  intro d f h
  have h' : Srv1.Pfe.unpack d pfc = .ok f := h
  unfold Srv1.Pfe.unpack at h'
  cases hc : Srv1.checkPfc pfc with
  | error e => simp [hc, bind, Except.bind] at h'
  | ok n =>
    have hn := (Srv1.checkPfc_ok hc).2
    simp only [hc, bind, Except.bind] at h'
    by_cases g : n > d.length
    · simp [g, throw, throwThe, MonadExceptOf.throw] at h'
    · simp only [g, ↓reduceIte] at h'
      have hf : f.pfc = pfc := by
        cases hu : unpackBE n (slice d 0 n) with
        | error e => simp [hu] at h'
        | ok v =>
          simp only [hu, Srv1.Pfe.new, hc, bind, Except.bind, pure, Except.pure] at h'
          rw [← Except.ok.inj h']
      have hlen : pfeLen f = n := by simp only [pfeLen, hf, hn]
      refine ⟨by rw [show (pfeCodec pfc).len f = pfeLen f from rfl, hlen]; omega, fun d' hd' hl' => ?_⟩
      rw [show (pfeCodec pfc).len f = pfeLen f from rfl, hlen] at hd' hl'
      have g' : ¬ n > d'.length := by omega
      show Srv1.Pfe.unpack d' pfc = .ok f
      unfold Srv1.Pfe.unpack
      simp only [hc, bind, Except.bind, g', ↓reduceIte, slice_of_take_eq hd' 0 n (Nat.le_refl n)]
      exact h'

/-! ## CFDP fixed header -/

theorem cfdpHdr_local : Local cfdpHdrCodec := by
  intro d h hu
  have hu' : CfdpHeader.PduHeader.unpack d = .ok h := hu
  obtain ⟨_, hl, _⟩ := Props.C05.C05_decode_encode d h hu'
  refine ⟨hl, fun d' hd' _ => ?_⟩
  have : d' = d.take h.headerLen ++ d'.drop h.headerLen := by
    have hd'' : d'.take h.headerLen = d.take h.headerLen := hd'
    rw [← hd'', List.take_append_drop]
  rw [this]
  exact Props.C05.C05_unpack_prefix d h hu' _

/-! ## LV, TLV -/

theorem lv_local : Local lvCodec := by
  apply local_of_spec lvCodec (fun l => l.value.length ≤ 255) (fun l => u8 l.value.length :: l.value)
  · intro d l h
    obtain ⟨h255, hle, hd⟩ := Lv.CfdpLv.unpack_spec d l h
    refine ⟨h255, hle, ?_⟩
    have hlen : (u8 l.value.length :: l.value).length = l.packetLen := by simp [Lv.CfdpLv.packetLen]
    conv => lhs; rw [hd]
    exact List.take_left' hlen
  · intro l s h255
    cases l with
    | mk v => exact Lv.CfdpLv.unpack_pack_append v s h255

theorem tlv_local : Local tlvCodec := by
  apply local_of_spec tlvCodec (fun t => t.ttype ∈ Tlv.tlvTypes ∧ t.value.length ≤ 255)
    (fun t => u8 t.ttype :: u8 t.value.length :: t.value)
  · intro d t h
    obtain ⟨hty, h255, hle, hd⟩ := Tlv.CfdpTlv.unpack_spec d t h
    refine ⟨⟨hty, h255⟩, hle, ?_⟩
    have hlen : (u8 t.ttype :: u8 t.value.length :: t.value).length = t.packetLen := by
      simp [Tlv.CfdpTlv.packetLen]; omega
    conv => lhs; rw [hd]
    exact List.take_left' hlen
  · intro t s ⟨hty, h255⟩
    cases t with
    | mk ty v => exact Tlv.CfdpTlv.unpack_pack_append ty v s hty h255

/-- the generic decoder reports exactly the length the buffer declares -/
theorem tlv_declared {d : Bytes} {t : Tlv.CfdpTlv} (h : Tlv.CfdpTlv.unpack d = .ok t) :
    t.packetLen = tlvDeclaredLen d := by
  obtain ⟨ty, n, r, hd, _, hn, ht⟩ := (Tlv.CfdpTlv.unpack_ok_iff d t).1 h
  subst hd ht
  simp [Tlv.CfdpTlv.packetLen, tlvDeclaredLen, Nat.min_eq_left hn]


/-! ## the concrete TLV classes: generic decoder, then `from_tlv` -/

theorem entityId_local : Local entityIdCodec :=
  tlv_local.bind Tlv.EntityIdTlv.fromTlv Tlv.EntityIdTlv.packetLen (by
    intro t x h
    rw [Tlv.EntityIdTlv.fromTlv_eq] at h
    split at h
    · rw [← Except.ok.inj h]; rfl
    · cases h)

theorem msgToUser_local : Local msgToUserCodec :=
  tlv_local.bind Tlv.MessageToUserTlv.fromTlv Tlv.MessageToUserTlv.packetLen (by
    intro t x h
    rw [Tlv.MessageToUserTlv.fromTlv_eq] at h
    split at h
    · rw [← Except.ok.inj h]; rfl
    · cases h)

theorem flowLabel_local : Local flowLabelCodec := by
  have := tlv_local.bind Tlv.FlowLabelTlv.fromTlv Tlv.FlowLabelTlv.packetLen (by
    intro t x h
    rw [Tlv.FlowLabelTlv.fromTlv_eq] at h
    split at h
    · rw [← Except.ok.inj h]; rfl
    · cases h)
  have e : flowLabelCodec = ⟨fun d => tlvCodec.decode d >>= Tlv.FlowLabelTlv.fromTlv, Tlv.FlowLabelTlv.packetLen⟩ := by
    have : Tlv.FlowLabelTlv.unpack = fun d => Tlv.CfdpTlv.unpack d >>= Tlv.FlowLabelTlv.fromTlv :=
      funext Tlv.FlowLabelTlv.unpack_bind
    simp only [flowLabelCodec, tlvCodec, this]
  rw [e]; exact this

theorem faultHandler_local : Local faultHandlerCodec :=
  tlv_local.bind Tlv.FaultHandlerOverrideTlv.fromTlv Tlv.FaultHandlerOverrideTlv.packetLen (by
    intro t x h
    rw [Tlv.FaultHandlerOverrideTlv.fromTlv_eq] at h
    split at h
    · cases h
    · split at h
      · cases h
      · rw [← Except.ok.inj h]; rfl)

/-! ## filestore request / response: the reported length is that of the re-encoding -/

/-- `_common_unpacker` stays inside the value field, and the index it returns is what
    `common_packet_len()` computes from the decoded names (minus the two TLV header octets) -/
theorem commonUnpacker_idx {v : Bytes} {c : Tlv.Common} (h : Tlv.commonUnpacker v = .ok c) :
    c.idx ≤ v.length ∧ Tlv.commonPacketLen c.action c.first (c.second.getD []) = 2 + c.idx := by
  cases v with
  | nil => rw [Tlv.commonUnpacker_nil] at h; cases h
  | cons b0 r =>
    rw [Tlv.commonUnpacker_cons] at h
    cases ha : enumOf Tlv.actionCodes (b0.toNat / 16) with
    | error e => simp [ha, bind, Except.bind] at h
    | ok action =>
      cases h1 : Lv.CfdpLv.unpack r with
      | error e => simp [ha, h1, bind, Except.bind] at h
      | ok lv1 =>
        obtain ⟨_, hle1, _⟩ := Lv.CfdpLv.unpack_spec r lv1 h1
        cases hu1 : Tlv.decodeUtf8 lv1.value with
        | error e => simp [ha, h1, hu1, bind, Except.bind] at h
        | ok first =>
          have hf : first = lv1.value := by
            unfold Tlv.decodeUtf8 at hu1
            split at hu1
            · exact (Except.ok.inj hu1).symm
            · cases hu1
          simp only [ha, h1, hu1, bind, Except.bind] at h
          by_cases hs : action ∈ Tlv.snpActions
          · simp only [hs, ↓reduceIte] at h
            cases h2 : Lv.CfdpLv.unpack (r.drop lv1.packetLen) with
            | error e => simp [h2] at h
            | ok lv2 =>
              obtain ⟨_, hle2, _⟩ := Lv.CfdpLv.unpack_spec _ lv2 h2
              cases hu2 : Tlv.decodeUtf8 lv2.value with
              | error e => simp [h2, hu2] at h
              | ok second =>
                have hg : second = lv2.value := by
                  unfold Tlv.decodeUtf8 at hu2
                  split at hu2
                  · exact (Except.ok.inj hu2).symm
                  · cases hu2
                simp only [h2, hu2, pure, Except.pure] at h
                rw [← Except.ok.inj h]
                simp only [List.length_drop] at hle2
                simp only [Tlv.commonPacketLen, hs, ↓reduceIte, Option.getD_some, hf, hg, Lv.CfdpLv.packetLen,
                  List.length_cons] at hle1 hle2 ⊢
                omega
          · simp only [hs, ↓reduceIte, pure, Except.pure] at h
            rw [← Except.ok.inj h]
            simp only [Tlv.commonPacketLen, hs, ↓reduceIte, hf, Lv.CfdpLv.packetLen, List.length_cons] at hle1 ⊢
            omega

/-- a decoded filestore request reports at most the declared TLV length (since the repair of
    `_set_fields` — slack inside the value field is refused — exactly the declared length:
    `Tlv.FileStoreRequestTlv.fromTlv_len_exact`) -/
theorem fsRequest_len_le {t : Tlv.CfdpTlv} {x : Tlv.FileStoreRequestTlv}
    (h : Tlv.FileStoreRequestTlv.fromTlv t = .ok x) : x.packetLen ≤ t.packetLen :=
  Nat.le_of_eq (Tlv.FileStoreRequestTlv.fromTlv_len_exact h)

theorem fsResponse_len_le {t : Tlv.CfdpTlv} {x : Tlv.FileStoreResponseTlv}
    (h : Tlv.FileStoreResponseTlv.fromTlv t = .ok x) : x.packetLen ≤ t.packetLen :=
  Nat.le_of_eq (Tlv.FileStoreResponseTlv.fromTlv_len_exact h)

/-- a decoder `generic TLV, then f` is local at every accepted input whose result reports the
    declared TLV length -/
theorem tlv_bind_localAt {α : Type} (f : Tlv.CfdpTlv → Py α) (len' : α → Nat) {d : Bytes} {x : α}
    (h : (Tlv.CfdpTlv.unpack d >>= f) = .ok x) (hlen : len' x = tlvDeclaredLen d) :
    LocalAt ⟨fun d => Tlv.CfdpTlv.unpack d >>= f, len'⟩ d x := by
  cases ht : Tlv.CfdpTlv.unpack d with
  | error e => rw [ht] at h; cases h
  | ok t =>
    rw [ht] at h
    have hf : f t = .ok x := h
    obtain ⟨hl, hloc⟩ := tlv_local d t ht
    have e : len' x = t.packetLen := by rw [hlen, tlv_declared ht]
    refine ⟨by simp only [e]; exact hl, fun d' hd' hl' => ?_⟩
    simp only [e] at hd' hl'
    have := hloc d' hd' hl'
    simp only [tlvCodec] at this
    simp only [this]
    exact hf

theorem fsRequest_localAt {d : Bytes} {x : Tlv.FileStoreRequestTlv}
    (h : Tlv.FileStoreRequestTlv.unpack d = .ok x) (hlen : x.packetLen = tlvDeclaredLen d) :
    LocalAt fsRequestCodec d x :=
  tlv_bind_localAt Tlv.FileStoreRequestTlv.fromTlv Tlv.FileStoreRequestTlv.packetLen h hlen

theorem fsResponse_localAt {d : Bytes} {x : Tlv.FileStoreResponseTlv}
    (h : Tlv.FileStoreResponseTlv.unpack d = .ok x) (hlen : x.packetLen = tlvDeclaredLen d) :
    LocalAt fsResponseCodec d x :=
  tlv_bind_localAt Tlv.FileStoreResponseTlv.fromTlv Tlv.FileStoreResponseTlv.packetLen h hlen

theorem fsRequest_extends : Extends fsRequestCodec :=
  fun d x s h => Tlv.FileStoreRequestTlv.unpack_append d s x h

theorem fsResponse_extends : Extends fsResponseCodec :=
  fun d x s h => Tlv.FileStoreResponseTlv.unpack_append d s x h

/-- with respect to the **declared** TLV length every accepted filestore TLV is local, and the
    reported length never exceeds the declared one -/
theorem fsRequest_declared {d : Bytes} {x : Tlv.FileStoreRequestTlv}
    (h : Tlv.FileStoreRequestTlv.unpack d = .ok x) :
    x.packetLen ≤ tlvDeclaredLen d ∧ tlvDeclaredLen d ≤ d.length ∧
    ∀ d' : Bytes, d'.take (tlvDeclaredLen d) = d.take (tlvDeclaredLen d) → tlvDeclaredLen d ≤ d'.length →
      Tlv.FileStoreRequestTlv.unpack d' = .ok x := by
  have h' : (Tlv.CfdpTlv.unpack d >>= Tlv.FileStoreRequestTlv.fromTlv) = .ok x := h
  cases ht : Tlv.CfdpTlv.unpack d with
  | error e => rw [ht] at h'; cases h'
  | ok t =>
    rw [ht] at h'
    have hf : Tlv.FileStoreRequestTlv.fromTlv t = .ok x := h'
    obtain ⟨hl, hloc⟩ := tlv_local d t ht
    rw [← tlv_declared ht]
    refine ⟨fsRequest_len_le hf, hl, fun d' hd' hl' => ?_⟩
    have := hloc d' hd' hl'
    show (Tlv.CfdpTlv.unpack d' >>= Tlv.FileStoreRequestTlv.fromTlv) = .ok x
    simp only [tlvCodec] at this
    rw [this]; exact hf

theorem fsResponse_declared {d : Bytes} {x : Tlv.FileStoreResponseTlv}
    (h : Tlv.FileStoreResponseTlv.unpack d = .ok x) :
    x.packetLen ≤ tlvDeclaredLen d ∧ tlvDeclaredLen d ≤ d.length ∧
    ∀ d' : Bytes, d'.take (tlvDeclaredLen d) = d.take (tlvDeclaredLen d) → tlvDeclaredLen d ≤ d'.length →
      Tlv.FileStoreResponseTlv.unpack d' = .ok x := by
  have h' : (Tlv.CfdpTlv.unpack d >>= Tlv.FileStoreResponseTlv.fromTlv) = .ok x := h
  cases ht : Tlv.CfdpTlv.unpack d with
  | error e => rw [ht] at h'; cases h'
  | ok t =>
    rw [ht] at h'
    have hf : Tlv.FileStoreResponseTlv.fromTlv t = .ok x := h'
    obtain ⟨hl, hloc⟩ := tlv_local d t ht
    rw [← tlv_declared ht]
    refine ⟨fsResponse_len_le hf, hl, fun d' hd' hl' => ?_⟩
    have := hloc d' hd' hl'
    show (Tlv.CfdpTlv.unpack d' >>= Tlv.FileStoreResponseTlv.fromTlv) = .ok x
    simp only [tlvCodec] at this
    rw [this]; exact hf

/-- a *packed* filestore TLV (reported length = buffer length) reports the declared length -/
theorem fs_packed_declared {d : Bytes} {n : Nat} (hle : n ≤ tlvDeclaredLen d) (hd : tlvDeclaredLen d ≤ d.length)
    (hp : n = d.length) : n = tlvDeclaredLen d := by omega


/-! ## USLP primary and truncated header -/

theorem toPy_ok_iff {α : Type} {x : Uslp.UPy α} {a : α} : x.toPy = .ok a ↔ x = .ok a := by
  cases x with
  | error e => simp [Uslp.UPy.toPy]
  | ok b => simp [Uslp.UPy.toPy]

theorem uslpPrimary_local (ver : Nat) : Local (uslpPrimaryCodec ver) := by
  apply local_of
  · intro d r h
    have hu : Uslp.PrimaryHeader.unpack d ver = .ok r := toPy_ok_iff.1 h
    obtain ⟨hlen, _⟩ := Uslp.PrimaryHeader.unpack_len d ver r hu
    refine ⟨hlen, ?_⟩
    show (Uslp.PrimaryHeader.unpack (d.take r.len) ver).toPy = .ok r
    rw [toPy_ok_iff]
    have h7 : 7 ≤ d.length := by
      by_cases h7 : d.length < 7
      · rw [Uslp.PrimaryHeader.unpack_short d ver h7] at hu; cases hu
      · omega
    rw [Uslp.PrimaryHeader.unpack_eq d ver h7] at hu
    split at hu
    · cases hu
    · split at hu
      · cases hu
      · split at hu
        · cases hu
        · rename_i c1 c2 c3
          have hr := (Except.ok.inj hu).symm
          have hn : r.len = 7 + d[6].toNat % 8 := by rw [hr]; simp [Uslp.hdrOf, Uslp.PrimaryHeader.len]
          have hl : (d.take r.len).length = r.len := by rw [List.length_take]; omega
          have h7' : 7 ≤ (d.take r.len).length := by omega
          rw [Uslp.PrimaryHeader.unpack_eq _ ver h7']
          have c3' : ¬ ((d.take r.len).length - 7 < d[6].toNat % 8) := by omega
          simp only [List.getElem_take, c1, c2, c3', ↓reduceIte, Except.ok.injEq]
          refine Eq.trans ?_ hr.symm
          simp only [Uslp.hdrOf, List.getElem_take]
          rw [Uslp.slice_take d 7 _ _ (by omega)]
  · intro d r s h
    have hu : Uslp.PrimaryHeader.unpack d ver = .ok r := toPy_ok_iff.1 h
    show (Uslp.PrimaryHeader.unpack (d ++ s) ver).toPy = .ok r
    rw [Uslp.PrimaryHeader.unpack_append d s ver r hu]; rfl

theorem uslpTruncated_local (ver : Nat) : Local (uslpTruncatedCodec ver) := by
  apply local_of
  · intro d r h
    have hu : Uslp.TruncatedHeader.unpack d ver = .ok r := toPy_ok_iff.1 h
    have h4 : 4 ≤ d.length := by
      by_cases h4 : d.length < 4
      · rw [Uslp.TruncatedHeader.unpack_short d ver h4] at hu; cases hu
      · omega
    refine ⟨h4, ?_⟩
    show (Uslp.TruncatedHeader.unpack (d.take 4) ver).toPy = .ok r
    rw [toPy_ok_iff]
    have h4' : 4 ≤ (d.take 4).length := by rw [List.length_take]; omega
    rw [Uslp.TruncatedHeader.unpack_eq d ver h4] at hu
    rw [Uslp.TruncatedHeader.unpack_eq _ ver h4']
    simp only [List.getElem_take]
    exact hu
  · intro d r s h
    have hu : Uslp.TruncatedHeader.unpack d ver = .ok r := toPy_ok_iff.1 h
    show (Uslp.TruncatedHeader.unpack (d ++ s) ver).toPy = .ok r
    rw [Uslp.TruncatedHeader.unpack_append d s ver r hu]; rfl

/-! ## byte fields read from a stream -/

theorem byteField_local (n : Nat) : Local (byteFieldCodec n) := by
  intro d f h
  have h' : ByteField.genFromBytes (n : Int) d = .ok f := h
  rw [ByteField.genFromBytes_eq] at h'
  split at h'
  · rename_i g
    have hf := (Except.ok.inj h').symm
    have hw : fieldLen f = n := by rw [hf]; simp [fieldLen]
    have hle : n ≤ d.length := by omega
    refine ⟨by rw [show (byteFieldCodec n).len f = fieldLen f from rfl, hw]; exact hle, fun d' hd' hl' => ?_⟩
    rw [show (byteFieldCodec n).len f = fieldLen f from rfl, hw] at hd' hl'
    show ByteField.genFromBytes (n : Int) d' = .ok f
    rw [ByteField.genFromBytes_eq]
    have g' : ((n : Int) = 1 ∨ (n : Int) = 2 ∨ (n : Int) = 4 ∨ (n : Int) = 8) ∧ ¬ (d'.length : Int) < (n : Int) :=
      ⟨g.1, by omega⟩
    rw [if_pos g', hf]
    simp only [Int.toNat_natCast, hd']
  · cases h'

/-! ## the table: every kind of `Model/Prefix.lean` -/

theorem Kind.extends (k : Kind) : Extends k.codec := by
  have key : ∀ {α : Type} (c : Codec α) (f : α → Decoded), Extends c →
      Extends ⟨fun d => f <$> c.decode d, Decoded.len⟩ := by
    intro α c f he d r s h
    simp only at h ⊢
    cases hc : c.decode d with
    | error e => rw [hc] at h; cases h
    | ok a =>
      rw [hc] at h
      rw [he d a s hc]
      exact h
  cases k with
  | sph => exact key _ _ sph_local.extends
  | tc => exact key _ _ tc_local.extends
  | tm n => exact key _ _ (tm_local n).extends
  | s17 n => exact key _ _ (s17_local n).extends
  | s1 n sb eb => exact key _ _ (s1_local n sb eb).extends
  | cds => exact key _ _ cds_local.extends
  | reqId => exact key _ _ reqId_local.extends
  | pfe p => exact key _ _ (pfe_local p).extends
  | cfdpHdr => exact key _ _ cfdpHdr_local.extends
  | lv => exact key _ _ lv_local.extends
  | tlv => exact key _ _ tlv_local.extends
  | entityId => exact key _ _ entityId_local.extends
  | flowLabel => exact key _ _ flowLabel_local.extends
  | msgToUser => exact key _ _ msgToUser_local.extends
  | faultHandler => exact key _ _ faultHandler_local.extends
  | fsRequest => exact key _ _ fsRequest_extends
  | fsResponse => exact key _ _ fsResponse_extends
  | uslpPrimary v => exact key _ _ (uslpPrimary_local v).extends
  | uslpTruncated v => exact key _ _ (uslpTruncated_local v).extends
  | byteField n => exact key _ _ (byteField_local n).extends

/-- every accepted filestore request reports exactly the declared TLV length (slack inside the value
    field is refused since /repo d425927) … -/
theorem fsRequest_len_declared {d : Bytes} {x : Tlv.FileStoreRequestTlv}
    (h : Tlv.FileStoreRequestTlv.unpack d = .ok x) : x.packetLen = tlvDeclaredLen d := by
  have h' : (Tlv.CfdpTlv.unpack d >>= Tlv.FileStoreRequestTlv.fromTlv) = .ok x := h
  cases ht : Tlv.CfdpTlv.unpack d with
  | error e => rw [ht] at h'; cases h'
  | ok t =>
    rw [ht] at h'
    have hf : Tlv.FileStoreRequestTlv.fromTlv t = .ok x := h'
    rw [← tlv_declared ht]; exact Tlv.FileStoreRequestTlv.fromTlv_len_exact hf

theorem fsResponse_len_declared {d : Bytes} {x : Tlv.FileStoreResponseTlv}
    (h : Tlv.FileStoreResponseTlv.unpack d = .ok x) : x.packetLen = tlvDeclaredLen d := by
  have h' : (Tlv.CfdpTlv.unpack d >>= Tlv.FileStoreResponseTlv.fromTlv) = .ok x := h
  cases ht : Tlv.CfdpTlv.unpack d with
  | error e => rw [ht] at h'; cases h'
  | ok t =>
    rw [ht] at h'
    have hf : Tlv.FileStoreResponseTlv.fromTlv t = .ok x := h'
    rw [← tlv_declared ht]; exact Tlv.FileStoreResponseTlv.fromTlv_len_exact hf

/-- … so the two filestore codecs are local like all the others -/
theorem fsRequest_local : Local fsRequestCodec := fun _ _ h => fsRequest_localAt h (fsRequest_len_declared h)
theorem fsResponse_local : Local fsResponseCodec := fun _ _ h => fsResponse_localAt h (fsResponse_len_declared h)

/-- every kind of the table: every accepted buffer is determined by the first `len` octets, `len`
    being the length the decoded object reports -/
theorem Kind.local (k : Kind) : Local k.codec := by
  cases k with
  | sph => exact sph_local.map Decoded.sph Decoded.len (fun _ => rfl)
  | tc => exact tc_local.map Decoded.tc Decoded.len (fun _ => rfl)
  | tm n => exact (tm_local n).map Decoded.tm Decoded.len (fun _ => rfl)
  | s17 n => exact (s17_local n).map Decoded.tm Decoded.len (fun _ => rfl)
  | s1 n sb eb => exact (s1_local n sb eb).map Decoded.s1 Decoded.len (fun _ => rfl)
  | cds => exact cds_local.map Decoded.cds Decoded.len (fun _ => rfl)
  | reqId => exact reqId_local.map Decoded.reqId Decoded.len (fun _ => rfl)
  | pfe p => exact (pfe_local p).map Decoded.pfe Decoded.len (fun _ => rfl)
  | cfdpHdr => exact cfdpHdr_local.map Decoded.cfdpHdr Decoded.len (fun _ => rfl)
  | lv => exact lv_local.map Decoded.lv Decoded.len (fun _ => rfl)
  | tlv => exact tlv_local.map Decoded.tlv Decoded.len (fun _ => rfl)
  | entityId => exact entityId_local.map Decoded.entityId Decoded.len (fun _ => rfl)
  | flowLabel => exact flowLabel_local.map Decoded.flowLabel Decoded.len (fun _ => rfl)
  | msgToUser => exact msgToUser_local.map Decoded.msgToUser Decoded.len (fun _ => rfl)
  | faultHandler => exact faultHandler_local.map Decoded.faultHandler Decoded.len (fun _ => rfl)
  | fsRequest => exact fsRequest_local.map Decoded.fsRequest Decoded.len (fun _ => rfl)
  | fsResponse => exact fsResponse_local.map Decoded.fsResponse Decoded.len (fun _ => rfl)
  | uslpPrimary v => exact (uslpPrimary_local v).map Decoded.uslpPrimary Decoded.len (fun _ => rfl)
  | uslpTruncated v => exact (uslpTruncated_local v).map Decoded.uslpTruncated Decoded.len (fun _ => rfl)
  | byteField n => exact (byteField_local n).map Decoded.byteField Decoded.len (fun _ => rfl)


/-- no decoder of the table accepts the empty buffer -/
theorem Kind.decode_nil (k : Kind) : ∃ e, k.decode [] = .error e := by
  have key : ∀ {α : Type} (x : Py α) (f : α → Decoded), (∃ e, x = .error e) → ∃ e, (f <$> x) = .error e := by
    intro α x f ⟨e, he⟩; exact ⟨e, by rw [he]; rfl⟩
  have hsph : SpacePacket.Sph.unpack [] = .error .value := Props.C01.C01_short [] (by simp)
  cases k with
  | sph => exact key _ _ ⟨_, hsph⟩
  | tc => exact key _ _ ⟨.value, by simp [tcCodec, PusTc.Tc.unpack, hsph, bind, Except.bind]⟩
  | tm n => exact key _ _ ⟨.value, by simp [tmCodec, PusTm.Tm.unpack, hsph, bind, Except.bind]⟩
  | s17 n => exact key _ _ ⟨.value, by simp [s17Codec, PusTm.srv17Unpack, PusTm.Tm.unpack, hsph, bind, Except.bind]⟩
  | s1 n sb eb =>
    exact key _ _ ⟨.value, by simp [s1Codec, Srv1.S1Tm.unpack, PusTm.Tm.unpack, hsph, bind, Except.bind]⟩
  | cds => exact key _ _ ⟨.value, Props.C14.C14_refuse_short [] (by simp)⟩
  | reqId => exact key _ _ ⟨.value, Srv1.ReqId.unpack_short [] (by simp)⟩
  | pfe p =>
    apply key
    cases h : (pfeCodec p).decode [] with
    | error e => exact ⟨e, rfl⟩
    | ok f =>
      have := (pfe_local p [] f h).1
      have hw : Srv1.Pfe.unpack [] p = .ok f := h
      unfold Srv1.Pfe.unpack at hw
      cases hc : Srv1.checkPfc p with
      | error e => simp [hc, bind, Except.bind] at hw
      | ok n =>
        have hn := (Srv1.checkPfc_ok hc).1.pos
        simp [hc, bind, Except.bind, hn, throw, throwThe, MonadExceptOf.throw] at hw
  | cfdpHdr => exact key _ _ ⟨.value, CfdpHeader.unpack_short [] (by simp)⟩
  | lv => exact key _ _ ⟨.value, Lv.CfdpLv.unpack_nil⟩
  | tlv => exact key _ _ ⟨.value, Tlv.CfdpTlv.unpack_short [] (by simp)⟩
  | entityId =>
    exact key _ _ ⟨.value, by simp [entityIdCodec, Tlv.EntityIdTlv.unpack, Tlv.CfdpTlv.unpack_short, bind, Except.bind]⟩
  | flowLabel =>
    exact key _ _ ⟨.value, by simp [flowLabelCodec, Tlv.FlowLabelTlv.unpack, Tlv.CfdpTlv.unpack_short, bind, Except.bind]⟩
  | msgToUser =>
    exact key _ _ ⟨.value, by
      simp [msgToUserCodec, Tlv.MessageToUserTlv.unpack, Tlv.CfdpTlv.unpack_short, bind, Except.bind]⟩
  | faultHandler =>
    exact key _ _ ⟨.value, by
      simp [faultHandlerCodec, Tlv.FaultHandlerOverrideTlv.unpack, Tlv.CfdpTlv.unpack_short, bind, Except.bind]⟩
  | fsRequest =>
    exact key _ _ ⟨.value, by
      simp [fsRequestCodec, Tlv.FileStoreRequestTlv.unpack, Tlv.CfdpTlv.unpack_short, bind, Except.bind]⟩
  | fsResponse =>
    exact key _ _ ⟨.value, by
      simp [fsResponseCodec, Tlv.FileStoreResponseTlv.unpack, Tlv.CfdpTlv.unpack_short, bind, Except.bind]⟩
  | uslpPrimary v =>
    exact key _ _ ⟨.uslp, by simp [uslpPrimaryCodec, Uslp.PrimaryHeader.unpack_short, Uslp.UErr.toErr]⟩
  | uslpTruncated v =>
    exact key _ _ ⟨.uslp, by simp [uslpTruncatedCodec, Uslp.TruncatedHeader.unpack_short, Uslp.UErr.toErr]⟩
  | byteField n =>
    apply key
    refine ⟨.value, ?_⟩
    show ByteField.genFromBytes (n : Int) [] = .error .value
    rw [ByteField.genFromBytes_eq]
    have : ¬ (((n : Int) = 1 ∨ (n : Int) = 2 ∨ (n : Int) = 4 ∨ (n : Int) = 8) ∧ ¬ ((([] : Bytes).length : Nat) : Int) < (n : Int)) := by
      simp only [List.length_nil]; omega
    rw [if_neg this]


end SpVerif.Prefix
