import SpVerif.Model.Lv
/-!
# Characterisation lemmas for the LV codec (`Model/Lv.lean`), reusable by C06/C09/C10/C18

* `CfdpLv.unpack_nil`, `CfdpLv.unpack_cons` — the decoder on every input, in closed form;
* `CfdpLv.unpack_ok_iff`, `CfdpLv.unpack_err` — acceptance guard / the only error is `value`;
* `CfdpLv.unpack_pack_append` — prefix lemma: `unpack (len :: v ++ rest) = ok ⟨v⟩`;
* `CfdpLv.unpack_append` — prefix stability: octets after the LV never change the result;
* `CfdpLv.unpack_spec` — a decoded LV re-encodes to exactly the consumed prefix.
-/
namespace SpVerif.Lv
open SpVerif

/-- decidable equality of results (for `decide` on concrete decoder runs) -/
instance instDecEqPyLv {α : Type} [DecidableEq α] : DecidableEq (Py α) := fun a b =>
  match a, b with
  | .ok x, .ok y => if h : x = y then isTrue (by rw [h]) else isFalse (by intro e; cases e; exact h rfl)
  | .error x, .error y => if h : x = y then isTrue (by rw [h]) else isFalse (by intro e; cases e; exact h rfl)
  | .ok _, .error _ => isFalse (by intro e; cases e)
  | .error _, .ok _ => isFalse (by intro e; cases e)

theorem CfdpLv.new_ok {v : Bytes} (h : v.length ≤ 255) : CfdpLv.new v = .ok ⟨v⟩ := by
  have : ¬ v.length > 255 := by omega
  simp [CfdpLv.new, this]

theorem CfdpLv.new_err {v : Bytes} (h : 255 < v.length) : CfdpLv.new v = .error .value := by
  simp [CfdpLv.new, h]

/-- `pack` of a constructible LV: length octet, then the value -/
theorem CfdpLv.pack_eq (l : CfdpLv) (h : l.value.length ≤ 255) :
    l.pack = .ok (u8 l.value.length :: l.value) := by
  unfold CfdpLv.pack
  rw [byteOfN_ok (by omega)]
  simp only [bind, Except.bind, pure, Except.pure]
  by_cases h0 : l.value.length > 0
  · simp [h0]
  · have : l.value = [] := List.eq_nil_of_length_eq_zero (by omega)
    simp [this]

theorem CfdpLv.pack_err (l : CfdpLv) (h : 255 < l.value.length) : l.pack = .error .value := by
  have : ¬ l.value.length < 256 := by omega
  simp [CfdpLv.pack, byteOfN, this, bind, Except.bind]

theorem CfdpLv.pack_length (l : CfdpLv) (b : Bytes) (h : l.pack = .ok b) : b.length = l.packetLen := by
  by_cases hl : l.value.length ≤ 255
  · rw [CfdpLv.pack_eq l hl] at h
    cases h; simp [CfdpLv.packetLen]
  · rw [CfdpLv.pack_err l (by omega)] at h; cases h

theorem CfdpLv.unpack_nil : CfdpLv.unpack [] = .error .value := by
  simp [CfdpLv.unpack, throw, throwThe, MonadExceptOf.throw, bind, Except.bind]

/-- the decoder on a non-empty input, in closed form -/
theorem CfdpLv.unpack_cons (n : UInt8) (r : Bytes) :
    CfdpLv.unpack (n :: r) =
      if n.toNat ≤ r.length then .ok ⟨r.take n.toNat⟩ else .error .value := by
  have hn := toNat_lt n
  unfold CfdpLv.unpack
  simp only [List.length_cons, show ¬ (r.length + 1 < 1) by omega, ↓reduceIte, bind, Except.bind,
    idx_ok (show 0 < (n :: r).length by simp), List.getElem_cons_zero,
    throw, throwThe, MonadExceptOf.throw]
  by_cases h : n.toNat ≤ r.length
  · have g : ¬ (1 + n.toNat > r.length + 1) := by omega
    simp only [g, h, ↓reduceIte]
    by_cases h0 : n.toNat = 0
    · simp [h0, CfdpLv.new]
    · simp only [h0, ↓reduceIte]
      have hs : slice (n :: r) 1 (1 + n.toNat) = r.take n.toNat := by
        simp [slice, Nat.add_comm 1 n.toNat]
      rw [hs, CfdpLv.new_ok (by simp; omega)]
  · have g : 1 + n.toNat > r.length + 1 := by omega
    simp [g, h]

theorem CfdpLv.unpack_ok_iff (d : Bytes) (l : CfdpLv) :
    CfdpLv.unpack d = .ok l ↔ ∃ n r, d = n :: r ∧ n.toNat ≤ r.length ∧ l = ⟨r.take n.toNat⟩ := by
  cases d with
  | nil => simp [CfdpLv.unpack_nil]
  | cons n r =>
    rw [CfdpLv.unpack_cons]
    constructor
    · intro h
      by_cases hn : n.toNat ≤ r.length
      · simp only [hn, ↓reduceIte, Except.ok.injEq] at h
        exact ⟨n, r, rfl, hn, h.symm⟩
      · simp [hn] at h
    · rintro ⟨n', r', he, hn, hl⟩
      cases he
      simp [hn, hl]

/-- the decoder fails only with the documented too-short / invalid-length error -/
theorem CfdpLv.unpack_err (d : Bytes) (e : Err) (h : CfdpLv.unpack d = .error e) : e = .value := by
  cases d with
  | nil => rw [CfdpLv.unpack_nil] at h; cases h; rfl
  | cons n r =>
    rw [CfdpLv.unpack_cons] at h
    split at h
    · cases h
    · cases h; rfl

theorem CfdpLv.unpack_documented (d : Bytes) : Documented (CfdpLv.unpack d) := by
  intro e h; rw [CfdpLv.unpack_err d e h]; rfl

/-- **prefix lemma**: the packed LV followed by anything decodes to the LV -/
theorem CfdpLv.unpack_pack_append (v rest : Bytes) (h : v.length ≤ 255) :
    CfdpLv.unpack (u8 v.length :: (v ++ rest)) = .ok ⟨v⟩ := by
  rw [CfdpLv.unpack_cons]
  have e : (u8 v.length).toNat = v.length := by simp; omega
  simp [e]

/-- **prefix stability**: octets after a complete LV never change what is decoded -/
theorem CfdpLv.unpack_append (d rest : Bytes) (l : CfdpLv) (h : CfdpLv.unpack d = .ok l) :
    CfdpLv.unpack (d ++ rest) = .ok l := by
  obtain ⟨n, r, hd, hn, hl⟩ := (CfdpLv.unpack_ok_iff d l).1 h
  subst hd
  rw [List.cons_append, CfdpLv.unpack_cons]
  have : n.toNat ≤ (r ++ rest).length := by simp; omega
  rw [if_pos this, hl, List.take_append_of_le_length hn]

/-- a decoded LV has at most 255 value octets, lies inside the input, and the input starts with
    exactly its encoding (`encode ∘ decode` = the consumed prefix) -/
theorem CfdpLv.unpack_spec (d : Bytes) (l : CfdpLv) (h : CfdpLv.unpack d = .ok l) :
    l.value.length ≤ 255 ∧ l.packetLen ≤ d.length ∧
      d = u8 l.value.length :: l.value ++ d.drop l.packetLen := by
  obtain ⟨n, r, hd, hn, hl⟩ := (CfdpLv.unpack_ok_iff d l).1 h
  subst hd hl
  have hb := toNat_lt n
  have e : (r.take n.toNat).length = n.toNat := by simp; omega
  refine ⟨by rw [e]; omega, by simp [CfdpLv.packetLen]; omega, ?_⟩
  simp only [CfdpLv.packetLen, e, u8_toNat_self, List.drop_succ_cons, List.cons_append,
    List.take_append_drop]

end SpVerif.Lv
