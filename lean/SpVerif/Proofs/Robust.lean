import SpVerif.Props.C01
import SpVerif.Props.C05
import SpVerif.Proofs.CfdpCrcAccept
import SpVerif.Proofs.Tlv
import SpVerif.Proofs.Uslp
/-!
# Helper lemmas for C10 (robust decoding)

* `Rejected x`: the computation fails, and with a documented error class.
* `prefix_rejected`: the generic route to "every strict prefix of a valid self-delimiting unit is
  rejected". A decoder `D` whose acceptance implies that a *header* decoder `H` accepted with a
  declared length inside the buffer, where `H` ignores trailing octets, rejects every strict prefix
  of an input on which `H` declares the full length.
* append-stability of the header decoders that the owning Proofs files do not state in that form
  (`Sph.unpack`, `PduHeader.unpack`).
-/
namespace SpVerif.Robust
open SpVerif

/-- fails, and with a documented error class -/
def Rejected {α : Type} (x : Py α) : Prop := ∃ e, x = .error e ∧ e.documented = true

theorem Rejected.of_err {α : Type} {x : Py α} {e : Err} (h : x = .error e) (hd : e.documented = true) :
    Rejected x := ⟨e, h, hd⟩

/-- a computation that fails only with documented errors and does not succeed is rejected -/
theorem Rejected.of_documented {α : Type} {x : Py α} (hd : Documented x) (hn : ∀ a, x ≠ .ok a) :
    Rejected x := by
  cases hx : x with
  | ok a => exact absurd hx (hn a)
  | error e => exact ⟨e, rfl, hd e hx⟩

theorem Rejected.documented {α : Type} {x : Py α} (h : Rejected x) : Documented x := by
  obtain ⟨e, he, hd⟩ := h
  intro e' h'
  rw [he] at h'
  cases h'
  exact hd

theorem Rejected.not_ok {α : Type} {x : Py α} (h : Rejected x) (a : α) : x ≠ .ok a := by
  obtain ⟨e, he, _⟩ := h
  rw [he]
  intro h'
  cases h'

/-- **generic prefix lemma.** `D` is the decoder, `H` the (header) decoder that fixes the declared
    length `len`. If acceptance by `D` implies acceptance by `H` with the declared length inside
    the buffer, `H` ignores trailing octets, and on `p` the header declares exactly `p.length`, then
    `D` rejects `p.take k` for every `k < p.length`. -/
theorem prefix_rejected {α β : Type} (D : Bytes → Py α) (H : Bytes → Py β) (len : β → Nat)
    (hdoc : ∀ d, Documented (D d))
    (hacc : ∀ d a, D d = .ok a → ∃ b, H d = .ok b ∧ len b ≤ d.length)
    (happ : ∀ d r b, H d = .ok b → H (d ++ r) = .ok b)
    (p : Bytes) (b : β) (hp : H p = .ok b) (hb : len b = p.length) (k : Nat) (hk : k < p.length) :
    Rejected (D (p.take k)) := by
  apply Rejected.of_documented (hdoc _)
  intro a ha
  obtain ⟨b', hb', hl⟩ := hacc _ a ha
  have := happ _ (p.drop k) b' hb'
  rw [List.take_append_drop, hp] at this
  cases this
  simp only [List.length_take] at hl
  omega

/-- the same with `D` itself as the length-fixing decoder -/
theorem prefix_rejected_self {α : Type} (D : Bytes → Py α) (len : α → Nat)
    (hdoc : ∀ d, Documented (D d))
    (hlen : ∀ d a, D d = .ok a → len a ≤ d.length)
    (happ : ∀ d r a, D d = .ok a → D (d ++ r) = .ok a)
    (p : Bytes) (a : α) (hp : D p = .ok a) (ha : len a = p.length) (k : Nat) (hk : k < p.length) :
    Rejected (D (p.take k)) :=
  prefix_rejected D D len hdoc (fun d a h => ⟨a, h, hlen d a h⟩) happ p a hp ha k hk

/-! ## append-stability of header decoders -/

open SpacePacket in
/-- the space packet header decoder reads six octets only -/
theorem sph_unpack_append (d r : Bytes) (h : Sph) (hu : Sph.unpack d = .ok h) :
    Sph.unpack (d ++ r) = .ok h := by
  by_cases h6 : d.length < 6
  · rw [Props.C01.C01_short d h6] at hu; cases hu
  · have h6' : 6 ≤ d.length := by omega
    have h6'' : 6 ≤ (d ++ r).length := by simp; omega
    rw [Props.C01.unpack_eq d h6'] at hu
    rw [Props.C01.unpack_eq _ h6'', ← hu]
    have e0 : (d ++ r)[0] = d[0] := List.getElem_append_left (by omega)
    have e1 : (d ++ r)[1] = d[1] := List.getElem_append_left (by omega)
    have e2 : (d ++ r)[2] = d[2] := List.getElem_append_left (by omega)
    have e3 : (d ++ r)[3] = d[3] := List.getElem_append_left (by omega)
    have e4 : (d ++ r)[4] = d[4] := List.getElem_append_left (by omega)
    have e5 : (d ++ r)[5] = d[5] := List.getElem_append_left (by omega)
    simp only [e0, e1, e2, e3, e4, e5]

open CfdpHeader in
/-- the CFDP fixed header decoder reads the header only -/
theorem pdu_header_unpack_append (d r : Bytes) (h : PduHeader) (hu : PduHeader.unpack d = .ok h) :
    PduHeader.unpack (d ++ r) = .ok h := by
  have := Props.C05.C05_unpack_prefix d h hu (d.drop h.headerLen ++ r)
  rwa [← List.append_assoc, List.take_append_drop] at this

/-- decoders of the shape `first d >>= f`: acceptance implies acceptance of the first stage -/
theorem bind_ok_first {α β : Type} {x : Py α} {f : α → Py β} {b : β} (h : (x >>= f) = .ok b) :
    ∃ a, x = .ok a ∧ f a = .ok b := by
  cases x with
  | error e => cases h
  | ok a => exact ⟨a, rfl, h⟩

end SpVerif.Robust
