import SpVerif.Model.Srv1
/-!
# Reusable lemmas about the models of `ecss/req_id.py`, `ecss/fields.py` (PacketFieldEnum) and
# `ecss/pus_1_verification.py`

Equational characterisations of the decoders (`… = ok …` under the guard, `= error value` otherwise)
and "only documented errors" facts, for use by the property files (C15, and the cross-cutting
C09/C10/C16).
-/
namespace SpVerif.Srv1
open SpVerif SpVerif.SpacePacket SpVerif.PusTm

/-- the widths a `PacketFieldEnum` can have -/
def Width (w : Nat) : Prop := w = 1 ∨ w = 2 ∨ w = 4 ∨ w = 8

instance (w : Nat) : Decidable (Width w) := by unfold Width; infer_instance

theorem Width.pos {w : Nat} (h : Width w) : 0 < w := by unfold Width at h; omega

/-! ## Request id -/

private theorem dr_g (x y : Nat) (hx : x < 256) (hy : y < 256) :
    ¬ 16383 < (x * 256 + y) / 65536 * 65536 + (x * 256 + y) % 16384 := by omega
private theorem dr1 (x y : Nat) (hx : x < 256) (hy : y < 256) : (x * 256 + y) / 8192 % 8 = x / 32 := by omega
private theorem dr2 (x y : Nat) (hy : y < 256) : (x * 256 + y) / 4096 % 2 = x / 16 % 2 := by omega
private theorem dr3 (x y : Nat) (hy : y < 256) : (x * 256 + y) / 2048 % 2 = x / 8 % 2 := by omega
private theorem dr4 (x y : Nat) (hy : y < 256) : (x * 256 + y) % 2048 = x % 8 * 256 + y := by omega
private theorem dr5 (x y : Nat) (hx : x < 256) (hy : y < 256) : (x * 256 + y) / 16384 % 4 = x / 64 := by omega
private theorem dr6 (x y : Nat) (hx : x < 256) (hy : y < 256) :
    (x * 256 + y) / 65536 * 65536 + (x * 256 + y) % 16384 = x % 64 * 256 + y := by omega

/-- `RequestId.unpack` on at least four octets: total, fields read from the first four octets -/
theorem ReqId.unpack_eq (d : Bytes) (h4 : 4 ≤ d.length) :
    ReqId.unpack d = .ok ⟨d[0].toNat / 32, ⟨d[0].toNat / 16 % 2, d[0].toNat / 8 % 2, d[0].toNat % 8 * 256 + d[1].toNat⟩,
      ⟨d[2].toNat / 64, d[2].toNat % 64 * 256 + d[3].toNat⟩⟩ := by
  have hl : ¬ d.length < 4 := by omega
  have b0 := toNat_lt d[0]
  have b1 := toNat_lt d[1]
  have b2 := toNat_lt d[2]
  have b3 := toNat_lt d[3]
  have b1' := toNat_lt d[0+1]
  have b3' := toNat_lt d[2+1]
  unfold ReqId.unpack
  simp only [hl, ↓reduceIte, bind, Except.bind, pure, Except.pure,
    unpackBE2_slice d 0 (by omega), unpackBE2_slice d 2 (by omega), Psc.fromRaw, Psc.new_nat]
  simp only [dr_g _ _ b2 b3', ↓reduceIte, PacketId.fromRaw, dr1 _ _ b0 b1', dr2 _ _ b1', dr3 _ _ b1', dr4 _ _ b1',
    dr5 _ _ b2 b3', dr6 _ _ b2 b3']
  have g2 : ¬ 16383 < d[2].toNat % 64 * 256 + d[2+1].toNat := by omega
  simp [g2]

/-- `RequestId.unpack` on fewer than four octets: ValueError -/
theorem ReqId.unpack_short (d : Bytes) (h : d.length < 4) : ReqId.unpack d = .error .value := by
  simp [ReqId.unpack, h, throw, throwThe, MonadExceptOf.throw, bind, Except.bind]

theorem ReqId.unpack_documented (d : Bytes) : Documented (ReqId.unpack d) := by
  by_cases h : d.length < 4
  · rw [ReqId.unpack_short d h]; exact Documented.err rfl
  · rw [ReqId.unpack_eq d (by omega)]; exact Documented.ok _

/-- the decoder only looks at the first four octets -/
theorem ReqId.unpack_take (d : Bytes) (h4 : 4 ≤ d.length) : ReqId.unpack (d.take 4) = ReqId.unpack d := by
  rw [ReqId.unpack_eq d h4, ReqId.unpack_eq (d.take 4) (by simp; omega)]
  simp [List.getElem_take]

/-! ## PacketFieldEnum -/

theorem roundDiv8_mul (w : Nat) : roundDiv8 (w * 8) = w := by
  have h1 : w * 8 / 8 = w := by omega
  have h2 : w * 8 % 8 = 0 := by omega
  simp [roundDiv8, h1, h2]

/-- Python's `round(pfc / 8)`: the result is within half a unit, ties go to the even neighbour -/
theorem roundDiv8_spec (pfc : Nat) :
    8 * roundDiv8 pfc ≤ pfc + 4 ∧ pfc ≤ 8 * roundDiv8 pfc + 4 ∧
    ((pfc + 4 = 8 * roundDiv8 pfc ∨ pfc = 8 * roundDiv8 pfc + 4) → roundDiv8 pfc % 2 = 0) := by
  unfold roundDiv8
  simp only
  split
  · omega
  · split
    · omega
    · split <;> omega

/-- `check_pfc` accepts exactly the PFC values that round to 1, 2, 4 or 8 octets and returns that width -/
theorem checkPfc_eq (pfc : Nat) :
    checkPfc pfc = if Width (roundDiv8 pfc) then .ok (roundDiv8 pfc) else .error .value := by
  simp [checkPfc, Width]

theorem checkPfc_width {w : Nat} (h : Width w) : checkPfc (w * 8) = .ok w := by
  rw [checkPfc_eq, roundDiv8_mul]; simp [h]

theorem checkPfc_ok {pfc n : Nat} (h : checkPfc pfc = .ok n) : Width n ∧ n = roundDiv8 pfc := by
  rw [checkPfc_eq] at h
  split at h
  · cases h; exact ⟨‹_›, rfl⟩
  · cases h

theorem checkPfc_documented (pfc : Nat) : Documented (checkPfc pfc) := by
  rw [checkPfc_eq]; split
  · exact Documented.ok _
  · exact Documented.err rfl

theorem pow_width {w : Nat} (h : Width w) : 0 < 256 ^ w := Nat.pow_pos (by omega)

/-- `IntByteConversion.to_unsigned` on an allowed width: big-endian octets, or ValueError if too large -/
theorem toUnsigned_eq {w : Nat} (h : Width w) (v : Nat) :
    toUnsigned w v = if v < 256 ^ w then .ok (beBytes w v) else .error .value := by
  have hp := pow_width h
  have h0 : ¬ w = 0 := by have := h.pos; omega
  have hm : w = 0 ∨ w = 1 ∨ w = 2 ∨ w = 4 ∨ w = 8 := Or.inr h
  have c1 : ¬ ¬ (w = 0 ∨ w = 1 ∨ w = 2 ∨ w = 4 ∨ w = 8) := fun c => c hm
  unfold toUnsigned
  rw [if_neg c1, if_neg h0]
  by_cases hv : v < 256 ^ w
  · have g : ¬ v > 256 ^ w - 1 := by omega
    rw [if_neg g, if_pos hv, packBE_ok hv]
  · have g : v > 256 ^ w - 1 := by omega
    rw [if_pos g, if_neg hv]

theorem Pfe.new_eq (pfc val : Nat) :
    Pfe.new pfc val = if Width (roundDiv8 pfc) then .ok ⟨pfc, val⟩ else .error .value := by
  unfold Pfe.new
  rw [checkPfc_eq]
  split <;> rfl

/-- `PacketFieldEnum.pack()` -/
theorem Pfe.pack_eq (f : Pfe) :
    f.pack = if Width (roundDiv8 f.pfc) then
        (if f.val < 256 ^ roundDiv8 f.pfc then .ok (beBytes (roundDiv8 f.pfc) f.val) else .error .value)
      else .error .value := by
  unfold Pfe.pack
  rw [checkPfc_eq]
  split
  · rename_i h
    simp only [bind, Except.bind]
    exact toUnsigned_eq h _
  · rfl

/-- `PacketFieldEnum.unpack(data, pfc)`: the value is the big-endian number in the first `width` octets -/
theorem Pfe.unpack_eq (d : Bytes) (pfc : Nat) :
    Pfe.unpack d pfc = if Width (roundDiv8 pfc) then
        (if roundDiv8 pfc ≤ d.length then .ok ⟨pfc, beNat (d.take (roundDiv8 pfc))⟩ else .error .value)
      else .error .value := by
  unfold Pfe.unpack
  rw [checkPfc_eq]
  split
  · rename_i h
    simp only [bind, Except.bind]
    by_cases hl : roundDiv8 pfc ≤ d.length
    · have g : ¬ roundDiv8 pfc > d.length := by omega
      have hs : (slice d 0 (roundDiv8 pfc)).length = roundDiv8 pfc := by simp; omega
      simp only [g, hl, ↓reduceIte, pure, Except.pure, unpackBE_ok hs]
      rw [Pfe.new_eq]
      simp [h, slice]
    · have g : roundDiv8 pfc > d.length := by omega
      simp [g, hl, throw, throwThe, MonadExceptOf.throw]
  · rfl

theorem Pfe.unpack_documented (d : Bytes) (pfc : Nat) : Documented (Pfe.unpack d pfc) := by
  rw [Pfe.unpack_eq]
  split
  · split
    · exact Documented.ok _
    · exact Documented.err rfl
  · exact Documented.err rfl

/-- decoding `width` big-endian octets (followed by anything) with PFC `8·width` -/
theorem Pfe.unpack_beBytes {w : Nat} (h : Width w) (v : Nat) (hv : v < 256 ^ w) (rest : Bytes) :
    Pfe.unpack (beBytes w v ++ rest) (w * 8) = .ok ⟨w * 8, v⟩ := by
  rw [Pfe.unpack_eq, roundDiv8_mul]
  have hl : w ≤ (beBytes w v ++ rest).length := by simp
  have ht : (beBytes w v ++ rest).take w = beBytes w v := by
    have := List.take_left' (l₁ := beBytes w v) (l₂ := rest) (beBytes_length w v)
    exact this
  simp only [h, hl, ↓reduceIte, ht, beNat_beBytes w v hv]

/-! ## FailureNotice -/

theorem FailureNotice.unpack_documented (d : Bytes) (nErr : Nat) (nData : Option Nat) :
    Documented (FailureNotice.unpack d nErr nData) := by
  unfold FailureNotice.unpack
  apply Documented.bind (Pfe.unpack_documented _ _)
  intro a _
  exact Documented.ok _

/-! ## Service1Tm decoder -/

/-- `_unpack_raw_tm` fails, if at all, with ValueError (a documented class) -/
theorem unpackRaw_documented (tm : Tm) (sb eb : Nat) : Documented (unpackRaw tm sb eb) := by
  unfold unpackRaw
  simp only []
  by_cases h4 : tm.sourceData.length < 4
  · simp only [h4, ↓reduceIte, throw, throwThe, MonadExceptOf.throw, bind, Except.bind]
    exact Documented.err rfl
  · simp only [h4, ↓reduceIte]
    refine Documented.bind (ReqId.unpack_documented _) (fun req _ => ?_)
    repeat' split
    all_goals
      first
      | exact Documented.ok _
      | exact Documented.err rfl
      | exact Documented.bind (Pfe.unpack_documented _ _) (fun _ _ => Documented.ok _)
      | exact Documented.bind (FailureNotice.unpack_documented _ _ _) (fun _ _ => Documented.ok _)
      | exact Documented.bind (Pfe.unpack_documented _ _) (fun _ _ =>
          Documented.bind (FailureNotice.unpack_documented _ _ _) (fun _ _ => Documented.ok _))

end SpVerif.Srv1
