import SpVerif.Model.Parser
/-!
# Lemmas about the stream-parser model (reusable: non-private)

* `scanPy_eq`, `parseCall_eq`, `runPy_eq`: the Python-faithful `Py` versions never fail and compute the
  pure functions (`struct.unpack` is only reached with a slice of exactly two octets).
* `scan_chunk`: decisions taken while scanning `a` are unchanged by octets that arrive later.
* `scan_idem`, `scan_residual_fixed`: a residual is a fixed point.
* `call_packets`, `call_queue`: one call on a deque depends only on the concatenation of the chunks.
* `run_invariant`, `run_append`: schedules.
* `scan_packet`, `scan_junk_skip`, `scan_junk_tail`, `scan_incomplete`: building blocks of the stream theorem.
-/
namespace SpVerif.Parser
open SpVerif SpVerif.SpacePacket

/-! ## Reading the header words -/

theorem pidOf_append (a b : Bytes) (h : 2 ≤ a.length) : pidOf (a ++ b) = pidOf a := by
  simp only [pidOf, slice_append_left a b 0 2 h]

theorem lenFieldOf_append (a b : Bytes) (h : 6 ≤ a.length) : lenFieldOf (a ++ b) = lenFieldOf a := by
  simp only [lenFieldOf, slice_append_left a b 4 6 h]

theorem totalOf_append (a b : Bytes) (h : 6 ≤ a.length) : totalOf (a ++ b) = totalOf a := by
  simp only [totalOf, lenFieldOf_append a b h]

theorem totalOf_ge (a : Bytes) : 7 ≤ totalOf a := by
  simp only [totalOf, totalLenFromLenField]; omega

theorem totalOf_eq (a : Bytes) : totalOf a = lenFieldOf a + 7 := by
  simp only [totalOf, totalLenFromLenField]

theorem pidOf_take (a : Bytes) (n : Nat) (h : 2 ≤ n) (hn : n ≤ a.length) : pidOf (a.take n) = pidOf a := by
  conv => rhs; rw [← List.take_append_drop n a]
  rw [pidOf_append _ _ (by simp; omega)]

theorem totalOf_take (a : Bytes) (n : Nat) (h : 6 ≤ n) (hn : n ≤ a.length) : totalOf (a.take n) = totalOf a := by
  conv => rhs; rw [← List.take_append_drop n a]
  rw [totalOf_append _ _ (by simp; omega)]

theorem unpackBE_slice_pid (rest : Bytes) (h : 2 ≤ rest.length) :
    unpackBE 2 (slice rest 0 2) = .ok (beNat (slice rest 0 2)) :=
  unpackBE_ok (by simp; omega)

theorem unpackBE_slice_len (rest : Bytes) (h : 6 ≤ rest.length) :
    unpackBE 2 (slice rest 4 6) = .ok (beNat (slice rest 4 6)) :=
  unpackBE_ok (by simp; omega)

/-! ## The `Py` scan never fails and is the pure scan -/

theorem scanPy_eq (ids : List Nat) (rest : Bytes) : scanPy ids rest = .ok (scan ids rest) := by
  fun_induction scan ids rest with
  | case1 rest h6 => rw [scanPy]; simp [h6]; rfl
  | case2 rest h6 hpid hinc =>
    simp only [headerLen] at h6
    rw [scanPy]
    simp only [headerLen, h6, ↓reduceDIte, unpackBE_slice_pid rest (by omega), unpackBE_slice_len rest (by omega),
      bind, Except.bind]
    have hp : beNat (slice rest 0 2) % idModulus ∈ ids := hpid
    have hi : totalLenFromLenField (beNat (slice rest 4 6)) > rest.length := hinc
    simp only [hp, ↓reduceIte, hi, ↓reduceDIte]; rfl
  | case3 rest h6 hpid hinc r ih =>
    simp only [headerLen] at h6
    rw [scanPy]
    simp only [headerLen, h6, ↓reduceDIte, unpackBE_slice_pid rest (by omega), unpackBE_slice_len rest (by omega),
      bind, Except.bind]
    have hp : beNat (slice rest 0 2) % idModulus ∈ ids := hpid
    have hi : ¬ totalLenFromLenField (beNat (slice rest 4 6)) > rest.length := hinc
    have ih' : scanPy ids (List.drop (totalLenFromLenField (beNat (slice rest 4 6))) rest) = .ok r := ih
    simp only [hp, ↓reduceIte, hi, ↓reduceDIte, ih']; rfl
  | case4 rest h6 hpid ih =>
    simp only [headerLen] at h6
    rw [scanPy]
    simp only [headerLen, h6, ↓reduceDIte, unpackBE_slice_pid rest (by omega), bind, Except.bind]
    have hp : ¬ beNat (slice rest 0 2) % idModulus ∈ ids := hpid
    simp only [hp, ↓reduceIte, ih]

/-! ## Unfolding lemmas for the pure scan -/

theorem scan_short (ids : List Nat) (rest : Bytes) (h : rest.length ≤ 6) : scan ids rest = ([], rest) := by
  rw [scan]; simp [headerLen, h]

theorem scan_incomplete (ids : List Nat) (rest : Bytes) (hpid : pidOf rest ∈ ids)
    (hinc : rest.length < totalOf rest) : scan ids rest = ([], rest) := by
  rw [scan]
  by_cases h6 : rest.length ≤ headerLen
  · simp [h6]
  · simp [h6, hpid, hinc]

theorem scan_match (ids : List Nat) (rest : Bytes) (h6 : 6 < rest.length) (hpid : pidOf rest ∈ ids)
    (hc : totalOf rest ≤ rest.length) :
    scan ids rest = (rest.take (totalOf rest) :: (scan ids (rest.drop (totalOf rest))).1,
                     (scan ids (rest.drop (totalOf rest))).2) := by
  rw [scan]
  have h6' : ¬ rest.length ≤ headerLen := by simp [headerLen]; omega
  have hc' : ¬ totalOf rest > rest.length := by omega
  simp [h6', hpid, hc']

theorem scan_skip (ids : List Nat) (rest : Bytes) (h6 : 6 < rest.length) (hpid : pidOf rest ∉ ids) :
    scan ids rest = scan ids (rest.drop 1) := by
  rw [scan]
  have h6' : ¬ rest.length ≤ headerLen := by simp [headerLen]; omega
  simp [h6', hpid]

/-! ## Chunk invariance -/

/-- scanning `a ++ b` = scanning `a`, then scanning (what was left of `a`) `++ b` -/
theorem scan_chunk (ids : List Nat) (a b : Bytes) :
    scan ids (a ++ b) =
      ((scan ids a).1 ++ (scan ids ((scan ids a).2 ++ b)).1, (scan ids ((scan ids a).2 ++ b)).2) := by
  fun_induction scan ids a with
  | case1 rest h6 => simp
  | case2 rest h6 hpid hinc => simp
  | case3 rest h6 hpid hinc r ih =>
    simp only [headerLen] at h6
    have hle : totalOf rest ≤ rest.length := by omega
    rw [scan_match ids (rest ++ b) (by simp; omega) (by rw [pidOf_append _ _ (by omega)]; exact hpid)
      (by rw [totalOf_append _ _ (by omega)]; simp; omega)]
    rw [totalOf_append _ _ (by omega), List.drop_append_of_le_length hle,
      List.take_append_of_le_length hle, ih]
    simp [r]
  | case4 rest h6 hpid ih =>
    simp only [headerLen] at h6
    rw [scan_skip ids (rest ++ b) (by simp; omega) (by rw [pidOf_append _ _ (by omega)]; exact hpid)]
    rw [List.drop_append_of_le_length (by omega), ih]

/-- the residual of a scan is a fixed point: scanning it again returns nothing and keeps it -/
theorem scan_idem (ids : List Nat) (a : Bytes) : scan ids (scan ids a).2 = ([], (scan ids a).2) := by
  fun_induction scan ids a with
  | case1 rest h6 => exact scan_short ids rest h6
  | case2 rest h6 hpid hinc => exact scan_incomplete ids rest hpid hinc
  | case3 rest h6 hpid hinc r ih => exact ih
  | case4 rest h6 hpid ih => exact ih

/-- every returned packet carries a registered ID and has exactly the length its header announces -/
theorem scan_sound (ids : List Nat) (b : Bytes) :
    ∀ p ∈ (scan ids b).1, 6 < p.length ∧ pidOf p ∈ ids ∧ p.length = totalOf p := by
  fun_induction scan ids b with
  | case1 rest h6 => simp
  | case2 rest h6 hpid hinc => simp
  | case3 rest h6 hpid hinc r ih =>
    simp only [headerLen] at h6
    intro p hp
    simp only [List.mem_cons] at hp
    rcases hp with rfl | hp
    · have h7 := totalOf_ge rest
      have hle : totalOf rest ≤ rest.length := by omega
      refine ⟨by simp; omega, ?_, ?_⟩
      · rw [pidOf_take _ _ (by omega) hle]; exact hpid
      · rw [totalOf_take _ _ (by omega) hle]; simp; omega
    · exact ih p hp
  | case4 rest h6 hpid ih => exact ih

/-- the residual is a suffix of the buffer -/
theorem scan_suffix (ids : List Nat) (b : Bytes) : (scan ids b).2 <:+ b := by
  fun_induction scan ids b with
  | case1 rest h6 => exact List.suffix_refl _
  | case2 rest h6 hpid hinc => exact List.suffix_refl _
  | case3 rest h6 hpid hinc r ih => exact List.IsSuffix.trans ih (List.drop_suffix _ _)
  | case4 rest h6 hpid ih => exact List.IsSuffix.trans ih (List.drop_suffix _ _)

/-! ## One call on the deque -/

theorem requeue_flatten (r : Bytes) : (requeue r).flatten = r := by
  cases r <;> simp [requeue]

theorem call_packets (ids : List Nat) (q : List Bytes) : (call ids q).1 = (scan ids q.flatten).1 := by
  unfold call
  by_cases hq : q.isEmpty = true
  · have : q = [] := by simpa using hq
    subst this; simp [scan_short]
  · by_cases hl : q.flatten.length < headerLen
    · rw [if_neg hq, if_pos hl]
      simp only [headerLen] at hl
      rw [scan_short ids q.flatten (by omega)]
    · rw [if_neg hq, if_neg hl]

theorem call_queue (ids : List Nat) (q : List Bytes) : (call ids q).2.flatten = (scan ids q.flatten).2 := by
  unfold call
  by_cases hq : q.isEmpty = true
  · have : q = [] := by simpa using hq
    subst this; simp [scan_short]
  · by_cases hl : q.flatten.length < headerLen
    · rw [if_neg hq, if_pos hl]
      simp only [headerLen] at hl
      rw [scan_short ids q.flatten (by omega)]
      simp only [List.flatten_cons, List.flatten_nil, List.append_nil]
    · rw [if_neg hq, if_neg hl]
      exact requeue_flatten _

theorem parseCall_eq (ids : List Nat) (q : List Bytes) : parseCall ids q = .ok (call ids q) := by
  unfold parseCall call
  by_cases hq : q.isEmpty = true
  · rw [if_pos hq, if_pos hq]; rfl
  · by_cases hl : q.flatten.length < headerLen
    · rw [if_neg hq, if_neg hq]
      simp only [hl, ↓reduceIte]; rfl
    · rw [if_neg hq, if_neg hq]
      simp only [hl, ↓reduceIte, scanPy_eq, bind, Except.bind]; rfl

theorem runPy_eq (ids : List Nat) (q : List Bytes) (s : List Step) : runPy ids q s = .ok (run ids q s) := by
  induction s generalizing q with
  | nil => rfl
  | cons st s ih =>
    cases st with
    | append c => simp only [runPy, run, ih]
    | parse => simp only [runPy, run, parseCall_eq, ih, bind, Except.bind]; rfl

/-! ## Schedules -/

theorem fed_append (s₁ s₂ : List Step) : fed (s₁ ++ s₂) = fed s₁ ++ fed s₂ := by
  induction s₁ with
  | nil => rfl
  | cons st s ih => cases st <;> simp [fed, ih]

theorem returned_cons (o : List Bytes × List Bytes) (os : List (List Bytes × List Bytes)) :
    returned (o :: os) = o.1 ++ returned os := by
  simp [returned]

theorem returned_append (a b : List (List Bytes × List Bytes)) :
    returned (a ++ b) = returned a ++ returned b := by
  simp [returned]

theorem run_append (ids : List Nat) (q : List Bytes) (s₁ s₂ : List Step) :
    run ids q (s₁ ++ s₂) =
      ((run ids q s₁).1 ++ (run ids (run ids q s₁).2 s₂).1, (run ids (run ids q s₁).2 s₂).2) := by
  induction s₁ generalizing q with
  | nil => simp [run]
  | cons st s ih =>
    cases st with
    | append c => simp only [List.cons_append, run, ih]
    | parse => simp only [List.cons_append, run, ih]

/-- **schedule invariant**: at any point of any schedule, what has been returned so far followed by
    what a scan of the present deque would return is what one scan of everything fed would return,
    with the same residual -/
theorem run_invariant (ids : List Nat) (q : List Bytes) (s : List Step) :
    scan ids (q.flatten ++ fed s) =
      (returned (run ids q s).1 ++ (scan ids (run ids q s).2.flatten).1,
       (scan ids (run ids q s).2.flatten).2) := by
  induction s generalizing q with
  | nil => simp [run, fed, returned]
  | cons st s ih =>
    cases st with
    | append c =>
      have := ih (q ++ [c])
      simp only [List.flatten_append, List.flatten_cons, List.flatten_nil, List.append_nil,
        List.append_assoc] at this
      simp only [fed, run]
      exact this
    | parse =>
      have h := ih (call ids q).2
      rw [call_queue] at h
      simp only [fed, run, returned_cons, call_packets]
      rw [scan_chunk ids q.flatten (fed s), h]
      simp

/-! ## Building blocks of the stream theorem -/

/-- a complete packet with a registered ID at the start of the buffer is returned, and the scan
    continues behind it -/
theorem scan_packet (ids : List Nat) (p x : Bytes) (h6 : 6 < p.length) (hpid : pidOf p ∈ ids)
    (hlen : p.length = totalOf p) :
    scan ids (p ++ x) = (p :: (scan ids x).1, (scan ids x).2) := by
  have ht : totalOf (p ++ x) = p.length := by rw [totalOf_append _ _ (by omega)]; exact hlen.symm
  rw [scan_match ids (p ++ x) (by simp; omega) (by rw [pidOf_append _ _ (by omega)]; exact hpid)
    (by rw [ht]; simp)]
  rw [ht]; simp

/-- junk in front of at least seven further octets is skipped -/
theorem scan_junk_skip (ids : List Nat) (j x : Bytes) (hx : 6 < x.length)
    (hj : ∀ i, i < j.length → i + 1 < (j ++ x).length → pidOf ((j ++ x).drop i) ∉ ids) :
    scan ids (j ++ x) = scan ids x := by
  induction j with
  | nil => rfl
  | cons o j ih =>
    have h0 := hj 0 (by simp) (by simp; omega)
    rw [scan_skip ids (o :: j ++ x) (by simp; omega) (by simpa using h0)]
    simp only [List.cons_append, List.drop_succ_cons, List.drop_zero]
    apply ih
    intro i hi hi'
    have := hj (i + 1) (by simp; omega) (by simp at hi' ⊢; omega)
    simpa using this

/-- junk in front of an incomplete tail: skipped as long as more than six octets remain -/
theorem scan_junk_tail (ids : List Nat) (j t : Bytes) (ht : scan ids t = ([], t))
    (hj : ∀ i, i < j.length → i + 1 < (j ++ t).length → pidOf ((j ++ t).drop i) ∉ ids) :
    scan ids (j ++ t) = ([], (j ++ t).drop (min j.length ((j ++ t).length - 6))) := by
  induction j with
  | nil => simp [ht]
  | cons o j ih =>
    by_cases hs : (o :: j ++ t).length ≤ 6
    · rw [scan_short ids _ hs]
      have : (o :: j ++ t).length - 6 = 0 := by omega
      simp only [this, Nat.min_zero, List.drop_zero]
    · have h0 := hj 0 (by simp) (by simp at hs ⊢; omega)
      rw [scan_skip ids (o :: j ++ t) (by omega) (by simpa using h0)]
      simp only [List.cons_append, List.drop_succ_cons, List.drop_zero]
      rw [ih (by
        intro i hi hi'
        have := hj (i + 1) (by simp; omega) (by simp at hi' ⊢; omega)
        simpa using this)]
      have e : min (o :: j).length ((o :: (j ++ t)).length - 6) = min j.length ((j ++ t).length - 6) + 1 := by
        simp only [List.length_cons, List.cons_append] at hs ⊢
        omega
      rw [e, List.drop_succ_cons]

/-! ## Early discarding of junk -/

/-- a leading position whose two octets are known not to carry a registered ID can be dropped from
    the queue at once: the packets returned later are the same -/
theorem scan_drop_junk (ids : List Nat) (r c : Bytes) (h2 : 2 ≤ r.length) (hpid : pidOf r ∉ ids) :
    (scan ids (r ++ c)).1 = (scan ids (r.drop 1 ++ c)).1 := by
  by_cases hs : (r ++ c).length ≤ 6
  · rw [scan_short ids _ hs, scan_short ids _ (by simp at hs ⊢; omega)]
  · rw [scan_skip ids (r ++ c) (by omega) (by rw [pidOf_append _ _ h2]; exact hpid)]
    rw [List.drop_append_of_le_length (by omega)]

theorem scan_canonRest (ids : List Nat) (r c : Bytes) :
    (scan ids (canonRest ids r ++ c)).1 = (scan ids (r ++ c)).1 := by
  fun_induction canonRest ids r with
  | case1 r h ih => rw [ih, ← scan_drop_junk ids r c h.1 h.2]
  | case2 r h => rfl

end SpVerif.Parser
