import SpVerif.Model.Finished
import SpVerif.Proofs.Eof
/-!
# Lemmas about the Finished PDU model (reused by C04 / C09 / C10 / C11 / C12)

* `finParamLen`, `calcLen_eq'`, `calcLen_setLen`, `new_eq`, `setCond_eq`, `setResponses_eq`,
  `setFaultLoc_eq` — constructor and the three documented setters
* `unpackTlvs_documented` — the TLV loop terminates (it is defined by well-founded recursion on the
  unconsumed octets) and never raises `IndexError`: on a non-empty remainder it fails only with
  `ValueError` / `TlvTypeMissmatch`
* `parse`, `unpack_eq` (prelude, then `parse`), `parse_documented`, `unpack_documented`,
  `unpack_inv`, `unpack_take`
-/
namespace SpVerif.Finished
open SpVerif SpVerif.CfdpHeader SpVerif.FileDirective SpVerif.Tlv

/-- octets the fault location adds to a Finished PDU with condition code `cond` -/
def faultLen (cond : Int) : Option EntityIdTlv → Nat
  | some t => if mightHaveFaultLoc cond then t.packetLen else 0
  | none => 0

/-- directive-parameter length of a Finished PDU -/
def finParamLen (crcFlag : Nat) (cond : Int) (rs : List FileStoreResponseTlv) (fl : Option EntityIdTlv) : Nat :=
  (if crcFlag = 1 then 3 else 1) + faultLen cond fl + responsesLen rs

theorem calcLen_eq (fd : FileDirective) (cond : Int) (rs : List FileStoreResponseTlv) (fl : Option EntityIdTlv) :
    calcLen fd cond rs fl = fd.setParamLen (finParamLen fd.header.conf.crcFlag cond rs fl) := by
  unfold calcLen finParamLen faultLen
  cases fl <;> rfl

theorem calcLen_eq' (fd : FileDirective) (cond : Int) (rs : List FileStoreResponseTlv) (fl : Option EntityIdTlv) :
    calcLen fd cond rs fl =
      if 65535 < finParamLen fd.header.conf.crcFlag cond rs fl + 1 then .error .value
      else .ok { fd with header := { fd.header with
        dataFieldLen := finParamLen fd.header.conf.crcFlag cond rs fl + 1 } } := by
  rw [calcLen_eq, setParamLen_eq]

theorem calcLen_documented (fd : FileDirective) (cond : Int) (rs : List FileStoreResponseTlv)
    (fl : Option EntityIdTlv) : Documented (calcLen fd cond rs fl) := by
  rw [calcLen_eq]; exact setParamLen_documented _ _

/-- the computed length does not depend on the length stored before -/
theorem calcLen_setLen (fd : FileDirective) (n : Nat) (cond : Int) (rs : List FileStoreResponseTlv)
    (fl : Option EntityIdTlv) :
    calcLen { fd with header := { fd.header with dataFieldLen := n } } cond rs fl = calcLen fd cond rs fl := by
  rw [calcLen_eq', calcLen_eq']

theorem faultLen_none_le (cond : Int) (fl : Option EntityIdTlv) : faultLen cond none ≤ faultLen cond fl := by
  simp [faultLen]

/-- a length computation followed by a second one gives what the second one alone gives, unless
    the first already overflows -/
theorem calcLen_twice (fd : FileDirective) (c1 c2 : Int) (r1 r2 : List FileStoreResponseTlv)
    (f1 f2 : Option EntityIdTlv) :
    (calcLen fd c1 r1 f1 >>= fun fd' => calcLen fd' c2 r2 f2) =
      if 65535 < finParamLen fd.header.conf.crcFlag c1 r1 f1 + 1 then .error .value
      else calcLen fd c2 r2 f2 := by
  rw [calcLen_eq' fd c1 r1 f1]
  split
  · rfl
  · rw [bind_ok, calcLen_setLen]

/-- **complete case analysis of the constructor** -/
theorem new_eq (c : PduConfig) (cond : Int) (dc fs : Nat) (rs : List FileStoreResponseTlv)
    (fl : Option EntityIdTlv) :
    Finished.new c cond dc fs rs fl =
      if c.source.width ≠ c.dest.width ∨ 65535 < finParamLen c.crcFlag cond rs fl + 1 then .error .value
      else .ok ⟨⟨⟨0, 0, finParamLen c.crcFlag cond rs fl + 1, { c with direction := 1 }⟩, 5⟩,
                cond, dc, fs, rs, fl⟩ := by
  unfold Finished.new
  simp only [DIR_FINISHED]
  rw [FileDirective.new_eq]
  by_cases h2 : c.source.width = c.dest.width
  · have g : ¬ (65535 < 1 + 1 ∨ c.source.width ≠ c.dest.width) := by omega
    rw [if_neg g, bind_ok]
    by_cases h3 : 65535 < finParamLen c.crcFlag cond rs fl + 1
    · rw [if_pos (Or.inr h3)]
      cases fl with
      | none => simp only [bind, Except.bind, pure, Except.pure, calcLen_eq', h3, ↓reduceIte]
      | some t =>
        simp only [bind, Except.bind, calcLen_eq', h3, ↓reduceIte]
    · have g' : ¬ (c.source.width ≠ c.dest.width ∨ 65535 < finParamLen c.crcFlag cond rs fl + 1) := by omega
      rw [if_neg g']
      cases fl with
      | none => simp only [bind, Except.bind, pure, Except.pure, calcLen_eq', h3, ↓reduceIte]
      | some t =>
        simp only [bind, Except.bind, pure, Except.pure, calcLen_eq', h3, ↓reduceIte]
  · have g : (65535 < 1 + 1 ∨ c.source.width ≠ c.dest.width) := Or.inr h2
    rw [if_pos g, if_pos (Or.inl h2)]
    rfl

/-- the `condition_code` setter -/
theorem setCond_eq (k : Finished) (c : Int) :
    k.setCond c =
      if 65535 < finParamLen k.fd.header.conf.crcFlag c k.responses k.faultLoc + 1 then .error .value
      else .ok { k with cond := c, fd := { k.fd with header := { k.fd.header with
        dataFieldLen := finParamLen k.fd.header.conf.crcFlag c k.responses k.faultLoc + 1 } } } := by
  unfold Finished.setCond
  rw [calcLen_eq']
  split <;> rfl

/-- the `file_store_responses` setter -/
theorem setResponses_eq (k : Finished) (rs : Option (List FileStoreResponseTlv)) :
    k.setResponses rs =
      if 65535 < finParamLen k.fd.header.conf.crcFlag k.cond (rs.getD []) k.faultLoc + 1 then .error .value
      else .ok { k with responses := rs.getD [], fd := { k.fd with header := { k.fd.header with
        dataFieldLen := finParamLen k.fd.header.conf.crcFlag k.cond (rs.getD []) k.faultLoc + 1 } } } := by
  unfold Finished.setResponses
  cases rs <;> simp only [Option.getD] <;> rw [calcLen_eq'] <;> split <;> rfl

/-- the `fault_location` setter -/
theorem setFaultLoc_eq (k : Finished) (fl : Option EntityIdTlv) :
    k.setFaultLoc fl =
      if 65535 < finParamLen k.fd.header.conf.crcFlag k.cond k.responses fl + 1 then .error .value
      else .ok { k with faultLoc := fl, fd := { k.fd with header := { k.fd.header with
        dataFieldLen := finParamLen k.fd.header.conf.crcFlag k.cond k.responses fl + 1 } } } := by
  unfold Finished.setFaultLoc
  rw [calcLen_eq']
  split <;> rfl

/-! ## the TLV loop -/

theorem respLen_pos (r : FileStoreResponseTlv) : 0 < r.packetLen := by
  simp only [FileStoreResponseTlv.packetLen, commonPacketLen]; split <;> omega

theorem entityLen_pos (e : EntityIdTlv) : 0 < e.packetLen := by
  simp only [EntityIdTlv.packetLen, CfdpTlv.packetLen]; omega

/-- **the loop never raises `IndexError`** (nor anything undocumented): on a non-empty remainder it
    fails only with `ValueError` or `TlvTypeMissmatch`. Termination is by construction
    (well-founded recursion on the number of unconsumed octets). -/
theorem unpackTlvs_documented (might : Bool) : ∀ (n : Nat) (d : Bytes), d.length = n → d ≠ [] →
    Documented (unpackTlvs might d) := by
  intro n
  induction n using Nat.strongRecOn with
  | _ n ih =>
    intro d hn hne
    have hpos : 0 < d.length := List.length_pos_iff.mpr hne
    rw [unpackTlvs]
    rw [idx_ok hpos, bind_ok]
    split
    · apply Documented.bind (FileStoreResponseTlv.unpack_documented d)
      intro r _
      split
      · exact Documented.ok _
      · rename_i hlt
        have hp := respLen_pos r
        apply Documented.bind
        · apply ih (d.drop r.packetLen).length (by simp only [List.length_drop]; omega) _ rfl
          intro he
          have := congrArg List.length he
          simp only [List.length_drop, List.length_nil] at this
          omega
        · intro rest _; exact Documented.ok _
    · split
      · split
        · exact Documented.err rfl
        · apply Documented.bind (EntityIdTlv.unpack_documented d)
          intro e _
          split
          · exact Documented.ok _
          · rename_i hlt
            have hp := entityLen_pos e
            apply Documented.bind
            · apply ih (d.drop e.packetLen).length (by simp only [List.length_drop]; omega) _ rfl
              intro he
              have := congrArg List.length he
              simp only [List.length_drop, List.length_nil] at this
              omega
            · intro rest _; exact Documented.ok _
      · exact Documented.err rfl

/-! ## the decoder -/

/-- the two setter calls after the TLV loop -/
def finish (fd : FileDirective) (cond : Int) (rs : List FileStoreResponseTlv) (fl : Option EntityIdTlv) :
    Py FileDirective := do
  let fd ← calcLen fd cond rs none
  match fl with
  | some _ => calcLen fd cond rs fl
  | none => pure fd

theorem finish_eq (fd : FileDirective) (cond : Int) (rs : List FileStoreResponseTlv) (fl : Option EntityIdTlv) :
    finish fd cond rs fl =
      if 65535 < finParamLen fd.header.conf.crcFlag cond rs none + 1 then .error .value
      else calcLen fd cond rs fl := by
  unfold finish
  cases fl with
  | none =>
    simp only [calcLen_eq']
    split <;> rfl
  | some t => exact calcLen_twice fd cond cond rs rs none (some t)

theorem finish_documented (fd : FileDirective) (cond : Int) (rs : List FileStoreResponseTlv)
    (fl : Option EntityIdTlv) : Documented (finish fd cond rs fl) := by
  rw [finish_eq]
  split
  · exact Documented.err rfl
  · exact calcLen_documented _ _ _ _

/-- the parameter parser on the base object and the cut buffer the prelude returns -/
def parse (r : FileDirective × Bytes) : Py Finished := do
  let fd := r.1
  let data := r.2
  let i := fd.headerLen
  if i ≥ data.length then throw .value
  let b ← idx data i
  let cond ← enumOf condMembers (b / 16 % 16)
  let fd ← calcLen fd (cond : Int) [] none
  if data.length > i + 1 then
    let r ← unpackTlvs (mightHaveFaultLoc (cond : Int)) (data.drop (i + 1))
    let fd ← finish fd (cond : Int) r.1 r.2
    pure ⟨fd, (cond : Int), b / 4 % 2, b % 4, r.1, r.2⟩
  else
    pure ⟨fd, (cond : Int), b / 4 % 2, b % 4, [], none⟩

theorem unpack_eq (d : Bytes) : Finished.unpack d = prelude d >>= parse := by
  unfold Finished.unpack prelude parse finish
  cases FileDirective.unpack d with
  | error e => rfl
  | ok fd =>
    cases hv : fd.verify d with
    | error e => simp [hv, bind, Except.bind]
    | ok n =>
      obtain ⟨_, hle, _⟩ := (verify_ok_iff fd.header d n).mp hv
      have : ¬ fd.packetLen > d.length := by unfold FileDirective.packetLen; omega
      simp only [hv, this, ↓reduceIte, bind, Except.bind, pure, Except.pure]
      split
      · rfl
      · cases idx (d.take fd.paramsEnd) fd.headerLen with
        | error e => rfl
        | ok b =>
          simp only []
          cases enumOf condMembers (b / 16 % 16) with
          | error e => rfl
          | ok cond =>
            simp only []
            cases calcLen fd (cond : Int) [] none with
            | error e => rfl
            | ok fd1 =>
              simp only []
              split
              · cases unpackTlvs (mightHaveFaultLoc (cond : Int)) ((d.take fd.paramsEnd).drop (fd.headerLen + 1)) with
                | error e => rfl
                | ok r =>
                  simp only []
                  cases calcLen fd1 (cond : Int) r.1 none with
                  | error e => rfl
                  | ok fd2 =>
                    simp only []
                    cases r.2 <;> rfl
              · rfl

theorem parse_documented (r : FileDirective × Bytes) : Documented (parse r) := by
  obtain ⟨fd, p⟩ := r
  unfold parse
  simp only []
  split
  · exact Documented.err rfl
  · rename_i hlt
    have hi : fd.headerLen < p.length := by omega
    rw [idx_ok hi, bind_ok]
    apply Documented.bind (enumOf_documented _ _)
    intro cond _
    apply Documented.bind (calcLen_documented _ _ _ _)
    intro fd1 _
    split
    · rename_i hgt
      apply Documented.bind
      · apply unpackTlvs_documented _ _ _ rfl
        intro he
        have := congrArg List.length he
        simp only [List.length_drop, List.length_nil] at this
        omega
      · intro r _
        apply Documented.bind (finish_documented _ _ _ _)
        intro fd2 _
        exact Documented.ok _
    · exact Documented.ok _

/-- the decoder fails, on any octet string whatever, only with `ValueError`,
    `UnsupportedCfdpVersion`, `InvalidCrc` or `TlvTypeMissmatch` (never `IndexError`) -/
theorem unpack_documented (d : Bytes) : Documented (Finished.unpack d) := by
  rw [unpack_eq]; exact bind_prelude_documented parse parse_documented d

/-- **inversion**: an accepted buffer holds the whole declared PDU (CRC-16 zero when flagged) with
    at least the first parameter octet inside the declared parameter field -/
theorem unpack_inv (d : Bytes) (a : Finished) (h : Finished.unpack d = .ok a) :
    ∃ fd p, prelude d = .ok (fd, p) ∧ parse (fd, p) = .ok a ∧ fd.packetLen ≤ d.length ∧
      (fd.header.conf.crcFlag = 1 → Crc.crc16 (d.take fd.packetLen) = 0) ∧
      2 ≤ fd.header.dataFieldLen := by
  rw [unpack_eq] at h
  obtain ⟨fd, p, hp, hf, h3, h4, _⟩ := bind_prelude_take parse d a h
  obtain ⟨_, _, hlen, hpe, _, _⟩ := prelude_facts d fd p hp
  refine ⟨fd, p, hp, hf, h3, h4, ?_⟩
  have hpl : fd.packetLen = fd.header.dataFieldLen + fd.header.headerLen := rfl
  have hhl : fd.headerLen = fd.header.headerLen + 1 := rfl
  by_cases hs : fd.headerLen ≥ p.length
  · simp [parse, hs, throw, throwThe, MonadExceptOf.throw, bind, Except.bind] at hf
  · omega

/-! ## the decoded object never reports more than the declared PDU -/

theorem fsResponse_unpack_le {d : Bytes} {r : FileStoreResponseTlv} (h : FileStoreResponseTlv.unpack d = .ok r) :
    r.packetLen ≤ d.length := by
  rw [FileStoreResponseTlv.unpack_bind] at h
  cases ht : CfdpTlv.unpack d with
  | error e => rw [ht] at h; cases h
  | ok t =>
    rw [ht, bind_ok] at h
    rw [FileStoreResponseTlv.fromTlv_len_exact h]
    exact (CfdpTlv.unpack_spec d t ht).2.2.1

theorem entityId_unpack_le {d : Bytes} {e : EntityIdTlv} (h : EntityIdTlv.unpack d = .ok e) :
    e.packetLen ≤ d.length := by
  rw [EntityIdTlv.unpack_bind] at h
  cases ht : CfdpTlv.unpack d with
  | error e => rw [ht] at h; cases h
  | ok t =>
    rw [ht, bind_ok, EntityIdTlv.fromTlv_eq] at h
    split at h
    · cases h; exact (CfdpTlv.unpack_spec d t ht).2.2.1
    · cases h

/-- octets of the kept fault location (0 for none) -/
def entLen : Option EntityIdTlv → Nat
  | some t => t.packetLen
  | none => 0

/-- **what the TLV loop returns fits into what it was given**: the filestore responses it returns
    plus the one entity-ID TLV it keeps (the last) are not longer than the octets it consumed -/
theorem unpackTlvs_len (might : Bool) : ∀ (n : Nat) (d : Bytes), d.length = n → d ≠ [] →
    ∀ r, unpackTlvs might d = .ok r → responsesLen r.1 + entLen r.2 ≤ d.length := by
  intro n
  induction n using Nat.strongRecOn with
  | _ n ih =>
    intro d hn hne res h
    have hpos : 0 < d.length := List.length_pos_iff.mpr hne
    rw [unpackTlvs, idx_ok hpos, bind_ok] at h
    split at h
    · cases hr : FileStoreResponseTlv.unpack d with
      | error e => rw [hr] at h; cases h
      | ok r =>
        rw [hr, bind_ok] at h
        have hle := fsResponse_unpack_le hr
        split at h
        · cases h; simp only [responsesLen, entLen]; omega
        · rename_i hlt
          have hp := respLen_pos r
          cases hrest : unpackTlvs might (d.drop r.packetLen) with
          | error e => rw [hrest] at h; cases h
          | ok rest =>
            rw [hrest, bind_ok] at h
            cases h
            have := ih (d.drop r.packetLen).length (by simp only [List.length_drop]; omega) _ rfl (by
              intro he
              have := congrArg List.length he
              simp only [List.length_drop, List.length_nil] at this
              omega) rest hrest
            simp only [List.length_drop] at this
            simp only [responsesLen]; omega
    · split at h
      · split at h
        · cases h
        · cases he : EntityIdTlv.unpack d with
          | error e => rw [he] at h; cases h
          | ok e =>
            rw [he] at h
            simp only [bind_ok] at h
            have hle := entityId_unpack_le he
            split at h
            · cases h; simp only [responsesLen, entLen]; omega
            · rename_i hlt
              have hp := entityLen_pos e
              cases hrest : unpackTlvs might (d.drop e.packetLen) with
              | error e => rw [hrest] at h; cases h
              | ok rest =>
                rw [hrest, bind_ok] at h
                cases h
                have := ih (d.drop e.packetLen).length (by simp only [List.length_drop]; omega) _ rfl (by
                  intro he
                  have := congrArg List.length he
                  simp only [List.length_drop, List.length_nil] at this
                  omega) rest hrest
                simp only [List.length_drop] at this
                cases h2 : rest.2 with
                | none => simp only [h2, entLen] at this ⊢; omega
                | some x => simp only [h2, entLen] at this ⊢; omega
      · cases h

theorem faultLen_le_entLen (cond : Int) (fl : Option EntityIdTlv) : faultLen cond fl ≤ entLen fl := by
  cases fl with
  | none => simp [faultLen, entLen]
  | some t => simp only [faultLen, entLen]; split <;> omega

/-- the parser's result reports at most header + what it was given (+ CRC trailer) -/
theorem parse_len (fd : FileDirective) (p : Bytes) (a : Finished) (h : parse (fd, p) = .ok a) :
    a.fd.header.headerLen = fd.header.headerLen ∧
    a.fd.header.dataFieldLen + fd.header.headerLen ≤ p.length + (if fd.header.conf.crcFlag = 1 then 2 else 0) := by
  unfold parse at h
  simp only at h
  split at h
  · cases h
  · rename_i hi
    cases hb : idx p fd.headerLen with
    | error e => rw [hb] at h; cases h
    | ok b =>
      rw [hb, bind_ok] at h
      cases hc : enumOf condMembers (b / 16 % 16) with
      | error e => rw [hc] at h; cases h
      | ok cond =>
        rw [hc, bind_ok, calcLen_eq'] at h
        split at h
        · cases h
        · rw [bind_ok] at h
          have hhl : fd.headerLen = fd.header.headerLen + 1 := rfl
          split at h
          · rename_i hgt
            cases hr : unpackTlvs (mightHaveFaultLoc (cond : Int)) (p.drop (fd.headerLen + 1)) with
            | error e => rw [hr] at h; cases h
            | ok r =>
              rw [hr, bind_ok, finish_eq] at h
              split at h
              · cases h
              · rw [calcLen_eq'] at h
                split at h
                · cases h
                · simp only [bind_ok, pure, Except.pure] at h
                  cases h
                  have hl := unpackTlvs_len _ _ (p.drop (fd.headerLen + 1)) rfl (by
                    intro he
                    have := congrArg List.length he
                    simp only [List.length_drop, List.length_nil] at this
                    omega) r hr
                  have hf := faultLen_le_entLen (cond : Int) r.2
                  simp only [List.length_drop] at hl
                  refine ⟨rfl, ?_⟩
                  simp only [finParamLen]
                  split <;> omega
          · simp only [pure, Except.pure] at h
            cases h
            refine ⟨rfl, ?_⟩
            simp only [finParamLen, faultLen, responsesLen]
            split <;> omega

/-- **the decoded Finished PDU reports at most the declared PDU length** (its length is recomputed
    from the TLVs it kept: the filestore responses and the last entity-ID TLV) -/
theorem unpack_reported_le (d : Bytes) (a : Finished) (h : Finished.unpack d = .ok a) :
    ∃ fd p, prelude d = .ok (fd, p) ∧ a.fd.packetLen ≤ fd.packetLen := by
  obtain ⟨fd, p, hp, hf, _, _, _⟩ := unpack_inv d a h
  obtain ⟨_, _, hlen, _, _, _⟩ := prelude_facts d fd p hp
  obtain ⟨h1, h2⟩ := parse_len fd p a hf
  refine ⟨fd, p, hp, ?_⟩
  have e1 : a.fd.packetLen = a.fd.header.dataFieldLen + a.fd.header.headerLen := rfl
  have e2 : fd.packetLen = fd.header.dataFieldLen + fd.header.headerLen := rfl
  have hpe : fd.paramsEnd = fd.packetLen - (if fd.header.conf.crcFlag = 1 then 2 else 0) := by
    unfold FileDirective.paramsEnd; split <;> simp
  have hge : fd.header.headerLen + 1 < p.length := by
    by_cases hs : fd.headerLen ≥ p.length
    · simp [parse, hs, throw, throwThe, MonadExceptOf.throw, bind, Except.bind] at hf
    · have : fd.headerLen = fd.header.headerLen + 1 := rfl
      omega
  rw [hlen] at h2 hge
  rw [e1, h1]
  split at hpe <;> split at h2 <;> omega

/-- **only the declared PDU matters** -/
theorem unpack_take (d : Bytes) (a : Finished) (h : Finished.unpack d = .ok a) :
    ∃ fd p, prelude d = .ok (fd, p) ∧ ∀ rest, Finished.unpack (d.take fd.packetLen ++ rest) = .ok a := by
  obtain ⟨fd, p, hp, hf, _, _, h2⟩ := unpack_inv d a h
  refine ⟨fd, p, hp, fun rest => ?_⟩
  rw [unpack_eq, prelude_take d fd p hp (by omega) rest]
  exact hf

end SpVerif.Finished
