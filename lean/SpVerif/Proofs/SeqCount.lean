import SpVerif.Model.SeqCount
/-!
# Helper lemmas for C19 (sequence counters): decimal render/parse, readline/rstrip on a rendered
line, the canonical shape of the file after a successful call.
-/
namespace SpVerif.SeqCount

/-! ## digits -/

theorem digitChar_toNat (d : Nat) (h : d < 10) : (digitChar d).toNat = 48 + d := by
  revert d; decide

theorem isDigit_digitChar (d : Nat) (h : d < 10) : isDigit (digitChar d) = true := by
  simp [isDigit, digitChar_toNat d h]; omega

theorem digitVal_digitChar (d : Nat) (h : d < 10) : digitVal (digitChar d) = d := by
  simp [digitVal, digitChar_toNat d h]

theorem isDigit_not_space (c : Char) (h : isDigit c = true) : isSpace c = false := by
  simp [isDigit] at h
  simp [isSpace]; omega

theorem isDigit_not_nl (c : Char) (h : isDigit c = true) : isNl c = false := by
  simp [isDigit] at h
  simp [isNl]; omega

/-! ## render / parse -/

theorem render_all_digit (n : Nat) : ∀ c ∈ render n, isDigit c = true := by
  fun_induction render n with
  | case1 n h => intro c hc; simp at hc; subst hc; exact isDigit_digitChar n h
  | case2 n h ih =>
    intro c hc
    simp at hc
    rcases hc with hc | hc
    · exact ih c hc
    · subst hc; exact isDigit_digitChar _ (by omega)

theorem render_ne_nil (n : Nat) : render n ≠ [] := by
  rw [render]; split <;> simp

theorem parseNat_snoc (s : List Char) (c : Char) : parseNat (s ++ [c]) = parseNat s * 10 + digitVal c := by
  simp [parseNat, List.foldl_append]

theorem parseNat_render (n : Nat) : parseNat (render n) = n := by
  fun_induction render n with
  | case1 n h => simp [parseNat, digitVal_digitChar n h]
  | case2 n h ih => rw [parseNat_snoc, ih, digitVal_digitChar _ (by omega)]; omega

theorem isDigitStr_render (n : Nat) : isDigitStr (render n) = true := by
  have h1 := render_ne_nil n
  have h2 := render_all_digit n
  simp [isDigitStr, List.all_eq_true]
  exact ⟨h1, h2⟩

theorem parseDec_render (n : Nat) : parseDec (render n) = some n := by
  simp [parseDec, isDigitStr_render, parseNat_render]

/-! ## readline / rstrip -/

theorem readline_append_nl (a b : List Char) (h : ∀ c ∈ a, isNl c = false) :
    readline (a ++ '\n' :: b) = a ++ ['\n'] := by
  induction a with
  | nil => simp [readline, isNl]
  | cons c cs ih =>
    have hc : isNl c = false := h c (by simp)
    simp [readline, hc]
    exact ih (fun x hx => h x (by simp [hx]))

theorem rstrip_append_nl (a : List Char) (h : ∀ c ∈ a, isSpace c = false) :
    rstrip (a ++ ['\n']) = a := by
  induction a with
  | nil => simp [rstrip, isSpace]
  | cons c cs ih =>
    have hc : isSpace c = false := h c (by simp)
    have := ih (fun x hx => h x (by simp [hx]))
    simp [rstrip, hc, this]

/-- `rstrip` = remove the longest all-white-space suffix -/
theorem rstrip_snoc (a : List Char) (x : Char) :
    rstrip (a ++ [x]) = if isSpace x then rstrip a else a ++ [x] := by
  induction a with
  | nil => cases hx : isSpace x <;> simp [rstrip, hx]
  | cons c cs ih =>
    cases hx : isSpace x
    · simp [hx] at ih
      simp [rstrip, ih]
    · simp [hx] at ih
      simp [rstrip, ih]

theorem rstrip_reverse (r : List Char) : rstrip r.reverse = (r.dropWhile isSpace).reverse := by
  induction r with
  | nil => simp [rstrip]
  | cons x r ih =>
    rw [List.reverse_cons, rstrip_snoc]
    cases hx : isSpace x
    · simp [List.dropWhile, hx]
    · simp [List.dropWhile, hx, ih]

theorem rstrip_eq_reverse (s : List Char) :
    rstrip s = (s.reverse.dropWhile isSpace).reverse := by
  have := rstrip_reverse s.reverse
  simpa using this

/-- the stripped first line does not depend on how the line is terminated -/
theorem rstrip_readline (s : List Char) :
    rstrip (readline s) = rstrip (s.takeWhile (fun c => !isNl c)) := by
  induction s with
  | nil => simp [readline]
  | cons c cs ih =>
    cases hc : isNl c
    · simp [readline, hc, List.takeWhile, rstrip, ih]
    · simp [readline, hc, List.takeWhile, rstrip, isSpace]

/-! ## range arithmetic -/

theorem incr_eq_mod (w v : Nat) (h : v < 2 ^ w) : incr w v = (v + 1) % 2 ^ w := by
  have hp : 0 < 2 ^ w := Nat.two_pow_pos w
  unfold incr
  split
  · have : v + 1 = 2 ^ w := by omega
    rw [this, Nat.mod_self]
  · rw [Nat.mod_eq_of_lt]; omega

theorem checkCount_render (w v : Nat) (h : v < 2 ^ w) :
    checkCount w (render v ++ ['\n']) = .ok v := by
  have hs : rstrip (render v ++ ['\n']) = render v :=
    rstrip_append_nl _ (fun c hc => isDigit_not_space c (render_all_digit v c hc))
  have hr : ¬ v > 2 ^ w - 1 := by omega
  simp [checkCount, hs, isDigitStr_render, parseNat_render, hr]

theorem checkCount_ok_lt (w : Nat) (l : List Char) (v : Nat) (h : checkCount w l = .ok v) : v < 2 ^ w := by
  have hp : 0 < 2 ^ w := Nat.two_pow_pos w
  unfold checkCount at h
  simp only at h
  split at h
  · cases h
  · split at h
    · cases h
    · cases h; omega

/-- a reader of `render v ++ "\n" ++ stale` sees `v` -/
theorem current_canon (w v : Nat) (stale : List Char) (h : v < 2 ^ w) :
    current w (some (render v ++ '\n' :: stale)) = .ok v := by
  have hl : readline (render v ++ '\n' :: stale) = render v ++ ['\n'] :=
    readline_append_nl _ _ (fun c hc => isDigit_not_nl c (render_all_digit v c hc))
  simp [current, hl, checkCount_render w v h]

theorem current_ok_lt (w : Nat) (f : File) (v : Nat) (h : current w f = .ok v) : v < 2 ^ w := by
  cases f with
  | none => simp [current] at h
  | some s => exact checkCount_ok_lt w _ v (by simpa [current] using h)

/-- a successful call returns what a reader would have seen and leaves `render (v+1 mod 2^w) ++ "\n"`
    followed by the stale rest of the old content -/
theorem call_of_current (w : Nat) (f : File) (v : Nat) (h : current w f = .ok v) :
    ∃ s, f = some s ∧ getAndIncrement w f =
      (.ok v, some (render ((v + 1) % 2 ^ w) ++ '\n' :: s.drop ((render ((v + 1) % 2 ^ w)).length + 1))) := by
  cases f with
  | none => simp [current] at h
  | some s =>
    have hv := current_ok_lt w _ v h
    simp [current] at h
    refine ⟨s, rfl, ?_⟩
    simp [getAndIncrement, h, overwrite, incr_eq_mod w v hv]

theorem call_ok_current (w : Nat) (f f' : File) (v : Nat) (h : getAndIncrement w f = (.ok v, f')) :
    current w f = .ok v := by
  cases f with
  | none => simp [getAndIncrement] at h
  | some s =>
    simp only [getAndIncrement] at h
    simp only [current]
    split at h
    · simp at h
    · rename_i v' hv'
      simp at h
      rw [hv', h.1]

theorem call_err (w : Nat) (f : File) (e : Err) (h : current w f = .error e) :
    getAndIncrement w f = (.error e, f) := by
  cases f with
  | none => simp [current] at h; subst h; rfl
  | some s =>
    simp [current] at h
    simp [getAndIncrement, h]

/-! ## the width enters `check_count` through the range check only -/

theorem checkCount_width (w w' : Nat) (l : List Char) (v : Nat) (h : checkCount w l = .ok v) :
    checkCount w' l = if v < 2 ^ w' then .ok v else .error .value := by
  have hp : 0 < 2 ^ w' := Nat.two_pow_pos w'
  unfold checkCount at h ⊢
  simp only at h ⊢
  split at h
  · cases h
  · rename_i hd
    split at h
    · cases h
    · cases h
      simp only [hd]
      by_cases hv : parseNat (rstrip l) < 2 ^ w'
      · have : ¬ parseNat (rstrip l) > 2 ^ w' - 1 := by omega
        simp [hv, this]
      · have : parseNat (rstrip l) > 2 ^ w' - 1 := by omega
        simp [hv, this]

/-- a file that a reader of width `w` accepts with value `v` is read as `v` by every width that `v` fits
    and refused with `ValueError` by every other width -/
theorem current_width (w w' : Nat) (f : File) (v : Nat) (h : current w f = .ok v) :
    current w' f = if v < 2 ^ w' then .ok v else .error .value := by
  cases f with
  | none => simp [current] at h
  | some s => exact checkCount_width w w' _ v (by simpa [current] using h)

/-- `create_new` writes `"0\n"`: every width reads 0 -/
theorem current_create (w : Nat) : current w create = .ok 0 := by
  have h : create = some (render 0 ++ '\n' :: []) := by
    rw [render]; simp [create, digitChar]
  rw [h]
  exact current_canon w 0 [] (Nat.two_pow_pos w)

end SpVerif.SeqCount
