import SpVerif.Model.PrefixPdu
import SpVerif.Proofs.Prefix
import SpVerif.Proofs.CfdpCrcAccept
import SpVerif.Props.C06Fixed
import SpVerif.Props.C06Var
import SpVerif.Props.C07
/-!
# Locality of the CFDP PDU decoders (C09, second half; reusable by C10/C12)

The length that matters for a PDU is the one its fixed header **declares**
(`CfdpCrc.cfdpDeclaredLen`: data-field length + header length, a function of octets 1–3).
`DeclLocal dec` — whenever `dec` accepts `d` with result `r`, the declared PDU lies inside `d` and
every buffer that agrees with `d` on the declared PDU (and holds all of it) is decoded to `r`.
All kinds but NAK are `DeclLocal`; a NAK buffer *is* its declared PDU, and followed by anything it
is refused with `ValueError`. The decoded object reports exactly the declared length for every kind
except EOF (reported ≤ declared: the object recomputes its length from the fault-location TLV it
decoded) and Finished (recomputed from the decoded TLVs).
-/
namespace SpVerif.Prefix
open SpVerif SpVerif.CfdpHeader SpVerif.FileDirective SpVerif.CfdpCrc

def DeclLocal {α : Type} (dec : Bytes → Py α) : Prop :=
  ∀ d r, dec d = .ok r → cfdpDeclaredLen d ≤ d.length ∧
    ∀ d' : Bytes, d'.take (cfdpDeclaredLen d) = d.take (cfdpDeclaredLen d) → cfdpDeclaredLen d ≤ d'.length →
      dec d' = .ok r

theorem declLocal_of_take {α : Type} (dec : Bytes → Py α)
    (h : ∀ d r, dec d = .ok r → ∃ n, n = cfdpDeclaredLen d ∧ n ≤ d.length ∧ ∀ rest, dec (d.take n ++ rest) = .ok r) :
    DeclLocal dec := by
  intro d r hd
  obtain ⟨n, hn, hl, ht⟩ := h d r hd
  subst hn
  refine ⟨hl, fun d' hd' _ => ?_⟩
  have : d' = d.take (cfdpDeclaredLen d) ++ d'.drop (cfdpDeclaredLen d) := by rw [← hd', List.take_append_drop]
  rw [this]; exact ht _

theorem DeclLocal.extends {α : Type} {dec : Bytes → Py α} (h : DeclLocal dec) (d : Bytes) (r : α) (s : Bytes)
    (hd : dec d = .ok r) : dec (d ++ s) = .ok r := by
  obtain ⟨hl, hloc⟩ := h d r hd
  exact hloc _ (List.take_append_of_le_length hl) (by rw [List.length_append]; omega)

theorem DeclLocal.take {α : Type} {dec : Bytes → Py α} (h : DeclLocal dec) (d : Bytes) (r : α)
    (hd : dec d = .ok r) : dec (d.take (cfdpDeclaredLen d)) = .ok r := by
  obtain ⟨hl, hloc⟩ := h d r hd
  exact hloc _ (by rw [List.take_take, Nat.min_self]) (by rw [List.length_take]; omega)

/-- the directive prelude reads the declared length off the fixed header -/
theorem prelude_declared {d : Bytes} {fd : FileDirective} {p : Bytes} (h : prelude d = .ok (fd, p)) :
    fd.packetLen = cfdpDeclaredLen d :=
  (unpack_fixed ((prelude_ok_iff d fd p).mp h).1).1

/-! ## reported = declared -/

theorem ack_declared {d : Bytes} {a : Ack.Ack} (h : Ack.Ack.unpack d = .ok a) : a.packetLen = cfdpDeclaredLen d :=
  prelude_declared (Ack.unpack_inv d a h).1
theorem prompt_declared {d : Bytes} {a : Prompt.Prompt} (h : Prompt.Prompt.unpack d = .ok a) :
    a.packetLen = cfdpDeclaredLen d := prelude_declared (Prompt.unpack_inv d a h).1
theorem keepAlive_declared {d : Bytes} {a : KeepAlive.KeepAlive} (h : KeepAlive.KeepAlive.unpack d = .ok a) :
    a.packetLen = cfdpDeclaredLen d := prelude_declared (KeepAlive.unpack_inv d a h).1
theorem nak_declared {d : Bytes} {a : Nak.Nak} (h : Nak.Nak.unpack d = .ok a) : a.packetLen = cfdpDeclaredLen d :=
  prelude_declared (Nak.unpack_inv d a h).1
theorem metadata_declared {d : Bytes} {a : Metadata.Metadata} (h : Metadata.Metadata.unpack d = .ok a) :
    a.packetLen = cfdpDeclaredLen d := by
  obtain ⟨p, hp, _⟩ := Metadata.unpack_inv d a h
  exact prelude_declared hp
theorem fileData_declared {d : Bytes} {x : FileData.Pdu} (h : FileData.Pdu.unpack d = .ok x) :
    x.packetLen = cfdpDeclaredLen d :=
  (unpack_fixed (Props.C07.C07_decode_encode d x h).2.2.2).1
/-- EOF: the decoded object reports at most the declared length -/
theorem eof_reported_le {d : Bytes} {a : Eof.Eof} (h : Eof.Eof.unpack d = .ok a) : a.packetLen ≤ cfdpDeclaredLen d := by
  obtain ⟨fd, p, hp, _, _, _, hle, _⟩ := Eof.unpack_inv d a h
  rw [← prelude_declared hp]; exact hle

/-- Finished: the decoded object reports at most the declared length (it recomputes its length from
    the filestore responses and the last entity-ID TLV it kept) -/
theorem finished_reported_le {d : Bytes} {a : Finished.Finished} (h : Finished.Finished.unpack d = .ok a) :
    a.packetLen ≤ cfdpDeclaredLen d := by
  obtain ⟨fd, p, hp, hle⟩ := Finished.unpack_reported_le d a h
  rw [← prelude_declared hp]; exact hle

/-! ## locality, per kind -/

private theorem declLocal_of_local {α : Type} {c : Codec α} (hl : Local c)
    (hd : ∀ d r, c.decode d = .ok r → c.len r = cfdpDeclaredLen d) : DeclLocal c.decode := by
  intro d r h
  obtain ⟨h1, h2⟩ := hl d r h
  rw [hd d r h] at h1 h2
  exact ⟨h1, h2⟩

private theorem local_of_take {α : Type} (c : Codec α)
    (h : ∀ d r, c.decode d = .ok r → c.len r ≤ d.length ∧ ∀ rest, c.decode (d.take (c.len r) ++ rest) = .ok r) :
    Local c := by
  intro d r hd
  obtain ⟨hl, ht⟩ := h d r hd
  refine ⟨hl, fun d' hd' _ => ?_⟩
  have : d' = d.take (c.len r) ++ d'.drop (c.len r) := by rw [← hd', List.take_append_drop]
  rw [this]; exact ht _

theorem ack_local : Local ackCodec :=
  local_of_take ackCodec fun d a h => ⟨(Ack.unpack_inv d a h).2.2.2.1, Ack.unpack_take d a h⟩
theorem prompt_local : Local promptCodec :=
  local_of_take promptCodec fun d a h => ⟨(Prompt.unpack_inv d a h).2.2.2.1, Prompt.unpack_take d a h⟩
theorem keepAlive_local : Local keepAliveCodec :=
  local_of_take keepAliveCodec fun d a h => ⟨(KeepAlive.unpack_inv d a h).2.2.2.1, KeepAlive.unpack_take d a h⟩
theorem metadata_local : Local metadataCodec :=
  local_of_take metadataCodec fun d a h => by
    obtain ⟨p, _, _, hl, _⟩ := Metadata.unpack_inv d a h
    exact ⟨hl, Metadata.unpack_take d a h⟩

theorem fileData_local : Local fileDataCodec := by
  apply local_of_spec fileDataCodec Props.C07.WF Props.C07.Spec.octets
  · intro d x hx
    obtain ⟨wf, hl, hp, _⟩ := Props.C07.C07_decode_encode d x hx
    rw [Props.C07.C07_pack_exact x wf] at hp
    exact ⟨wf, hl, (Except.ok.inj hp).symm⟩
  · intro x s wf
    exact Props.C07.C07_roundtrip x wf s

theorem ack_declLocal : DeclLocal Ack.Ack.unpack := declLocal_of_local ack_local fun _ _ h => ack_declared h
theorem prompt_declLocal : DeclLocal Prompt.Prompt.unpack := declLocal_of_local prompt_local fun _ _ h => prompt_declared h
theorem keepAlive_declLocal : DeclLocal KeepAlive.KeepAlive.unpack :=
  declLocal_of_local keepAlive_local fun _ _ h => keepAlive_declared h
theorem metadata_declLocal : DeclLocal Metadata.Metadata.unpack :=
  declLocal_of_local metadata_local fun _ _ h => metadata_declared h
theorem fileData_declLocal : DeclLocal FileData.Pdu.unpack :=
  declLocal_of_local fileData_local fun _ _ h => fileData_declared h

theorem eof_declLocal : DeclLocal Eof.Eof.unpack := by
  apply declLocal_of_take
  intro d a h
  obtain ⟨fd, p, hp, hf, hl, _, _, h10⟩ := Eof.unpack_inv d a h
  refine ⟨fd.packetLen, prelude_declared hp, hl, fun rest => ?_⟩
  rw [Eof.unpack_eq, prelude_take d fd p hp (by omega) rest]
  exact hf

theorem finished_declLocal : DeclLocal Finished.Finished.unpack := by
  apply declLocal_of_take
  intro d a h
  obtain ⟨fd, p, hp, hf, hl, _, h2⟩ := Finished.unpack_inv d a h
  refine ⟨fd.packetLen, prelude_declared hp, hl, fun rest => ?_⟩
  rw [Finished.unpack_eq, prelude_take d fd p hp (by omega) rest]
  exact hf

/-- NAK: an accepted buffer is exactly the declared PDU -/
theorem nak_exact {d : Bytes} {k : Nak.Nak} (h : Nak.Nak.unpack d = .ok k) : d.length = k.packetLen :=
  (Nak.unpack_inv d k h).2.2.1

theorem nak_restricts : Restricts nakCodec := by
  intro d k h
  have hl := nak_exact h
  refine ⟨by show k.packetLen ≤ d.length; omega, ?_⟩
  show Nak.Nak.unpack (d.take k.packetLen) = .ok k
  rw [List.take_of_length_le (by omega)]; exact h

/-- NAK: **every** accepted buffer followed by at least one octet is refused with `ValueError` -/
theorem nak_trailing_refused {d : Bytes} {k : Nak.Nak} (h : Nak.Nak.unpack d = .ok k) (s : Bytes) (hs : s ≠ []) :
    Nak.Nak.unpack (d ++ s) = .error .value := by
  obtain ⟨hp, _, hl, _, _, hdl, _⟩ := Nak.unpack_inv d k h
  have h1 : 1 ≤ k.fd.header.dataFieldLen := by omega
  have hpl : k.packetLen = k.fd.packetLen := rfl
  have ht := prelude_take d k.fd _ hp h1 s
  rw [List.take_of_length_le (by omega)] at ht
  apply Nak.unpack_longer _ _ _ ht
  have : 0 < s.length := List.length_pos_iff.mpr hs
  rw [List.length_append]; omega

/-! ## the table -/

private theorem declLocal_map {α : Type} {dec : Bytes → Py α} (h : DeclLocal dec) (f : α → PduDecoded) :
    DeclLocal (fun d => f <$> dec d) := by
  intro d r hd
  simp only at hd
  cases ha : dec d with
  | error e => rw [ha] at hd; cases hd
  | ok a =>
    rw [ha] at hd
    obtain ⟨hl, hloc⟩ := h d a ha
    refine ⟨hl, fun d' h1 h2 => ?_⟩
    simp only [hloc d' h1 h2]; exact hd

theorem PduKind.declLocal (k : PduKind) (hk : k.acceptsTrailing = true) : DeclLocal k.decode := by
  cases k with
  | ack => exact declLocal_map ack_declLocal _
  | prompt => exact declLocal_map prompt_declLocal _
  | keepAlive => exact declLocal_map keepAlive_declLocal _
  | nak => cases hk
  | fileData => exact declLocal_map fileData_declLocal _
  | eof => exact declLocal_map eof_declLocal _
  | finished => exact declLocal_map finished_declLocal _
  | metadata => exact declLocal_map metadata_declLocal _

/-- every kind, NAK included: the declared PDU lies inside the buffer and decoding only it gives
    the same result -/
theorem PduKind.declRestricts (k : PduKind) (d : Bytes) (r : PduDecoded) (h : k.decode d = .ok r) :
    cfdpDeclaredLen d ≤ d.length ∧ k.decode (d.take (cfdpDeclaredLen d)) = .ok r := by
  cases hk : k.acceptsTrailing with
  | true => exact ⟨((PduKind.declLocal k hk) d r h).1, (PduKind.declLocal k hk).take d r h⟩
  | false =>
    cases k <;> try cases hk
    have h' : PduDecoded.nak <$> Nak.Nak.unpack d = .ok r := h
    cases hn : Nak.Nak.unpack d with
    | error e => rw [hn] at h'; cases h'
    | ok x =>
      have e : cfdpDeclaredLen d = d.length := by rw [← nak_declared hn, nak_exact hn]
      rw [e, List.take_of_length_le (Nat.le_refl _)]
      exact ⟨Nat.le_refl _, h⟩

/-- the decoded object reports exactly the declared length, for every kind except EOF (≤) and
    Finished (recomputed from the decoded TLVs; no claim) -/
theorem PduKind.reported (k : PduKind) (d : Bytes) (r : PduDecoded) (h : k.decode d = .ok r) :
    (k ≠ .eof → k ≠ .finished → r.len = cfdpDeclaredLen d) ∧ r.len ≤ cfdpDeclaredLen d := by
  have key : ∀ {α : Type} (dec : Bytes → Py α) (f : α → PduDecoded) (P : Nat → Prop),
      (∀ a, dec d = .ok a → P (f a).len) → (f <$> dec d) = .ok r → P r.len := by
    intro α dec f P hP hr
    cases ha : dec d with
    | error e => rw [ha] at hr; cases hr
    | ok a => rw [ha] at hr; rw [← Except.ok.inj hr]; exact hP a ha
  cases k with
  | ack => exact ⟨fun _ _ => key _ PduDecoded.ack (· = _) (fun a ha => ack_declared ha) h,
      key _ PduDecoded.ack (· ≤ _) (fun a ha => Nat.le_of_eq (ack_declared ha)) h⟩
  | prompt => exact ⟨fun _ _ => key _ PduDecoded.prompt (· = _) (fun a ha => prompt_declared ha) h,
      key _ PduDecoded.prompt (· ≤ _) (fun a ha => Nat.le_of_eq (prompt_declared ha)) h⟩
  | keepAlive => exact ⟨fun _ _ => key _ PduDecoded.keepAlive (· = _) (fun a ha => keepAlive_declared ha) h,
      key _ PduDecoded.keepAlive (· ≤ _) (fun a ha => Nat.le_of_eq (keepAlive_declared ha)) h⟩
  | nak => exact ⟨fun _ _ => key _ PduDecoded.nak (· = _) (fun a ha => nak_declared ha) h,
      key _ PduDecoded.nak (· ≤ _) (fun a ha => Nat.le_of_eq (nak_declared ha)) h⟩
  | fileData => exact ⟨fun _ _ => key _ PduDecoded.fileData (· = _) (fun a ha => fileData_declared ha) h,
      key _ PduDecoded.fileData (· ≤ _) (fun a ha => Nat.le_of_eq (fileData_declared ha)) h⟩
  | metadata => exact ⟨fun _ _ => key _ PduDecoded.metadata (· = _) (fun a ha => metadata_declared ha) h,
      key _ PduDecoded.metadata (· ≤ _) (fun a ha => Nat.le_of_eq (metadata_declared ha)) h⟩
  | eof => exact ⟨fun hc => absurd rfl hc, key _ PduDecoded.eof (· ≤ _) (fun a ha => eof_reported_le ha) h⟩
  | finished => exact ⟨fun _ hc => absurd rfl hc, key _ PduDecoded.finished (· ≤ _) (fun a ha => finished_reported_le ha) h⟩

end SpVerif.Prefix
