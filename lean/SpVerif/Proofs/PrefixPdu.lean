import SpVerif.Model.PrefixPdu
import SpVerif.Proofs.Prefix
import SpVerif.Props.C06Fixed
import SpVerif.Props.C07
/-!
# Locality of the CFDP PDU decoders (C09, second half; reusable by C10/C12)

ACK, Prompt, Keep Alive, File Data: `Local` — the result is determined by the declared PDU, which
lies inside the buffer. NAK: an accepted buffer *is* the declared PDU, and the same PDU followed by
anything is refused with `ValueError`. For every directive kind the decoded PDU is the value of the
owning model's parameter parser on the directive base and the declared PDU **minus its CRC trailer**.
-/
namespace SpVerif.Prefix
open SpVerif SpVerif.CfdpHeader SpVerif.FileDirective

private theorem local_of_take {α : Type} (c : Codec α)
    (h : ∀ d r, c.decode d = .ok r → c.len r ≤ d.length ∧ ∀ rest, c.decode (d.take (c.len r) ++ rest) = .ok r) :
    Local c := by
  intro d r hd
  obtain ⟨hl, ht⟩ := h d r hd
  refine ⟨hl, fun d' hd' _ => ?_⟩
  have : d' = d.take (c.len r) ++ d'.drop (c.len r) := by rw [← hd', List.take_append_drop]
  rw [this]; exact ht _

theorem ack_local : Local ackCodec :=
  local_of_take ackCodec fun d a h => ⟨(Ack.unpack_inv d a h).2.2.2.1, Ack.unpack_take d a h⟩

theorem prompt_local : Local promptCodec :=
  local_of_take promptCodec fun d a h => ⟨(Prompt.unpack_inv d a h).2.2.2.1, Prompt.unpack_take d a h⟩

theorem keepAlive_local : Local keepAliveCodec :=
  local_of_take keepAliveCodec fun d a h => ⟨(KeepAlive.unpack_inv d a h).2.2.2.1, KeepAlive.unpack_take d a h⟩

theorem fileData_local : Local fileDataCodec := by
  apply local_of_spec fileDataCodec Props.C07.WF Props.C07.Spec.octets
  · intro d x hx
    obtain ⟨wf, hl, hp, _⟩ := Props.C07.C07_decode_encode d x hx
    rw [Props.C07.C07_pack_exact x wf] at hp
    exact ⟨wf, hl, (Except.ok.inj hp).symm⟩
  · intro x s wf
    exact Props.C07.C07_roundtrip x wf s

/-- NAK: an accepted buffer is exactly the declared PDU -/
theorem nak_exact {d : Bytes} {k : Nak.Nak} (h : Nak.Nak.unpack d = .ok k) : d.length = k.packetLen :=
  (Nak.unpack_inv d k h).2.2.1

theorem nak_restricts : Restricts nakCodec := by
  intro d k h
  have hl := nak_exact h
  refine ⟨by show k.packetLen ≤ d.length; omega, ?_⟩
  show Nak.Nak.unpack (d.take k.packetLen) = .ok k
  rw [List.take_of_length_le (by omega)]; exact h

/-- NAK: **every** accepted buffer followed by at least one octet is refused with `ValueError` -/
theorem nak_trailing_refused {d : Bytes} {k : Nak.Nak} (h : Nak.Nak.unpack d = .ok k) (s : Bytes) (hs : s ≠ []) :
    Nak.Nak.unpack (d ++ s) = .error .value := by
  obtain ⟨hp, _, hl, _, _, hdl, _⟩ := Nak.unpack_inv d k h
  have h1 : 1 ≤ k.fd.header.dataFieldLen := by omega
  have hpl : k.packetLen = k.fd.packetLen := rfl
  have ht := prelude_take d k.fd _ hp h1 s
  rw [List.take_of_length_le (by omega)] at ht
  apply Nak.unpack_longer _ _ _ ht
  have : 0 < s.length := List.length_pos_iff.mpr hs
  rw [List.length_append]; omega

/-! ## the table -/

theorem PduKind.local (k : PduKind) (hk : k.acceptsTrailing = true) : Local k.codec := by
  cases k with
  | ack => exact ack_local.map PduDecoded.ack PduDecoded.len (fun _ => rfl)
  | prompt => exact prompt_local.map PduDecoded.prompt PduDecoded.len (fun _ => rfl)
  | keepAlive => exact keepAlive_local.map PduDecoded.keepAlive PduDecoded.len (fun _ => rfl)
  | nak => cases hk
  | fileData => exact fileData_local.map PduDecoded.fileData PduDecoded.len (fun _ => rfl)

/-- every kind, NAK included: decoding only the declared PDU gives the same result -/
theorem PduKind.restricts (k : PduKind) : Restricts k.codec := by
  cases hk : k.acceptsTrailing with
  | true => exact (PduKind.local k hk).restricts
  | false =>
    cases k <;> try cases hk
    intro d r h
    have h' : PduDecoded.nak <$> Nak.Nak.unpack d = .ok r := h
    cases hn : Nak.Nak.unpack d with
    | error e => rw [hn] at h'; cases h'
    | ok x =>
      rw [hn] at h'
      have hr : r = .nak x := (Except.ok.inj h').symm
      obtain ⟨hl, ht⟩ := nak_restricts d x hn
      subst hr
      refine ⟨hl, ?_⟩
      show PduDecoded.nak <$> Nak.Nak.unpack (d.take x.packetLen) = _
      have ht' : Nak.Nak.unpack (d.take x.packetLen) = .ok x := ht
      rw [ht']; rfl

end SpVerif.Prefix
