import SpVerif.Proofs.CrcResidue
/-!
# Burst errors on octet strings

The bit-level burst theorem (`burst_changes_crc`) lifted to octet strings, in a form usable for any
CRC-framed decoder:

* `burstMask n k B` — the error pattern of `n` octets: `k` clean bits, the burst `B`, clean bits to the end;
* `Burst p p' k B` — `p'` is `p` with exactly the bits of `B` flipped, starting at bit offset `k`
  (bit 0 = most significant bit of octet 0), the window lying inside `p`;
* `flipBurst p k B` — the corrupted string as a computable function (the driver runs it), with
  `flipBurst_spec : Burst p (flipBurst p k B) k B`;
* `Burst.length_eq`, `Burst.getElem?_eq` — length preserved, octets outside the window unchanged;
* `Burst.take` — a burst inside a prefix is a burst of the prefix (CRC over `d[:n]` of a longer buffer);
* `Burst.crc_ne`, `Burst.crc_ne_zero`, `Burst.crc_take_ne_zero` — the CRC changes; a frame with
  residue zero gets a non-zero residue.
-/
namespace SpVerif.Crc

/-! ## bits of octets -/

theorem bitsOf_length (x : UInt8) : (bitsOf x).length = 8 := rfl

theorem bits_cons (x : UInt8) (p : Bytes) : bits (x :: p) = bitsOf x ++ bits p := by
  simp [bits]

@[simp] theorem bits_nil : bits [] = [] := rfl

/-- an octet is determined by its eight bits -/
theorem bitsOf_inj {x y : UInt8} (h : bitsOf x = bitsOf y) : x = y := by
  have hx := toNat_lt x
  have hy := toNat_lt y
  apply UInt8.toNat_inj.mp
  apply Nat.eq_of_testBit_eq
  intro i
  by_cases hi : i < 8
  · simp only [bitsOf, List.map_cons, List.map_nil, List.cons.injEq, and_true] at h
    obtain ⟨h7, h6, h5, h4, h3, h2, h1, h0⟩ := h
    have : i = 0 ∨ i = 1 ∨ i = 2 ∨ i = 3 ∨ i = 4 ∨ i = 5 ∨ i = 6 ∨ i = 7 := by omega
    rcases this with h|h|h|h|h|h|h|h <;> subst h <;> assumption
  · have e : 2 ^ 8 ≤ 2 ^ i := Nat.pow_le_pow_right (by omega) (by omega)
    rw [Nat.testBit_lt_two_pow (by omega), Nat.testBit_lt_two_pow (by omega)]

/-- the eight bits of octet `i` sit at bit positions `8 i … 8 i + 7` -/
theorem bits_chunk : ∀ (p : Bytes) (i : Nat),
    ((bits p).drop (8 * i)).take 8 = match p[i]? with | some x => bitsOf x | none => []
  | [], i => by simp
  | x :: p, 0 => by
      simp only [bits_cons, Nat.mul_zero, List.drop_zero, List.getElem?_cons_zero]
      exact List.take_left' (bitsOf_length x)
  | x :: p, i + 1 => by
      have e : 8 * (i + 1) = (bitsOf x).length + 8 * i := by rw [bitsOf_length]; omega
      rw [bits_cons, e, List.drop_append, List.drop_eq_nil_of_le (by omega), List.nil_append,
        Nat.add_sub_cancel_left]
      simp only [List.getElem?_cons_succ]
      exact bits_chunk p i

theorem bits_take : ∀ (p : Bytes) (n : Nat), bits (p.take n) = (bits p).take (8 * n)
  | [], n => by simp
  | x :: p, 0 => by simp
  | x :: p, n + 1 => by
      have e : 8 * (n + 1) = (bitsOf x).length + 8 * n := by rw [bitsOf_length]; omega
      rw [List.take_succ_cons, bits_cons, bits_cons, e, List.take_append, bits_take p n,
        List.take_of_length_le (l := bitsOf x) (by omega), Nat.add_sub_cancel_left]

theorem bits_inj : ∀ {p q : Bytes}, bits p = bits q → p = q
  | [], [], _ => rfl
  | [], y :: q, h => by
      have := congrArg List.length h
      simp [bits_length] at this
  | x :: p, [], h => by
      have := congrArg List.length h
      simp [bits_length] at this
  | x :: p, y :: q, h => by
      rw [bits_cons, bits_cons] at h
      have h1 := List.append_inj h (by simp [bitsOf_length])
      rw [bitsOf_inj h1.1, bits_inj h1.2]

/-! ## re-packing bits into octets -/

/-- the octet spelled by eight bits, most significant first -/
def octetOfBits (b7 b6 b5 b4 b3 b2 b1 b0 : Bool) : UInt8 :=
  u8 (128 * b7.toNat + 64 * b6.toNat + 32 * b5.toNat + 16 * b4.toNat + 8 * b3.toNat + 4 * b2.toNat
    + 2 * b1.toNat + b0.toNat)

theorem bitsOf_octetOfBits (b7 b6 b5 b4 b3 b2 b1 b0 : Bool) :
    bitsOf (octetOfBits b7 b6 b5 b4 b3 b2 b1 b0) = [b7, b6, b5, b4, b3, b2, b1, b0] := by
  cases b7 <;> cases b6 <;> cases b5 <;> cases b4 <;> cases b3 <;> cases b2 <;> cases b1 <;> cases b0 <;> rfl

/-- groups of eight bits to octets (a trailing group of fewer than eight bits is dropped) -/
def packBits : List Bool → Bytes
  | b7 :: b6 :: b5 :: b4 :: b3 :: b2 :: b1 :: b0 :: rest => octetOfBits b7 b6 b5 b4 b3 b2 b1 b0 :: packBits rest
  | _ => []

theorem bits_packBits : ∀ (n : Nat) (l : List Bool), l.length = 8 * n → bits (packBits l) = l
  | 0, l, h => by
      have : l = [] := List.eq_nil_of_length_eq_zero (by omega)
      subst this; rfl
  | n + 1, l, h => by
      match l, h with
      | b7 :: b6 :: b5 :: b4 :: b3 :: b2 :: b1 :: b0 :: rest, h =>
        have hr : rest.length = 8 * n := by simp at h; omega
        simp only [packBits, bits_cons, bitsOf_octetOfBits, bits_packBits n rest hr, List.cons_append,
          List.nil_append]

/-! ## burst patterns -/

/-- error pattern over `n` octets: `k` clean bits, then `B`, then clean bits up to `8 n` -/
def burstMask (n k : Nat) (B : List Bool) : List Bool :=
  List.replicate k false ++ B ++ List.replicate (8 * n - k - B.length) false

theorem burstMask_length (n k : Nat) (B : List Bool) (h : k + B.length ≤ 8 * n) :
    (burstMask n k B).length = 8 * n := by
  simp [burstMask]; omega

/-- `p'` is `p` with the bits of `B` flipped from bit offset `k` on; the window lies inside `p` -/
def Burst (p p' : Bytes) (k : Nat) (B : List Bool) : Prop :=
  k + B.length ≤ 8 * p.length ∧ bits p' = List.zipWith (· ^^ ·) (bits p) (burstMask p.length k B)

/-- the corrupted octet string, computably -/
def flipBurst (p : Bytes) (k : Nat) (B : List Bool) : Bytes :=
  packBits (List.zipWith (· ^^ ·) (bits p) (burstMask p.length k B))

theorem bits_flipBurst (p : Bytes) (k : Nat) (B : List Bool) :
    bits (flipBurst p k B) = List.zipWith (· ^^ ·) (bits p) (burstMask p.length k B) := by
  apply bits_packBits p.length
  simp [bits_length, burstMask]
  omega

theorem flipBurst_spec (p : Bytes) (k : Nat) (B : List Bool) (h : k + B.length ≤ 8 * p.length) :
    Burst p (flipBurst p k B) k B := ⟨h, bits_flipBurst p k B⟩

theorem flipBurst_length (p : Bytes) (k : Nat) (B : List Bool) : (flipBurst p k B).length = p.length := by
  have := congrArg List.length (bits_flipBurst p k B)
  simp [bits_length, burstMask] at this
  omega

/-- a burst determines the corrupted string -/
theorem Burst.eq_flipBurst {p p' : Bytes} {k : Nat} {B : List Bool} (h : Burst p p' k B) :
    p' = flipBurst p k B := bits_inj (by rw [h.2, bits_flipBurst])

theorem Burst.length_eq {p p' : Bytes} {k : Nat} {B : List Bool} (h : Burst p p' k B) :
    p'.length = p.length := by
  rw [h.eq_flipBurst, flipBurst_length]

private theorem zipWith_xor_false : ∀ (l : List Bool) (n : Nat), l.length ≤ n →
    List.zipWith (· ^^ ·) l (List.replicate n false) = l
  | [], _, _ => by simp
  | x :: l, 0, h => by simp at h
  | x :: l, n + 1, h => by
      simp only [List.replicate_succ, List.zipWith_cons_cons, Bool.xor_false]
      rw [zipWith_xor_false l n (by simpa using h)]

/-- the eight mask bits of an octet that the window does not meet are all clean -/
theorem burstMask_chunk_clean (n k : Nat) (B : List Bool) (i : Nat) (hi : i < n) (hout : 8 * i + 7 < k ∨ k + B.length ≤ 8 * i) :
    ((burstMask n k B).drop (8 * i)).take 8 = List.replicate 8 false := by
  unfold burstMask
  rcases hout with h | h
  · rw [List.append_assoc, List.drop_append_of_le_length (by simp; omega), List.drop_replicate,
      List.take_append_of_le_length (by simp; omega), List.take_replicate]
    congr 1; omega
  · have hl : (List.replicate k false ++ B).length ≤ 8 * i := by simp; omega
    rw [List.drop_append, List.drop_eq_nil_of_le hl, List.nil_append, List.drop_replicate, List.take_replicate]
    congr 1
    simp only [List.length_append, List.length_replicate]
    omega

/-- **octets outside the window are unchanged** -/
theorem Burst.getElem?_eq {p p' : Bytes} {k : Nat} {B : List Bool} (h : Burst p p' k B) (i : Nat)
    (hout : 8 * i + 7 < k ∨ k + B.length ≤ 8 * i) : p'[i]? = p[i]? := by
  have hlen := h.length_eq
  by_cases hi : i < p.length
  · have c := congrArg (fun l => (l.drop (8 * i)).take 8) h.2
    simp only [List.drop_zipWith, List.take_zipWith] at c
    rw [burstMask_chunk_clean p.length k B i hi hout,
      zipWith_xor_false _ 8 (by simp; omega), bits_chunk, bits_chunk] at c
    have h1 : p'[i]? = some p'[i] := List.getElem?_eq_getElem (by omega)
    have h2 : p[i]? = some p[i] := List.getElem?_eq_getElem hi
    rw [h1, h2] at c ⊢
    simp only at c
    rw [bitsOf_inj c]
  · rw [List.getElem?_eq_none (by omega), List.getElem?_eq_none (by omega)]

theorem flipBurst_getElem? (p : Bytes) (k : Nat) (B : List Bool) (hin : k + B.length ≤ 8 * p.length)
    (i : Nat) (hout : 8 * i + 7 < k ∨ k + B.length ≤ 8 * i) : (flipBurst p k B)[i]? = p[i]? :=
  (flipBurst_spec p k B hin).getElem?_eq i hout

/-- a burst inside the first `n` octets of a buffer is a burst of that prefix -/
theorem Burst.take {p p' : Bytes} {k : Nat} {B : List Bool} (h : Burst p p' k B) (n : Nat)
    (hn : n ≤ p.length) (hin : k + B.length ≤ 8 * n) : Burst (p.take n) (p'.take n) k B := by
  have hl : (p.take n).length = n := by simp; omega
  refine ⟨by rw [hl]; exact hin, ?_⟩
  rw [bits_take, bits_take, h.2, List.take_zipWith, hl]
  congr 1
  unfold burstMask
  have e1 : (List.replicate k false ++ B).length ≤ 8 * n := by simp; omega
  rw [List.take_append, List.take_of_length_le e1, List.take_replicate]
  congr 2
  simp only [List.length_append, List.length_replicate]
  omega

/-- octets after the window are unchanged as a block -/
theorem Burst.drop {p p' : Bytes} {k : Nat} {B : List Bool} (h : Burst p p' k B) (n : Nat)
    (hin : k + B.length ≤ 8 * n) : p'.drop n = p.drop n := by
  apply List.ext_getElem?
  intro i
  rw [List.getElem?_drop, List.getElem?_drop]
  exact h.getElem?_eq (n + i) (Or.inr (by omega))

/-! ## the CRC sees every burst of at most 16 bits -/

/-- **burst theorem on octet strings**: the register differs after the corrupted string, from any start state -/
theorem Burst.crcFrom_ne {p p' : Bytes} {k : Nat} {B : List Bool} (h : Burst p p' k B) (s : BitVec 16)
    (hB : B.length ≤ 16) (hne : B ≠ List.replicate B.length false) : crcFrom s p' ≠ crcFrom s p := by
  unfold crcFrom
  rw [h.2]
  exact burst_changes_crc s (bits p) k (8 * p.length - k - B.length) B hB hne
    (by rw [bits_length]; have := h.1; omega)

theorem Burst.crc_ne {p p' : Bytes} {k : Nat} {B : List Bool} (h : Burst p p' k B)
    (hB : B.length ≤ 16) (hne : B ≠ List.replicate B.length false) : crc16 p' ≠ crc16 p :=
  h.crcFrom_ne _ hB hne

/-- **generic frame theorem**: a frame with residue zero has a non-zero residue after any burst of
    at most 16 bits (any non-zero pattern, any bit offset) -/
theorem Burst.crc_ne_zero {p p' : Bytes} {k : Nat} {B : List Bool} (h : Burst p p' k B)
    (hz : crc16 p = 0) (hB : B.length ≤ 16) (hne : B ≠ List.replicate B.length false) : crc16 p' ≠ 0 := by
  have := h.crc_ne hB hne
  rwa [hz] at this

theorem crc16_flipBurst_ne_zero (p : Bytes) (k : Nat) (B : List Bool) (hz : crc16 p = 0)
    (hB : B.length ≤ 16) (hne : B ≠ List.replicate B.length false) (hin : k + B.length ≤ 8 * p.length) :
    crc16 (flipBurst p k B) ≠ 0 :=
  (flipBurst_spec p k B hin).crc_ne_zero hz hB hne

/-- variant for a decoder that checks the CRC over the first `n` octets of a longer buffer -/
theorem Burst.crc_take_ne_zero {d d' : Bytes} {k : Nat} {B : List Bool} (h : Burst d d' k B) (n : Nat)
    (hn : n ≤ d.length) (hin : k + B.length ≤ 8 * n) (hz : crc16 (d.take n) = 0)
    (hB : B.length ≤ 16) (hne : B ≠ List.replicate B.length false) : crc16 (d'.take n) ≠ 0 :=
  (h.take n hn hin).crc_ne_zero hz hB hne

/-- single-bit flip = burst `[true]` -/
example : flipBurst [0x00, 0xFF] 9 [true] = [0x00, 0xBF] := by decide
example : flipBurst [0x12, 0x34, 0x56] 6 [true, false, true, true] = [0x10, 0xF4, 0x56] := by decide

end SpVerif.Crc
