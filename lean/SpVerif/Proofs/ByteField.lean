import SpVerif.Model.ByteField
/-!
# Equational characterisations of the byte-field model (`Model/ByteField.lean`)

Reusable by every property whose models contain entity IDs / sequence numbers (C05, C06, C09, C10,
C11, C12): each entry point gets a lemma `f args = if <guard> then .ok ⟨…⟩ else .error .value`.
-/
namespace SpVerif.ByteField
open SpVerif

/-- widths that carry a value: 1, 2, 4, 8 -/
def W (w : Nat) : Prop := w = 1 ∨ w = 2 ∨ w = 4 ∨ w = 8
/-- supported widths: 0, 1, 2, 4, 8 -/
def W0 (w : Nat) : Prop := w = 0 ∨ w = 1 ∨ w = 2 ∨ w = 4 ∨ w = 8

instance (w : Nat) : Decidable (W w) := by unfold W; infer_instance
instance (w : Nat) : Decidable (W0 w) := by unfold W0; infer_instance

theorem W.w0 {w : Nat} (h : W w) : W0 w := by unfold W at h; unfold W0; omega
theorem W.pos {w : Nat} (h : W w) : 0 < w := by unfold W at h; omega
theorem W0.cases {w : Nat} (h : W0 w) : w = 0 ∨ W w := by unfold W0 at h; unfold W; omega

/-- the object invariant: supported width, value in range, cached octets = big-endian encoding -/
def Inv (f : Field) : Prop :=
  W0 f.width ∧ f.value < 256 ^ f.width ∧ f.bytes = beBytes f.width f.value

instance (f : Field) : Decidable (Inv f) := by unfold Inv; infer_instance

theorem okWidth_natCast {w : Nat} : okWidth (w : Int) ↔ W0 w := by
  unfold okWidth W0; omega

theorem okWidth_toNat {n : Int} (h : okWidth n) : ((n.toNat : Nat) : Int) = n ∧ W0 n.toNat := by
  unfold okWidth at h; unfold W0; omega

theorem structSpec_W {w : Nat} (hw : W w) : structSpec (w : Int) = .ok w := by
  unfold W at hw
  have : (w : Int) = 1 ∨ (w : Int) = 2 ∨ (w : Int) = 4 ∨ (w : Int) = 8 := by omega
  simp [structSpec, this]

theorem structSpec_not_W {w : Nat} (hw : ¬ W w) : structSpec (w : Int) = .error .value := by
  unfold W at hw
  have : ¬ ((w : Int) = 1 ∨ (w : Int) = 2 ∨ (w : Int) = 4 ∨ (w : Int) = 8) := by omega
  simp [structSpec, this]

theorem structSpec_documented (n : Int) : Documented (structSpec n) := by
  unfold structSpec; split
  · exact Documented.ok _
  · exact Documented.err rfl

/-- 256^w is even for the value-carrying widths -/
theorem pow_even {w : Nat} (hw : W w) : 256 ^ w = 2 * (256 ^ w / 2) := by
  obtain ⟨k, rfl⟩ : ∃ k, w = k + 1 := ⟨w - 1, by have := hw.pos; omega⟩
  rw [Nat.pow_succ]; omega

theorem half_pos {w : Nat} (hw : W w) : 0 < 256 ^ w / 2 := by
  have h1 : 0 < 256 ^ w := Nat.pow_pos (by decide)
  have := pow_even hw
  omega

/-! ## `IntByteConversion.to_unsigned` -/

theorem toUnsigned_bad {n : Int} (h : ¬ okWidth n) (v : Int) : toUnsigned n v = .error .value := by
  simp [toUnsigned, h]

theorem toUnsigned_zero (v : Int) : toUnsigned 0 v = .ok [] := by
  simp [toUnsigned, okWidth]

/-- widths 1, 2, 4, 8: `struct.error` for a negative value, `ValueError` for a too large one,
    the big-endian octets otherwise -/
theorem toUnsigned_W {w : Nat} (hw : W w) (v : Int) :
    toUnsigned (w : Int) v =
      if v < 0 then .error .struct
      else if ((256 ^ w : Nat) : Int) ≤ v then .error .value
      else .ok (beBytes w v.toNat) := by
  have h1 := okWidth_natCast.2 hw.w0
  have h0 : ¬ (w : Int) = 0 := by have := hw.pos; omega
  unfold toUnsigned
  simp only [h1, h0, not_true_eq_false, ↓reduceIte, Int.toNat_natCast, structSpec_W hw, bind,
    Except.bind, packU, packBE]
  generalize 256 ^ w = P
  by_cases a : v < 0
  · have : ¬ (v > (P : Int) - 1) := by omega
    have b : ¬ (0 ≤ v) := by omega
    simp [a, this, b]
  · by_cases c : (P : Int) ≤ v
    · have : v > (P : Int) - 1 := by omega
      simp [a, c, this]
    · have : ¬ v > (P : Int) - 1 := by omega
      have b : 0 ≤ v := by omega
      have d : v.toNat < P := by omega
      simp [a, c, this, b, d]

/-- on natural numbers: accepted iff in range, and then exactly the big-endian octets -/
theorem toUnsigned_nat {w : Nat} (hw : W w) (v : Nat) :
    toUnsigned (w : Int) (v : Int) = if v < 256 ^ w then .ok (beBytes w v) else .error .value := by
  rw [toUnsigned_W hw]
  have a : ¬ ((v : Int) < 0) := by omega
  by_cases c : v < 256 ^ w
  · have : ¬ ((256 ^ w : Nat) : Int) ≤ (v : Int) := by omega
    simp only [a, c, this, ↓reduceIte, Int.toNat_natCast]
  · have : ((256 ^ w : Nat) : Int) ≤ (v : Int) := by omega
    simp only [a, c, this, ↓reduceIte]

/-! ## `IntByteConversion.to_signed` -/

theorem toSigned_bad {n : Int} (h : ¬ okWidth n) (v : Int) : toSigned n v = .error .value := by
  simp [toSigned, h]

theorem toSigned_zero (v : Int) : toSigned 0 v = .ok [] := by
  simp [toSigned, okWidth]

/-- widths 1, 2, 4, 8: accepted iff `|v| ≤ 2^(8w-1) - 1`, and then the octets are the unsigned
    big-endian encoding of `v mod 256^w` (two's complement); `struct.error` is unreachable -/
theorem toSigned_W {w : Nat} (hw : W w) (v : Int) :
    toSigned (w : Int) v =
      if -((256 ^ w / 2 : Nat) : Int) < v ∧ v < ((256 ^ w / 2 : Nat) : Int)
      then .ok (beBytes w (v % ((256 ^ w : Nat) : Int)).toNat)
      else .error .value := by
  have h1 := okWidth_natCast.2 hw.w0
  have h0 : ¬ (w : Int) = 0 := by have := hw.pos; omega
  have hh := half_pos hw
  unfold toSigned
  simp only [h1, h0, not_true_eq_false, ↓reduceIte, Int.toNat_natCast, structSpec_W hw, bind,
    Except.bind, packS]
  generalize 256 ^ w / 2 = H at hh ⊢
  by_cases a : -(H : Int) < v ∧ v < (H : Int)
  · have g : ¬ ((v.natAbs : Int) > (H : Int) - 1) := by omega
    have b : -(H : Int) ≤ v ∧ v < (H : Int) := by omega
    simp [a, g, b]
  · have g : (v.natAbs : Int) > (H : Int) - 1 := by omega
    simp [a, g]

/-! ## `UnsignedByteField(val, byte_len)` and the concrete subclasses -/

theorem verifyInt_eq (w : Nat) (v : Int) :
    verifyInt w v = if 0 ≤ v ∧ v < ((256 ^ w : Nat) : Int) then .ok () else .error .value := by
  unfold verifyInt
  generalize 256 ^ w = P
  by_cases a : 0 ≤ v ∧ v < (P : Int)
  · have : ¬ (v > (P : Int) - 1 ∨ v < 0) := by omega
    simp only [a, this, ↓reduceIte, and_self]
  · have : v > (P : Int) - 1 ∨ v < 0 := by omega
    simp only [a, this, ↓reduceIte]

theorem new_bad_width {n : Int} (h : ¬ okWidth n) (v : Int) : Field.new v n = .error .value := by
  simp [Field.new, h]

/-- supported width: accepted iff `0 ≤ v < 256^w`; all three attributes are then determined -/
theorem new_W0 {w : Nat} (hw : W0 w) (v : Int) :
    Field.new v (w : Int) =
      if 0 ≤ v ∧ v < ((256 ^ w : Nat) : Int) then .ok ⟨w, v.toNat, beBytes w v.toNat⟩
      else .error .value := by
  have h1 := okWidth_natCast.2 hw
  unfold Field.new
  simp only [h1, not_true_eq_false, ↓reduceIte, Int.toNat_natCast, verifyInt_eq]
  by_cases a : 0 ≤ v ∧ v < ((256 ^ w : Nat) : Int)
  · simp only [a, and_self, ↓reduceIte, bind, Except.bind]
    rcases hw.cases with rfl | hw
    · simp [toUnsigned_zero, beBytes, pure, Except.pure]
    · have b : ¬ v < 0 := by omega
      have c : ¬ ((256 ^ w : Nat) : Int) ≤ v := by omega
      simp only [toUnsigned_W hw, b, c, ↓reduceIte, pure, Except.pure]
  · simp only [a, ↓reduceIte, bind, Except.bind]

theorem new_nat {w : Nat} (hw : W0 w) (v : Nat) :
    Field.new (v : Int) (w : Int) =
      if v < 256 ^ w then .ok ⟨w, v, beBytes w v⟩ else .error .value := by
  rw [new_W0 hw]
  by_cases c : v < 256 ^ w
  · have : 0 ≤ (v : Int) ∧ (v : Int) < ((256 ^ w : Nat) : Int) := by omega
    simp only [this, and_self, c, ↓reduceIte, Int.toNat_natCast]
  · have : ¬ (0 ≤ (v : Int) ∧ (v : Int) < ((256 ^ w : Nat) : Int)) := by omega
    simp only [this, c, ↓reduceIte]

/-- the constructor, completely -/
theorem new_eq (v n : Int) :
    Field.new v n =
      if okWidth n ∧ 0 ≤ v ∧ v < ((256 ^ n.toNat : Nat) : Int)
      then .ok ⟨n.toNat, v.toNat, beBytes n.toNat v.toNat⟩ else .error .value := by
  by_cases h : okWidth n
  · obtain ⟨e, hw⟩ := okWidth_toNat h
    have := new_W0 hw v
    rw [e] at this
    rw [this]
    simp only [h, true_and]
  · simp only [new_bad_width h, h, false_and, ↓reduceIte]

/-- a constructed field satisfies the invariant -/
theorem new_inv {v n : Int} {f : Field} (h : Field.new v n = .ok f) : Inv f := by
  rw [new_eq] at h
  split at h
  · rename_i g
    obtain ⟨g1, g2, g3⟩ := g
    cases h
    refine ⟨(okWidth_toNat g1).2, ?_, rfl⟩
    show v.toNat < 256 ^ n.toNat
    omega
  · cases h

/-- building from the octets of a supported width -/
theorem new_of_bytes (t : Bytes) (hw : W0 t.length) :
    Field.new (beNat t : Int) (t.length : Int) = .ok ⟨t.length, beNat t, t⟩ := by
  rw [new_nat hw, if_pos (beNat_lt t), beBytes_beNat]

/-! ## from-bytes entry points -/

/-- `UnsignedByteField.from_bytes(raw)`: total on lengths 1, 2, 4, 8, `ValueError` otherwise -/
theorem fromBytes_eq (raw : Bytes) :
    fromBytes raw = if W raw.length then .ok ⟨raw.length, beNat raw, raw⟩ else .error .value := by
  unfold fromBytes
  by_cases hw : W raw.length
  · simp only [structSpec_W hw, bind, Except.bind, unpackBE_ok rfl, new_of_bytes raw hw.w0, hw,
      ↓reduceIte]
  · simp only [structSpec_not_W hw, bind, Except.bind, hw, ↓reduceIte]

theorem slice0 (s : Bytes) (n : Nat) : slice s 0 n = s.take n := by simp [slice]

theorem take_len {s : Bytes} {n : Nat} (h : ¬ s.length < n) : (s.take n).length = n := by
  simp; omega

/-- common shape of `from_u16_bytes` / `from_u32_bytes` / `from_u64_bytes` -/
theorem fromUN_core {n : Nat} (hw : W n) (s : Bytes) (h : ¬ s.length < n) :
    (do let k ← structSpec (n : Int)
        let v ← unpackBE k (slice s 0 n)
        Field.new (v : Int) (n : Int)) = .ok ⟨n, beNat (s.take n), s.take n⟩ := by
  have hl := take_len h
  have := new_of_bytes (s.take n) (by rw [hl]; exact hw.w0)
  rw [hl] at this
  simp only [structSpec_W hw, bind, Except.bind, slice0, unpackBE_ok hl, this]

theorem fromU8Bytes_eq (s : Bytes) :
    fromU8Bytes s = if s.length < 1 then .error .value else .ok ⟨1, beNat (s.take 1), s.take 1⟩ := by
  unfold fromU8Bytes
  by_cases h : s.length < 1
  · simp only [h, ↓reduceIte]
  · simp only [h, ↓reduceIte]
    match s, h with
    | x :: r, _ =>
      have := new_of_bytes [x] (by unfold W0; simp)
      simp only [List.length_cons, List.length_nil, Nat.zero_add, Int.natCast_one] at this
      have e : beNat [x] = x.toNat := by simp [beNat]
      simp [idx, bind, Except.bind, u8New, e ▸ this, e]

theorem fromU16Bytes_eq (s : Bytes) :
    fromU16Bytes s = if s.length < 2 then .error .value else .ok ⟨2, beNat (s.take 2), s.take 2⟩ := by
  unfold fromU16Bytes u16New
  by_cases h : s.length < 2
  · simp only [h, ↓reduceIte]
  · simp only [h, ↓reduceIte]
    exact fromUN_core (n := 2) (by decide) s h

theorem fromU32Bytes_eq (s : Bytes) :
    fromU32Bytes s = if s.length < 4 then .error .value else .ok ⟨4, beNat (s.take 4), s.take 4⟩ := by
  unfold fromU32Bytes u32New
  by_cases h : s.length < 4
  · simp only [h, ↓reduceIte]
  · simp only [h, ↓reduceIte]
    exact fromUN_core (n := 4) (by decide) s h

theorem fromU64Bytes_eq (s : Bytes) :
    fromU64Bytes s = if s.length < 8 then .error .value else .ok ⟨8, beNat (s.take 8), s.take 8⟩ := by
  unfold fromU64Bytes u64New
  by_cases h : s.length < 8
  · simp only [h, ↓reduceIte]
  · simp only [h, ↓reduceIte]
    exact fromUN_core (n := 8) (by decide) s h

/-- `ByteFieldGenerator.from_bytes(n, stream)`: the first `n` octets for `n ∈ {1,2,4,8}` when
    present, `ValueError` otherwise (too short, or any other `n` including 0 and negatives) -/
theorem genFromBytes_eq (n : Int) (s : Bytes) :
    genFromBytes n s =
      if (n = 1 ∨ n = 2 ∨ n = 4 ∨ n = 8) ∧ ¬ (s.length : Int) < n
      then .ok ⟨n.toNat, beNat (s.take n.toNat), s.take n.toNat⟩ else .error .value := by
  unfold genFromBytes
  by_cases h1 : n = 1
  · subst h1; simp only [↓reduceIte, fromU8Bytes_eq]
    by_cases h : s.length < 1
    · have : ¬ ¬ ((s.length : Int) < 1) := by omega
      simp [h, this]
    · have : ¬ ((s.length : Int) < 1) := by omega
      simp [h, this]
  by_cases h2 : n = 2
  · subst h2; simp only [↓reduceIte, fromU16Bytes_eq]
    by_cases h : s.length < 2
    · have : ¬ ¬ ((s.length : Int) < 2) := by omega
      simp [h, this]
    · have : ¬ ((s.length : Int) < 2) := by omega
      simp [h, this]
  by_cases h4 : n = 4
  · subst h4; simp only [↓reduceIte, fromU32Bytes_eq]
    by_cases h : s.length < 4
    · have : ¬ ¬ ((s.length : Int) < 4) := by omega
      simp [h, this]
    · have : ¬ ((s.length : Int) < 4) := by omega
      simp [h, this]
  by_cases h8 : n = 8
  · subst h8; simp only [↓reduceIte, fromU64Bytes_eq]
    by_cases h : s.length < 8
    · have : ¬ ¬ ((s.length : Int) < 8) := by omega
      simp [h, this]
    · have : ¬ ((s.length : Int) < 8) := by omega
      simp [h, this]
  simp [h1, h2, h4, h8]

/-- `ByteFieldGenerator.from_int(n, v)` is the plain constructor on widths 1, 2, 4, 8 and
    `ValueError` on every other width (including the empty field) -/
theorem genFromInt_eq (n v : Int) :
    genFromInt n v = if n = 1 ∨ n = 2 ∨ n = 4 ∨ n = 8 then Field.new v n else .error .value := by
  unfold genFromInt u8New u16New u32New u64New
  by_cases h1 : n = 1
  · subst h1; simp
  by_cases h2 : n = 2
  · subst h2; simp
  by_cases h4 : n = 4
  · subst h4; simp
  by_cases h8 : n = 8
  · subst h8; simp
  simp [h1, h2, h4, h8]

/-! ## assignments to `value` -/

/-- `field.value = v` for an integer: accepted iff `0 ≤ v < 256^width`; value and octets are
    replaced together, the width stays -/
theorem setInt_eq (f : Field) (hw : W0 f.width) (v : Int) :
    f.setInt v =
      if 0 ≤ v ∧ v < ((256 ^ f.width : Nat) : Int)
      then .ok ⟨f.width, v.toNat, beBytes f.width v.toNat⟩ else .error .value := by
  unfold Field.setInt
  simp only [verifyInt_eq]
  by_cases a : 0 ≤ v ∧ v < ((256 ^ f.width : Nat) : Int)
  · simp only [a, and_self, ↓reduceIte, bind, Except.bind]
    rcases hw.cases with h0 | hw
    · rw [h0]; simp [toUnsigned_zero, beBytes, pure, Except.pure]
    · have b : ¬ v < 0 := by omega
      have c : ¬ ((256 ^ f.width : Nat) : Int) ≤ v := by omega
      simp only [toUnsigned_W hw, b, c, ↓reduceIte, pure, Except.pure]
  · simp only [a, ↓reduceIte, bind, Except.bind]

/-- `field.value = raw` for octets: `ValueError` when too short (and always for the empty field,
    whose width has no struct format); otherwise the first `width` octets are taken -/
theorem setBytes_eq (f : Field) (hw : W0 f.width) (raw : Bytes) :
    f.setBytes raw =
      if f.width = 0 ∨ raw.length < f.width then .error .value
      else .ok ⟨f.width, beNat (raw.take f.width), raw.take f.width⟩ := by
  unfold Field.setBytes verifyBytes
  by_cases h : raw.length < f.width
  · simp only [h, or_true, ↓reduceIte, bind, Except.bind]
  · rcases hw.cases with h0 | hw
    · have : ¬ W f.width := by unfold W; omega
      simp only [h, ↓reduceIte, structSpec_not_W this, bind, Except.bind]
      simp only [h0, true_or, ↓reduceIte]
    · have hl := take_len h
      have hz : ¬ f.width = 0 := by have := hw.pos; omega
      have hb : 0 ≤ (beNat (raw.take f.width) : Int) ∧
          (beNat (raw.take f.width) : Int) < ((256 ^ f.width : Nat) : Int) := by
        have := beNat_lt (raw.take f.width); rw [hl] at this; omega
      simp only [h, hz, or_self, ↓reduceIte, structSpec_W hw, bind, Except.bind, slice0,
        unpackBE_ok hl, verifyInt_eq, hb, and_self, pure, Except.pure]

theorem setInt_inv {f g : Field} (hf : Inv f) {v : Int} (h : f.setInt v = .ok g) : Inv g := by
  rw [setInt_eq f hf.1] at h
  split at h
  · rename_i a
    cases h
    refine ⟨hf.1, ?_, rfl⟩
    show v.toNat < 256 ^ f.width
    omega
  · cases h

theorem setBytes_inv {f g : Field} (hf : Inv f) {raw : Bytes} (h : f.setBytes raw = .ok g) : Inv g := by
  rw [setBytes_eq f hf.1] at h
  split at h
  · cases h
  · rename_i a
    cases h
    have hl : (raw.take f.width).length = f.width := take_len (by omega)
    refine ⟨hf.1, ?_, ?_⟩
    · have := beNat_lt (raw.take f.width); rw [hl] at this; exact this
    · have := beBytes_beNat (raw.take f.width); rw [hl] at this; exact this.symm

theorem assign_inv {f g : Field} (hf : Inv f) {a : Assign} (h : f.assign a = .ok g) : Inv g := by
  cases a with
  | int v => exact setInt_inv hf h
  | octets raw => exact setBytes_inv hf h

theorem after_inv {f : Field} (hf : Inv f) (a : Assign) : Inv (f.after a) := by
  unfold Field.after
  split
  · rename_i g h; exact assign_inv hf h
  · exact hf

theorem run_inv {f : Field} (hf : Inv f) (l : List Assign) : Inv (f.run l) := by
  induction l generalizing f with
  | nil => exact hf
  | cons a l ih => exact ih (after_inv hf a)

/-- an assignment never changes the width -/
theorem after_width (f : Field) (a : Assign) : (f.after a).width = f.width := by
  unfold Field.after
  split
  · rename_i g h
    cases a with
    | int v =>
      simp only [Field.assign, Field.setInt, bind, Except.bind] at h
      split at h
      · cases h
      · split at h
        · cases h
        · cases h; rfl
    | octets raw =>
      simp only [Field.assign, Field.setBytes, bind, Except.bind] at h
      split at h
      · cases h
      · cases h; rfl
  · rfl

/-! ## hexadecimal view -/

theorem hexOfBytes_append (a b : Bytes) : hexOfBytes (a ++ b) = hexOfBytes a ++ hexOfBytes b := by
  simp [hexOfBytes]

private theorem hx1 (v : Nat) : v % 256 / 16 = v / 16 % 16 := by omega
private theorem hx2 (v : Nat) : v % 256 % 16 = v % 16 := by omega
private theorem hx3 (v : Nat) : v / 16 / 16 = v / 256 := by omega

/-- `2w` fixed hexadecimal digits of `v` are the hex rendering of its `w` big-endian octets -/
theorem hexFixed_beBytes (w v : Nat) : hexFixed (2 * w) v = hexOfBytes (beBytes w v) := by
  induction w generalizing v with
  | zero => rfl
  | succ w ih =>
    have e : 2 * (w + 1) = (2 * w + 1) + 1 := by omega
    rw [e]
    simp only [hexFixed, beBytes, hexOfBytes_append, hx3, ih]
    simp [hexOfBytes, hx1]

theorem pow16 (w : Nat) : 16 ^ (2 * w) = 256 ^ w := by
  rw [Nat.pow_mul]

/-- under the invariant, `hex_str` is `0x` followed by the hex rendering of the octets -/
theorem hexStr_eq {f : Field} (hf : Inv f) :
    f.hexStr = if f.width = 0 then none
               else some (String.ofList ('0' :: 'x' :: hexOfBytes f.bytes)) := by
  obtain ⟨hw, hv, hb⟩ := hf
  unfold Field.hexStr
  rcases hw.cases with h0 | hw
  · simp [h0]
  · have hz : ¬ f.width = 0 := by have := hw.pos; omega
    have hw' : f.width = 1 ∨ f.width = 2 ∨ f.width = 4 ∨ f.width = 8 := hw
    have hlt : f.value < 16 ^ (2 * f.width) := by rw [pow16]; exact hv
    simp only [hw', hz, ↓reduceIte, fmtHex, hlt, hexFixed_beBytes, hb]

/-! ## equality and hashing -/

theorem beq_iff (f g : Field) : f.beq g = true ↔ f.hashKey = g.hashKey := by
  simp [Field.beq, Field.hashKey]

/-- under the invariant a field is determined by (value, width) -/
theorem eq_of_key {f g : Field} (hf : Inv f) (hg : Inv g) (h : f.hashKey = g.hashKey) : f = g := by
  cases f with
  | mk fw fv fb =>
    cases g with
    | mk gw gv gb =>
      simp only [Field.hashKey, Prod.mk.injEq] at h
      obtain ⟨h1, h2⟩ := h
      have b1 := hf.2.2
      have b2 := hg.2.2
      simp only at b1 b2 h1 h2
      subst h1 h2
      rw [b1, b2]

/-- … and by its octets -/
theorem eq_of_bytes {f g : Field} (hf : Inv f) (hg : Inv g) (h : f.bytes = g.bytes) : f = g := by
  apply eq_of_key hf hg
  have lf : f.bytes.length = f.width := by rw [hf.2.2]; simp
  have lg : g.bytes.length = g.width := by rw [hg.2.2]; simp
  have hw : f.width = g.width := by rw [← lf, ← lg, h]
  have vf : beNat f.bytes = f.value := by rw [hf.2.2]; exact beNat_beBytes _ _ hf.2.1
  have vg : beNat g.bytes = g.value := by rw [hg.2.2]; exact beNat_beBytes _ _ hg.2.1
  have hv : f.value = g.value := by rw [← vf, ← vg, h]
  simp [Field.hashKey, hw, hv]

/-! ## two's complement -/

/-- decoding what `struct.pack` wrote for a signed format gives the value back -/
theorem unpackS_packS {w : Nat} (hw : W w) (v : Int)
    (h : -((256 ^ w / 2 : Nat) : Int) ≤ v ∧ v < ((256 ^ w / 2 : Nat) : Int)) :
    unpackS w (beBytes w (v % ((256 ^ w : Nat) : Int)).toNat) = .ok v := by
  have he := pow_even hw
  have hh := half_pos hw
  unfold unpackS
  simp only [beBytes_length, ↓reduceIte]
  generalize 256 ^ w / 2 = H at *
  by_cases hv : 0 ≤ v
  · have e : v % ((256 ^ w : Nat) : Int) = v := Int.emod_eq_of_lt hv (by omega)
    rw [e, beNat_beBytes w v.toNat (by omega)]
    have : v.toNat < H := by omega
    simp only [this, ↓reduceIte]
    congr 1; omega
  · have e : v % ((256 ^ w : Nat) : Int) = v + ((256 ^ w : Nat) : Int) := by
      rw [← Int.add_emod_right v]
      exact Int.emod_eq_of_lt (by omega) (by omega)
    rw [e, beNat_beBytes w (v + ((256 ^ w : Nat) : Int)).toNat (by omega)]
    have : ¬ (v + ((256 ^ w : Nat) : Int)).toNat < H := by omega
    simp only [this, ↓reduceIte]
    congr 1; omega

/-! ## only documented errors -/

theorem new_documented (v n : Int) : Documented (Field.new v n) := by
  rw [new_eq]; split
  · exact Documented.ok _
  · exact Documented.err rfl

theorem fromBytes_documented (raw : Bytes) : Documented (fromBytes raw) := by
  rw [fromBytes_eq]; split
  · exact Documented.ok _
  · exact Documented.err rfl

theorem genFromBytes_documented (n : Int) (s : Bytes) : Documented (genFromBytes n s) := by
  rw [genFromBytes_eq]; split
  · exact Documented.ok _
  · exact Documented.err rfl

theorem genFromInt_documented (n v : Int) : Documented (genFromInt n v) := by
  rw [genFromInt_eq]; split
  · exact new_documented v n
  · exact Documented.err rfl

theorem toSigned_documented (n v : Int) : Documented (toSigned n v) := by
  by_cases h : okWidth n
  · obtain ⟨e, hw⟩ := okWidth_toNat h
    rw [← e]
    rcases hw.cases with h0 | hw
    · rw [h0]; simp only [Int.natCast_zero, toSigned_zero]; exact Documented.ok _
    · rw [toSigned_W hw]; split
      · exact Documented.ok _
      · exact Documented.err rfl
  · rw [toSigned_bad h]; exact Documented.err rfl

/-- `to_unsigned` lets `struct.error` escape exactly for a negative value on widths 1, 2, 4, 8 -/
theorem toUnsigned_documented (n v : Int) (hv : 0 ≤ v) : Documented (toUnsigned n v) := by
  by_cases h : okWidth n
  · obtain ⟨e, hw⟩ := okWidth_toNat h
    rw [← e]
    rcases hw.cases with h0 | hw
    · rw [h0]; simp only [Int.natCast_zero, toUnsigned_zero]; exact Documented.ok _
    · rw [toUnsigned_W hw]
      have : ¬ v < 0 := by omega
      simp only [this, ↓reduceIte]
      split
      · exact Documented.err rfl
      · exact Documented.ok _
  · rw [toUnsigned_bad h]; exact Documented.err rfl

end SpVerif.ByteField
