import SpVerif.Model.Prompt
import SpVerif.Proofs.FileDirective
/-!
# Lemmas about the Prompt PDU model (reused by C04 / C09 / C10 / C11 / C12)

`new_eq`, `unpack_eq` (prelude, then `parse`), `parse_ok` / `parse_short`, `unpack_inv`,
`unpack_documented`, `unpack_take`.
-/
namespace SpVerif.Prompt
open SpVerif SpVerif.CfdpHeader SpVerif.FileDirective

/-- **complete case analysis of the constructor** -/
theorem new_eq (c : PduConfig) (rr : Nat) :
    Prompt.new c rr =
      if c.source.width ≠ c.dest.width then .error .value
      else .ok ⟨⟨⟨0, 0, (if c.crcFlag = 1 then 3 else 1) + 1, { c with direction := 0 }⟩, 9⟩, rr⟩ := by
  unfold Prompt.new
  simp only [DIR_PROMPT]
  rw [FileDirective.new_eq]
  by_cases h2 : c.source.width = c.dest.width
  · have g : ¬ (65535 < 1 + 1 ∨ c.source.width ≠ c.dest.width) := by omega
    have g' : ¬ c.source.width ≠ c.dest.width := by omega
    rw [if_neg g, if_neg g']
    by_cases hc : c.crcFlag = 1
    · simp only [hc, ↓reduceIte, bind, Except.bind, setParamLen_eq, pure, Except.pure]
      rfl
    · simp only [hc, ↓reduceIte, bind, Except.bind, pure, Except.pure]
  · have g : (65535 < 1 + 1 ∨ c.source.width ≠ c.dest.width) := Or.inr h2
    rw [if_pos g, if_pos h2]
    rfl

/-- the parameter parser: one octet behind the directive header -/
def parse (r : FileDirective × Bytes) : Py Prompt := do
  let i := r.1.headerLen
  if i ≥ r.2.length then throw .value
  let b ← idx r.2 i
  let rr ← enumOf [0, 1] (b / 128 % 2)
  pure ⟨r.1, rr⟩

theorem unpack_eq (d : Bytes) : Prompt.unpack d = prelude d >>= parse := by
  unfold Prompt.unpack prelude parse
  cases FileDirective.unpack d with
  | error e => rfl
  | ok fd =>
    cases hv : fd.verify d with
    | error e => simp [hv, bind, Except.bind]
    | ok n => simp [hv, bind, Except.bind, pure, Except.pure]

theorem enumOf_bit (x : Nat) : enumOf [0, 1] (x % 2) = .ok (x % 2) := by
  have : x % 2 = 0 ∨ x % 2 = 1 := by omega
  rcases this with h | h <;> simp [enumOf, h]

theorem parse_short (fd : FileDirective) (p : Bytes) (h : p.length ≤ fd.headerLen) :
    parse (fd, p) = .error .value := by
  have : fd.headerLen ≥ p.length := h
  simp [parse, this, throw, throwThe, MonadExceptOf.throw, bind, Except.bind]

theorem parse_ok (fd : FileDirective) (p : Bytes) (h : fd.headerLen < p.length) :
    parse (fd, p) = .ok ⟨fd, p[fd.headerLen].toNat / 128 % 2⟩ := by
  have : ¬ fd.headerLen ≥ p.length := by omega
  simp [parse, this, bind, Except.bind, pure, Except.pure, idx_ok h, enumOf_bit]

theorem parse_documented (r : FileDirective × Bytes) : Documented (parse r) := by
  obtain ⟨fd, p⟩ := r
  by_cases h : p.length ≤ fd.headerLen
  · rw [parse_short fd p h]; exact Documented.err rfl
  · rw [parse_ok fd p (by omega)]; exact Documented.ok _

theorem unpack_documented (d : Bytes) : Documented (Prompt.unpack d) := by
  rw [unpack_eq]; exact bind_prelude_documented parse parse_documented d

/-- **inversion** -/
theorem unpack_inv (d : Bytes) (a : Prompt) (h : Prompt.unpack d = .ok a) :
    prelude d = .ok (a.fd, d.take a.fd.paramsEnd) ∧ a.fd.headerLen < a.fd.paramsEnd ∧
    parse (a.fd, d.take a.fd.paramsEnd) = .ok a ∧
    a.packetLen ≤ d.length ∧ (a.fd.header.conf.crcFlag = 1 → Crc.crc16 (d.take a.packetLen) = 0) := by
  rw [unpack_eq] at h
  obtain ⟨fd, p, hp, hf⟩ := bind_prelude_inv parse d a h
  obtain ⟨_, _, h3, h4, h5⟩ := (prelude_ok_iff d fd p).mp hp
  obtain ⟨_, _, hlen, _, _, _⟩ := prelude_facts d fd p hp
  by_cases hs : p.length ≤ fd.headerLen
  · rw [parse_short fd p hs] at hf; cases hf
  · have hfd : a.fd = fd := by
      rw [parse_ok fd p (by omega)] at hf; cases hf; rfl
    subst hfd
    subst h5
    exact ⟨hp, by omega, hf, h3, h4⟩

/-- **only the declared PDU matters** -/
theorem unpack_take (d : Bytes) (a : Prompt) (h : Prompt.unpack d = .ok a) (rest : Bytes) :
    Prompt.unpack (d.take a.packetLen ++ rest) = .ok a := by
  obtain ⟨hp, hg, hf, _, _⟩ := unpack_inv d a h
  obtain ⟨_, _, _, hpe, _, _⟩ := prelude_facts d _ _ hp
  have h1 : 1 ≤ a.fd.header.dataFieldLen := by
    have : a.fd.packetLen = a.fd.header.dataFieldLen + a.fd.header.headerLen := rfl
    have : a.fd.headerLen = a.fd.header.headerLen + 1 := rfl
    omega
  rw [unpack_eq, show a.packetLen = a.fd.packetLen from rfl, prelude_take d a.fd _ hp h1 rest]
  exact hf

end SpVerif.Prompt
