import SpVerif.Model.Ack
import SpVerif.Proofs.FileDirective
/-!
# Lemmas about the ACK PDU model (reused by C04 / C09 / C10 / C11 / C12)

* `new_eq` — complete case analysis of the constructor
* `unpack_eq` — the decoder is the common prelude followed by `parse` (two parameter octets)
* `parse_ok` / `parse_short`, `unpack_inv` (what an accepted buffer looks like, incl. the CRC fact),
  `unpack_error` / `unpack_documented` (only `ValueError`, `UnsupportedCfdpVersion`, `InvalidCrc`),
  `unpack_take` (an accepted buffer is decoded from its declared PDU alone)
-/
namespace SpVerif.Ack
open SpVerif SpVerif.CfdpHeader SpVerif.FileDirective

theorem calcLen_eq (fd : FileDirective) :
    calcLen fd = .ok { fd with header := { fd.header with
      dataFieldLen := (if fd.header.conf.crcFlag = 1 then 4 else 2) + 1 } } := by
  unfold calcLen
  rw [setParamLen_eq]
  have : ¬ 65535 < (if fd.header.conf.crcFlag = 1 then 4 else 2) + 1 := by split <;> omega
  rw [if_neg this]

/-- **complete case analysis of the constructor** -/
theorem new_eq (c : PduConfig) (acked : Nat) (cond : Int) (status : Nat) :
    Ack.new c acked cond status =
      if (acked ≠ 5 ∧ acked ≠ 4) ∨ c.source.width ≠ c.dest.width then .error .value
      else .ok ⟨⟨⟨0, 0, (if c.crcFlag = 1 then 4 else 2) + 1,
                  { c with direction := if acked = 5 then 0 else 1 }⟩, 6⟩,
                acked, if acked = 5 then 1 else 0, cond, status⟩ := by
  unfold Ack.new
  simp only [DIR_FINISHED, DIR_EOF, DIR_ACK]
  by_cases h1 : acked ≠ 5 ∧ acked ≠ 4
  · simp [h1, throw, throwThe, MonadExceptOf.throw, bind, Except.bind]
  · rw [FileDirective.new_eq]
    by_cases h2 : c.source.width = c.dest.width
    · have g : ¬ (65535 < 2 + 1 ∨ c.source.width ≠ c.dest.width) := by omega
      have g' : ¬ ((acked ≠ 5 ∧ acked ≠ 4) ∨ c.source.width ≠ c.dest.width) := by omega
      rw [if_neg g, if_neg g']
      simp only [h1, ↓reduceIte, bind, Except.bind, calcLen_eq, pure, Except.pure]
      rfl
    · have g : (65535 < 2 + 1 ∨ c.source.width ≠ c.dest.width) := Or.inr h2
      simp [h1, g, h2, bind, Except.bind]

/-- the parameter parser: two octets behind the directive header -/
def parse (r : FileDirective × Bytes) : Py Ack := do
  let i := r.1.headerLen
  if i + 2 > r.2.length then throw .value
  let b0 ← idx r.2 i
  let b1 ← idx r.2 (i + 1)
  pure ⟨r.1, b0 / 16 % 16, b0 % 16, ((b1 / 16 % 16 : Nat) : Int), b1 % 4⟩

theorem unpack_eq (d : Bytes) : Ack.unpack d = prelude d >>= parse := by
  unfold Ack.unpack prelude parse
  cases FileDirective.unpack d with
  | error e => rfl
  | ok fd =>
    cases hv : fd.verify d with
    | error e => simp [hv, bind, Except.bind]
    | ok n => simp [hv, bind, Except.bind, pure, Except.pure]

theorem parse_short (fd : FileDirective) (p : Bytes) (h : p.length < fd.headerLen + 2) :
    parse (fd, p) = .error .value := by
  have : fd.headerLen + 2 > p.length := by omega
  simp [parse, this, throw, throwThe, MonadExceptOf.throw, bind, Except.bind]

theorem parse_ok (fd : FileDirective) (p : Bytes) (h : fd.headerLen + 2 ≤ p.length) :
    parse (fd, p) = .ok ⟨fd, p[fd.headerLen].toNat / 16 % 16, p[fd.headerLen].toNat % 16,
      ((p[fd.headerLen + 1].toNat / 16 % 16 : Nat) : Int), p[fd.headerLen + 1].toNat % 4⟩ := by
  have : ¬ fd.headerLen + 2 > p.length := by omega
  simp [parse, this, bind, Except.bind, pure, Except.pure, idx_ok (show fd.headerLen < p.length by omega),
    idx_ok (show fd.headerLen + 1 < p.length by omega)]

theorem parse_documented (r : FileDirective × Bytes) : Documented (parse r) := by
  obtain ⟨fd, p⟩ := r
  by_cases h : p.length < fd.headerLen + 2
  · rw [parse_short fd p h]; exact Documented.err rfl
  · rw [parse_ok fd p (by omega)]; exact Documented.ok _

/-- the decoder fails, on any octet string whatever, only with `ValueError`,
    `UnsupportedCfdpVersion` or `InvalidCrc` -/
theorem unpack_documented (d : Bytes) : Documented (Ack.unpack d) := by
  rw [unpack_eq]; exact bind_prelude_documented parse parse_documented d

/-- **inversion**: an accepted buffer holds a well-formed header, the whole declared PDU, a valid
    CRC when flagged, and the two parameter octets inside the declared parameter field -/
theorem unpack_inv (d : Bytes) (a : Ack) (h : Ack.unpack d = .ok a) :
    prelude d = .ok (a.fd, d.take a.fd.paramsEnd) ∧ a.fd.headerLen + 2 ≤ a.fd.paramsEnd ∧
    parse (a.fd, d.take a.fd.paramsEnd) = .ok a ∧
    a.packetLen ≤ d.length ∧ (a.fd.header.conf.crcFlag = 1 → Crc.crc16 (d.take a.packetLen) = 0) := by
  rw [unpack_eq] at h
  obtain ⟨fd, p, hp, hf⟩ := bind_prelude_inv parse d a h
  obtain ⟨_, _, h3, h4, h5⟩ := (prelude_ok_iff d fd p).mp hp
  obtain ⟨_, _, hlen, _, _, _⟩ := prelude_facts d fd p hp
  by_cases hs : p.length < fd.headerLen + 2
  · rw [parse_short fd p hs] at hf; cases hf
  · have hfd : a.fd = fd := by
      rw [parse_ok fd p (by omega)] at hf; cases hf; rfl
    subst hfd
    subst h5
    exact ⟨hp, by omega, hf, h3, h4⟩

/-- **only the declared PDU matters**: an accepted buffer decodes to the same PDU when it is cut
    to `packet_len` and followed by anything else -/
theorem unpack_take (d : Bytes) (a : Ack) (h : Ack.unpack d = .ok a) (rest : Bytes) :
    Ack.unpack (d.take a.packetLen ++ rest) = .ok a := by
  obtain ⟨hp, hg, hf, _, _⟩ := unpack_inv d a h
  obtain ⟨_, _, _, hpe, _, _⟩ := prelude_facts d _ _ hp
  have h1 : 1 ≤ a.fd.header.dataFieldLen := by
    have : a.fd.packetLen = a.fd.header.dataFieldLen + a.fd.header.headerLen := rfl
    have : a.fd.headerLen = a.fd.header.headerLen + 1 := rfl
    omega
  rw [unpack_eq, show a.packetLen = a.fd.packetLen from rfl, prelude_take d a.fd _ hp h1 rest]
  exact hf

end SpVerif.Ack
