import SpVerif.Model.MsgToUser
import SpVerif.Proofs.Lv
import SpVerif.Proofs.Tlv
import SpVerif.Proofs.ByteField
/-!
# Characterisation lemmas for the reserved CFDP messages (`Model/MsgToUser.lean`), reusable by C09/C10/C11

A reserved message produced by any constructor or by `to_reserved_msg_tlv` has the value
`shape t v` = `"cfdp"`, type octet `t`, parameters `v`; `rsv ty t v` is that message.

* `shape_*`, `slice_append_mid`, `drop_append_add` — index arithmetic on the value;
* `get*_rsv` — every getter in closed form on `rsv ty t v` (guard, the only errors, the result);
  `isProxy_rsv` … `dirType_rsv` — the classification; `get*_documented` — only `ValueError`;
* `ReservedCfdpMessage.new_eq` / `new_nat`, `isReserved_iff`, `reserved_shape`, `toReserved_shape`,
  `toReserved_not`, `toReserved_some`, `toReserved_documented`, `toReserved_of_unpack` — constructor
  and conversion, completely;
* `lvOf`, `lvsOf`, `lv_unpack`, `lv_drop`, `unpack_lvs_at` — consecutive LVs (list induction);
* `<Builder>.new_eq` — every builder in closed form (`ok (rsv 2 type fields)` iff everything fits);
* `get*_built` — the getter of a kind applied to what the builder of that kind produces;
* `packedRsv`, `pack_rsv`, `unpack_packedRsv`, `toGeneric_rsv` — pack → TLV decoder → conversion.
-/
namespace SpVerif.MsgToUser
open SpVerif SpVerif.Lv SpVerif.Tlv SpVerif.ByteField

theorem drop_append_add (p w : Bytes) (k : Nat) : (p ++ w).drop (p.length + k) = w.drop k := by
  rw [← List.drop_drop, List.drop_left]

theorem slice_append_mid (p w : Bytes) (k n : Nat) :
    slice (p ++ w) (p.length + k) (p.length + k + n) = (w.drop k).take n := by
  unfold slice
  rw [Nat.add_assoc, List.take_length_add_append, drop_append_add, List.drop_take]
  simp

def shape (t : UInt8) (v : Bytes) : Bytes := cfdpMarker ++ t :: v

theorem shape_length (t : UInt8) (v : Bytes) : (shape t v).length = 5 + v.length := by
  simp [shape, cfdpMarker]; omega

theorem shape_drop (t : UInt8) (v : Bytes) (k : Nat) : (shape t v).drop (5 + k) = v.drop k := by
  have : shape t v = (cfdpMarker ++ [t]) ++ v := by simp [shape]
  rw [this]
  exact drop_append_add (cfdpMarker ++ [t]) v k

theorem shape_drop5 (t : UInt8) (v : Bytes) : (shape t v).drop 5 = v := by
  simpa using shape_drop t v 0

theorem shape_idx4 (t : UInt8) (v : Bytes) : idx (shape t v) 4 = .ok t.toNat := by
  simp [shape, cfdpMarker, idx]

theorem shape_idx5 (t b : UInt8) (w : Bytes) : idx (shape t (b :: w)) 5 = .ok b.toNat := by
  simp [shape, cfdpMarker, idx]

theorem shape_slice6 (t b : UInt8) (w : Bytes) (k n : Nat) :
    slice (shape t (b :: w)) (6 + k) (6 + k + n) = (w.drop k).take n := by
  have : shape t (b :: w) = (cfdpMarker ++ [t, b]) ++ w := by simp [shape]
  rw [this]
  exact slice_append_mid (cfdpMarker ++ [t, b]) w k n

/-- a reserved message whose value is `"cfdp"`, the type octet `t`, the parameters `v` -/
def rsv (ty : Nat) (t : UInt8) (v : Bytes) : ReservedCfdpMessage := ⟨⟨ty, shape t v⟩⟩

theorem msgType_rsv (ty : Nat) (t : UInt8) (v : Bytes) : (rsv ty t v).msgType = .ok t.toNat := by
  simp [rsv, ReservedCfdpMessage.msgType, shape_idx4]

theorem getOrig_rsv (ty : Nat) (t : UInt8) (v : Bytes) :
    (rsv ty t v).getOriginatingTransactionId =
      if t.toNat ≠ origIdType then .ok none
      else match v with
        | [] => .error .value
        | b :: w =>
          if w.length + 6 < (b.toNat / 16 % 8 + 1) + (b.toNat % 8 + 1) + 1 then .error .value
          else fromBytes (w.take (b.toNat / 16 % 8 + 1)) >>= fun s =>
            fromBytes ((w.drop (b.toNat / 16 % 8 + 1)).take (b.toNat % 8 + 1)) >>= fun q =>
              .ok (some ⟨s, q⟩) := by
  unfold ReservedCfdpMessage.getOriginatingTransactionId
  simp only [msgType_rsv, bind, Except.bind]
  by_cases ht : t.toNat ≠ origIdType
  · simp [ht, pure, Except.pure]
  · simp only [ht, ↓reduceIte]
    cases v with
    | nil =>
      simp [rsv, shape_length, throw, throwThe, MonadExceptOf.throw]
    | cons b w =>
      have hl : ¬ (5 + (w.length + 1) < 6) := by omega
      have e1 := shape_slice6 t b w 0
      simp only [Nat.add_zero, List.drop_zero] at e1
      simp only [rsv, hl, ↓reduceIte, shape_idx5, shape_length, List.length_cons, e1, shape_slice6,
        throw, throwThe, MonadExceptOf.throw, pure, Except.pure]
      have : (5 + (w.length + 1) < b.toNat / 16 % 8 + 1 + (b.toNat % 8 + 1) + 1) ↔
          (w.length + 6 < b.toNat / 16 % 8 + 1 + (b.toNat % 8 + 1) + 1) := by omega
      simp only [this]


theorem not_proxy_or (t K : Nat) (hK : K ∈ proxyTypes) : (t ∉ proxyTypes ∨ t ≠ K) ↔ t ≠ K := by
  constructor
  · rintro (h | h)
    · intro e; subst e; exact h hK
    · exact h
  · intro h; exact Or.inr h

theorem not_dir_or (t K : Nat) (hK : K ∈ dirOpTypes) : (t ∉ dirOpTypes ∨ t ≠ K) ↔ t ≠ K := by
  constructor
  · rintro (h | h)
    · intro e; subst e; exact h hK
    · exact h
  · intro h; exact Or.inr h

theorem getPutReq_rsv (ty : Nat) (t : UInt8) (v : Bytes) :
    (rsv ty t v).getProxyPutRequestParams =
      if t.toNat ≠ pPutRequest then .ok none
      else CfdpLv.unpack v >>= fun a =>
        if a.packetLen ≥ v.length then .ok none
        else CfdpLv.unpack (v.drop a.packetLen) >>= fun b =>
          if a.packetLen + b.packetLen ≥ v.length then .ok none
          else CfdpLv.unpack (v.drop (a.packetLen + b.packetLen)) >>= fun c =>
            fromBytes a.value >>= fun f => .ok (some ⟨f, b, c⟩) := by
  unfold ReservedCfdpMessage.getProxyPutRequestParams
  simp only [msgType_rsv, bind, Except.bind, not_proxy_or _ _ (show pPutRequest ∈ proxyTypes by decide)]
  by_cases ht : t.toNat ≠ pPutRequest
  · simp [ht, pure, Except.pure]
  · simp only [ht, ↓reduceIte, rsv, shape_drop5, shape_length, pure, Except.pure]
    cases CfdpLv.unpack v with
    | error e => rfl
    | ok a =>
      simp only [shape_drop, Nat.add_assoc]
      have g1 : (5 + a.packetLen ≥ 5 + v.length) ↔ (a.packetLen ≥ v.length) := by omega
      simp only [g1]
      split
      · rfl
      · cases CfdpLv.unpack (v.drop a.packetLen) with
        | error e => rfl
        | ok b =>
          have g2 : (5 + (a.packetLen + b.packetLen) ≥ 5 + v.length) ↔ (a.packetLen + b.packetLen ≥ v.length) := by omega
          simp only [g2]

theorem getPutResp_rsv (ty : Nat) (t : UInt8) (v : Bytes) :
    (rsv ty t v).getProxyPutResponseParams =
      if t.toNat ≠ pPutResponse then .ok none
      else match v with
        | [] => .error .value
        | b :: _ =>
          if b.toNat / 16 ∈ conditionCodes then .ok (some ⟨(b.toNat / 16 : Nat), b.toNat / 4 % 2, b.toNat % 4⟩)
          else .error .value := by
  unfold ReservedCfdpMessage.getProxyPutResponseParams
  simp only [msgType_rsv, bind, Except.bind, not_proxy_or _ _ (show pPutResponse ∈ proxyTypes by decide)]
  by_cases ht : t.toNat ≠ pPutResponse
  · simp [ht, pure, Except.pure]
  · simp only [ht, ↓reduceIte]
    cases v with
    | nil => simp [rsv, shape_length, throw, throwThe, MonadExceptOf.throw]
    | cons b w =>
      have hl : ¬ (5 + (w.length + 1) < 6) := by omega
      have hb := toNat_lt b
      have e : b.toNat / 16 % 16 = b.toNat / 16 := by omega
      simp only [rsv, shape_length, List.length_cons, hl, ↓reduceIte, shape_idx5, enumOf, e, pure, Except.pure]
      by_cases hc : b.toNat / 16 ∈ conditionCodes <;> simp only [hc, ↓reduceIte]

theorem getClosure_rsv (ty : Nat) (t : UInt8) (v : Bytes) :
    (rsv ty t v).getProxyClosureRequested =
      if t.toNat ≠ pClosureRequest then .ok none
      else match v with
        | [] => .error .value
        | b :: _ => .ok (some (b.toNat % 2)) := by
  unfold ReservedCfdpMessage.getProxyClosureRequested
  simp only [msgType_rsv, bind, Except.bind, not_proxy_or _ _ (show pClosureRequest ∈ proxyTypes by decide)]
  by_cases ht : t.toNat ≠ pClosureRequest
  · simp [ht, pure, Except.pure]
  · simp only [ht, ↓reduceIte]
    cases v with
    | nil => simp [rsv, shape_length, throw, throwThe, MonadExceptOf.throw]
    | cons b w =>
      have hl : ¬ (5 + (w.length + 1) < 6) := by omega
      simp only [rsv, shape_length, List.length_cons, hl, ↓reduceIte, shape_idx5, pure, Except.pure]

theorem getTxMode_rsv (ty : Nat) (t : UInt8) (v : Bytes) :
    (rsv ty t v).getProxyTransmissionMode =
      if t.toNat ≠ pTransmissionMode then .ok none
      else match v with
        | [] => .error .value
        | b :: _ => .ok (some (b.toNat % 2)) := by
  unfold ReservedCfdpMessage.getProxyTransmissionMode
  simp only [msgType_rsv, bind, Except.bind, not_proxy_or _ _ (show pTransmissionMode ∈ proxyTypes by decide)]
  by_cases ht : t.toNat ≠ pTransmissionMode
  · simp [ht, pure, Except.pure]
  · simp only [ht, ↓reduceIte]
    cases v with
    | nil => simp [rsv, shape_length, throw, throwThe, MonadExceptOf.throw]
    | cons b w =>
      have hl : ¬ (5 + (w.length + 1) < 6) := by omega
      simp only [rsv, shape_length, List.length_cons, hl, ↓reduceIte, shape_idx5, pure, Except.pure]

theorem getDirReq_rsv (ty : Nat) (t : UInt8) (v : Bytes) :
    (rsv ty t v).getDirListingRequestParams =
      if t.toNat ≠ dListingRequest then .ok none
      else CfdpLv.unpack v >>= fun a => CfdpLv.unpack (v.drop a.packetLen) >>= fun b => .ok (some ⟨a, b⟩) := by
  unfold ReservedCfdpMessage.getDirListingRequestParams
  simp only [msgType_rsv, bind, Except.bind, not_dir_or _ _ (show dListingRequest ∈ dirOpTypes by decide)]
  by_cases ht : t.toNat ≠ dListingRequest
  · simp [ht, pure, Except.pure]
  · simp only [ht, ↓reduceIte, rsv, shape_drop5, shape_drop, pure, Except.pure]

theorem getDirResp_rsv (ty : Nat) (t : UInt8) (v : Bytes) :
    (rsv ty t v).getDirListingResponseParams =
      if t.toNat ≠ dListingResponse then .ok none
      else match v with
        | [] => .error .value
        | f :: w => CfdpLv.unpack w >>= fun a => CfdpLv.unpack (w.drop a.packetLen) >>= fun b =>
            .ok (some (f.toNat / 128 == 1, ⟨a, b⟩)) := by
  unfold ReservedCfdpMessage.getDirListingResponseParams
  simp only [msgType_rsv, bind, Except.bind, not_dir_or _ _ (show dListingResponse ∈ dirOpTypes by decide)]
  by_cases ht : t.toNat ≠ dListingResponse
  · simp [ht, pure, Except.pure]
  · simp only [ht, ↓reduceIte]
    cases v with
    | nil => simp [rsv, shape_length, throw, throwThe, MonadExceptOf.throw]
    | cons f w =>
      have hl : ¬ (5 + (w.length + 1) < 6) := by omega
      have hf := toNat_lt f
      have e : f.toNat / 128 % 2 = f.toNat / 128 := by omega
      have d6 : ∀ k, (shape t (f :: w)).drop (6 + k) = w.drop k := by
        intro k
        have := shape_drop t (f :: w) (1 + k)
        rw [← Nat.add_assoc] at this
        simpa [Nat.add_comm 1 k] using this
      have d60 := d6 0
      simp only [Nat.add_zero, List.drop_zero] at d60
      simp only [rsv, shape_length, List.length_cons, hl, ↓reduceIte, shape_idx5, d60, d6, e, pure, Except.pure]

theorem getDirOpts_rsv (ty : Nat) (t : UInt8) (v : Bytes) :
    (rsv ty t v).getDirListingOptions =
      if t.toNat ≠ dCustomListingParameters then .ok none
      else match v with
        | [] => .error .value
        | b :: _ => .ok (some ⟨b.toNat / 2 % 2, b.toNat % 2⟩) := by
  unfold ReservedCfdpMessage.getDirListingOptions
  simp only [msgType_rsv, bind, Except.bind, not_dir_or _ _ (show dCustomListingParameters ∈ dirOpTypes by decide)]
  by_cases ht : t.toNat ≠ dCustomListingParameters
  · simp [ht, pure, Except.pure]
  · simp only [ht, ↓reduceIte]
    cases v with
    | nil => simp [rsv, shape_length, throw, throwThe, MonadExceptOf.throw]
    | cons b w =>
      have hl : ¬ (5 + (w.length + 1) < 6) := by omega
      simp only [rsv, shape_length, List.length_cons, hl, ↓reduceIte, shape_idx5, pure, Except.pure]

/-! ## constructor and conversion -/

theorem ReservedCfdpMessage.new_eq (t : Int) (v : Bytes) :
    ReservedCfdpMessage.new t v =
      if 0 ≤ t ∧ t ≤ 255 ∧ v.length ≤ 250 then .ok (rsv tMsgToUser (u8 t.toNat) v) else .error .value := by
  unfold ReservedCfdpMessage.new
  by_cases h : t < 0 ∨ t > 255
  · have : ¬ (0 ≤ t ∧ t ≤ 255 ∧ v.length ≤ 250) := by omega
    simp [h, this, throw, throwThe, MonadExceptOf.throw, bind, Except.bind]
  · have hb : 0 ≤ t ∧ t < 256 := by omega
    have hl : (cfdpMarker ++ u8 t.toNat :: v).length = 5 + v.length := by simp [cfdpMarker]; omega
    by_cases hv : v.length ≤ 250
    · have : 0 ≤ t ∧ t ≤ 255 ∧ v.length ≤ 250 := by omega
      rw [if_pos this]
      simp only [h, ↓reduceIte, bind, Except.bind, pure, Except.pure, byteOf, hb, and_self]
      rw [CfdpTlv.new_ok (by rw [hl]; omega)]
      rfl
    · have : ¬ (0 ≤ t ∧ t ≤ 255 ∧ v.length ≤ 250) := by omega
      rw [if_neg this]
      simp only [h, ↓reduceIte, bind, Except.bind, pure, Except.pure, byteOf, hb, and_self]
      rw [CfdpTlv.new_err (by rw [hl]; omega)]

/-- on a natural-number message type (what the builders pass) -/
theorem ReservedCfdpMessage.new_nat (t : Nat) (v : Bytes) :
    ReservedCfdpMessage.new (t : Int) v =
      if t < 256 ∧ v.length ≤ 250 then .ok (rsv tMsgToUser (u8 t) v) else .error .value := by
  rw [ReservedCfdpMessage.new_eq, Int.toNat_natCast]
  by_cases h : t < 256 ∧ v.length ≤ 250
  · have : 0 ≤ (t : Int) ∧ (t : Int) ≤ 255 ∧ v.length ≤ 250 := by omega
    rw [if_pos h, if_pos this]
  · have : ¬ (0 ≤ (t : Int) ∧ (t : Int) ≤ 255 ∧ v.length ≤ 250) := by omega
    rw [if_neg h, if_neg this]

theorem ReservedCfdpMessage.new_documented (t : Int) (v : Bytes) : Documented (ReservedCfdpMessage.new t v) := by
  rw [ReservedCfdpMessage.new_eq]; split
  · exact Documented.ok _
  · exact Documented.err rfl

/-- the reserved-message test in closed form -/
theorem isReserved_iff (m : MessageToUserTlv) :
    m.isReservedCfdpMessage = true ↔ 5 ≤ m.tlv.value.length ∧ m.tlv.value.take 4 = cfdpMarker := by
  unfold MessageToUserTlv.isReservedCfdpMessage
  simp [slice, cfdpMarker]

/-- a reserved value is `"cfdp"`, a type octet and the parameters -/
theorem reserved_shape (m : MessageToUserTlv) (h : m.isReservedCfdpMessage = true) :
    ∃ t v, m.tlv.value = shape t v := by
  obtain ⟨h5, h4⟩ := (isReserved_iff m).1 h
  have e : m.tlv.value = m.tlv.value.take 4 ++ m.tlv.value.drop 4 := (List.take_append_drop 4 _).symm
  cases hd : m.tlv.value.drop 4 with
  | nil =>
    have := congrArg List.length hd
    simp at this; omega
  | cons t v =>
    refine ⟨t, v, ?_⟩
    rw [e, h4, hd]; rfl

theorem isReserved_shape (ty : Nat) (t : UInt8) (v : Bytes) :
    (MessageToUserTlv.mk ⟨ty, shape t v⟩).isReservedCfdpMessage = true := by
  rw [isReserved_iff]
  simp [shape, cfdpMarker]

/-- conversion of a reserved value: a new message-to-user TLV with the same value
    (refused only when the value cannot be a TLV value at all) -/
theorem toReserved_shape (ty : Nat) (t : UInt8) (v : Bytes) :
    toReservedMsgTlv ⟨⟨ty, shape t v⟩⟩ =
      if v.length ≤ 250 then .ok (some (rsv tMsgToUser t v)) else .error .value := by
  unfold toReservedMsgTlv
  have hb := toNat_lt t
  simp only [isReserved_shape, not_true_eq_false, ↓reduceIte, shape_idx4, shape_drop5, bind, Except.bind,
    ReservedCfdpMessage.new_eq, pure, Except.pure]
  by_cases hv : v.length ≤ 250
  · have : 0 ≤ (t.toNat : Int) ∧ (t.toNat : Int) ≤ 255 ∧ v.length ≤ 250 := by omega
    simp [this]
  · have : ¬ (0 ≤ (t.toNat : Int) ∧ (t.toNat : Int) ≤ 255 ∧ v.length ≤ 250) := by omega
    rw [if_neg this, if_neg hv]

theorem toReserved_not (m : MessageToUserTlv) (h : m.isReservedCfdpMessage = false) :
    toReservedMsgTlv m = .ok none := by
  simp [toReservedMsgTlv, h, pure, Except.pure]

/-- the conversion fails only with `ValueError`, and only for a value of more than 255 octets
    (which no constructor or decoder produces) -/
theorem toReserved_documented (m : MessageToUserTlv) : Documented (toReservedMsgTlv m) := by
  cases h : m.isReservedCfdpMessage with
  | false => rw [toReserved_not m h]; exact Documented.ok _
  | true =>
    obtain ⟨t, v, e⟩ := reserved_shape m h
    have : m = ⟨⟨m.tlv.ttype, shape t v⟩⟩ := by
      cases m with | mk tl => cases tl with | mk a b => simp at e; simp [e]
    rw [this, toReserved_shape]; split
    · exact Documented.ok _
    · exact Documented.err rfl

/-- whatever the conversion returns is a well-shaped reserved message with the same value -/
theorem toReserved_some (m : MessageToUserTlv) (r : ReservedCfdpMessage)
    (h : toReservedMsgTlv m = .ok (some r)) :
    ∃ t v, m.tlv.value = shape t v ∧ r = rsv tMsgToUser t v := by
  cases hr : m.isReservedCfdpMessage with
  | false => rw [toReserved_not m hr] at h; cases h
  | true =>
    obtain ⟨t, v, e⟩ := reserved_shape m hr
    have hm : m = ⟨⟨m.tlv.ttype, shape t v⟩⟩ := by
      cases m with | mk tl => cases tl with | mk a b => simp at e; simp [e]
    rw [hm, toReserved_shape] at h
    split at h
    · cases h; exact ⟨t, v, e, rfl⟩
    · cases h


/-! ## consecutive LVs -/

/-- encoding of one LV -/
def lvOf (v : Bytes) : Bytes := u8 v.length :: v
@[simp] theorem lvOf_length (v : Bytes) : (lvOf v).length = v.length + 1 := by simp [lvOf]
theorem lv_unpack (a rest : Bytes) (h : a.length ≤ 255) : CfdpLv.unpack (lvOf a ++ rest) = .ok ⟨a⟩ := by
  simpa [lvOf] using CfdpLv.unpack_pack_append a rest h
theorem lv_drop (a rest : Bytes) : (lvOf a ++ rest).drop (a.length + 1) = rest := by
  rw [show a.length + 1 = (lvOf a).length by simp]
  exact List.drop_left
theorem lv_pack (l : CfdpLv) :
    l.pack = if l.value.length ≤ 255 then .ok (lvOf l.value) else .error .value := by
  by_cases h : l.value.length ≤ 255
  · rw [if_pos h]; exact CfdpLv.pack_eq l h
  · rw [if_neg h]; exact CfdpLv.pack_err l (by omega)

/-- concatenated encodings of a list of LV values -/
def lvsOf (vs : List Bytes) : Bytes := vs.flatMap lvOf

/-- **index arithmetic over consecutive LVs** (list induction): in the concatenation of any number of
    LV encodings followed by anything, the `k`-th LV is found by skipping the packet lengths
    (`value length + 1`) of the `k` LVs before it, and decodes to the `k`-th value -/
theorem unpack_lvs_at : ∀ (vs : List Bytes) (rest : Bytes) (k : Nat) (hk : k < vs.length),
    (∀ v ∈ vs, v.length ≤ 255) →
    CfdpLv.unpack ((lvsOf vs ++ rest).drop (((vs.take k).map (fun v => v.length + 1)).sum)) = .ok ⟨vs[k]⟩
  | [], _, k, hk, _ => by simp at hk
  | a :: vs, rest, 0, _, h => by
    simp only [List.take_zero, List.map_nil, List.sum_nil, List.drop_zero, lvsOf, List.flatMap_cons,
      List.append_assoc, List.getElem_cons_zero]
    exact lv_unpack a _ (h a (by simp))
  | a :: vs, rest, k + 1, hk, h => by
    have hk' : k < vs.length := by simpa using hk
    have ih := unpack_lvs_at vs rest k hk' (fun v hv => h v (by simp [hv]))
    simp only [List.take_succ_cons, List.map_cons, List.sum_cons, lvsOf, List.flatMap_cons,
      List.append_assoc, List.getElem_cons_succ]
    rw [← List.drop_drop, lv_drop]
    exact ih

/-! ## builders in closed form -/

/-- `a << k | b` on `b < 2^k` is `a * 2^k + b` -/
theorem shl_or (a b k : Nat) (hb : b < 2 ^ k) : (a <<< k) ||| b = a * 2 ^ k + b := by
  rw [← Nat.shiftLeft_add_eq_or_of_lt hb a, Nat.shiftLeft_eq]

theorem shl_or3 (cc dc fs : Nat) (hdc : dc < 4) (hfs : fs < 4) :
    ((cc <<< 4) ||| (dc <<< 2)) ||| fs = cc * 16 + dc * 4 + fs := by
  have e1 : dc <<< 2 = dc * 4 := by rw [Nat.shiftLeft_eq]
  rw [e1, shl_or cc (dc * 4) 4 (by omega)]
  have e2 : cc * 2 ^ 4 + dc * 4 = (cc * 4 + dc) <<< 2 := by rw [Nat.shiftLeft_eq]; omega
  rw [e2, shl_or _ fs 2 (by omega)]; omega

/-- value field of a proxy put request: three LVs -/
def putReqValue (p : ProxyPutRequestParams) : Bytes :=
  lvOf p.destEntityId.bytes ++ (lvOf p.sourceFileName.value ++ lvOf p.destFileName.value)

theorem putReqValue_length (p : ProxyPutRequestParams) :
    (putReqValue p).length =
      3 + p.destEntityId.bytes.length + p.sourceFileName.value.length + p.destFileName.value.length := by
  simp [putReqValue]; omega

/-- `ProxyPutRequest(params)`, completely: built iff every LV and the whole value fit -/
theorem ProxyPutRequest.new_eq (p : ProxyPutRequestParams) :
    ProxyPutRequest.new p =
      if p.destEntityId.bytes.length ≤ 255 ∧ p.sourceFileName.value.length ≤ 255 ∧
          p.destFileName.value.length ≤ 255 ∧ (putReqValue p).length ≤ 250
      then .ok (rsv tMsgToUser (u8 pPutRequest) (putReqValue p)) else .error .value := by
  unfold ProxyPutRequest.new
  simp only [Field.asBytes, CfdpLv.new, lv_pack, ReservedCfdpMessage.new_nat, bind, Except.bind, putReqValue_length]
  have ht : pPutRequest < 256 := by decide
  by_cases h1 : p.destEntityId.bytes.length ≤ 255
  · have h1' : ¬ p.destEntityId.bytes.length > 255 := by omega
    by_cases h2 : p.sourceFileName.value.length ≤ 255
    · by_cases h3 : p.destFileName.value.length ≤ 255
      · simp only [h1, h1', h2, h3, ↓reduceIte, true_and, ht, List.length_append, lvOf_length, putReqValue]
        have e : p.destEntityId.bytes.length + 1 + (p.sourceFileName.value.length + 1) +
            (p.destFileName.value.length + 1) ≤ 250 ↔
            3 + p.destEntityId.bytes.length + p.sourceFileName.value.length + p.destFileName.value.length ≤ 250 := by
          omega
        simp only [e, List.append_assoc]
      · simp [h1, h1', h2, h3]
    · simp [h1, h1', h2]
  · have h1' : p.destEntityId.bytes.length > 255 := by omega
    simp [h1, h1']

theorem ProxyCancelRequest.new_eq : ProxyCancelRequest.new = .ok (rsv tMsgToUser (u8 pPutCancel) []) := by
  unfold ProxyCancelRequest.new
  rw [ReservedCfdpMessage.new_nat]; rfl

theorem ProxyClosureRequest.new_eq (c : Nat) :
    ProxyClosureRequest.new c =
      if c < 256 then .ok (rsv tMsgToUser (u8 pClosureRequest) [u8 c]) else .error .value := by
  unfold ProxyClosureRequest.new byteOfN
  by_cases h : c < 256
  · simp only [h, ↓reduceIte, bind, Except.bind, ReservedCfdpMessage.new_nat]; rfl
  · simp only [h, ↓reduceIte, bind, Except.bind]

theorem ProxyTransmissionMode.new_eq (c : Nat) :
    ProxyTransmissionMode.new c =
      if c < 256 then .ok (rsv tMsgToUser (u8 pTransmissionMode) [u8 c]) else .error .value := by
  unfold ProxyTransmissionMode.new byteOfN
  by_cases h : c < 256
  · simp only [h, ↓reduceIte, bind, Except.bind, ReservedCfdpMessage.new_nat]; rfl
  · simp only [h, ↓reduceIte, bind, Except.bind]

/-- value field of an originating transaction ID message -/
def origIdValue (tid : TransactionId) : Bytes :=
  u8 ((tid.sourceId.width - 1) * 16 + (tid.seqNum.width - 1)) :: (tid.sourceId.bytes ++ tid.seqNum.bytes)

theorem W_mem (w : Nat) : w ∈ [1, 2, 4, 8] ↔ W w := by
  simp [W]

theorem OriginatingTransactionId.new_eq (tid : TransactionId) :
    OriginatingTransactionId.new tid =
      if W tid.sourceId.width ∧ W tid.seqNum.width ∧ (origIdValue tid).length ≤ 250
      then .ok (rsv tMsgToUser (u8 origIdType) (origIdValue tid)) else .error .value := by
  unfold OriginatingTransactionId.new
  simp only [W_mem, Field.asBytes, bind, Except.bind, throw, throwThe, MonadExceptOf.throw]
  by_cases h : W tid.sourceId.width ∧ W tid.seqNum.width
  · obtain ⟨h1, h2⟩ := h
    have hn : ¬ (¬ W tid.sourceId.width ∨ ¬ W tid.seqNum.width) := by simp [h1, h2]
    have hq : tid.seqNum.width - 1 < 2 ^ 4 := by unfold W at h2; omega
    have hb : (tid.sourceId.width - 1) * 16 + (tid.seqNum.width - 1) < 256 := by unfold W at h1 h2; omega
    simp only [hn, ↓reduceIte, shl_or _ _ 4 hq, byteOfN, hb, ReservedCfdpMessage.new_nat, h1, h2, true_and,
      pure, Except.pure]
    have ht : origIdType < 256 := by decide
    simp only [ht, true_and, origIdValue, Nat.reducePow, not_true_eq_false, or_self, ↓reduceIte]
    rfl
  · have hn : ¬ W tid.sourceId.width ∨ ¬ W tid.seqNum.width := by
      by_cases a : W tid.sourceId.width
      · exact Or.inr (fun b => h ⟨a, b⟩)
      · exact Or.inl a
    have : ¬ (W tid.sourceId.width ∧ W tid.seqNum.width ∧ (origIdValue tid).length ≤ 250) :=
      fun x => h ⟨x.1, x.2.1⟩
    simp only [hn, this, ↓reduceIte]

/-- value field of a directory listing request: two LVs -/
def dirValue (p : DirectoryParams) : Bytes := lvOf p.dirPath.value ++ lvOf p.dirFileName.value

theorem dirValue_length (p : DirectoryParams) :
    (dirValue p).length = 2 + p.dirPath.value.length + p.dirFileName.value.length := by
  simp [dirValue]; omega

theorem DirectoryListingRequest.new_eq (p : DirectoryParams) :
    DirectoryListingRequest.new p =
      if p.dirPath.value.length ≤ 255 ∧ p.dirFileName.value.length ≤ 255 ∧ (dirValue p).length ≤ 250
      then .ok (rsv tMsgToUser (u8 dListingRequest) (dirValue p)) else .error .value := by
  unfold DirectoryListingRequest.new
  simp only [lv_pack, ReservedCfdpMessage.new_nat, bind, Except.bind]
  have ht : dListingRequest < 256 := by decide
  by_cases h1 : p.dirPath.value.length ≤ 255
  · by_cases h2 : p.dirFileName.value.length ≤ 255
    · simp only [h1, h2, ↓reduceIte, true_and, ht, dirValue]
    · simp [h1, h2]
  · simp [h1]

/-- value field of a directory listing response: flag octet, two LVs -/
def dirRespValue (s : Bool) (p : DirectoryParams) : Bytes := u8 (if s then 128 else 0) :: dirValue p

theorem DirectoryListingResponse.new_eq (s : Bool) (p : DirectoryParams) :
    DirectoryListingResponse.new s p =
      if p.dirPath.value.length ≤ 255 ∧ p.dirFileName.value.length ≤ 255 ∧ (dirRespValue s p).length ≤ 250
      then .ok (rsv tMsgToUser (u8 dListingResponse) (dirRespValue s p)) else .error .value := by
  unfold DirectoryListingResponse.new
  have hf : byteOfN ((if s then 1 else 0) <<< 7) = .ok (u8 (if s then 128 else 0)) := by
    cases s <;> rfl
  simp only [hf, lv_pack, ReservedCfdpMessage.new_nat, bind, Except.bind]
  have ht : dListingResponse < 256 := by decide
  by_cases h1 : p.dirPath.value.length ≤ 255
  · by_cases h2 : p.dirFileName.value.length ≤ 255
    · simp only [h1, h2, ↓reduceIte, true_and, ht, dirRespValue, dirValue]
    · simp [h1, h2]
  · simp [h1]

theorem DirectoryListingParameters.new_eq (o : DirListingOptions) (ha : o.all < 2) :
    DirectoryListingParameters.new o =
      if o.recursive * 2 + o.all < 256
      then .ok (rsv tMsgToUser (u8 dCustomListingParameters) [u8 (o.recursive * 2 + o.all)])
      else .error .value := by
  unfold DirectoryListingParameters.new byteOfN
  rw [shl_or _ _ 1 (by omega)]
  simp only [Nat.pow_one]
  by_cases h : o.recursive * 2 + o.all < 256
  · simp only [h, ↓reduceIte, bind, Except.bind, ReservedCfdpMessage.new_nat]; rfl
  · simp only [h, ↓reduceIte, bind, Except.bind]

theorem ProxyPutResponse.new_neg (p : ProxyPutResponseParams) (h : p.conditionCode < 0) :
    ProxyPutResponse.new p = .error .value := by
  simp [ProxyPutResponse.new, h, throw, throwThe, MonadExceptOf.throw, bind, Except.bind]

theorem ProxyPutResponse.new_nat (cc dc fs : Nat) (hdc : dc < 4) (hfs : fs < 4) :
    ProxyPutResponse.new ⟨(cc : Int), dc, fs⟩ =
      if cc * 16 + dc * 4 + fs < 256
      then .ok (rsv tMsgToUser (u8 pPutResponse) [u8 (cc * 16 + dc * 4 + fs)]) else .error .value := by
  unfold ProxyPutResponse.new byteOfN
  have h0 : ¬ ((cc : Int) < 0) := by omega
  simp only [h0, ↓reduceIte, Int.toNat_natCast, shl_or3 cc dc fs hdc hfs, bind, Except.bind]
  by_cases h : cc * 16 + dc * 4 + fs < 256
  · simp only [h, ↓reduceIte, ReservedCfdpMessage.new_nat]; rfl
  · simp only [h, ↓reduceIte]


/-! ## decoding what the builders produce -/

/-- `from_bytes` of the octets of a coherent field of width 1, 2, 4 or 8 is that field -/
theorem fromBytes_field (f : Field) (hI : Inv f) (hW : W f.width) : fromBytes f.bytes = .ok f := by
  obtain ⟨_, hv, hb⟩ := hI
  have hl : f.bytes.length = f.width := by rw [hb]; simp
  rw [fromBytes_eq, hl, if_pos hW]
  have : beNat f.bytes = f.value := by rw [hb]; exact beNat_beBytes _ _ hv
  rw [this]

theorem inv_bytes_length {f : Field} (hI : Inv f) : f.bytes.length = f.width := by
  rw [hI.2.2]; simp

theorem lv_drop2 (a b rest : Bytes) :
    (lvOf a ++ (lvOf b ++ rest)).drop (a.length + 1 + (b.length + 1)) = rest := by
  rw [← List.drop_drop, lv_drop, lv_drop]

theorem getPutReq_built (ty : Nat) (p : ProxyPutRequestParams) (hI : Inv p.destEntityId)
    (hW : W p.destEntityId.width) (h2 : p.sourceFileName.value.length ≤ 255)
    (h3 : p.destFileName.value.length ≤ 255) :
    (rsv ty (u8 pPutRequest) (putReqValue p)).getProxyPutRequestParams = .ok (some p) := by
  have h1 : p.destEntityId.bytes.length ≤ 255 := by
    rw [inv_bytes_length hI]; unfold W at hW; omega
  have e0 : ¬ ((u8 pPutRequest).toNat ≠ pPutRequest) := by decide
  rw [getPutReq_rsv, if_neg e0]
  simp only [putReqValue, lv_unpack _ _ h1, bind, Except.bind, CfdpLv.packetLen,
    lv_drop, lv_unpack _ _ h2]
  have g1 : ¬ (p.destEntityId.bytes.length + 1 ≥
      (lvOf p.destEntityId.bytes ++ (lvOf p.sourceFileName.value ++ lvOf p.destFileName.value)).length) := by
    simp only [List.length_append, lvOf_length]; omega
  have g2 : ¬ (p.destEntityId.bytes.length + 1 + (p.sourceFileName.value.length + 1) ≥
      (lvOf p.destEntityId.bytes ++ (lvOf p.sourceFileName.value ++ lvOf p.destFileName.value)).length) := by
    simp only [List.length_append, lvOf_length]; omega
  simp only [g1, g2, ↓reduceIte, lv_drop2]
  have e3 : CfdpLv.unpack (lvOf p.destFileName.value) = .ok ⟨p.destFileName.value⟩ := by
    simpa using lv_unpack p.destFileName.value [] h3
  simp only [e3, fromBytes_field _ hI hW]


theorem orig_nibbles (s q : Nat) (hs : W s) (hq : W q) :
    ((s - 1) * 16 + (q - 1)) % 256 / 16 % 8 + 1 = s ∧ ((s - 1) * 16 + (q - 1)) % 256 % 8 + 1 = q := by
  unfold W at hs hq; omega

theorem getOrig_built (ty : Nat) (tid : TransactionId) (h1 : Inv tid.sourceId) (h2 : Inv tid.seqNum)
    (w1 : W tid.sourceId.width) (w2 : W tid.seqNum.width) :
    (rsv ty (u8 origIdType) (origIdValue tid)).getOriginatingTransactionId = .ok (some tid) := by
  have e0 : ¬ ((u8 origIdType).toNat ≠ origIdType) := by decide
  rw [getOrig_rsv, if_neg e0]
  obtain ⟨n1, n2⟩ := orig_nibbles _ _ w1 w2
  have l1 := inv_bytes_length h1
  have l2 := inv_bytes_length h2
  simp only [origIdValue, u8_toNat, n1, n2, List.length_append, l1, l2]
  have g : ¬ (tid.sourceId.width + tid.seqNum.width + 6 < tid.sourceId.width + tid.seqNum.width + 1) := by omega
  have t1 : (tid.sourceId.bytes ++ tid.seqNum.bytes).take tid.sourceId.width = tid.sourceId.bytes :=
    List.take_left' l1
  have t2 : ((tid.sourceId.bytes ++ tid.seqNum.bytes).drop tid.sourceId.width).take tid.seqNum.width
      = tid.seqNum.bytes := by
    rw [List.drop_left' l1, ← l2, List.take_length]
  simp only [g, ↓reduceIte, t1, t2, fromBytes_field _ h1 w1, fromBytes_field _ h2 w2, bind, Except.bind]

theorem getPutResp_built (ty : Nat) (cc dc fs : Nat) (hcc : cc ∈ conditionCodes) (hdc : dc < 2) (hfs : fs < 4) :
    (rsv ty (u8 pPutResponse) [u8 (cc * 16 + dc * 4 + fs)]).getProxyPutResponseParams =
      .ok (some ⟨(cc : Int), dc, fs⟩) := by
  have e0 : ¬ ((u8 pPutResponse).toNat ≠ pPutResponse) := by decide
  rw [getPutResp_rsv, if_neg e0]
  have hc : cc < 16 := by
    simp only [conditionCodes, List.mem_cons, List.not_mem_nil, or_false] at hcc; omega
  have a1 : (cc * 16 + dc * 4 + fs) % 256 / 16 = cc := by omega
  have a2 : (cc * 16 + dc * 4 + fs) % 256 / 4 % 2 = dc := by omega
  have a3 : (cc * 16 + dc * 4 + fs) % 256 % 4 = fs := by omega
  simp only [u8_toNat, a1, a2, a3, hcc, ↓reduceIte]

theorem getClosure_built (ty : Nat) (c : Nat) (hc : c < 2) :
    (rsv ty (u8 pClosureRequest) [u8 c]).getProxyClosureRequested = .ok (some c) := by
  have e0 : ¬ ((u8 pClosureRequest).toNat ≠ pClosureRequest) := by decide
  rw [getClosure_rsv, if_neg e0]
  have a : c % 256 % 2 = c := by omega
  simp only [u8_toNat, a]

theorem getTxMode_built (ty : Nat) (c : Nat) (hc : c < 2) :
    (rsv ty (u8 pTransmissionMode) [u8 c]).getProxyTransmissionMode = .ok (some c) := by
  have e0 : ¬ ((u8 pTransmissionMode).toNat ≠ pTransmissionMode) := by decide
  rw [getTxMode_rsv, if_neg e0]
  have a : c % 256 % 2 = c := by omega
  simp only [u8_toNat, a]

theorem dir_lvs (p : DirectoryParams) (h1 : p.dirPath.value.length ≤ 255) (h2 : p.dirFileName.value.length ≤ 255) :
    (CfdpLv.unpack (dirValue p) >>= fun a => CfdpLv.unpack ((dirValue p).drop a.packetLen) >>= fun b =>
      (Except.ok (a, b) : Py (CfdpLv × CfdpLv))) = .ok (p.dirPath, p.dirFileName) := by
  have e3 : CfdpLv.unpack (lvOf p.dirFileName.value) = .ok ⟨p.dirFileName.value⟩ := by
    simpa using lv_unpack p.dirFileName.value [] h2
  simp only [dirValue, lv_unpack _ _ h1, bind, Except.bind, CfdpLv.packetLen, lv_drop, e3]

theorem getDirReq_built (ty : Nat) (p : DirectoryParams) (h1 : p.dirPath.value.length ≤ 255)
    (h2 : p.dirFileName.value.length ≤ 255) :
    (rsv ty (u8 dListingRequest) (dirValue p)).getDirListingRequestParams = .ok (some p) := by
  have e0 : ¬ ((u8 dListingRequest).toNat ≠ dListingRequest) := by decide
  rw [getDirReq_rsv, if_neg e0]
  have e3 : CfdpLv.unpack (lvOf p.dirFileName.value) = .ok ⟨p.dirFileName.value⟩ := by
    simpa using lv_unpack p.dirFileName.value [] h2
  simp only [dirValue, lv_unpack _ _ h1, bind, Except.bind, CfdpLv.packetLen, lv_drop, e3]

theorem getDirResp_built (ty : Nat) (s : Bool) (p : DirectoryParams) (h1 : p.dirPath.value.length ≤ 255)
    (h2 : p.dirFileName.value.length ≤ 255) :
    (rsv ty (u8 dListingResponse) (dirRespValue s p)).getDirListingResponseParams = .ok (some (s, p)) := by
  have e0 : ¬ ((u8 dListingResponse).toNat ≠ dListingResponse) := by decide
  rw [getDirResp_rsv, if_neg e0]
  have e3 : CfdpLv.unpack (lvOf p.dirFileName.value) = .ok ⟨p.dirFileName.value⟩ := by
    simpa using lv_unpack p.dirFileName.value [] h2
  have ef : ((u8 (if s then 128 else 0)).toNat / 128 == 1) = s := by cases s <;> rfl
  simp only [dirRespValue, dirValue, lv_unpack _ _ h1, bind, Except.bind, CfdpLv.packetLen,
    lv_drop, e3, ef]

theorem getDirOpts_built (ty : Nat) (o : DirListingOptions) (hr : o.recursive < 2) (ha : o.all < 2) :
    (rsv ty (u8 dCustomListingParameters) [u8 (o.recursive * 2 + o.all)]).getDirListingOptions = .ok (some o) := by
  have e0 : ¬ ((u8 dCustomListingParameters).toNat ≠ dCustomListingParameters) := by decide
  rw [getDirOpts_rsv, if_neg e0]
  have a1 : (o.recursive * 2 + o.all) % 256 / 2 % 2 = o.recursive := by omega
  have a2 : (o.recursive * 2 + o.all) % 256 % 2 = o.all := by omega
  simp only [u8_toNat, a1, a2]


/-! ## classification of a well-shaped reserved message -/

theorem isProxy_rsv (ty : Nat) (t : UInt8) (v : Bytes) :
    (rsv ty t v).isCfdpProxyOperation = .ok (decide (t.toNat ∈ proxyTypes)) := by
  simp only [ReservedCfdpMessage.isCfdpProxyOperation, msgType_rsv, bind, Except.bind, pure, Except.pure]
theorem isDir_rsv (ty : Nat) (t : UInt8) (v : Bytes) :
    (rsv ty t v).isDirectoryOperation = .ok (decide (t.toNat ∈ dirOpTypes)) := by
  simp only [ReservedCfdpMessage.isDirectoryOperation, msgType_rsv, bind, Except.bind, pure, Except.pure]
theorem isOrig_rsv (ty : Nat) (t : UInt8) (v : Bytes) :
    (rsv ty t v).isOriginatingTransactionId = .ok (decide (t.toNat = origIdType)) := by
  simp only [ReservedCfdpMessage.isOriginatingTransactionId, msgType_rsv, bind, Except.bind, pure, Except.pure]
theorem proxyType_rsv (ty : Nat) (t : UInt8) (v : Bytes) :
    (rsv ty t v).getCfdpProxyMessageType = .ok (if t.toNat ∈ proxyTypes then some t.toNat else none) := by
  simp only [ReservedCfdpMessage.getCfdpProxyMessageType, msgType_rsv, bind, Except.bind, pure, Except.pure]
  split <;> rfl
theorem dirType_rsv (ty : Nat) (t : UInt8) (v : Bytes) :
    (rsv ty t v).getDirectoryOperationType = .ok (if t.toNat ∈ dirOpTypes then some t.toNat else none) := by
  simp only [ReservedCfdpMessage.getDirectoryOperationType, msgType_rsv, bind, Except.bind, pure, Except.pure]
  split <;> rfl

/-! ## the getters fail only with `ValueError` on every well-shaped message -/

theorem getOrig_documented (ty : Nat) (t : UInt8) (v : Bytes) :
    Documented (rsv ty t v).getOriginatingTransactionId := by
  rw [getOrig_rsv]
  refine Documented.ite (Documented.ok _) ?_
  cases v with
  | nil => exact Documented.err rfl
  | cons b w =>
    refine Documented.ite (Documented.err rfl) ?_
    refine Documented.bind (fromBytes_documented _) (fun s _ => ?_)
    exact Documented.bind (fromBytes_documented _) (fun q _ => Documented.ok _)

theorem getPutReq_documented (ty : Nat) (t : UInt8) (v : Bytes) :
    Documented (rsv ty t v).getProxyPutRequestParams := by
  rw [getPutReq_rsv]
  refine Documented.ite (Documented.ok _) ?_
  refine Documented.bind (CfdpLv.unpack_documented _) (fun a _ => ?_)
  refine Documented.ite (Documented.ok _) ?_
  refine Documented.bind (CfdpLv.unpack_documented _) (fun b _ => ?_)
  refine Documented.ite (Documented.ok _) ?_
  refine Documented.bind (CfdpLv.unpack_documented _) (fun c _ => ?_)
  exact Documented.bind (fromBytes_documented _) (fun f _ => Documented.ok _)

theorem getPutResp_documented (ty : Nat) (t : UInt8) (v : Bytes) :
    Documented (rsv ty t v).getProxyPutResponseParams := by
  rw [getPutResp_rsv]
  refine Documented.ite (Documented.ok _) ?_
  cases v with
  | nil => exact Documented.err rfl
  | cons b w => exact Documented.ite (Documented.ok _) (Documented.err rfl)

theorem getClosure_documented (ty : Nat) (t : UInt8) (v : Bytes) :
    Documented (rsv ty t v).getProxyClosureRequested := by
  rw [getClosure_rsv]
  refine Documented.ite (Documented.ok _) ?_
  cases v with
  | nil => exact Documented.err rfl
  | cons b w => exact Documented.ok _

theorem getTxMode_documented (ty : Nat) (t : UInt8) (v : Bytes) :
    Documented (rsv ty t v).getProxyTransmissionMode := by
  rw [getTxMode_rsv]
  refine Documented.ite (Documented.ok _) ?_
  cases v with
  | nil => exact Documented.err rfl
  | cons b w => exact Documented.ok _

theorem getDirReq_documented (ty : Nat) (t : UInt8) (v : Bytes) :
    Documented (rsv ty t v).getDirListingRequestParams := by
  rw [getDirReq_rsv]
  refine Documented.ite (Documented.ok _) ?_
  refine Documented.bind (CfdpLv.unpack_documented _) (fun a _ => ?_)
  exact Documented.bind (CfdpLv.unpack_documented _) (fun b _ => Documented.ok _)

theorem getDirResp_documented (ty : Nat) (t : UInt8) (v : Bytes) :
    Documented (rsv ty t v).getDirListingResponseParams := by
  rw [getDirResp_rsv]
  refine Documented.ite (Documented.ok _) ?_
  cases v with
  | nil => exact Documented.err rfl
  | cons f w =>
    refine Documented.bind (CfdpLv.unpack_documented _) (fun a _ => ?_)
    exact Documented.bind (CfdpLv.unpack_documented _) (fun b _ => Documented.ok _)

theorem getDirOpts_documented (ty : Nat) (t : UInt8) (v : Bytes) :
    Documented (rsv ty t v).getDirListingOptions := by
  rw [getDirOpts_rsv]
  refine Documented.ite (Documented.ok _) ?_
  cases v with
  | nil => exact Documented.err rfl
  | cons b w => exact Documented.ok _

/-! ## the whole path: pack → `MessageToUserTlv.unpack` → recognise → convert -/

/-- the packed TLV of a well-shaped reserved message -/
def packedRsv (t : UInt8) (v : Bytes) : Bytes := u8 tMsgToUser :: u8 (5 + v.length) :: shape t v

theorem pack_rsv (t : UInt8) (v : Bytes) (hv : v.length ≤ 250) :
    (rsv tMsgToUser t v).pack = .ok (packedRsv t v) := by
  have := CfdpTlv.pack_eq ⟨tMsgToUser, shape t v⟩ (by simp [tMsgToUser]) (by simp only [shape_length]; omega)
  simpa [ReservedCfdpMessage.pack, rsv, packedRsv, shape_length] using this

theorem packetLen_rsv (ty : Nat) (t : UInt8) (v : Bytes) : (rsv ty t v).packetLen = 7 + v.length := by
  simp [ReservedCfdpMessage.packetLen, CfdpTlv.packetLen, rsv, shape_length]; omega

theorem packedRsv_length (t : UInt8) (v : Bytes) : (packedRsv t v).length = 7 + v.length := by
  simp [packedRsv, shape_length]; omega

/-- decoding the packed TLV, whatever follows it, gives the message-to-user TLV with the same value -/
theorem unpack_packedRsv (t : UInt8) (v rest : Bytes) (hv : v.length ≤ 250) :
    MessageToUserTlv.unpack (packedRsv t v ++ rest) = .ok ⟨⟨tMsgToUser, shape t v⟩⟩ := by
  have hl : (shape t v).length ≤ 255 := by rw [shape_length]; omega
  have := CfdpTlv.unpack_pack_append tMsgToUser (shape t v) rest (by decide) hl
  rw [shape_length] at this
  rw [MessageToUserTlv.unpack_bind]
  simp only [packedRsv, List.cons_append, this, bind, Except.bind, MessageToUserTlv.fromTlv_eq, ↓reduceIte]

/-- `to_generic_msg_to_user_tlv` gives back the message-to-user TLV -/
theorem toGeneric_rsv (t : UInt8) (v : Bytes) :
    (rsv tMsgToUser t v).toGenericMsgToUserTlv = .ok ⟨⟨tMsgToUser, shape t v⟩⟩ := by
  simp [ReservedCfdpMessage.toGenericMsgToUserTlv, MessageToUserTlv.fromTlv_eq, rsv]

/-- a decoded message-to-user TLV always converts (the value has at most 255 octets) -/
theorem toReserved_of_unpack (d : Bytes) (m : MessageToUserTlv) (h : MessageToUserTlv.unpack d = .ok m) :
    ∃ x, toReservedMsgTlv m = .ok x := by
  rw [MessageToUserTlv.unpack_bind] at h
  cases hu : CfdpTlv.unpack d with
  | error e => rw [hu] at h; cases h
  | ok tl =>
    rw [hu] at h
    simp only [bind, Except.bind, MessageToUserTlv.fromTlv_eq] at h
    split at h
    · cases h
      have hl := (CfdpTlv.unpack_spec d tl hu).2.1
      cases hr : (MessageToUserTlv.mk tl).isReservedCfdpMessage with
      | false => exact ⟨none, toReserved_not _ hr⟩
      | true =>
        obtain ⟨t, v, e⟩ := reserved_shape _ hr
        have hm : MessageToUserTlv.mk tl = ⟨⟨tl.ttype, shape t v⟩⟩ := by
          cases tl with | mk a b => simp at e; simp [e]
        have hv : v.length ≤ 250 := by
          simp only at e; rw [e, shape_length] at hl; omega
        exact ⟨some (rsv tMsgToUser t v), by rw [hm, toReserved_shape, if_pos hv]⟩
    · cases h


end SpVerif.MsgToUser
