import SpVerif.Model.KeepAlive
import SpVerif.Proofs.FileDirective
/-!
# Lemmas about the Keep Alive PDU model (reused by C04 / C09 / C10 / C11 / C12)

`new_eq`, `setFileFlag_eq`, `unpack_eq` (prelude, then `parse`), `parse_ok` / `parse_short`,
`unpack_inv`, `unpack_documented`, `unpack_take`.
-/
namespace SpVerif.KeepAlive
open SpVerif SpVerif.CfdpHeader SpVerif.FileDirective

theorem paramLenFor_le (f c : Nat) : paramLenFor f c ≤ 10 := by
  unfold paramLenFor; split <;> split <;> omega

/-- **complete case analysis of the constructor** -/
theorem new_eq (c : PduConfig) (progress : Int) :
    KeepAlive.new c progress =
      if c.source.width ≠ c.dest.width then .error .value
      else .ok ⟨⟨⟨0, 0, paramLenFor c.fileFlag c.crcFlag + 1, { c with direction := 1 }⟩, 12⟩, progress⟩ := by
  unfold KeepAlive.new
  simp only [DIR_KEEP_ALIVE]
  rw [FileDirective.new_eq]
  have := paramLenFor_le c.fileFlag c.crcFlag
  by_cases h2 : c.source.width = c.dest.width
  · have g : ¬ (65535 < paramLenFor c.fileFlag c.crcFlag + 1 ∨ c.source.width ≠ c.dest.width) := by omega
    have g' : ¬ c.source.width ≠ c.dest.width := by omega
    rw [if_neg g, if_neg g']
    rfl
  · have g : (65535 < paramLenFor c.fileFlag c.crcFlag + 1 ∨ c.source.width ≠ c.dest.width) := Or.inr h2
    rw [if_pos g, if_pos h2]
    rfl

/-- the `file_flag` setter never fails: new flag, data-field length recomputed -/
theorem setFileFlag_eq (k : KeepAlive) (f : Nat) :
    k.setFileFlag f = .ok { k with fd := { k.fd with header := { k.fd.header with
      dataFieldLen := paramLenFor f k.fd.header.conf.crcFlag + 1,
      conf := { k.fd.header.conf with fileFlag := f } } } } := by
  unfold KeepAlive.setFileFlag
  rw [setParamLen_eq]
  have := paramLenFor_le f k.fd.header.conf.crcFlag
  have g : ¬ 65535 < paramLenFor f k.fd.header.conf.crcFlag + 1 := by omega
  rw [if_neg g]
  rfl

theorem width_eq (fd : FileDirective) :
    (if ¬ fd.header.largeFileFlagSet then 4 else 8) = fssWidth fd.header.conf.fileFlag := by
  unfold PduHeader.largeFileFlagSet fssWidth
  by_cases h : fd.header.conf.fileFlag = 1 <;> simp [h]

/-- the parameter parser: one FSS field behind the directive header -/
def parse (r : FileDirective × Bytes) : Py KeepAlive := do
  let i := r.1.headerLen
  let w := if ¬ r.1.header.largeFileFlagSet then 4 else 8
  if r.2.length < i + w then throw .value
  let v ← unpackBE w (slice r.2 i (i + w))
  pure ⟨r.1, (v : Int)⟩

theorem unpack_eq (d : Bytes) : KeepAlive.unpack d = prelude d >>= parse := by
  unfold KeepAlive.unpack prelude parse
  cases FileDirective.unpack d with
  | error e => rfl
  | ok fd =>
    cases hv : fd.verify d with
    | error e => simp [hv, bind, Except.bind]
    | ok n => simp [hv, bind, Except.bind, pure, Except.pure]

theorem parse_short (fd : FileDirective) (p : Bytes)
    (h : p.length < fd.headerLen + fssWidth fd.header.conf.fileFlag) :
    parse (fd, p) = .error .value := by
  unfold parse
  simp only [width_eq, h, ↓reduceIte, throw, throwThe, MonadExceptOf.throw, bind, Except.bind]

theorem parse_ok (fd : FileDirective) (p : Bytes)
    (h : fd.headerLen + fssWidth fd.header.conf.fileFlag ≤ p.length) :
    parse (fd, p) = .ok ⟨fd, (beNat (slice p fd.headerLen
      (fd.headerLen + fssWidth fd.header.conf.fileFlag)) : Nat)⟩ := by
  unfold parse
  have g : ¬ p.length < fd.headerLen + fssWidth fd.header.conf.fileFlag := by omega
  have hl : (slice p fd.headerLen (fd.headerLen + fssWidth fd.header.conf.fileFlag)).length
      = fssWidth fd.header.conf.fileFlag := by simp; omega
  simp only [width_eq, g, ↓reduceIte, bind, Except.bind, unpackBE_ok hl, pure, Except.pure]

theorem parse_documented (r : FileDirective × Bytes) : Documented (parse r) := by
  obtain ⟨fd, p⟩ := r
  by_cases h : p.length < fd.headerLen + fssWidth fd.header.conf.fileFlag
  · rw [parse_short fd p h]; exact Documented.err rfl
  · rw [parse_ok fd p (by omega)]; exact Documented.ok _

theorem unpack_documented (d : Bytes) : Documented (KeepAlive.unpack d) := by
  rw [unpack_eq]; exact bind_prelude_documented parse parse_documented d

theorem fssWidth_pos (f : Nat) : 4 ≤ fssWidth f := by unfold fssWidth; split <;> omega

/-- **inversion** -/
theorem unpack_inv (d : Bytes) (a : KeepAlive) (h : KeepAlive.unpack d = .ok a) :
    prelude d = .ok (a.fd, d.take a.fd.paramsEnd) ∧
    a.fd.headerLen + fssWidth a.fd.header.conf.fileFlag ≤ a.fd.paramsEnd ∧
    parse (a.fd, d.take a.fd.paramsEnd) = .ok a ∧
    a.packetLen ≤ d.length ∧ (a.fd.header.conf.crcFlag = 1 → Crc.crc16 (d.take a.packetLen) = 0) := by
  rw [unpack_eq] at h
  obtain ⟨fd, p, hp, hf⟩ := bind_prelude_inv parse d a h
  obtain ⟨_, _, h3, h4, h5⟩ := (prelude_ok_iff d fd p).mp hp
  obtain ⟨_, _, hlen, _, _, _⟩ := prelude_facts d fd p hp
  by_cases hs : p.length < fd.headerLen + fssWidth fd.header.conf.fileFlag
  · rw [parse_short fd p hs] at hf; cases hf
  · have hfd : a.fd = fd := by
      rw [parse_ok fd p (by omega)] at hf; cases hf; rfl
    subst hfd
    subst h5
    exact ⟨hp, by omega, hf, h3, h4⟩

/-- **only the declared PDU matters** -/
theorem unpack_take (d : Bytes) (a : KeepAlive) (h : KeepAlive.unpack d = .ok a) (rest : Bytes) :
    KeepAlive.unpack (d.take a.packetLen ++ rest) = .ok a := by
  obtain ⟨hp, hg, hf, _, _⟩ := unpack_inv d a h
  obtain ⟨_, _, _, hpe, _, _⟩ := prelude_facts d _ _ hp
  have := fssWidth_pos a.fd.header.conf.fileFlag
  have h1 : 1 ≤ a.fd.header.dataFieldLen := by
    have : a.fd.packetLen = a.fd.header.dataFieldLen + a.fd.header.headerLen := rfl
    have : a.fd.headerLen = a.fd.header.headerLen + 1 := rfl
    omega
  rw [unpack_eq, show a.packetLen = a.fd.packetLen from rfl, prelude_take d a.fd _ hp h1 rest]
  exact hf

end SpVerif.KeepAlive
