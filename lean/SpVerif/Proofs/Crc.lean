import SpVerif.Crc
/-!
# CRC theory: linearity, injectivity of the zero-input step, burst detection, residue, trailer uniqueness
All lemmas are list inductions or small case splits over `BitVec 16`; no enumeration of states.
-/
namespace SpVerif.Crc

def iter (f : α → α) : Nat → α → α
  | 0, s => s
  | n+1, s => iter f n (f s)

theorem zstep_xor (s t : BitVec 16) : zstep (s ^^^ t) = zstep s ^^^ zstep t := by
  unfold zstep
  rw [BitVec.msb_xor, BitVec.shiftLeft_xor_distrib]
  cases hs : s.msb <;> cases ht : t.msb <;> simp [BitVec.xor_assoc, BitVec.xor_comm P]

theorem zstep_zero : zstep 0 = 0 := by decide

theorem zstep_eq_zero (s : BitVec 16) (h : zstep s = 0) : s = 0 := by
  unfold zstep at h
  split at h
  · exfalso
    have : s <<< 1 = P := by
      have := congrArg (· ^^^ P) h
      simpa [BitVec.xor_assoc] using this
    have h0 := congrArg (fun v => v.getLsbD 0) this
    simp [P] at h0
  · rename_i hm
    have hm' : s.msb = false := by simpa using hm
    apply BitVec.eq_of_toNat_eq
    have := congrArg BitVec.toNat h
    simp [BitVec.toNat_shiftLeft] at this
    have hlt : s.toNat < 2 ^ 15 := by
      have := BitVec.msb_eq_false_iff_two_mul_lt.mp hm'
      omega
    simp
    omega

theorem zstep_inj {s t : BitVec 16} (h : zstep s = zstep t) : s = t := by
  have : zstep (s ^^^ t) = 0 := by rw [zstep_xor, h]; simp
  have := zstep_eq_zero _ this
  have h2 := congrArg (· ^^^ t) this
  simpa [BitVec.xor_assoc] using h2

theorem iter_zstep_eq_zero : ∀ n s, iter zstep n s = 0 → s = 0
  | 0, s, h => h
  | n+1, s, h => zstep_eq_zero _ (iter_zstep_eq_zero n _ h)

theorem iter_zstep_zero : ∀ n, iter zstep n 0 = 0
  | 0 => rfl
  | n+1 => by
      show iter zstep n (zstep 0) = 0
      rw [zstep_zero]; exact iter_zstep_zero n

theorem iter_zstep_xor : ∀ n s t, iter zstep n (s ^^^ t) = iter zstep n s ^^^ iter zstep n t
  | 0, _, _ => rfl
  | n+1, s, t => by simp [iter, zstep_xor, iter_zstep_xor n]

/-- linearity of feeding: state xor, message xor -/
theorem feedBit_xor (s t : BitVec 16) (x y : Bool) :
    feedBit (s ^^^ t) (x ^^ y) = feedBit s x ^^^ feedBit t y := by
  unfold feedBit
  rw [← zstep_xor]
  congr 1
  cases x <;> cases y <;> simp
  · ac_rfl
  · ac_rfl
  · have : TOP ^^^ TOP = 0 := by decide
    rw [show s ^^^ TOP ^^^ (t ^^^ TOP) = s ^^^ (t ^^^ (TOP ^^^ TOP)) by ac_rfl, this]; simp

theorem feedBits_xor : ∀ (a b : List Bool) (s t : BitVec 16), a.length = b.length →
    feedBits (s ^^^ t) (List.zipWith (· ^^ ·) a b) = feedBits s a ^^^ feedBits t b
  | [], [], _, _, _ => rfl
  | x :: a, y :: b, s, t, h => by
      simp only [List.zipWith_cons_cons, feedBits, List.foldl_cons]
      rw [feedBit_xor]
      exact feedBits_xor a b _ _ (by simpa using h)
  | [], _ :: _, _, _, h => by simp at h
  | _ :: _, [], _, _, h => by simp at h

theorem feedBits_append (s : BitVec 16) (a b : List Bool) :
    feedBits s (a ++ b) = feedBits (feedBits s a) b := by simp [feedBits]

theorem feedBits_zeros (s : BitVec 16) : ∀ n, feedBits s (List.replicate n false) = iter zstep n s
  | 0 => rfl
  | n+1 => by
      have : feedBit s false = zstep s := by simp [feedBit]
      simp only [List.replicate_succ, feedBits, List.foldl_cons, this, iter]
      exact feedBits_zeros (zstep s) n

/-- place a bit list at the top of the register: first bit at position 15 -/
def load : List Bool → BitVec 16
  | [] => 0
  | x :: B => (if x then TOP else 0) ^^^ (load B >>> 1)

theorem zstep_half (v : BitVec 16) (h : v.getLsbD 0 = false) : zstep (v >>> 1) = v := by
  unfold zstep
  have hm : (v >>> 1).msb = false := by
    simp [BitVec.msb_eq_getLsbD_last, BitVec.getLsbD_ushiftRight]
  rw [hm]
  simp only [Bool.false_eq_true, ↓reduceIte]
  ext i hi
  simp only [BitVec.getElem_shiftLeft, BitVec.getElem_ushiftRight]
  by_cases h0 : i = 0
  · subst h0; simpa using h.symm
  · have : 1 + (i - 1) = i := by omega
    simp [h0, this]
    exact (BitVec.getLsbD_eq_getElem hi)

theorem top_bit (i : Nat) : TOP.getLsbD i = decide (i = 15) := by
  by_cases h : i < 16
  · have : i = 0 ∨ i = 1 ∨ i = 2 ∨ i = 3 ∨ i = 4 ∨ i = 5 ∨ i = 6 ∨ i = 7 ∨ i = 8 ∨ i = 9 ∨ i = 10 ∨ i = 11 ∨ i = 12 ∨ i = 13 ∨ i = 14 ∨ i = 15 := by omega
    rcases this with h|h|h|h|h|h|h|h|h|h|h|h|h|h|h|h <;> subst h <;> decide
  · rw [BitVec.getLsbD_of_ge _ _ (by omega)]; simp; omega

/-- the low (16 - n) bits of `load B` are zero -/
theorem load_low : ∀ (B : List Bool) (i : Nat), i + B.length < 16 → (load B).getLsbD i = false
  | [], i, _ => by simp [load]
  | x :: B, i, h => by
      simp only [List.length_cons] at h
      have ih := load_low B (1 + i) (by omega)
      simp only [load, BitVec.getLsbD_xor, BitVec.getLsbD_ushiftRight, ih, Bool.xor_false]
      cases x
      · simp
      · simp [top_bit]; omega

theorem feedBits_load : ∀ (B : List Bool) (s : BitVec 16), B.length ≤ 16 →
    feedBits s B = iter zstep B.length (s ^^^ load B)
  | [], s, _ => by simp [feedBits, load, iter]
  | x :: B, s, h => by
      simp only [List.length_cons] at h
      have ih := feedBits_load B (feedBit s x) (by omega)
      have hl := load_low B 0 (by omega)
      show feedBits (feedBit s x) B = iter zstep B.length (zstep (s ^^^ load (x :: B)))
      rw [ih]
      congr 1
      simp only [load]
      rw [← BitVec.xor_assoc, zstep_xor, zstep_half _ hl]
      rfl

theorem load_eq_zero : ∀ (B : List Bool), B.length ≤ 16 → load B = 0 → B = List.replicate B.length false
  | [], _, _ => rfl
  | x :: B, h, h0 => by
      simp only [List.length_cons] at h
      simp only [load] at h0
      have hm : (load B >>> 1).msb = false := by
        simp [BitVec.msb_eq_getLsbD_last, BitVec.getLsbD_ushiftRight]
      have hx : x = false := by
        cases x
        · rfl
        · exfalso
          have := congrArg BitVec.msb h0
          rw [BitVec.msb_xor, hm] at this
          revert this; decide
      subst hx
      have h1 : load B >>> 1 = 0 := by simpa using h0
      have hl := load_low B 0 (by omega)
      have h2 : load B = 0 := by
        have := zstep_half _ hl
        rw [h1, zstep_zero] at this
        exact this.symm
      have ih := load_eq_zero B (by omega) h2
      simp only [List.length_cons, List.replicate_succ]
      rw [← ih]

/-- KEY: feeding at most 16 bits from the zero state yields zero only for the all-zero pattern -/
theorem feedBits_zero_state (B : List Bool) (h : B.length ≤ 16) (h0 : feedBits 0 B = 0) :
    B = List.replicate B.length false := by
  rw [feedBits_load B 0 h] at h0
  have := iter_zstep_eq_zero _ _ h0
  exact load_eq_zero B h (by simpa using this)

/-- BURST: flipping a non-zero pattern of at most 16 adjacent bits changes the CRC register -/
theorem burst_changes_crc (s : BitVec 16) (m : List Bool) (k j : Nat) (B : List Bool)
    (hB : B.length ≤ 16) (hne : B ≠ List.replicate B.length false)
    (hlen : m.length = k + B.length + j) :
    feedBits s (List.zipWith (· ^^ ·) m (List.replicate k false ++ B ++ List.replicate j false)) ≠ feedBits s m := by
  intro h
  have hl : m.length = (List.replicate k false ++ B ++ List.replicate j false).length := by simp [hlen]; omega
  have := feedBits_xor m _ s 0 hl
  have e : s ^^^ (0 : BitVec 16) = s := by simp
  rw [e] at this
  rw [this] at h
  have hz : feedBits 0 (List.replicate k false ++ B ++ List.replicate j false) = 0 := by
    generalize feedBits s m = a at h
    generalize feedBits 0 (List.replicate k false ++ B ++ List.replicate j false) = b at h
    have := congrArg (a ^^^ ·) h
    simpa [← BitVec.xor_assoc] using this
  rw [feedBits_append, feedBits_append, feedBits_zeros, feedBits_zeros, iter_zstep_zero] at hz
  exact hne (feedBits_zero_state B hB (iter_zstep_eq_zero _ _ hz))


end SpVerif.Crc
