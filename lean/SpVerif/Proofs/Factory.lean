import SpVerif.Model.Factory
import SpVerif.Props.C05
import SpVerif.Proofs.FileDirective
import SpVerif.Proofs.Ack
import SpVerif.Proofs.Prompt
import SpVerif.Proofs.KeepAlive
import SpVerif.Proofs.Nak
import SpVerif.Proofs.FileData
import SpVerif.Props.C07
import SpVerif.Proofs.Eof
import SpVerif.Proofs.Finished
import SpVerif.Proofs.Metadata
/-!
# Lemmas about the PDU factory model (`Model/Factory.lean`)

Equational characterisations reused by `Props/C12.lean` (and available to C09 / C10):

* `pduType_cons`, `pduType_of_header`, `pduDirectiveType_of_header`, `fromRaw_of_header` — what the
  inspectors and the factory do on a buffer whose fixed header decodes (the directive octet is read
  at `header_len` of the *decoded* header: `header_len_from_raw` agrees with it for every width
  combination, `C05_header_len_from_raw`);
* `fromRaw_directive`, `fromRaw_fileData` — the dispatch, one decoder per directive octet;
* `*_documented` — no undocumented error from any of the four entry points, for any input;
* `fromRaw_sound` — whatever the factory returns for whatever input is an object of the kind the
  octets name (type bit / directive octet) and is *canonical* (`AnyPdu.Canonical`): the holder's
  matching accessor returns it.
-/
namespace SpVerif.Factory
open SpVerif SpVerif.CfdpHeader SpVerif.FileDirective SpVerif.Props

/-! ## inspectors -/

theorem pduType_nil : pduType [] = .error .value := rfl

theorem pduType_cons (x : UInt8) (r : Bytes) : pduType (x :: r) = .ok (x.toNat / 16 % 2) := by
  simp [pduType, idx, bind, Except.bind, pure, Except.pure]

theorem pduType_lt (d : Bytes) (t : Nat) (h : pduType d = .ok t) : t < 2 := by
  cases d with
  | nil => cases h
  | cons x r => rw [pduType_cons] at h; cases h; omega

theorem pduType_documented (d : Bytes) : Documented (pduType d) := by
  cases d with
  | nil => exact Documented.err rfl
  | cons x r => rw [pduType_cons]; exact Documented.ok _

theorem isFileDirective_nil : isFileDirective [] = .error .value := rfl

theorem isFileDirective_cons (x : UInt8) (r : Bytes) :
    isFileDirective (x :: r) = .ok (x.toNat / 16 % 2 == 0) := by
  simp [isFileDirective, pduType_cons, bind, Except.bind, pure, Except.pure, FILE_DIRECTIVE]

theorem isFileDirective_eq (d : Bytes) :
    isFileDirective d = (pduType d >>= fun t => pure (t == 0)) := rfl

theorem isFileDirective_documented (d : Bytes) : Documented (isFileDirective d) := by
  cases d with
  | nil => exact Documented.err rfl
  | cons x r => rw [isFileDirective_cons]; exact Documented.ok _

/-- the type bit is the one the decoded header carries -/
theorem pduType_of_header (d : Bytes) (h : PduHeader) (hu : PduHeader.unpack d = .ok h) :
    pduType d = .ok h.pduType := by
  by_cases h4 : d.length < 4
  · rw [unpack_short d h4] at hu; cases hu
  · obtain ⟨x0, x1, x2, x3, r, rfl⟩ := exists_cons4 d (by omega)
    rw [unpack_cons4] at hu
    rw [pduType_cons]
    split at hu
    · cases hu
    · split at hu
      · cases hu
      · split at hu
        · cases hu
        · split at hu
          · cases hu
          · cases hu; rfl

/-- `DirectiveType(octet)`, wrapped as the inspector returns it -/
def directiveOf (c : Nat) : Py (Option Nat) := do
  let c ← enumOf directiveTypes c
  pure (some c)

theorem directiveOf_eq (c : Nat) :
    directiveOf c = if c ∈ directiveTypes then .ok (some c) else .error .value := by
  unfold directiveOf enumOf
  split <;> rfl

theorem directiveOf_documented (c : Nat) : Documented (directiveOf c) := by
  rw [directiveOf_eq]; split
  · exact Documented.ok _
  · exact Documented.err rfl

/-- complete description of `pdu_directive_type` on at least one octet -/
theorem pduDirectiveType_cons (x : UInt8) (r : Bytes) :
    pduDirectiveType (x :: r) =
      if x.toNat / 16 % 2 ≠ 0 then .ok none
      else headerLenFromRaw (x :: r) >>= fun hl =>
        if (x :: r).length ≤ hl then .error .value else idx (x :: r) hl >>= directiveOf := by
  unfold pduDirectiveType
  rw [isFileDirective_cons]
  by_cases h0 : x.toNat / 16 % 2 = 0
  · simp only [h0, bind, Except.bind, pure, Except.pure]
    cases headerLenFromRaw (x :: r) with
    | error e => rfl
    | ok hl =>
      by_cases g : (x :: r).length ≤ hl
      · simp only [g, ↓reduceIte, throw, throwThe, MonadExceptOf.throw]
        rfl
      · simp only [g, ↓reduceIte]
        cases idx (x :: r) hl <;> rfl
  · have : (x.toNat / 16 % 2 == 0) = false := by simpa using h0
    simp [h0, this, bind, Except.bind, pure, Except.pure]

theorem pduDirectiveType_nil : pduDirectiveType [] = .error .value := rfl

theorem pduDirectiveType_documented (d : Bytes) : Documented (pduDirectiveType d) := by
  cases d with
  | nil => exact Documented.err rfl
  | cons x r =>
    rw [pduDirectiveType_cons]
    split
    · exact Documented.ok _
    · apply Documented.bind (headerLenFromRaw_documented _)
      intro hl _
      split
      · exact Documented.err rfl
      · apply Documented.bind
        · intro e he
          unfold idx at he
          split at he <;> cases he
          rename_i hn
          simp only [List.getElem?_eq_none_iff] at hn
          omega
        · intro c _; exact directiveOf_documented c

/-- on a buffer whose fixed header decodes: the directive octet is the one right behind the header
    (`header_len_from_raw` = `header_len` of the decoded header, for every width combination) -/
theorem pduDirectiveType_of_header (d : Bytes) (h : PduHeader) (hu : PduHeader.unpack d = .ok h) :
    pduDirectiveType d =
      if h.pduType ≠ 0 then .ok none
      else if d.length ≤ h.headerLen then .error .value
      else idx d h.headerLen >>= directiveOf := by
  have ht := pduType_of_header d h hu
  have hl := C05.C05_header_len_from_raw d h hu
  cases d with
  | nil => cases ht
  | cons x r =>
    rw [pduType_cons] at ht
    have e : x.toNat / 16 % 2 = h.pduType := Except.ok.inj ht
    rw [pduDirectiveType_cons, hl, e]
    rfl

/-! ## `from_raw` -/

theorem fromRaw_nil : fromRaw [] = .error .value := rfl

theorem fromRaw_cons (x : UInt8) (r : Bytes) :
    fromRaw (x :: r) =
      if x.toNat / 16 % 2 ≠ 0 then decodeAs .fileData (x :: r)
      else pduDirectiveType (x :: r) >>= fun dir => dispatch dir (x :: r) := by
  unfold fromRaw
  rw [isFileDirective_cons]
  by_cases h0 : x.toNat / 16 % 2 = 0
  · simp [h0, bind, Except.bind]
  · have : (x.toNat / 16 % 2 == 0) = false := by simpa using h0
    simp [h0, this, bind, Except.bind]

/-- the factory on a buffer whose fixed header decodes -/
theorem fromRaw_of_header (d : Bytes) (h : PduHeader) (hu : PduHeader.unpack d = .ok h) :
    fromRaw d =
      if h.pduType ≠ 0 then decodeAs .fileData d
      else if d.length ≤ h.headerLen then .error .value
      else idx d h.headerLen >>= directiveOf >>= fun dir => dispatch dir d := by
  have ht := pduType_of_header d h hu
  have hd := pduDirectiveType_of_header d h hu
  cases d with
  | nil => cases ht
  | cons x r =>
    rw [pduType_cons] at ht
    have e : x.toNat / 16 % 2 = h.pduType := Except.ok.inj ht
    rw [fromRaw_cons, hd, e]
    by_cases h0 : h.pduType = 0
    · simp only [h0, ne_eq, not_true_eq_false, ↓reduceIte]
      split <;> rfl
    · simp only [h0, ne_eq, not_false_eq_true, ↓reduceIte]

/-- File Data: the type bit selects the File Data decoder -/
theorem fromRaw_fileData (d : Bytes) (h : PduHeader) (hu : PduHeader.unpack d = .ok h)
    (ht : h.pduType ≠ 0) : fromRaw d = (fun x => some (AnyPdu.fileData x)) <$> FileData.Pdu.unpack d := by
  rw [fromRaw_of_header d h hu, if_pos ht]
  simp only [decodeAs, decoderOf]
  cases FileData.Pdu.unpack d <;> rfl

/-- file directive with directive octet `c`: `DirectiveType(c)`, then the decoder of that directive -/
theorem fromRaw_directive (d : Bytes) (h : PduHeader) (hu : PduHeader.unpack d = .ok h)
    (ht : h.pduType = 0) (c : Nat) (hc : idx d h.headerLen = .ok c) :
    pduDirectiveType d = directiveOf c ∧ fromRaw d = directiveOf c >>= fun dir => dispatch dir d := by
  have hl : ¬ d.length ≤ h.headerLen := by
    intro hle; rw [idx_err hle] at hc; cases hc
  constructor
  · rw [pduDirectiveType_of_header d h hu, if_neg (by omega), if_neg hl, hc]; rfl
  · rw [fromRaw_of_header d h hu, if_neg (by omega), if_neg hl, hc]; rfl

/-- the dispatch table, one line per directive octet -/
theorem dispatch_table (d : Bytes) :
    (directiveOf 4 >>= fun dir => dispatch dir d) = decodeAs .eof d ∧
    (directiveOf 5 >>= fun dir => dispatch dir d) = decodeAs .finished d ∧
    (directiveOf 6 >>= fun dir => dispatch dir d) = decodeAs .ack d ∧
    (directiveOf 7 >>= fun dir => dispatch dir d) = decodeAs .metadata d ∧
    (directiveOf 8 >>= fun dir => dispatch dir d) = decodeAs .nak d ∧
    (directiveOf 9 >>= fun dir => dispatch dir d) = decodeAs .prompt d ∧
    (directiveOf 12 >>= fun dir => dispatch dir d) = decodeAs .keepAlive d ∧
    (directiveOf 10 >>= fun dir => dispatch dir d) = .ok none := by
  refine ⟨rfl, rfl, rfl, rfl, rfl, rfl, rfl, rfl⟩

/-- any other directive octet: `ValueError` from `DirectiveType(octet)` -/
theorem directiveOf_unknown (c : Nat) (hc : c ∉ directiveTypes) : directiveOf c = .error .value := by
  rw [directiveOf_eq, if_neg hc]

theorem directiveOf_member (c : Nat) (hc : c ∈ directiveTypes) : directiveOf c = .ok (some c) := by
  rw [directiveOf_eq, if_pos hc]

/-! ## truncated buffers -/

theorem idx_take (d : Bytes) (k i : Nat) (h : i < k) : idx (d.take k) i = idx d i := by
  simp [idx, h]

/-- a file directive cut to `k` octets: refused (`ValueError`) up to and including the header, and
    handed to the decoder of the directive octet beyond it -/
theorem fromRaw_take_directive (d : Bytes) (h : PduHeader) (hu : PduHeader.unpack d = .ok h)
    (ht : h.pduType = 0) (c : Nat) (hc : idx d h.headerLen = .ok c) (k : Nat) (hk : k ≤ d.length) :
    fromRaw (d.take k) =
      if k ≤ h.headerLen then .error .value
      else directiveOf c >>= fun dir => dispatch dir (d.take k) := by
  have hlr := C05.C05_header_len_from_raw d h hu
  have hty := pduType_of_header d h hu
  have h4 : 4 ≤ d.length := by
    by_cases h4 : d.length < 4
    · rw [unpack_short d h4] at hu; cases hu
    · omega
  have hhl : 4 ≤ h.headerLen := headerLen_ge h
  obtain ⟨x0, x1, x2, x3, r, rfl⟩ := exists_cons4 d h4
  rw [pduType_cons, ht] at hty
  have e0 : x0.toNat / 16 % 2 = 0 := Except.ok.inj hty
  rw [headerLenFromRaw_cons4] at hlr
  have ehl : 4 + 2 * (x3.toNat / 16 % 8 + 1) + (x3.toNat % 8 + 1) = h.headerLen := Except.ok.inj hlr
  match k, hk with
  | 0, _ => rw [if_pos (by omega)]; rfl
  | 1, _ =>
    rw [if_pos (by omega)]
    show fromRaw [x0] = _
    rw [fromRaw_cons, if_neg (by omega), pduDirectiveType_cons, if_neg (by omega), headerLenFromRaw_short _ (by simp)]
    rfl
  | 2, _ =>
    rw [if_pos (by omega)]
    show fromRaw [x0, x1] = _
    rw [fromRaw_cons, if_neg (by omega), pduDirectiveType_cons, if_neg (by omega), headerLenFromRaw_short _ (by simp)]
    rfl
  | 3, _ =>
    rw [if_pos (by omega)]
    show fromRaw [x0, x1, x2] = _
    rw [fromRaw_cons, if_neg (by omega), pduDirectiveType_cons, if_neg (by omega), headerLenFromRaw_short _ (by simp)]
    rfl
  | k + 4, hk =>
    have et : (x0 :: x1 :: x2 :: x3 :: r).take (k + 4) = x0 :: x1 :: x2 :: x3 :: r.take k := by
      simp [List.take_succ_cons]
    have el : (x0 :: x1 :: x2 :: x3 :: r.take k).length = k + 4 := by
      simp only [List.length_cons, List.length_take] at hk ⊢; omega
    rw [et, fromRaw_cons, if_neg (by omega), pduDirectiveType_cons, if_neg (by omega), headerLenFromRaw_cons4, ehl]
    show (if (x0 :: x1 :: x2 :: x3 :: r.take k).length ≤ h.headerLen then _ else _) >>= _ = _
    rw [el]
    by_cases hle : k + 4 ≤ h.headerLen
    · rw [if_pos hle, if_pos hle]; rfl
    · rw [if_neg hle, if_neg hle, ← et, idx_take _ _ _ (by omega), hc]
      rfl

/-! ## documented errors only -/

theorem documented_map {α β : Type} (f : α → β) {x : Py α} (h : Documented x) : Documented (f <$> x) := by
  cases x with
  | ok a => exact Documented.ok _
  | error e => intro e' he; cases he; exact h e rfl

/-- the decoder of every kind fails only with documented errors (C06 / C07) -/
theorem decodeAs_documented (k : Kind) (d : Bytes) : Documented (decodeAs k d) := by
  cases k <;> simp only [decodeAs, decoderOf]
  · exact documented_map _ (documented_map _ (FileData.unpack_documented d))
  · exact documented_map _ (documented_map _ (Eof.unpack_documented d))
  · exact documented_map _ (documented_map _ (Finished.unpack_documented d))
  · exact documented_map _ (documented_map _ (Ack.unpack_documented d))
  · exact documented_map _ (documented_map _ (Metadata.unpack_documented d))
  · exact documented_map _ (documented_map _ (Nak.unpack_documented d))
  · exact documented_map _ (documented_map _ (Prompt.unpack_documented d))
  · exact documented_map _ (documented_map _ (KeepAlive.unpack_documented d))

theorem dispatch_documented (dir : Option Nat) (d : Bytes) : Documented (dispatch dir d) := by
  unfold dispatch
  repeat' split
  all_goals first | exact decodeAs_documented _ d | exact Documented.ok _

/-- `from_raw` fails, for any octet string whatever, only with documented errors -/
theorem fromRaw_documented (d : Bytes) : Documented (fromRaw d) := by
  cases d with
  | nil => exact Documented.err rfl
  | cons x r =>
    rw [fromRaw_cons]
    split
    · exact decodeAs_documented _ _
    · apply Documented.bind (pduDirectiveType_documented _)
      intro dir _
      exact dispatch_documented dir _

/-! ## soundness of the dispatch for any input -/

/-- the objects the library itself builds (constructors, factory), as opposed to objects obtained by
    calling the decoder of one class on the octets of another kind: a File Data object carries the
    File Data type bit, a Prompt / EOF object its own directive code (the three classes whose
    `pdu_type` / `directive_type` views read stored values) -/
def AnyPdu.Canonical : AnyPdu → Prop
  | .fileData x => x.header.pduType = FILE_DATA
  | .prompt x => x.fd.code = DIR_PROMPT
  | .eof x => x.fd.code = DIR_EOF
  | _ => True

instance (p : AnyPdu) : Decidable p.Canonical := by
  cases p <;> (unfold AnyPdu.Canonical; infer_instance)

theorem map_ok_inv {α β : Type} (f : α → β) (x : Py α) (b : β) (h : f <$> x = .ok b) :
    ∃ a, x = .ok a ∧ f a = b := by
  cases x with
  | error e => cases h
  | ok a => cases h; exact ⟨a, rfl, rfl⟩

theorem decodeAs_inv (k : Kind) (d : Bytes) (p : AnyPdu) (h : decodeAs k d = .ok (some p)) :
    decoderOf k d = .ok p := by
  unfold decodeAs at h
  obtain ⟨q, hq, he⟩ := map_ok_inv _ _ _ h
  cases he
  exact hq

/-- the directive code stored by a directive decoder is the octet `pdu_directive_type` reads -/
theorem code_of_prelude (d : Bytes) (fd : FileDirective) (q : Bytes) (c : Nat)
    (hp : prelude d = .ok (fd, q)) (hd : pduDirectiveType d = .ok (some c)) : fd.code = c := by
  obtain ⟨hu, hi, _⟩ := (prelude_ok_iff d fd q).mp hp
  rw [pduDirectiveType_of_header d fd.header hu] at hd
  split at hd
  · cases hd
  · split at hd
    · cases hd
    · rw [hi] at hd
      change directiveOf fd.code = _ at hd
      rw [directiveOf_eq] at hd
      split at hd
      · cases hd; rfl
      · cases hd

/-- **whatever the factory returns, for whatever input, is an object of the kind the octets name**:
    its `pdu_type` is the type bit, its class is the one of the directive octet, and it is canonical -/
theorem fromRaw_sound (d : Bytes) (p : AnyPdu) (h : fromRaw d = .ok (some p)) :
    p.Canonical ∧ pduType d = .ok p.pduType ∧ pduDirectiveType d = .ok p.kind.code := by
  cases d with
  | nil => cases h
  | cons x r =>
    rw [fromRaw_cons] at h
    by_cases h0 : x.toNat / 16 % 2 = 0
    · rw [if_neg (by omega)] at h
      cases hd : pduDirectiveType (x :: r) with
      | error e => rw [hd] at h; cases h
      | ok dir =>
        rw [hd] at h
        change dispatch dir (x :: r) = _ at h
        rw [pduType_cons, h0]
        unfold dispatch at h
        split at h
        · rename_i hdir; subst hdir
          have hx : AnyPdu.eof <$> Eof.Eof.unpack (x :: r) = .ok p := decodeAs_inv _ _ _ h
          obtain ⟨a, ha, rfl⟩ := map_ok_inv _ _ _ hx
          refine ⟨?_, rfl, rfl⟩
          obtain ⟨fd, q, hp, hf, _⟩ := Eof.unpack_inv _ a ha
          have hc := (Eof.parse_fd fd q a hf).2.1
          show a.fd.code = DIR_EOF
          rw [hc]; exact code_of_prelude _ _ _ _ hp hd
        · split at h
          · rename_i hdir; subst hdir
            have hx : AnyPdu.metadata <$> Metadata.Metadata.unpack (x :: r) = .ok p := decodeAs_inv _ _ _ h
            obtain ⟨a, _, rfl⟩ := map_ok_inv _ _ _ hx
            exact ⟨trivial, rfl, rfl⟩
          · split at h
            · rename_i hdir; subst hdir
              have hx : AnyPdu.finished <$> Finished.Finished.unpack (x :: r) = .ok p := decodeAs_inv _ _ _ h
              obtain ⟨a, _, rfl⟩ := map_ok_inv _ _ _ hx
              exact ⟨trivial, rfl, rfl⟩
            · split at h
              · rename_i hdir; subst hdir
                have hx : AnyPdu.ack <$> Ack.Ack.unpack (x :: r) = .ok p := decodeAs_inv _ _ _ h
                obtain ⟨a, _, rfl⟩ := map_ok_inv _ _ _ hx
                exact ⟨trivial, rfl, rfl⟩
              · split at h
                · rename_i hdir; subst hdir
                  have hx : AnyPdu.nak <$> Nak.Nak.unpack (x :: r) = .ok p := decodeAs_inv _ _ _ h
                  obtain ⟨a, _, rfl⟩ := map_ok_inv _ _ _ hx
                  exact ⟨trivial, rfl, rfl⟩
                · split at h
                  · rename_i hdir; subst hdir
                    have hx : AnyPdu.keepAlive <$> KeepAlive.KeepAlive.unpack (x :: r) = .ok p :=
                      decodeAs_inv _ _ _ h
                    obtain ⟨a, _, rfl⟩ := map_ok_inv _ _ _ hx
                    exact ⟨trivial, rfl, rfl⟩
                  · split at h
                    · rename_i hdir; subst hdir
                      have hx : AnyPdu.prompt <$> Prompt.Prompt.unpack (x :: r) = .ok p := decodeAs_inv _ _ _ h
                      obtain ⟨a, ha, rfl⟩ := map_ok_inv _ _ _ hx
                      refine ⟨?_, rfl, rfl⟩
                      obtain ⟨hp, _⟩ := Prompt.unpack_inv _ a ha
                      exact code_of_prelude _ _ _ _ hp hd
                    · cases h
    · rw [if_pos h0] at h
      have hx : AnyPdu.fileData <$> FileData.Pdu.unpack (x :: r) = .ok p := decodeAs_inv _ _ _ h
      obtain ⟨a, ha, rfl⟩ := map_ok_inv _ _ _ hx
      obtain ⟨_, _, _, hu⟩ := C07.C07_decode_encode _ a ha
      have ht := pduType_of_header _ _ hu
      have hlt := pduType_lt _ _ ht
      rw [pduType_cons] at ht
      have e : x.toNat / 16 % 2 = a.header.pduType := Except.ok.inj ht
      refine ⟨?_, ?_, ?_⟩
      · show a.header.pduType = 1
        omega
      · rw [pduType_cons, e]; rfl
      · rw [pduDirectiveType_of_header _ _ hu, if_pos (by omega)]; rfl

/-! ## the holder's accessors -/

theorem castTo_none (k : Kind) : Holder.castTo k none = .error .type := rfl

/-- a canonical held object: success exactly for its own kind, returning the held object itself;
    `TypeError` for each of the seven other kinds -/
theorem castTo_canonical (p : AnyPdu) (hc : p.Canonical) (k : Kind) :
    Holder.castTo k (some p) = if p.kind = k then .ok p else .error .type := by
  cases p <;> cases k <;>
    simp_all [Holder.castTo, AnyPdu.Canonical, AnyPdu.kind, AnyPdu.pduType, AnyPdu.directiveType,
      AnyPdu.isDirectiveClass, AnyPdu.view, Kind.code, notTarget, FILE_DATA, FILE_DIRECTIVE,
      DIR_EOF, DIR_FINISHED, DIR_ACK, DIR_METADATA, DIR_NAK, DIR_PROMPT, DIR_KEEP_ALIVE,
      bind, Except.bind, pure, Except.pure]

end SpVerif.Factory
