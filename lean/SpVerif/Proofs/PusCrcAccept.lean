import SpVerif.Model.PusTc
import SpVerif.Model.PusTm
import SpVerif.Props.C02
import SpVerif.Props.C03
import SpVerif.Proofs.CrcBurstBytes
/-!
# What acceptance by a PUS decoder says about the CRC (reusable by C04/C09/C10)

`declaredLen d` — the packet length a PUS decoder derives from a buffer: a function of octets 4 and 5
only. `tc_accept_crc` / `tm_accept_crc`: a decoder that returns a packet has seen residue zero over
exactly the first `declaredLen d` octets. `tc_unpack_eq_of_take` style facts are in C02/C03.
-/
namespace SpVerif.PusCrc
open SpVerif SpVerif.SpacePacket SpVerif.PusTc SpVerif.PusTm

/-- declared total packet length: data-length field (octets 4–5, big-endian) + 7 -/
def declaredLen (d : Bytes) : Nat := (d[4]?.getD 0).toNat * 256 + (d[5]?.getD 0).toNat + 7

/-- it depends on octets 4 and 5 only -/
theorem declaredLen_congr {d d' : Bytes} (h4 : d'[4]? = d[4]?) (h5 : d'[5]? = d[5]?) :
    declaredLen d' = declaredLen d := by
  unfold declaredLen; rw [h4, h5]

theorem declaredLen_append (a b : Bytes) (h : 6 ≤ a.length) : declaredLen (a ++ b) = declaredLen a := by
  apply declaredLen_congr <;> exact List.getElem?_append_left (by omega)

/-- the primary-header decoder reports exactly this length -/
theorem sph_unpack_declaredLen {d : Bytes} {h : Sph} (hu : Sph.unpack d = .ok h) :
    6 ≤ d.length ∧ h.packetLen = declaredLen d ∧ totalLenFromLenField h.dlen = declaredLen d := by
  by_cases h6 : d.length < 6
  · rw [Props.C01.C01_short d h6] at hu; cases hu
  · have h6' : 6 ≤ d.length := by omega
    rw [Props.C01.unpack_eq d h6'] at hu
    have := Except.ok.inj hu
    subst this
    have e4 : d[4]? = some d[4] := List.getElem?_eq_getElem (by omega)
    have e5 : d[5]? = some d[5] := List.getElem?_eq_getElem (by omega)
    refine ⟨h6', ?_, ?_⟩ <;>
      simp only [Sph.packetLen, totalLenFromLenField, declaredLen, e4, e5, Option.getD_some] <;> omega

/-- **TC: acceptance implies residue zero over exactly the declared packet** -/
theorem tc_accept_crc {d : Bytes} {t : Tc} (h : Tc.unpack d = .ok t) :
    t.packetLen = declaredLen d ∧ 13 ≤ declaredLen d ∧ declaredLen d ≤ d.length ∧
    Crc.crc16 (d.take (declaredLen d)) = 0 := by
  obtain ⟨h13, hle, hcrc, _, hs⟩ := Props.C02.C02_accept_sound d t h
  have e : t.packetLen = declaredLen d := (sph_unpack_declaredLen hs).2.1
  rw [e] at h13 hle hcrc
  exact ⟨e, h13, hle, hcrc⟩

/-- the TM decoder decodes the primary header first -/
theorem tm_unpack_sph {d : Bytes} {n : Nat} {t : Tm} (h : Tm.unpack d n = .ok t) : Sph.unpack d = .ok t.sph := by
  unfold Tm.unpack at h
  cases hs : Sph.unpack d with
  | error e => simp [hs, bind, Except.bind] at h
  | ok sph =>
    simp only [hs, bind, Except.bind] at h
    by_cases g1 : totalLenFromLenField sph.dlen > d.length
    · simp [g1, throw, throwThe, MonadExceptOf.throw] at h
    · by_cases g2 : totalLenFromLenField sph.dlen < 6 + 7 + n + 2
      · simp [g1, g2, throw, throwThe, MonadExceptOf.throw] at h
      · simp only [g1, g2, ↓reduceIte] at h
        cases hc : TmSec.unpack (d.drop 6) n with
        | error e => simp [hc] at h
        | ok sec =>
          simp only [hc] at h
          by_cases g3 : totalLenFromLenField sph.dlen < sec.headerSize + 6
          · simp [g3, throw, throwThe, MonadExceptOf.throw] at h
          · by_cases g4 : Crc.crc16 (d.take (totalLenFromLenField sph.dlen)) = 0
            · simp only [g3, g4, ne_eq, not_true_eq_false, ↓reduceIte, pure, Except.pure] at h
              have := Except.ok.inj h
              subst this
              rfl
            · simp only [g3, ↓reduceIte, ne_eq, g4, not_false_eq_true, throw, throwThe, MonadExceptOf.throw] at h
              cases h

/-- **TM: acceptance (with any timestamp length) implies residue zero over exactly the declared packet** -/
theorem tm_accept_crc {d : Bytes} {n : Nat} {t : Tm} (h : Tm.unpack d n = .ok t) :
    t.packetLen = declaredLen d ∧ 13 + n + 2 ≤ declaredLen d ∧ declaredLen d ≤ d.length ∧
    Crc.crc16 (d.take (declaredLen d)) = 0 := by
  obtain ⟨h13, hle, hcrc, _, _⟩ := Props.C03.C03_accept_sound d n t h
  have e : t.packetLen = declaredLen d := (sph_unpack_declaredLen (tm_unpack_sph h)).2.1
  rw [e] at h13 hle hcrc
  exact ⟨e, h13, hle, hcrc⟩

/-- window `[k, k + len)` of bit positions does not meet octets 4–5 (bits 32 … 47) -/
def AvoidsLenField (k len : Nat) : Prop := k + len ≤ 32 ∨ 48 ≤ k

instance (k len : Nat) : Decidable (AvoidsLenField k len) := by unfold AvoidsLenField; infer_instance

/-- a burst that avoids octets 4–5 leaves the declared length unchanged -/
theorem burst_declaredLen {d d' : Bytes} {k : Nat} {B : List Bool} (hb : Crc.Burst d d' k B)
    (hav : AvoidsLenField k B.length) : declaredLen d' = declaredLen d := by
  apply declaredLen_congr
  · exact hb.getElem?_eq 4 (by unfold AvoidsLenField at hav; omega)
  · exact hb.getElem?_eq 5 (by unfold AvoidsLenField at hav; omega)

/-- **generic PUS frame argument**: `d` starts with a frame of `N` octets with residue zero whose
    declared length is `N`; after a burst of ≤ 16 bits inside the frame that avoids octets 4–5 the
    residue over the (unchanged) declared length is non-zero. -/
theorem burst_frame_crc {d d' : Bytes} {k : Nat} {B : List Bool} (hb : Crc.Burst d d' k B)
    (hN : declaredLen d ≤ d.length) (hz : Crc.crc16 (d.take (declaredLen d)) = 0)
    (hin : k + B.length ≤ 8 * declaredLen d) (hB : B.length ≤ 16)
    (hne : B ≠ List.replicate B.length false) (hav : AvoidsLenField k B.length) :
    Crc.crc16 (d'.take (declaredLen d')) ≠ 0 := by
  rw [burst_declaredLen hb hav]
  exact hb.crc_take_ne_zero _ hN hin hz hB hne

end SpVerif.PusCrc
