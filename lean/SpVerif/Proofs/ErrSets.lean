import SpVerif.Py
import SpVerif.BE
import SpVerif.Model.SpacePacket
import SpVerif.Model.PusTc
import SpVerif.Model.PusTm
import SpVerif.Model.Srv1
import SpVerif.Model.Cds
import SpVerif.Model.CfdpHeader
import SpVerif.Model.CfdpFront
import SpVerif.Model.ByteField
import SpVerif.Model.Lv
import SpVerif.Model.Tlv
import SpVerif.Proofs.FileDirective
import SpVerif.Model.Ack
import SpVerif.Model.Prompt
import SpVerif.Model.KeepAlive
import SpVerif.Model.Nak
import SpVerif.Model.Eof
import SpVerif.Model.Finished
import SpVerif.Model.Metadata
import SpVerif.Model.MsgToUser
import SpVerif.Model.Factory
import SpVerif.Proofs.FileData
import SpVerif.Model.UslpHeader
/-!
# Error SETS of the decoder models (used by `Props/C10.lean`, `C10_errors_*`)

`Err.documented` (the shared predicate of every `*_documented` theorem) accepts eight categories,
three of which (`overflow`, `fileNotFound`, `verifParams`) are not in C10's list and are produced by
no decoder. This file pins the set down per decoder in two steps:

1. `ErrIn S x` — `x` fails, if at all, with a member of the list `S` — is proved for every model
   function **structurally** (`*_raises`): the set is read off the definition (every `throw`, every
   primitive with the classes it can raise: `idx` → `index`, `unpackBE` → `struct`, `enumOf` →
   `value`, …). No guard reasoning, so these sets are LOOSE: they still contain `index` / `struct`.
2. `ErrIn.tighten`: together with the owner's `Documented x` (which excludes the undocumented
   classes by guard reasoning) the set shrinks to its documented members — the exact classes of the
   decoder.
-/
namespace SpVerif

/-- `x` fails, if at all, only with a member of `S` -/
def ErrIn {α : Type} (S : List Err) (x : Py α) : Prop := ∀ e, x = .error e → e ∈ S

namespace ErrIn
variable {α β : Type} {S T : List Err}

theorem ok (a : α) : ErrIn S (Except.ok a : Py α) := by intro e h; cases h
theorem pure' (a : α) : ErrIn S (pure a : Py α) := ok a
theorem err {e : Err} (h : e ∈ S) : ErrIn S (Except.error e : Py α) := by intro e' h'; cases h'; exact h
theorem throw' {e : Err} (h : e ∈ S) : ErrIn S (throw e : Py α) := err h
theorem bind {x : Py α} {f : α → Py β} (hx : ErrIn S x) (hf : ∀ a, ErrIn S (f a)) : ErrIn S (x >>= f) := by
  cases x with
  | error e => intro e' h'; exact hx e' (by cases h'; rfl)
  | ok a => exact hf a
theorem map {x : Py α} (f : α → β) (hx : ErrIn S x) : ErrIn S (f <$> x) := by
  cases x with
  | error e => intro e' h'; exact hx e' (by cases h'; rfl)
  | ok a => intro e h; cases h
theorem mono {x : Py α} (h : ErrIn S x) (hs : ∀ e, e ∈ S → e ∈ T) : ErrIn T x := fun e he => hs e (h e he)
/-- **the generic lemma**: a structural (loose) error set and the owner's `Documented` give the
    exact set — the documented members of the loose one -/
theorem tighten {x : Py α} (hd : Documented x) (hl : ErrIn S x)
    (hs : ∀ e, e ∈ S → e.documented = true → e ∈ T) : ErrIn T x :=
  fun e he => hs e (hl e he) (hd e he)
/-- from an owner's lemma of the shape `x = error e → e = a ∨ e = b …` -/
theorem of_forall {x : Py α} (h : ∀ e, x = .error e → e ∈ S) : ErrIn S x := h
/-- every member of the set is a documented class ⇒ `Documented` -/
theorem documented {x : Py α} (h : ErrIn S x) (hs : ∀ e, e ∈ S → e.documented = true) : Documented x :=
  fun e he => hs e (h e he)
end ErrIn

/-- closes `∀ e, e ∈ S → e ∈ T` and `∀ e, e ∈ S → e.documented = true → e ∈ T` for literal lists -/
macro "err_sub" : tactic => `(tactic| (intro e; cases e <;> simp))

/-- one step of the structural analysis -/
syntax "errin_step" "[" term,* "]" : tactic
macro_rules
  | `(tactic| errin_step [$ts,*]) => `(tactic| first
      | exact ErrIn.ok _
      | exact ErrIn.pure' _
      | exact ErrIn.err (by simp)
      | exact ErrIn.throw' (by simp)
      | solve_by_elim
      $[| (apply ErrIn.mono $ts; err_sub)]*
      | refine ErrIn.bind ?_ (fun _ => ?_)
      | refine ErrIn.map _ ?_
      | split
      | dsimp only)

/-- structural analysis: `errin [lemmas about the callees]` -/
syntax "errin" "[" term,* "]" : tactic
macro_rules
  | `(tactic| errin [$ts,*]) => `(tactic| repeat (errin_step [$ts,*]))

/-! ## primitives -/

theorem idx_raises (b : Bytes) (i : Nat) : ErrIn [.index] (idx b i) := by
  unfold idx; errin []
theorem unpackBE_raises (n : Nat) (b : Bytes) : ErrIn [.struct] (unpackBE n b) := by
  unfold unpackBE; errin []
theorem packBE_raises (n v : Nat) : ErrIn [.struct] (packBE n v) := by
  unfold packBE; errin []
theorem enumOf_raises (m : List Nat) (v : Nat) : ErrIn [.value] (enumOf m v) := by
  unfold enumOf; errin []
theorem byteOf_raises (v : Int) : ErrIn [.value] (byteOf v) := by
  unfold byteOf; errin []
theorem byteOfN_raises (v : Nat) : ErrIn [.value] (byteOfN v) := by
  unfold byteOfN; errin []

/-! ## CCSDS / PUS -/
section Pus
open SpacePacket PusTc PusTm Srv1

theorem Sph.new_raises (v t s : Nat) (a : Int) (f : Nat) (c d : Int) : ErrIn [.value] (Sph.new v t s a f c d) := by
  unfold Sph.new; errin []
theorem Psc.new_raises (f : Nat) (c : Int) : ErrIn [.value] (Psc.new f c) := by unfold Psc.new; errin []
theorem Psc.fromRaw_raises (r : Nat) : ErrIn [.value] (Psc.fromRaw r) := Psc.new_raises _ _
theorem Sph.unpack_raises (d : Bytes) : ErrIn [.value, .index, .struct] (Sph.unpack d) := by
  unfold Sph.unpack; errin [idx_raises _ _, unpackBE_raises _ _, Sph.new_raises _ _ _ _ _ _ _]
theorem apidFromRaw_raises (d : Bytes) : ErrIn [.value, .index] (apidFromRaw d) := by
  unfold apidFromRaw; errin [idx_raises _ _]
theorem TcSec.unpack_raises (d : Bytes) : ErrIn [.value, .index, .struct] (TcSec.unpack d) := by
  unfold TcSec.unpack; errin [idx_raises _ _, unpackBE_raises _ _]
theorem Tc.unpack_raises (d : Bytes) : ErrIn [.value, .crc, .index, .struct] (Tc.unpack d) := by
  unfold Tc.unpack; errin [Sph.unpack_raises _, TcSec.unpack_raises _]
theorem TmSec.unpack_raises (d : Bytes) (n : Nat) : ErrIn [.value, .index, .struct] (TmSec.unpack d n) := by
  unfold TmSec.unpack; errin [idx_raises _ _, unpackBE_raises _ _]
theorem Tm.unpack_raises (d : Bytes) (n : Nat) : ErrIn [.value, .crc, .index, .struct] (Tm.unpack d n) := by
  unfold Tm.unpack; errin [Sph.unpack_raises _, TmSec.unpack_raises _ _]
theorem serviceFromBytes_raises (d : Bytes) : ErrIn [.value, .index] (serviceFromBytes d) := by
  unfold serviceFromBytes; errin [idx_raises _ _]
theorem ReqId.unpack_raises (d : Bytes) : ErrIn [.value, .struct] (ReqId.unpack d) := by
  unfold ReqId.unpack; errin [unpackBE_raises _ _, Psc.fromRaw_raises _]
theorem checkPfc_raises (p : Nat) : ErrIn [.value] (checkPfc p) := by unfold checkPfc; errin []
theorem Pfe.new_raises (p v : Nat) : ErrIn [.value] (Pfe.new p v) := by unfold Pfe.new; errin [checkPfc_raises _]
theorem Pfe.unpack_raises (d : Bytes) (p : Nat) : ErrIn [.value, .struct] (Pfe.unpack d p) := by
  unfold Pfe.unpack; errin [checkPfc_raises _, unpackBE_raises _ _, Pfe.new_raises _ _]
theorem FailureNotice.unpack_raises (d : Bytes) (n : Nat) (k : Option Nat) :
    ErrIn [.value, .struct] (FailureNotice.unpack d n k) := by
  unfold FailureNotice.unpack; errin [Pfe.unpack_raises _ _]
theorem unpackRaw_raises (tm : Tm) (sb eb : Nat) : ErrIn [.value, .struct] (unpackRaw tm sb eb) := by
  unfold unpackRaw; errin [ReqId.unpack_raises _, Pfe.unpack_raises _ _, FailureNotice.unpack_raises _ _ _]
theorem S1Tm.unpack_raises (d : Bytes) (n sb eb : Nat) :
    ErrIn [.value, .crc, .index, .struct] (S1Tm.unpack d n sb eb) := by
  unfold S1Tm.unpack; errin [Tm.unpack_raises _ _, unpackRaw_raises _ _ _]
theorem Cds.unpackFromRaw_raises (d : Bytes) : ErrIn [.value, .index, .struct] (Cds.unpackFromRaw d) := by
  unfold Cds.unpackFromRaw; errin [idx_raises _ _, unpackBE_raises _ _, enumOf_raises _ _]
end Pus

/-- `errin` with the primitives of the Python kit preloaded -/
syntax "errin!" "[" term,* "]" : tactic
macro_rules
  | `(tactic| errin! [$ts,*]) => `(tactic| errin [idx_raises _ _, unpackBE_raises _ _, packBE_raises _ _,
      enumOf_raises _ _, byteOf_raises _, byteOfN_raises _, $ts,*])

/-! ## CFDP fixed header, fronts, directive base -/
section Cfdp
open CfdpHeader CfdpFront FileDirective

theorem BF.new_raises (w : Nat) (v : Int) : ErrIn [.value] (BF.new w v) := by unfold BF.new; errin []
theorem BF.fromBytes_raises (w : Nat) (b : Bytes) : ErrIn [.value, .struct] (BF.fromBytes w b) := by
  unfold BF.fromBytes; errin! [BF.new_raises _ _]
theorem checkLenInBytes_raises (n : Nat) : ErrIn [.value] (checkLenInBytes n) := by
  unfold checkLenInBytes; errin []
theorem headerLenFromRaw_raises (d : Bytes) : ErrIn [.value, .index] (headerLenFromRaw d) := by
  unfold headerLenFromRaw; errin! []
theorem PduHeader.unpack_raises (d : Bytes) : ErrIn [.value, .cfdpVersion, .index, .struct] (PduHeader.unpack d) := by
  unfold PduHeader.unpack; errin! [checkLenInBytes_raises _, BF.fromBytes_raises _ _]
theorem PduHeader.verify_raises (h : PduHeader) (d : Bytes) :
    ErrIn [.value, .crc, .struct] (h.verifyLengthAndChecksum d) := by
  unfold PduHeader.verifyLengthAndChecksum; errin! []
theorem PduHeader.setDataFieldLen_raises (h : PduHeader) (n : Nat) : ErrIn [.value] (h.setDataFieldLen n) := by
  unfold PduHeader.setDataFieldLen; errin []
theorem pduFront_raises (d : Bytes) : ErrIn [.value, .cfdpVersion, .crc, .index, .struct] (pduFront d) := by
  unfold pduFront; errin! [PduHeader.unpack_raises _, PduHeader.verify_raises _ _]
theorem directiveFront_raises (d : Bytes) :
    ErrIn [.value, .cfdpVersion, .crc, .index, .struct] (directiveFront d) := by
  unfold directiveFront; errin! [PduHeader.unpack_raises _, PduHeader.verify_raises _ _]
theorem FileDirective.unpack_raises (d : Bytes) :
    ErrIn [.value, .cfdpVersion, .index, .struct] (FileDirective.unpack d) := by
  unfold FileDirective.unpack; errin! [PduHeader.unpack_raises _]
theorem FileDirective.verify_raises (fd : FileDirective) (d : Bytes) : ErrIn [.value, .crc, .struct] (fd.verify d) :=
  PduHeader.verify_raises _ _
theorem FileDirective.setParamLen_raises (fd : FileDirective) (n : Nat) : ErrIn [.value] (fd.setParamLen n) := by
  unfold FileDirective.setParamLen; errin [PduHeader.setDataFieldLen_raises _ _]
theorem FileDirective.parseFss_raises (fd : FileDirective) (d : Bytes) (i : Nat) :
    ErrIn [.value, .struct] (fd.parseFss d i) := by
  unfold FileDirective.parseFss; errin! []
theorem prelude_raises (d : Bytes) : ErrIn [.value, .cfdpVersion, .crc, .index, .struct] (prelude d) := by
  unfold prelude; errin [FileDirective.unpack_raises _, FileDirective.verify_raises _ _]
end Cfdp

/-! ## byte fields -/
section ByteFields
open ByteField

theorem structSpec_raises (n : Int) : ErrIn [.value] (structSpec n) := by unfold structSpec; errin []
theorem packU_raises (n : Nat) (v : Int) : ErrIn [.struct] (packU n v) := by unfold packU; errin! []
theorem toUnsigned_raises (n v : Int) : ErrIn [.value, .struct] (ByteField.toUnsigned n v) := by
  unfold ByteField.toUnsigned; errin [structSpec_raises _, packU_raises _ _]
theorem verifyInt_raises (w : Nat) (v : Int) : ErrIn [.value] (verifyInt w v) := by unfold verifyInt; errin []
theorem Field.new_raises (v n : Int) : ErrIn [.value, .struct] (Field.new v n) := by
  unfold Field.new; errin [verifyInt_raises _ _, toUnsigned_raises _ _]
theorem fromBytes_raises (d : Bytes) : ErrIn [.value, .struct] (fromBytes d) := by
  unfold fromBytes; errin! [structSpec_raises _, Field.new_raises _ _]
theorem fromU8Bytes_raises (d : Bytes) : ErrIn [.value, .index, .struct] (fromU8Bytes d) := by
  unfold fromU8Bytes u8New; errin! [Field.new_raises _ _]
theorem fromU16Bytes_raises (d : Bytes) : ErrIn [.value, .index, .struct] (fromU16Bytes d) := by
  unfold fromU16Bytes u16New; errin! [structSpec_raises _, Field.new_raises _ _]
theorem fromU32Bytes_raises (d : Bytes) : ErrIn [.value, .index, .struct] (fromU32Bytes d) := by
  unfold fromU32Bytes u32New; errin! [structSpec_raises _, Field.new_raises _ _]
theorem fromU64Bytes_raises (d : Bytes) : ErrIn [.value, .index, .struct] (fromU64Bytes d) := by
  unfold fromU64Bytes u64New; errin! [structSpec_raises _, Field.new_raises _ _]
theorem genFromBytes_raises (n : Int) (d : Bytes) : ErrIn [.value, .index, .struct] (genFromBytes n d) := by
  unfold genFromBytes
  errin [fromU8Bytes_raises _, fromU16Bytes_raises _, fromU32Bytes_raises _, fromU64Bytes_raises _]
end ByteFields

/-! ## LV, TLV, concrete TLVs, holder -/
section Tlvs
open Lv Tlv

theorem CfdpLv.new_raises (v : Bytes) : ErrIn [.value] (CfdpLv.new v) := by unfold CfdpLv.new; errin []
theorem CfdpLv.unpack_raises (d : Bytes) : ErrIn [.value, .index] (CfdpLv.unpack d) := by
  unfold CfdpLv.unpack; errin! [CfdpLv.new_raises _]
theorem CfdpTlv.new_raises (t : Nat) (v : Bytes) : ErrIn [.value] (CfdpTlv.new t v) := by
  unfold CfdpTlv.new; errin []
theorem CfdpTlv.unpack_raises (d : Bytes) : ErrIn [.value, .index] (CfdpTlv.unpack d) := by
  unfold CfdpTlv.unpack; errin! [CfdpTlv.new_raises _ _]
theorem decodeUtf8_raises (b : Bytes) : ErrIn [.value] (decodeUtf8 b) := by unfold decodeUtf8; errin []
theorem commonUnpacker_raises (d : Bytes) : ErrIn [.value, .index] (commonUnpacker d) := by
  unfold commonUnpacker; errin! [CfdpLv.unpack_raises _, decodeUtf8_raises _]
theorem EntityIdTlv.fromTlv_raises (t : CfdpTlv) : ErrIn [.tlvType] (EntityIdTlv.fromTlv t) := by
  unfold EntityIdTlv.fromTlv; errin []
theorem FlowLabelTlv.fromTlv_raises (t : CfdpTlv) : ErrIn [.tlvType] (FlowLabelTlv.fromTlv t) := by
  unfold FlowLabelTlv.fromTlv; errin []
theorem MessageToUserTlv.fromTlv_raises (t : CfdpTlv) : ErrIn [.tlvType] (MessageToUserTlv.fromTlv t) := by
  unfold MessageToUserTlv.fromTlv; errin []
theorem FaultHandlerOverrideTlv.fromTlv_raises (t : CfdpTlv) :
    ErrIn [.value, .tlvType, .index] (FaultHandlerOverrideTlv.fromTlv t) := by
  unfold FaultHandlerOverrideTlv.fromTlv; errin! []
theorem FileStoreRequestTlv.fromTlv_raises (t : CfdpTlv) :
    ErrIn [.value, .tlvType, .index] (FileStoreRequestTlv.fromTlv t) := by
  unfold FileStoreRequestTlv.fromTlv; errin! [commonUnpacker_raises _]
theorem FileStoreResponseTlv.fromTlv_raises (t : CfdpTlv) :
    ErrIn [.value, .tlvType, .index] (FileStoreResponseTlv.fromTlv t) := by
  unfold FileStoreResponseTlv.fromTlv; errin! [commonUnpacker_raises _, CfdpLv.unpack_raises _]
theorem EntityIdTlv.unpack_raises (d : Bytes) : ErrIn [.value, .tlvType, .index] (EntityIdTlv.unpack d) := by
  unfold EntityIdTlv.unpack; errin [CfdpTlv.unpack_raises _, EntityIdTlv.fromTlv_raises _]
theorem FlowLabelTlv.unpack_raises (d : Bytes) : ErrIn [.value, .tlvType, .index] (FlowLabelTlv.unpack d) := by
  unfold FlowLabelTlv.unpack; errin [CfdpTlv.unpack_raises _, FlowLabelTlv.fromTlv_raises _]
theorem MessageToUserTlv.unpack_raises (d : Bytes) :
    ErrIn [.value, .tlvType, .index] (MessageToUserTlv.unpack d) := by
  unfold MessageToUserTlv.unpack; errin [CfdpTlv.unpack_raises _, MessageToUserTlv.fromTlv_raises _]
theorem FaultHandlerOverrideTlv.unpack_raises (d : Bytes) :
    ErrIn [.value, .tlvType, .index] (FaultHandlerOverrideTlv.unpack d) := by
  unfold FaultHandlerOverrideTlv.unpack; errin [CfdpTlv.unpack_raises _, FaultHandlerOverrideTlv.fromTlv_raises _]
theorem FileStoreRequestTlv.unpack_raises (d : Bytes) :
    ErrIn [.value, .tlvType, .index] (FileStoreRequestTlv.unpack d) := by
  unfold FileStoreRequestTlv.unpack; errin [CfdpTlv.unpack_raises _, FileStoreRequestTlv.fromTlv_raises _]
theorem FileStoreResponseTlv.unpack_raises (d : Bytes) :
    ErrIn [.value, .tlvType, .index] (FileStoreResponseTlv.unpack d) := by
  unfold FileStoreResponseTlv.unpack; errin [CfdpTlv.unpack_raises _, FileStoreResponseTlv.fromTlv_raises _]
end Tlvs

/-! ## the file-directive PDU decoders -/
section Pdus
open CfdpHeader FileDirective Lv Tlv

theorem Ack.unpack_raises (d : Bytes) : ErrIn [.value, .cfdpVersion, .crc, .index, .struct] (Ack.Ack.unpack d) := by
  unfold Ack.Ack.unpack; errin! [FileDirective.unpack_raises _, FileDirective.verify_raises _ _]
theorem Prompt.unpack_raises (d : Bytes) :
    ErrIn [.value, .cfdpVersion, .crc, .index, .struct] (Prompt.Prompt.unpack d) := by
  unfold Prompt.Prompt.unpack; errin! [FileDirective.unpack_raises _, FileDirective.verify_raises _ _]
theorem KeepAlive.unpack_raises (d : Bytes) :
    ErrIn [.value, .cfdpVersion, .crc, .index, .struct] (KeepAlive.KeepAlive.unpack d) := by
  unfold KeepAlive.KeepAlive.unpack; errin! [FileDirective.unpack_raises _, FileDirective.verify_raises _ _]

theorem Nak.calcLen_raises (fd : FileDirective) (n : Nat) : ErrIn [.value] (Nak.calcLen fd n) := by
  unfold Nak.calcLen; errin [FileDirective.setParamLen_raises _ _]
theorem Nak.parseSegs_raises (large : Bool) (d : Bytes) : ErrIn [.struct] (Nak.parseSegs large d) := by
  fun_induction Nak.parseSegs large d with
  | case1 => errin []
  | case2 d h w ih => errin! [ih]
theorem Nak.unpack_raises (d : Bytes) : ErrIn [.value, .cfdpVersion, .crc, .index, .struct] (Nak.Nak.unpack d) := by
  unfold Nak.Nak.unpack
  errin! [FileDirective.unpack_raises _, FileDirective.verify_raises _ _, Nak.parseSegs_raises _ _,
    Nak.calcLen_raises _ _]

theorem Eof.calcLen_raises (fd : FileDirective) (fl : Option EntityIdTlv) : ErrIn [.value] (Eof.calcLen fd fl) := by
  unfold Eof.calcLen; errin [FileDirective.setParamLen_raises _ _]
theorem Eof.unpack_raises (d : Bytes) :
    ErrIn [.value, .cfdpVersion, .crc, .tlvType, .index, .struct] (Eof.Eof.unpack d) := by
  unfold Eof.Eof.unpack
  errin! [FileDirective.unpack_raises _, FileDirective.verify_raises _ _, FileDirective.parseFss_raises _ _ _,
    EntityIdTlv.unpack_raises _, Eof.calcLen_raises _ _]

theorem Finished.calcLen_raises (fd : FileDirective) (c : Int) (rs : List FileStoreResponseTlv)
    (fl : Option EntityIdTlv) : ErrIn [.value] (Finished.calcLen fd c rs fl) := by
  unfold Finished.calcLen; errin [FileDirective.setParamLen_raises _ _]
theorem Finished.unpackTlvs_raises (might : Bool) (d : Bytes) :
    ErrIn [.value, .tlvType, .index] (Finished.unpackTlvs might d) := by
  fun_induction Finished.unpackTlvs might d <;>
    errin! [FileStoreResponseTlv.unpack_raises _, EntityIdTlv.unpack_raises _]
theorem Finished.unpack_raises (d : Bytes) :
    ErrIn [.value, .cfdpVersion, .crc, .tlvType, .index, .struct] (Finished.Finished.unpack d) := by
  unfold Finished.Finished.unpack
  errin! [FileDirective.unpack_raises _, FileDirective.verify_raises _ _, Finished.unpackTlvs_raises _ _,
    Finished.calcLen_raises _ _ _ _]

theorem Metadata.parseOptions_raises (d : Bytes) : ErrIn [.value, .index] (Metadata.parseOptions d) := by
  fun_induction Metadata.parseOptions d <;> errin! [CfdpTlv.unpack_raises _]
theorem Metadata.unpack_raises (d : Bytes) :
    ErrIn [.value, .cfdpVersion, .crc, .index, .struct] (Metadata.Metadata.unpack d) := by
  unfold Metadata.Metadata.unpack
  errin! [FileDirective.unpack_raises _, FileDirective.verify_raises _ _, FileDirective.parseFss_raises _ _ _,
    CfdpLv.unpack_raises _, Metadata.parseOptions_raises _]
end Pdus

/-! ## factory inspectors, reserved CFDP messages -/
section FactoryReserved
open CfdpHeader Lv Tlv Factory MsgToUser ByteField

theorem pduType_raises (d : Bytes) : ErrIn [.value, .index] (Factory.pduType d) := by
  unfold Factory.pduType; errin! []
theorem isFileDirective_raises (d : Bytes) : ErrIn [.value, .index] (isFileDirective d) := by
  unfold isFileDirective; errin [pduType_raises _]
theorem pduDirectiveType_raises (d : Bytes) : ErrIn [.value, .index] (pduDirectiveType d) := by
  unfold pduDirectiveType; errin! [isFileDirective_raises _, headerLenFromRaw_raises _]

theorem ReservedCfdpMessage.new_raises (t : Int) (v : Bytes) : ErrIn [.value] (ReservedCfdpMessage.new t v) := by
  unfold ReservedCfdpMessage.new; errin! [CfdpTlv.new_raises _ _]
theorem toReservedMsgTlv_raises (m : MessageToUserTlv) : ErrIn [.value, .index] (toReservedMsgTlv m) := by
  unfold toReservedMsgTlv; errin! [ReservedCfdpMessage.new_raises _ _]
theorem ReservedCfdpMessage.msgType_raises (r : ReservedCfdpMessage) : ErrIn [.index] r.msgType :=
  idx_raises _ _
theorem ReservedCfdpMessage.getOriginatingTransactionId_raises (r : ReservedCfdpMessage) :
    ErrIn [.value, .index, .struct] r.getOriginatingTransactionId := by
  unfold ReservedCfdpMessage.getOriginatingTransactionId
  errin! [ReservedCfdpMessage.msgType_raises _, fromBytes_raises _]
theorem ReservedCfdpMessage.getProxyPutRequestParams_raises (r : ReservedCfdpMessage) :
    ErrIn [.value, .index, .struct] r.getProxyPutRequestParams := by
  unfold ReservedCfdpMessage.getProxyPutRequestParams
  errin! [ReservedCfdpMessage.msgType_raises _, fromBytes_raises _, CfdpLv.unpack_raises _]
theorem ReservedCfdpMessage.getProxyPutResponseParams_raises (r : ReservedCfdpMessage) :
    ErrIn [.value, .index] r.getProxyPutResponseParams := by
  unfold ReservedCfdpMessage.getProxyPutResponseParams; errin! [ReservedCfdpMessage.msgType_raises _]
theorem ReservedCfdpMessage.getProxyClosureRequested_raises (r : ReservedCfdpMessage) :
    ErrIn [.value, .index] r.getProxyClosureRequested := by
  unfold ReservedCfdpMessage.getProxyClosureRequested; errin! [ReservedCfdpMessage.msgType_raises _]
theorem ReservedCfdpMessage.getProxyTransmissionMode_raises (r : ReservedCfdpMessage) :
    ErrIn [.value, .index] r.getProxyTransmissionMode := by
  unfold ReservedCfdpMessage.getProxyTransmissionMode; errin! [ReservedCfdpMessage.msgType_raises _]
theorem ReservedCfdpMessage.getDirListingRequestParams_raises (r : ReservedCfdpMessage) :
    ErrIn [.value, .index] r.getDirListingRequestParams := by
  unfold ReservedCfdpMessage.getDirListingRequestParams
  errin! [ReservedCfdpMessage.msgType_raises _, CfdpLv.unpack_raises _]
theorem ReservedCfdpMessage.getDirListingResponseParams_raises (r : ReservedCfdpMessage) :
    ErrIn [.value, .index] r.getDirListingResponseParams := by
  unfold ReservedCfdpMessage.getDirListingResponseParams
  errin! [ReservedCfdpMessage.msgType_raises _, CfdpLv.unpack_raises _]
theorem ReservedCfdpMessage.getDirListingOptions_raises (r : ReservedCfdpMessage) :
    ErrIn [.value, .index] r.getDirListingOptions := by
  unfold ReservedCfdpMessage.getDirListingOptions; errin! [ReservedCfdpMessage.msgType_raises _]

/-- File Data PDU: the owner's exact error lemma (`Proofs/FileData.lean`) -/
theorem FileData.unpack_raises (d : Bytes) : ErrIn [.value, .cfdpVersion, .crc] (FileData.Pdu.unpack d) := by
  intro e he
  rcases FileData.unpack_error d e he with rfl | rfl | rfl <;> simp

theorem decoderOf_raises (k : Factory.Kind) (d : Bytes) :
    ErrIn [.value, .cfdpVersion, .crc, .tlvType, .index, .struct] (decoderOf k d) := by
  cases k <;> unfold decoderOf <;>
    errin [FileData.unpack_raises _, Ack.unpack_raises _, Nak.unpack_raises _, Prompt.unpack_raises _,
      KeepAlive.unpack_raises _, Eof.unpack_raises _, Finished.unpack_raises _, Metadata.unpack_raises _]
theorem decodeAs_raises (k : Factory.Kind) (d : Bytes) :
    ErrIn [.value, .cfdpVersion, .crc, .tlvType, .index, .struct] (decodeAs k d) := by
  unfold decodeAs; errin [decoderOf_raises _ _]
theorem dispatch_raises (dir : Option Nat) (d : Bytes) :
    ErrIn [.value, .cfdpVersion, .crc, .tlvType, .index, .struct] (dispatch dir d) := by
  unfold dispatch; errin [decodeAs_raises _ _]
theorem fromRaw_raises (d : Bytes) :
    ErrIn [.value, .cfdpVersion, .crc, .tlvType, .index, .struct] (fromRaw d) := by
  unfold fromRaw; errin [isFileDirective_raises _, pduDirectiveType_raises _, decodeAs_raises _ _, dispatch_raises _ _]
end FactoryReserved

/-! ## USLP: the decoders have their own error type; `toPy` collapses it -/

theorem errIn_toPy {α : Type} {S : List Err} {x : Uslp.UPy α} (h : ∀ e, x = .error e → e.toErr ∈ S) :
    ErrIn S x.toPy := by
  intro e he
  cases x with
  | ok a => cases he
  | error e' => cases he; exact h e' rfl

end SpVerif
