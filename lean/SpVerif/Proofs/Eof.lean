import SpVerif.Model.Eof
import SpVerif.Proofs.FileDirective
import SpVerif.Proofs.Tlv
import SpVerif.Proofs.Nak
/-!
# Lemmas about the EOF PDU model (reused by C04 / C09 / C10 / C11 / C12)

Shared by the three TLV-carrying directive kinds (namespace `SpVerif.FileDirective`):
* `fd_eta`, `octetAt` / `idx_octetAt`, `bind_prelude_take` (a decoder of the form "prelude, then
  parameter parser" reads nothing but the declared PDU)

EOF (namespace `SpVerif.Eof`):
* `eofParamLen`, `calcLen_eq`, `calcLen_eq'`, `new_eq`, `setFaultLoc_eq` — constructor and setter
* `parse`, `unpack_eq` (prelude, then `parse`), `parse_eq` (complete case analysis),
  `parse_documented`, `unpack_documented`, `unpack_inv`, `unpack_take`
-/
namespace SpVerif.FileDirective
open SpVerif SpVerif.CfdpHeader

theorem fd_eta (fd : FileDirective) (n : Nat) (h : fd.header.dataFieldLen = n) :
    ({ fd with header := { fd.header with dataFieldLen := n } } : FileDirective) = fd := by
  cases fd with
  | mk hd c => cases hd; simp_all

/-- the octet at index `i` (0 when out of range; only used under a length guard) -/
def octetAt (p : Bytes) (i : Nat) : Nat := (p[i]?.getD 0).toNat

theorem idx_octetAt {p : Bytes} {i : Nat} (h : i < p.length) : idx p i = .ok (octetAt p i) := by
  simp [idx_ok h, octetAt, List.getElem?_eq_getElem h]

theorem octetAt_lt (p : Bytes) (i : Nat) : octetAt p i < 256 := toNat_lt _

/-- **a decoder "prelude, then parameter parser" reads nothing but the declared PDU** -/
theorem bind_prelude_take {α : Type} (f : FileDirective × Bytes → Py α) (d : Bytes) (a : α)
    (h : (prelude d >>= f) = .ok a) :
    ∃ fd p, prelude d = .ok (fd, p) ∧ f (fd, p) = .ok a ∧ fd.packetLen ≤ d.length ∧
      (fd.header.conf.crcFlag = 1 → Crc.crc16 (d.take fd.packetLen) = 0) ∧
      (1 ≤ fd.header.dataFieldLen → ∀ rest, (prelude (d.take fd.packetLen ++ rest) >>= f) = .ok a) := by
  obtain ⟨fd, p, hp, hf⟩ := bind_prelude_inv f d a h
  obtain ⟨_, _, h3, h4, _⟩ := (prelude_ok_iff d fd p).mp hp
  refine ⟨fd, p, hp, hf, h3, h4, ?_⟩
  intro h1 rest
  rw [prelude_take d fd p hp h1 rest]
  exact hf

theorem setParamLen_documented (fd : FileDirective) (n : Nat) : Documented (fd.setParamLen n) := by
  rw [setParamLen_eq]
  split
  · exact Documented.err rfl
  · exact Documented.ok _

end SpVerif.FileDirective

namespace SpVerif.Eof
open SpVerif SpVerif.CfdpHeader SpVerif.FileDirective SpVerif.Tlv

/-- octets a fault location adds -/
def faultLen : Option EntityIdTlv → Nat
  | some t => t.packetLen
  | none => 0

/-- directive-parameter length of an EOF PDU -/
def eofParamLen (fileFlag crcFlag : Nat) (fl : Option EntityIdTlv) : Nat :=
  5 + fssWidth fileFlag + faultLen fl + (if crcFlag = 1 then 2 else 0)

theorem calcLen_eq (fd : FileDirective) (fl : Option EntityIdTlv) :
    calcLen fd fl = fd.setParamLen (eofParamLen fd.header.conf.fileFlag fd.header.conf.crcFlag fl) := by
  unfold calcLen eofParamLen fssWidth PduHeader.largeFileFlagSet faultLen
  cases fl <;> by_cases hf : fd.header.conf.fileFlag = 1 <;> by_cases hc : fd.header.conf.crcFlag = 1 <;>
    simp only [hf, hc, ↓reduceIte, decide_true, decide_false, Bool.false_eq_true] <;> congr 1 <;> omega

theorem calcLen_eq' (fd : FileDirective) (fl : Option EntityIdTlv) :
    calcLen fd fl =
      if 65535 < eofParamLen fd.header.conf.fileFlag fd.header.conf.crcFlag fl + 1 then .error .value
      else .ok { fd with header := { fd.header with
        dataFieldLen := eofParamLen fd.header.conf.fileFlag fd.header.conf.crcFlag fl + 1 } } := by
  rw [calcLen_eq, setParamLen_eq]

theorem calcLen_documented (fd : FileDirective) (fl : Option EntityIdTlv) : Documented (calcLen fd fl) := by
  rw [calcLen_eq]; exact setParamLen_documented _ _

/-- **complete case analysis of the constructor** -/
theorem new_eq (c : PduConfig) (cs : Bytes) (size : Int) (fl : Option EntityIdTlv) (cond : Int) :
    Eof.new c cs size fl cond =
      if cs.length ≠ 4 then .error .value
      else if c.source.width ≠ c.dest.width ∨ 65535 < eofParamLen c.fileFlag c.crcFlag fl + 1 then .error .value
      else .ok ⟨⟨⟨0, 0, eofParamLen c.fileFlag c.crcFlag fl + 1, { c with direction := 0 }⟩, 4⟩,
                cond, cs, size, fl⟩ := by
  unfold Eof.new
  simp only [DIR_EOF]
  by_cases h1 : cs.length ≠ 4
  · simp [h1, throw, throwThe, MonadExceptOf.throw, bind, Except.bind]
  · rw [FileDirective.new_eq]
    simp only [h1, ↓reduceIte, bind, Except.bind, pure, Except.pure]
    by_cases h2 : c.source.width = c.dest.width
    · have g : ¬ (65535 < 0 + 1 ∨ c.source.width ≠ c.dest.width) := by omega
      rw [if_neg g]
      simp only []
      rw [calcLen_eq']
      by_cases h3 : 65535 < eofParamLen c.fileFlag c.crcFlag fl + 1
      · rw [if_pos (Or.inr h3)]
        simp only [h3, ↓reduceIte]
      · have g' : ¬ (c.source.width ≠ c.dest.width ∨ 65535 < eofParamLen c.fileFlag c.crcFlag fl + 1) := by
          omega
        rw [if_neg g']
        simp only [h3, ↓reduceIte]
    · have g : (65535 < 0 + 1 ∨ c.source.width ≠ c.dest.width) := Or.inr h2
      rw [if_pos g, if_pos (Or.inl h2)]

/-- the `fault_location` setter -/
theorem setFaultLoc_eq (k : Eof) (fl : Option EntityIdTlv) :
    k.setFaultLoc fl =
      if 65535 < eofParamLen k.fd.header.conf.fileFlag k.fd.header.conf.crcFlag fl + 1 then .error .value
      else .ok { k with faultLoc := fl, fd := { k.fd with header := { k.fd.header with
        dataFieldLen := eofParamLen k.fd.header.conf.fileFlag k.fd.header.conf.crcFlag fl + 1 } } } := by
  unfold Eof.setFaultLoc
  rw [calcLen_eq']
  split <;> rfl

/-! ## the decoder -/

/-- the parameter parser on the base object and the cut buffer the prelude returns -/
def parse (r : FileDirective × Bytes) : Py Eof := do
  let fd := r.1
  let data := r.2
  if fd.headerLen + 9 > data.length then throw .value
  let i := fd.headerLen
  let b ← idx data i
  let checksum := slice data (i + 1) (i + 5)
  let (j, size) ← fd.parseFss data (i + 5)
  if data.length > j then
    let fl ← EntityIdTlv.unpack (data.drop j)
    let fd ← calcLen fd (some fl)
    pure ⟨fd, ((b / 16 % 16 : Nat) : Int), checksum, (size : Int), some fl⟩
  else
    pure ⟨fd, ((b / 16 % 16 : Nat) : Int), checksum, (size : Int), none⟩

theorem unpack_eq (d : Bytes) : Eof.unpack d = prelude d >>= parse := by
  unfold Eof.unpack prelude parse
  cases FileDirective.unpack d with
  | error e => rfl
  | ok fd =>
    cases hv : fd.verify d with
    | error e => simp [hv, bind, Except.bind]
    | ok n => simp [hv, bind, Except.bind, pure, Except.pure]

/-- index just behind the fixed parameters (condition code, checksum, file size) -/
def fixedEnd (fd : FileDirective) : Nat := fd.headerLen + 5 + fssWidth fd.header.conf.fileFlag

/-- condition code, checksum and file size as read from the cut buffer -/
def condOf (fd : FileDirective) (p : Bytes) : Int := ((octetAt p fd.headerLen / 16 % 16 : Nat) : Int)
def checksumOf (fd : FileDirective) (p : Bytes) : Bytes := slice p (fd.headerLen + 1) (fd.headerLen + 5)
def sizeOf (fd : FileDirective) (p : Bytes) : Int :=
  ((beNat (slice p (fd.headerLen + 5) (fixedEnd fd)) : Nat) : Int)

/-- **complete case analysis of the parameter parser** -/
theorem parse_eq (fd : FileDirective) (p : Bytes) :
    parse (fd, p) =
      if p.length < fixedEnd fd then .error .value
      else if p.length = fixedEnd fd then .ok ⟨fd, condOf fd p, checksumOf fd p, sizeOf fd p, none⟩
      else EntityIdTlv.unpack (p.drop (fixedEnd fd)) >>= fun fl =>
        calcLen fd (some fl) >>= fun fd' => .ok ⟨fd', condOf fd p, checksumOf fd p, sizeOf fd p, some fl⟩ := by
  unfold parse fixedEnd
  have hw := Nak.fssWidth_pos fd.header.conf.fileFlag
  simp only []
  by_cases h1 : fd.headerLen + 9 > p.length
  · have : p.length < fd.headerLen + 5 + fssWidth fd.header.conf.fileFlag := by omega
    simp [h1, this, throw, throwThe, MonadExceptOf.throw, bind, Except.bind]
  · have hi : fd.headerLen < p.length := by omega
    simp only [h1, ↓reduceIte, bind, Except.bind, idx_octetAt hi]
    rw [parseFss_eq]
    by_cases h2 : p.length < fd.headerLen + 5 + fssWidth fd.header.conf.fileFlag
    · rw [if_pos h2, if_pos h2]
    · rw [if_neg h2, if_neg h2]
      simp only [condOf, checksumOf, sizeOf, fixedEnd]
      by_cases h3 : p.length = fd.headerLen + 5 + fssWidth fd.header.conf.fileFlag
      · have : ¬ p.length > fd.headerLen + 5 + fssWidth fd.header.conf.fileFlag := by omega
        rw [if_pos h3]
        simp only [this, ↓reduceIte, pure, Except.pure]
      · have : p.length > fd.headerLen + 5 + fssWidth fd.header.conf.fileFlag := by omega
        rw [if_neg h3]
        simp only [this, ↓reduceIte, pure, Except.pure]

theorem parse_documented (r : FileDirective × Bytes) : Documented (parse r) := by
  obtain ⟨fd, p⟩ := r
  rw [parse_eq]
  split
  · exact Documented.err rfl
  · split
    · exact Documented.ok _
    · apply Documented.bind (EntityIdTlv.unpack_documented _)
      intro fl _
      apply Documented.bind (calcLen_documented fd (some fl))
      intro fd' _
      exact Documented.ok _

/-- the decoder fails, on any octet string whatever, only with `ValueError`,
    `UnsupportedCfdpVersion`, `InvalidCrc` or `TlvTypeMissmatch` (never `IndexError` / `struct.error`) -/
theorem unpack_documented (d : Bytes) : Documented (Eof.unpack d) := by
  rw [unpack_eq]; exact bind_prelude_documented parse parse_documented d

/-- what the parser returns: the decoded base object except for a recomputed data-field length -/
theorem parse_fd (fd : FileDirective) (p : Bytes) (a : Eof) (h : parse (fd, p) = .ok a) :
    fixedEnd fd ≤ p.length ∧ a.fd.code = fd.code ∧ a.fd.header.conf = fd.header.conf ∧
    a.fd.header.pduType = fd.header.pduType ∧ a.fd.header.segMeta = fd.header.segMeta ∧
    (a.faultLoc = none → a.fd = fd ∧ p.length = fixedEnd fd) ∧
    (∀ t, a.faultLoc = some t →
      EntityIdTlv.unpack (p.drop (fixedEnd fd)) = .ok t ∧
      a.fd.header.dataFieldLen = eofParamLen fd.header.conf.fileFlag fd.header.conf.crcFlag (some t) + 1) := by
  rw [parse_eq] at h
  split at h
  · cases h
  · rename_i h1
    split at h
    · rename_i h2
      cases h
      exact ⟨by omega, rfl, rfl, rfl, rfl, fun _ => ⟨rfl, h2⟩, fun t ht => by cases ht⟩
    · cases hu : EntityIdTlv.unpack (p.drop (fixedEnd fd)) with
      | error e => rw [hu] at h; cases h
      | ok fl =>
        rw [hu, bind_ok, calcLen_eq'] at h
        split at h
        · cases h
        · cases h
          refine ⟨by omega, rfl, rfl, rfl, rfl, ?_, ?_⟩
          · intro hn; cases hn
          · intro t ht
            cases ht
            exact ⟨rfl, rfl⟩

/-- **inversion**: an accepted buffer holds the whole declared PDU (CRC-16 zero when flagged) and
    the fixed parameters inside the declared parameter field -/
theorem unpack_inv (d : Bytes) (a : Eof) (h : Eof.unpack d = .ok a) :
    ∃ fd p, prelude d = .ok (fd, p) ∧ parse (fd, p) = .ok a ∧ fd.packetLen ≤ d.length ∧
      (fd.header.conf.crcFlag = 1 → Crc.crc16 (d.take fd.packetLen) = 0) ∧
      a.packetLen ≤ fd.packetLen ∧ 10 ≤ fd.header.dataFieldLen := by
  rw [unpack_eq] at h
  obtain ⟨fd, p, hp, hf, h3, h4, _⟩ := bind_prelude_take parse d a h
  obtain ⟨_, _, hlen, hpe, _, _⟩ := prelude_facts d fd p hp
  obtain ⟨g1, _, gc, _, _, gn, gs⟩ := parse_fd fd p a hf
  have hw := Nak.fssWidth_pos fd.header.conf.fileFlag
  have hpl : fd.packetLen = fd.header.dataFieldLen + fd.header.headerLen := rfl
  have hhl : fd.headerLen = fd.header.headerLen + 1 := rfl
  have hfe : fixedEnd fd = fd.headerLen + 5 + fssWidth fd.header.conf.fileFlag := rfl
  refine ⟨fd, p, hp, hf, h3, h4, ?_, by omega⟩
  cases hfl : a.faultLoc with
  | none => rw [show a.packetLen = a.fd.packetLen from rfl, (gn hfl).1]; exact Nat.le_refl _
  | some t =>
    obtain ⟨hu, hdl⟩ := gs t hfl
    have hsp := CfdpTlv.unpack_spec (p.drop (fixedEnd fd))
    rw [EntityIdTlv.unpack_bind] at hu
    cases hg : CfdpTlv.unpack (p.drop (fixedEnd fd)) with
    | error e => rw [hg] at hu; cases hu
    | ok g =>
      rw [hg, bind_ok, EntityIdTlv.fromTlv_eq] at hu
      split at hu
      · cases hu
        obtain ⟨_, _, hle, _⟩ := hsp g hg
        simp only [List.length_drop] at hle
        have hpe2 := Nak.paramsEnd_eq fd
        have hal : a.packetLen = a.fd.header.dataFieldLen + a.fd.header.headerLen := rfl
        have hhh : a.fd.header.headerLen = fd.header.headerLen := by
          unfold PduHeader.headerLen; rw [gc]
        rw [hal, hdl, hhh]
        simp only [eofParamLen, faultLen, EntityIdTlv.packetLen]
        generalize (if fd.header.conf.crcFlag = 1 then 2 else 0) = c2 at hpe2 ⊢
        omega
      · cases hu

/-- **only the declared PDU matters**: an accepted buffer decodes to the same PDU when it is cut
    to the declared length and followed by anything else -/
theorem unpack_take (d : Bytes) (a : Eof) (h : Eof.unpack d = .ok a) :
    ∃ fd p, prelude d = .ok (fd, p) ∧ ∀ rest, Eof.unpack (d.take fd.packetLen ++ rest) = .ok a := by
  obtain ⟨fd, p, hp, hf, _, _, _, h10⟩ := unpack_inv d a h
  refine ⟨fd, p, hp, fun rest => ?_⟩
  rw [unpack_eq, prelude_take d fd p hp (by omega) rest]
  exact hf

end SpVerif.Eof
