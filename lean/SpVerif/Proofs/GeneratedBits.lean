import SpVerif.Generated.Bits
import SpVerif.Props.C01
import SpVerif.Model.CfdpHeader
import SpVerif.Model.PusTc
import SpVerif.Model.PusTm
import SpVerif.Model.UslpHeader
import SpVerif.Model.UslpFrame
import SpVerif.Model.Ack
import SpVerif.Model.Eof
import SpVerif.Model.Finished
import SpVerif.Model.Metadata
import SpVerif.Model.Prompt
import SpVerif.Model.FileData
import SpVerif.Model.Tlv
import SpVerif.Model.Srv1
import SpVerif.Model.Cds
import SpVerif.Model.SeqCount
import SpVerif.Model.ByteField
/-!
# The shift-and-mask expressions of the Python source equal the arithmetic of the models

`SpVerif/Generated/Bits.lean` is produced by `tools/pyexpr2lean.py` from the text of the package
under verification: one `Nat` definition per located integer expression (`<<<`, `>>>`, `&&&`, `|||`
exactly as the source writes them). For every generated definition `X` this file proves
`Generated.X_eq`: under the range hypotheses of the model's domain, `X` equals the corresponding
arithmetic-normal-form term of the hand-written model (`* 2^k`, `/ 2^k`, `% 2^k`), stated against
the model's own definitions where it has one (`pidRaw`, `pscRaw`, `idBytes`, `statusToInt`, …) and
against the arithmetic the model inlines otherwise (copied verbatim, with the place named). The
`*_model` lemmas then re-express whole model functions through the generated definitions.

A changed shift distance or mask in the source changes the generated text, and the theorem about
that expression no longer checks (the harness rebuilds this file against the regenerated text).

Technique: `Nat.shiftLeft_eq`, `Nat.shiftRight_eq_div_pow`, `x &&& (2^n - 1) * 2^k = x / 2^k % 2^n * 2^k`
(by `Nat.testBit` extensionality), `X ||| b = X + b` for `2^i ∣ X`, `b < 2^i`
(`Nat.two_pow_add_eq_or_of_lt`; innermost `|||` first, side goals by `omega`), then `omega`.
Core Lean only; no enumeration of cases.
-/
set_option linter.unusedSimpArgs false
set_option linter.unusedVariables false

namespace SpVerif.Generated
open SpVerif

/-! ## toolkit -/

theorem or_add (i X b : Nat) (hX : X % 2 ^ i = 0) (hb : b < 2 ^ i) : X ||| b = X + b := by
  have h : X = 2 ^ i * (X / 2 ^ i) := by
    have := Nat.div_add_mod X (2 ^ i); omega
  rw [h, ← Nat.two_pow_add_eq_or_of_lt hb]

/-- a mask of `n` ones starting at bit `k` -/
theorem and_shifted_mask (x k n : Nat) : x &&& ((2 ^ n - 1) * 2 ^ k) = x / 2 ^ k % 2 ^ n * 2 ^ k := by
  apply Nat.eq_of_testBit_eq
  intro i
  rw [Nat.testBit_and, Nat.testBit_mul_two_pow, Nat.testBit_mul_two_pow, Nat.testBit_two_pow_sub_one,
    Nat.testBit_mod_two_pow, Nat.testBit_div_two_pow]
  by_cases h : k ≤ i
  · have : i - k + k = i := by omega
    simp [h, this, Bool.and_comm]
  · simp [h]

theorem or_add_1 (X b : Nat) (hX : X % 2 = 0) (hb : b < 2) : X ||| b = X + b := or_add 1 X b hX hb
theorem or_add_2 (X b : Nat) (hX : X % 4 = 0) (hb : b < 4) : X ||| b = X + b := or_add 2 X b hX hb
theorem or_add_3 (X b : Nat) (hX : X % 8 = 0) (hb : b < 8) : X ||| b = X + b := or_add 3 X b hX hb
theorem or_add_4 (X b : Nat) (hX : X % 16 = 0) (hb : b < 16) : X ||| b = X + b := or_add 4 X b hX hb
theorem or_add_5 (X b : Nat) (hX : X % 32 = 0) (hb : b < 32) : X ||| b = X + b := or_add 5 X b hX hb
theorem or_add_6 (X b : Nat) (hX : X % 64 = 0) (hb : b < 64) : X ||| b = X + b := or_add 6 X b hX hb
theorem or_add_7 (X b : Nat) (hX : X % 128 = 0) (hb : b < 128) : X ||| b = X + b := or_add 7 X b hX hb
theorem or_add_8 (X b : Nat) (hX : X % 256 = 0) (hb : b < 256) : X ||| b = X + b := or_add 8 X b hX hb
theorem or_add_11 (X b : Nat) (hX : X % 2048 = 0) (hb : b < 2048) : X ||| b = X + b := or_add 11 X b hX hb
theorem or_add_12 (X b : Nat) (hX : X % 4096 = 0) (hb : b < 4096) : X ||| b = X + b := or_add 12 X b hX hb
theorem or_add_13 (X b : Nat) (hX : X % 8192 = 0) (hb : b < 8192) : X ||| b = X + b := or_add 13 X b hX hb
theorem or_add_14 (X b : Nat) (hX : X % 16384 = 0) (hb : b < 16384) : X ||| b = X + b := or_add 14 X b hX hb
theorem or_add_16 (X b : Nat) (hX : X % 65536 = 0) (hb : b < 65536) : X ||| b = X + b := or_add 16 X b hX hb

theorem and_0x01 (x : Nat) : x &&& 0x01 = x % 2 := Nat.and_two_pow_sub_one_eq_mod x 1
theorem and_0x03 (x : Nat) : x &&& 0x03 = x % 4 := Nat.and_two_pow_sub_one_eq_mod x 2
theorem and_0x07 (x : Nat) : x &&& 0x07 = x % 8 := Nat.and_two_pow_sub_one_eq_mod x 3
theorem and_0x0F (x : Nat) : x &&& 0x0F = x % 16 := Nat.and_two_pow_sub_one_eq_mod x 4
theorem and_0x1F (x : Nat) : x &&& 0x1F = x % 32 := Nat.and_two_pow_sub_one_eq_mod x 5
theorem and_0x3F (x : Nat) : x &&& 0x3F = x % 64 := Nat.and_two_pow_sub_one_eq_mod x 6
theorem and_0xFF (x : Nat) : x &&& 0xFF = x % 256 := Nat.and_two_pow_sub_one_eq_mod x 8
theorem and_0x7FF (x : Nat) : x &&& 0x7FF = x % 2048 := Nat.and_two_pow_sub_one_eq_mod x 11
theorem and_0x02 (x : Nat) : x &&& 0x02 = x / 2 % 2 * 2 := and_shifted_mask x 1 1
theorem and_0x04 (x : Nat) : x &&& 0x04 = x / 4 % 2 * 4 := and_shifted_mask x 2 1
theorem and_0x08 (x : Nat) : x &&& 0x08 = x / 8 % 2 * 8 := and_shifted_mask x 3 1
theorem and_0x10 (x : Nat) : x &&& 0x10 = x / 16 % 2 * 16 := and_shifted_mask x 4 1
theorem and_0x40 (x : Nat) : x &&& 0x40 = x / 64 % 2 * 64 := and_shifted_mask x 6 1
theorem and_0x80 (x : Nat) : x &&& 0x80 = x / 128 % 2 * 128 := and_shifted_mask x 7 1
theorem and_0xC0 (x : Nat) : x &&& 0xC0 = x / 64 % 4 * 64 := and_shifted_mask x 6 2
theorem and_0xE0 (x : Nat) : x &&& 0xE0 = x / 32 % 8 * 32 := and_shifted_mask x 5 3
theorem and_0xF0 (x : Nat) : x &&& 0xF0 = x / 16 % 16 * 16 := and_shifted_mask x 4 4
theorem and_0x700 (x : Nat) : x &&& 0x700 = x / 256 % 8 * 256 := and_shifted_mask x 8 3
theorem and_0xC000 (x : Nat) : x &&& 0xC000 = x / 16384 % 4 * 16384 := and_shifted_mask x 14 2

/-- shifts to `* 2^k` / `/ 2^k`, masks to `%` -/
macro "bits_norm" : tactic => `(tactic|
  simp only [andNot, Nat.shiftLeft_eq, Nat.shiftRight_eq_div_pow, Nat.reducePow, Nat.reduceMul,
    and_0x01, and_0x03, and_0x07, and_0x0F, and_0x1F, and_0x3F, and_0xFF, and_0x7FF, and_0x02, and_0x04, and_0x08,
    and_0x10, and_0x40, and_0x80, and_0xC0, and_0xE0, and_0xF0, and_0x700, and_0xC000])
/-- `|||` of disjoint bit ranges to `+`, innermost first -/
macro "bits_or" : tactic => `(tactic|
  simp (disch := omega) only [or_add_1, or_add_2, or_add_3, or_add_4, or_add_5, or_add_6, or_add_7, or_add_8,
    or_add_11, or_add_12, or_add_13, or_add_14, or_add_16])
macro "bits" : tactic => `(tactic| ((try bits_norm); (try bits_or); (try omega)))

theorem b2n_lt (b : Bool) : Uslp.b2n b < 2 := by cases b <;> decide

/-! ## CCSDS space packet primary header (`spacepackets/ccsds/spacepacket.py`, C01) -/
section C01
open SpVerif.SpacePacket

theorem packetSeqCtrl_raw_eq (f c : Nat) (hc : c < 16384) : packetSeqCtrl_raw f c = pscRaw f c := by
  unfold packetSeqCtrl_raw pscRaw; bits
theorem packetSeqCtrl_from_raw_seq_flags_eq (raw : Nat) : packetSeqCtrl_from_raw_seq_flags raw = raw / 16384 % 4 := by
  unfold packetSeqCtrl_from_raw_seq_flags; bits
/-- right-hand side: the count argument of `Psc.fromRaw` (bits above bit 15 are kept by `& ~0xC000`) -/
theorem packetSeqCtrl_from_raw_seq_count_eq (raw : Nat) :
    packetSeqCtrl_from_raw_seq_count raw = raw / 65536 * 65536 + raw % 16384 := by
  unfold packetSeqCtrl_from_raw_seq_count; bits
theorem packetId_raw_eq (t s a : Nat) (hs : s < 2) (ha : a < 2048) : packetId_raw t s a = pidRaw t s a := by
  unfold packetId_raw pidRaw; bits
theorem packetId_from_raw_ptype_eq (raw : Nat) : packetId_from_raw_ptype raw = raw / 4096 % 2 := by
  unfold packetId_from_raw_ptype; bits
theorem packetId_from_raw_sec_header_flag_eq (raw : Nat) : packetId_from_raw_sec_header_flag raw = raw / 2048 % 2 := by
  unfold packetId_from_raw_sec_header_flag; bits
theorem packetId_from_raw_apid_eq (raw : Nat) : packetId_from_raw_apid raw = raw % 2048 := by
  unfold packetId_from_raw_apid; bits
/-- right-hand side: the first word of `Sph.pack` -/
theorem sph_pack_word0_eq (v t s a : Nat) (ht : t < 2) (hs : s < 2) (ha : a < 2048) :
    sph_pack_word0 v t s a = v * 8192 + pidRaw t s a := by
  unfold sph_pack_word0; rw [packetId_raw_eq t s a hs ha]; unfold pidRaw; bits
theorem sph_pack_word1_eq (f c : Nat) (hc : c < 16384) : sph_pack_word1 f c = pscRaw f c := by
  unfold sph_pack_word1; exact packetSeqCtrl_raw_eq f c hc
theorem sph_pack_word2_eq (d : Nat) : sph_pack_word2 d = d := rfl
/-- right-hand sides of the six extractions: the arguments of `Sph.new` in `Sph.unpack` -/
theorem sph_unpack_version_eq (d0 : Nat) : sph_unpack_version d0 = d0 / 32 % 8 := by
  unfold sph_unpack_version; bits
theorem sph_unpack_ptype_eq (d0 : Nat) : sph_unpack_ptype d0 = d0 / 16 % 2 := by
  unfold sph_unpack_ptype; bits
theorem sph_unpack_sec_header_flag_eq (d0 : Nat) : sph_unpack_sec_header_flag d0 = d0 / 8 % 2 := by
  unfold sph_unpack_sec_header_flag; bits
theorem sph_unpack_apid_eq (d0 d1 : Nat) (h1 : d1 < 256) : sph_unpack_apid d0 d1 = d0 % 8 * 256 + d1 := by
  unfold sph_unpack_apid; bits
theorem sph_unpack_seq_flags_eq (psc : Nat) (h : psc < 65536) : sph_unpack_seq_flags psc = psc / 16384 := by
  unfold sph_unpack_seq_flags; bits
theorem sph_unpack_seq_count_eq (psc : Nat) (h : psc < 65536) : sph_unpack_seq_count psc = psc % 16384 := by
  unfold sph_unpack_seq_count; bits
theorem idBytes_byte_one_eq (v t s a : Nat) : idBytes_byte_one v t s a = (idBytes v t s a).1 := by
  unfold idBytes_byte_one idBytes; bits
theorem idBytes_byte_two_eq (v t s a : Nat) : idBytes_byte_two a = (idBytes v t s a).2 := by
  unfold idBytes_byte_two idBytes; bits
/-- right-hand side: the result of `apidFromRaw` -/
theorem apid_from_raw_space_packet_eq (d0 d1 : Nat) (h1 : d1 < 256) :
    apid_from_raw_space_packet d0 d1 = d0 % 8 * 256 + d1 := by
  unfold apid_from_raw_space_packet; bits

/-- `PacketId.from_raw` of the model, through the translated extractions -/
theorem packetId_fromRaw_model (raw : Nat) :
    PacketId.fromRaw raw =
      ⟨packetId_from_raw_ptype raw, packetId_from_raw_sec_header_flag raw, packetId_from_raw_apid raw⟩ := by
  rw [packetId_from_raw_ptype_eq, packetId_from_raw_sec_header_flag_eq, packetId_from_raw_apid_eq]; rfl
/-- `PacketSeqCtrl.from_raw` of the model, through the translated extractions -/
theorem psc_fromRaw_model (raw : Nat) :
    Psc.fromRaw raw =
      Psc.new (packetSeqCtrl_from_raw_seq_flags raw) ((packetSeqCtrl_from_raw_seq_count raw : Nat) : Int) := by
  rw [packetSeqCtrl_from_raw_seq_flags_eq, packetSeqCtrl_from_raw_seq_count_eq]; rfl
/-- `SpacePacketHeader.pack` of the model packs exactly the three translated words -/
theorem sph_pack_model (h : Sph) (ht : h.ptype < 2) (hs : h.shf < 2) (ha : h.apid < 2048) (hc : h.count < 16384) :
    h.pack = (do
      let w0 ← packBE 2 (sph_pack_word0 h.version h.ptype h.shf h.apid)
      let w1 ← packBE 2 (sph_pack_word1 h.flags h.count)
      let w2 ← packBE 2 (sph_pack_word2 h.dlen)
      pure (w0 ++ w1 ++ w2)) := by
  rw [sph_pack_word0_eq _ _ _ _ ht hs ha, sph_pack_word1_eq _ _ hc, sph_pack_word2_eq]; rfl
/-- `SpacePacketHeader.unpack` of the model returns the translated extractions of the octets -/
theorem sph_unpack_model (d : Bytes) (h6 : 6 ≤ d.length) :
    Sph.unpack d = .ok ⟨sph_unpack_version d[0].toNat, sph_unpack_ptype d[0].toNat,
      sph_unpack_sec_header_flag d[0].toNat, sph_unpack_apid d[0].toNat d[1].toNat,
      sph_unpack_seq_flags (d[2].toNat * 256 + d[3].toNat), sph_unpack_seq_count (d[2].toNat * 256 + d[3].toNat),
      d[4].toNat * 256 + d[5].toNat⟩ := by
  have b0 := toNat_lt d[0]
  have b1 := toNat_lt d[1]
  have b2 := toNat_lt d[2]
  have b3 := toNat_lt d[3]
  rw [Props.C01.unpack_eq d h6, sph_unpack_version_eq, sph_unpack_ptype_eq, sph_unpack_sec_header_flag_eq,
    sph_unpack_apid_eq _ _ b1, sph_unpack_seq_flags_eq _ (by omega), sph_unpack_seq_count_eq _ (by omega)]
  congr 2 <;> omega
end C01

/-! ## CFDP fixed PDU header (`spacepackets/cfdp/pdu/header.py`, C05) -/
section C05
open SpVerif.CfdpHeader

/-- right-hand side: octet 0 of `PduHeader.pack` (`CFDP_VERSION_2 << 5` is the leading 32) -/
theorem pduHeader_pack_octet0_eq (t dir mode crc file : Nat) (ht : t < 2) (hd : dir < 2) (hm : mode < 2)
    (hc : crc < 2) (hf : file < 2) :
    pduHeader_pack_octet0 t dir mode crc file = 32 + t * 16 + dir * 8 + mode * 4 + crc * 2 + file := by
  unfold pduHeader_pack_octet0; bits
theorem pduHeader_pack_octet1_eq (len : Nat) : pduHeader_pack_octet1 len = len / 256 % 256 := by
  unfold pduHeader_pack_octet1; bits
theorem pduHeader_pack_octet2_eq (len : Nat) : pduHeader_pack_octet2 len = len % 256 := by
  unfold pduHeader_pack_octet2; bits
/-- right-hand side: octet 3 of `PduHeader.pack`; the widths are 1..8 (the model refuses width 0 before) -/
theorem pduHeader_pack_octet3_eq (seg idw smf seqw : Nat) (h1 : idw ≤ 8) (h2 : smf < 2) (h3 : seqw ≤ 8) :
    pduHeader_pack_octet3 seg idw smf seqw = seg * 128 + (idw - 1) * 16 + smf * 8 + (seqw - 1) := by
  unfold pduHeader_pack_octet3; bits
/-- right-hand sides of the extractions: the terms of `PduHeader.unpack` -/
theorem pduHeader_unpack_version_eq (d0 : Nat) : pduHeader_unpack_version d0 = d0 / 32 % 8 := by
  unfold pduHeader_unpack_version; bits
theorem pduHeader_unpack_pdu_type_eq (d0 : Nat) : pduHeader_unpack_pdu_type d0 = d0 / 16 % 2 := by
  unfold pduHeader_unpack_pdu_type; bits
theorem pduHeader_unpack_direction_eq (d0 : Nat) : pduHeader_unpack_direction d0 = d0 / 8 % 2 := by
  unfold pduHeader_unpack_direction; bits
theorem pduHeader_unpack_trans_mode_eq (d0 : Nat) : pduHeader_unpack_trans_mode d0 = d0 / 4 % 2 := by
  unfold pduHeader_unpack_trans_mode; bits
theorem pduHeader_unpack_crc_flag_eq (d0 : Nat) : pduHeader_unpack_crc_flag d0 = d0 / 2 % 2 := by
  unfold pduHeader_unpack_crc_flag; bits
theorem pduHeader_unpack_file_flag_eq (d0 : Nat) : pduHeader_unpack_file_flag d0 = d0 % 2 := by
  unfold pduHeader_unpack_file_flag; bits
theorem pduHeader_unpack_data_field_len_eq (d1 d2 : Nat) (h2 : d2 < 256) :
    pduHeader_unpack_data_field_len d1 d2 = d1 * 256 + d2 := by
  unfold pduHeader_unpack_data_field_len; bits
theorem pduHeader_unpack_seg_ctrl_eq (d3 : Nat) : pduHeader_unpack_seg_ctrl d3 = d3 / 128 % 2 := by
  unfold pduHeader_unpack_seg_ctrl; bits
theorem pduHeader_unpack_entity_id_len_eq (d3 : Nat) : pduHeader_unpack_entity_id_len d3 = d3 / 16 % 8 + 1 := by
  unfold pduHeader_unpack_entity_id_len; bits
theorem pduHeader_unpack_seg_meta_flag_eq (d3 : Nat) : pduHeader_unpack_seg_meta_flag d3 = d3 / 8 % 2 := by
  unfold pduHeader_unpack_seg_meta_flag; bits
theorem pduHeader_unpack_seq_num_len_eq (d3 : Nat) : pduHeader_unpack_seq_num_len d3 = d3 % 8 + 1 := by
  unfold pduHeader_unpack_seq_num_len; bits
theorem headerLenFromRaw_entity_id_len_eq (d3 : Nat) : headerLenFromRaw_entity_id_len d3 = d3 / 16 % 8 + 1 := by
  unfold headerLenFromRaw_entity_id_len; bits
theorem headerLenFromRaw_seq_num_len_eq (d3 : Nat) : headerLenFromRaw_seq_num_len d3 = d3 % 8 + 1 := by
  unfold headerLenFromRaw_seq_num_len; bits
theorem headerLenFromRaw_total_eq (e s : Nat) : headerLenFromRaw_total e s = 4 + 2 * e + s := rfl

/-- `header_len_from_raw` of the model, through the translated expressions -/
theorem headerLenFromRaw_model (d : Bytes) :
    headerLenFromRaw d = (do
      if d.length < 4 then throw .value
      let d3 ← idx d 3
      pure (headerLenFromRaw_total (headerLenFromRaw_entity_id_len d3) (headerLenFromRaw_seq_num_len d3))) := by
  simp only [headerLenFromRaw_total_eq, headerLenFromRaw_entity_id_len_eq, headerLenFromRaw_seq_num_len_eq]; rfl
/-- the four fixed octets of `PduHeader.pack` of the model are the translated expressions -/
theorem pduHeader_pack_model (h : PduHeader) (ht : h.pduType < 2) (hd : h.conf.direction < 2)
    (hm : h.conf.transMode < 2) (hc : h.conf.crcFlag < 2) (hf : h.conf.fileFlag < 2) (hsm : h.segMeta < 2)
    (h1 : h.conf.source.width ≤ 8) (h3 : h.conf.seqNum.width ≤ 8) :
    h.pack = (do
      let b0 ← byteOfN (pduHeader_pack_octet0 h.pduType h.conf.direction h.conf.transMode h.conf.crcFlag h.conf.fileFlag)
      let b1 := u8 (pduHeader_pack_octet1 h.dataFieldLen)
      let b2 := u8 (pduHeader_pack_octet2 h.dataFieldLen)
      if h.conf.source.width = 0 ∨ h.conf.seqNum.width = 0 then throw .value
      let b3 ← byteOfN (pduHeader_pack_octet3 h.conf.segCtrl h.conf.source.width h.segMeta h.conf.seqNum.width)
      pure ([b0, b1, b2, b3] ++ h.conf.source.bytes ++ h.conf.seqNum.bytes ++ h.conf.dest.bytes)) := by
  rw [pduHeader_pack_octet0_eq _ _ _ _ _ ht hd hm hc hf, pduHeader_pack_octet1_eq, pduHeader_pack_octet2_eq,
    pduHeader_pack_octet3_eq _ _ _ _ h1 hsm h3]; rfl
end C05

/-! ## PUS-C secondary headers (`spacepackets/ecss/tc.py`, `tm.py`; C02, C03) -/
section C02C03

/-- right-hand side: octet 0 of `TcSec.pack` (`self.pus_version` is `PusVersion.PUS_C = 2`) -/
theorem pusTc_pack_octet0_eq (ack : Nat) (ha : ack < 16) : pusTc_pack_octet0 2 ack = 32 + ack := by
  unfold pusTc_pack_octet0; bits
/-- right-hand side: the version test `b0 / 16 ≠ 2` of `TcSec.unpack` -/
theorem pusTc_unpack_pus_version_eq (b0 : Nat) (h : b0 < 256) : pusTc_unpack_pus_version b0 = b0 / 16 := by
  unfold pusTc_unpack_pus_version; bits
theorem pusTc_unpack_ack_flags_eq (b0 : Nat) : pusTc_unpack_ack_flags b0 = b0 % 16 := by
  unfold pusTc_unpack_ack_flags; bits
/-- right-hand side: octet 0 of `TmSec.pack` -/
theorem pusTm_pack_octet0_eq (ref : Nat) (hr : ref < 16) : pusTm_pack_octet0 2 ref = 32 + ref := by
  unfold pusTm_pack_octet0; bits
theorem pusTm_unpack_pus_version_eq (b0 : Nat) (h : b0 < 256) : pusTm_unpack_pus_version b0 = b0 / 16 := by
  unfold pusTm_unpack_pus_version; bits
theorem pusTm_unpack_time_ref_eq (b0 : Nat) : pusTm_unpack_time_ref b0 = b0 % 16 := by
  unfold pusTm_unpack_time_ref; bits

/-- `PusTcDataFieldHeader.pack` of the model, through the translated first octet -/
theorem pusTc_pack_model (s : PusTc.TcSec) (ha : s.ack < 16) :
    s.pack = (do
      let b0 ← byteOfN (pusTc_pack_octet0 2 s.ack)
      let b1 ← byteOfN s.service
      let b2 ← byteOfN s.subservice
      let src ← packBE 2 s.sourceId
      pure ([b0, b1, b2] ++ src)) := by
  rw [pusTc_pack_octet0_eq _ ha]; rfl
/-- `PusTmSecondaryHeader.pack` of the model, through the translated first octet -/
theorem pusTm_pack_model (s : PusTm.TmSec) (hr : s.timeRef < 16) :
    s.pack = (do
      let b0 ← byteOfN (pusTm_pack_octet0 2 s.timeRef)
      let b1 ← byteOfN s.service
      let b2 ← byteOfN s.subservice
      let cnt ← packBE 2 s.msgCounter
      let dst ← packBE 2 s.destId
      pure ([b0, b1, b2] ++ cnt ++ dst ++ s.timestamp)) := by
  rw [pusTm_pack_octet0_eq _ hr]; rfl
end C02C03

/-! ## USLP primary header and data field header (`spacepackets/uslp/header.py`, `frame.py`; C17) -/
section C17
open SpVerif.Uslp

/-- right-hand sides: the four octets of `packCommon` -/
theorem uslp_common_octet0_eq (s : Nat) : uslp_common_octet0 s = versionNumber * 16 + s / 4096 % 16 := by
  unfold uslp_common_octet0 versionNumber; bits
theorem uslp_common_octet1_eq (s : Nat) : uslp_common_octet1 s = s / 16 % 256 := by
  unfold uslp_common_octet1; bits
theorem uslp_common_octet2_eq (s : Nat) (sd : Bool) (v : Nat) :
    uslp_common_octet2 s (b2n sd) v = s % 16 * 16 + b2n sd * 8 + v / 8 % 8 := by
  have := b2n_lt sd
  unfold uslp_common_octet2; bits
theorem uslp_common_octet3_eq (v m : Nat) (t : Bool) (hm : m < 16) :
    uslp_common_octet3 v m (b2n t) = v % 8 * 32 + m * 2 + b2n t := by
  have := b2n_lt t
  unfold uslp_common_octet3; bits
/-- right-hand sides: the terms of `unpackBase` -/
theorem uslp_base_version_eq (r0 : Nat) (h : r0 < 256) : uslp_base_version r0 = r0 / 16 := by
  unfold uslp_base_version; bits
theorem uslp_base_scid_eq (r0 r1 r2 : Nat) (h1 : r1 < 256) (h2 : r2 < 256) :
    uslp_base_scid r0 r1 r2 = r0 % 16 * 4096 + r1 * 16 + r2 / 16 := by
  unfold uslp_base_scid; bits
theorem uslp_base_src_dest_eq (r2 : Nat) : uslp_base_src_dest r2 = r2 / 8 % 2 := by
  unfold uslp_base_src_dest; bits
theorem uslp_base_vcid_eq (r2 r3 : Nat) : uslp_base_vcid r2 r3 = r2 % 8 * 8 + r3 / 32 % 8 := by
  unfold uslp_base_vcid; bits
theorem uslp_base_map_id_eq (r3 : Nat) : uslp_base_map_id r3 = r3 / 2 % 16 := by
  unfold uslp_base_map_id; bits
theorem uslp_base_end_of_header_eq (r3 : Nat) : uslp_base_end_of_header r3 = r3 % 2 := by
  unfold uslp_base_end_of_header; bits
/-- right-hand sides: octets 4, 5, 6 of `PrimaryHeader.pack` (octet 6 keeps the `|||` with the
    VCF count length, which the model does not bound either) -/
theorem uslp_primary_pack_octet4_eq (fl : Nat) : uslp_primary_pack_octet4 fl = fl / 256 % 256 := by
  unfold uslp_primary_pack_octet4; bits
theorem uslp_primary_pack_octet5_eq (fl : Nat) : uslp_primary_pack_octet5 fl = fl % 256 := by
  unfold uslp_primary_pack_octet5; bits
theorem uslp_primary_pack_octet6_eq (by_ pc oc : Bool) (vl : Nat) :
    uslp_primary_pack_octet6 (b2n by_) (b2n pc) (b2n oc) vl = (8 * (b2n by_ * 16 + b2n pc * 8 + b2n oc)) ||| vl := by
  have := b2n_lt by_
  have := b2n_lt pc
  have := b2n_lt oc
  unfold uslp_primary_pack_octet6
  bits_norm
  bits_or
  congr 1
  omega
/-- right-hand sides: the terms of `PrimaryHeader.unpack` and `headerIsTruncated` -/
theorem uslp_primary_unpack_frame_len_eq (r4 r5 : Nat) (h5 : r5 < 256) :
    uslp_primary_unpack_frame_len r4 r5 = r4 * 256 + r5 := by
  unfold uslp_primary_unpack_frame_len; bits
theorem uslp_primary_unpack_bypass_eq (r6 : Nat) : uslp_primary_unpack_bypass r6 = r6 / 128 % 2 := by
  unfold uslp_primary_unpack_bypass; bits
theorem uslp_primary_unpack_prot_ctrl_eq (r6 : Nat) : uslp_primary_unpack_prot_ctrl r6 = r6 / 64 % 2 := by
  unfold uslp_primary_unpack_prot_ctrl; bits
theorem uslp_primary_unpack_op_ctrl_eq (r6 : Nat) : uslp_primary_unpack_op_ctrl r6 = r6 / 8 % 2 := by
  unfold uslp_primary_unpack_op_ctrl; bits
theorem uslp_primary_unpack_vcf_count_len_eq (r6 : Nat) : uslp_primary_unpack_vcf_count_len r6 = r6 % 8 := by
  unfold uslp_primary_unpack_vcf_count_len; bits
theorem uslp_header_type_test_eq (r3 : Nat) : uslp_header_type_test r3 = r3 % 2 := by
  unfold uslp_header_type_test; bits
/-- right-hand side: the first octet of `Tfdf.pack` (the model keeps the `|||`) -/
theorem tfdf_pack_octet0_eq (rules upid : Nat) : tfdf_pack_octet0 rules upid = (32 * rules) ||| upid := by
  unfold tfdf_pack_octet0; rw [Nat.shiftLeft_eq, Nat.mul_comm]
/-- right-hand sides: `rules`, `upid` and the pointer of `Tfdf.unpack` -/
theorem tfdf_unpack_rules_eq (r0 : Nat) : tfdf_unpack_rules r0 = r0 / 32 % 8 := by
  unfold tfdf_unpack_rules; bits
theorem tfdf_unpack_upid_eq (r0 : Nat) : tfdf_unpack_upid r0 = r0 % 32 := by
  unfold tfdf_unpack_upid; bits
theorem tfdf_unpack_fhp_or_lvop_eq (r1 r2 : Nat) (h2 : r2 < 256) : tfdf_unpack_fhp_or_lvop r1 r2 = r1 * 256 + r2 := by
  unfold tfdf_unpack_fhp_or_lvop; bits

/-- the four common octets of the model, through the translated expressions -/
theorem uslp_packCommon_model (scid : Int) (sd : Bool) (vcid mapId : Int) (t : Bool)
    (h : ¬ ((scid > 65535 ∨ scid < 0) ∨ (vcid > 63 ∨ vcid < 0) ∨ (mapId > 15 ∨ mapId < 0))) :
    packCommon scid sd vcid mapId t =
      .ok [u8 (uslp_common_octet0 scid.toNat), u8 (uslp_common_octet1 scid.toNat),
           u8 (uslp_common_octet2 scid.toNat (b2n sd) vcid.toNat), u8 (uslp_common_octet3 vcid.toNat mapId.toNat (b2n t))] := by
  rw [uslp_common_octet0_eq, uslp_common_octet1_eq, uslp_common_octet2_eq, uslp_common_octet3_eq _ _ _ (by omega)]
  unfold packCommon
  simp only [h, ↓reduceIte]
end C17

/-! ## CFDP file directives and the file-data segment-metadata octet (C06, C07) -/
section C06C07

/-- right-hand sides: the two parameter octets of `Ack.pack` (status below 16: the model's `byteOf`
    takes the same sum over `Int`) -/
theorem ack_pack_octet0_eq (code sub : Nat) (hs : sub < 16) : ack_pack_octet0 code sub = code * 16 + sub := by
  unfold ack_pack_octet0; bits
theorem ack_pack_octet1_eq (cond st : Nat) (hs : st < 16) : ack_pack_octet1 cond st = cond * 16 + st := by
  unfold ack_pack_octet1; bits
/-- right-hand sides: the fields of `Ack.unpack` -/
theorem ack_unpack_acked_code_eq (b0 : Nat) : ack_unpack_acked_code b0 = b0 / 16 % 16 := by
  unfold ack_unpack_acked_code; bits
theorem ack_unpack_subtype_eq (b0 : Nat) : ack_unpack_subtype b0 = b0 % 16 := by
  unfold ack_unpack_subtype; bits
theorem ack_unpack_condition_code_eq (b1 : Nat) : ack_unpack_condition_code b1 = b1 / 16 % 16 := by
  unfold ack_unpack_condition_code; bits
theorem ack_unpack_transaction_status_eq (b1 : Nat) : ack_unpack_transaction_status b1 = b1 % 4 := by
  unfold ack_unpack_transaction_status; bits
/-- right-hand side: the condition-code octet of `Eof.pack` / `Eof.unpack` -/
theorem eof_pack_octet0_eq (cond : Nat) : eof_pack_octet0 cond = cond * 16 := by
  unfold eof_pack_octet0; bits
theorem eof_unpack_condition_code_eq (b : Nat) : eof_unpack_condition_code b = b / 16 % 16 := by
  unfold eof_unpack_condition_code; bits
/-- right-hand side: the first parameter octet of `Finished.pack`, which the model writes with the
    same operators -/
theorem finished_pack_octet0_eq (cond del st : Nat) :
    finished_pack_octet0 cond del st = ((cond <<< 4) ||| (del <<< 2)) ||| st := rfl
/-- right-hand sides: `cond`, `delivery`, `status` of `Finished.unpack` -/
theorem finished_unpack_condition_code_eq (b : Nat) : finished_unpack_condition_code b = b / 16 % 16 := by
  unfold finished_unpack_condition_code; bits
theorem finished_unpack_delivery_code_eq (b : Nat) : finished_unpack_delivery_code b = b / 4 % 2 := by
  unfold finished_unpack_delivery_code; bits
theorem finished_unpack_file_status_eq (b : Nat) : finished_unpack_file_status b = b % 4 := by
  unfold finished_unpack_file_status; bits
/-- right-hand side: the first parameter octet of `Metadata.pack` (`closure_requested` is a `bool`) -/
theorem metadata_pack_octet0_eq (closure : Bool) (ct : Nat) :
    metadata_pack_octet0 (if closure then 1 else 0) ct = (if closure then 64 else 0) ||| ct := by
  unfold metadata_pack_octet0; cases closure <;> simp
/-- the model tests `b / 64 % 2 = 1`; the source passes `b & 0x40` to `bool` -/
theorem metadata_unpack_closure_requested_eq (b : Nat) : metadata_unpack_closure_requested b = b / 64 % 2 * 64 := by
  unfold metadata_unpack_closure_requested; bits
theorem metadata_unpack_closure_requested_bool (b : Nat) :
    decide (metadata_unpack_closure_requested b ≠ 0) = decide (b / 64 % 2 = 1) := by
  rw [metadata_unpack_closure_requested_eq]; congr 1; apply propext; omega
theorem metadata_unpack_checksum_type_eq (b : Nat) : metadata_unpack_checksum_type b = b % 16 := by
  unfold metadata_unpack_checksum_type; bits
/-- right-hand side: the parameter octet of `Prompt.pack` / `Prompt.unpack` -/
theorem prompt_pack_octet0_eq (r : Nat) : prompt_pack_octet0 r = r * 128 := by
  unfold prompt_pack_octet0; bits
theorem prompt_unpack_response_required_eq (b : Nat) : prompt_unpack_response_required b = b / 128 % 2 := by
  unfold prompt_unpack_response_required; bits
/-- right-hand sides: the segment-metadata octet of `FileData.packMeta` / `parseMeta` -/
theorem fileData_pack_seg_meta_octet_eq (state len : Nat) (hl : len < 64) :
    fileData_pack_seg_meta_octet state len = state * 64 + len := by
  unfold fileData_pack_seg_meta_octet; bits
theorem fileData_unpack_rec_cont_state_eq (b : Nat) : fileData_unpack_rec_cont_state b = b / 64 % 4 := by
  unfold fileData_unpack_rec_cont_state; bits
theorem fileData_unpack_seg_meta_len_eq (b : Nat) : fileData_unpack_seg_meta_len b = b % 64 := by
  unfold fileData_unpack_seg_meta_len; bits
end C06C07

/-! ## CFDP TLVs (`spacepackets/cfdp/tlv/tlv.py`, C08) -/
section C08
open SpVerif.Tlv

/-- right-hand side: the first value octet of `commonPacker`, which the model writes with the same operators -/
theorem filestore_pack_octet0_eq (action status : Nat) : filestore_pack_octet0 action status = (action <<< 4) ||| status := rfl
/-- right-hand sides: `action`, `status` of `commonUnpacker` -/
theorem filestore_unpack_action_code_eq (b0 : Nat) : filestore_unpack_action_code b0 = b0 / 16 % 16 := by
  unfold filestore_unpack_action_code; bits
theorem filestore_unpack_status_code_eq (b0 : Nat) : filestore_unpack_status_code b0 = b0 % 16 := by
  unfold filestore_unpack_status_code; bits
/-- right-hand side: the argument of `enumOf statusCodesNat` in `FileStoreResponseTlv.fromTlv` -/
theorem filestore_response_status_named_eq (action status : Nat) (hs : status < 16) :
    filestore_response_status_named action status = action * 16 + status := by
  unfold filestore_response_status_named; bits
theorem map_enum_status_code_to_int_eq (s : Nat) : map_enum_status_code_to_int s = statusToInt (s : Int) := by
  unfold map_enum_status_code_to_int statusToInt; bits
/-- right-hand sides: the two components of `statusToActionStatus` -/
theorem map_enum_status_code_action_eq (s : Nat) : map_enum_status_code_action s = ((s : Int) / 16 % 16).toNat := by
  unfold map_enum_status_code_action; bits
theorem map_enum_status_code_status_eq (s : Nat) : map_enum_status_code_status s = ((s : Int) % 16).toNat := by
  unfold map_enum_status_code_status; bits
/-- right-hand side: the candidate of `statusFromInt`, which the model writes with the same operators -/
theorem map_int_status_code_to_enum_eq (action status : Nat) :
    map_int_status_code_to_enum action status = (action <<< 4) ||| status := rfl
/-- right-hand side: the octet of `FaultHandlerOverrideTlv.new`, same operators -/
theorem faultHandler_pack_octet_eq (cc hc : Nat) : faultHandler_pack_octet cc hc = (cc <<< 4) ||| hc := rfl
/-- right-hand sides: the fields of `FaultHandlerOverrideTlv.fromTlv` -/
theorem faultHandler_unpack_condition_code_eq (v0 : Nat) : faultHandler_unpack_condition_code v0 = v0 / 16 % 16 := by
  unfold faultHandler_unpack_condition_code; bits
theorem faultHandler_unpack_handler_code_eq (v0 : Nat) : faultHandler_unpack_handler_code v0 = v0 % 16 := by
  unfold faultHandler_unpack_handler_code; bits

/-- `statusFromInt` of the model, through the translated expression -/
theorem statusFromInt_model (action status : Nat) :
    statusFromInt action status =
      if map_int_status_code_to_enum action status ∈ statusCodesNat
      then ((map_int_status_code_to_enum action status : Nat) : Int) else statusInvalid := rfl
end C08

/-! ## PUS request id (`spacepackets/ecss/req_id.py`, C15) -/
section C15
open SpVerif.SpacePacket SpVerif.Srv1

/-- right-hand side: the version argument of the result of `ReqId.unpack` -/
theorem reqId_unpack_version_eq (w0 : Nat) : reqId_unpack_version w0 = w0 / 8192 % 8 := by
  unfold reqId_unpack_version; bits
theorem reqId_pack_word0_eq (r : ReqId) (ht : r.pid.ptype < 2) (hs : r.pid.shf < 2) (ha : r.pid.apid < 2048) :
    reqId_pack_word0 r.version r.pid.ptype r.pid.shf r.pid.apid = r.word0 := by
  unfold reqId_pack_word0 ReqId.word0 PacketId.raw; rw [packetId_raw_eq _ _ _ hs ha]; unfold pidRaw; bits
theorem reqId_pack_word1_eq (r : ReqId) (hc : r.psc.count < 16384) :
    reqId_pack_word1 r.psc.flags r.psc.count = r.psc.raw := by
  unfold reqId_pack_word1 Psc.raw; exact packetSeqCtrl_raw_eq _ _ hc
theorem reqId_as_u32_word0_eq (r : ReqId) (ht : r.pid.ptype < 2) (hs : r.pid.shf < 2) (ha : r.pid.apid < 2048) :
    reqId_as_u32_word0 r.version r.pid.ptype r.pid.shf r.pid.apid = r.word0 := by
  unfold reqId_as_u32_word0 ReqId.word0 PacketId.raw; rw [packetId_raw_eq _ _ _ hs ha]; unfold pidRaw; bits
theorem reqId_as_u32_eq (r : ReqId) (hf : r.psc.flags < 4) (hc : r.psc.count < 16384) :
    reqId_as_u32 r.word0 r.psc.flags r.psc.count = r.asU32 := by
  unfold reqId_as_u32 ReqId.asU32 Psc.raw; rw [packetSeqCtrl_raw_eq _ _ hc]; unfold pscRaw; bits

/-- `RequestId.as_u32` of the model, through the translated expressions -/
theorem reqId_asU32_model (r : ReqId) (ht : r.pid.ptype < 2) (hs : r.pid.shf < 2) (ha : r.pid.apid < 2048) (hf : r.psc.flags < 4)
    (hc : r.psc.count < 16384) :
    r.asU32 = reqId_as_u32 (reqId_as_u32_word0 r.version r.pid.ptype r.pid.shf r.pid.apid) r.psc.flags r.psc.count := by
  rw [reqId_as_u32_word0_eq r ht hs ha, reqId_as_u32_eq r hf hc]
end C15

/-! ## CDS short timestamp (`spacepackets/ccsds/time/cds.py`, C14) -/
section C14

/-- right-hand side: the P-field octet of `Stamp.pack` -/
theorem cds_pfield_eq : cds_pfield = Cds.CDS_ID * 16 := by decide
/-- right-hand side: the argument of `enumOf [0, 1]` in `unpackFromRaw` -/
theorem cds_len_of_day_seg_eq (p : Nat) : cds_len_of_day_seg p = p / 4 % 2 := by
  unfold cds_len_of_day_seg; bits
/-- right-hand side: the value compared with `CDS_ID` in `unpackFromRaw` -/
theorem cds_unpack_time_code_eq (p : Nat) : cds_unpack_time_code p = p / 16 % 8 := by
  unfold cds_unpack_time_code; bits
/-- right-hand side: the whole-day part of `Stamp.unixMs`, in seconds (for a non-negative Unix day) -/
theorem cds_unix_seconds_of_days_eq (d : Nat) :
    ((cds_unix_seconds_of_days d : Nat) : Int) = (d : Int) * Cds.SECONDS_PER_DAY := by
  unfold cds_unix_seconds_of_days Cds.SECONDS_PER_DAY; omega
/-- right-hand side: `ms1` of `Stamp.add` (non-negative millisecond of day; `timedelta` fields are never negative) -/
theorem cds_add_ms_of_day_eq (ms us sec : Nat) :
    ((cds_add_ms_of_day ms us sec : Nat) : Int) = (ms : Int) + ((us : Int) / 1000 + (sec : Int) * 1000) := by
  unfold cds_add_ms_of_day; omega
theorem cds_add_ms_per_day_eq : ((cds_add_ms_per_day : Nat) : Int) = Cds.MS_PER_DAY := by decide
/-- right-hand side: the bound of the overflow checks of `Stamp.add` -/
theorem cds_add_max_days_eq : ((cds_add_max_days : Nat) : Int) = 2 ^ 16 - 1 := by decide
/-- right-hand side: the millisecond component of `fromUnixMicros` -/
theorem cds_from_datetime_ms_eq (sec us : Nat) :
    ((cds_from_datetime_ms sec us : Nat) : Int) = (sec : Int) * 1000 + (us : Int) / 1000 := by
  unfold cds_from_datetime_ms; omega
end C14

/-! ## Sequence counters (`spacepackets/seqcount.py`, C19) -/
section C19

theorem seqMem_modulus_eq (w : Nat) : seqMem_modulus w = 2 ^ w := rfl
/-- right-hand side: the value returned by `Mem.getAndIncrement` (the stored count is below the modulus) -/
theorem seqMem_curr_count_eq (m : SeqCount.Mem) (h : m.count < 2 ^ m.width) :
    seqMem_curr_count m.count (seqMem_modulus m.width) = m.getAndIncrement.1 := by
  unfold seqMem_curr_count seqMem_modulus SeqCount.Mem.getAndIncrement; exact Nat.mod_eq_of_lt h
/-- right-hand side: the count stored by `Mem.getAndIncrement` -/
theorem seqMem_next_count_eq (m : SeqCount.Mem) :
    seqMem_next_count m.count (seqMem_modulus m.width) = m.getAndIncrement.2.count := rfl
/-- right-hand side: the bound of `checkCount` -/
theorem seqFile_check_max_eq (w : Nat) : seqFile_check_max w = 2 ^ w - 1 := rfl
/-- right-hand sides: the bound and the successor of `incr` -/
theorem seqFile_incr_max_eq (w : Nat) : seqFile_incr_max w = 2 ^ w - 1 := rfl
theorem seqFile_incr_next_eq (v : Nat) : seqFile_incr_next v = v + 1 := rfl

/-- `_increment_with_rollover` of the model, through the translated expressions -/
theorem seqFile_incr_model (w v : Nat) :
    SeqCount.incr w v = if v ≥ seqFile_incr_max w then 0 else seqFile_incr_next v := rfl
end C19

/-! ## Integer/octet helpers and unsigned byte fields (`spacepackets/util.py`, C20) -/
section C20

theorem two_pow_mul_8 (n : Nat) : 2 ^ (n * 8) = 256 ^ n := by
  rw [Nat.mul_comm, Nat.pow_mul]
/-- right-hand side: the bound of `toSigned` (`byte_num` is 1, 2, 4 or 8 there) -/
theorem toSigned_max_eq (n : Nat) (h : 1 ≤ n) :
    ((toSigned_max n : Nat) : Int) = ((256 ^ n / 2 : Nat) : Int) - 1 := by
  unfold toSigned_max
  have h2 : 256 ^ n = 2 ^ (n * 8 - 1) * 2 := by
    rw [← two_pow_mul_8, ← Nat.pow_succ]; congr 1; omega
  have h3 : 0 < 2 ^ (n * 8 - 1) := Nat.two_pow_pos _
  rw [h2]; omega
/-- right-hand side: the bound of `toUnsigned` -/
theorem toUnsigned_max_eq (n : Nat) : ((toUnsigned_max n : Nat) : Int) = ((256 ^ n : Nat) : Int) - 1 := by
  unfold toUnsigned_max
  have h3 : 0 < 256 ^ n := Nat.pow_pos (by decide)
  rw [two_pow_mul_8]; omega
/-- right-hand side: the bound of `verifyInt` -/
theorem byteField_verify_int_max_eq (w : Nat) :
    ((byteField_verify_int_max w : Nat) : Int) = ((256 ^ w : Nat) : Int) - 1 := by
  unfold byteField_verify_int_max
  have h3 : 0 < 256 ^ w := Nat.pow_pos (by decide)
  rw [two_pow_mul_8]; omega
end C20

end SpVerif.Generated
