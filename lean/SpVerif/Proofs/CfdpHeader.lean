import SpVerif.Model.CfdpHeader
import SpVerif.Proofs.CrcResidue
/-!
# Characterisation lemmas for the CFDP fixed PDU header model (reused by C04/C06/C07/C09/C10/C12)

* `BF.new_nat`, `BF.fromBytes_ok` / `_bad_width` / `_short`
* `unpack_short`, `unpack_cons4` (complete case analysis of `PduHeader.unpack`), `exists_cons4`
* `verify_eq` (complete case analysis of `verify_length_and_checksum`)
* `headerLenFromRaw_short`, `headerLenFromRaw_cons4`
* `unpack_documented`, `verify_documented`, `headerLenFromRaw_documented`
-/
namespace SpVerif.CfdpHeader
open SpVerif

/-- the four widths a CFDP header can carry -/
def okWidth (w : Nat) : Prop := w = 1 ∨ w = 2 ∨ w = 4 ∨ w = 8

instance (w : Nat) : Decidable (okWidth w) := by unfold okWidth; infer_instance

theorem okWidth_pos {w : Nat} (h : okWidth w) : 1 ≤ w := by unfold okWidth at h; omega
theorem okWidth_le {w : Nat} (h : okWidth w) : w ≤ 8 := by unfold okWidth at h; omega

/-! ## byte field -/

theorem BF.new_nat (w n : Nat) :
    BF.new w (n : Int) =
      if ¬ (w = 0 ∨ w = 1 ∨ w = 2 ∨ w = 4 ∨ w = 8) ∨ 256 ^ w ≤ n then .error .value else .ok ⟨w, n⟩ := by
  unfold BF.new
  by_cases h1 : (w = 0 ∨ w = 1 ∨ w = 2 ∨ w = 4 ∨ w = 8)
  · have hn : ¬ ((n : Int) < 0) := by omega
    by_cases h2 : 256 ^ w ≤ n
    · simp [h1, h2]
    · simp [h1, h2, hn]
  · simp [h1]

theorem BF.new_ok {w n : Nat} (hw : okWidth w) (hn : n < 256 ^ w) : BF.new w (n : Int) = .ok ⟨w, n⟩ := by
  rw [BF.new_nat]
  have h1 : (w = 0 ∨ w = 1 ∨ w = 2 ∨ w = 4 ∨ w = 8) := by unfold okWidth at hw; omega
  have h2 : ¬ 256 ^ w ≤ n := by omega
  simp [h1, h2]

/-- negative values and values beyond the width are refused -/
theorem BF.new_refuse (w : Nat) (v : Int) (h : v < 0 ∨ (256 ^ w : Nat) ≤ v) : BF.new w v = .error .value := by
  unfold BF.new
  split
  · rfl
  · have : v < 0 ∨ 256 ^ w ≤ v.toNat := by omega
    simp [this]

theorem BF.new_bad_width (w : Nat) (v : Int) (h : ¬ (w = 0 ∨ w = 1 ∨ w = 2 ∨ w = 4 ∨ w = 8)) :
    BF.new w v = .error .value := by
  simp [BF.new, h]

theorem BF.bytes_length (f : BF) : f.bytes.length = f.width := by simp [BF.bytes]

theorem BF.fromBytes_ok {w : Nat} (hw : okWidth w) (s : Bytes) (hs : w ≤ s.length) :
    BF.fromBytes w s = .ok ⟨w, beNat (s.take w)⟩ := by
  have hw' : w = 1 ∨ w = 2 ∨ w = 4 ∨ w = 8 := hw
  have hl : ¬ s.length < w := by omega
  have hlen : (s.take w).length = w := by simp; omega
  have hb := beNat_lt (s.take w)
  rw [hlen] at hb
  unfold BF.fromBytes
  have hsl : slice s 0 w = s.take w := by simp [slice]
  simp only [hw', ↓reduceIte, hl, hsl, unpackBE_ok hlen, bind, Except.bind]
  exact BF.new_ok hw hb

theorem BF.fromBytes_bad_width {w : Nat} (hw : ¬ okWidth w) (s : Bytes) :
    BF.fromBytes w s = .error .value := by
  have hw' : ¬ (w = 1 ∨ w = 2 ∨ w = 4 ∨ w = 8) := hw
  simp [BF.fromBytes, hw']

theorem BF.fromBytes_short {w : Nat} (s : Bytes) (hs : s.length < w) :
    BF.fromBytes w s = .error .value := by
  unfold BF.fromBytes
  by_cases hw : (w = 1 ∨ w = 2 ∨ w = 4 ∨ w = 8)
  · rw [if_pos hw, if_pos hs]
  · rw [if_neg hw]

/-- decoding the packed field (followed by anything) gives the field back -/
theorem BF.fromBytes_bytes (f : BF) (hw : okWidth f.width) (hv : f.value < 256 ^ f.width) (rest : Bytes) :
    BF.fromBytes f.width (f.bytes ++ rest) = .ok f := by
  rw [BF.fromBytes_ok hw _ (by simp [BF.bytes])]
  have : (f.bytes ++ rest).take f.width = f.bytes := List.take_left' (BF.bytes_length f)
  rw [this]
  simp [BF.bytes, beNat_beBytes _ _ hv]

theorem checkLenInBytes_eq (n : Nat) :
    checkLenInBytes n = if okWidth n then .ok n else .error .value := rfl

/-! ## `PduHeader.unpack` -/

theorem exists_cons4 (d : Bytes) (h : 4 ≤ d.length) :
    ∃ x0 x1 x2 x3 r, d = x0 :: x1 :: x2 :: x3 :: r := by
  match d, h with
  | x0 :: x1 :: x2 :: x3 :: r, _ => exact ⟨x0, x1, x2, x3, r, rfl⟩

/-- fewer than four octets: `BytesTooShortError` -/
theorem unpack_short (d : Bytes) (h : d.length < 4) : PduHeader.unpack d = .error .value := by
  simp [PduHeader.unpack, h, throw, throwThe, MonadExceptOf.throw, bind, Except.bind]

/-- what `unpack` returns for the fixed octets `x0 x1 x2 x3` followed by `r` (when it accepts) -/
def decoded (x0 x1 x2 x3 : Nat) (r : Bytes) : PduHeader :=
  ⟨x0 / 16 % 2, x3 / 8 % 2, x1 * 256 + x2,
    ⟨⟨x3 / 16 % 8 + 1, beNat (r.take (x3 / 16 % 8 + 1))⟩,
     ⟨x3 / 16 % 8 + 1, beNat ((r.drop (x3 / 16 % 8 + 1 + (x3 % 8 + 1))).take (x3 / 16 % 8 + 1))⟩,
     ⟨x3 % 8 + 1, beNat ((r.drop (x3 / 16 % 8 + 1)).take (x3 % 8 + 1))⟩,
     x0 / 4 % 2, x0 % 2, x0 / 2 % 2, x0 / 8 % 2, x3 / 128 % 2⟩⟩

private theorem slice_cons4 (x0 x1 x2 x3 : UInt8) (r : Bytes) (a n : Nat) :
    slice (x0 :: x1 :: x2 :: x3 :: r) (a + 4) (a + 4 + n) = (r.drop a).take n := by
  simp only [slice, List.drop_take, List.drop_succ_cons]
  congr 1
  omega

/-- **complete case analysis of the decoder** on at least four octets -/
theorem unpack_cons4 (x0 x1 x2 x3 : UInt8) (r : Bytes) :
    PduHeader.unpack (x0 :: x1 :: x2 :: x3 :: r) =
      if x0.toNat / 32 ≠ 1 then .error .cfdpVersion
      else if ¬ okWidth (x3.toNat / 16 % 8 + 1) then .error .value
      else if ¬ okWidth (x3.toNat % 8 + 1) then .error .value
      else if r.length < 2 * (x3.toNat / 16 % 8 + 1) + (x3.toNat % 8 + 1) then .error .value
      else .ok (decoded x0.toNat x1.toNat x2.toNat x3.toNat r) := by
  have b1 := toNat_lt x1
  have b2 := toNat_lt x2
  have hl : ¬ (x0 :: x1 :: x2 :: x3 :: r).length < 4 := by simp
  have hd : ¬ x1.toNat * 256 + x2.toNat > 65535 := by omega
  have i0 : idx (x0 :: x1 :: x2 :: x3 :: r) 0 = .ok x0.toNat := by simp [idx]
  have i1 : idx (x0 :: x1 :: x2 :: x3 :: r) 1 = .ok x1.toNat := by simp [idx]
  have i2 : idx (x0 :: x1 :: x2 :: x3 :: r) 2 = .ok x2.toNat := by simp [idx]
  have i3 : idx (x0 :: x1 :: x2 :: x3 :: r) 3 = .ok x3.toNat := by simp [idx]
  have e0 : x0.toNat / 32 % 8 = x0.toNat / 32 := by have := toNat_lt x0; omega
  unfold PduHeader.unpack
  simp only [hl, ↓reduceIte, i0, i1, i2, i3, hd, e0, bind, Except.bind, pure, Except.pure,
    checkLenInBytes_eq]
  by_cases hv : x0.toNat / 32 ≠ 1
  · simp [hv, throw, throwThe, MonadExceptOf.throw]
  · simp only [hv, ↓reduceIte]
    by_cases hi : okWidth (x3.toNat / 16 % 8 + 1)
    · simp only [hi, ↓reduceIte, not_true_eq_false]
      by_cases hs : okWidth (x3.toNat % 8 + 1)
      · simp only [hs, ↓reduceIte, not_true_eq_false]
        unfold decoded
        generalize x3.toNat / 16 % 8 + 1 = idw at hi ⊢
        generalize x3.toNat % 8 + 1 = seqw at hs ⊢
        have s1 : slice (x0 :: x1 :: x2 :: x3 :: r) 4 (4 + idw) = r.take idw := by
          have := slice_cons4 x0 x1 x2 x3 r 0 idw
          simpa [Nat.add_comm] using this
        have s2 : slice (x0 :: x1 :: x2 :: x3 :: r) (4 + idw) (4 + idw + seqw) = (r.drop idw).take seqw := by
          have := slice_cons4 x0 x1 x2 x3 r idw seqw
          rwa [Nat.add_comm idw 4] at this
        have s3 : slice (x0 :: x1 :: x2 :: x3 :: r) (4 + idw + seqw) (4 + idw + seqw + idw)
            = (r.drop (idw + seqw)).take idw := by
          have := slice_cons4 x0 x1 x2 x3 r (idw + seqw) idw
          rwa [show idw + seqw + 4 = 4 + idw + seqw by omega] at this
        rw [s1, s2, s3]
        by_cases hlen : r.length < 2 * idw + seqw
        · have g : 2 * idw + seqw + 4 > (x0 :: x1 :: x2 :: x3 :: r).length := by
            simp only [List.length_cons]; omega
          simp [hlen, throw, throwThe, MonadExceptOf.throw]
        · have g : ¬ 2 * idw + seqw + 4 > (x0 :: x1 :: x2 :: x3 :: r).length := by
            simp only [List.length_cons]; omega
          rw [BF.fromBytes_ok hi _ (by simp; omega), BF.fromBytes_ok hs _ (by simp; omega),
            BF.fromBytes_ok hi _ (by simp; omega)]
          simp [hlen, List.take_take]
      · simp [hs]
    · simp [hi]

/-- decoder on a buffer laid out as fixed part ‖ A ‖ B ‖ C ‖ rest with matching width codes -/
theorem unpack_layout (x0 x1 x2 x3 : UInt8) (A B C rest : Bytes)
    (hv : x0.toNat / 32 = 1) (hi : okWidth (x3.toNat / 16 % 8 + 1)) (hs : okWidth (x3.toNat % 8 + 1))
    (hA : A.length = x3.toNat / 16 % 8 + 1) (hB : B.length = x3.toNat % 8 + 1)
    (hC : C.length = x3.toNat / 16 % 8 + 1) :
    PduHeader.unpack (x0 :: x1 :: x2 :: x3 :: (A ++ B ++ C ++ rest)) =
      .ok ⟨x0.toNat / 16 % 2, x3.toNat / 8 % 2, x1.toNat * 256 + x2.toNat,
        ⟨⟨x3.toNat / 16 % 8 + 1, beNat A⟩, ⟨x3.toNat / 16 % 8 + 1, beNat C⟩, ⟨x3.toNat % 8 + 1, beNat B⟩,
          x0.toNat / 4 % 2, x0.toNat % 2, x0.toNat / 2 % 2, x0.toNat / 8 % 2, x3.toNat / 128 % 2⟩⟩ := by
  rw [unpack_cons4]
  have g1 : ¬ x0.toNat / 32 ≠ 1 := by omega
  have g4 : ¬ (A ++ B ++ C ++ rest).length < 2 * (x3.toNat / 16 % 8 + 1) + (x3.toNat % 8 + 1) := by
    simp only [List.length_append]; omega
  simp only [g1, hi, hs, g4, ↓reduceIte, not_true_eq_false, decoded]
  have t1 : (A ++ B ++ C ++ rest).take (x3.toNat / 16 % 8 + 1) = A := by
    rw [List.append_assoc, List.append_assoc]; exact List.take_left' hA
  have d1 : (A ++ B ++ C ++ rest).drop (x3.toNat / 16 % 8 + 1) = B ++ C ++ rest := by
    rw [List.append_assoc, List.append_assoc, List.drop_left' hA, List.append_assoc]
  have t2 : (B ++ C ++ rest).take (x3.toNat % 8 + 1) = B := by
    rw [List.append_assoc]; exact List.take_left' hB
  have d2 : (A ++ B ++ C ++ rest).drop (x3.toNat / 16 % 8 + 1 + (x3.toNat % 8 + 1)) = C ++ rest := by
    have : (A ++ B).length = x3.toNat / 16 % 8 + 1 + (x3.toNat % 8 + 1) := by simp [hA, hB]
    rw [List.append_assoc (A ++ B), List.drop_left' this]
  have t3 : (C ++ rest).take (x3.toNat / 16 % 8 + 1) = C := List.take_left' hC
  rw [t1, d1, t2, d2, t3]

/-- general form: every input of at least four octets -/
theorem unpack_ge4 (d : Bytes) (h : 4 ≤ d.length) :
    ∃ x0 x1 x2 x3 r, d = x0 :: x1 :: x2 :: x3 :: r ∧
      PduHeader.unpack d =
        if x0.toNat / 32 ≠ 1 then .error .cfdpVersion
        else if ¬ okWidth (x3.toNat / 16 % 8 + 1) then .error .value
        else if ¬ okWidth (x3.toNat % 8 + 1) then .error .value
        else if r.length < 2 * (x3.toNat / 16 % 8 + 1) + (x3.toNat % 8 + 1) then .error .value
        else .ok (decoded x0.toNat x1.toNat x2.toNat x3.toNat r) := by
  obtain ⟨x0, x1, x2, x3, r, rfl⟩ := exists_cons4 d h
  exact ⟨x0, x1, x2, x3, r, rfl, unpack_cons4 x0 x1 x2 x3 r⟩

/-- the only errors of the decoder are `ValueError` (too short, bad width code) and
    `UnsupportedCfdpVersion` -/
theorem unpack_error (d : Bytes) (e : Err) (h : PduHeader.unpack d = .error e) :
    e = .value ∨ e = .cfdpVersion := by
  by_cases h4 : d.length < 4
  · rw [unpack_short d h4] at h; cases h; exact Or.inl rfl
  · obtain ⟨x0, x1, x2, x3, r, rfl⟩ := exists_cons4 d (by omega)
    rw [unpack_cons4] at h
    split at h
    · cases h; exact Or.inr rfl
    · split at h
      · cases h; exact Or.inl rfl
      · split at h
        · cases h; exact Or.inl rfl
        · split at h
          · cases h; exact Or.inl rfl
          · cases h

theorem unpack_documented (d : Bytes) : Documented (PduHeader.unpack d) := by
  intro e h
  rcases unpack_error d e h with rfl | rfl <;> rfl

/-! ## `header_len_from_raw` -/

theorem headerLenFromRaw_short (d : Bytes) (h : d.length < 4) : headerLenFromRaw d = .error .value := by
  simp [headerLenFromRaw, h, throw, throwThe, MonadExceptOf.throw, bind, Except.bind]

theorem headerLenFromRaw_cons4 (x0 x1 x2 x3 : UInt8) (r : Bytes) :
    headerLenFromRaw (x0 :: x1 :: x2 :: x3 :: r) =
      .ok (4 + 2 * (x3.toNat / 16 % 8 + 1) + (x3.toNat % 8 + 1)) := by
  have hl : ¬ (x0 :: x1 :: x2 :: x3 :: r).length < 4 := by simp
  have i3 : idx (x0 :: x1 :: x2 :: x3 :: r) 3 = .ok x3.toNat := by simp [idx]
  simp only [headerLenFromRaw, hl, ↓reduceIte, i3, bind, Except.bind, pure, Except.pure]

theorem headerLenFromRaw_documented (d : Bytes) : Documented (headerLenFromRaw d) := by
  by_cases h4 : d.length < 4
  · rw [headerLenFromRaw_short d h4]; exact Documented.err rfl
  · obtain ⟨x0, x1, x2, x3, r, rfl⟩ := exists_cons4 d (by omega)
    rw [headerLenFromRaw_cons4]; exact Documented.ok _

/-! ## constructor and setters -/

theorem setDataFieldLen_eq (h : PduHeader) (n : Nat) :
    h.setDataFieldLen n = if 65535 < n then .error .value else .ok { h with dataFieldLen := n } := rfl

theorem setEntityIds_eq (h : PduHeader) (s t : BF) :
    h.setEntityIds s t = if s.width ≠ t.width then .error .value
      else .ok { h with conf := { h.conf with source := s, dest := t } } := rfl

/-- **complete case analysis of the constructor** -/
theorem new_eq (t m n : Nat) (c : PduConfig) :
    PduHeader.new t m n c =
      if 65535 < n ∨ c.source.width ≠ c.dest.width then .error .value else .ok ⟨t, m, n, c⟩ := by
  unfold PduHeader.new PduHeader.setDataFieldLen PduHeader.setEntityIds
  by_cases h1 : 65535 < n
  · have : n > 65535 := h1
    simp [this, bind, Except.bind]
  · have : ¬ n > 65535 := h1
    by_cases h2 : c.source.width = c.dest.width
    · simp [this, h2, bind, Except.bind]
    · simp [this, h2, bind, Except.bind]

/-! ## `verify_length_and_checksum` -/

theorem headerLen_ge (h : PduHeader) : 4 ≤ h.headerLen := by unfold PduHeader.headerLen; omega
theorem packetLen_ge (h : PduHeader) : 4 ≤ h.packetLen := by
  have := headerLen_ge h; unfold PduHeader.packetLen; omega

/-- **complete case analysis**: too short → `ValueError`; CRC flag set and the CRC-16 over exactly
    the declared PDU is not zero → `InvalidCrc`; otherwise the declared PDU length. -/
theorem verify_eq (h : PduHeader) (d : Bytes) :
    h.verifyLengthAndChecksum d =
      if d.length < h.packetLen then .error .value
      else if h.conf.crcFlag = 1 ∧ Crc.crc16 (d.take h.packetLen) ≠ 0 then .error .crc
      else .ok h.packetLen := by
  have h4 := packetLen_ge h
  unfold PduHeader.verifyLengthAndChecksum
  by_cases hl : d.length < h.packetLen
  · simp [hl, throw, throwThe, MonadExceptOf.throw, bind, Except.bind]
  · have hs : slice d 0 h.packetLen = d.take h.packetLen := by simp [slice]
    have h2 : (slice d (h.packetLen - 2) h.packetLen).length = 2 := by simp; omega
    simp only [hl, ↓reduceIte, hs, unpackBE_ok h2, bind, Except.bind, pure, Except.pure]
    by_cases hc : h.conf.crcFlag = 1
    · by_cases hz : Crc.crc16 (d.take h.packetLen) = 0
      · simp [hc, hz]
      · simp [hc, throw, throwThe, MonadExceptOf.throw]
    · simp [hc]

theorem verify_ok_iff (h : PduHeader) (d : Bytes) (n : Nat) :
    h.verifyLengthAndChecksum d = .ok n ↔
      (n = h.packetLen ∧ h.packetLen ≤ d.length ∧
        (h.conf.crcFlag = 1 → Crc.crc16 (d.take h.packetLen) = 0)) := by
  rw [verify_eq]
  by_cases hl : d.length < h.packetLen
  · rw [if_pos hl]
    constructor
    · intro h'; cases h'
    · rintro ⟨_, h2, _⟩; omega
  · rw [if_neg hl]
    by_cases hc : h.conf.crcFlag = 1 ∧ Crc.crc16 (d.take h.packetLen) ≠ 0
    · rw [if_pos hc]
      constructor
      · intro h'; cases h'
      · rintro ⟨_, _, h3⟩; exact absurd (h3 hc.1) hc.2
    · rw [if_neg hc]
      constructor
      · intro h'
        cases h'
        refine ⟨rfl, by omega, ?_⟩
        intro h1
        by_cases hz : Crc.crc16 (d.take h.packetLen) = 0
        · exact hz
        · exact absurd ⟨h1, hz⟩ hc
      · rintro ⟨rfl, _, _⟩; rfl

theorem verify_error (h : PduHeader) (d : Bytes) (e : Err) (he : h.verifyLengthAndChecksum d = .error e) :
    (e = .value ∧ d.length < h.packetLen) ∨
    (e = .crc ∧ h.packetLen ≤ d.length ∧ h.conf.crcFlag = 1 ∧ Crc.crc16 (d.take h.packetLen) ≠ 0) := by
  rw [verify_eq] at he
  split at he
  · cases he; exact Or.inl ⟨rfl, by assumption⟩
  · split at he
    · cases he; rename_i h1 h2; exact Or.inr ⟨rfl, by omega, h2.1, h2.2⟩
    · cases he

theorem verify_documented (h : PduHeader) (d : Bytes) : Documented (h.verifyLengthAndChecksum d) := by
  intro e he
  rcases verify_error h d e he with ⟨rfl, _⟩ | ⟨rfl, _⟩ <;> rfl

/-- the verdict depends only on the first `packet_len` octets of the buffer -/
theorem verify_prefix (h : PduHeader) (d rest : Bytes) (hl : h.packetLen ≤ d.length) :
    h.verifyLengthAndChecksum (d ++ rest) = h.verifyLengthAndChecksum d := by
  rw [verify_eq, verify_eq]
  have g1 : ¬ (d ++ rest).length < h.packetLen := by simp; omega
  have g2 : ¬ d.length < h.packetLen := by omega
  simp only [g1, g2, ↓reduceIte, List.take_append_of_le_length hl]

end SpVerif.CfdpHeader
