import SpVerif.Proofs.Crc
/-!
# CRC residue and trailer uniqueness, at octet level
-/
namespace SpVerif.Crc

/-- bit `i` of `load B` is the `(15 - i)`-th element of `B` -/
theorem load_getLsbD : ∀ (B : List Bool) (i : Nat), i < 16 →
    (load B).getLsbD i = B.getD (15 - i) false
  | [], i, _ => by simp [load]
  | x :: B, i, h => by
      have ih := load_getLsbD B
      simp only [load, BitVec.getLsbD_xor, BitVec.getLsbD_ushiftRight]
      by_cases h15 : i = 15
      · subst h15
        have : (load B).getLsbD (1 + 15) = false := BitVec.getLsbD_of_ge _ _ (by omega)
        rw [this]
        cases x <;> simp [top_bit]
      · rw [ih (1 + i) (by omega)]
        have e : 15 - i = (15 - (1 + i)) + 1 := by omega
        rw [e, List.getD_cons_succ]
        cases x <;> simp [top_bit, h15]

/-- the sixteen bits of two octets, loaded into the register, are the 16-bit number they spell -/
theorem load_bits_two (x y : UInt8) :
    load (bits [x, y]) = BitVec.ofNat 16 (x.toNat * 256 + y.toNat) := by
  apply BitVec.eq_of_getLsbD_eq
  intro i hi
  rw [load_getLsbD _ _ hi]
  have hx := toNat_lt x
  have hy := toNat_lt y
  have hi' : i = 0 ∨ i = 1 ∨ i = 2 ∨ i = 3 ∨ i = 4 ∨ i = 5 ∨ i = 6 ∨ i = 7 ∨ i = 8 ∨ i = 9 ∨ i = 10 ∨ i = 11 ∨ i = 12 ∨ i = 13 ∨ i = 14 ∨ i = 15 := by omega
  have key : ∀ k, (x.toNat * 256 + y.toNat).testBit k =
      if k < 8 then y.toNat.testBit k else x.toNat.testBit (k - 8) := by
    intro k
    have : x.toNat * 256 + y.toNat = 2 ^ 8 * x.toNat + y.toNat := by omega
    rw [this, Nat.testBit_two_pow_mul_add _ (by omega)]
  rw [BitVec.getLsbD_ofNat, key]
  rcases hi' with h|h|h|h|h|h|h|h|h|h|h|h|h|h|h|h <;> subst h <;>
    simp [bits, bitsOf]

theorem bits_length (d : Bytes) : (bits d).length = 8 * d.length := by
  induction d with
  | nil => rfl
  | cons x d ih => simp [bits, bitsOf, List.flatMap_cons] at *; omega

theorem bits_append (a b : Bytes) : bits (a ++ b) = bits a ++ bits b := by
  simp [bits]

theorem crcFrom_append (s : BitVec 16) (a b : Bytes) :
    crcFrom s (a ++ b) = crcFrom (crcFrom s a) b := by
  simp [crcFrom, bits_append, feedBits_append]

theorem iter_zstep_inj : ∀ n (s t : BitVec 16), iter zstep n s = iter zstep n t → s = t
  | 0, _, _, h => h
  | n+1, _, _, h => zstep_inj (iter_zstep_inj n _ _ h)

theorem be16_toNat (s : BitVec 16) :
    BitVec.ofNat 16 ((u8 (s.toNat / 256)).toNat * 256 + (u8 (s.toNat % 256)).toNat) = s := by
  apply BitVec.eq_of_toNat_eq
  have := s.isLt
  simp only [u8_toNat, BitVec.toNat_ofNat]
  omega

/-- **Residue**: feeding the two trailer octets after the message drives the register to zero. -/
theorem crcFrom_residue (s : BitVec 16) (m : Bytes) : crcFrom s (m ++ be16 (crcFrom s m)) = 0 := by
  rw [crcFrom_append]
  generalize crcFrom s m = t
  unfold crcFrom be16
  rw [feedBits_load _ _ (by simp [bits_length]), load_bits_two, be16_toNat]
  rw [BitVec.xor_self]
  exact iter_zstep_zero _

theorem crc16_residue (m : Bytes) : crc16 (m ++ crcTrailer m) = 0 := crcFrom_residue _ m

/-- **Trailer uniqueness**: only the CRC of the message, appended big-endian, gives residue zero. -/
theorem crcFrom_trailer_unique (s : BitVec 16) (m : Bytes) (x y : UInt8)
    (h : crcFrom s (m ++ [x, y]) = 0) : [x, y] = be16 (crcFrom s m) := by
  rw [crcFrom_append] at h
  generalize crcFrom s m = t at h
  unfold crcFrom at h
  rw [feedBits_load _ _ (by simp [bits_length]), load_bits_two] at h
  have h0 := iter_zstep_eq_zero _ _ h
  have ht : t = BitVec.ofNat 16 (x.toNat * 256 + y.toNat) := by
    have := congrArg (· ^^^ BitVec.ofNat 16 (x.toNat * 256 + y.toNat)) h0
    simpa [BitVec.xor_assoc] using this
  subst ht
  have hx := toNat_lt x
  have hy := toNat_lt y
  have e : (x.toNat * 256 + y.toNat) % 65536 = x.toNat * 256 + y.toNat := by omega
  simp only [be16, BitVec.toNat_ofNat, e]
  have e1 : (x.toNat * 256 + y.toNat) / 256 = x.toNat := by omega
  have e2 : (x.toNat * 256 + y.toNat) % 256 = y.toNat := by omega
  simp [e1, e2]

theorem crc16_trailer_unique (m : Bytes) (x y : UInt8) (h : crc16 (m ++ [x, y]) = 0) :
    [x, y] = crcTrailer m := crcFrom_trailer_unique _ m x y h

/-- catalogue check value of CRC-16/CCITT-FALSE -/
example : crc16 [0x31, 0x32, 0x33, 0x34, 0x35, 0x36, 0x37, 0x38, 0x39] = 0x29B1#16 := by decide +kernel

end SpVerif.Crc
