import SpVerif.Proofs.CfdpCrcAccept
import SpVerif.Proofs.FileDirective
import SpVerif.Proofs.FileData
import SpVerif.Proofs.Factory
/-!
# Every CFDP PDU decoder runs the common front first (lemmas for C04, per-PDU clause)

`RunsFirst fr dec` — whenever the front `fr` fails on a buffer, the decoder `dec` fails on it with
the very same error (so `dec` accepts only what `fr` accepts).

* `prelude_eq_front` — the directive prelude (`Proofs/FileDirective.lean`) *is* `directiveFront`
  followed by the cut to `end_of_params`; hence every decoder of the form `prelude d >>= parse`
  runs `directiveFront` first (`runsFirst_prelude_bind`);
* `runsFirst_fileData` — `FileDataPdu.unpack` runs `pduFront` first;
* `RunsFirst.directive_accept`, `RunsFirst.plain_accept` — acceptance by the decoder gives acceptance
  by `pduFront`, hence the CRC facts of `front_accept_crc`;
* `RunsFirst.directive_burst`, `RunsFirst.plain_burst` — on a burst-corrupted accepted CRC-flagged
  PDU (window outside octets 0–3) the decoder fails with `InvalidCrc`;
* `decoderOf_runsFirst`, `decoderOf_accept_front`, `fromRaw_some_inv`, `fromRaw_type_bit` — the
  same for the factory's table of decoders and the factory itself.
-/
namespace SpVerif.CfdpCrc
open SpVerif SpVerif.CfdpHeader SpVerif.CfdpFront SpVerif.FileDirective

/-- `dec` fails with the error of the front `fr` whenever the front fails -/
def RunsFirst {α β : Type} (fr : Bytes → Py β) (dec : Bytes → Py α) : Prop :=
  ∀ d e, fr d = .error e → dec d = .error e

theorem RunsFirst.accept {α β : Type} {fr : Bytes → Py β} {dec : Bytes → Py α} (hr : RunsFirst fr dec)
    {d : Bytes} {r : α} (h : dec d = .ok r) : ∃ b, fr d = .ok b := by
  cases hf : fr d with
  | error e => rw [hr d e hf] at h; cases h
  | ok b => exact ⟨b, rfl⟩

/-- post-composition with a total function keeps the front -/
theorem RunsFirst.map {α β γ : Type} {fr : Bytes → Py β} {dec : Bytes → Py α} (hr : RunsFirst fr dec)
    (g : α → γ) : RunsFirst fr (fun d => g <$> dec d) := by
  intro d e he
  show g <$> dec d = _
  rw [hr d e he]; rfl

/-! ## the directive prelude is the directive front -/

/-- **the prelude of every directive decoder is `directiveFront` followed by the cut to
    `end_of_params`** (same guards, same order, same errors) -/
theorem prelude_eq_front (d : Bytes) :
    prelude d = directiveFront d >>= fun r =>
      pure ((⟨r.1, r.2⟩ : FileDirective), d.take (FileDirective.paramsEnd ⟨r.1, r.2⟩)) := by
  unfold prelude directiveFront FileDirective.unpack FileDirective.verify
  cases hu : PduHeader.unpack d with
  | error e => rfl
  | ok h =>
    simp only [bind, Except.bind]
    by_cases g : h.headerLen + 1 > d.length
    · simp [g, throw, throwThe, MonadExceptOf.throw]
    · have hl : h.headerLen < d.length := by omega
      simp only [g, ↓reduceIte, Nat.add_sub_cancel, idx_ok hl, pure, Except.pure]
      cases hv : h.verifyLengthAndChecksum d with
      | error e => rfl
      | ok n => rfl

theorem runsFirst_prelude : RunsFirst directiveFront prelude := by
  intro d e he
  rw [prelude_eq_front, he]; rfl

/-- every decoder "prelude, then a parameter parser" runs the directive front first; the parser may
    depend on the buffer (NAK looks at its length) -/
theorem runsFirst_prelude_bind {α : Type} (f : Bytes → FileDirective × Bytes → Py α) :
    RunsFirst directiveFront (fun d => prelude d >>= f d) := by
  intro d e he
  show (prelude d >>= f d) = _
  rw [runsFirst_prelude d e he]; rfl

/-- an accepted prelude is an accepted directive front returning the same header and code -/
theorem prelude_ok_front {d : Bytes} {fd : FileDirective} {p : Bytes} (h : prelude d = .ok (fd, p)) :
    directiveFront d = .ok (fd.header, fd.code) := by
  rw [prelude_eq_front] at h
  cases hf : directiveFront d with
  | error e => rw [hf] at h; cases h
  | ok r =>
    rw [hf] at h
    simp only [bind, Except.bind, pure, Except.pure, Except.ok.injEq, Prod.mk.injEq] at h
    obtain ⟨rfl, _⟩ := h
    rfl

/-! ## File Data -/

theorem runsFirst_fileData : RunsFirst pduFront FileData.Pdu.unpack := by
  intro d e he
  unfold pduFront at he
  unfold FileData.Pdu.unpack
  cases hu : PduHeader.unpack d with
  | error e' => simp only [hu, bind, Except.bind] at he ⊢; cases he; rfl
  | ok h =>
    simp only [hu, bind, Except.bind] at he ⊢
    cases hv : h.verifyLengthAndChecksum d with
    | error e' => simp only [hv] at he ⊢; cases he; rfl
    | ok n => simp [hv, pure, Except.pure] at he

/-! ## acceptance -/

/-- a decoder behind the directive front accepts only buffers the plain front accepts, with room for
    the directive octet -/
theorem RunsFirst.directive_accept {α : Type} {dec : Bytes → Py α} (hr : RunsFirst directiveFront dec)
    {d : Bytes} {r : α} (h : dec d = .ok r) :
    ∃ hd c, directiveFront d = .ok (hd, c) ∧ pduFront d = .ok hd ∧ hd.headerLen + 1 ≤ d.length := by
  obtain ⟨⟨hd, c⟩, hf⟩ := hr.accept h
  obtain ⟨h1, h2⟩ := directiveFront_ok hf
  exact ⟨hd, c, hf, h1, h2⟩

/-! ## bursts -/

/-- **burst on a PDU accepted by a directive decoder**: `InvalidCrc` from every decoder that runs
    the directive front first -/
theorem RunsFirst.directive_burst {α β : Type} {dec : Bytes → Py α} {dec' : Bytes → Py β}
    (hr : RunsFirst directiveFront dec) (hr' : RunsFirst directiveFront dec')
    {d d' : Bytes} {r : α} {k : Nat} {B : List Bool}
    (ha : dec d = .ok r) (hc : cfdpCrcFlag d = 1) (hb : Crc.Burst d d' k B)
    (hB : B.length ≤ 16) (hne : B ≠ List.replicate B.length false)
    (hin : k + B.length ≤ 8 * cfdpDeclaredLen d) (hav : AvoidsFixedHeader k) : dec' d' = .error .crc := by
  obtain ⟨hd, c, hf, _, _⟩ := hr.directive_accept ha
  exact hr' d' _ (burst_directiveFront_crc hf hc hb hB hne hin hav)

/-- **burst on a PDU accepted by a decoder behind the plain front** (File Data) -/
theorem RunsFirst.plain_burst {α β : Type} {dec : Bytes → Py α} {dec' : Bytes → Py β}
    (hr : RunsFirst pduFront dec) (hr' : RunsFirst pduFront dec')
    {d d' : Bytes} {r : α} {k : Nat} {B : List Bool}
    (ha : dec d = .ok r) (hc : cfdpCrcFlag d = 1) (hb : Crc.Burst d d' k B)
    (hB : B.length ≤ 16) (hne : B ≠ List.replicate B.length false)
    (hin : k + B.length ≤ 8 * cfdpDeclaredLen d) (hav : AvoidsFixedHeader k) : dec' d' = .error .crc := by
  obtain ⟨hd, hf⟩ := hr.accept ha
  exact hr' d' _ (burst_front_crc hf hc hb hB hne hin hav)

/-- what the burst leaves alone, seen from the buffer: declared length, and the CRC is now non-zero -/
theorem burst_declared {d d' : Bytes} {h : PduHeader} {k : Nat} {B : List Bool}
    (ha : pduFront d = .ok h) (hc : cfdpCrcFlag d = 1) (hb : Crc.Burst d d' k B)
    (hB : B.length ≤ 16) (hne : B ≠ List.replicate B.length false)
    (hin : k + B.length ≤ 8 * cfdpDeclaredLen d) (hav : AvoidsFixedHeader k) :
    cfdpDeclaredLen d' = cfdpDeclaredLen d ∧ cfdpCrcFlag d' = 1 ∧
    Crc.crc16 (d'.take (cfdpDeclaredLen d')) ≠ 0 := by
  obtain ⟨_, _, _, _, _, _, hne0⟩ := burst_verify_crc ha hc hb hB hne hin hav
  obtain ⟨_, f2, f3⟩ := fixed_congr (burst_fixed hb hav)
  exact ⟨f2, by rw [f3, hc], hne0⟩

/-! ## what the octets 0–3 of a laid-out header say -/

/-- declared length and CRC flag read off a C05-layout header followed by anything -/
theorem spec_fixed (h : PduHeader) (wf : Props.C05.WF h) (tail : Bytes) :
    cfdpDeclaredLen (Props.C05.Spec.octets h ++ tail) = h.packetLen ∧
    cfdpCrcFlag (Props.C05.Spec.octets h ++ tail) = h.conf.crcFlag := by
  obtain ⟨e1, e2, _, _⟩ := unpack_fixed (Props.C05.C05_roundtrip h wf tail)
  exact ⟨e1.symm, e2.symm⟩

/-- the two fronts on a buffer whose header decodes, has room for the directive octet, and fails
    `verify_length_and_checksum` with `InvalidCrc` -/
theorem fronts_crc_of_verify {d : Bytes} {h : PduHeader} (hu : PduHeader.unpack d = .ok h)
    (hv : h.verifyLengthAndChecksum d = .error .crc) :
    pduFront d = .error .crc ∧ (h.headerLen < d.length → directiveFront d = .error .crc) := by
  refine ⟨by simp [pduFront, hu, hv, bind, Except.bind], fun hl => ?_⟩
  have g : ¬ h.headerLen + 1 > d.length := by omega
  simp only [directiveFront, hu, bind, Except.bind, g, ↓reduceIte, idx_ok hl, hv]

/-- **acceptance implies CRC**, decoder behind the directive front -/
theorem RunsFirst.directive_accept_crc {α : Type} {dec : Bytes → Py α} (hr : RunsFirst directiveFront dec)
    {d : Bytes} {r : α} (ha : dec d = .ok r) (hc : cfdpCrcFlag d = 1) :
    cfdpDeclaredLen d ≤ d.length ∧ Crc.crc16 (d.take (cfdpDeclaredLen d)) = 0 := by
  obtain ⟨hd, _, _, hf, _⟩ := hr.directive_accept ha
  exact (front_accept_crc hf hc).2

/-- **acceptance implies CRC**, decoder behind the plain front -/
theorem RunsFirst.plain_accept_crc {α : Type} {dec : Bytes → Py α} (hr : RunsFirst pduFront dec)
    {d : Bytes} {r : α} (ha : dec d = .ok r) (hc : cfdpCrcFlag d = 1) :
    cfdpDeclaredLen d ≤ d.length ∧ Crc.crc16 (d.take (cfdpDeclaredLen d)) = 0 := by
  obtain ⟨hd, hf⟩ := hr.accept ha
  exact (front_accept_crc hf hc).2

/-- burst rejection with the facts about the corrupted buffer, directive decoders -/
theorem RunsFirst.directive_reject {α : Type} {dec : Bytes → Py α} (hr : RunsFirst directiveFront dec)
    {d d' : Bytes} {r : α} {k : Nat} {B : List Bool}
    (ha : dec d = .ok r) (hc : cfdpCrcFlag d = 1) (hb : Crc.Burst d d' k B)
    (hB : B.length ≤ 16) (hne : B ≠ List.replicate B.length false)
    (hin : k + B.length ≤ 8 * cfdpDeclaredLen d) (hav : AvoidsFixedHeader k) :
    dec d' = .error .crc ∧ cfdpDeclaredLen d' = cfdpDeclaredLen d ∧ cfdpCrcFlag d' = 1 ∧
    Crc.crc16 (d'.take (cfdpDeclaredLen d')) ≠ 0 := by
  obtain ⟨hd, _, _, hf, _⟩ := hr.directive_accept ha
  exact ⟨hr.directive_burst hr ha hc hb hB hne hin hav, burst_declared hf hc hb hB hne hin hav⟩

/-- burst rejection with the facts about the corrupted buffer, File Data decoder -/
theorem RunsFirst.plain_reject {α : Type} {dec : Bytes → Py α} (hr : RunsFirst pduFront dec)
    {d d' : Bytes} {r : α} {k : Nat} {B : List Bool}
    (ha : dec d = .ok r) (hc : cfdpCrcFlag d = 1) (hb : Crc.Burst d d' k B)
    (hB : B.length ≤ 16) (hne : B ≠ List.replicate B.length false)
    (hin : k + B.length ≤ 8 * cfdpDeclaredLen d) (hav : AvoidsFixedHeader k) :
    dec d' = .error .crc ∧ cfdpDeclaredLen d' = cfdpDeclaredLen d ∧ cfdpCrcFlag d' = 1 ∧
    Crc.crc16 (d'.take (cfdpDeclaredLen d')) ≠ 0 := by
  obtain ⟨hd, hf⟩ := hr.accept ha
  exact ⟨hr.plain_burst hr ha hc hb hB hne hin hav, burst_declared hf hc hb hB hne hin hav⟩

/-- `flipBurst` on a packed unit followed by anything is a burst of that buffer -/
theorem flip_packed (p rest : Bytes) (k : Nat) (B : List Bool) (hin : k + B.length ≤ 8 * p.length) :
    Crc.Burst (p ++ rest) (Crc.flipBurst (p ++ rest) k B) k B :=
  Crc.flipBurst_spec _ _ _ (by simp only [List.length_append]; omega)

/-! ## the tail of every `pack()` -/

/-- `x`, when it succeeds, returns `withCrc c body` for some `body` -/
def EndsCrc (c : Nat) (x : Py Bytes) : Prop := ∀ raw, x = .ok raw → ∃ body, raw = withCrc c body

theorem EndsCrc.pure (c : Nat) (body : Bytes) : EndsCrc c (Pure.pure (withCrc c body)) := by
  intro raw h; exact ⟨body, (Except.ok.inj h).symm⟩

theorem EndsCrc.bind {α : Type} {c : Nat} {m : Py α} {f : α → Py Bytes} (h : ∀ a, EndsCrc c (f a)) :
    EndsCrc c (m >>= f) := by
  intro raw hr
  cases m with
  | error e => cases hr
  | ok a => exact h a raw hr

theorem EndsCrc.ite {c : Nat} {p : Prop} [Decidable p] {a b : Py Bytes} (ha : EndsCrc c a) (hb : EndsCrc c b) :
    EndsCrc c (if p then a else b) := by
  split
  · exact ha
  · exact hb

/-- with the flag set: body ‖ CRC-16(body), residue zero -/
theorem EndsCrc.valid {x : Py Bytes} (h : EndsCrc 1 x) {raw : Bytes} (hr : x = .ok raw) :
    (∃ body, raw = body ++ Crc.crcTrailer body) ∧ Crc.crc16 raw = 0 := by
  obtain ⟨body, rfl⟩ := h raw hr
  exact ⟨⟨body, by simp [withCrc]⟩, by simp [withCrc, Crc.crc16_residue]⟩

/-- an octet string that starts with a laid-out header, of the header's declared length -/
theorem laid_out (S : Bytes) (h : PduHeader) (wf : Props.C05.WF h) (hS : ∃ A, S = Props.C05.Spec.octets h ++ A)
    (hlen : S.length = h.packetLen) (hc : h.conf.crcFlag = 1) (rest : Bytes) :
    cfdpDeclaredLen (S ++ rest) = S.length ∧ cfdpCrcFlag (S ++ rest) = 1 := by
  obtain ⟨A, rfl⟩ := hS
  rw [List.append_assoc, hlen, ← hc]
  exact spec_fixed h wf _

end SpVerif.CfdpCrc

namespace SpVerif.Factory
open SpVerif SpVerif.CfdpHeader SpVerif.CfdpFront SpVerif.FileDirective SpVerif.CfdpCrc

/-- the front a kind's decoder runs first: the plain one for File Data, the directive one otherwise -/
theorem decoderOf_runsFirst (k : Kind) :
    (k = .fileData → RunsFirst pduFront (decoderOf k)) ∧
    (k ≠ .fileData → RunsFirst directiveFront (decoderOf k)) := by
  cases k
  · exact ⟨fun _ => runsFirst_fileData.map _, fun h => absurd rfl h⟩
  · refine ⟨fun h => (by cases h), fun _ => ?_⟩
    have := (runsFirst_prelude_bind (fun _ => Eof.parse)).map AnyPdu.eof
    intro d e he; simpa [decoderOf, Eof.unpack_eq] using this d e he
  · refine ⟨fun h => (by cases h), fun _ => ?_⟩
    have := (runsFirst_prelude_bind (fun _ => Finished.parse)).map AnyPdu.finished
    intro d e he; simpa [decoderOf, Finished.unpack_eq] using this d e he
  · refine ⟨fun h => (by cases h), fun _ => ?_⟩
    have := (runsFirst_prelude_bind (fun _ => Ack.parse)).map AnyPdu.ack
    intro d e he; simpa [decoderOf, Ack.unpack_eq] using this d e he
  · refine ⟨fun h => (by cases h), fun _ => ?_⟩
    have := (runsFirst_prelude_bind (fun _ => Metadata.parse)).map AnyPdu.metadata
    intro d e he; simpa [decoderOf, Metadata.unpack_eq] using this d e he
  · refine ⟨fun h => (by cases h), fun _ => ?_⟩
    have := (runsFirst_prelude_bind (fun d => Nak.parse d.length)).map AnyPdu.nak
    intro d e he; simpa [decoderOf, Nak.unpack_eq] using this d e he
  · refine ⟨fun h => (by cases h), fun _ => ?_⟩
    have := (runsFirst_prelude_bind (fun _ => Prompt.parse)).map AnyPdu.prompt
    intro d e he; simpa [decoderOf, Prompt.unpack_eq] using this d e he
  · refine ⟨fun h => (by cases h), fun _ => ?_⟩
    have := (runsFirst_prelude_bind (fun _ => KeepAlive.parse)).map AnyPdu.keepAlive
    intro d e he; simpa [decoderOf, KeepAlive.unpack_eq] using this d e he

/-- whatever decoder of the table accepts a buffer, the plain front accepts it -/
theorem decoderOf_accept_front {k : Kind} {d : Bytes} {p : AnyPdu} (h : decoderOf k d = .ok p) :
    ∃ hd, pduFront d = .ok hd := by
  by_cases hk : k = .fileData
  · exact ((decoderOf_runsFirst k).1 hk).accept h
  · obtain ⟨hd, _, _, hf, _⟩ := ((decoderOf_runsFirst k).2 hk).directive_accept h
    exact ⟨hd, hf⟩

/-- a PDU object returned by the factory was returned by one of the eight decoders -/
theorem fromRaw_some_inv {d : Bytes} {p : AnyPdu} (h : fromRaw d = .ok (some p)) :
    ∃ k, decoderOf k d = .ok p := by
  cases d with
  | nil => cases h
  | cons x r =>
    rw [fromRaw_cons] at h
    split at h
    · exact ⟨.fileData, decodeAs_inv _ _ _ h⟩
    · cases hd : pduDirectiveType (x :: r) with
      | error e => rw [hd] at h; cases h
      | ok dir =>
        rw [hd] at h
        change dispatch dir (x :: r) = _ at h
        unfold dispatch at h
        repeat' split at h
        all_goals first
          | exact ⟨_, decodeAs_inv _ _ _ h⟩
          | cases h

theorem idx_congr {d d' : Bytes} {i : Nat} (h : d'[i]? = d[i]?) : idx d' i = idx d i := by
  unfold idx; rw [h]

/-- the PDU type bit is read off octet 0 -/
theorem pduType_congr {d d' : Bytes} (h : d'[0]? = d[0]?) : pduType d' = pduType d := by
  cases d with
  | nil =>
    cases d' with
    | nil => rfl
    | cons y r' => simp at h
  | cons x r =>
    cases d' with
    | nil => simp at h
    | cons y r' =>
      simp only [List.getElem?_cons_zero, Option.some.injEq] at h
      subst h; rw [pduType_cons, pduType_cons]

theorem decodeAs_crc_directive {k : Kind} (hk : k ≠ .fileData) {d : Bytes}
    (h : directiveFront d = .error .crc) : decodeAs k d = .error .crc := by
  unfold decodeAs; rw [(decoderOf_runsFirst k).2 hk d _ h]; rfl

theorem decodeAs_crc_fileData {d : Bytes} (h : pduFront d = .error .crc) :
    decodeAs .fileData d = .error .crc := by
  unfold decodeAs; rw [(decoderOf_runsFirst .fileData).1 rfl d _ h]; rfl

/-- the `if … elif …` chain on a buffer the directive front refuses with `InvalidCrc` -/
theorem dispatch_crc {d : Bytes} (h : directiveFront d = .error .crc) (dir : Option Nat) :
    dispatch dir d = .error .crc ∨ dispatch dir d = .ok none := by
  unfold dispatch
  repeat' split
  all_goals first
    | exact Or.inl (decodeAs_crc_directive (by decide) h)
    | exact Or.inr rfl

/-- a PDU object out of the chain: the directive selected one directive decoder, for every buffer -/
theorem dispatch_some_inv {dir : Option Nat} {d : Bytes} {p : AnyPdu} (h : dispatch dir d = .ok (some p)) :
    ∃ k, k ≠ Kind.fileData ∧ ∀ d', dispatch dir d' = decodeAs k d' := by
  unfold dispatch at h
  repeat' split at h
  all_goals first
    | cases h
    | (rename_i hdir; subst hdir; exact ⟨_, by decide, fun _ => rfl⟩)

end SpVerif.Factory
