import SpVerif.Model.Tlv
import SpVerif.Proofs.Lv
/-!
# Characterisation lemmas for the TLV codecs (`Model/Tlv.lean`), reusable by C06/C09/C10/C18

For the generic TLV and every concrete class:
* closed form of the decoder on every input (`unpack_short`, `unpack_cons2`, `fromTlv_eq`, `unpack_bind`);
* acceptance guard (`unpack_ok_iff`), the possible errors (`unpack_err`: `value`, and `tlvType` for
  the concrete classes) and `Documented`;
* prefix lemma `unpack (type :: len :: v ++ rest) = ok …`, prefix stability `unpack_append`
  (octets after the TLV never matter), `unpack_spec` (the input starts with the re-encoding of
  what was decoded, consumed length = `packetLen`);
* `pack` in closed form and `pack_length` (`pack = ok b → b.length = packetLen`), for all values.
-/
namespace SpVerif.Tlv
open SpVerif SpVerif.Lv

/-- `a << 4 | b` on a nibble `b` is `a * 16 + b` -/
theorem shl4_or (a b : Nat) (hb : b < 16) : (a <<< 4) ||| b = a * 16 + b := by
  rw [← Nat.shiftLeft_add_eq_or_of_lt (i := 4) (by simpa using hb) a, Nat.shiftLeft_eq]

/-! ## generic TLV -/

theorem CfdpTlv.new_ok {t : Nat} {v : Bytes} (h : v.length ≤ 255) : CfdpTlv.new t v = .ok ⟨t, v⟩ := by
  have : ¬ v.length > 255 := by omega
  simp [CfdpTlv.new, this]

theorem CfdpTlv.new_err {t : Nat} {v : Bytes} (h : 255 < v.length) : CfdpTlv.new t v = .error .value := by
  simp [CfdpTlv.new, h]

theorem CfdpTlv.pack_eq (t : CfdpTlv) (ht : t.ttype < 256) (hv : t.value.length ≤ 255) :
    t.pack = .ok (u8 t.ttype :: u8 t.value.length :: t.value) := by
  unfold CfdpTlv.pack
  rw [byteOfN_ok ht, byteOfN_ok (by omega)]
  rfl

/-- whenever `pack` succeeds (for any object, also hand-built ones) it has `packetLen` octets
    and is type, length, value -/
theorem CfdpTlv.pack_ok (t : CfdpTlv) (b : Bytes) (h : t.pack = .ok b) :
    t.ttype < 256 ∧ t.value.length ≤ 255 ∧ b = u8 t.ttype :: u8 t.value.length :: t.value := by
  unfold CfdpTlv.pack byteOfN at h
  by_cases h1 : t.ttype < 256
  · by_cases h2 : t.value.length < 256
    · simp only [h1, h2, ↓reduceIte, bind, Except.bind, pure, Except.pure, Except.ok.injEq] at h
      exact ⟨h1, by omega, h.symm⟩
    · simp [h1, h2, bind, Except.bind] at h
  · simp [h1, bind, Except.bind] at h

theorem CfdpTlv.pack_length (t : CfdpTlv) (b : Bytes) (h : t.pack = .ok b) : b.length = t.packetLen := by
  obtain ⟨_, _, hb⟩ := CfdpTlv.pack_ok t b h
  subst hb; simp [CfdpTlv.packetLen]; omega

theorem CfdpTlv.unpack_short (d : Bytes) (h : d.length < 2) : CfdpTlv.unpack d = .error .value := by
  simp [CfdpTlv.unpack, h, throw, throwThe, MonadExceptOf.throw, bind, Except.bind]

/-- the decoder on an input of at least two octets, in closed form -/
theorem CfdpTlv.unpack_cons2 (ty n : UInt8) (r : Bytes) :
    CfdpTlv.unpack (ty :: n :: r) =
      if ty.toNat ∈ tlvTypes ∧ n.toNat ≤ r.length then .ok ⟨ty.toNat, r.take n.toNat⟩
      else .error .value := by
  have hn := toNat_lt n
  unfold CfdpTlv.unpack
  simp only [List.length_cons, show ¬ (r.length + 1 + 1 < 2) by omega, ↓reduceIte, bind, Except.bind,
    idx_ok (show 0 < (ty :: n :: r).length by simp), idx_ok (show 1 < (ty :: n :: r).length by simp),
    List.getElem_cons_zero, List.getElem_cons_succ, throw, throwThe, MonadExceptOf.throw, enumOf]
  by_cases ht : ty.toNat ∈ tlvTypes
  · simp only [ht, ↓reduceIte, true_and]
    by_cases h : n.toNat ≤ r.length
    · have g : ¬ (2 + n.toNat > r.length + 1 + 1) := by omega
      have hs : slice (ty :: n :: r) 2 (2 + n.toNat) = r.take n.toNat := by
        simp [slice, Nat.add_comm 2 n.toNat]
      simp only [g, h, ↓reduceIte, hs]
      rw [CfdpTlv.new_ok (by simp; omega)]
    · have g : 2 + n.toNat > r.length + 1 + 1 := by omega
      simp [g, h]
  · simp [ht]

theorem CfdpTlv.unpack_ok_iff (d : Bytes) (t : CfdpTlv) :
    CfdpTlv.unpack d = .ok t ↔
      ∃ ty n r, d = ty :: n :: r ∧ ty.toNat ∈ tlvTypes ∧ n.toNat ≤ r.length ∧
        t = ⟨ty.toNat, r.take n.toNat⟩ := by
  match d with
  | [] => simp [CfdpTlv.unpack_short]
  | [x] => simp [CfdpTlv.unpack_short]
  | ty :: n :: r =>
    rw [CfdpTlv.unpack_cons2]
    constructor
    · intro h
      by_cases hg : ty.toNat ∈ tlvTypes ∧ n.toNat ≤ r.length
      · simp only [hg, and_self, ↓reduceIte, Except.ok.injEq] at h
        exact ⟨ty, n, r, rfl, hg.1, hg.2, h.symm⟩
      · simp [hg] at h
    · rintro ⟨ty', n', r', he, ht, hn, hl⟩
      cases he
      simp [ht, hn, hl]

/-- the generic decoder fails only with `ValueError` (too short, no TLV type, length exceeds input) -/
theorem CfdpTlv.unpack_err (d : Bytes) (e : Err) (h : CfdpTlv.unpack d = .error e) : e = .value := by
  match d with
  | [] => rw [CfdpTlv.unpack_short _ (by simp)] at h; cases h; rfl
  | [x] => rw [CfdpTlv.unpack_short _ (by simp)] at h; cases h; rfl
  | ty :: n :: r =>
    rw [CfdpTlv.unpack_cons2] at h
    split at h
    · cases h
    · cases h; rfl

theorem CfdpTlv.unpack_documented (d : Bytes) : Documented (CfdpTlv.unpack d) := by
  intro e h; rw [CfdpTlv.unpack_err d e h]; rfl

/-- **prefix lemma** for the generic TLV -/
theorem CfdpTlv.unpack_pack_append (t : Nat) (v rest : Bytes) (ht : t ∈ tlvTypes) (h : v.length ≤ 255) :
    CfdpTlv.unpack (u8 t :: u8 v.length :: (v ++ rest)) = .ok ⟨t, v⟩ := by
  rw [CfdpTlv.unpack_cons2]
  have e : (u8 v.length).toNat = v.length := by simp; omega
  have e2 : (u8 t).toNat = t := by
    simp only [tlvTypes, List.mem_cons, List.not_mem_nil, or_false] at ht
    simp; omega
  simp [e, e2, ht]

/-- **prefix stability** -/
theorem CfdpTlv.unpack_append (d rest : Bytes) (t : CfdpTlv) (h : CfdpTlv.unpack d = .ok t) :
    CfdpTlv.unpack (d ++ rest) = .ok t := by
  obtain ⟨ty, n, r, hd, ht, hn, hl⟩ := (CfdpTlv.unpack_ok_iff d t).1 h
  subst hd
  rw [List.cons_append, List.cons_append, CfdpTlv.unpack_cons2]
  have : n.toNat ≤ (r ++ rest).length := by simp; omega
  rw [if_pos ⟨ht, this⟩, hl, List.take_append_of_le_length hn]

/-- what an accepted input looks like: a TLV type octet, a length ≤ 255, and the input starts with
    exactly the encoding of the decoded TLV (consumed length = `packetLen`) -/
theorem CfdpTlv.unpack_spec (d : Bytes) (t : CfdpTlv) (h : CfdpTlv.unpack d = .ok t) :
    t.ttype ∈ tlvTypes ∧ t.value.length ≤ 255 ∧ t.packetLen ≤ d.length ∧
      d = u8 t.ttype :: u8 t.value.length :: t.value ++ d.drop t.packetLen := by
  obtain ⟨ty, n, r, hd, ht, hn, hl⟩ := (CfdpTlv.unpack_ok_iff d t).1 h
  subst hd hl
  have hb := toNat_lt n
  have e : (r.take n.toNat).length = n.toNat := by simp; omega
  refine ⟨ht, by rw [e]; omega, by simp [CfdpTlv.packetLen]; omega, ?_⟩
  simp only [CfdpTlv.packetLen, e, u8_toNat_self, Nat.add_comm 2 n.toNat, List.drop_succ_cons,
    List.cons_append, List.take_append_drop]

/-! ## entity ID, flow label, message to user -/

theorem EntityIdTlv.fromTlv_eq (t : CfdpTlv) :
    EntityIdTlv.fromTlv t = if t.ttype = tEntityId then .ok ⟨t⟩ else .error .tlvType := by
  unfold EntityIdTlv.fromTlv; by_cases h : t.ttype = tEntityId <;> simp [h]
theorem FlowLabelTlv.fromTlv_eq (t : CfdpTlv) :
    FlowLabelTlv.fromTlv t = if t.ttype = tFlowLabel then .ok ⟨t⟩ else .error .tlvType := by
  unfold FlowLabelTlv.fromTlv; by_cases h : t.ttype = tFlowLabel <;> simp [h]
theorem MessageToUserTlv.fromTlv_eq (t : CfdpTlv) :
    MessageToUserTlv.fromTlv t = if t.ttype = tMsgToUser then .ok ⟨t⟩ else .error .tlvType := by
  unfold MessageToUserTlv.fromTlv; by_cases h : t.ttype = tMsgToUser <;> simp [h]

/-- every concrete `unpack` is the generic decoder followed by `from_tlv` -/
theorem EntityIdTlv.unpack_bind (d : Bytes) :
    EntityIdTlv.unpack d = CfdpTlv.unpack d >>= EntityIdTlv.fromTlv := rfl
theorem FlowLabelTlv.unpack_bind (d : Bytes) :
    FlowLabelTlv.unpack d = CfdpTlv.unpack d >>= FlowLabelTlv.fromTlv := by
  unfold FlowLabelTlv.unpack
  cases CfdpTlv.unpack d with
  | error e => rfl
  | ok t =>
    simp only [bind, Except.bind, FlowLabelTlv.fromTlv_eq]
    by_cases h : t.ttype = tFlowLabel <;> simp [h, throw, throwThe, MonadExceptOf.throw, pure, Except.pure]
theorem MessageToUserTlv.unpack_bind (d : Bytes) :
    MessageToUserTlv.unpack d = CfdpTlv.unpack d >>= MessageToUserTlv.fromTlv := rfl

theorem EntityIdTlv.new_eq (v : Bytes) :
    EntityIdTlv.new v = if v.length ≤ 255 then .ok ⟨⟨tEntityId, v⟩⟩ else .error .value := by
  unfold EntityIdTlv.new
  by_cases h : v.length ≤ 255
  · rw [CfdpTlv.new_ok h]; simp [h, bind, Except.bind, pure, Except.pure]
  · rw [CfdpTlv.new_err (by omega)]; simp [h, bind, Except.bind]
theorem FlowLabelTlv.new_eq (v : Bytes) :
    FlowLabelTlv.new v = if v.length ≤ 255 then .ok ⟨⟨tFlowLabel, v⟩⟩ else .error .value := by
  unfold FlowLabelTlv.new
  by_cases h : v.length ≤ 255
  · rw [CfdpTlv.new_ok h]; simp [h, bind, Except.bind, pure, Except.pure]
  · rw [CfdpTlv.new_err (by omega)]; simp [h, bind, Except.bind]
theorem MessageToUserTlv.new_eq (v : Bytes) :
    MessageToUserTlv.new v = if v.length ≤ 255 then .ok ⟨⟨tMsgToUser, v⟩⟩ else .error .value := by
  unfold MessageToUserTlv.new
  by_cases h : v.length ≤ 255
  · rw [CfdpTlv.new_ok h]; simp [h, bind, Except.bind, pure, Except.pure]
  · rw [CfdpTlv.new_err (by omega)]; simp [h, bind, Except.bind]

/-! ## fault-handler override -/

theorem FaultHandlerOverrideTlv.fromTlv_eq (t : CfdpTlv) :
    FaultHandlerOverrideTlv.fromTlv t =
      if t.ttype ≠ tFaultHandler then .error .tlvType
      else match t.value with
        | [] => .error .value
        | v0 :: _ => .ok ⟨v0.toNat / 16, v0.toNat % 16, t⟩ := by
  unfold FaultHandlerOverrideTlv.fromTlv
  by_cases h : t.ttype ≠ tFaultHandler
  · simp [h, throw, throwThe, MonadExceptOf.throw, bind, Except.bind]
  · simp only [h, ↓reduceIte, bind, Except.bind, pure, Except.pure, throw, throwThe, MonadExceptOf.throw]
    cases hv : t.value with
    | nil => simp
    | cons v0 r =>
      have hb := toNat_lt v0
      have e : v0.toNat / 16 % 16 = v0.toNat / 16 := by omega
      simp [idx_ok, e]

theorem FaultHandlerOverrideTlv.unpack_bind (d : Bytes) :
    FaultHandlerOverrideTlv.unpack d = CfdpTlv.unpack d >>= FaultHandlerOverrideTlv.fromTlv := rfl

/-- the constructor on a non-negative condition code and nibble-sized codes -/
theorem FaultHandlerOverrideTlv.new_nat (cc hc : Nat) (hcc : cc < 16) (hhc : hc < 16) :
    FaultHandlerOverrideTlv.new (cc : Int) hc =
      .ok ⟨cc, hc, ⟨tFaultHandler, [u8 (cc * 16 + hc)]⟩⟩ := by
  unfold FaultHandlerOverrideTlv.new
  have h0 : ¬ ((cc : Int) < 0) := by omega
  simp only [h0, ↓reduceIte, Int.toNat_natCast, shl4_or cc hc hhc, bind, Except.bind, pure, Except.pure]
  rw [byteOfN_ok (by omega)]
  simp only [CfdpTlv.new_ok (show [u8 (cc * 16 + hc)].length ≤ 255 by simp)]

theorem FaultHandlerOverrideTlv.new_neg (cc : Int) (hc : Nat) (h : cc < 0) :
    FaultHandlerOverrideTlv.new cc hc = .error .value := by
  simp [FaultHandlerOverrideTlv.new, h, throw, throwThe, MonadExceptOf.throw, bind, Except.bind]

/-! ## filestore request / response -/

theorem mem_snp (a : Nat) : a ∈ snpActions ↔ a = 4 ∨ a = 2 ∨ a = 3 := by
  simp [snpActions]

theorem mem_actionCodes (a : Nat) : a ∈ actionCodes ↔ a ≤ 8 := by
  simp only [actionCodes, List.mem_cons, List.not_mem_nil, or_false]; omega

/-- layout of the common part of a filestore value field: action/status octet, first-name LV,
    second-name LV for the two-name actions -/
def fsValue (action status : Nat) (first second : Bytes) : Bytes :=
  u8 (action * 16 + status) :: u8 first.length ::
    (first ++ (if action ∈ snpActions then u8 second.length :: second else []))

theorem fsValue_length (a s : Nat) (f g : Bytes) :
    (fsValue a s f g).length = 2 + f.length + (if a ∈ snpActions then 1 + g.length else 0) := by
  unfold fsValue
  by_cases h : a ∈ snpActions <;> simp [h] <;> omega

theorem commonPacketLen_eq (a s : Nat) (f g : Bytes) :
    commonPacketLen a f g = (fsValue a s f g).length + 2 := by
  rw [fsValue_length]; unfold commonPacketLen
  by_cases h : a ∈ snpActions <;> simp [h] <;> omega

/-- `_common_packer` in closed form on nibble-sized codes and packable names -/
theorem commonPacker_eq (action status : Nat) (first second : Bytes)
    (ha : action < 16) (hs : status < 16) (h1 : first.length ≤ 255)
    (h2 : action ∈ snpActions → second.length ≤ 255) :
    commonPacker action first second status = .ok (fsValue action status first second) := by
  unfold commonPacker fsValue
  rw [shl4_or action status hs, byteOfN_ok (by omega), CfdpLv.new_ok h1]
  simp only [bind, Except.bind, pure, Except.pure]
  rw [CfdpLv.pack_eq _ h1]
  by_cases h : action ∈ snpActions
  · simp only [h, ↓reduceIte]
    rw [CfdpLv.new_ok (h2 h)]
    simp only []
    rw [CfdpLv.pack_eq _ (h2 h)]
    simp
  · simp [h]

/-- whenever `_common_packer` succeeds (any inputs), the names fit their LVs and
    `common_packet_len` is the length of the value field plus the two TLV header octets -/
theorem commonPacker_ok (action status : Nat) (first second b : Bytes)
    (h : commonPacker action first second status = .ok b) :
    first.length ≤ 255 ∧ (action ∈ snpActions → second.length ≤ 255) ∧
      b.length + 2 = commonPacketLen action first second := by
  unfold commonPacker at h
  cases hb0 : byteOfN ((action <<< 4) ||| status) with
  | error e => simp [hb0, bind, Except.bind] at h
  | ok b0 =>
    by_cases h1 : first.length ≤ 255
    · rw [hb0, CfdpLv.new_ok h1] at h
      simp only [bind, Except.bind, pure, Except.pure] at h
      rw [CfdpLv.pack_eq _ h1] at h
      by_cases hsnp : action ∈ snpActions
      · simp only [hsnp, ↓reduceIte] at h
        by_cases h2 : second.length ≤ 255
        · rw [CfdpLv.new_ok h2] at h
          simp only [] at h
          rw [CfdpLv.pack_eq _ h2] at h
          simp only [Except.ok.injEq] at h
          subst h
          refine ⟨h1, fun _ => h2, ?_⟩
          simp [commonPacketLen, hsnp]; omega
        · rw [CfdpLv.new_err (by omega)] at h; cases h
      · simp only [hsnp, ↓reduceIte, Except.ok.injEq] at h
        subst h
        refine ⟨h1, fun x => absurd x hsnp, ?_⟩
        simp [commonPacketLen, hsnp]; omega
    · rw [hb0, CfdpLv.new_err (by omega)] at h
      simp [bind, Except.bind] at h

theorem decodeUtf8_ok {b : Bytes} (h : utf8Valid b = true) : decodeUtf8 b = .ok b := by
  simp [decodeUtf8, h]

/-- `_common_unpacker` on a non-empty value field, with the index arithmetic resolved -/
theorem commonUnpacker_cons (b0 : UInt8) (r : Bytes) :
    commonUnpacker (b0 :: r) =
      (enumOf actionCodes (b0.toNat / 16) >>= fun action =>
       CfdpLv.unpack r >>= fun lv1 =>
       decodeUtf8 lv1.value >>= fun first =>
       if action ∈ snpActions then
         CfdpLv.unpack (r.drop lv1.packetLen) >>= fun lv2 =>
         decodeUtf8 lv2.value >>= fun second =>
         pure ⟨action, first, b0.toNat % 16, 1 + lv1.packetLen + lv2.packetLen, some second⟩
       else pure ⟨action, first, b0.toNat % 16, 1 + lv1.packetLen, none⟩) := by
  have hb := toNat_lt b0
  have e : b0.toNat / 16 % 16 = b0.toNat / 16 := by omega
  unfold commonUnpacker
  simp only [List.length_cons, show ¬ (r.length + 1 < 1) by omega, ↓reduceIte,
    idx_ok (show 0 < (b0 :: r).length by simp), List.getElem_cons_zero, e, List.drop_succ_cons,
    List.drop_zero, Nat.add_comm 1 (CfdpLv.packetLen _), bind_ok]

theorem commonUnpacker_nil : commonUnpacker [] = .error .value := by
  simp [commonUnpacker, throw, throwThe, MonadExceptOf.throw, bind, Except.bind]

/-- `_common_unpacker` on a well-formed common part followed by anything -/
theorem commonUnpacker_pack (action status : Nat) (first second tail : Bytes)
    (ha : action ∈ actionCodes) (hs : status < 16) (h1 : first.length ≤ 255)
    (h2 : second.length ≤ 255) (u1 : utf8Valid first = true) (u2 : utf8Valid second = true) :
    commonUnpacker (fsValue action status first second ++ tail) =
      .ok ⟨action, first, status, (fsValue action status first second).length,
           if action ∈ snpActions then some second else none⟩ := by
  have ha8 : action ≤ 8 := (mem_actionCodes action).1 ha
  have e0 : (u8 (action * 16 + status)).toNat = action * 16 + status := by simp; omega
  have e1 : (action * 16 + status) / 16 = action := by omega
  have e2 : (action * 16 + status) % 16 = status := by omega
  rw [fsValue_length]
  unfold fsValue
  rw [List.cons_append, commonUnpacker_cons, e0, e1, e2]
  have hen : enumOf actionCodes action = .ok action := by simp [enumOf, ha]
  rw [hen, bind_ok, List.cons_append, List.append_assoc, CfdpLv.unpack_pack_append first _ h1, bind_ok]
  simp only [decodeUtf8_ok u1, bind_ok, CfdpLv.packetLen]
  by_cases h : action ∈ snpActions
  · have hd : (u8 first.length :: (first ++ (u8 second.length :: second ++ tail))).drop (first.length + 1) =
        u8 second.length :: (second ++ tail) := by simp
    simp only [h, ↓reduceIte, hd, CfdpLv.unpack_pack_append second _ h2, bind_ok, decodeUtf8_ok u2]
    simp only [pure, Except.pure]
    congr 2
    omega
  · simp only [h, ↓reduceIte, pure, Except.pure]
    congr 2
    omega

theorem Documented.ite {α : Type} {c : Prop} [Decidable c] {x y : Py α}
    (hx : Documented x) (hy : Documented y) : Documented (if c then x else y) := by
  by_cases h : c <;> simp [h, hx, hy]

theorem enumOf_documented (m : List Nat) (v : Nat) : Documented (enumOf m v) := by
  unfold enumOf; exact Documented.ite (Documented.ok _) (Documented.err rfl)

theorem decodeUtf8_documented (b : Bytes) : Documented (decodeUtf8 b) := by
  unfold decodeUtf8; exact Documented.ite (Documented.ok _) (Documented.err rfl)

/-- `_common_unpacker` fails only with `ValueError`s -/
theorem commonUnpacker_documented (raw : Bytes) : Documented (commonUnpacker raw) := by
  cases raw with
  | nil => rw [commonUnpacker_nil]; exact Documented.err rfl
  | cons b0 r =>
    rw [commonUnpacker_cons]
    refine Documented.bind (enumOf_documented _ _) fun a _ => ?_
    refine Documented.bind (CfdpLv.unpack_documented _) fun l1 _ => ?_
    refine Documented.bind (decodeUtf8_documented _) fun f _ => ?_
    refine Documented.ite ?_ (Documented.ok _)
    refine Documented.bind (CfdpLv.unpack_documented _) fun l2 _ => ?_
    exact Documented.bind (decodeUtf8_documented _) fun g _ => Documented.ok _

/-! ### request -/

theorem FileStoreRequestTlv.fromTlv_eq (t : CfdpTlv) :
    FileStoreRequestTlv.fromTlv t =
      if t.ttype ≠ tFsRequest then .error .tlvType
      else commonUnpacker t.value >>= fun c =>
        if c.idx ≠ t.value.length then .error .value
        else .ok ⟨c.action, c.first, c.second.getD []⟩ := by
  unfold FileStoreRequestTlv.fromTlv
  by_cases h : t.ttype ≠ tFsRequest
  · simp [h, throw, throwThe, MonadExceptOf.throw, bind, Except.bind]
  · simp only [h, ↓reduceIte, bind, Except.bind, pure, Except.pure, throw, throwThe, MonadExceptOf.throw]
    cases commonUnpacker t.value with
    | error e => rfl
    | ok c =>
      by_cases hi : c.idx ≠ t.value.length
      · simp [hi]
      · cases hs : c.second <;> simp [hi, hs]

theorem FileStoreRequestTlv.unpack_bind (d : Bytes) :
    FileStoreRequestTlv.unpack d = CfdpTlv.unpack d >>= FileStoreRequestTlv.fromTlv := rfl

/-- `pack` of a request in closed form -/
theorem FileStoreRequestTlv.pack_eq (r : FileStoreRequestTlv) (ha : r.action < 16)
    (hv : (fsValue r.action 0 r.first r.second).length ≤ 255) :
    r.pack = .ok (u8 tFsRequest :: u8 (fsValue r.action 0 r.first r.second).length ::
      fsValue r.action 0 r.first r.second) := by
  have hl := fsValue_length r.action 0 r.first r.second
  have h1 : r.first.length ≤ 255 := by omega
  have h2 : r.action ∈ snpActions → r.second.length ≤ 255 := by
    intro h; simp only [h, ↓reduceIte] at hl; omega
  unfold FileStoreRequestTlv.pack FileStoreRequestTlv.buildTlv
  rw [commonPacker_eq _ _ _ _ ha (by omega) h1 h2]
  simp only [bind_ok, CfdpTlv.new_ok hv]
  rw [CfdpTlv.pack_eq _ (by simp [tFsRequest]) hv]

/-- whenever a request packs (any field values), the result has `packet_len` octets -/
theorem FileStoreRequestTlv.pack_length (r : FileStoreRequestTlv) (b : Bytes) (h : r.pack = .ok b) :
    b.length = r.packetLen := by
  unfold FileStoreRequestTlv.pack FileStoreRequestTlv.buildTlv at h
  cases hc : commonPacker r.action r.first r.second 0 with
  | error e => simp [hc, bind, Except.bind] at h
  | ok v =>
    obtain ⟨_, _, hlen⟩ := commonPacker_ok _ _ _ _ _ hc
    rw [hc] at h
    simp only [bind_ok] at h
    by_cases hv : v.length ≤ 255
    · rw [CfdpTlv.new_ok hv, bind_ok] at h
      have := CfdpTlv.pack_length _ _ h
      simp only [CfdpTlv.packetLen] at this
      unfold FileStoreRequestTlv.packetLen; omega
    · rw [CfdpTlv.new_err (by omega)] at h; cases h

/-- `from_tlv` on a well-formed request value followed, inside the value field, by `tail`:
    accepted exactly when there is nothing after the names (any status nibble) -/
theorem FileStoreRequestTlv.fromTlv_pack_tail (action status : Nat) (first second tail : Bytes)
    (ha : action ∈ actionCodes) (hs : status < 16) (h1 : first.length ≤ 255)
    (h2 : second.length ≤ 255) (u1 : utf8Valid first = true) (u2 : utf8Valid second = true) :
    FileStoreRequestTlv.fromTlv ⟨tFsRequest, fsValue action status first second ++ tail⟩ =
      if tail = [] then .ok ⟨action, first, if action ∈ snpActions then second else []⟩
      else .error .value := by
  rw [FileStoreRequestTlv.fromTlv_eq]
  simp only [ne_eq, not_true_eq_false, ↓reduceIte,
    commonUnpacker_pack action status first second tail ha hs h1 h2 u1 u2, bind_ok]
  cases tail with
  | nil => by_cases h : action ∈ snpActions <;> simp [h]
  | cons a r => simp

/-- `from_tlv` on a well-formed request value (any status nibble) -/
theorem FileStoreRequestTlv.fromTlv_pack (action status : Nat) (first second : Bytes)
    (ha : action ∈ actionCodes) (hs : status < 16) (h1 : first.length ≤ 255)
    (h2 : second.length ≤ 255) (u1 : utf8Valid first = true) (u2 : utf8Valid second = true) :
    FileStoreRequestTlv.fromTlv ⟨tFsRequest, fsValue action status first second⟩ =
      .ok ⟨action, first, if action ∈ snpActions then second else []⟩ := by
  have := FileStoreRequestTlv.fromTlv_pack_tail action status first second [] ha hs h1 h2 u1 u2
  simpa using this

/-- octets after the names inside the value field are refused (`ValueError`) -/
theorem FileStoreRequestTlv.fromTlv_slack (action status : Nat) (first second tail : Bytes)
    (ha : action ∈ actionCodes) (hs : status < 16) (h1 : first.length ≤ 255)
    (h2 : second.length ≤ 255) (u1 : utf8Valid first = true) (u2 : utf8Valid second = true)
    (ht : tail ≠ []) :
    FileStoreRequestTlv.fromTlv ⟨tFsRequest, fsValue action status first second ++ tail⟩ =
      .error .value := by
  rw [FileStoreRequestTlv.fromTlv_pack_tail action status first second tail ha hs h1 h2 u1 u2]
  simp [ht]

/-! ### response -/

theorem FileStoreResponseTlv.fromTlv_eq (t : CfdpTlv) :
    FileStoreResponseTlv.fromTlv t =
      if t.ttype ≠ tFsResponse then .error .tlvType
      else commonUnpacker t.value >>= fun c =>
        enumOf statusCodesNat (c.action * 16 + c.status) >>= fun st =>
        CfdpLv.unpack (t.value.drop c.idx) >>= fun m =>
        if c.idx + m.packetLen ≠ t.value.length then .error .value
        else .ok ⟨c.action, (st : Int), c.first, c.second.getD [], m⟩ := by
  unfold FileStoreResponseTlv.fromTlv
  by_cases h : t.ttype ≠ tFsResponse
  · simp [h, throw, throwThe, MonadExceptOf.throw, bind, Except.bind]
  · simp only [h, ↓reduceIte, bind, Except.bind, pure, Except.pure, throw, throwThe, MonadExceptOf.throw]
    cases commonUnpacker t.value with
    | error e => rfl
    | ok c =>
      simp only []
      cases enumOf statusCodesNat (c.action * 16 + c.status) with
      | error e => rfl
      | ok st =>
        simp only []
        cases CfdpLv.unpack (t.value.drop c.idx) with
        | error e => rfl
        | ok m =>
          by_cases hi : c.idx + m.packetLen ≠ t.value.length
          · simp [hi]
          · cases c.second <;> simp [hi]

theorem FileStoreResponseTlv.unpack_bind (d : Bytes) :
    FileStoreResponseTlv.unpack d = CfdpTlv.unpack d >>= FileStoreResponseTlv.fromTlv := rfl

/-- `status_code & 0x0F` is a nibble -/
theorem statusToInt_lt (s : Int) : statusToInt s < 16 := by
  unfold statusToInt; omega

/-- value field of a response: common part, then the filestore-message LV -/
def fsRespValue (r : FileStoreResponseTlv) : Bytes :=
  fsValue r.action (statusToInt r.status) r.first r.second ++ (u8 r.msg.value.length :: r.msg.value)

/-- `pack` of a response in closed form -/
theorem FileStoreResponseTlv.pack_eq (r : FileStoreResponseTlv) (ha : r.action < 16)
    (hv : (fsRespValue r).length ≤ 255) :
    r.pack = .ok (u8 tFsResponse :: u8 (fsRespValue r).length :: fsRespValue r) := by
  have hl := fsValue_length r.action (statusToInt r.status) r.first r.second
  have hv' := hv
  simp only [fsRespValue, List.length_append, List.length_cons] at hv'
  have h1 : r.first.length ≤ 255 := by omega
  have h2 : r.action ∈ snpActions → r.second.length ≤ 255 := by
    intro h; simp only [h, ↓reduceIte] at hl; omega
  have hm : r.msg.value.length ≤ 255 := by omega
  unfold FileStoreResponseTlv.pack FileStoreResponseTlv.buildTlv
  rw [commonPacker_eq _ _ _ _ ha (statusToInt_lt _) h1 h2, bind_ok, CfdpLv.pack_eq _ hm, bind_ok]
  have hv2 : (fsValue r.action (statusToInt r.status) r.first r.second ++
      (u8 r.msg.value.length :: r.msg.value)).length ≤ 255 := hv
  rw [CfdpTlv.new_ok hv2, bind_ok, CfdpTlv.pack_eq _ (by simp [tFsResponse]) hv2]
  rfl

/-- whenever a response packs (any field values), the result has `packet_len` octets -/
theorem FileStoreResponseTlv.pack_length (r : FileStoreResponseTlv) (b : Bytes) (h : r.pack = .ok b) :
    b.length = r.packetLen := by
  unfold FileStoreResponseTlv.pack FileStoreResponseTlv.buildTlv at h
  cases hc : commonPacker r.action r.first r.second (statusToInt r.status) with
  | error e => simp [hc, bind, Except.bind] at h
  | ok v =>
    obtain ⟨_, _, hlen⟩ := commonPacker_ok _ _ _ _ _ hc
    rw [hc, bind_ok] at h
    cases hm : r.msg.pack with
    | error e => simp [hm, bind, Except.bind] at h
    | ok m =>
      have hml := CfdpLv.pack_length _ _ hm
      rw [hm, bind_ok] at h
      by_cases hv : (v ++ m).length ≤ 255
      · rw [CfdpTlv.new_ok hv, bind_ok] at h
        have := CfdpTlv.pack_length _ _ h
        simp only [CfdpTlv.packetLen, List.length_append] at this
        unfold FileStoreResponseTlv.packetLen; omega
      · rw [CfdpTlv.new_err (by omega)] at h; cases h

/-- `from_tlv` on a well-formed response value followed, inside the value field, by `tail`:
    accepted exactly when there is nothing after the filestore-message LV -/
theorem FileStoreResponseTlv.fromTlv_pack_tail (action status : Nat) (first second msg tail : Bytes)
    (ha : action ∈ actionCodes) (hs : status < 16) (hst : action * 16 + status ∈ statusCodesNat)
    (h1 : first.length ≤ 255) (h2 : second.length ≤ 255) (hm : msg.length ≤ 255)
    (u1 : utf8Valid first = true) (u2 : utf8Valid second = true) :
    FileStoreResponseTlv.fromTlv
        ⟨tFsResponse, fsValue action status first second ++ (u8 msg.length :: (msg ++ tail))⟩ =
      if tail = [] then
        .ok ⟨action, ((action * 16 + status : Nat) : Int), first,
             if action ∈ snpActions then second else [], ⟨msg⟩⟩
      else .error .value := by
  rw [FileStoreResponseTlv.fromTlv_eq]
  simp only [ne_eq, not_true_eq_false, ↓reduceIte,
    commonUnpacker_pack action status first second _ ha hs h1 h2 u1 u2, bind_ok]
  have hen : enumOf statusCodesNat (action * 16 + status) = .ok (action * 16 + status) := by
    simp [enumOf, hst]
  rw [hen, bind_ok, List.drop_left' rfl, CfdpLv.unpack_pack_append msg tail hm, bind_ok]
  cases tail with
  | nil => by_cases h : action ∈ snpActions <;> simp [h, CfdpLv.packetLen]
  | cons a r => simp [CfdpLv.packetLen]

/-- `from_tlv` on a well-formed response value -/
theorem FileStoreResponseTlv.fromTlv_pack (action status : Nat) (first second msg : Bytes)
    (ha : action ∈ actionCodes) (hs : status < 16) (hst : action * 16 + status ∈ statusCodesNat)
    (h1 : first.length ≤ 255) (h2 : second.length ≤ 255) (hm : msg.length ≤ 255)
    (u1 : utf8Valid first = true) (u2 : utf8Valid second = true) :
    FileStoreResponseTlv.fromTlv
        ⟨tFsResponse, fsValue action status first second ++ (u8 msg.length :: msg)⟩ =
      .ok ⟨action, ((action * 16 + status : Nat) : Int), first,
           if action ∈ snpActions then second else [], ⟨msg⟩⟩ := by
  have := FileStoreResponseTlv.fromTlv_pack_tail action status first second msg [] ha hs hst h1 h2 hm u1 u2
  simpa using this

/-- octets after the filestore-message LV inside the value field are refused (`ValueError`) -/
theorem FileStoreResponseTlv.fromTlv_slack (action status : Nat) (first second msg tail : Bytes)
    (ha : action ∈ actionCodes) (hs : status < 16) (hst : action * 16 + status ∈ statusCodesNat)
    (h1 : first.length ≤ 255) (h2 : second.length ≤ 255) (hm : msg.length ≤ 255)
    (u1 : utf8Valid first = true) (u2 : utf8Valid second = true) (ht : tail ≠ []) :
    FileStoreResponseTlv.fromTlv
        ⟨tFsResponse, fsValue action status first second ++ (u8 msg.length :: (msg ++ tail))⟩ =
      .error .value := by
  rw [FileStoreResponseTlv.fromTlv_pack_tail action status first second msg tail ha hs hst h1 h2 hm u1 u2]
  simp [ht]

/-! ## `Documented` for every decoder (C10) and the type guarantee (C08) -/

theorem EntityIdTlv.fromTlv_documented (t : CfdpTlv) : Documented (EntityIdTlv.fromTlv t) := by
  rw [EntityIdTlv.fromTlv_eq]; exact Documented.ite (Documented.ok _) (Documented.err rfl)
theorem FlowLabelTlv.fromTlv_documented (t : CfdpTlv) : Documented (FlowLabelTlv.fromTlv t) := by
  rw [FlowLabelTlv.fromTlv_eq]; exact Documented.ite (Documented.ok _) (Documented.err rfl)
theorem MessageToUserTlv.fromTlv_documented (t : CfdpTlv) : Documented (MessageToUserTlv.fromTlv t) := by
  rw [MessageToUserTlv.fromTlv_eq]; exact Documented.ite (Documented.ok _) (Documented.err rfl)
theorem FaultHandlerOverrideTlv.fromTlv_documented (t : CfdpTlv) :
    Documented (FaultHandlerOverrideTlv.fromTlv t) := by
  rw [FaultHandlerOverrideTlv.fromTlv_eq]
  refine Documented.ite (Documented.err rfl) ?_
  cases t.value with
  | nil => exact Documented.err rfl
  | cons a r => exact Documented.ok _
theorem FileStoreRequestTlv.fromTlv_documented (t : CfdpTlv) :
    Documented (FileStoreRequestTlv.fromTlv t) := by
  rw [FileStoreRequestTlv.fromTlv_eq]
  exact Documented.ite (Documented.err rfl)
    (Documented.bind (commonUnpacker_documented _) fun _ _ =>
      Documented.ite (Documented.err rfl) (Documented.ok _))
theorem FileStoreResponseTlv.fromTlv_documented (t : CfdpTlv) :
    Documented (FileStoreResponseTlv.fromTlv t) := by
  rw [FileStoreResponseTlv.fromTlv_eq]
  refine Documented.ite (Documented.err rfl) ?_
  refine Documented.bind (commonUnpacker_documented _) fun c _ => ?_
  refine Documented.bind (enumOf_documented _ _) fun st _ => ?_
  exact Documented.bind (CfdpLv.unpack_documented _) fun m _ =>
    Documented.ite (Documented.err rfl) (Documented.ok _)

theorem EntityIdTlv.unpack_documented (d : Bytes) : Documented (EntityIdTlv.unpack d) := by
  rw [EntityIdTlv.unpack_bind]
  exact Documented.bind (CfdpTlv.unpack_documented d) fun t _ => EntityIdTlv.fromTlv_documented t
theorem FlowLabelTlv.unpack_documented (d : Bytes) : Documented (FlowLabelTlv.unpack d) := by
  rw [FlowLabelTlv.unpack_bind]
  exact Documented.bind (CfdpTlv.unpack_documented d) fun t _ => FlowLabelTlv.fromTlv_documented t
theorem MessageToUserTlv.unpack_documented (d : Bytes) : Documented (MessageToUserTlv.unpack d) := by
  rw [MessageToUserTlv.unpack_bind]
  exact Documented.bind (CfdpTlv.unpack_documented d) fun t _ => MessageToUserTlv.fromTlv_documented t
theorem FaultHandlerOverrideTlv.unpack_documented (d : Bytes) :
    Documented (FaultHandlerOverrideTlv.unpack d) := by
  rw [FaultHandlerOverrideTlv.unpack_bind]
  exact Documented.bind (CfdpTlv.unpack_documented d) fun t _ => FaultHandlerOverrideTlv.fromTlv_documented t
theorem FileStoreRequestTlv.unpack_documented (d : Bytes) : Documented (FileStoreRequestTlv.unpack d) := by
  rw [FileStoreRequestTlv.unpack_bind]
  exact Documented.bind (CfdpTlv.unpack_documented d) fun t _ => FileStoreRequestTlv.fromTlv_documented t
theorem FileStoreResponseTlv.unpack_documented (d : Bytes) : Documented (FileStoreResponseTlv.unpack d) := by
  rw [FileStoreResponseTlv.unpack_bind]
  exact Documented.bind (CfdpTlv.unpack_documented d) fun t _ => FileStoreResponseTlv.fromTlv_documented t

/-- generic prefix-stability transfer: a decoder of the form `CfdpTlv.unpack d >>= f` accepts
    `d ++ rest` with the same result whenever it accepts `d` -/
theorem bind_unpack_append {α : Type} (f : CfdpTlv → Py α) (d rest : Bytes) (x : α)
    (h : (CfdpTlv.unpack d >>= f) = .ok x) : (CfdpTlv.unpack (d ++ rest) >>= f) = .ok x := by
  cases ht : CfdpTlv.unpack d with
  | error e => rw [ht] at h; cases h
  | ok t => rw [CfdpTlv.unpack_append d rest t ht]; rw [ht] at h; exact h

/-! ## accepted filestore TLVs report exactly the declared TLV length -/

/-- `_common_unpacker` stays inside the value field, and the index it returns is what
    `common_packet_len()` computes from the decoded names (minus the two TLV header octets) -/
theorem commonUnpacker_idx_spec {v : Bytes} {c : Common} (h : commonUnpacker v = .ok c) :
    c.idx ≤ v.length ∧ commonPacketLen c.action c.first (c.second.getD []) = 2 + c.idx := by
  cases v with
  | nil => rw [commonUnpacker_nil] at h; cases h
  | cons b0 r =>
    rw [commonUnpacker_cons] at h
    cases ha : enumOf actionCodes (b0.toNat / 16) with
    | error e => simp [ha, bind, Except.bind] at h
    | ok action =>
      cases h1 : CfdpLv.unpack r with
      | error e => simp [ha, h1, bind, Except.bind] at h
      | ok lv1 =>
        obtain ⟨_, hle1, _⟩ := CfdpLv.unpack_spec r lv1 h1
        cases hu1 : decodeUtf8 lv1.value with
        | error e => simp [ha, h1, hu1, bind, Except.bind] at h
        | ok first =>
          have hf : first = lv1.value := by
            unfold decodeUtf8 at hu1
            split at hu1
            · exact (Except.ok.inj hu1).symm
            · cases hu1
          simp only [ha, h1, hu1, bind, Except.bind] at h
          by_cases hs : action ∈ snpActions
          · simp only [hs, ↓reduceIte] at h
            cases h2 : CfdpLv.unpack (r.drop lv1.packetLen) with
            | error e => simp [h2] at h
            | ok lv2 =>
              obtain ⟨_, hle2, _⟩ := CfdpLv.unpack_spec _ lv2 h2
              cases hu2 : decodeUtf8 lv2.value with
              | error e => simp [h2, hu2] at h
              | ok second =>
                have hg : second = lv2.value := by
                  unfold decodeUtf8 at hu2
                  split at hu2
                  · exact (Except.ok.inj hu2).symm
                  · cases hu2
                simp only [h2, hu2, pure, Except.pure] at h
                rw [← Except.ok.inj h]
                simp only [List.length_drop] at hle2
                simp only [commonPacketLen, hs, ↓reduceIte, Option.getD_some, hf, hg, CfdpLv.packetLen,
                  List.length_cons] at hle1 hle2 ⊢
                omega
          · simp only [hs, ↓reduceIte, pure, Except.pure] at h
            rw [← Except.ok.inj h]
            simp only [commonPacketLen, hs, ↓reduceIte, hf, CfdpLv.packetLen, List.length_cons] at hle1 ⊢
            omega

/-- **every accepted filestore request reports the declared TLV length** (all inputs) -/
theorem FileStoreRequestTlv.fromTlv_len_exact {t : CfdpTlv} {x : FileStoreRequestTlv}
    (h : FileStoreRequestTlv.fromTlv t = .ok x) : x.packetLen = t.packetLen := by
  rw [FileStoreRequestTlv.fromTlv_eq] at h
  split at h
  · cases h
  · cases hc : commonUnpacker t.value with
    | error e => simp [hc, bind, Except.bind] at h
    | ok c =>
      simp only [hc, bind, Except.bind] at h
      obtain ⟨_, hl⟩ := commonUnpacker_idx_spec hc
      split at h
      · cases h
      · rename_i hi
        rw [← Except.ok.inj h]
        simp only [FileStoreRequestTlv.packetLen, hl, CfdpTlv.packetLen]
        omega

/-- **every accepted filestore response reports the declared TLV length** (all inputs) -/
theorem FileStoreResponseTlv.fromTlv_len_exact {t : CfdpTlv} {x : FileStoreResponseTlv}
    (h : FileStoreResponseTlv.fromTlv t = .ok x) : x.packetLen = t.packetLen := by
  rw [FileStoreResponseTlv.fromTlv_eq] at h
  split at h
  · cases h
  · cases hc : commonUnpacker t.value with
    | error e => simp [hc, bind, Except.bind] at h
    | ok c =>
      simp only [hc, bind, Except.bind] at h
      obtain ⟨_, hl⟩ := commonUnpacker_idx_spec hc
      cases hst : enumOf statusCodesNat (c.action * 16 + c.status) with
      | error e => simp [hst] at h
      | ok st =>
        cases hm : CfdpLv.unpack (t.value.drop c.idx) with
        | error e => simp [hst, hm] at h
        | ok m =>
          simp only [hst, hm] at h
          split at h
          · cases h
          · rename_i hi
            rw [← Except.ok.inj h]
            simp only [FileStoreResponseTlv.packetLen, hl, CfdpTlv.packetLen]
            omega

/-- **prefix stability of every concrete decoder** (C09): octets after the TLV never matter -/
theorem EntityIdTlv.unpack_append (d rest : Bytes) (x : EntityIdTlv) (h : EntityIdTlv.unpack d = .ok x) :
    EntityIdTlv.unpack (d ++ rest) = .ok x := by
  rw [EntityIdTlv.unpack_bind] at h ⊢; exact bind_unpack_append _ d rest x h
theorem FlowLabelTlv.unpack_append (d rest : Bytes) (x : FlowLabelTlv) (h : FlowLabelTlv.unpack d = .ok x) :
    FlowLabelTlv.unpack (d ++ rest) = .ok x := by
  rw [FlowLabelTlv.unpack_bind] at h ⊢; exact bind_unpack_append _ d rest x h
theorem MessageToUserTlv.unpack_append (d rest : Bytes) (x : MessageToUserTlv)
    (h : MessageToUserTlv.unpack d = .ok x) : MessageToUserTlv.unpack (d ++ rest) = .ok x := by
  rw [MessageToUserTlv.unpack_bind] at h ⊢; exact bind_unpack_append _ d rest x h
theorem FaultHandlerOverrideTlv.unpack_append (d rest : Bytes) (x : FaultHandlerOverrideTlv)
    (h : FaultHandlerOverrideTlv.unpack d = .ok x) : FaultHandlerOverrideTlv.unpack (d ++ rest) = .ok x := by
  rw [FaultHandlerOverrideTlv.unpack_bind] at h ⊢; exact bind_unpack_append _ d rest x h
theorem FileStoreRequestTlv.unpack_append (d rest : Bytes) (x : FileStoreRequestTlv)
    (h : FileStoreRequestTlv.unpack d = .ok x) : FileStoreRequestTlv.unpack (d ++ rest) = .ok x := by
  rw [FileStoreRequestTlv.unpack_bind] at h ⊢; exact bind_unpack_append _ d rest x h
theorem FileStoreResponseTlv.unpack_append (d rest : Bytes) (x : FileStoreResponseTlv)
    (h : FileStoreResponseTlv.unpack d = .ok x) : FileStoreResponseTlv.unpack (d ++ rest) = .ok x := by
  rw [FileStoreResponseTlv.unpack_bind] at h ⊢; exact bind_unpack_append _ d rest x h

end SpVerif.Tlv
