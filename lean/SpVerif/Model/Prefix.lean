import SpVerif.Model.SpacePacket
import SpVerif.Model.PusTc
import SpVerif.Model.PusTm
import SpVerif.Model.Srv1
import SpVerif.Model.Cds
import SpVerif.Model.CfdpHeader
import SpVerif.Model.Lv
import SpVerif.Model.Tlv
import SpVerif.Model.UslpHeader
import SpVerif.Model.ByteField
/-!
# C09 — the table of self-delimiting units, and splitting a buffer by reported lengths

Nothing is re-modelled here: every decoder below is the model another property owns (and ties to
`/repo`). This file only adds

* `Codec` — a decoder together with the length its result *reports* (`packet_len`, `header_len`,
  `len()`, `len_packed`, `byte_len` … of the Python object),
* `Kind` / `Decoded` — the table of unit kinds (with the decoder's configuration: timestamp length,
  field widths, PFC, USLP version) and the sum of their results, so that a buffer holding units of
  *different* kinds can be described and so that adding a kind is one constructor and one table row,
* `splitN` / `splitKinds` / `splitStream` — "decode, drop the reported length, repeat": what a
  user does to a buffer of back-to-back units.
-/
namespace SpVerif.Prefix
open SpVerif SpVerif.SpacePacket SpVerif.PusTc SpVerif.PusTm SpVerif.Srv1 SpVerif.CfdpHeader SpVerif.Lv
  SpVerif.Tlv SpVerif.Uslp

/-- a decoder and the length its result reports -/
structure Codec (α : Type) where
  decode : Bytes → Py α
  len : α → Nat

/-! ## reported lengths the owning models do not already name -/

/-- `SpacePacketHeader.header_len` -/
def sphLen (_ : Sph) : Nat := 6
/-- `CdsShortTimestamp.len_packed` -/
def cdsLen (_ : Cds.Stamp) : Nat := Cds.TIMESTAMP_SIZE
/-- `len(RequestId.pack())` (the class has no length accessor; four octets always) -/
def reqIdLen (_ : ReqId) : Nat := 4
/-- `PacketFieldEnum.len()` on a decoded field (`check_pfc` has succeeded) -/
def pfeLen (f : Pfe) : Nat := roundDiv8 f.pfc
/-- `UnsignedByteField.byte_len` -/
def fieldLen (f : ByteField.Field) : Nat := f.width

/-! ## the codecs -/

def sphCodec : Codec Sph := ⟨Sph.unpack, sphLen⟩
def tcCodec : Codec Tc := ⟨Tc.unpack, Tc.packetLen⟩
def tmCodec (tsLen : Nat) : Codec Tm := ⟨fun d => Tm.unpack d tsLen, Tm.packetLen⟩
def s17Codec (tsLen : Nat) : Codec Tm := ⟨fun d => srv17Unpack d tsLen, Tm.packetLen⟩
def s1Codec (tsLen sb eb : Nat) : Codec S1Tm := ⟨fun d => S1Tm.unpack d tsLen sb eb, fun s => s.tm.packetLen⟩
def cdsCodec : Codec Cds.Stamp := ⟨Cds.unpackFromRaw, cdsLen⟩
def reqIdCodec : Codec ReqId := ⟨ReqId.unpack, reqIdLen⟩
def pfeCodec (pfc : Nat) : Codec Pfe := ⟨fun d => Pfe.unpack d pfc, pfeLen⟩
def cfdpHdrCodec : Codec PduHeader := ⟨PduHeader.unpack, PduHeader.headerLen⟩
def lvCodec : Codec CfdpLv := ⟨CfdpLv.unpack, CfdpLv.packetLen⟩
def tlvCodec : Codec CfdpTlv := ⟨CfdpTlv.unpack, CfdpTlv.packetLen⟩
def entityIdCodec : Codec EntityIdTlv := ⟨EntityIdTlv.unpack, EntityIdTlv.packetLen⟩
def flowLabelCodec : Codec FlowLabelTlv := ⟨FlowLabelTlv.unpack, FlowLabelTlv.packetLen⟩
def msgToUserCodec : Codec MessageToUserTlv := ⟨MessageToUserTlv.unpack, MessageToUserTlv.packetLen⟩
def faultHandlerCodec : Codec FaultHandlerOverrideTlv :=
  ⟨FaultHandlerOverrideTlv.unpack, FaultHandlerOverrideTlv.packetLen⟩
def fsRequestCodec : Codec FileStoreRequestTlv := ⟨FileStoreRequestTlv.unpack, FileStoreRequestTlv.packetLen⟩
def fsResponseCodec : Codec FileStoreResponseTlv := ⟨FileStoreResponseTlv.unpack, FileStoreResponseTlv.packetLen⟩
def uslpPrimaryCodec (ver : Nat) : Codec PrimaryHeader :=
  ⟨fun d => (PrimaryHeader.unpack d ver).toPy, PrimaryHeader.len⟩
def uslpTruncatedCodec (ver : Nat) : Codec TruncatedHeader :=
  ⟨fun d => (TruncatedHeader.unpack d ver).toPy, TruncatedHeader.len⟩
/-- `ByteFieldGenerator.from_bytes(n, stream)` (and through it `from_u8_bytes` … `from_u64_bytes`) -/
def byteFieldCodec (n : Nat) : Codec ByteField.Field := ⟨fun d => ByteField.genFromBytes (n : Int) d, fieldLen⟩

/-- the length a TLV *declares*: two octets of type and length plus the value of the length octet
    (`0` when there is no length octet). For every TLV kind except the two filestore classes the
    decoded object reports exactly this; the filestore classes report the length of what they
    *re-encode* (`common_packet_len`), which is smaller when the value field holds more than the
    names (an input no encoder of the library produces). -/
def tlvDeclaredLen (d : Bytes) : Nat :=
  match d[1]? with
  | some n => 2 + n.toNat
  | none => 0

/-! ## the table of kinds -/

/-- a unit kind together with the configuration its decoder is called with -/
inductive Kind
  | sph | tc | tm (tsLen : Nat) | s17 (tsLen : Nat) | s1 (tsLen stepBytes errBytes : Nat)
  | cds | reqId | pfe (pfc : Nat) | cfdpHdr | lv | tlv
  | entityId | flowLabel | msgToUser | faultHandler | fsRequest | fsResponse
  | uslpPrimary (ver : Nat) | uslpTruncated (ver : Nat) | byteField (n : Nat)
deriving DecidableEq, Repr

/-- the result of decoding a unit of some kind -/
inductive Decoded
  | sph (h : Sph) | tc (t : Tc) | tm (t : Tm) | s1 (s : S1Tm)
  | cds (s : Cds.Stamp) | reqId (r : ReqId) | pfe (f : Pfe) | cfdpHdr (h : PduHeader)
  | lv (l : CfdpLv) | tlv (t : CfdpTlv)
  | entityId (t : EntityIdTlv) | flowLabel (t : FlowLabelTlv) | msgToUser (t : MessageToUserTlv)
  | faultHandler (t : FaultHandlerOverrideTlv) | fsRequest (t : FileStoreRequestTlv)
  | fsResponse (t : FileStoreResponseTlv)
  | uslpPrimary (h : PrimaryHeader) | uslpTruncated (h : TruncatedHeader) | byteField (f : ByteField.Field)
deriving DecidableEq, Repr

/-- the decoder of a kind -/
def Kind.decode : Kind → Bytes → Py Decoded
  | .sph, d => Decoded.sph <$> sphCodec.decode d
  | .tc, d => Decoded.tc <$> tcCodec.decode d
  | .tm n, d => Decoded.tm <$> (tmCodec n).decode d
  | .s17 n, d => Decoded.tm <$> (s17Codec n).decode d
  | .s1 n sb eb, d => Decoded.s1 <$> (s1Codec n sb eb).decode d
  | .cds, d => Decoded.cds <$> cdsCodec.decode d
  | .reqId, d => Decoded.reqId <$> reqIdCodec.decode d
  | .pfe pfc, d => Decoded.pfe <$> (pfeCodec pfc).decode d
  | .cfdpHdr, d => Decoded.cfdpHdr <$> cfdpHdrCodec.decode d
  | .lv, d => Decoded.lv <$> lvCodec.decode d
  | .tlv, d => Decoded.tlv <$> tlvCodec.decode d
  | .entityId, d => Decoded.entityId <$> entityIdCodec.decode d
  | .flowLabel, d => Decoded.flowLabel <$> flowLabelCodec.decode d
  | .msgToUser, d => Decoded.msgToUser <$> msgToUserCodec.decode d
  | .faultHandler, d => Decoded.faultHandler <$> faultHandlerCodec.decode d
  | .fsRequest, d => Decoded.fsRequest <$> fsRequestCodec.decode d
  | .fsResponse, d => Decoded.fsResponse <$> fsResponseCodec.decode d
  | .uslpPrimary v, d => Decoded.uslpPrimary <$> (uslpPrimaryCodec v).decode d
  | .uslpTruncated v, d => Decoded.uslpTruncated <$> (uslpTruncatedCodec v).decode d
  | .byteField n, d => Decoded.byteField <$> (byteFieldCodec n).decode d

/-- the length a decoded unit reports -/
def Decoded.len : Decoded → Nat
  | .sph h => sphLen h
  | .tc t => t.packetLen
  | .tm t => t.packetLen
  | .s1 s => s.tm.packetLen
  | .cds s => cdsLen s
  | .reqId r => reqIdLen r
  | .pfe f => pfeLen f
  | .cfdpHdr h => h.headerLen
  | .lv l => l.packetLen
  | .tlv t => t.packetLen
  | .entityId t => t.packetLen
  | .flowLabel t => t.packetLen
  | .msgToUser t => t.packetLen
  | .faultHandler t => t.packetLen
  | .fsRequest t => t.packetLen
  | .fsResponse t => t.packetLen
  | .uslpPrimary h => h.len
  | .uslpTruncated h => h.len
  | .byteField f => fieldLen f

/-- the codec of a kind, over the common result type -/
def Kind.codec (k : Kind) : Codec Decoded := ⟨k.decode, Decoded.len⟩

/-- the length the *buffer* declares for a unit of this kind, where that can differ from what the
    decoded object reports (the two filestore TLV classes); `none` = the reported length is the
    declared one -/
def Kind.declaredLen : Kind → Bytes → Option Nat
  | .fsRequest, d => some (tlvDeclaredLen d)
  | .fsResponse, d => some (tlvDeclaredLen d)
  | _, _ => none

/-! ## splitting by reported lengths -/

/-- decode `k` units of one kind from the front of `d`, dropping after each the length it
    reports; returns the units and what is left of the buffer -/
def splitN {α : Type} (c : Codec α) : Nat → Bytes → Py (List α × Bytes)
  | 0, d => pure ([], d)
  | k + 1, d => do
    let r ← c.decode d
    let (rs, rest) ← splitN c k (d.drop (c.len r))
    pure (r :: rs, rest)

/-- the same for a buffer of units of different kinds (one kind per expected unit) -/
def splitKinds : List Kind → Bytes → Py (List Decoded × Bytes)
  | [], d => pure ([], d)
  | k :: ks, d => do
    let r ← k.decode d
    let (rs, rest) ← splitKinds ks (d.drop r.len)
    pure (r :: rs, rest)

/-- decode units of one kind until the buffer is exhausted. A unit that reports length 0 would
    never be consumed: `ValueError` (no such unit exists among the kinds above except the byte
    field of width 0, which the from-bytes readers refuse). `fuel` bounds the number of units. -/
def splitAll {α : Type} (c : Codec α) : Nat → Bytes → Py (List α)
  | 0, _ => throw .fuel
  | fuel + 1, d =>
    if d.length = 0 then pure []
    else do
      let r ← c.decode d
      if c.len r = 0 then throw .value
      let rs ← splitAll c fuel (d.drop (c.len r))
      pure (r :: rs)

/-- `splitAll` with enough fuel for any buffer: every consumed unit is at least one octet long -/
def splitStream {α : Type} (c : Codec α) (d : Bytes) : Py (List α) := splitAll c (d.length + 1) d

end SpVerif.Prefix
