import SpVerif.Py
/-!
# Model of `spacepackets/seqcount.py`

* `SeqCountProvider` (in memory): state `(count, width)`, `get_and_increment` / `__next__`.
* `FileSeqCountProvider` (file backed): a provider instance holds nothing but the path and the
  width; the persistent state is the file. The file is `Option (List Char)`: absent, or its raw
  content as ASCII characters (one character = one octet on disk). The text-mode I/O that the code
  performs is modelled operation by operation:

  * `open(name, "r+")` / `open(name)` on an existing file do not change it;
  * `file.readline()` (universal newlines): the characters up to the first `"\n"`, `"\r"` or
    `"\r\n"`, the terminator delivered as a single `"\n"`; the whole rest if there is none;
  * `str.rstrip()` removes trailing ASCII white space (9–13, 28–31, 32); `str.isdigit()` on ASCII
    text: non-empty and all characters in `'0'..'9'`; `int(line)` on such a line: decimal value
    (leading zeros allowed);
  * `file.seek(0); file.write(f"{n}\n")` overwrites the first `len` octets of the old content and
    **does not truncate**: whatever followed stays in the file (stale tail);
  * `create_new` = `open(name, "w")` + `write("0\n")` (truncating).

  If `check_count` raises, nothing has been written yet: the file is unchanged.
-/
namespace SpVerif.SeqCount

/-! ## In-memory provider -/

structure Mem where
  count : Nat
  width : Nat
deriving DecidableEq, Repr

/-- `SeqCountProvider(bit_width)` -/
def Mem.new (w : Nat) : Mem := ⟨0, w⟩

/-- `get_and_increment`: returns the current count, then `count = (count + 1) % pow(2, width)` -/
def Mem.getAndIncrement (m : Mem) : Nat × Mem :=
  (m.count, { m with count := (m.count + 1) % 2 ^ m.width })

/-- `__next__` of the abstract base class -/
def Mem.next (m : Mem) : Nat × Mem := m.getAndIncrement

/-- the values returned by `n` successive calls -/
def memRun (m : Mem) : Nat → List Nat
  | 0 => []
  | n + 1 => m.next.1 :: memRun m.next.2 n

def memRunTR (m : Mem) (n : Nat) (acc : Array Nat) : List Nat :=
  match n with
  | 0 => acc.toList
  | n + 1 => memRunTR m.next.2 n (acc.push m.next.1)

theorem memRunTR_eq (m : Mem) (n : Nat) (acc : Array Nat) :
    memRunTR m n acc = acc.toList ++ memRun m n := by
  induction n generalizing m acc with
  | zero => simp [memRunTR, memRun]
  | succ n ih => simp [memRunTR, memRun, ih]

def memRunFast (m : Mem) (n : Nat) : List Nat := memRunTR m n #[]

@[csimp] theorem memRun_eq_memRunFast : @memRun = @memRunFast := by
  funext m n; simp [memRunFast, memRunTR_eq]

/-! ## Text primitives (ASCII) -/

/-- line terminators recognised by text-mode `readline` (universal newlines): LF and CR -/
def isNl (c : Char) : Bool := c.toNat == 10 || c.toNat == 13

/-- `str.isspace()` on ASCII: TAB LF VT FF CR, FS GS RS US, SPACE -/
def isSpace (c : Char) : Bool :=
  c.toNat == 32 || (9 ≤ c.toNat && c.toNat ≤ 13) || (28 ≤ c.toNat && c.toNat ≤ 31)

/-- `str.isdigit()` on one ASCII character -/
def isDigit (c : Char) : Bool := 48 ≤ c.toNat && c.toNat ≤ 57

/-- `file.readline()` from offset 0 in text mode -/
def readline : List Char → List Char
  | [] => []
  | c :: cs => if isNl c then ['\n'] else c :: readline cs

/-- `str.rstrip()` -/
def rstrip : List Char → List Char
  | [] => []
  | c :: cs => if (rstrip cs).isEmpty && isSpace c then [] else c :: rstrip cs

/-- `str.isdigit()` on ASCII text -/
def isDigitStr (s : List Char) : Bool := !s.isEmpty && s.all isDigit

def digitVal (c : Char) : Nat := c.toNat - 48

/-- `int(s)` for a string of decimal digits -/
def parseNat (s : List Char) : Nat := s.foldl (fun a c => a * 10 + digitVal c) 0

/-- decimal parse: `none` unless non-empty and all digits -/
def parseDec (s : List Char) : Option Nat := if isDigitStr s then some (parseNat s) else none

def digitChar (d : Nat) : Char := Char.ofNat (48 + d)

/-- `f"{n}"` for `n ≥ 0`: decimal digits, no leading zeros, `"0"` for zero -/
def render (n : Nat) : List Char :=
  if n < 10 then [digitChar n] else render (n / 10) ++ [digitChar (n % 10)]
decreasing_by omega

/-! ## File-backed provider -/

abbrev File := Option (List Char)

/-- `create_new`: `open(name, "w")`, `write("0\n")` -/
def create : File := some ['0', '\n']

/-- `FileSeqCountProvider(width, name)`: creates the file iff it does not exist. The instance keeps
    only the width and the name, so the file is the whole state. -/
def init (f : File) : File :=
  match f with
  | none => create
  | some s => some s

/-- `check_count(line)` (`curr_seq_cnt < 0` cannot happen for a digit string) -/
def checkCount (w : Nat) (line : List Char) : Py Nat :=
  let l := rstrip line
  if !isDigitStr l then .error .value
  else
    let v := parseNat l
    if v > 2 ^ w - 1 then .error .value else .ok v

/-- `_increment_with_rollover` -/
def incr (w v : Nat) : Nat := if v ≥ 2 ^ w - 1 then 0 else v + 1

/-- `seek(0)` + `write(text)` on a file whose content is `old`: no truncation -/
def overwrite (old text : List Char) : List Char := text ++ old.drop text.length

/-- `current()` -/
def current (w : Nat) (f : File) : Py Nat :=
  match f with
  | none => .error .fileNotFound
  | some s => checkCount w (readline s)

/-- `get_and_increment()`: result and the file afterwards -/
def getAndIncrement (w : Nat) (f : File) : Py Nat × File :=
  match f with
  | none => (.error .fileNotFound, none)
  | some s =>
    match checkCount w (readline s) with
    | .error e => (.error e, some s)
    | .ok v => (.ok v, some (overwrite s (render (incr w v) ++ ['\n'])))

/-- what can happen between two observations -/
inductive Step
  | call      -- `get_and_increment()` / `next(provider)`
  | current   -- `current()`
  | restart   -- the instance is dropped and a new one is created on the same file
  | delete    -- the file is removed while an instance exists
deriving DecidableEq, Repr

inductive Out
  | val (v : Nat)
  | err (e : Err)
  | none
deriving DecidableEq, Repr

def Out.ofPy : Py Nat → Out
  | .ok v => .val v
  | .error e => .err e

def step (w : Nat) (f : File) : Step → Out × File
  | .call => ((Out.ofPy (getAndIncrement w f).1), (getAndIncrement w f).2)
  | .current => (Out.ofPy (current w f), f)
  | .restart => (.none, init f)
  | .delete => (.none, none)

/-- output of every step together with the file after it -/
def trace (w : Nat) (f : File) : List Step → List (Out × File)
  | [] => []
  | s :: ss => step w f s :: trace w (step w f s).2 ss

def traceTR (w : Nat) (f : File) (steps : List Step) (acc : Array (Out × File)) : List (Out × File) :=
  match steps with
  | [] => acc.toList
  | s :: ss => traceTR w (step w f s).2 ss (acc.push (step w f s))

theorem traceTR_eq (w : Nat) (f : File) (steps : List Step) (acc : Array (Out × File)) :
    traceTR w f steps acc = acc.toList ++ trace w f steps := by
  induction steps generalizing f acc with
  | nil => simp [traceTR, trace]
  | cons s ss ih => simp [traceTR, trace, ih]

def traceFast (w : Nat) (f : File) (steps : List Step) : List (Out × File) := traceTR w f steps #[]

@[csimp] theorem trace_eq_traceFast : @trace = @traceFast := by
  funext w f steps; simp [traceFast, traceTR_eq]

/-- the file after a list of steps -/
def finalFile (w : Nat) (f : File) : List Step → File
  | [] => f
  | s :: ss => finalFile w (step w f s).2 ss

/-! ## Histories with width changes (code at HEAD, commit 3612fda)

The in-memory provider at HEAD reduces the stored count **before** handing it out:

```
modulus = pow(2, self._max_bit_width); curr_count = self.count % modulus
self.count = (curr_count + 1) % modulus; return curr_count
```

the `max_bit_width` setter stores the width and nothing else, and `count` is a public attribute that a
program may assign any integer to. `MemS` is that state (`count : Int`, because a negative integer
can be assigned; Python's `%` with a positive modulus is the non-negative remainder, `Int.emod`),
`MemOp` the alphabet of what a program can do with the provider. (`Mem.getAndIncrement` above is the
code before 3612fda: it returns `count` as it is. `MemS.callPre` repeats it on `MemS`, for the
negative documentation theorem.) -/

structure MemS where
  count : Int
  width : Nat
deriving DecidableEq, Repr

inductive MemOp
  | call                   -- `get_and_increment()` / `next(provider)`
  | setWidth (w : Nat)     -- `provider.max_bit_width = w`
  | setCount (c : Int)     -- `provider.count = c` (any integer, also negative)
deriving DecidableEq, Repr

/-- `SeqCountProvider(bit_width)` -/
def MemS.new (w : Nat) : MemS := ⟨0, w⟩

/-- `pow(2, self._max_bit_width)` -/
def MemS.modulus (m : MemS) : Int := ((2 ^ m.width : Nat) : Int)

/-- `get_and_increment` at HEAD: `curr_count = count % modulus` is returned (it is non-negative, so it
    is handed out as a natural number), `(curr_count + 1) % modulus` is stored -/
def MemS.call (m : MemS) : Nat × MemS :=
  let curr := m.count % m.modulus
  (curr.toNat, { m with count := (curr + 1) % m.modulus })

/-- `get_and_increment` before 3612fda: the stored count is returned unreduced -/
def MemS.callPre (m : MemS) : Nat × MemS :=
  (m.count.toNat, { m with count := (m.count + 1) % m.modulus })

def memStep (m : MemS) : MemOp → Option Nat × MemS
  | .call => (some m.call.1, m.call.2)
  | .setWidth w => (none, { m with width := w })
  | .setCount c => (none, { m with count := c })

def memStepPre (m : MemS) : MemOp → Option Nat × MemS
  | .call => (some m.callPre.1, m.callPre.2)
  | op => memStep m op

/-- one output per operation: `some v` for a call, `none` for an assignment -/
def memTrace (m : MemS) : List MemOp → List (Option Nat)
  | [] => []
  | op :: ops => (memStep m op).1 :: memTrace (memStep m op).2 ops

def memTracePre (m : MemS) : List MemOp → List (Option Nat)
  | [] => []
  | op :: ops => (memStepPre m op).1 :: memTracePre (memStepPre m op).2 ops

/-- the provider after a history -/
def memFinal (m : MemS) : List MemOp → MemS
  | [] => m
  | op :: ops => memFinal (memStep m op).2 ops

/-- the width in force after a history: the argument of the last `setWidth`, else the initial one -/
def widthAfter (w : Nat) : List MemOp → Nat
  | [] => w
  | .setWidth w' :: ops => widthAfter w' ops
  | _ :: ops => widthAfter w ops

/-- **Comparison semantics of the tie** (used by the driver op `seq_mem_run`, not a model of the code).
    The property fixes the value of a call only when the counter stands at a value that fits the width:
    after a `setWidth` that the count does not fit, and after any assignment to `count`, the first
    value is *open* (any value in range is right: reduction modulo `2^w`, a reset to 0, …). At such a
    call the run takes the next value of `rebase` (what the implementation returned there), if it is in
    range, as the new count (`memRebase`); everything else is `memStep`. Output: value and whether it was open. -/
def memRebase (m : MemS) (isOpen : Bool) (rebase : List Int) : MemS :=
  match isOpen, rebase with
  | true, r :: _ => if 0 ≤ r ∧ r < m.modulus then { m with count := r } else m
  | _, _ => m

def memRunOpen (m : MemS) (isOpen : Bool) (rebase : List Int) : List MemOp → List (Nat × Bool)
  | [] => []
  | .call :: ops =>
    ((memRebase m isOpen rebase).call.1, isOpen)
      :: memRunOpen (memRebase m isOpen rebase).call.2 false (if isOpen then rebase.tail else rebase) ops
  | .setWidth w :: ops =>
    memRunOpen { m with width := w } (isOpen || !(decide (0 ≤ m.count) && decide (m.count < ((2 ^ w : Nat) : Int)))) rebase ops
  | .setCount c :: ops => memRunOpen { m with count := c } true rebase ops

def memRunOpenTR (m : MemS) (isOpen : Bool) (rebase : List Int) (ops : List MemOp) (acc : Array (Nat × Bool)) :
    List (Nat × Bool) :=
  match ops with
  | [] => acc.toList
  | .call :: ops =>
    memRunOpenTR (memRebase m isOpen rebase).call.2 false (if isOpen then rebase.tail else rebase) ops
      (acc.push ((memRebase m isOpen rebase).call.1, isOpen))
  | .setWidth w :: ops =>
    memRunOpenTR { m with width := w } (isOpen || !(decide (0 ≤ m.count) && decide (m.count < ((2 ^ w : Nat) : Int)))) rebase ops acc
  | .setCount c :: ops => memRunOpenTR { m with count := c } true rebase ops acc

theorem memRunOpenTR_eq (m : MemS) (isOpen : Bool) (rebase : List Int) (ops : List MemOp) (acc : Array (Nat × Bool)) :
    memRunOpenTR m isOpen rebase ops acc = acc.toList ++ memRunOpen m isOpen rebase ops := by
  induction ops generalizing m isOpen rebase acc with
  | nil => simp [memRunOpenTR, memRunOpen]
  | cons op ops ih => cases op <;> simp [memRunOpenTR, memRunOpen, ih]

def memRunOpenFast (m : MemS) (isOpen : Bool) (rebase : List Int) (ops : List MemOp) : List (Nat × Bool) :=
  memRunOpenTR m isOpen rebase ops #[]

@[csimp] theorem memRunOpen_eq_fast : @memRunOpen = @memRunOpenFast := by
  funext m o r ops; simp [memRunOpenFast, memRunOpenTR_eq]

/-! ## File-backed provider with width changes

The instance keeps the width (`_max_bit_width`, changed by the setter) and the file name; the file is
the counter. `check_count` compares the stored value with the width **in force at that call**. -/

inductive WStep
  | op (s : Step)          -- call / current / restart (a new instance of the same width) / delete
  | setWidth (w : Nat)     -- `provider.max_bit_width = w`: the file is not touched
  | createNew              -- `provider.create_new()`: the file becomes `"0\n"`
deriving DecidableEq, Repr

/-- state: width of the live instance, file -/
abbrev WState := Nat × File

def wstep (st : WState) : WStep → Out × WState
  | .op s => ((step st.1 st.2 s).1, (st.1, (step st.1 st.2 s).2))
  | .setWidth w => (.none, (w, st.2))
  | .createNew => (.none, (st.1, create))

/-- output of every step together with the state (width in force, file) after it -/
def wtrace (st : WState) : List WStep → List (Out × WState)
  | [] => []
  | s :: ss => wstep st s :: wtrace (wstep st s).2 ss
def wtraceTR (st : WState) (steps : List WStep) (acc : Array (Out × WState)) : List (Out × WState) :=
  match steps with
  | [] => acc.toList
  | s :: ss => wtraceTR (wstep st s).2 ss (acc.push (wstep st s))

theorem wtraceTR_eq (st : WState) (steps : List WStep) (acc : Array (Out × WState)) :
    wtraceTR st steps acc = acc.toList ++ wtrace st steps := by
  induction steps generalizing st acc with
  | nil => simp [wtraceTR, wtrace]
  | cons s ss ih => simp [wtraceTR, wtrace, ih]

def wtraceFast (st : WState) (steps : List WStep) : List (Out × WState) := wtraceTR st steps #[]

@[csimp] theorem wtrace_eq_wtraceFast : @wtrace = @wtraceFast := by
  funext st steps; simp [wtraceFast, wtraceTR_eq]

end SpVerif.SeqCount
