import SpVerif.Model.FileDirective
/-!
# Model of `spacepackets/cfdp/pdu/nak.py` (NAK PDU, CCSDS 727.0-B-5 §5.2.6)

Parameters: start of scope, end of scope, then any number of segment requests
(start offset, end offset); every one of these is a file-size-sensitive field (32 bits, or 64
bits with the large-file flag). Always towards the sender (1). All offsets are Python `int`s:
without the large-file flag a value above 2^32 − 1 is refused with `ValueError`
(scope pair first, then each segment request in list order); a negative value, or a value above
2^64 − 1 with the flag, makes `struct.pack` raise `struct.error`.

The decoder refuses a buffer that is longer than the declared PDU (by design:
`tests/cfdp/pdus/test_nak_pdu.py::test_nak_pdu_errors`), a directive code other than NAK, and a
parameter field that is not two FSS values plus a whole number of segment requests.
-/
namespace SpVerif.Nak
open SpVerif SpVerif.CfdpHeader SpVerif.FileDirective

abbrev Seg := Int × Int

structure Nak where
  fd : FileDirective
  startOfScope : Int
  endOfScope : Int
  /-- `segment_requests` -/
  segs : List Seg
deriving DecidableEq, Repr

/-- `_calculate_directive_field_len` for `n` segment requests: `ValueError` for a file flag that is
    neither NORMAL nor LARGE, and (from the length setter) when the data field exceeds 65 535. -/
def calcLen (fd : FileDirective) (n : Nat) : Py FileDirective := do
  let l ←
    if fd.header.conf.fileFlag = 0 then pure (8 + n * 8)
    else if fd.header.conf.fileFlag = 1 then pure (16 + n * 16)
    else throw .value
  fd.setParamLen (if fd.header.conf.crcFlag = 1 then l + 2 else l)

/-- `NakPdu(pdu_conf, start_of_scope, end_of_scope, segment_requests)`; `None` is `[]` -/
def Nak.new (conf : PduConfig) (s e : Int) (segs : List Seg) : Py Nak := do
  let fd ← FileDirective.new { conf with direction := 1 } DIR_NAK 8
  let fd ← calcLen fd segs.length
  pure ⟨fd, s, e, segs⟩

def Nak.packetLen (k : Nak) : Nat := k.fd.packetLen

/-- the `segment_requests` setter -/
def Nak.setSegs (k : Nak) (segs : List Seg) : Py Nak := do
  let fd ← calcLen k.fd segs.length
  pure { k with fd := fd, segs := segs }

/-- the `file_flag` setter -/
def Nak.setFileFlag (k : Nak) (f : Nat) : Py Nak := do
  let fd ← calcLen (k.fd.setFileFlag f) k.segs.length
  pure { k with fd := fd }

/-- one (start, end) pair of FSS fields as `pack()` writes it -/
def packPair (large : Bool) (a b : Int) : Py Bytes :=
  if ¬ large then do
    if a > 4294967295 ∨ b > 4294967295 then throw .value
    let x ← packInt 4 a
    let y ← packInt 4 b
    pure (x ++ y)
  else do
    let x ← packInt 8 a
    let y ← packInt 8 b
    pure (x ++ y)

/-- the `for segment_request in self._segment_requests` loop -/
def packSegs (large : Bool) : List Seg → Py Bytes
  | [] => pure []
  | p :: r => do
    let x ← packPair large p.1 p.2
    let rest ← packSegs large r
    pure (x ++ rest)

/-- `pack()` -/
def Nak.pack (k : Nak) : Py Bytes := do
  let d ← k.fd.pack
  let sc ← packPair k.fd.header.largeFileFlagSet k.startOfScope k.endOfScope
  let sg ← packSegs k.fd.header.largeFileFlagSet k.segs
  pure (withCrc k.fd.header.conf.crcFlag (d ++ sc ++ sg))

/-- the `while current_idx < len(data)` loop of the decoder on the remaining parameter octets:
    two `struct.unpack`s on `width`-octet slices per round (`struct.error` if a slice is short —
    excluded by the multiple-of-request-size guard, see `Proofs/Nak.lean`). -/
def parseSegs (large : Bool) (d : Bytes) : Py (List Seg) :=
  if h : d = [] then pure []
  else do
    let w := if large then 8 else 4
    let a ← unpackBE w (slice d 0 w)
    let b ← unpackBE w (slice d w (w + w))
    let rest ← parseSegs large (d.drop (w + w))
    pure (((a : Int), (b : Int)) :: rest)
termination_by d.length
decreasing_by
  have : 0 < d.length := List.length_pos_iff.mpr h
  simp only [List.length_drop]
  split <;> omega

/-- `NakPdu.unpack(data)` -/
def Nak.unpack (data : Bytes) : Py Nak := do
  let fd ← FileDirective.unpack data
  let _ ← fd.verify data
  if fd.code ≠ DIR_NAK then throw .value
  if data.length > fd.packetLen then throw .value
  let data := data.take fd.paramsEnd
  let i := fd.headerLen
  let large := fd.header.largeFileFlagSet
  let w := if ¬ large then 4 else 8
  if i + 2 * w > data.length then throw .value
  let s ← unpackBE w (slice data i (i + w))
  let i := i + w
  let e ← unpackBE w (slice data i (i + w))
  let i := i + w
  if i < data.length then
    if (data.length - i) % (w * 2) ≠ 0 then throw .value
    let segs ← parseSegs large (data.drop i)
    let fd ← calcLen fd segs.length
    pure ⟨fd, (s : Int), (e : Int), segs⟩
  else
    pure ⟨fd, (s : Int), (e : Int), []⟩

/-- `__eq__` -/
def Nak.beq (a b : Nak) : Bool :=
  a.fd.beq b.fd && a.segs == b.segs && a.startOfScope == b.startOfScope && a.endOfScope == b.endOfScope

/-- `get_max_seg_reqs_for_max_packet_size_and_pdu_cfg(max_packet_size, pdu_conf)`
    (`if pdu_conf.crc_flag:` is truthiness: any non-zero flag) -/
def maxSegReqs (maxPacketSize : Int) (conf : PduConfig) : Py Nat := do
  let base := conf.headerLen + 1 + (if conf.crcFlag ≠ 0 then 2 else 0)
    + (if conf.fileFlag = 0 then 8 else if conf.fileFlag = 1 then 16 else 0)
  if maxPacketSize < (base : Int) then throw .value
  let rem := (maxPacketSize - (base : Int)).toNat
  if conf.fileFlag = 0 then pure (rem / 8)
  else if conf.fileFlag = 1 then pure (rem / 16)
  else throw .value

end SpVerif.Nak
