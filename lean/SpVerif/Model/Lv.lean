import SpVerif.BE
/-!
# Model of `spacepackets/cfdp/lv.py` (CFDP Length-Value item, CCSDS 727.0-B-5 §5.1.x "LV")

An LV is one length octet followed by that many value octets. `CfdpLv.from_str` / `from_path` are
`CfdpLv(string.encode())`: strings are modelled by their UTF-8 octets (the harness encodes).
-/
namespace SpVerif.Lv
open SpVerif

/-- `CfdpLv`: `value_len` is `len(value)` (set once by the constructor). -/
structure CfdpLv where
  value : Bytes
deriving DecidableEq, Repr

/-- `CfdpLv(value)`: `ValueError` iff the value has more than 255 octets. -/
def CfdpLv.new (v : Bytes) : Py CfdpLv :=
  if v.length > 255 then .error .value else .ok ⟨v⟩

/-- `CfdpLv.value_len` -/
def CfdpLv.valueLen (l : CfdpLv) : Nat := l.value.length

/-- `CfdpLv.packet_len` -/
def CfdpLv.packetLen (l : CfdpLv) : Nat := l.value.length + 1

/-- `CfdpLv.pack()`: `packet.append(value_len)` then the value (if any). The append is a
    `ValueError` for a length beyond 255 (unreachable through the constructor). -/
def CfdpLv.pack (l : CfdpLv) : Py Bytes := do
  let n ← byteOfN l.value.length
  if l.value.length > 0 then pure (n :: l.value) else pure [n]

/-- `CfdpLv.unpack(raw_bytes)`: decodes the LV at the start of `raw`. -/
def CfdpLv.unpack (raw : Bytes) : Py CfdpLv := do
  if raw.length < 1 then throw .value
  let n ← idx raw 0
  if 1 + n > raw.length then throw .value
  if n = 0 then CfdpLv.new [] else CfdpLv.new (slice raw 1 (1 + n))

end SpVerif.Lv
