import SpVerif.Model.PusTm
/-!
# Model of `ecss/req_id.py`, `ecss/fields.py` (PacketFieldEnum) and `ecss/pus_1_verification.py`
-/
namespace SpVerif.Srv1
open SpVerif SpVerif.SpacePacket SpVerif.PusTm

/-- `RequestId(tc_packet_id, tc_psc, ccsds_version)` -/
structure ReqId where
  version : Nat
  pid : PacketId
  psc : Psc
deriving DecidableEq, Repr

/-- `RequestId.from_sp_header` / `from_pus_tc` -/
def ReqId.fromSph (h : Sph) : ReqId := ⟨h.version, ⟨h.ptype, h.shf, h.apid⟩, ⟨h.flags, h.count⟩⟩
/-- `RequestId.empty()` -/
def ReqId.empty : ReqId := ⟨0, ⟨0, 0, 0⟩, ⟨0, 0⟩⟩
/-- first 16-bit word: `(version << 13) | packet_id.raw()` -/
def ReqId.word0 (r : ReqId) : Nat := r.version * 8192 + r.pid.raw
/-- `RequestId.as_u32()` -/
def ReqId.asU32 (r : ReqId) : Nat := r.word0 * 65536 + r.psc.raw
/-- `RequestId.pack()` -/
def ReqId.pack (r : ReqId) : Py Bytes := do
  let w0 ← packBE 2 r.word0
  let w1 ← packBE 2 r.psc.raw
  pure (w0 ++ w1)
/-- `RequestId.unpack(data)` -/
def ReqId.unpack (d : Bytes) : Py ReqId := do
  if d.length < 4 then throw .value
  let w0 ← unpackBE 2 (slice d 0 2)
  let w1 ← unpackBE 2 (slice d 2 4)
  let psc ← Psc.fromRaw w1
  pure ⟨w0 / 8192 % 8, PacketId.fromRaw w0, psc⟩
/-- `RequestId.__eq__` (and `__hash__` is `hash(as_u32())`) -/
def ReqId.beq (a b : ReqId) : Bool := a.asU32 == b.asU32

/-- `PacketFieldEnum(pfc, val)` -/
structure Pfe where
  pfc : Nat
  val : Nat
deriving DecidableEq, Repr

/-- Python's `int(round(pfc / 8))` (round half to even) -/
def roundDiv8 (pfc : Nat) : Nat :=
  let q := pfc / 8
  let r := pfc % 8
  if r < 4 then q else if r > 4 then q + 1 else if q % 2 = 0 then q else q + 1

/-- `PacketFieldEnum.check_pfc` -/
def checkPfc (pfc : Nat) : Py Nat :=
  let n := roundDiv8 pfc
  if n = 1 ∨ n = 2 ∨ n = 4 ∨ n = 8 then .ok n else .error .value

def Pfe.new (pfc val : Nat) : Py Pfe := do
  let _ ← checkPfc pfc
  pure ⟨pfc, val⟩

/-- `IntByteConversion.to_unsigned(n, val)` for `val ≥ 0` -/
def toUnsigned (n val : Nat) : Py Bytes :=
  if ¬ (n = 0 ∨ n = 1 ∨ n = 2 ∨ n = 4 ∨ n = 8) then .error .value
  else if n = 0 then .ok []
  else if val > 256 ^ n - 1 then .error .value
  else packBE n val

def Pfe.pack (f : Pfe) : Py Bytes := do
  let n ← checkPfc f.pfc
  toUnsigned n f.val

def Pfe.len (f : Pfe) : Py Nat := checkPfc f.pfc

/-- `PacketFieldEnum.with_byte_size(num_bytes, val)` -/
def Pfe.withByteSize (n val : Nat) : Py Pfe := Pfe.new (n * 8) val

/-- `PacketFieldEnum.__eq__` -/
def Pfe.beq (a b : Pfe) : Bool := a.pfc == b.pfc && a.val == b.val

/-- `PacketFieldEnum.unpack(data, pfc)` -/
def Pfe.unpack (d : Bytes) (pfc : Nat) : Py Pfe := do
  let n ← checkPfc pfc
  if n > d.length then throw .value
  let v ← unpackBE n (slice d 0 n)
  Pfe.new pfc v

structure FailureNotice where
  code : Pfe
  data : Bytes
deriving DecidableEq, Repr

def FailureNotice.pack (f : FailureNotice) : Py Bytes := do
  let c ← f.code.pack
  pure (c ++ f.data)

/-- `FailureNotice.__eq__` (by value: error code field and failure data) -/
def FailureNotice.beq (a b : FailureNotice) : Bool := a.code.beq b.code && decide (a.data = b.data)

def FailureNotice.len (f : FailureNotice) : Py Nat := do
  let c ← f.code.len
  pure (c + f.data.length)

/-- `FailureNotice.unpack(data, num_bytes_err_code, num_bytes_data=None)`; `None` means "all the
    remaining octets" (`len(data) - num_bytes_err_code`; when that is negative the field decoder has
    already refused). Negative explicit lengths are outside the model. -/
def FailureNotice.unpack (d : Bytes) (nErr : Nat) (nData : Option Nat) : Py FailureNotice := do
  let code ← Pfe.unpack d (nErr * 8)
  let n := match nData with
    | none => d.length - nErr
    | some n => n
  pure ⟨code, slice d nErr (nErr + n)⟩

/-- `VerificationParams(req_id, step_id, failure_notice)` -/
structure VParams where
  reqId : ReqId
  stepId : Option Pfe
  failure : Option FailureNotice
deriving DecidableEq, Repr

def VParams.pack (p : VParams) : Py Bytes := do
  let r ← p.reqId.pack
  let s ← match p.stepId with
    | none => pure []
    | some s => s.pack
  let f ← match p.failure with
    | none => pure []
    | some f => f.pack
  pure (r ++ s ++ f)

def VParams.len (p : VParams) : Py Nat := do
  let s ← match p.stepId with
    | none => pure 0
    | some s => s.len
  let f ← match p.failure with
    | none => pure 0
    | some f => f.len
  pure (4 + s + f)

/-- `VerificationParams.verify_against_subservice` -/
def VParams.verify (p : VParams) (sub : Nat) : Py Unit :=
  if sub % 2 = 0 then
    if p.failure.isNone then .error .verifParams
    else if sub = 6 ∧ p.stepId.isNone then .error .verifParams
    else if sub ≠ 6 ∧ p.stepId.isSome then .error .verifParams
    else .ok ()
  else
    if p.failure.isSome then .error .verifParams
    else if sub = 5 ∧ p.stepId.isNone then .error .verifParams
    else if sub ≠ 5 ∧ p.stepId.isSome then .error .verifParams
    else .ok ()

/-- `Service1Tm` -/
structure S1Tm where
  tm : Tm
  params : VParams
deriving DecidableEq, Repr

/-- `Service1Tm(apid, subservice, timestamp, verif_params, seq_count, packet_version,
    space_time_ref, destination_id)` -/
def S1Tm.new (apid : Int) (sub : Int) (timestamp : Bytes) (params : Option VParams) (count : Int)
    (version timeRef destId : Nat) : Py S1Tm := do
  let tm ← Tm.new 1 sub timestamp [] apid count 0 timeRef destId version
  match params with
  | none => pure ⟨tm, ⟨ReqId.empty, none, none⟩⟩
  | some p =>
    p.verify sub.toNat
    let data ← p.pack
    pure ⟨tm.setTmData data, p⟩

def S1Tm.pack (s : S1Tm) : Py Bytes := s.tm.pack

/-- `Service1Tm._unpack_raw_tm` with `_unpack_failure_verification` / `_unpack_success_verification` -/
def unpackRaw (tm : Tm) (stepBytes errBytes : Nat) : Py S1Tm := do
  let data := tm.sourceData
  let sub := tm.sec.subservice
  if data.length < 4 then throw .value
  let req ← ReqId.unpack (slice data 0 4)
  if sub % 2 = 0 then
    if sub ≠ 6 ∧ ¬ (sub = 2 ∨ sub = 4 ∨ sub = 8) then throw .value
    let expected := if sub = 6 then errBytes + stepBytes else errBytes
    if data.length < expected then throw .value
    if sub = 6 then
      let step ← Pfe.unpack (data.drop 4) (stepBytes * 8)
      let idx := 4 + stepBytes
      let fn ← FailureNotice.unpack (data.drop idx) errBytes (some (data.length - idx))
      pure ⟨tm, ⟨req, some step, some fn⟩⟩
    else
      let fn ← FailureNotice.unpack (data.drop 4) errBytes (some (data.length - 4))
      pure ⟨tm, ⟨req, none, some fn⟩⟩
  else
    if sub = 5 then
      let step ← Pfe.unpack (slice data 4 (4 + stepBytes)) (stepBytes * 8)
      pure ⟨tm, ⟨req, some step, none⟩⟩
    else if ¬ (sub = 1 ∨ sub = 3 ∨ sub = 7) then throw .value
    else pure ⟨tm, ⟨req, none, none⟩⟩

/-- `Service1Tm.unpack(data, UnpackParams(timestamp_len, bytes_step_id, bytes_err_code))` -/
def S1Tm.unpack (d : Bytes) (tsLen stepBytes errBytes : Nat) : Py S1Tm := do
  let tm ← Tm.unpack d tsLen
  unpackRaw tm stepBytes errBytes

/-- `Service1Tm.from_tm(tm, params)` -/
def S1Tm.fromTm (tm : Tm) (stepBytes errBytes : Nat) : Py S1Tm := unpackRaw tm stepBytes errBytes

/-- `==` on two optional fields as the dataclass `__eq__` of `VerificationParams` evaluates it for
    values of the same shape (`None == None`, or the field's own `__eq__`) -/
def optBeq {α} (f : α → α → Bool) : Option α → Option α → Bool
  | none, none => true
  | some a, some b => f a b
  | _, _ => false

/-- `VerificationParams.__eq__` (dataclass: request ids by their 32-bit value, step id and failure
    notice by value) -/
def VParams.beq (a b : VParams) : Bool :=
  a.reqId.beq b.reqId && optBeq Pfe.beq a.stepId b.stepId && optBeq FailureNotice.beq a.failure b.failure

/-- `Service1Tm.__eq__`: the PusTm parts are equal and the verification parameters are equal -/
def S1Tm.beq (a b : S1Tm) : Bool := a.tm.beq b.tm && a.params.beq b.params

/-- `Service1Tm.tc_req_id`, `.step_id`, `.failure_notice`, `.has_failure_notice`, `.is_step_reply` -/
def S1Tm.tcReqId (s : S1Tm) : ReqId := s.params.reqId
def S1Tm.stepId (s : S1Tm) : Option Pfe := s.params.stepId
def S1Tm.failureNotice (s : S1Tm) : Option FailureNotice := s.params.failure
def S1Tm.hasFailureNotice (s : S1Tm) : Bool := s.tm.sec.subservice % 2 == 0
def S1Tm.isStepReply (s : S1Tm) : Bool := s.tm.sec.subservice == 6 || s.tm.sec.subservice == 5
/-- `Service1Tm.error_code` (contains an `assert`: an even subservice without failure notice, which
    only a report built without verification parameters can have, raises AssertionError) -/
def S1Tm.errorCode (s : S1Tm) : Py (Option Pfe) :=
  if s.hasFailureNotice then
    match s.params.failure with
    | none => .error .assertion
    | some f => .ok (some f.code)
  else .ok none

/-- the eight `create_*_tm(apid, pus_tc, [step_id], [failure_notice], timestamp)` helpers: a report
    of the given subservice for the telecommand with space packet header `tc` (sequence count,
    packet version, time reference and destination id take their defaults 0) -/
def create (sub : Nat) (apid : Int) (tc : Sph) (step : Option Pfe) (fn : Option FailureNotice)
    (ts : Bytes) : Py S1Tm :=
  S1Tm.new apid (sub : Int) ts (some ⟨ReqId.fromSph tc, step, fn⟩) 0 0 0 0

def createAcceptanceSuccess (apid : Int) (tc : Sph) (ts : Bytes) := create 1 apid tc none none ts
def createAcceptanceFailure (apid : Int) (tc : Sph) (fn : FailureNotice) (ts : Bytes) := create 2 apid tc none (some fn) ts
def createStartSuccess (apid : Int) (tc : Sph) (ts : Bytes) := create 3 apid tc none none ts
def createStartFailure (apid : Int) (tc : Sph) (fn : FailureNotice) (ts : Bytes) := create 4 apid tc none (some fn) ts
def createStepSuccess (apid : Int) (tc : Sph) (step : Pfe) (ts : Bytes) := create 5 apid tc (some step) none ts
def createStepFailure (apid : Int) (tc : Sph) (step : Pfe) (fn : FailureNotice) (ts : Bytes) :=
  create 6 apid tc (some step) (some fn) ts
def createCompletionSuccess (apid : Int) (tc : Sph) (ts : Bytes) := create 7 apid tc none none ts
def createCompletionFailure (apid : Int) (tc : Sph) (fn : FailureNotice) (ts : Bytes) := create 8 apid tc none (some fn) ts

end SpVerif.Srv1
