import SpVerif.Model.PusTm
/-!
# Model of `ecss/req_id.py`, `ecss/fields.py` (PacketFieldEnum) and `ecss/pus_1_verification.py`
-/
namespace SpVerif.Srv1
open SpVerif SpVerif.SpacePacket SpVerif.PusTm

/-- `RequestId(tc_packet_id, tc_psc, ccsds_version)` -/
structure ReqId where
  version : Nat
  pid : PacketId
  psc : Psc
deriving DecidableEq, Repr

/-- `RequestId.from_sp_header` / `from_pus_tc` -/
def ReqId.fromSph (h : Sph) : ReqId := ⟨h.version, ⟨h.ptype, h.shf, h.apid⟩, ⟨h.flags, h.count⟩⟩
/-- `RequestId.empty()` -/
def ReqId.empty : ReqId := ⟨0, ⟨0, 0, 0⟩, ⟨0, 0⟩⟩
/-- first 16-bit word: `(version << 13) | packet_id.raw()` -/
def ReqId.word0 (r : ReqId) : Nat := r.version * 8192 + r.pid.raw
/-- `RequestId.as_u32()` -/
def ReqId.asU32 (r : ReqId) : Nat := r.word0 * 65536 + r.psc.raw
/-- `RequestId.pack()` -/
def ReqId.pack (r : ReqId) : Py Bytes := do
  let w0 ← packBE 2 r.word0
  let w1 ← packBE 2 r.psc.raw
  pure (w0 ++ w1)
/-- `RequestId.unpack(data)` -/
def ReqId.unpack (d : Bytes) : Py ReqId := do
  if d.length < 4 then throw .value
  let w0 ← unpackBE 2 (slice d 0 2)
  let w1 ← unpackBE 2 (slice d 2 4)
  let psc ← Psc.fromRaw w1
  pure ⟨w0 / 8192 % 8, PacketId.fromRaw w0, psc⟩
/-- `RequestId.__eq__` (and `__hash__` is `hash(as_u32())`) -/
def ReqId.beq (a b : ReqId) : Bool := a.asU32 == b.asU32

/-- `PacketFieldEnum(pfc, val)` -/
structure Pfe where
  pfc : Nat
  val : Nat
deriving DecidableEq, Repr

/-- Python's `int(round(pfc / 8))` (round half to even) -/
def roundDiv8 (pfc : Nat) : Nat :=
  let q := pfc / 8
  let r := pfc % 8
  if r < 4 then q else if r > 4 then q + 1 else if q % 2 = 0 then q else q + 1

/-- `PacketFieldEnum.check_pfc` -/
def checkPfc (pfc : Nat) : Py Nat :=
  let n := roundDiv8 pfc
  if n = 1 ∨ n = 2 ∨ n = 4 ∨ n = 8 then .ok n else .error .value

def Pfe.new (pfc val : Nat) : Py Pfe := do
  let _ ← checkPfc pfc
  pure ⟨pfc, val⟩

/-- `IntByteConversion.to_unsigned(n, val)` for `val ≥ 0` -/
def toUnsigned (n val : Nat) : Py Bytes :=
  if ¬ (n = 0 ∨ n = 1 ∨ n = 2 ∨ n = 4 ∨ n = 8) then .error .value
  else if n = 0 then .ok []
  else if val > 256 ^ n - 1 then .error .value
  else packBE n val

def Pfe.pack (f : Pfe) : Py Bytes := do
  let n ← checkPfc f.pfc
  toUnsigned n f.val

def Pfe.len (f : Pfe) : Py Nat := checkPfc f.pfc

/-- `PacketFieldEnum.unpack(data, pfc)` -/
def Pfe.unpack (d : Bytes) (pfc : Nat) : Py Pfe := do
  let n ← checkPfc pfc
  if n > d.length then throw .value
  let v ← unpackBE n (slice d 0 n)
  Pfe.new pfc v

structure FailureNotice where
  code : Pfe
  data : Bytes
deriving DecidableEq, Repr

def FailureNotice.pack (f : FailureNotice) : Py Bytes := do
  let c ← f.code.pack
  pure (c ++ f.data)

def FailureNotice.len (f : FailureNotice) : Py Nat := do
  let c ← f.code.len
  pure (c + f.data.length)

/-- `FailureNotice.unpack(data, num_bytes_err_code, num_bytes_data)` -/
def FailureNotice.unpack (d : Bytes) (nErr : Nat) (nData : Nat) : Py FailureNotice := do
  let code ← Pfe.unpack d (nErr * 8)
  pure ⟨code, slice d nErr (nErr + nData)⟩

/-- `VerificationParams(req_id, step_id, failure_notice)` -/
structure VParams where
  reqId : ReqId
  stepId : Option Pfe
  failure : Option FailureNotice
deriving DecidableEq, Repr

def VParams.pack (p : VParams) : Py Bytes := do
  let r ← p.reqId.pack
  let s ← match p.stepId with
    | none => pure []
    | some s => s.pack
  let f ← match p.failure with
    | none => pure []
    | some f => f.pack
  pure (r ++ s ++ f)

def VParams.len (p : VParams) : Py Nat := do
  let s ← match p.stepId with
    | none => pure 0
    | some s => s.len
  let f ← match p.failure with
    | none => pure 0
    | some f => f.len
  pure (4 + s + f)

/-- `VerificationParams.verify_against_subservice` -/
def VParams.verify (p : VParams) (sub : Nat) : Py Unit :=
  if sub % 2 = 0 then
    if p.failure.isNone then .error .verifParams
    else if sub = 6 ∧ p.stepId.isNone then .error .verifParams
    else if sub ≠ 6 ∧ p.stepId.isSome then .error .verifParams
    else .ok ()
  else
    if p.failure.isSome then .error .verifParams
    else if sub = 5 ∧ p.stepId.isNone then .error .verifParams
    else if sub ≠ 5 ∧ p.stepId.isSome then .error .verifParams
    else .ok ()

/-- `Service1Tm` -/
structure S1Tm where
  tm : Tm
  params : VParams
deriving DecidableEq, Repr

/-- `Service1Tm(apid, subservice, timestamp, verif_params, seq_count, packet_version,
    space_time_ref, destination_id)` -/
def S1Tm.new (apid : Int) (sub : Int) (timestamp : Bytes) (params : Option VParams) (count : Int)
    (version timeRef destId : Nat) : Py S1Tm := do
  let tm ← Tm.new 1 sub timestamp [] apid count 0 timeRef destId version
  match params with
  | none => pure ⟨tm, ⟨ReqId.empty, none, none⟩⟩
  | some p =>
    p.verify sub.toNat
    let data ← p.pack
    pure ⟨tm.setTmData data, p⟩

def S1Tm.pack (s : S1Tm) : Py Bytes := s.tm.pack

/-- `Service1Tm._unpack_raw_tm` with `_unpack_failure_verification` / `_unpack_success_verification` -/
def unpackRaw (tm : Tm) (stepBytes errBytes : Nat) : Py S1Tm := do
  let data := tm.sourceData
  let sub := tm.sec.subservice
  if data.length < 4 then throw .value
  let req ← ReqId.unpack (slice data 0 4)
  if sub % 2 = 0 then
    if sub ≠ 6 ∧ ¬ (sub = 2 ∨ sub = 4 ∨ sub = 8) then throw .value
    let expected := if sub = 6 then errBytes + stepBytes else errBytes
    if data.length < expected then throw .value
    if sub = 6 then
      let step ← Pfe.unpack (data.drop 4) (stepBytes * 8)
      let idx := 4 + stepBytes
      let fn ← FailureNotice.unpack (data.drop idx) errBytes (data.length - idx)
      pure ⟨tm, ⟨req, some step, some fn⟩⟩
    else
      let fn ← FailureNotice.unpack (data.drop 4) errBytes (data.length - 4)
      pure ⟨tm, ⟨req, none, some fn⟩⟩
  else
    if sub = 5 then
      let step ← Pfe.unpack (slice data 4 (4 + stepBytes)) (stepBytes * 8)
      pure ⟨tm, ⟨req, some step, none⟩⟩
    else if ¬ (sub = 1 ∨ sub = 3 ∨ sub = 7) then throw .value
    else pure ⟨tm, ⟨req, none, none⟩⟩

/-- `Service1Tm.unpack(data, UnpackParams(timestamp_len, bytes_step_id, bytes_err_code))` -/
def S1Tm.unpack (d : Bytes) (tsLen stepBytes errBytes : Nat) : Py S1Tm := do
  let tm ← Tm.unpack d tsLen
  unpackRaw tm stepBytes errBytes

def optEq {α} [DecidableEq α] (a b : Option α) : Bool := decide (a = b)

/-- `Service1Tm.__eq__`: the PusTm parts are equal and the verification parameters are equal
    (request ids by their 32-bit value) -/
def S1Tm.beq (a b : S1Tm) : Bool :=
  a.tm.beq b.tm && a.params.reqId.beq b.params.reqId && optEq a.params.stepId b.params.stepId
    && optEq a.params.failure b.params.failure

end SpVerif.Srv1
