import SpVerif.Model.FileDirective
import SpVerif.Model.Tlv
import SpVerif.Model.Eof
/-!
# Model of `spacepackets/cfdp/pdu/finished.py` (Finished PDU, CCSDS 727.0-B-5 §5.2.3)

Parameters: one octet `condition code (4 bits) | spare (1 bit) | delivery code (1 bit) |
file status (2 bits)`, then the filestore responses (TLVs, list order), then — unless the
condition code is "no error" or "unsupported checksum type" — an optional fault location
(entity-ID TLV). Always towards the sender (1).

* `FinishedParams.condition_code` is a Python `int` (`ConditionCode` incl. `-1`): with a negative
  value `(cc << 4) | (dc << 2) | fs` is negative and `bytearray.append` raises `ValueError`.
  Delivery code and file status are natural numbers (`IntEnum` values; not validated).
* `file_store_responses` is a list of `FileStoreResponseTlv` objects (the dataclass field is typed
  `List[…]` with default `[]`; the *setter* also accepts `None`, meaning `[]`).
* A fault location given together with a condition code that cannot have one is kept in the
  parameters but neither packed nor counted in the length.
* The decoder does not look at the directive-code octet; it parses only `data[:end_of_params]`;
  the TLV loop is `_unpack_tlvs` (see `unpackTlvs`); afterwards the setters recompute the
  data-field length from what was decoded.

Not modelled: `__repr__`, aliasing of the caller's `FinishedParams` / list objects (C11), the
`tlv` cache inside `FileStoreResponseTlv` (C11).
-/
namespace SpVerif.Finished
open SpVerif SpVerif.CfdpHeader SpVerif.FileDirective SpVerif.Tlv

/-- non-negative `ConditionCode` member values (table-synced) -/
def condMembers : List Nat := [0, 1, 2, 3, 4, 5, 6, 7, 8, 10, 11, 14, 15]

structure Finished where
  fd : FileDirective
  /-- `condition_code` -/
  cond : Int
  /-- `delivery_code` -/
  delivery : Nat
  /-- `file_status` -/
  status : Nat
  /-- `file_store_responses` -/
  responses : List FileStoreResponseTlv
  /-- `fault_location` -/
  faultLoc : Option EntityIdTlv
deriving DecidableEq, Repr

/-- `might_have_fault_location`: not for `NO_ERROR` (0) and `UNSUPPORTED_CHECKSUM_TYPE` (11) -/
def mightHaveFaultLoc (cond : Int) : Bool := !(cond == 0 || cond == 11)

/-- `file_store_responses_len` -/
def responsesLen : List FileStoreResponseTlv → Nat
  | [] => 0
  | r :: l => r.packetLen + responsesLen l

/-- `_calculate_directive_field_len` -/
def calcLen (fd : FileDirective) (cond : Int) (rs : List FileStoreResponseTlv)
    (fl : Option EntityIdTlv) : Py FileDirective :=
  let flLen := match fl with
    | some t => if mightHaveFaultLoc cond then t.packetLen else 0
    | none => 0
  let base := if fd.header.conf.crcFlag = 1 then 3 else 1
  fd.setParamLen (base + flLen + responsesLen rs)

/-- `FinishedPdu(pdu_conf, params)`: the `fault_location` setter runs when a fault location is
    given, then the `file_store_responses` setter (both see the complete parameter object), then
    `_calculate_directive_field_len()` once more, unconditionally -/
def Finished.new (conf : PduConfig) (cond : Int) (delivery status : Nat)
    (rs : List FileStoreResponseTlv) (fl : Option EntityIdTlv) : Py Finished := do
  let fd ← FileDirective.new { conf with direction := 1 } DIR_FINISHED 1
  let fd ← match fl with
    | some _ => calcLen fd cond rs fl
    | none => pure fd
  let fd ← calcLen fd cond rs fl
  let fd ← calcLen fd cond rs fl
  pure ⟨fd, cond, delivery, status, rs, fl⟩

def Finished.packetLen (k : Finished) : Nat := k.fd.packetLen

/-- the `condition_code` setter. (All three setters restore the old value and re-raise when the
    new length is refused: in this functional model a refused setter returns the error and the
    object it was applied to is, by construction, unchanged.) -/
def Finished.setCond (k : Finished) (c : Int) : Py Finished := do
  let fd ← calcLen k.fd c k.responses k.faultLoc
  pure { k with fd := fd, cond := c }

/-- the `file_store_responses` setter (`None` is `[]`) -/
def Finished.setResponses (k : Finished) (rs : Option (List FileStoreResponseTlv)) : Py Finished := do
  let rs := match rs with
    | some l => l
    | none => []
  let fd ← calcLen k.fd k.cond rs k.faultLoc
  pure { k with fd := fd, responses := rs }

/-- the `fault_location` setter -/
def Finished.setFaultLoc (k : Finished) (fl : Option EntityIdTlv) : Py Finished := do
  let fd ← calcLen k.fd k.cond k.responses fl
  pure { k with fd := fd, faultLoc := fl }

/-- the `for file_store_reponse in self.file_store_responses` loop -/
def packResponses : List FileStoreResponseTlv → Py Bytes
  | [] => pure []
  | r :: l => do
    let x ← r.pack
    let rest ← packResponses l
    pure (x ++ rest)

/-- the fault location as `pack()` writes it -/
def packFaultLoc (cond : Int) : Option EntityIdTlv → Py Bytes
  | some t => if mightHaveFaultLoc cond then t.pack else pure []
  | none => pure []

/-- `pack()` -/
def Finished.pack (k : Finished) : Py Bytes := do
  let d ← k.fd.pack
  if k.cond < 0 then throw .value
  let b ← byteOfN (((k.cond.toNat <<< 4) ||| (k.delivery <<< 2)) ||| k.status)
  let rs ← packResponses k.responses
  let fl ← packFaultLoc k.cond k.faultLoc
  pure (withCrc k.fd.header.conf.crcFlag (d ++ [b] ++ rs ++ fl))

/-- `_unpack_tlvs(rest_of_packet)` on the not yet consumed octets `d` (non-empty on entry):
    returns the filestore responses in order and the *last* entity-ID TLV.
    `rest_of_packet[current_idx]` can only raise `IndexError` on an empty remainder, which the
    loop condition excludes (`Proofs/Finished.lean`). Every round consumes `packet_len ≥ 2`
    octets: the loop terminates. -/
def unpackTlvs (might : Bool) (d : Bytes) : Py (List FileStoreResponseTlv × Option EntityIdTlv) := do
  let code ← idx d 0
  if code = tFsResponse then
    let r ← FileStoreResponseTlv.unpack d
    if _h : r.packetLen ≥ d.length then pure ([r], none)
    else
      let rest ← unpackTlvs might (d.drop r.packetLen)
      pure (r :: rest.1, rest.2)
  else if code = tEntityId then
    if ¬ might then throw .value
    let e ← EntityIdTlv.unpack d
    if _h : e.packetLen ≥ d.length then pure ([], some e)
    else
      let rest ← unpackTlvs might (d.drop e.packetLen)
      pure (rest.1, match rest.2 with
        | some x => some x
        | none => some e)
  else throw .value
termination_by d.length
decreasing_by
  · simp only [List.length_drop]
    have : 0 < r.packetLen := by
      simp only [FileStoreResponseTlv.packetLen, commonPacketLen]; split <;> omega
    omega
  · simp only [List.length_drop]
    have : 0 < e.packetLen := by
      simp only [EntityIdTlv.packetLen, CfdpTlv.packetLen]; omega
    omega

/-- `FinishedPdu.unpack(data)` -/
def Finished.unpack (data : Bytes) : Py Finished := do
  let fd ← FileDirective.unpack data
  let _ ← fd.verify data
  if fd.packetLen > data.length then throw .value
  let data := data.take fd.paramsEnd
  let i := fd.headerLen
  if i ≥ data.length then throw .value
  let b ← idx data i
  let cond ← enumOf condMembers (b / 16 % 16)
  -- `DeliveryCode((b & 0x04) >> 2)`, `FileStatus(b & 0b11)`: every value is a member
  let delivery := b / 4 % 2
  let status := b % 4
  -- the `condition_code` setter runs on the still empty parameter object
  let fd ← calcLen fd (cond : Int) [] none
  if data.length > i + 1 then
    let r ← unpackTlvs (mightHaveFaultLoc (cond : Int)) (data.drop (i + 1))
    -- `file_store_responses` setter, then (if one was decoded) the `fault_location` setter
    let fd ← calcLen fd (cond : Int) r.1 none
    let fd ← match r.2 with
      | some _ => calcLen fd (cond : Int) r.1 r.2
      | none => pure fd
    pure ⟨fd, (cond : Int), delivery, status, r.1, r.2⟩
  else
    pure ⟨fd, (cond : Int), delivery, status, [], none⟩

/-- `list.__eq__` on two lists of filestore responses: lengths first, then element by element
    (`AbstractTlvBase.__eq__`: type and value octets; building a value can raise `ValueError`) -/
def responsesBeqAux : List FileStoreResponseTlv → List FileStoreResponseTlv → Py Bool
  | a :: r, b :: s => do
    let e ← AnyTlv.beq (.fsResponse a) (.fsResponse b)
    if e then responsesBeqAux r s else pure false
  | _, _ => pure true

def responsesBeq (a b : List FileStoreResponseTlv) : Py Bool :=
  if a.length ≠ b.length then pure false else responsesBeqAux a b

/-- `__eq__`: the parameter dataclasses field by field (condition code, delivery code, file
    status, responses, fault location; the first difference decides), then the base objects -/
def Finished.beq (a b : Finished) : Py Bool := do
  if a.cond ≠ b.cond then pure false
  else if a.delivery ≠ b.delivery then pure false
  else if a.status ≠ b.status then pure false
  else
    let r ← responsesBeq a.responses b.responses
    if ¬ r then pure false
    else
      let f ← Eof.optEntityBeq a.faultLoc b.faultLoc
      if ¬ f then pure false
      else pure (a.fd.beq b.fd)

end SpVerif.Finished
