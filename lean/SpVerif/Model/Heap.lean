import SpVerif.Py
/-!
# Object-graph ("heap") model of the mutable library objects (properties C11 / C15 / C02, aliasing clauses)

The functional models of the other files have no object identity: "the caller's object is not
modified", "the request ID is a snapshot", "the space-packet view has its own header" cannot even be
stated there. This file adds a small store model:

* `Addr := Nat`, `Store := List Cell` (address = index; allocation appends, so a fresh address is
  `s.length`), `Cell` = class tag + the ATTRIBUTES THAT HOLD OBJECTS (`refs`, `none` = Python `None`) +
  the scalar attributes (`scal`: integers, enum values, lengths of octet strings);
* `H := StateT Store Option` — a library call: reads cells, allocates FRESH cells exactly where the
  Python code creates a new object, stores a GIVEN address exactly where the Python code stores the
  caller's object, writes cells exactly where the Python code assigns attributes of existing objects
  (`none` = the call raises; the store is then what it was);
* `reachN n s a` — the cells reachable from `a` through at most `n` attribute steps, `viewN n s a` —
  everything an observer reads through the handle `a` (class tags and scalar values of the reachable
  cells, unfolded to a tree in pre-order: sharing is NOT visible in a view, only values are);
  `reach` / `view` fix `n = depth = 8` (the deepest modelled chain, PDU → directive base → header →
  configuration → byte field, has 4 steps).

What each operation allocates / stores / writes was read off the Python source at /repo HEAD (b7949db):
`RequestId.from_sp_header` copies `PacketId` and `PacketSeqCtrl` (840b2f2); `to_space_packet` deep-copies
the header (b7949db); every CFDP PDU constructor takes `copy.copy(pdu_conf)` — a SHALLOW copy: the three
byte-field objects are shared with the caller's configuration — and assigns the direction on the copy;
`FinishedPdu` / `FileDataPdu` / `MetadataPdu` store the caller's parameter object (and the setters of
`FinishedPdu` / `FileDataPdu` write into it); `EofPdu` stores the caller's fault-location TLV, `NakPdu` the
caller's list; `FinishedParams.success_params()` / `.empty()` allocate a new object and a new list per
call (`default_factory`); `PduHolder.pdu = x` stores `x`; decoders return all-fresh object graphs;
`PusTc.from_sp_header` ADOPTS and MODIFIES the caller's header (documented behaviour of that factory).
Second round (read off HEAD 066f1b2): USLP `TransferFrame(header, tfdf, …)` keeps both caller objects, `set_frame_len_in_header()`
assigns `frame_len` of the caller's `PrimaryHeader` (nothing for a truncated header), `TransferFrame.unpack` is all-new;
`PusTm.from_composite_fields` / `Service1Tm.from_tm` ADOPT the given objects and write nothing; `Service1Tm(…)` without
parameters allocates its own; the setters that reach the configuration through a PDU (`pdu.file_flag`, `pdu_header.<flag>`,
`set_entity_ids`, `transaction_seq_num`) write the PDU's own copy — the last two by REPLACING references —, while
`pdu.source_entity_id.value = v` writes the shared byte-field object.
The variants `…Shared` describe the code before 840b2f2 / b7949db and exist only so that the
separation theorems are visibly not vacuous.

Not modelled here: the VALUE of the `_crc16` cache (only whether it is `None`, because `to_space_packet()` assigns it),
the filestore TLV cache (`Model/Mutation.lean`), the values of the
length fields (`Model/Mutation.lean`; a length scalar here only says *that* a setter rewrites it), objects
that are unreachable when the call returns (the `empty()` instance whose attributes a factory overwrites).
-/
namespace SpVerif.Heap

abbrev Addr := Nat

/-- the mutable library classes (and `list`) whose instances are cells -/
inductive Tag
  | packetId | psc | spHeader | tcSec | pusTc | tmSec | pusTm | spacePacket
  | requestId | verifParams | service1Tm | verifStatus | verificator
  | byteField | pduConfig | pduHeader | directive
  | ackPdu | promptPdu | keepAlivePdu | nakPdu | eofPdu | finishedPdu | metadataPdu | fileDataPdu
  | finishedParams | fileDataParams | metadataParams | segMeta | pyList | tlv | pduHolder
  | uslpHeader | uslpTruncHeader | tfdf | transferFrame | fieldEnum | failureNotice
deriving DecidableEq, Repr

structure Cell where
  tag : Tag
  /-- attributes holding objects, in a fixed order per class (`none` = `None`) -/
  refs : List (Option Addr) := []
  /-- scalar attributes, in a fixed order per class -/
  scal : List Nat := []
deriving DecidableEq, Repr

abbrev Store := List Cell

def Cell.kids (c : Cell) : List Addr := c.refs.filterMap id

/-- every reference of every cell points to a cell of the store -/
def Closed (s : Store) : Prop := ∀ c ∈ s, ∀ r ∈ c.kids, r < s.length

instance (s : Store) : Decidable (Closed s) := by unfold Closed; infer_instance

/-! ## reach and view -/

/-- the cells reachable from `a` in at most `n` attribute steps (with repetitions; `a` itself first) -/
def reachN : Nat → Store → Addr → List Addr
  | 0, _, a => [a]
  | n + 1, s, a =>
    a :: (match s[a]? with
      | none => []
      | some c => c.kids.flatMap (reachN n s))

/-- one node of a view: the level (remaining depth) makes the pre-order listing determine the tree -/
inductive VItem
  | none (lvl : Nat)
  | dangling (lvl : Nat)
  | cut
  | node (lvl : Nat) (tag : Tag) (scal : List Nat) (nrefs : Nat)
deriving DecidableEq, Repr

abbrev View := List VItem

/-- what an observer reads through the handle `a`, to depth `n` -/
def viewN : Nat → Store → Addr → View
  | 0, _, _ => [.cut]
  | n + 1, s, a =>
    match s[a]? with
    | none => [.dangling n]
    | some c => .node n c.tag c.scal c.refs.length ::
        c.refs.flatMap (fun o => match o with
          | none => [.none n]
          | some r => viewN n s r)

def depth : Nat := 8
def reach (s : Store) (a : Addr) : List Addr := reachN depth s a
def view (s : Store) (a : Addr) : View := viewN depth s a

/-- no common cell -/
def Disjoint (l₁ l₂ : List Addr) : Prop := ∀ x, x ∈ l₁ → x ∉ l₂

instance (l₁ l₂ : List Addr) : Decidable (Disjoint l₁ l₂) :=
  decidable_of_iff (∀ x ∈ l₁, x ∉ l₂) (by simp [Disjoint])

/-! ## library calls -/

abbrev H := StateT Store Option

/-- the call raises -/
def fail {α : Type} : H α := fun _ => none

/-- a new object -/
def new (c : Cell) : H Addr := fun s => some (s.length, s ++ [c])

def cellAt (a : Addr) : H Cell := fun s =>
  match s[a]? with
  | some c => some (c, s)
  | none => none

/-- attribute `i` of the object at `a`, which must hold an object -/
def ref (a : Addr) (i : Nat) : H Addr := do
  let c ← cellAt a
  match c.refs[i]? with
  | some (some r) => pure r
  | _ => fail

/-- attribute `i` of the object at `a` (an object or `None`) -/
def refOpt (a : Addr) (i : Nat) : H (Option Addr) := do
  let c ← cellAt a
  match c.refs[i]? with
  | some o => pure o
  | none => fail

def scalAt (a : Addr) (i : Nat) : H Nat := do
  let c ← cellAt a
  match c.scal[i]? with
  | some v => pure v
  | none => fail

/-- overwrite the cell at an existing address -/
def put (a : Addr) (c : Cell) : H Unit := fun s =>
  if a < s.length then some ((), s.set a c) else none

/-- assign scalar attribute `i` of the object at `a` -/
def setScal (a : Addr) (i : Nat) (v : Nat) : H Unit := do
  let c ← cellAt a
  put a { c with scal := c.scal.set i v }

/-- assign object attribute `i` of the object at `a` -/
def setRef (a : Addr) (i : Nat) (v : Option Addr) : H Unit := do
  let c ← cellAt a
  put a { c with refs := c.refs.set i v }

/-- `x.attr = x.attr` when the attribute is not `None` (what `FinishedPdu.__init__` does with the
    caller's parameter object through its own setters) -/
def touchRef (a : Addr) (i : Nat) : H Unit := do
  let c ← cellAt a
  match c.refs[i]? with
  | some (some r) => put a { c with refs := c.refs.set i (some r) }
  | _ => pure ()

/-- `copy.copy(x)`: a new object with the same attribute values (the same referenced objects) -/
def copyCell (a : Addr) : H Addr := do
  let c ← cellAt a
  new c

/-- the store after a whole sequence of calls on one object; a call that raises changes nothing -/
def runOps {α : Type} (f : α → H Unit) (ops : List α) (s : Store) : Store :=
  ops.foldl (fun s o => match (f o).run s with
    | some (_, s') => s'
    | none => s) s

/-! ### space packets, PUS telecommand / telemetry -/

/-- `PacketId(ptype, sec_header_flag, apid)` — scalars `[ptype, shf, apid]` -/
def newPacketId (ptype shf apid : Nat) : H Addr := new ⟨.packetId, [], [ptype, shf, apid]⟩

/-- `PacketSeqCtrl(seq_flags, seq_count)` — scalars `[flags, count]` -/
def newPsc (flags count : Nat) : H Addr := new ⟨.psc, [], [flags, count]⟩

/-- `SpacePacketHeader(...)`: new `PacketId`, new `PacketSeqCtrl`; refs `[packet_id, psc]`, scalars `[version, data_len]` -/
def newSpHeader (ptype apid count dlen shf flags version : Nat) : H Addr := do
  let pid ← newPacketId ptype shf apid
  let psc ← newPsc flags count
  new ⟨.spHeader, [some pid, some psc], [version, dlen]⟩

/-- `copy.deepcopy(header)` -/
def deepCopyHeader (h : Addr) : H Addr := do
  let c ← cellAt h
  let pid ← ref h 0
  let psc ← ref h 1
  let pid' ← copyCell pid
  let psc' ← copyCell psc
  new { c with refs := [some pid', some psc'] }

/-- `PusTcDataFieldHeader(...)` — scalars `[service, subservice, source_id, ack_flags]` -/
def newTcSec (svc sub src ack : Nat) : H Addr := new ⟨.tcSec, [], [svc, sub, src, ack]⟩

/-- `PusTc(...)`: refs `[sp_header, pus_tc_sec_header]`, scalars `[len(app_data), crc16 cache]` — the cache scalar is
    `0` for `None` and `1` for "holds the two CRC octets computed by the last `calc_crc()` / `pack()` / `unpack()`" (the
    octets themselves are not modelled: re-computing over changed fields is not visible as a write here) -/
def newPusTc (svc sub apid count src ack dataLen : Nat) : H Addr := do
  let sec ← newTcSec svc sub src ack
  let hdr ← newSpHeader 1 apid count (5 + dataLen + 1) 1 3 0
  new ⟨.pusTc, [some hdr, some sec], [dataLen, 0]⟩

/-- `PusTc.unpack(raw)`: everything new (the CRC cache holds the trailer read) -/
def unpackTc (svc sub apid count src ack dataLen : Nat) : H Addr := do
  let hdr ← newSpHeader 1 apid count (5 + dataLen + 1) 1 3 0
  let sec ← newTcSec svc sub src ack
  new ⟨.pusTc, [some hdr, some sec], [dataLen, 1]⟩

/-- `PusTc.from_sp_header(sp_header, service, subservice, app_data)`: the caller's header is ADOPTED and
    MODIFIED (packet type, secondary header flag, data length) -/
def tcFromSpHeader (hdr : Addr) (svc sub src ack dataLen : Nat) : H Addr := do
  let pid ← ref hdr 0
  setScal pid 0 1
  setScal pid 1 1
  setScal hdr 1 (5 + dataLen + 1)
  let sec ← newTcSec svc sub src ack
  new ⟨.pusTc, [some hdr, some sec], [dataLen, 0]⟩

/-- `PusTc.from_composite_fields(sp_header, sec_header, app_data)`: both objects adopted, `ValueError` for a TM header -/
def tcFromCompositeFields (hdr sec : Addr) (dataLen : Nat) : H Addr := do
  let pid ← ref hdr 0
  let pt ← scalAt pid 0
  if pt = 0 then fail else
  new ⟨.pusTc, [some hdr, some sec], [dataLen, 0]⟩

/-- `PusTc.to_space_packet()` since b7949db: `self.calc_crc()` — an assignment to the packet's own PUBLIC `crc16`
    cache — then `SpacePacket(copy.deepcopy(self.sp_header), …)` -/
def tcToSpacePacket (tc : Addr) : H Addr := do
  let hdr ← ref tc 0
  let n ← scalAt tc 0
  setScal tc 1 1
  let hdr' ← deepCopyHeader hdr
  new ⟨.spacePacket, [some hdr'], [5, n + 2]⟩

/-- `tc.pack()` / `tc.calc_crc()` as far as the object graph is concerned: the packet's own `crc16` cache is assigned -/
def tcPack (tc : Addr) : H Unit := setScal tc 1 1

/-- before b7949db: `SpacePacket(self.sp_header, …)` -/
def tcToSpacePacketShared (tc : Addr) : H Addr := do
  let hdr ← ref tc 0
  let n ← scalAt tc 0
  setScal tc 1 1
  new ⟨.spacePacket, [some hdr], [5, n + 2]⟩

/-- the documented setters of a telecommand -/
inductive TcOp
  | seqCount (v : Nat)
  | apid (v : Nat)
  | sourceId (v : Nat)
  | appData (len : Nat)
deriving DecidableEq, Repr

def tcSet (tc : Addr) : TcOp → H Unit
  | .seqCount v => do
    let h ← ref tc 0
    let psc ← ref h 1
    setScal psc 1 v
  | .apid v => do
    let h ← ref tc 0
    let pid ← ref h 0
    setScal pid 2 v
  | .sourceId v => do
    let sec ← ref tc 1
    setScal sec 2 v
  | .appData n => do
    let h ← ref tc 0
    if 5 + n + 1 > 65535 then fail else do
    setScal tc 0 n
    setScal h 1 (5 + n + 1)

/-- `PusTm(...)`: refs `[space_packet_header, pus_tm_sec_header]`, scalars `[len(source_data), crc16 cache]` -/
def newPusTm (svc sub apid count tsLen dataLen : Nat) : H Addr := do
  let hdr ← newSpHeader 0 apid count (7 + tsLen + dataLen + 1) 1 3 0
  let sec ← new ⟨.tmSec, [], [svc, sub, 0, 0, 0, tsLen]⟩
  new ⟨.pusTm, [some hdr, some sec], [dataLen, 0]⟩

/-- `PusTm.to_space_packet()`: `calc_crc()` (the packet's own `crc16` cache), then a deep copy of the header -/
def tmToSpacePacket (tm : Addr) : H Addr := do
  let hdr ← ref tm 0
  let n ← scalAt tm 0
  setScal tm 1 1
  let hdr' ← deepCopyHeader hdr
  new ⟨.spacePacket, [some hdr'], [7, n + 2]⟩

inductive TmOp
  | apid (v : Nat)
  | seqFlags (v : Nat)
  | tmData (len : Nat)
deriving DecidableEq, Repr

def tmSet (tm : Addr) : TmOp → H Unit
  | .apid v => do
    let h ← ref tm 0
    let pid ← ref h 0
    setScal pid 2 v
  | .seqFlags v => do
    let h ← ref tm 0
    let psc ← ref h 1
    setScal psc 0 v
  | .tmData n => do
    let h ← ref tm 0
    let sec ← ref tm 1
    let ts ← scalAt sec 5
    if 7 + ts + n + 1 > 65535 then fail else do
    setScal tm 0 n
    setScal h 1 (7 + ts + n + 1)

/-! ### request IDs, service-1 reports, the verification tracker -/

/-- `RequestId.from_sp_header(header)` since 840b2f2: `copy.copy` of the header's `PacketId` and
    `PacketSeqCtrl`; refs `[tc_packet_id, tc_psc]`, scalars `[ccsds_version]` -/
def reqIdFromSpHeader (hdr : Addr) : H Addr := do
  let pid ← ref hdr 0
  let psc ← ref hdr 1
  let ver ← scalAt hdr 0
  let pid' ← copyCell pid
  let psc' ← copyCell psc
  new ⟨.requestId, [some pid', some psc'], [ver]⟩

/-- before 840b2f2: the header's own objects -/
def reqIdFromSpHeaderShared (hdr : Addr) : H Addr := do
  let pid ← ref hdr 0
  let psc ← ref hdr 1
  let ver ← scalAt hdr 0
  new ⟨.requestId, [some pid, some psc], [ver]⟩

/-- `RequestId.from_pus_tc(tc)` -/
def reqIdFromPusTc (tc : Addr) : H Addr := do
  let hdr ← ref tc 0
  reqIdFromSpHeader hdr

def reqIdFromPusTcShared (tc : Addr) : H Addr := do
  let hdr ← ref tc 0
  reqIdFromSpHeaderShared hdr

/-- `create_<step>_tm(apid, pus_tc, timestamp)`: `Service1Tm(…, VerificationParams(RequestId.from_sp_header(tc.sp_header)))`;
    refs of the report `[_verif_params, pus_tm]`, of the parameters `[req_id, step_id, failure_notice]` -/
def service1FromTc (tc : Addr) (apid sub tsLen : Nat) : H Addr := do
  let hdr ← ref tc 0
  let rid ← reqIdFromSpHeader hdr
  let vp ← new ⟨.verifParams, [some rid, none, none], []⟩
  let tm ← newPusTm 1 sub apid 0 tsLen 4
  new ⟨.service1Tm, [some vp, some tm], []⟩

/-- `Service1Tm(apid, subservice, timestamp, verif_params=params)`: the report KEEPS the caller's `VerificationParams`
    object (`self._verif_params = verif_params`); the `PusTm` inside is new -/
def newService1Tm (params : Addr) (apid sub tsLen : Nat) : H Addr := do
  let _ ← cellAt params
  let tm ← newPusTm 1 sub apid 0 tsLen 4
  new ⟨.service1Tm, [some params, some tm], []⟩

/-- `VerificationParams(req_id)` (a dataclass: the given request ID is stored) -/
def newVerifParams (rid : Addr) : H Addr := new ⟨.verifParams, [some rid, none, none], []⟩

/-- `PusVerificator()` — refs: the keys and status records of the dictionary, alternating -/
def newVerificator : H Addr := new ⟨.verificator, [], []⟩

/-- `verificator.add_tc(tc)` for a telecommand not yet registered: key = `RequestId.from_sp_header(tc.sp_header)` -/
def verificatorAddTc (v tc : Addr) : H Addr := do
  let hdr ← ref tc 0
  let rid ← reqIdFromSpHeader hdr
  let st ← new ⟨.verifStatus, [], [0, 0, 0, 0, 0]⟩
  let c ← cellAt v
  put v { c with refs := c.refs ++ [some rid, some st] }
  pure rid

/-! ### CFDP -/

/-- `UnsignedByteField(value, byte_len)` — scalars `[byte_len, value]` -/
def newByteField (w v : Nat) : H Addr := new ⟨.byteField, [], [w, v]⟩

/-- `PduConfig(source_entity_id, dest_entity_id, transaction_seq_num, …)` (a dataclass: the three given objects are
    stored); scalars `[trans_mode, file_flag, crc_flag, direction, seg_ctrl]` -/
def newPduConfig (src dst seq : Addr) (mode ff crc dir seg : Nat) : H Addr :=
  new ⟨.pduConfig, [some src, some dst, some seq], [mode, ff, crc, dir, seg]⟩

/-- `PduConfig.default()`: three new `ByteFieldU8(0)` per call -/
def pduConfigDefault : H Addr := do
  let seq ← newByteField 1 0
  let src ← newByteField 1 0
  let dst ← newByteField 1 0
  newPduConfig src dst seq 0 0 0 0 0

/-- `pdu_conf = copy.copy(pdu_conf); pdu_conf.direction = dir` — the first two statements of every PDU constructor -/
def copyConfWithDir (conf : Addr) (dir : Nat) : H Addr := do
  let c ← cellAt conf
  new { c with scal := c.scal.set 3 dir }

/-- `PduHeader(pdu_type, segment_metadata_flag, pdu_data_field_len, pdu_conf)`: stores the configuration it is given;
    refs `[pdu_conf]`, scalars `[pdu_type, segment_metadata_flag, pdu_data_field_len]` -/
def newPduHeader (conf : Addr) (pduType segMeta dlen : Nat) : H Addr :=
  new ⟨.pduHeader, [some conf], [pduType, segMeta, dlen]⟩

/-- `FileDirectivePduBase(pdu_conf, directive_code, directive_param_field_len)`: refs `[pdu_header]`, scalars `[code]` -/
def newDirective (conf : Addr) (code paramLen : Nat) : H Addr := do
  let h ← newPduHeader conf 0 0 (paramLen + 1)
  new ⟨.directive, [some h], [code]⟩

inductive PduKind
  | ack | prompt | keepAlive | nak | eof | finished | metadata | fileData
deriving DecidableEq, Repr

def PduKind.tag : PduKind → Tag
  | .ack => .ackPdu | .prompt => .promptPdu | .keepAlive => .keepAlivePdu | .nak => .nakPdu | .eof => .eofPdu
  | .finished => .finishedPdu | .metadata => .metadataPdu | .fileData => .fileDataPdu

def PduKind.code : PduKind → Nat
  | .ack => 6 | .prompt => 9 | .keepAlive => 12 | .nak => 8 | .eof => 4 | .finished => 5 | .metadata => 7 | .fileData => 0

/-- the direction the constructor assigns on its copy (`ackedFinished`: an ACK of a Finished PDU travels towards the receiver) -/
def PduKind.dir (k : PduKind) (ackedFinished : Bool) : Nat :=
  match k with
  | .ack => if ackedFinished then 0 else 1
  | .prompt | .eof | .metadata | .fileData => 0
  | .keepAlive | .nak | .finished => 1

/-- the common part of the eight constructors: shallow copy of the caller's configuration with the direction of the kind,
    new header (and directive base), new PDU object whose first attribute is that base / header and whose further
    object attributes are THE CALLER'S objects `objs` -/
def newPdu (k : PduKind) (conf : Addr) (objs : List (Option Addr)) (scal : List Nat) (ackedFinished : Bool := false)
    (segMetaFlag : Nat := 0) (dataFieldLen : Nat := 0) : H Addr := do
  let conf' ← copyConfWithDir conf (k.dir ackedFinished)
  match k with
  | .fileData => do
    let h ← newPduHeader conf' 1 segMetaFlag dataFieldLen
    new ⟨k.tag, some h :: objs, scal⟩
  | _ => do
    let b ← newDirective conf' k.code scal.length
    new ⟨k.tag, some b :: objs, scal⟩

/-- `AckPdu(conf, directive_code_of_acked_pdu, condition_code, transaction_status)` -/
def newAckPdu (conf : Addr) (acked cond status : Nat) : H Addr := newPdu .ack conf [] [acked, cond, status] (acked == 5)
/-- `PromptPdu(conf, response_required)` -/
def newPromptPdu (conf : Addr) (resp : Nat) : H Addr := newPdu .prompt conf [] [resp]
/-- `KeepAlivePdu(conf, progress)` -/
def newKeepAlivePdu (conf : Addr) (progress : Nat) : H Addr := newPdu .keepAlive conf [] [progress]
/-- `NakPdu(conf, start, end, segment_requests)`: refs `[base, segment_requests]` — the caller's list (`None` → a new list) -/
def newNakPdu (conf : Addr) (start stop : Nat) (segs : Option Addr) : H Addr := do
  match segs with
  | some l => newPdu .nak conf [some l] [start, stop]
  | none => do
    let l ← new ⟨.pyList, [], []⟩
    newPdu .nak conf [some l] [start, stop]
/-- `EofPdu(conf, checksum, file_size, fault_location, condition_code)`: refs `[base, fault_location]` — the caller's TLV -/
def newEofPdu (conf : Addr) (size cond : Nat) (fault : Option Addr) : H Addr := newPdu .eof conf [fault] [size, cond]
/-- `MetadataPdu(conf, params, options)`: refs `[base, params, options]` — the caller's objects -/
def newMetadataPdu (conf params : Addr) (options : Option Addr) : H Addr := newPdu .metadata conf [some params, options] []

/-- `FinishedParams(condition_code, delivery_code, file_status, file_store_responses, fault_location)`:
    refs `[file_store_responses, fault_location]`, scalars `[condition_code, delivery_code, file_status]` -/
def newFinishedParams (cond deliv status : Nat) (responses fault : Option Addr) : H Addr :=
  new ⟨.finishedParams, [responses, fault], [cond, deliv, status]⟩

/-- `FinishedParams.success_params()`: a new list (`default_factory`) and a new object per call -/
def finishedSuccessParams : H Addr := do
  let l ← new ⟨.pyList, [], []⟩
  newFinishedParams 0 0 2 (some l) none

/-- `FinishedParams.empty()` -/
def finishedEmptyParams : H Addr := do
  let l ← new ⟨.pyList, [], []⟩
  newFinishedParams 0 0 0 (some l) none

/-- `FinishedPdu(conf, params)`: refs `[base, _params]` — the caller's parameter object, which the constructor
    re-assigns to itself through its own setters (`self.fault_location = params.fault_location`, …) -/
def newFinishedPdu (conf params : Addr) : H Addr := do
  let pdu ← newPdu .finished conf [some params] []
  touchRef params 1
  touchRef params 0
  pure pdu

/-- `FinishedPdu.success_pdu(conf)` -/
def finishedSuccessPdu (conf : Addr) : H Addr := do
  let p ← finishedSuccessParams
  newFinishedPdu conf p

/-- the documented setters of a Finished PDU: they write INTO the parameter object the PDU was given -/
inductive FinOp
  | cond (v : Nat)
  | faultLoc (t : Option Addr)
  | responses (l : Option Addr)
deriving DecidableEq, Repr

def finSet (pdu : Addr) : FinOp → H Unit
  | .cond v => do
    let p ← ref pdu 1
    let b ← ref pdu 0
    let h ← ref b 0
    setScal p 0 v
    setScal h 2 (2 + v)
  | .faultLoc t => do
    let p ← ref pdu 1
    let b ← ref pdu 0
    let h ← ref b 0
    setRef p 1 t
    setScal h 2 (match t with | some _ => 7 | none => 2)
  | .responses l => do
    let p ← ref pdu 1
    let b ← ref pdu 0
    let h ← ref b 0
    match l with
    | some a => do
      setRef p 0 (some a)
      setScal h 2 11
    | none => do
      let e ← new ⟨.pyList, [], []⟩
      setRef p 0 (some e)
      setScal h 2 2

/-- `SegmentMetadata(record_cont_state, metadata)` -/
def newSegMeta (state len : Nat) : H Addr := new ⟨.segMeta, [], [state, len]⟩

/-- `FileDataParams(file_data, offset, segment_metadata)`: refs `[segment_metadata]`, scalars `[len(file_data), offset]` -/
def newFileDataParams (dataLen offset : Nat) (segMeta : Option Addr) : H Addr :=
  new ⟨.fileDataParams, [segMeta], [dataLen, offset]⟩

/-- `FileDataParams.empty()` -/
def fileDataEmptyParams : H Addr := newFileDataParams 0 0 none

/-- octets a segment-metadata object adds to the data field -/
def segMetaLen : Option Addr → H Nat
  | none => pure 0
  | some m => do
    let l ← scalAt m 1
    pure (l + 1)

/-- `FileDataPdu(conf, params)`: refs `[pdu_header, _params]` — the caller's parameter object -/
def newFileDataPdu (conf params : Addr) : H Addr := do
  let sm ← refOpt params 0
  let n ← scalAt params 0
  let ml ← segMetaLen sm
  newPdu .fileData conf [some params] [] false (if sm.isSome then 1 else 0) (n + 4 + ml)

inductive FdOp
  | fileData (len : Nat)
  | segMeta (m : Option Addr)
deriving DecidableEq, Repr

def fdSet (pdu : Addr) : FdOp → H Unit
  | .fileData n => do
    let p ← ref pdu 1
    let h ← ref pdu 0
    let ml ← segMetaLen (← refOpt p 0)
    setScal p 0 n
    setScal h 2 (n + 4 + ml)
  | .segMeta m => do
    let p ← ref pdu 1
    let h ← ref pdu 0
    let n ← scalAt p 0
    let ml ← segMetaLen m
    setRef p 0 m
    setScal h 1 (if m.isSome then 1 else 0)
    setScal h 2 (n + 4 + ml)

/-- the scalar attributes of a caller's `PduConfig` (`conf.crc_flag = …`, …): index into `[mode, file_flag, crc, dir, seg]` -/
def confSetScalar (conf : Addr) (i v : Nat) : H Unit := setScal conf i v

/-- `conf.source_entity_id.value = v` (and the other two byte fields): writes the byte-field OBJECT the configuration holds -/
def confSetFieldValue (conf : Addr) (i v : Nat) : H Unit := do
  let f ← ref conf i
  setScal f 1 v

/-- `PduHolder(pdu)` -/
def newHolder (pdu : Option Addr) : H Addr := new ⟨.pduHolder, [pdu], []⟩

/-- `holder.pdu = x` -/
def holderSet (h : Addr) (x : Option Addr) : H Unit := setRef h 0 x

/-- `<Pdu>.unpack(raw)`: every object of the result is new (configuration, its three byte fields, header, base,
    parameter objects, lists, TLVs) -/
def unpackPdu (k : PduKind) (idw seqw : Nat) (withObj : Bool) (scal : List Nat) : H Addr := do
  let src ← newByteField idw 0
  let seq ← newByteField seqw 0
  let dst ← newByteField idw 0
  let conf ← newPduConfig src dst seq 0 0 0 (k.dir false) 0
  match k with
  | .fileData => do
    let p ← (if withObj then do
        let m ← newSegMeta 0 0
        newFileDataParams 0 0 (some m)
      else newFileDataParams 0 0 none)
    let h ← newPduHeader conf 1 (if withObj then 1 else 0) 4
    new ⟨.fileDataPdu, [some h, some p], []⟩
  | .finished => do
    let l ← new ⟨.pyList, [], []⟩
    let p ← (if withObj then do
        let t ← new ⟨.tlv, [], [6, 1]⟩
        newFinishedParams 0 0 0 (some l) (some t)
      else newFinishedParams 0 0 0 (some l) none)
    let b ← newDirective conf 5 1
    new ⟨.finishedPdu, [some b, some p], []⟩
  | .metadata => do
    let p ← new ⟨.metadataParams, [], [0, 0, 0]⟩
    let b ← newDirective conf 7 5
    if withObj then do
      let t ← new ⟨.tlv, [], [5, 3]⟩
      let l ← new ⟨.pyList, [some t], []⟩
      new ⟨.metadataPdu, [some b, some p, some l], scal⟩
    else new ⟨.metadataPdu, [some b, some p, none], scal⟩
  | .nak => do
    let l ← new ⟨.pyList, [], []⟩
    let b ← newDirective conf 8 8
    new ⟨.nakPdu, [some b, some l], scal⟩
  | .eof => do
    let b ← newDirective conf 4 9
    if withObj then do
      let t ← new ⟨.tlv, [], [6, 1]⟩
      new ⟨.eofPdu, [some b, some t], scal⟩
    else new ⟨.eofPdu, [some b, none], scal⟩
  | _ => do
    let b ← newDirective conf k.code scal.length
    new ⟨k.tag, [some b], scal⟩

/-! ### USLP transfer frames (`uslp/frame.py`, `uslp/header.py`) -/

/-- an optional octet string as a scalar: `0` = `None`, `len + 1` otherwise (`len()` tests `is not None`) -/
def optEnc : Option Nat → Nat
  | none => 0
  | some n => n + 1

/-- `PrimaryHeader(…)` — scalars `[frame_len, vcf_count_len, op_ctrl_flag, scid, vcid, map_id, src_dest]` -/
def newUslpHeader (frameLen vcfLen ocf scid vcid mapId srcDest : Nat) : H Addr :=
  new ⟨.uslpHeader, [], [frameLen, vcfLen, ocf, scid, vcid, mapId, srcDest]⟩

/-- `TruncatedPrimaryHeader(…)` (no frame length field) — scalars `[scid, vcid, map_id, src_dest]` -/
def newUslpTruncHeader (scid vcid mapId srcDest : Nat) : H Addr := new ⟨.uslpTruncHeader, [], [scid, vcid, mapId, srcDest]⟩

/-- `tfdf.header_len()` -/
def tfdfHeaderLen (fhp : Option Nat) : Nat := if fhp.isSome then 3 else 1

/-- `TransferFrameDataField(rules, ident, tfdz, fhp_or_lvop)`: the data zone is an octet string the object HOLDS (a scalar
    here: its length); `ValueError` when too large; scalars `[rules, ident, fhp_or_lvop (optEnc), len(tfdz), len()]` -/
def newTfdf (rules ident : Nat) (fhp : Option Nat) (tfdzLen : Nat) : H Addr :=
  if tfdfHeaderLen fhp + tfdzLen > 65529 - tfdfHeaderLen fhp then fail else
  new ⟨.tfdf, [], [rules, ident, optEnc fhp, tfdzLen, tfdfHeaderLen fhp + tfdzLen]⟩

/-- `TransferFrame(header, tfdf, insert_zone, op_ctrl_field, fecf)`: five plain attribute assignments — the frame KEEPS the
    caller's header and data-field objects; refs `[header, tfdf]`, scalars `[insert_zone, op_ctrl_field, fecf]` (`optEnc`) -/
def newTransferFrame (hdr tfdf : Addr) (iz ocf fecf : Option Nat) : H Addr :=
  new ⟨.transferFrame, [some hdr, some tfdf], [optEnc iz, optEnc ocf, optEnc fecf]⟩

/-- `frame.set_frame_len_in_header()`: `isinstance(self.header, PrimaryHeader)` — a truncated header has no length field and
    nothing happens —, then `self.len()` (header, data field, optional fields), `ValueError` beyond 16 bits, then
    `self.header.frame_len = self.len() - 1`: an assignment INTO THE CALLER'S header object -/
def setFrameLenInHeader (fr : Addr) : H Unit := do
  let h ← ref fr 0
  let ch ← cellAt h
  if ch.tag ≠ .uslpHeader then pure () else do
  let t ← ref fr 1
  let vcf ← scalAt h 1
  let sz ← scalAt t 4
  let iz ← scalAt fr 0
  let ocf ← scalAt fr 1
  let fecf ← scalAt fr 2
  let n := 7 + vcf + sz + (iz - 1) + (ocf - 1) + (fecf - 1)
  if n - 1 > 65535 then fail else setScal h 0 (n - 1)

/-- `TransferFrame.unpack(raw, frame_type, properties)`: a new header (of either class), a new data field, a new frame
    (the `__empty()` header / data field it starts from are unreachable when it returns); the scalar lists are what was decoded -/
def unpackFrame (truncated : Bool) (hs ts fs : List Nat) : H Addr := do
  let h ← new ⟨if truncated then .uslpTruncHeader else .uslpHeader, [], hs⟩
  let t ← new ⟨.tfdf, [], ts⟩
  new ⟨.transferFrame, [some h, some t], fs⟩

/-! ### adoption by the telemetry factories -/

/-- `PusTm.from_composite_fields(sp_header, sec_header, tm_data)`: `ValueError` for a TC header, both objects adopted, nothing
    written (the `empty()` packet's own header / secondary header become unreachable) -/
def tmFromCompositeFields (hdr sec : Addr) (dataLen : Nat) : H Addr := do
  let pid ← ref hdr 0
  let pt ← scalAt pid 0
  if pt = 1 then fail else
  new ⟨.pusTm, [some hdr, some sec], [dataLen, 0]⟩

/-- `RequestId.unpack(raw)` / `RequestId.empty()`: a new `PacketId`, a new `PacketSeqCtrl`, a new request ID -/
def newReqId (ptype shf apid flags count ver : Nat) : H Addr := do
  let pid ← newPacketId ptype shf apid
  let psc ← newPsc flags count
  new ⟨.requestId, [some pid, some psc], [ver]⟩

/-- `Service1Tm(apid, subservice, timestamp)` without `verif_params`: `VerificationParams(RequestId.empty())` and a `PusTm`,
    all new per call -/
def newService1TmDefault (apid sub tsLen : Nat) : H Addr := do
  let rid ← newReqId 0 0 0 0 0 0
  let vp ← newVerifParams rid
  let tm ← newPusTm 1 sub apid 0 tsLen 0
  new ⟨.service1Tm, [some vp, some tm], []⟩

/-- `Service1Tm.from_tm(tm, params)`: `cls.__empty()` (new parameters; its own `PusTm` becomes unreachable), then
    `service_1_tm.pus_tm = tm` — the GIVEN telemetry object is ADOPTED, not copied —, then `_unpack_raw_tm`: source data
    shorter than 4 octets raises, `tc_req_id = RequestId.unpack(…)` (new objects, stored in the report's OWN new parameters),
    a new step ID for subservices 5 / 6, a new failure notice (holding a new error-code field) for the even subservices,
    `ValueError` for any other subservice. Nothing is written to `tm`. Values decoded from the octets are not modelled (0). -/
def service1FromTm (tm : Addr) : H Addr := do
  let n ← scalAt tm 0
  let sec ← ref tm 1
  let sub ← scalAt sec 1
  if n < 4 then fail else do
  if ¬ (1 ≤ sub ∧ sub ≤ 8) then fail else do
  let rid ← newReqId 0 0 0 0 0 0
  let st ← (if sub = 5 ∨ sub = 6 then do
      let e ← new ⟨.fieldEnum, [], [8, 0]⟩
      pure (some e)
    else pure none)
  let fnot ← (if sub % 2 = 0 then do
      let c ← new ⟨.fieldEnum, [], [8, 0]⟩
      let f ← new ⟨.failureNotice, [some c], [0]⟩
      pure (some f)
    else pure none)
  let vp ← new ⟨.verifParams, [some rid, st, fnot], []⟩
  new ⟨.service1Tm, [some vp, some tm], []⟩

/-! ### setters that go through a PDU to ITS OWN configuration copy -/

/-- the header and the configuration a PDU reads: `pdu.pdu_header`, `pdu.pdu_header.pdu_conf` -/
def pduHeaderConf (k : PduKind) (pdu : Addr) : H (Addr × Addr) :=
  match k with
  | .fileData => do
    let h ← ref pdu 0
    let c ← ref h 0
    pure (h, c)
  | _ => do
    let b ← ref pdu 0
    let h ← ref b 0
    let c ← ref h 0
    pure (h, c)

/-- assignments that reach the configuration THROUGH a PDU:
    * `fileFlag v` — `pdu.file_flag = v` of the classes that define the setter (Keep Alive, NAK): the flag of the PDU's
      configuration and the data-field length of its header are assigned (the length VALUE written here is Keep Alive's
      formula; for NAK it only records that the header is rewritten — `Model/Mutation.lean` has the values);
    * `hdrScalar i v` — `pdu.pdu_header.<trans. mode | file_flag | crc_flag | direction | seg_ctrl> = v` and
      `pdu.pdu_file_directive.file_flag / crc_flag = v` (scalar `i` of the configuration the header holds);
    * `entityIds a b` — `pdu.pdu_header.set_entity_ids(a, b)`: `ValueError` for different widths, then
      `self.pdu_conf.source_entity_id = a; self.pdu_conf.dest_entity_id = b` — the header's configuration gets the GIVEN
      objects (a replacement of the references, NOT an assignment to `.value` of the byte fields it held);
    * `seqNum q` — `pdu.pdu_header.transaction_seq_num = q`: likewise a replacement;
    * `fieldValue i v` — `pdu.source_entity_id.value = v` (`i` = 0, 1, 2: source, destination, sequence number): an
      assignment INTO the byte-field object, which the shallow copy shares with the caller's configuration -/
inductive PduFlagOp
  | fileFlag (v : Nat)
  | hdrScalar (i v : Nat)
  | entityIds (a b : Addr)
  | seqNum (q : Addr)
  | fieldValue (i v : Nat)
deriving DecidableEq, Repr

def pduFlagSet (k : PduKind) (pdu : Addr) : PduFlagOp → H Unit
  | .fileFlag v => do
    let (h, c) ← pduHeaderConf k pdu
    let crc ← scalAt c 2
    setScal c 1 v
    setScal h 2 ((if v = 1 then 8 else 4) + 2 * crc + 1)
  | .hdrScalar i v => do
    let (_, c) ← pduHeaderConf k pdu
    setScal c i v
  | .entityIds a b => do
    let (_, c) ← pduHeaderConf k pdu
    let wa ← scalAt a 0
    let wb ← scalAt b 0
    if wa ≠ wb then fail else do
    setRef c 0 (some a)
    setRef c 1 (some b)
  | .seqNum q => do
    let (_, c) ← pduHeaderConf k pdu
    setRef c 2 (some q)
  | .fieldValue i v => do
    let (_, c) ← pduHeaderConf k pdu
    let f ← ref c i
    setScal f 1 v

/-! ## named access paths (public attribute names of the library) -/

/-- public attribute / property name → the chain of `refs` indices it reads -/
def attr : Tag → String → Option (List Nat)
  | .spHeader, "packet_id" => some [0]
  | .spHeader, "packet_seq_control" => some [1]
  | .pusTc, "sp_header" => some [0]
  | .pusTc, "pus_tc_sec_header" => some [1]
  | .pusTc, "packet_id" => some [0, 0]
  | .pusTc, "packet_seq_control" => some [0, 1]
  | .pusTm, "sp_header" => some [0]
  | .pusTm, "space_packet_header" => some [0]
  | .pusTm, "pus_tm_sec_header" => some [1]
  | .pusTm, "packet_id" => some [0, 0]
  | .pusTm, "packet_seq_control" => some [0, 1]
  | .spacePacket, "sp_header" => some [0]
  | .requestId, "tc_packet_id" => some [0]
  | .requestId, "tc_psc" => some [1]
  | .service1Tm, "tc_req_id" => some [0, 0]
  | .service1Tm, "pus_tm" => some [1]
  | .service1Tm, "sp_header" => some [1, 0]
  | .service1Tm, "packet_id" => some [1, 0, 0]
  | .service1Tm, "packet_seq_control" => some [1, 0, 1]
  | .pduConfig, "source_entity_id" => some [0]
  | .pduConfig, "dest_entity_id" => some [1]
  | .pduConfig, "transaction_seq_num" => some [2]
  | .pduHeader, "pdu_conf" => some [0]
  | .pduHeader, "pdu_header" => some []
  | .pduHeader, "source_entity_id" => some [0, 0]
  | .pduHeader, "dest_entity_id" => some [0, 1]
  | .pduHeader, "transaction_seq_num" => some [0, 2]
  | .directive, "pdu_header" => some [0]
  | .directive, "pdu_conf" => some [0, 0]
  | .fileDataPdu, "pdu_header" => some [0]
  | .fileDataPdu, "segment_metadata" => some [1, 0]
  | .fileDataPdu, "source_entity_id" => some [0, 0, 0]
  | .fileDataPdu, "dest_entity_id" => some [0, 0, 1]
  | .fileDataPdu, "transaction_seq_num" => some [0, 0, 2]
  | .finishedParams, "file_store_responses" => some [0]
  | .finishedParams, "fault_location" => some [1]
  | .fileDataParams, "segment_metadata" => some [0]
  | .pduHolder, "pdu" => some [0]
  | .nakPdu, "segment_requests" => some [1]
  | .eofPdu, "fault_location" => some [1]
  | .finishedPdu, "finished_params" => some [1]
  | .finishedPdu, "file_store_responses" => some [1, 0]
  | .finishedPdu, "fault_location" => some [1, 1]
  | .metadataPdu, "params" => some [1]
  | .metadataPdu, "options" => some [2]
  | .verifParams, "req_id" => some [0]
  | .verifParams, "step_id" => some [1]
  | .verifParams, "failure_notice" => some [2]
  | .service1Tm, "step_id" => some [0, 1]
  | .service1Tm, "failure_notice" => some [0, 2]
  | .failureNotice, "code" => some [0]
  | .transferFrame, "header" => some [0]
  | .transferFrame, "tfdf" => some [1]
  | .pyList, name => name.toNat?.map fun i => [i]      -- `lst[i]`, written as the path segment `i`
  | t, name =>
    -- the seven file-directive PDU classes: `pdu_file_directive`, and what they forward to it
    if t = .ackPdu ∨ t = .promptPdu ∨ t = .keepAlivePdu ∨ t = .nakPdu ∨ t = .eofPdu ∨ t = .finishedPdu ∨ t = .metadataPdu then
      if name = "pdu_file_directive" then some [0]
      else if name = "pdu_header" then some [0, 0]
      else if name = "source_entity_id" then some [0, 0, 0, 0]
      else if name = "dest_entity_id" then some [0, 0, 0, 1]
      else if name = "transaction_seq_num" then some [0, 0, 0, 2]
      else none
    else none

def followIdx (s : Store) (a : Addr) : List Nat → Option Addr
  | [] => some a
  | i :: rest =>
    match s[a]? with
    | none => none
    | some c =>
      match c.refs[i]? with
      | some (some r) => followIdx s r rest
      | _ => none

/-- the object a dotted path of public attribute names denotes (`none`: `None`, a scalar, or no such attribute) -/
def followAttrs (s : Store) (a : Addr) : List String → Option Addr
  | [] => if a < s.length then some a else none
  | name :: rest =>
    match s[a]? with
    | none => none
    | some c =>
      match attr c.tag name with
      | none => none
      | some idxs =>
        match followIdx s a idxs with
        | none => none
        | some a' => followAttrs s a' rest

end SpVerif.Heap
