import SpVerif.Model.CfdpHeader
/-!
# Model of `spacepackets/cfdp/pdu/file_directive.py` (shared base of all seven file-directive PDUs)

`FileDirectivePduBase`: a `PduHeader` of type *file directive* plus the directive-code octet.
Constructor, `pack`, `unpack`, `header_len` (= header + 1), `packet_len`, `directive_param_field_len`
and its setter, the `file_flag` setter, `verify_length_and_checksum`, `__eq__`
(`AbstractFileDirectiveBase.__eq__` on top of `AbstractPduBase.__eq__`), `parse_fss_field`,
`_verify_file_len`, and three helpers every directive model uses:

* `paramsEnd` — the `end_of_params` computation every repaired decoder performs right after
  `verify_length_and_checksum` (declared PDU length minus the CRC trailer),
* `packInt` — `struct.pack("!I"/"!Q", v)` for an arbitrary Python `int` (`struct.error` for negative
  values and values beyond the width),
* `withCrc` — "append `struct.pack('!H', CRC16_CCITT_FUNC(packet))` iff the CRC flag is set".

The directive code is kept as the raw octet value (the decoder stores `raw_packet[header_len - 1]`
without converting it to `DirectiveType`).

Not modelled: aliasing of the `PduConfig` object between the header and the caller (C11),
`__repr__`.
-/
namespace SpVerif.FileDirective
open SpVerif SpVerif.CfdpHeader

/-- `DirectiveType` members (table-synced by the harness) -/
def DIR_EOF : Nat := 4
def DIR_FINISHED : Nat := 5
def DIR_ACK : Nat := 6
def DIR_METADATA : Nat := 7
def DIR_NAK : Nat := 8
def DIR_PROMPT : Nat := 9
def DIR_KEEP_ALIVE : Nat := 12
def DIR_NONE : Nat := 10

/-- `struct.pack("!I"/"!Q", v)` (width `n` octets) for a Python `int`: `struct.error` when `v` is
    negative or does not fit. -/
def packInt (n : Nat) (v : Int) : Py Bytes :=
  if v < 0 then .error .struct else packBE n v.toNat

/-- `AbstractPduBase.__eq__`: PDU type, file flag, CRC flag, destination ID, source ID and
    `packet_len` (direction, mode, sequence number and segmentation control are *not* compared). -/
def headerBeq (a b : PduHeader) : Bool :=
  a.pduType == b.pduType && a.conf.fileFlag == b.conf.fileFlag && a.conf.crcFlag == b.conf.crcFlag
    && a.conf.dest == b.conf.dest && a.conf.source == b.conf.source && a.packetLen == b.packetLen

structure FileDirective where
  header : PduHeader
  /-- `_directive_type` (raw octet value) -/
  code : Nat
deriving DecidableEq, Repr

/-- `FileDirectivePduBase(pdu_conf, directive_code, directive_param_field_len)`:
    a file-directive header (`PduType.FILE_DIRECTIVE = 0`, segment metadata not present) whose data
    field is the directive code octet plus the parameters. -/
def FileDirective.new (conf : PduConfig) (code paramLen : Nat) : Py FileDirective := do
  let h ← PduHeader.new 0 0 (paramLen + 1) conf
  pure ⟨h, code⟩

/-- `header_len`: PDU header plus the directive code octet -/
def FileDirective.headerLen (d : FileDirective) : Nat := d.header.headerLen + 1

/-- `packet_len` -/
def FileDirective.packetLen (d : FileDirective) : Nat := d.header.packetLen

/-- `directive_param_field_len` (`pdu_data_field_len - 1`, a Python `int`) -/
def FileDirective.paramLen (d : FileDirective) : Int := (d.header.dataFieldLen : Int) - 1

/-- the `directive_param_field_len` setter -/
def FileDirective.setParamLen (d : FileDirective) (n : Nat) : Py FileDirective := do
  let h ← d.header.setDataFieldLen (n + 1)
  pure { d with header := h }

/-- the `file_flag` setter (writes through to the header's configuration; no length update) -/
def FileDirective.setFileFlag (d : FileDirective) (f : Nat) : FileDirective :=
  { d with header := { d.header with conf := { d.header.conf with fileFlag := f } } }

/-- `pack()`: header octets, then `data.append(directive_type)` -/
def FileDirective.pack (d : FileDirective) : Py Bytes := do
  let h ← d.header.pack
  let c ← byteOfN d.code
  pure (h ++ [c])

/-- `FileDirectivePduBase.unpack(raw_packet)` -/
def FileDirective.unpack (raw : Bytes) : Py FileDirective := do
  let h ← PduHeader.unpack raw
  let hl := h.headerLen + 1
  if hl > raw.length then throw .value
  let c ← idx raw (hl - 1)
  pure ⟨h, c⟩

/-- `verify_length_and_checksum(data)` (forwards to the header) -/
def FileDirective.verify (d : FileDirective) (data : Bytes) : Py Nat :=
  d.header.verifyLengthAndChecksum data

/-- `end_of_params = packet_len; if crc_flag == WITH_CRC: end_of_params -= 2`
    (`packet_len ≥ 4`, so the subtraction never goes negative) -/
def FileDirective.paramsEnd (d : FileDirective) : Nat :=
  if d.header.conf.crcFlag = 1 then d.packetLen - 2 else d.packetLen

/-- `AbstractFileDirectiveBase.__eq__` -/
def FileDirective.beq (a b : FileDirective) : Bool := headerBeq a.header b.header && a.code == b.code

/-- `if crc_flag == WITH_CRC: packet.extend(struct.pack("!H", CRC16_CCITT_FUNC(packet)))` -/
def withCrc (crcFlag : Nat) (packet : Bytes) : Bytes :=
  if crcFlag = 1 then packet ++ Crc.crcTrailer packet else packet

/-- width of a file-size-sensitive (FSS) field: 8 octets iff `large_file_flag_set` -/
def fssWidth (fileFlag : Nat) : Nat := if fileFlag = 1 then 8 else 4

/-- `parse_fss_field(raw_packet, current_idx)`: returns `(current_idx + width, value)` -/
def FileDirective.parseFss (d : FileDirective) (raw : Bytes) (i : Nat) : Py (Nat × Nat) :=
  if d.header.conf.fileFlag = 1 then do
    if i + 8 > raw.length then throw .value
    let v ← unpackBE 8 (slice raw i (i + 8))
    pure (i + 8, v)
  else do
    if i + 4 > raw.length then throw .value
    let v ← unpackBE 4 (slice raw i (i + 4))
    pure (i + 4, v)

/-- `_verify_file_len(file_size)`: note the bounds are `> 2^64` / `> 2^32` (not `2^w - 1`), so
    `2^w` itself passes this check and is only stopped by `struct.pack` afterwards. -/
def FileDirective.verifyFileLen (d : FileDirective) (size : Int) : Py Unit :=
  if d.header.conf.fileFlag = 1 ∧ size > 18446744073709551616 then .error .value
  else if d.header.conf.fileFlag = 0 ∧ size > 4294967296 then .error .value
  else .ok ()

end SpVerif.FileDirective
