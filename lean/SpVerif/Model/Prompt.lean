import SpVerif.Model.FileDirective
/-!
# Model of `spacepackets/cfdp/pdu/prompt.py` (Prompt PDU, CCSDS 727.0-B-5 §5.2.7)

One parameter octet: response required (NAK = 0, Keep Alive = 1) in the most significant bit,
seven spare bits. Always towards the receiver (0).
-/
namespace SpVerif.Prompt
open SpVerif SpVerif.CfdpHeader SpVerif.FileDirective

structure Prompt where
  fd : FileDirective
  /-- `response_required` -/
  respReq : Nat
deriving DecidableEq, Repr

/-- `PromptPdu(pdu_conf, response_required)` -/
def Prompt.new (conf : PduConfig) (respReq : Nat) : Py Prompt := do
  let fd ← FileDirective.new { conf with direction := 0 } DIR_PROMPT 1
  let fd ← if conf.crcFlag = 1 then fd.setParamLen 3 else pure fd
  pure ⟨fd, respReq⟩

def Prompt.packetLen (p : Prompt) : Nat := p.fd.packetLen

/-- `pack()`: `response_required << 7` -/
def Prompt.pack (p : Prompt) : Py Bytes := do
  let d ← p.fd.pack
  let b ← byteOfN (p.respReq * 128)
  pure (withCrc p.fd.header.conf.crcFlag (d ++ [b]))

/-- `PromptPdu.unpack(data)`; `ResponseRequired((octet & 0x80) >> 7)` is total (members 0, 1) -/
def Prompt.unpack (data : Bytes) : Py Prompt := do
  let fd ← FileDirective.unpack data
  let _ ← fd.verify data
  let data := data.take fd.paramsEnd
  let i := fd.headerLen
  if i ≥ data.length then throw .value
  let b ← idx data i
  let r ← enumOf [0, 1] (b / 128 % 2)
  pure ⟨fd, r⟩

/-- `__eq__` -/
def Prompt.beq (a b : Prompt) : Bool := a.fd.beq b.fd && a.respReq == b.respReq

end SpVerif.Prompt
