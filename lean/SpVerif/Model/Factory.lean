import SpVerif.Model.FileData
import SpVerif.Model.Ack
import SpVerif.Model.Prompt
import SpVerif.Model.KeepAlive
import SpVerif.Model.Nak
import SpVerif.Model.Eof
import SpVerif.Model.Finished
import SpVerif.Model.Metadata
/-!
# Model of `spacepackets/cfdp/pdu/helper.py` (`PduFactory`, `PduHolder`)

* `AnyPdu` — the sum of the PDU classes the factory can return (`GenericPduPacket` restricted to the
  eight concrete kinds). A kind is added by ONE constructor here plus one line in each of the three
  tables `AnyPdu.view`, `AnyPdu.beq`, `decoderOf` (nothing else in this file mentions a kind).
* `pduType`, `isFileDirective`, `pduDirectiveType` — the raw-buffer inspectors, with every failure
  mode (`BytesTooShortError` for 0 octets / fewer than 4 / no directive octet, `ValueError` from
  `DirectiveType(octet)` for an octet that is no member; `DirectiveType.NONE = 0x0A` *is* a member).
* `fromRaw` — `PduFactory.from_raw`: File Data decoder when the type bit is set, otherwise the
  decoder of the directive the directive octet names; `None` for `DirectiveType.NONE`.
* `Holder` — `PduHolder`: `pack`, `packet_len`, `pdu_type`, `is_file_directive`,
  `pdu_directive_type` (the three raise `AssertionError` on an empty holder), the `pdu` / `base`
  setters and the eight `to_*_pdu` accessors (`castTo k`; `typing.cast` converts nothing, so the
  result is the held object itself and the model returns it as an `AnyPdu`).

What the accessors look at is what the code looks at: `isinstance`, the object's `pdu_type`
property (for a File Data PDU: the type bit of its header, whatever it is — `FileDataPdu.unpack`
does not check it; for every directive class the constant `FILE_DIRECTIVE`) and its
`directive_type` property (a constant for ACK, NAK, Keep Alive, Finished, Metadata; the *stored*
directive code for Prompt and EOF, whose decoders do not check it either).

-/
namespace SpVerif.Factory
open SpVerif SpVerif.CfdpHeader SpVerif.FileDirective

/-- the eight PDU kinds of CCSDS 727.0-B-5 -/
inductive Kind
  | fileData | eof | finished | ack | metadata | nak | prompt | keepAlive
deriving DecidableEq, Repr

def Kind.all : List Kind :=
  [.fileData, .eof, .finished, .ack, .metadata, .nak, .prompt, .keepAlive]

/-- the `DirectiveType` member of a directive kind (`none` for File Data) -/
def Kind.code : Kind → Option Nat
  | .fileData => none
  | .eof => some DIR_EOF
  | .finished => some DIR_FINISHED
  | .ack => some DIR_ACK
  | .metadata => some DIR_METADATA
  | .nak => some DIR_NAK
  | .prompt => some DIR_PROMPT
  | .keepAlive => some DIR_KEEP_ALIVE

/-- index used on the wire protocol of the driver (position in `Kind.all`) -/
def Kind.toNat : Kind → Nat
  | .fileData => 0 | .eof => 1 | .finished => 2 | .ack => 3 | .metadata => 4 | .nak => 5
  | .prompt => 6 | .keepAlive => 7

/-- members of `DirectiveType` (including `NONE = 0x0A`) -/
def directiveTypes : List Nat :=
  [DIR_EOF, DIR_FINISHED, DIR_ACK, DIR_METADATA, DIR_NAK, DIR_PROMPT, DIR_KEEP_ALIVE, DIR_NONE]

/-- `PduType.FILE_DIRECTIVE`, `PduType.FILE_DATA` -/
def FILE_DIRECTIVE : Nat := 0
def FILE_DATA : Nat := 1

/-! ## the PDU objects the factory produces -/

inductive AnyPdu
  | fileData (x : FileData.Pdu)
  | ack (x : Ack.Ack)
  | nak (x : Nak.Nak)
  | prompt (x : Prompt.Prompt)
  | keepAlive (x : KeepAlive.KeepAlive)
  | eof (x : Eof.Eof)
  | finished (x : Finished.Finished)
  | metadata (x : Metadata.Metadata)
deriving DecidableEq, Repr

/-- what `PduHolder` / the factory's callers observe of a PDU object through `AbstractPduBase` /
    `AbstractFileDirectiveBase` -/
structure View where
  /-- the concrete class -/
  kind : Kind
  /-- the `pdu_type` property -/
  pduType : Nat
  /-- the `directive_type` property (`AttributeError` on a class that has none) -/
  directiveType : Py Nat
  /-- `packet_len` -/
  packetLen : Nat
  /-- `pack()` -/
  pack : Py Bytes

def AnyPdu.view : AnyPdu → View
  | .fileData x => ⟨.fileData, x.header.pduType, .error .attr, x.packetLen, x.pack⟩
  | .ack x => ⟨.ack, FILE_DIRECTIVE, .ok DIR_ACK, x.packetLen, x.pack⟩
  | .nak x => ⟨.nak, FILE_DIRECTIVE, .ok DIR_NAK, x.packetLen, x.pack⟩
  | .prompt x => ⟨.prompt, FILE_DIRECTIVE, .ok x.fd.code, x.packetLen, x.pack⟩
  | .keepAlive x => ⟨.keepAlive, FILE_DIRECTIVE, .ok DIR_KEEP_ALIVE, x.packetLen, x.pack⟩
  | .eof x => ⟨.eof, FILE_DIRECTIVE, .ok x.fd.code, x.packetLen, x.pack⟩
  | .finished x => ⟨.finished, FILE_DIRECTIVE, .ok DIR_FINISHED, x.packetLen, x.pack⟩
  | .metadata x => ⟨.metadata, FILE_DIRECTIVE, .ok DIR_METADATA, x.packetLen, x.pack⟩

/-- `==` between two objects of the same class (objects of different classes are not compared by
    the property; the model says `false`). EOF / Finished / Metadata compare TLVs, which can raise
    `ValueError` (an entity ID of a width `UnsignedByteField` does not support). -/
def AnyPdu.beq : AnyPdu → AnyPdu → Py Bool
  | .fileData a, .fileData b => pure (a.beq b)
  | .ack a, .ack b => pure (a.beq b)
  | .nak a, .nak b => pure (a.beq b)
  | .prompt a, .prompt b => pure (a.beq b)
  | .keepAlive a, .keepAlive b => pure (a.beq b)
  | .eof a, .eof b => a.beq b
  | .finished a, .finished b => a.beq b
  | .metadata a, .metadata b => a.beq b
  | _, _ => pure false

/-- the class whose `unpack` the factory calls for a kind -/
def decoderOf : Kind → Bytes → Py AnyPdu
  | .fileData, d => .fileData <$> FileData.Pdu.unpack d
  | .ack, d => .ack <$> Ack.Ack.unpack d
  | .nak, d => .nak <$> Nak.Nak.unpack d
  | .prompt, d => .prompt <$> Prompt.Prompt.unpack d
  | .keepAlive, d => .keepAlive <$> KeepAlive.KeepAlive.unpack d
  | .eof, d => .eof <$> Eof.Eof.unpack d
  | .finished, d => .finished <$> Finished.Finished.unpack d
  | .metadata, d => .metadata <$> Metadata.Metadata.unpack d

def AnyPdu.kind (p : AnyPdu) : Kind := p.view.kind
def AnyPdu.pduType (p : AnyPdu) : Nat := p.view.pduType
def AnyPdu.directiveType (p : AnyPdu) : Py Nat := p.view.directiveType
def AnyPdu.packetLen (p : AnyPdu) : Nat := p.view.packetLen
def AnyPdu.pack (p : AnyPdu) : Py Bytes := p.view.pack

/-- `isinstance(pdu, AbstractFileDirectiveBase)` -/
def AnyPdu.isDirectiveClass (p : AnyPdu) : Bool := p.kind != .fileData

/-! ## raw-buffer inspectors -/

/-- `PduFactory.pdu_type(data)`: `PduType((data[0] >> 4) & 0x01)` (both values are members) -/
def pduType (d : Bytes) : Py Nat := do
  if d.length < 1 then throw .value
  let d0 ← idx d 0
  pure (d0 / 16 % 2)

/-- `PduFactory.is_file_directive(data)` -/
def isFileDirective (d : Bytes) : Py Bool := do
  let t ← pduType d
  pure (t == FILE_DIRECTIVE)

/-- `PduFactory.pdu_directive_type(data)`: `None` for a File Data PDU; otherwise the octet right
    behind the header (position from `header_len_from_raw`, which does not validate the width
    codes) converted with `DirectiveType(...)` -/
def pduDirectiveType (d : Bytes) : Py (Option Nat) := do
  if !(← isFileDirective d) then pure none
  else
    let hl ← headerLenFromRaw d
    if hl ≥ d.length then throw .value
    let c ← idx d hl
    let c ← enumOf directiveTypes c
    pure (some c)

/-! ## `PduFactory.from_raw` -/

/-- run the decoder of kind `k`; the factory hands on what it returns -/
def decodeAs (k : Kind) (d : Bytes) : Py (Option AnyPdu) := some <$> decoderOf k d

/-- the `if directive == … elif …` chain (EOF, Metadata, Finished, ACK, NAK, Keep Alive, Prompt);
    anything else — `None` or `DirectiveType.NONE` — falls through to `return None` -/
def dispatch (dir : Option Nat) (d : Bytes) : Py (Option AnyPdu) :=
  if dir = some DIR_EOF then decodeAs .eof d
  else if dir = some DIR_METADATA then decodeAs .metadata d
  else if dir = some DIR_FINISHED then decodeAs .finished d
  else if dir = some DIR_ACK then decodeAs .ack d
  else if dir = some DIR_NAK then decodeAs .nak d
  else if dir = some DIR_KEEP_ALIVE then decodeAs .keepAlive d
  else if dir = some DIR_PROMPT then decodeAs .prompt d
  else pure none

/-- `PduFactory.from_raw(data)` -/
def fromRaw (d : Bytes) : Py (Option AnyPdu) := do
  if !(← isFileDirective d) then decodeAs .fileData d
  else
    let dir ← pduDirectiveType d
    dispatch dir d

/-! ## `PduHolder` -/

/-- `PduHolder(pdu)`: the held object or `None` -/
abbrev Holder := Option AnyPdu

/-- `PduFactory.from_raw_to_holder(data)` -/
def fromRawToHolder (d : Bytes) : Py Holder := fromRaw d

/-- the `pdu` setter and the deprecated `base` setter (an alias) -/
def Holder.setPdu (_ : Holder) (p : Option AnyPdu) : Holder := p

/-- the deprecated `base` getter (an alias of `pdu`) -/
def Holder.base (h : Holder) : Option AnyPdu := h

/-- `pack()`: empty for an empty holder -/
def Holder.pack : Holder → Py Bytes
  | none => pure []
  | some p => p.pack

/-- `packet_len`: 0 for an empty holder -/
def Holder.packetLen : Holder → Nat
  | none => 0
  | some p => p.packetLen

/-- `pdu_type`: `assert self.pdu is not None` -/
def Holder.pduType : Holder → Py Nat
  | none => .error .assertion
  | some p => pure p.pduType

/-- `is_file_directive` -/
def Holder.isFileDirective (h : Holder) : Py Bool := do
  let t ← h.pduType
  pure (t == FILE_DIRECTIVE)

/-- `pdu_directive_type`: `None` unless the held object's `pdu_type` is FILE_DIRECTIVE -/
def Holder.pduDirectiveType (h : Holder) : Py (Option Nat) := do
  if !(← h.isFileDirective) then pure none
  else
    match h with
    | none => .error .assertion   -- not reachable: `isFileDirective` has already raised
    | some p => some <$> p.directiveType

/-- `_raise_not_target_exception` -/
def notTarget {α : Type} : Py α := .error .type

/-- the eight `to_*_pdu` accessors.
    `to_file_data_pdu`: `isinstance(pdu, AbstractPduBase) and pdu.pdu_type == FILE_DATA`;
    `_cast_to_concrete_file_directive(cls, dir_type)`: `isinstance(pdu, AbstractFileDirectiveBase)
    and pdu.pdu_type == FILE_DIRECTIVE`, then `pdu.directive_type == dir_type`. -/
def Holder.castTo (k : Kind) (h : Holder) : Py AnyPdu :=
  match h with
  | none => notTarget
  | some p =>
    match k.code with
    | none => if p.pduType = FILE_DATA then pure p else notTarget
    | some c =>
      if p.isDirectiveClass ∧ p.pduType = FILE_DIRECTIVE then do
        let t ← p.directiveType
        if t = c then pure p else notTarget
      else notTarget

def Holder.toFileDataPdu := Holder.castTo .fileData
def Holder.toMetadataPdu := Holder.castTo .metadata
def Holder.toAckPdu := Holder.castTo .ack
def Holder.toNakPdu := Holder.castTo .nak
def Holder.toFinishedPdu := Holder.castTo .finished
def Holder.toEofPdu := Holder.castTo .eof
def Holder.toKeepAlivePdu := Holder.castTo .keepAlive
def Holder.toPromptPdu := Holder.castTo .prompt

end SpVerif.Factory
