import SpVerif.Model.FileDirective
/-!
# Model of `spacepackets/cfdp/pdu/keep_alive.py` (Keep Alive PDU, CCSDS 727.0-B-5 §5.2.8)

One file-size-sensitive parameter: progress, 32 bits, or 64 bits with the large-file flag.
Always towards the sender (1). `progress` is a Python `int`: without the large-file flag a value
above 2^32 − 1 is refused with `ValueError`; a negative value, or a value above 2^64 − 1 with the
flag, makes `struct.pack` raise `struct.error`.
-/
namespace SpVerif.KeepAlive
open SpVerif SpVerif.CfdpHeader SpVerif.FileDirective

structure KeepAlive where
  fd : FileDirective
  progress : Int
deriving DecidableEq, Repr

/-- the directive-parameter length for a file flag / CRC flag pair -/
def paramLenFor (fileFlag crcFlag : Nat) : Nat :=
  (if fileFlag = 1 then 8 else 4) + (if crcFlag = 1 then 2 else 0)

/-- `KeepAlivePdu(pdu_conf, progress)` -/
def KeepAlive.new (conf : PduConfig) (progress : Int) : Py KeepAlive := do
  let fd ← FileDirective.new { conf with direction := 1 } DIR_KEEP_ALIVE
    (paramLenFor conf.fileFlag conf.crcFlag)
  pure ⟨fd, progress⟩

def KeepAlive.packetLen (k : KeepAlive) : Nat := k.fd.packetLen

/-- the `file_flag` setter: new flag into the header, directive-parameter length recomputed
    (including the CRC trailer) -/
def KeepAlive.setFileFlag (k : KeepAlive) (f : Nat) : Py KeepAlive := do
  let fd ← (k.fd.setFileFlag f).setParamLen (paramLenFor f k.fd.header.conf.crcFlag)
  pure { k with fd := fd }

/-- `pack()` -/
def KeepAlive.pack (k : KeepAlive) : Py Bytes := do
  let d ← k.fd.pack
  let p ←
    if ¬ k.fd.header.largeFileFlagSet then do
      if k.progress > 4294967295 then throw .value
      packInt 4 k.progress
    else packInt 8 k.progress
  pure (withCrc k.fd.header.conf.crcFlag (d ++ p))

/-- `KeepAlivePdu.unpack(data)`; the guard `(len(data) - current_idx) < width` is over Python
    integers, i.e. `len(data) < current_idx + width` -/
def KeepAlive.unpack (data : Bytes) : Py KeepAlive := do
  let fd ← FileDirective.unpack data
  let _ ← fd.verify data
  let data := data.take fd.paramsEnd
  let i := fd.headerLen
  let w := if ¬ fd.header.largeFileFlagSet then 4 else 8
  if data.length < i + w then throw .value
  let v ← unpackBE w (slice data i (i + w))
  pure ⟨fd, (v : Int)⟩

/-- `__eq__` -/
def KeepAlive.beq (a b : KeepAlive) : Bool := a.fd.beq b.fd && a.progress == b.progress

end SpVerif.KeepAlive
