import SpVerif.Model.CfdpHeader
/-!
# What every CFDP PDU decoder does before it looks at the PDU body

`FileDataPdu.unpack` decodes the fixed header and calls `verify_length_and_checksum`; the seven
file-directive decoders (`EofPdu`, `FinishedPdu`, `AckPdu`, `MetadataPdu`, `NakPdu`, `PromptPdu`,
`KeepAlivePdu`) go through `FileDirectivePduBase.unpack` (header, room for the directive code) and
then call `verify_length_and_checksum`. Every `pack()` ends with
`if crc_flag == WITH_CRC: packet.extend(struct.pack("!H", CRC16_CCITT_FUNC(packet)))`.
-/
namespace SpVerif.CfdpFront
open SpVerif SpVerif.CfdpHeader

/-- `PduHeader.unpack(data)`, then `verify_length_and_checksum(data)` -/
def pduFront (d : Bytes) : Py PduHeader := do
  let h ← PduHeader.unpack d
  let _ ← h.verifyLengthAndChecksum d
  pure h

/-- `FileDirectivePduBase.unpack(data)`, then `verify_length_and_checksum(data)`; returns the header
    and the directive code octet -/
def directiveFront (d : Bytes) : Py (PduHeader × Nat) := do
  let h ← PduHeader.unpack d
  if h.headerLen + 1 > d.length then throw .value
  let code ← idx d h.headerLen
  let _ ← h.verifyLengthAndChecksum d
  pure (h, code)

/-- the tail of every PDU `pack()`: header ‖ body, and with the CRC flag the CRC-16 of all of it -/
def framePdu (h : PduHeader) (body : Bytes) : Py Bytes := do
  let hd ← h.pack
  let p := hd ++ body
  pure (if h.conf.crcFlag = 1 then p ++ Crc.crcTrailer p else p)

end SpVerif.CfdpFront
