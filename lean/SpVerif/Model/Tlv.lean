import SpVerif.BE
import SpVerif.Model.Lv
/-!
# Model of `spacepackets/cfdp/tlv/{defs,base,tlv,holder}.py` and the generic part of `msg_to_user.py`

CFDP Type-Length-Value items (CCSDS 727.0-B-5 §5.4): generic `CfdpTlv` and the concrete classes
`EntityIdTlv`, `FlowLabelTlv`, `MessageToUserTlv`, `FaultHandlerOverrideTlv`,
`FileStoreRequestTlv`, `FileStoreResponseTlv`, the status-code helpers and `TlvHolder.to_*`.

Conventions
* A TLV type / action code is a natural number (the `IntEnum` value; the constructors of the
  library do not validate them). A filestore response status code is an `Int`
  (`FilestoreResponseStatusCode.INVALID = -1`).
* File names are modelled by their UTF-8 octets (`str.encode()` on the way in; `bytes.decode()`
  on the way out is accepted exactly when `utf8Valid` holds — tied to CPython's strict decoder in
  the correspondence check).
* Where the library combines caller-supplied integers with `<<`/`|` the model does the same
  (`<<<`, `|||`); decoders, whose input is an octet, use `/ 16`, `% 16`.
-/
namespace SpVerif.Tlv
open SpVerif SpVerif.Lv

/-! ## enumerations (`defs.py`), table-synchronised with the live module on every run -/

/-- `TlvType` member values -/
def tlvTypes : List Nat := [0, 1, 2, 4, 5, 6]
def tFsRequest : Nat := 0
def tFsResponse : Nat := 1
def tMsgToUser : Nat := 2
def tFaultHandler : Nat := 4
def tFlowLabel : Nat := 5
def tEntityId : Nat := 6

/-- `FilestoreActionCode` member values -/
def actionCodes : List Nat := [0, 1, 2, 3, 4, 5, 6, 7, 8]
/-- the literal list of `_common_packer` / `common_packet_len` / `_common_unpacker`:
    REPLACE (4), RENAME (2), APPEND (3) take a second file name -/
def snpActions : List Nat := [4, 2, 3]

/-- non-negative member values of `FilestoreResponseStatusCode` (action code * 16 + status nibble) -/
def statusCodesNat : List Nat :=
  [0, 1, 2, 15, 16, 17, 31, 32, 33, 34, 35, 47, 48, 49, 50, 51, 63, 64, 65, 66, 67, 79, 80, 81, 95,
   96, 97, 98, 111, 112, 114, 127, 128, 130, 143]
/-- `FilestoreResponseStatusCode.INVALID` -/
def statusInvalid : Int := -1
/-- all member values of `FilestoreResponseStatusCode` -/
def statusCodes : List Int := statusInvalid :: statusCodesNat.map Int.ofNat

/-! ## UTF-8 (RFC 3629, what CPython's strict `bytes.decode()` accepts) -/

/-- decoder state: which octet range may follow (the standard UTF-8 automaton) -/
inductive Utf8State
  | start   -- at a character boundary
  | cont1   -- one continuation octet 80..BF missing
  | cont2   -- two continuation octets missing
  | cont3   -- three continuation octets missing
  | e0      -- after E0: A0..BF (no overlong 3-octet forms), then one more
  | ed      -- after ED: 80..9F (no surrogates U+D800..U+DFFF), then one more
  | f0      -- after F0: 90..BF (no overlong 4-octet forms), then two more
  | f4      -- after F4: 80..8F (nothing above U+10FFFF), then two more
deriving DecidableEq, Repr

def utf8Step (s : Utf8State) (a : Nat) : Option Utf8State :=
  match s with
  | .start =>
    if a < 0x80 then some .start
    else if a < 0xC2 then none
    else if a < 0xE0 then some .cont1
    else if a = 0xE0 then some .e0
    else if a = 0xED then some .ed
    else if a < 0xF0 then some .cont2
    else if a = 0xF0 then some .f0
    else if a < 0xF4 then some .cont3
    else if a = 0xF4 then some .f4
    else none
  | .cont1 => if 0x80 ≤ a ∧ a ≤ 0xBF then some .start else none
  | .cont2 => if 0x80 ≤ a ∧ a ≤ 0xBF then some .cont1 else none
  | .cont3 => if 0x80 ≤ a ∧ a ≤ 0xBF then some .cont2 else none
  | .e0 => if 0xA0 ≤ a ∧ a ≤ 0xBF then some .cont1 else none
  | .ed => if 0x80 ≤ a ∧ a ≤ 0x9F then some .cont1 else none
  | .f0 => if 0x90 ≤ a ∧ a ≤ 0xBF then some .cont2 else none
  | .f4 => if 0x80 ≤ a ∧ a ≤ 0x8F then some .cont2 else none

def utf8ValidFrom : Utf8State → Bytes → Bool
  | s, [] => s == .start
  | s, a :: r =>
    match utf8Step s a.toNat with
    | some s' => utf8ValidFrom s' r
    | none => false

/-- well-formed UTF-8 (RFC 3629): shortest form only, no surrogates, at most U+10FFFF,
    no truncated character at the end -/
def utf8Valid (b : Bytes) : Bool := utf8ValidFrom .start b

/-- `bytes.decode()` followed (by the observer) by `str.encode()`: identity on well-formed UTF-8,
    `UnicodeDecodeError` (a `ValueError`) otherwise -/
def decodeUtf8 (b : Bytes) : Py Bytes :=
  if utf8Valid b then .ok b else .error .value

/-! ## status-code helpers (`tlv.py:21-51`) -/

/-- `map_enum_status_code_to_int`: `status_code & 0x0F` -/
def statusToInt (s : Int) : Nat := (s % 16).toNat

/-- `map_enum_status_code_to_action_status_code`:
    `FilestoreActionCode((s & 0xF0) >> 4), s & 0x0F` -/
def statusToActionStatus (s : Int) : Py (Nat × Nat) := do
  let a ← enumOf actionCodes (s / 16 % 16).toNat
  pure (a, (s % 16).toNat)

/-- `map_int_status_code_to_enum`: `FilestoreResponseStatusCode(action << 4 | status)`, or
    `INVALID` when that is no member -/
def statusFromInt (action status : Nat) : Int :=
  if ((action <<< 4) ||| status) ∈ statusCodesNat then (((action <<< 4) ||| status : Nat) : Int)
  else statusInvalid

/-! ## generic TLV (`CfdpTlv`) -/

structure CfdpTlv where
  ttype : Nat
  value : Bytes
deriving DecidableEq, Repr

/-- `CfdpTlv(tlv_type, value)`: `ValueError` iff the value has more than 255 octets -/
def CfdpTlv.new (t : Nat) (v : Bytes) : Py CfdpTlv :=
  if v.length > 255 then .error .value else .ok ⟨t, v⟩

/-- `CfdpTlv.pack()`: type octet, length octet, value (`bytearray.append` refuses ≥ 256) -/
def CfdpTlv.pack (t : CfdpTlv) : Py Bytes := do
  let a ← byteOfN t.ttype
  let n ← byteOfN t.value.length
  pure (a :: n :: t.value)

/-- `CfdpTlv.packet_len` -/
def CfdpTlv.packetLen (t : CfdpTlv) : Nat := 2 + t.value.length

/-- `CfdpTlv.unpack(data)`: decodes the TLV at the start of `data` -/
def CfdpTlv.unpack (d : Bytes) : Py CfdpTlv := do
  if d.length < 2 then throw .value
  let t0 ← idx d 0
  let ty ← enumOf tlvTypes t0
  let n ← idx d 1
  if 2 + n > d.length then throw .value
  CfdpTlv.new ty (slice d 2 (2 + n))

/-! ## the three plain wrappers: entity ID, flow label, message to user -/

structure EntityIdTlv where
  tlv : CfdpTlv
deriving DecidableEq, Repr

def EntityIdTlv.new (entityId : Bytes) : Py EntityIdTlv := do
  let t ← CfdpTlv.new tEntityId entityId
  pure ⟨t⟩
def EntityIdTlv.pack (e : EntityIdTlv) : Py Bytes := e.tlv.pack
def EntityIdTlv.packetLen (e : EntityIdTlv) : Nat := e.tlv.packetLen
def EntityIdTlv.value (e : EntityIdTlv) : Bytes := e.tlv.value
def EntityIdTlv.tlvType (_ : EntityIdTlv) : Nat := tEntityId
/-- `EntityIdTlv.from_tlv` -/
def EntityIdTlv.fromTlv (t : CfdpTlv) : Py EntityIdTlv :=
  if t.ttype ≠ tEntityId then .error .tlvType else .ok ⟨t⟩
/-- `EntityIdTlv.unpack` -/
def EntityIdTlv.unpack (d : Bytes) : Py EntityIdTlv := do
  let t ← CfdpTlv.unpack d
  EntityIdTlv.fromTlv t
/-- `UnsignedByteField.from_bytes(raw).value` as used by `EntityIdTlv.__eq__`:
    `ValueError` unless the width is 1, 2, 4 or 8 -/
def ubfValue (raw : Bytes) : Py Nat :=
  if raw.length ∈ [1, 2, 4, 8] then .ok (beNat raw) else .error .value
/-- `EntityIdTlv.__eq__` against another entity-ID TLV: numerical comparison -/
def EntityIdTlv.beq (a b : EntityIdTlv) : Py Bool := do
  let x ← ubfValue a.value
  let y ← ubfValue b.value
  pure (x == y)

structure FlowLabelTlv where
  tlv : CfdpTlv
deriving DecidableEq, Repr

def FlowLabelTlv.new (label : Bytes) : Py FlowLabelTlv := do
  let t ← CfdpTlv.new tFlowLabel label
  pure ⟨t⟩
def FlowLabelTlv.pack (e : FlowLabelTlv) : Py Bytes := e.tlv.pack
def FlowLabelTlv.packetLen (e : FlowLabelTlv) : Nat := e.tlv.packetLen
def FlowLabelTlv.value (e : FlowLabelTlv) : Bytes := e.tlv.value
def FlowLabelTlv.tlvType (_ : FlowLabelTlv) : Nat := tFlowLabel
def FlowLabelTlv.fromTlv (t : CfdpTlv) : Py FlowLabelTlv :=
  if t.ttype ≠ tFlowLabel then .error .tlvType else .ok ⟨t⟩
def FlowLabelTlv.unpack (d : Bytes) : Py FlowLabelTlv := do
  let t ← CfdpTlv.unpack d
  if t.ttype ≠ tFlowLabel then throw .tlvType
  pure ⟨t⟩

structure MessageToUserTlv where
  tlv : CfdpTlv
deriving DecidableEq, Repr

def MessageToUserTlv.new (msg : Bytes) : Py MessageToUserTlv := do
  let t ← CfdpTlv.new tMsgToUser msg
  pure ⟨t⟩
def MessageToUserTlv.pack (e : MessageToUserTlv) : Py Bytes := e.tlv.pack
def MessageToUserTlv.packetLen (e : MessageToUserTlv) : Nat := e.tlv.packetLen
def MessageToUserTlv.value (e : MessageToUserTlv) : Bytes := e.tlv.value
def MessageToUserTlv.tlvType (_ : MessageToUserTlv) : Nat := tMsgToUser
def MessageToUserTlv.fromTlv (t : CfdpTlv) : Py MessageToUserTlv :=
  if t.ttype ≠ tMsgToUser then .error .tlvType else .ok ⟨t⟩
def MessageToUserTlv.unpack (d : Bytes) : Py MessageToUserTlv := do
  let t ← CfdpTlv.unpack d
  MessageToUserTlv.fromTlv t
/-- `MessageToUserTlv.is_reserved_cfdp_message`: at least five octets starting with "cfdp" -/
def MessageToUserTlv.isReservedCfdpMessage (m : MessageToUserTlv) : Bool :=
  decide (m.tlv.value.length ≥ 5) && (slice m.tlv.value 0 4 == [0x63, 0x66, 0x64, 0x70])

/-! ## fault-handler override -/

structure FaultHandlerOverrideTlv where
  conditionCode : Nat
  handlerCode : Nat
  tlv : CfdpTlv
deriving DecidableEq, Repr

/-- `FaultHandlerOverrideTlv(condition_code, handler_code)`:
    `bytes([condition_code << 4 | handler_code])` is a `ValueError` outside 0..255
    (`ConditionCode.NO_CONDITION_FIELD = -1` gives a negative octet) -/
def FaultHandlerOverrideTlv.new (cc : Int) (hc : Nat) : Py FaultHandlerOverrideTlv := do
  if cc < 0 then throw .value
  let b ← byteOfN ((cc.toNat <<< 4) ||| hc)
  let t ← CfdpTlv.new tFaultHandler [b]
  pure ⟨cc.toNat, hc, t⟩
def FaultHandlerOverrideTlv.pack (e : FaultHandlerOverrideTlv) : Py Bytes := e.tlv.pack
def FaultHandlerOverrideTlv.packetLen (e : FaultHandlerOverrideTlv) : Nat := e.tlv.packetLen
def FaultHandlerOverrideTlv.value (e : FaultHandlerOverrideTlv) : Bytes := e.tlv.value
def FaultHandlerOverrideTlv.tlvType (_ : FaultHandlerOverrideTlv) : Nat := tFaultHandler
/-- `FaultHandlerOverrideTlv.from_tlv` -/
def FaultHandlerOverrideTlv.fromTlv (t : CfdpTlv) : Py FaultHandlerOverrideTlv := do
  if t.ttype ≠ tFaultHandler then throw .tlvType
  if t.value.length < 1 then throw .value
  let v0 ← idx t.value 0
  pure ⟨v0 / 16 % 16, v0 % 16, t⟩
def FaultHandlerOverrideTlv.unpack (d : Bytes) : Py FaultHandlerOverrideTlv := do
  let t ← CfdpTlv.unpack d
  FaultHandlerOverrideTlv.fromTlv t

/-! ## filestore request / response (`FileStoreRequestBase`) -/

/-- `_common_packer(status_code)`: first octet, first-name LV, second-name LV for the three
    two-name actions -/
def commonPacker (action : Nat) (first second : Bytes) (status : Nat) : Py Bytes := do
  let b0 ← byteOfN ((action <<< 4) ||| status)
  let l1 ← CfdpLv.new first
  let p1 ← l1.pack
  if action ∈ snpActions then
    let l2 ← CfdpLv.new second
    let p2 ← l2.pack
    pure (b0 :: p1 ++ p2)
  else
    pure (b0 :: p1)

/-- `common_packet_len()` (octets of the encoded names, also when they cannot be packed) -/
def commonPacketLen (action : Nat) (first second : Bytes) : Nat :=
  if action ∈ snpActions then 3 + first.length + 1 + (second.length + 1) else 3 + first.length + 1

/-- result of `_common_unpacker`: action code, first name, status nibble, index after the names,
    second name (if the action takes one) -/
structure Common where
  action : Nat
  first : Bytes
  status : Nat
  idx : Nat
  second : Option Bytes
deriving DecidableEq, Repr

/-- `_common_unpacker(raw_bytes)` on the value field of the TLV -/
def commonUnpacker (raw : Bytes) : Py Common := do
  if raw.length < 1 then throw .value
  let b0 ← idx raw 0
  let action ← enumOf actionCodes (b0 / 16 % 16)
  let status := b0 % 16
  let lv1 ← CfdpLv.unpack (raw.drop 1)
  let i1 := 1 + lv1.packetLen
  let first ← decodeUtf8 lv1.value
  if action ∈ snpActions then
    let lv2 ← CfdpLv.unpack (raw.drop i1)
    let second ← decodeUtf8 lv2.value
    pure ⟨action, first, status, i1 + lv2.packetLen, some second⟩
  else
    pure ⟨action, first, status, i1, none⟩

structure FileStoreRequestTlv where
  action : Nat
  first : Bytes
  second : Bytes
deriving DecidableEq, Repr

/-- `_build_tlv()` of the request: status nibble 0 -/
def FileStoreRequestTlv.buildTlv (r : FileStoreRequestTlv) : Py CfdpTlv := do
  let v ← commonPacker r.action r.first r.second 0
  CfdpTlv.new tFsRequest v
def FileStoreRequestTlv.pack (r : FileStoreRequestTlv) : Py Bytes := do
  let t ← r.buildTlv
  t.pack
def FileStoreRequestTlv.value (r : FileStoreRequestTlv) : Py Bytes := do
  let t ← r.buildTlv
  pure t.value
def FileStoreRequestTlv.packetLen (r : FileStoreRequestTlv) : Nat :=
  commonPacketLen r.action r.first r.second
def FileStoreRequestTlv.tlvType (_ : FileStoreRequestTlv) : Nat := tFsRequest
/-- `FileStoreRequestTlv.from_tlv`: starts from the empty request (action 0, names ""),
    `_set_fields` refuses a value field that does not end with the names (`idx != len(raw_data)`)
    and overwrites the second name only when one was decoded -/
def FileStoreRequestTlv.fromTlv (t : CfdpTlv) : Py FileStoreRequestTlv := do
  if t.ttype ≠ tFsRequest then throw .tlvType
  let c ← commonUnpacker t.value
  if c.idx ≠ t.value.length then throw .value
  match c.second with
  | some s => pure ⟨c.action, c.first, s⟩
  | none => pure ⟨c.action, c.first, []⟩
def FileStoreRequestTlv.unpack (d : Bytes) : Py FileStoreRequestTlv := do
  let t ← CfdpTlv.unpack d
  FileStoreRequestTlv.fromTlv t

structure FileStoreResponseTlv where
  action : Nat
  status : Int
  first : Bytes
  second : Bytes
  msg : CfdpLv
deriving DecidableEq, Repr

/-- `_build_tlv()` of the response: status nibble `status_code & 0x0F`, filestore message LV last -/
def FileStoreResponseTlv.buildTlv (r : FileStoreResponseTlv) : Py CfdpTlv := do
  let v ← commonPacker r.action r.first r.second (statusToInt r.status)
  let m ← r.msg.pack
  CfdpTlv.new tFsResponse (v ++ m)
def FileStoreResponseTlv.pack (r : FileStoreResponseTlv) : Py Bytes := do
  let t ← r.buildTlv
  t.pack
def FileStoreResponseTlv.value (r : FileStoreResponseTlv) : Py Bytes := do
  let t ← r.buildTlv
  pure t.value
def FileStoreResponseTlv.packetLen (r : FileStoreResponseTlv) : Nat :=
  commonPacketLen r.action r.first r.second + r.msg.packetLen
def FileStoreResponseTlv.tlvType (_ : FileStoreResponseTlv) : Nat := tFsResponse
/-- `FileStoreResponseTlv.from_tlv` / `_set_fields`: the value field must end with the filestore
    message LV (`idx + filestore_msg.packet_len != len(data)` is refused) -/
def FileStoreResponseTlv.fromTlv (t : CfdpTlv) : Py FileStoreResponseTlv := do
  if t.ttype ≠ tFsResponse then throw .tlvType
  let c ← commonUnpacker t.value
  let st ← enumOf statusCodesNat (c.action * 16 + c.status)
  let m ← CfdpLv.unpack (t.value.drop c.idx)
  if c.idx + m.packetLen ≠ t.value.length then throw .value
  match c.second with
  | some s => pure ⟨c.action, (st : Int), c.first, s, m⟩
  | none => pure ⟨c.action, (st : Int), c.first, [], m⟩
def FileStoreResponseTlv.unpack (d : Bytes) : Py FileStoreResponseTlv := do
  let t ← CfdpTlv.unpack d
  FileStoreResponseTlv.fromTlv t

/-! ## any TLV object (`AbstractTlvBase`), equality, `TlvHolder` -/

inductive AnyTlv
  | generic (t : CfdpTlv)
  | entityId (t : EntityIdTlv)
  | flowLabel (t : FlowLabelTlv)
  | msgToUser (t : MessageToUserTlv)
  | faultHandler (t : FaultHandlerOverrideTlv)
  | fsRequest (t : FileStoreRequestTlv)
  | fsResponse (t : FileStoreResponseTlv)
deriving DecidableEq, Repr

/-- `.tlv_type` (the class constant for the concrete classes) -/
def AnyTlv.tlvType : AnyTlv → Nat
  | .generic t => t.ttype
  | .entityId _ => tEntityId
  | .flowLabel _ => tFlowLabel
  | .msgToUser _ => tMsgToUser
  | .faultHandler _ => tFaultHandler
  | .fsRequest _ => tFsRequest
  | .fsResponse _ => tFsResponse

/-- `.value` (the filestore classes build their TLV on demand, which can fail) -/
def AnyTlv.value : AnyTlv → Py Bytes
  | .generic t => pure t.value
  | .entityId t => pure t.value
  | .flowLabel t => pure t.value
  | .msgToUser t => pure t.value
  | .faultHandler t => pure t.value
  | .fsRequest t => t.value
  | .fsResponse t => t.value

def AnyTlv.pack : AnyTlv → Py Bytes
  | .generic t => t.pack
  | .entityId t => t.pack
  | .flowLabel t => t.pack
  | .msgToUser t => t.pack
  | .faultHandler t => t.pack
  | .fsRequest t => t.pack
  | .fsResponse t => t.pack

def AnyTlv.packetLen : AnyTlv → Nat
  | .generic t => t.packetLen
  | .entityId t => t.packetLen
  | .flowLabel t => t.packetLen
  | .msgToUser t => t.packetLen
  | .faultHandler t => t.packetLen
  | .fsRequest t => t.packetLen
  | .fsResponse t => t.packetLen

/-- `a == b`: `EntityIdTlv.__eq__` (numerical, `False` against any other class) when `a` is an
    entity-ID object, otherwise `AbstractTlvBase.__eq__`: same type and same value octets
    (`and` short-circuits) -/
def AnyTlv.beq (a b : AnyTlv) : Py Bool :=
  match a, b with
  | .entityId x, .entityId y => x.beq y
  | .entityId _, _ => pure false
  | _, _ => do
    if a.tlvType ≠ b.tlvType then pure false
    else
      let x ← a.value
      let y ← b.value
      pure (x == y)

/-- `AbstractTlvBase.check_type(tlv_type)` -/
def AnyTlv.checkType (a : AnyTlv) (t : Nat) : Py Unit :=
  if a.tlvType ≠ t then .error .tlvType else .ok ()

/-- `TlvHolder.to_entity_id()` etc.: a generic TLV goes through `from_tlv`; a concrete object is
    returned as it is if its type is the requested one and refused with `TypeError` otherwise -/
def holderToEntityId : AnyTlv → Py EntityIdTlv
  | .generic t => EntityIdTlv.fromTlv t
  | .entityId t => .ok t
  | _ => .error .type
def holderToFlowLabel : AnyTlv → Py FlowLabelTlv
  | .generic t => FlowLabelTlv.fromTlv t
  | .flowLabel t => .ok t
  | _ => .error .type
def holderToMsgToUser : AnyTlv → Py MessageToUserTlv
  | .generic t => MessageToUserTlv.fromTlv t
  | .msgToUser t => .ok t
  | _ => .error .type
def holderToFaultHandler : AnyTlv → Py FaultHandlerOverrideTlv
  | .generic t => FaultHandlerOverrideTlv.fromTlv t
  | .faultHandler t => .ok t
  | _ => .error .type
def holderToFsRequest : AnyTlv → Py FileStoreRequestTlv
  | .generic t => FileStoreRequestTlv.fromTlv t
  | .fsRequest t => .ok t
  | _ => .error .type
def holderToFsResponse : AnyTlv → Py FileStoreResponseTlv
  | .generic t => FileStoreResponseTlv.fromTlv t
  | .fsResponse t => .ok t
  | _ => .error .type

end SpVerif.Tlv
