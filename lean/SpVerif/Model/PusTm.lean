import SpVerif.Model.SpacePacket
import SpVerif.Crc
/-!
# Model of `spacepackets/ecss/tm.py` (PUS-C telemetry) and the service-17 wrapper
-/
namespace SpVerif.PusTm
open SpVerif SpVerif.SpacePacket

/-- `PusTmSecondaryHeader` (PUS version is PUS-C = 2) -/
structure TmSec where
  timeRef : Nat
  service : Nat
  subservice : Nat
  msgCounter : Nat
  destId : Nat
  timestamp : Bytes
deriving DecidableEq, Repr

/-- `PusTmSecondaryHeader(...)`: range checks on service, subservice, message counter (ValueError) -/
def TmSec.new (service subservice : Int) (timestamp : Bytes) (msgCounter : Int) (destId timeRef : Nat) :
    Py TmSec :=
  if service > 255 ∨ service < 0 then .error .value
  else if subservice > 255 ∨ subservice < 0 then .error .value
  else if msgCounter > 65535 ∨ msgCounter < 0 then .error .value
  else .ok ⟨timeRef, service.toNat, subservice.toNat, msgCounter.toNat, destId, timestamp⟩

/-- `PusTmSecondaryHeader.pack()`; `2 << 4 | ref` is `32 + ref` for `ref < 16` -/
def TmSec.pack (s : TmSec) : Py Bytes := do
  let b0 ← byteOfN (32 + s.timeRef)
  let b1 ← byteOfN s.service
  let b2 ← byteOfN s.subservice
  let cnt ← packBE 2 s.msgCounter
  let dst ← packBE 2 s.destId
  pure ([b0, b1, b2] ++ cnt ++ dst ++ s.timestamp)

/-- `PusTmSecondaryHeader.header_size` -/
def TmSec.headerSize (s : TmSec) : Nat := 7 + s.timestamp.length

/-- `PusTmSecondaryHeader.unpack(data, timestamp_len)` -/
def TmSec.unpack (d : Bytes) (tsLen : Nat) : Py TmSec := do
  if d.length < 7 then throw .value
  let b0 ← idx d 0
  if b0 / 16 ≠ 2 then throw .value
  let svc ← idx d 1
  let sub ← idx d 2
  let cnt ← unpackBE 2 (slice d 3 5)
  let dst ← unpackBE 2 (slice d 5 7)
  pure ⟨b0 % 16, svc, sub, cnt, dst, slice d 7 (7 + tsLen)⟩

structure Tm where
  sph : Sph
  sec : TmSec
  sourceData : Bytes
deriving DecidableEq, Repr

/-- `PusTm.data_len_from_src_len_timestamp_len` -/
def dataLen (tsLen srcLen : Nat) : Nat := 7 + tsLen + srcLen + 1

/-- `PusTm(service, subservice, timestamp, source_data, apid, seq_count, message_counter,
    space_time_ref, destination_id, packet_version)` -/
def Tm.new (service subservice : Int) (timestamp sourceData : Bytes) (apid count msgCounter : Int)
    (timeRef destId version : Nat) : Py Tm := do
  let sph ← Sph.new version 0 1 apid 3 count ((dataLen timestamp.length sourceData.length : Nat) : Int)
  let sec ← TmSec.new service subservice timestamp msgCounter destId timeRef
  pure ⟨sph, sec, sourceData⟩

def Tm.packNoCrc (t : Tm) : Py Bytes := do
  let h ← t.sph.pack
  let s ← t.sec.pack
  pure (h ++ s ++ t.sourceData)

/-- `PusTm.pack()` (default `recalc_crc=True`) -/
def Tm.pack (t : Tm) : Py Bytes := do
  let p ← t.packNoCrc
  pure (p ++ Crc.crcTrailer p)

def Tm.packetLen (t : Tm) : Nat := t.sph.packetLen

/-- `PusTm.unpack(data, timestamp_len)` (with the repaired minimum-length guard) -/
def Tm.unpack (d : Bytes) (tsLen : Nat) : Py Tm := do
  let sph ← Sph.unpack d
  let n := totalLenFromLenField sph.dlen
  if n > d.length then throw .value
  if n < 6 + 7 + tsLen + 2 then throw .value
  let sec ← TmSec.unpack (d.drop 6) tsLen
  if n < sec.headerSize + 6 then throw .value
  let src := slice d (sec.headerSize + 6) (n - 2)
  if Crc.crc16 (d.take n) ≠ 0 then throw .crc
  pure ⟨sph, sec, src⟩

/-- `PusTm.to_space_packet().pack()` -/
def Tm.spacePacketPack (t : Tm) : Py Bytes := do
  let h ← t.sph.pack
  let s ← t.sec.pack
  let crc := Crc.crcTrailer (h ++ s ++ t.sourceData)
  spPack t.sph (some s) (some (t.sourceData ++ crc))

def pyEq (x y : Py Bytes) : Bool :=
  match x, y with
  | .ok a, .ok b => decide (a = b)
  | _, _ => false

/-- `PusTm.__eq__` -/
def Tm.beq (a b : Tm) : Bool :=
  pyEq a.sph.pack b.sph.pack && pyEq a.sec.pack b.sec.pack && decide (a.sourceData = b.sourceData)

/-- `tm_data` setter -/
def Tm.setTmData (t : Tm) (d : Bytes) : Tm :=
  { t with sourceData := d, sph := { t.sph with dlen := dataLen t.sec.timestamp.length d.length } }

/-- `PusTm.service_from_bytes` -/
def serviceFromBytes (d : Bytes) : Py Nat := do
  if d.length < 8 then throw .value
  idx d 7

/-- `PUS_TM_TIMESTAMP_OFFSET` -/
def timestampOffset : Nat := 6 + 7

/-- `Service17Tm(apid, subservice, timestamp, ssc, source_data, packet_version, space_time_ref,
    destination_id)` wraps a `PusTm` with service 17 -/
def srv17New (apid : Int) (subservice : Int) (timestamp : Bytes) (ssc : Int) (sourceData : Bytes)
    (version timeRef destId : Nat) : Py Tm :=
  Tm.new 17 subservice timestamp sourceData apid ssc 0 timeRef destId version

/-- `Service17Tm.unpack` -/
def srv17Unpack (d : Bytes) (tsLen : Nat) : Py Tm := Tm.unpack d tsLen

end SpVerif.PusTm
