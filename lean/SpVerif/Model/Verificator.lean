import SpVerif.Py
import SpVerif.Model.Srv1
/-!
# Model of `spacepackets/ecss/pus_verificator.py`

`PusVerificator` keeps a Python `dict` from `RequestId` to `VerificationStatus`. `RequestId.__eq__`
and `__hash__` go through `as_u32()`, so the dictionary is keyed by that number: the model keeps an
association list `Tracker = List (Nat × VStatus)` keyed by the 32-bit request id, in insertion order
(as a Python `dict` does). A fresh key is appended, an existing entry is modified in place,
`del d[k]` removes the entry, the comprehension of `remove_completed_entries` is a filter.

`step : Tracker → Op → Tracker × Out` is one public call. `checkSubservice` is a transcription of
the `if/elif` chain of `_check_subservice`, including the order of its assignments; a report of
subservice 5 / 6 whose `step_id` is `None` raises `AttributeError` *after* the status record has
already been modified, and the model reproduces that (`.raised .attr` together with the modified
state).

`Spec` (second half of the file) is the documented state machine as a per-field transition table.
-/
namespace SpVerif.Verificator
open SpVerif

/-- `StatusField` (`IntEnum`: UNSET = -1, FAILURE = 0, SUCCESS = 1) -/
inductive SF
  | unset
  | failure
  | success
deriving DecidableEq, Repr, Inhabited

/-- the integer value of a `StatusField` member -/
def SF.toInt : SF → Int
  | .unset => -1
  | .failure => 0
  | .success => 1

/-- `VerificationStatus` (dataclass; the defaults are those of the dataclass) -/
structure VStatus where
  allRecvd : Bool := false
  accepted : SF := .unset
  started : SF := .unset
  step : SF := .unset
  stepList : List Nat := []
  completed : SF := .unset
deriving DecidableEq, Repr, Inhabited

/-- `VerificationStatus()` -/
def VStatus.init : VStatus := {}

/-- the dictionary `_verif_dict`, keyed by `RequestId.as_u32()`, insertion order kept -/
abbrev Tracker := List (Nat × VStatus)

/-- `PusVerificator()` -/
def Tracker.empty : Tracker := []

/-- `d.get(k)` / `k in d` -/
def lookup : Tracker → Nat → Option VStatus
  | [], _ => none
  | (k, s) :: t, r => if k = r then some s else lookup t r

/-- in-place modification of the value stored under an existing key (the code mutates the
    `VerificationStatus` object that the dictionary holds) -/
def set : Tracker → Nat → VStatus → Tracker
  | [], _, _ => []
  | (k, s) :: t, r, s' => if k = r then (k, s') :: t else (k, s) :: set t r s'

/-- `del d[k]` -/
def erase : Tracker → Nat → Tracker
  | [], _ => []
  | (k, s) :: t, r => if k = r then t else (k, s) :: erase t r

/-- the keys, in insertion order -/
def keys (t : Tracker) : List Nat := t.map Prod.fst

/-- one public call on the tracker -/
inductive Op
  /-- `add_tc(tc)` where `r = RequestId.from_sp_header(tc.sp_header).as_u32()` -/
  | addTc (r : Nat)
  /-- `add_tm(report)` where `r = report.tc_req_id.as_u32()`, `sub = report.subservice` and
      `stepVal = report.step_id.val` (`none` when `report.step_id is None`) -/
  | addTm (r : Nat) (sub : Nat) (stepVal : Option Nat)
  /-- `remove_entry(req_id)` -/
  | removeEntry (r : Nat)
  /-- `remove_completed_entries()` -/
  | removeCompleted
deriving DecidableEq, Repr

/-- what a call returns -/
inductive Out
  /-- `add_tc`: `True` / `False` -/
  | added (b : Bool)
  /-- `add_tm`: `None` -/
  | noResult
  /-- `add_tm`: `TmCheckResult(status, completed)`; `status` is the stored record itself -/
  | result (status : VStatus) (completed : Bool)
  /-- `remove_entry`: `True` / `False` -/
  | removed (b : Bool)
  /-- `remove_completed_entries`: `None` -/
  | done
  /-- an exception escapes from the call -/
  | raised (e : Err)
deriving DecidableEq, Repr

/-- `_check_all_replies_recvd_after_step` -/
def checkAllRepliesRecvdAfterStep (s : VStatus) : VStatus :=
  if s.accepted ≠ .unset ∧ s.started ≠ .unset then { s with allRecvd := true } else s

/-- `_check_subservice` (with `_handle_step_failure` inlined) for a subservice in 1..8: the status
    record after the call and either the `completed` flag of the result or the escaping error -/
def checkSubservice (s : VStatus) (sub : Nat) (stepVal : Option Nat) : VStatus × Py Bool :=
  -- `if subservice % 2 == 0: res.completed = True`
  let c0 : Bool := sub % 2 = 0
  if sub = 1 then
    ({ s with accepted := .success }, .ok c0)
  else if sub = 2 then
    let s1 := { s with allRecvd := true }
    ({ s1 with accepted := .failure }, .ok true)
  else if sub = 3 then
    ({ s with started := .success }, .ok c0)
  else if sub = 4 then
    let s1 := if s.accepted ≠ .unset then { s with allRecvd := true } else s
    ({ s1 with started := .failure }, .ok true)
  else if sub = 5 then
    let s1 := if s.step = .unset then { s with step := .success } else s
    match stepVal with
    | none => (s1, .error .attr)
    | some v => ({ s1 with stepList := s1.stepList ++ [v] }, .ok c0)
  else if sub = 6 then
    let s1 := checkAllRepliesRecvdAfterStep s
    let s2 := { s1 with step := .failure }
    match stepVal with
    | none => (s2, .error .attr)
    | some v => ({ s2 with stepList := s2.stepList ++ [v] }, .ok true)
  else if sub = 7 then
    let s1 := checkAllRepliesRecvdAfterStep s
    ({ s1 with completed := .success }, .ok true)
  else if sub = 8 then
    let s1 := checkAllRepliesRecvdAfterStep s
    ({ s1 with completed := .failure }, .ok true)
  else
    (s, .ok c0)

/-- `add_tc` -/
def addTc (t : Tracker) (r : Nat) : Tracker × Out :=
  match lookup t r with
  | some _ => (t, .added false)
  | none => (t ++ [(r, VStatus.init)], .added true)

/-- `add_tm` -/
def addTm (t : Tracker) (r sub : Nat) (stepVal : Option Nat) : Tracker × Out :=
  match lookup t r with
  | none => (t, .noResult)
  | some s =>
    if sub ≤ 0 ∨ sub > 8 then (t, .raised .value)
    else
      let p := checkSubservice s sub stepVal
      (set t r p.1,
        match p.2 with
        | .ok c => .result p.1 c
        | .error e => .raised e)

/-- `remove_entry` -/
def removeEntry (t : Tracker) (r : Nat) : Tracker × Out :=
  match lookup t r with
  | some _ => (erase t r, .removed true)
  | none => (t, .removed false)

/-- `remove_completed_entries` -/
def removeCompleted (t : Tracker) : Tracker × Out :=
  (t.filter (fun e => !e.2.allRecvd), .done)

/-- one call -/
def step (t : Tracker) : Op → Tracker × Out
  | .addTc r => addTc t r
  | .addTm r sub v => addTm t r sub v
  | .removeEntry r => removeEntry t r
  | .removeCompleted => removeCompleted t

/-- the tracker after a history -/
def run (t : Tracker) : List Op → Tracker
  | [] => t
  | o :: os => run (step t o).1 os

/-- what every call of a history returned, with the tracker after it -/
def trace (t : Tracker) : List Op → List (Out × Tracker)
  | [] => []
  | o :: os => ((step t o).2, (step t o).1) :: trace (step t o).1 os

/-- a tracker some history produces from `PusVerificator()` -/
def Reachable (t : Tracker) : Prop := ∃ ops, run Tracker.empty ops = t

/-- the key under which a telecommand / a report is filed: `RequestId.as_u32()` of the request id
    taken from the space packet header fields -/
def keyOf (version ptype shf apid flags count : Nat) : Nat :=
  (Srv1.ReqId.mk version ⟨ptype, shf, apid⟩ ⟨flags, count⟩).asU32

/-! ## The documented state machine, as a per-field transition table -/
namespace Spec

/-- acceptance field: written by the acceptance reports only -/
def accepted (sub : Nat) (old : SF) : SF :=
  if sub = 1 then .success else if sub = 2 then .failure else old

/-- start field: written by the start reports only -/
def started (sub : Nat) (old : SF) : SF :=
  if sub = 3 then .success else if sub = 4 then .failure else old

/-- step field: a step failure always wins, a step success only fills an unset field -/
def stepField (sub : Nat) (old : SF) : SF :=
  if sub = 6 then .failure else if sub = 5 ∧ old = .unset then .success else old

/-- completion field: written by the completion reports only -/
def completed (sub : Nat) (old : SF) : SF :=
  if sub = 7 then .success else if sub = 8 then .failure else old

/-- step list: every step report appends its step value -/
def stepList (sub : Nat) (v : Option Nat) (old : List Nat) : List Nat :=
  if sub = 5 ∨ sub = 6 then
    match v with
    | some x => old ++ [x]
    | none => old
  else old

/-- this report finishes the sequence: an acceptance failure always; a start failure once an
    acceptance report was seen; a step failure or a completion report once acceptance and start
    reports were seen -/
def finishes (sub : Nat) (s : VStatus) : Bool :=
  sub = 2 ∨ (sub = 4 ∧ s.accepted ≠ .unset)
    ∨ ((sub = 6 ∨ sub = 7 ∨ sub = 8) ∧ s.accepted ≠ .unset ∧ s.started ≠ .unset)

/-- the `completed` flag of the result: failure reports and completion reports -/
def resultFlag (sub : Nat) : Bool := sub = 2 ∨ sub = 4 ∨ sub = 6 ∨ sub = 7 ∨ sub = 8

/-- the record of a telecommand after a report -/
def report (s : VStatus) (sub : Nat) (v : Option Nat) : VStatus :=
  { allRecvd := s.allRecvd || finishes sub s
    accepted := accepted sub s.accepted
    started := started sub s.started
    step := stepField sub s.step
    stepList := stepList sub v s.stepList
    completed := completed sub s.completed }

/-- one call of the abstract machine -/
def step (t : Tracker) : Op → Tracker × Out
  | .addTc r =>
    if (lookup t r).isSome then (t, .added false) else (t ++ [(r, VStatus.init)], .added true)
  | .addTm r sub v =>
    match lookup t r with
    | none => (t, .noResult)
    | some s =>
      (t.map (fun e => if e.1 = r then (e.1, report e.2 sub v) else e),
        .result (report s sub v) (resultFlag sub))
  | .removeEntry r => (t.filter (fun e => e.1 ≠ r), .removed (lookup t r).isSome)
  | .removeCompleted => (t.filter (fun e => !e.2.allRecvd), .done)

def trace (t : Tracker) : List Op → List (Out × Tracker)
  | [] => []
  | o :: os => ((step t o).2, (step t o).1) :: trace (step t o).1 os

end Spec

/-- reports inside the property's domain: subservice 1..8, and a step report carries a step id -/
def Op.WF : Op → Bool
  | .addTm _ sub v => decide (1 ≤ sub) && decide (sub ≤ 8) && (!(decide (sub = 5) || decide (sub = 6)) || v.isSome)
  | _ => true

end SpVerif.Verificator
