import SpVerif.Model.SpacePacket
/-!
# Model of the space-packet stream parser (`parse_space_packets`, `__handle_packet_id_match`)

`spacepackets/ccsds/spacepacket.py`, as the code is now (a residual shorter than a header is kept in
the queue).

The caller owns a deque of octet strings (`analysis_queue`), appends chunks on the right and calls
`parse_space_packets(queue, packet_ids)`. One call

1. returns `[]` at once when the deque is empty;
2. drains the deque from the left into one buffer (`concatenated_packets`);
3. when the buffer has fewer than 6 octets, re-inserts it as one chunk (also when it is empty) and
   returns `[]`;
4. scans the buffer from `current_idx = 0`:
   * `current_idx + 6 >= len(buffer)`: stop; the remaining octets (if any) go back as one chunk;
   * else read the 16-bit word at `current_idx`, mask it with `PACKET_ID_MASK = 0x1FFF`;
     - registered ID: total length = length field (octets 4,5) + 7; if the packet is not complete,
       stop and re-insert `buffer[current_idx:]`; else emit the slice and advance by its length;
     - any other ID: advance by one octet.

The scan is written on `rest = concatenated_packets[current_idx:]` (advancing the index is dropping
from the front), once in the `Py` monad with the `struct.unpack` calls that the code performs
(`scanPy`: the calls can fail with `struct.error` on a short slice — the guard makes that impossible,
which is a theorem, not an assumption), and once as the pure function `scan` that the theorems are
about (`Proofs/Parser.lean`: `scanPy = ok ∘ scan`).
-/
namespace SpVerif.Parser
open SpVerif SpVerif.SpacePacket

/-- `PACKET_ID_MASK + 1`: `word & 0x1FFF` is `word % 8192` -/
def idModulus : Nat := 8192

/-- `CCSDS_HEADER_LEN` -/
def headerLen : Nat := 6

/-! ## The scan (Python-faithful, in `Py`) -/

/-- the `while True` loop of `parse_space_packets` together with `__handle_packet_id_match`, on
    `rest = concatenated_packets[current_idx:]`; returns `(tm_list, residual re-inserted)` -/
def scanPy (ids : List Nat) (rest : Bytes) : Py (List Bytes × Bytes) :=
  -- `if current_idx + CCSDS_HEADER_LEN >= len(concatenated_packets)`
  if _h6 : rest.length ≤ headerLen then pure ([], rest)
  else do
    -- `struct.unpack("!H", concatenated_packets[current_idx : current_idx + 2])[0] & PACKET_ID_MASK`
    let w ← unpackBE 2 (slice rest 0 2)
    if w % idModulus ∈ ids then do
      -- `struct.unpack("!H", concatenated_packets[current_idx + 4 : current_idx + 6])[0]`
      let lf ← unpackBE 2 (slice rest 4 6)
      if _hinc : totalLenFromLenField lf > rest.length then
        -- incomplete: `analysis_queue.clear(); analysis_queue.append(buffer[current_idx:])`
        pure ([], rest)
      else do
        let r ← scanPy ids (rest.drop (totalLenFromLenField lf))
        pure (rest.take (totalLenFromLenField lf) :: r.1, r.2)
    else
      -- `current_idx += 1`
      scanPy ids (rest.drop 1)
termination_by rest.length
decreasing_by
  all_goals simp only [List.length_drop, totalLenFromLenField, headerLen] at *
  all_goals omega

/-! ## The scan (pure) -/

/-- masked packet-ID word carried by the first two octets of `rest` -/
def pidOf (rest : Bytes) : Nat := beNat (slice rest 0 2) % idModulus

/-- packet data length field (octets 4 and 5) of `rest` -/
def lenFieldOf (rest : Bytes) : Nat := beNat (slice rest 4 6)

/-- total length announced by the header at the start of `rest` -/
def totalOf (rest : Bytes) : Nat := totalLenFromLenField (lenFieldOf rest)

/-- the scan as a total pure function: `(packets, residual)` -/
def scan (ids : List Nat) (rest : Bytes) : List Bytes × Bytes :=
  if _h6 : rest.length ≤ headerLen then ([], rest)
  else if pidOf rest ∈ ids then
    if _hinc : totalOf rest > rest.length then ([], rest)
    else
      let r := scan ids (rest.drop (totalOf rest))
      (rest.take (totalOf rest) :: r.1, r.2)
  else scan ids (rest.drop 1)
termination_by rest.length
decreasing_by
  all_goals simp only [List.length_drop, totalOf, totalLenFromLenField, headerLen] at *
  all_goals omega

/-! ## One call on the deque -/

/-- what the residual becomes in the deque: one chunk, or nothing when it is empty
    (`if current_idx < len(concatenated_packets): analysis_queue.append(…)`; the incomplete-packet
    exit always has a non-empty residual) -/
def requeue (r : Bytes) : List Bytes := if r.isEmpty then [] else [r]

/-- `parse_space_packets(analysis_queue, packet_ids)` with `ids = [p.raw() for p in packet_ids]`:
    returns `(tm_list, deque afterwards)`; the deque is the list of its chunks, left to right -/
def parseCall (ids : List Nat) (q : List Bytes) : Py (List Bytes × List Bytes) :=
  if q.isEmpty then pure ([], [])                      -- `if not analysis_queue: return tm_list`
  else
    let buf := q.flatten                               -- `while analysis_queue: extend(popleft())`
    if buf.length < headerLen then pure ([], [buf])    -- kept for the next call (even if empty)
    else do
      let r ← scanPy ids buf
      pure (r.1, requeue r.2)

/-- pure version of `parseCall` -/
def call (ids : List Nat) (q : List Bytes) : List Bytes × List Bytes :=
  if q.isEmpty then ([], [])
  else if q.flatten.length < headerLen then ([], [q.flatten])
  else ((scan ids q.flatten).1, requeue (scan ids q.flatten).2)

/-- the public entry point with `PacketId` objects -/
def parseSpacePackets (q : List Bytes) (pids : List PacketId) : Py (List Bytes × List Bytes) :=
  parseCall (pids.map PacketId.raw) q

/-! ## Schedules: any interleaving of `deque.append(chunk)` and parser calls -/

inductive Step
  | append (c : Bytes)   -- `analysis_queue.append(c)`
  | parse                -- `parse_space_packets(analysis_queue, packet_ids)`
deriving DecidableEq, Repr

/-- the octets appended by a schedule, in order -/
def fed : List Step → Bytes
  | [] => []
  | .append c :: s => c ++ fed s
  | .parse :: s => fed s

/-- run a schedule on a deque: for every parser call the list it returned and the deque after it,
    and the final deque -/
def runPy (ids : List Nat) : List Bytes → List Step → Py (List (List Bytes × List Bytes) × List Bytes)
  | q, [] => pure ([], q)
  | q, .append c :: s => runPy ids (q ++ [c]) s
  | q, .parse :: s => do
      let o ← parseCall ids q
      let r ← runPy ids o.2 s
      pure (o :: r.1, r.2)

/-- pure version of `runPy` -/
def run (ids : List Nat) : List Bytes → List Step → List (List Bytes × List Bytes) × List Bytes
  | q, [] => ([], q)
  | q, .append c :: s => run ids (q ++ [c]) s
  | q, .parse :: s =>
      let o := call ids q
      let r := run ids o.2 s
      (o :: r.1, r.2)

/-- all packets returned during a schedule, in the order returned -/
def returned (obs : List (List Bytes × List Bytes)) : List Bytes := (obs.map (·.1)).flatten

/-! ## Junk that an implementation may discard early (used by the correspondence check only)

A position of the residual whose two octets are both known and do not carry a registered ID can
never start a packet; a parser may drop it at once or (as the code does) keep it until at least
seven octets are available. `canonRest` strips the maximal such prefix, so two residuals that differ
only in how early junk was discarded have the same canonical form. -/
def canonRest (ids : List Nat) (r : Bytes) : Bytes :=
  if _h : 2 ≤ r.length ∧ pidOf r ∉ ids then canonRest ids (r.drop 1) else r
termination_by r.length
decreasing_by
  simp only [List.length_drop]
  omega

end SpVerif.Parser
