import SpVerif.Model.PusTc
import SpVerif.Model.PusTm
import SpVerif.Model.Nak
import SpVerif.Model.KeepAlive
import SpVerif.Model.FileData
import SpVerif.Model.UslpFrame
import SpVerif.Model.Eof
import SpVerif.Model.Finished
import SpVerif.Model.Metadata
/-!
# Setter state machines of the mutable packet classes (property C11)

On top of the existing models (nothing is re-modelled): for every mutable class

* a **state** = the object of the owning model plus the caches the Python object carries
  (`PusTc._crc16`, `PusTm._crc16`, `TransferFrameDataField._size`; the CFDP PDUs keep their cached
  length inside the `PduHeader` of the owning model already),
* an **op** type = the documented setters of the statement,
* `step : State → Op → State × Option Err` — one setter call: the state afterwards and the
  exception raised, if any. A refused call (`ValueError`: the new length does not fit the length
  field) leaves the object **unchanged**: the setters validate before they assign,
* `pack` returning the octets **and** the post-state (caches filled),
* what the caller of a constructor sees afterwards: the object and the caller's own configuration
  (`withCaller`; aliasing itself is not expressible in a functional model, see `Props/C11.lean`).

`Machine.run` / `Machine.trace` fold a whole finite sequence of setter calls.
-/
namespace SpVerif.Mutation
open SpVerif

/-- a setter state machine -/
structure Machine (S O : Type) where
  step : S → O → S × Option Err

variable {S O : Type}

/-- the state after a whole sequence of setter calls (refused calls included: the sequence goes on) -/
def Machine.run (m : Machine S O) (s : S) (ops : List O) : S := ops.foldl (fun q o => (m.step q o).1) s

/-- every intermediate state with the outcome of the call that produced it -/
def Machine.trace (m : Machine S O) (s : S) : List O → List (S × Option Err)
  | [] => []
  | o :: rest => m.step s o :: m.trace (m.step s o).1 rest

/-- the constructor as the caller experiences it: the object built, and the caller's own
    configuration / parameter object as it is afterwards (every constructor works on a copy) -/
def withCaller {α γ : Type} (callerArg : γ) (r : Py α) : Py (α × γ) :=
  match r with
  | .ok a => .ok (a, callerArg)
  | .error e => .error e

/-! ## PUS telecommand: `app_data` -/
section Tc
open SpVerif.PusTc

/-- a `PusTc` object: fields and the `_crc16` cache -/
structure TcS where
  obj : Tc
  crc : Option Bytes
deriving DecidableEq, Repr

inductive TcOp
  | appData (d : Bytes)
deriving DecidableEq, Repr

/-- state right after the constructor (`_crc16 = None`) -/
def TcS.ofNew (t : Tc) : TcS := ⟨t, none⟩

/-- state right after `PusTc.unpack(d)` (`_crc16` = the two trailer octets read) -/
def TcS.ofUnpack (d : Bytes) : Py TcS := do
  let t ← Tc.unpack d
  pure ⟨t, some (slice d (t.packetLen - 2) t.packetLen)⟩

/-- `tc.app_data = d`: `ValueError` (object unchanged) when the data length field would exceed
    16 bits, else data and length field are replaced together; the CRC cache is not touched -/
def tcStep (s : TcS) : TcOp → TcS × Option Err
  | .appData d =>
    if dataLength d.length 5 > 65535 then (s, some .value)
    else ({ s with obj := s.obj.setAppData d }, none)

def tcMachine : Machine TcS TcOp := ⟨tcStep⟩

/-- `pack()` (default `recalc_crc=True`): the octets, and the object with the cache refreshed -/
def TcS.pack (s : TcS) : Py (Bytes × TcS) := do
  let p ← s.obj.packNoCrc
  pure (p ++ Crc.crcTrailer p, { s with crc := some (Crc.crcTrailer p) })

/-- `packet_len` -/
def TcS.reported (s : TcS) : Nat := s.obj.packetLen

/-- `__eq__` (never looks at the cache) -/
def TcS.beq (a b : TcS) : Bool := a.obj.beq b.obj

end Tc

/-! ## PUS telemetry: `tm_data` -/
section Tm
open SpVerif.PusTm

structure TmS where
  obj : Tm
  crc : Option Bytes
deriving DecidableEq, Repr

inductive TmOp
  | tmData (d : Bytes)
deriving DecidableEq, Repr

def TmS.ofNew (t : Tm) : TmS := ⟨t, none⟩

def TmS.ofUnpack (d : Bytes) (tsLen : Nat) : Py TmS := do
  let t ← Tm.unpack d tsLen
  pure ⟨t, some (slice d (t.packetLen - 2) t.packetLen)⟩

/-- `tm.tm_data = d` -/
def tmStep (s : TmS) : TmOp → TmS × Option Err
  | .tmData d =>
    if dataLen s.obj.sec.timestamp.length d.length > 65535 then (s, some .value)
    else ({ s with obj := s.obj.setTmData d }, none)

def tmMachine : Machine TmS TmOp := ⟨tmStep⟩

def TmS.pack (s : TmS) : Py (Bytes × TmS) := do
  let p ← s.obj.packNoCrc
  pure (p ++ Crc.crcTrailer p, { s with crc := some (Crc.crcTrailer p) })

def TmS.reported (s : TmS) : Nat := s.obj.packetLen

def TmS.beq (a b : TmS) : Bool := a.obj.beq b.obj

end Tm

/-! ## NAK PDU: `segment_requests`, `file_flag` -/
section Nak
open SpVerif.Nak

inductive NakOp
  | segs (l : List Seg)
  | fileFlag (f : Nat)
deriving DecidableEq, Repr

/-- one setter call; a refused call leaves the PDU unchanged -/
def nakStep (k : Nak) : NakOp → Nak × Option Err
  | .segs l =>
    match k.setSegs l with
    | .ok k' => (k', none)
    | .error e => (k, some e)
  | .fileFlag f =>
    match k.setFileFlag f with
    | .ok k' => (k', none)
    | .error e => (k, some e)

def nakMachine : Machine Nak NakOp := ⟨nakStep⟩

/-- `pack()`: the object carries no cache -/
def nakPack (k : Nak) : Py (Bytes × Nak) := do
  let b ← k.pack
  pure (b, k)

end Nak

/-! ## Keep Alive PDU: `file_flag` -/
section KeepAlive
open SpVerif.KeepAlive

inductive KaOp
  | fileFlag (f : Nat)
deriving DecidableEq, Repr

def kaStep (k : KeepAlive) : KaOp → KeepAlive × Option Err
  | .fileFlag f =>
    match k.setFileFlag f with
    | .ok k' => (k', none)
    | .error e => (k, some e)

def kaMachine : Machine KeepAlive KaOp := ⟨kaStep⟩

def kaPack (k : KeepAlive) : Py (Bytes × KeepAlive) := do
  let b ← k.pack
  pure (b, k)

end KeepAlive

/-! ## File Data PDU: `file_data`, `segment_metadata` -/
section FileData
open SpVerif.FileData

/-- one setter call (the setters of `Model/FileData.lean`); a refused call leaves the PDU unchanged -/
def fdStep (p : Pdu) (s : Setter) : Pdu × Option Err := p.step s

def fdMachine : Machine Pdu Setter := ⟨fdStep⟩

def fdPack (p : Pdu) : Py (Bytes × Pdu) := do
  let b ← p.pack
  pure (b, p)

end FileData

/-! ## USLP transfer frame: data zone `tfdz`, `set_frame_len_in_header` -/
section Uslp
open SpVerif.Uslp

/-- a `TransferFrame` object: the frame and the size cached by its data field (`_size`) -/
structure FrameS where
  frame : Frame
  size : Nat
deriving DecidableEq, Repr

inductive FrameOp
  | tfdz (d : Bytes)
  | setFrameLen
deriving DecidableEq, Repr

/-- state after the constructors (`TransferFrameDataField(...)` caches its size) -/
def FrameS.ofNew (f : Frame) : FrameS := ⟨f, f.tfdf.len⟩

/-- `TransferFrame.len()`: header, the data field's cached size, and the optional fields -/
def FrameS.len (s : FrameS) : Nat :=
  s.frame.header.len + s.size + optLen s.frame.insertZone + optLen s.frame.ocf + optLen s.frame.fecf

/-- `frame.tfdf.tfdz = d` (the constructor's bound, checked before assigning) and
    `frame.set_frame_len_in_header()` (`ValueError`, header unchanged, when the length does not
    fit the 16-bit field; nothing to do for a truncated header) -/
def frameStep (s : FrameS) : FrameOp → FrameS × Option Err
  | .tfdz d =>
    let size := s.frame.tfdf.headerLen + d.length
    if size > tfdfMaxSize - s.frame.tfdf.headerLen then (s, some .value)
    else ({ frame := { s.frame with tfdf := { s.frame.tfdf with tfdz := d } }, size := size }, none)
  | .setFrameLen =>
    -- the C17 model function, on the length `TransferFrame.len()` reports (cached data-field size)
    match s.frame.setFrameLenWith s.len with
    | .ok f => ({ s with frame := f }, none)
    | .error e => (s, some e.toErr)

def frameMachine : Machine FrameS FrameOp := ⟨frameStep⟩

/-- `frame.pack(truncated=header.truncated())` in the shared error categories -/
def framePack (s : FrameS) : Py (Bytes × FrameS) :=
  match s.frame.pack s.frame.header.isTruncated none with
  | .ok b => .ok (b, s)
  | .error e => .error e.toErr

end Uslp

/-! ## EOF PDU: `fault_location` -/
section Eof
open SpVerif.Eof SpVerif.Tlv

inductive EofOp
  | faultLoc (fl : Option EntityIdTlv)
deriving DecidableEq, Repr

def eofStep (k : Eof) : EofOp → Eof × Option Err
  | .faultLoc fl =>
    match k.setFaultLoc fl with
    | .ok k' => (k', none)
    | .error e => (k, some e)

def eofMachine : Machine Eof EofOp := ⟨eofStep⟩

def eofPack (k : Eof) : Py (Bytes × Eof) := do
  let b ← k.pack
  pure (b, k)

end Eof

/-! ## Finished PDU: `file_store_responses`, `fault_location`, `condition_code` -/
section Finished
open SpVerif.Finished SpVerif.Tlv

/-- a `FinishedPdu` object: the PDU and, per filestore response, the octets of the `tlv` object the
    response caches once `pack()` has built it (`FileStoreResponseTlv.tlv`; `none` = not yet built).
    No documented setter mutates a TLV object, so a cached TLV always equals what `_build_tlv()`
    would build again; the cache is recorded here to state that packing changes nothing else. -/
structure FinS where
  obj : Finished
  cache : List (Option Bytes)
deriving DecidableEq, Repr

inductive FinOp
  | cond (c : Int)
  | responses (rs : Option (List FileStoreResponseTlv))
  | faultLoc (fl : Option EntityIdTlv)
deriving DecidableEq, Repr

/-- state right after the constructor or the decoder: nothing cached -/
def FinS.ofNew (k : Finished) : FinS := ⟨k, k.responses.map fun _ => none⟩

/-- one setter call; a refused call leaves the PDU unchanged; a new list of responses brings its
    own (here: empty) caches, the other two setters do not touch the responses -/
def finStep (s : FinS) : FinOp → FinS × Option Err
  | .cond c =>
    match s.obj.setCond c with
    | .ok k' => ({ s with obj := k' }, none)
    | .error e => (s, some e)
  | .responses rs =>
    match s.obj.setResponses rs with
    | .ok k' => (FinS.ofNew k', none)
    | .error e => (s, some e)
  | .faultLoc fl =>
    match s.obj.setFaultLoc fl with
    | .ok k' => ({ s with obj := k' }, none)
    | .error e => (s, some e)

def finMachine : Machine FinS FinOp := ⟨finStep⟩

/-- the octets every response's `pack()` returns (what the caches hold afterwards) -/
def responseOctets : List FileStoreResponseTlv → Py (List Bytes)
  | [] => pure []
  | r :: l => do
    let x ← r.pack
    let rest ← responseOctets l
    pure (x :: rest)

/-- `pack()`: the octets, and the object with every response's TLV cached -/
def FinS.pack (s : FinS) : Py (Bytes × FinS) := do
  let b ← s.obj.pack
  let cs ← responseOctets s.obj.responses
  pure (b, { s with cache := cs.map some })

def FinS.reported (s : FinS) : Nat := s.obj.packetLen

/-- `__eq__` (never looks at the caches) -/
def FinS.beq (a b : FinS) : Py Bool := a.obj.beq b.obj

end Finished

/-! ## Metadata PDU: `options`, `source_file_name`, `dest_file_name` -/
section Metadata
open SpVerif.Metadata SpVerif.Tlv

inductive MdOp
  | options (o : Option (List AnyTlv))
  | srcName (n : Option Bytes)
  | dstName (n : Option Bytes)
deriving DecidableEq, Repr

def mdStep (k : Metadata) : MdOp → Metadata × Option Err
  | .options o =>
    match k.setOptions o with
    | .ok k' => (k', none)
    | .error e => (k, some e)
  | .srcName n =>
    match k.setSrcName n with
    | .ok k' => (k', none)
    | .error e => (k, some e)
  | .dstName n =>
    match k.setDstName n with
    | .ok k' => (k', none)
    | .error e => (k, some e)

def mdMachine : Machine Metadata MdOp := ⟨mdStep⟩

def mdPack (k : Metadata) : Py (Bytes × Metadata) := do
  let b ← k.pack
  pure (b, k)

end Metadata

end SpVerif.Mutation
