import SpVerif.Model.FileDirective
import SpVerif.Model.Tlv
/-!
# Model of `spacepackets/cfdp/pdu/metadata.py` (Metadata PDU, CCSDS 727.0-B-5 §5.2.5)

Parameters: one octet `reserved (1 bit) | closure requested (1 bit) | reserved (2 bits) |
checksum type (4 bits)`, file size (one FSS field), source file name (LV), destination file name
(LV), then the options (TLVs, list order). Always towards the receiver (0).

* `closure_requested` is a `bool`, `checksum_type` a natural number (`ChecksumType` value; the
  constructor does not validate it, the decoder does), `file_size` a Python `int`
  (`_verify_file_len` refuses a size above 2^32 / 2^64 with `ValueError`; 2^32 / 2^64 themselves and
  negative sizes are stopped by `struct.pack` with `struct.error`).
* File names are modelled by their UTF-8 octets (`None` = no name = empty LV); the
  `source_file_name` / `dest_file_name` properties decode the LV value (`UnicodeDecodeError`, a
  `ValueError`, for a decoded PDU whose name is not UTF-8) and give `None` for an empty LV.
* `options` is `None` or a list of TLV objects of any class; the decoder yields generic `CfdpTlv`s
  and leaves `None` when no octet follows the destination name.
* The decoder does not look at the directive-code octet; it parses only `data[:end_of_params]`
  and requires the LVs and options to fill it exactly. It keeps the decoded header (no length
  recomputation).

Not modelled: `__repr__`, aliasing of the caller's `MetadataParams` / option list (C11).
-/
namespace SpVerif.Metadata
open SpVerif SpVerif.CfdpHeader SpVerif.FileDirective SpVerif.Tlv SpVerif.Lv

/-- `ChecksumType` member values (table-synced) -/
def checksumTypes : List Nat := [0, 1, 2, 3, 15]

structure Metadata where
  fd : FileDirective
  /-- `params.closure_requested` -/
  closure : Bool
  /-- `params.checksum_type` -/
  checksumType : Nat
  /-- `params.file_size` -/
  fileSize : Int
  /-- `_source_file_name_lv` -/
  srcLv : CfdpLv
  /-- `_dest_file_name_lv` -/
  dstLv : CfdpLv
  /-- `_options` -/
  options : Option (List AnyTlv)
deriving DecidableEq, Repr

/-- `options or []` -/
def optList : Option (List AnyTlv) → List AnyTlv
  | some l => l
  | none => []

/-- sum of `option.packet_len` -/
def optionsLen : List AnyTlv → Nat
  | [] => 0
  | t :: l => t.packetLen + optionsLen l

/-- `_calculate_directive_field_len` -/
def calcLen (fd : FileDirective) (src dst : CfdpLv) (opts : Option (List AnyTlv)) : Py FileDirective :=
  let n := 5 + src.packetLen + dst.packetLen
  let n := if fd.header.conf.fileFlag = 1 then n + 4 else n
  let n := n + optionsLen (optList opts)
  fd.setParamLen (if fd.header.conf.crcFlag = 1 then n + 2 else n)

/-- `CfdpLv(value=name.encode("utf-8"))`, or the empty LV for `None` -/
def nameLv : Option Bytes → Py CfdpLv
  | some n => CfdpLv.new n
  | none => CfdpLv.new []

/-- `MetadataPdu(pdu_conf, params, options)` -/
def Metadata.new (conf : PduConfig) (closure : Bool) (ct : Nat) (size : Int) (src dst : Option Bytes)
    (opts : Option (List AnyTlv)) : Py Metadata := do
  let s ← nameLv src
  let d ← nameLv dst
  let fd ← FileDirective.new { conf with direction := 0 } DIR_METADATA 5
  let fd ← calcLen fd s d opts
  pure ⟨fd, closure, ct, size, s, d, opts⟩

def Metadata.packetLen (k : Metadata) : Nat := k.fd.packetLen

/-- `directive_param_field_len` -/
def Metadata.paramLen (k : Metadata) : Int := k.fd.paramLen

/-- the `options` setter. (All three setters restore the old value and re-raise when the new
    length is refused: in this functional model a refused setter returns the error and the object it
    was applied to is, by construction, unchanged.) -/
def Metadata.setOptions (k : Metadata) (opts : Option (List AnyTlv)) : Py Metadata := do
  let fd ← calcLen k.fd k.srcLv k.dstLv opts
  pure { k with fd := fd, options := opts }

/-- the `source_file_name` setter -/
def Metadata.setSrcName (k : Metadata) (n : Option Bytes) : Py Metadata := do
  let s ← nameLv n
  let fd ← calcLen k.fd s k.dstLv k.options
  pure { k with fd := fd, srcLv := s }

/-- the `dest_file_name` setter -/
def Metadata.setDstName (k : Metadata) (n : Option Bytes) : Py Metadata := do
  let d ← nameLv n
  let fd ← calcLen k.fd k.srcLv d k.options
  pure { k with fd := fd, dstLv := d }

/-- the `source_file_name` / `dest_file_name` properties: `None` for an empty LV, else
    `value.decode()` (observed as UTF-8 octets) -/
def lvName (l : CfdpLv) : Py (Option Bytes) :=
  if l.valueLen = 0 then pure none
  else do
    let n ← decodeUtf8 l.value
    pure (some n)

def Metadata.srcName (k : Metadata) : Py (Option Bytes) := lvName k.srcLv
def Metadata.dstName (k : Metadata) : Py (Option Bytes) := lvName k.dstLv

/-- the `for option in self._options` loop of `pack()` -/
def packOptions : List AnyTlv → Py Bytes
  | [] => pure []
  | t :: l => do
    let x ← t.pack
    let rest ← packOptions l
    pure (x ++ rest)

/-- `pack()` -/
def Metadata.pack (k : Metadata) : Py Bytes := do
  let _ ← k.fd.verifyFileLen k.fileSize
  let d ← k.fd.pack
  let b ← byteOfN ((if k.closure then 64 else 0) ||| k.checksumType)
  let sz ← packInt (if k.fd.header.largeFileFlagSet then 8 else 4) k.fileSize
  let s ← k.srcLv.pack
  let t ← k.dstLv.pack
  let o ← packOptions (optList k.options)
  pure (withCrc k.fd.header.conf.crcFlag (d ++ [b] ++ sz ++ s ++ t ++ o))

/-- `_parse_options(raw_packet, start_idx)` on the not yet consumed octets `d` (non-empty on
    entry). Every round consumes `packet_len ≥ 2` octets: the loop terminates. The
    `current_idx > len(raw_packet)` branch is unreachable (`CfdpTlv.unpack` checks the length) but
    kept, as in the code. -/
def parseOptions (d : Bytes) : Py (List CfdpTlv) := do
  let t ← CfdpTlv.unpack d
  if t.packetLen > d.length then throw .value
  else if _h : t.packetLen = d.length then pure [t]
  else
    let rest ← parseOptions (d.drop t.packetLen)
    pure (t :: rest)
termination_by d.length
decreasing_by
  simp only [List.length_drop]
  have : 0 < t.packetLen := by simp only [CfdpTlv.packetLen]; omega
  omega

/-- `MetadataPdu.unpack(data)` -/
def Metadata.unpack (data : Bytes) : Py Metadata := do
  let fd ← FileDirective.unpack data
  let _ ← fd.verify data
  let i := fd.headerLen
  let minLen := if fd.header.conf.fileFlag = 1 then i + 7 + 4 else i + 7
  if data.length < max minLen fd.packetLen then throw .value
  let data := data.take fd.paramsEnd
  if data.length < minLen then throw .value
  let b ← idx data i
  let ct ← enumOf checksumTypes (b % 16)
  let (j, size) ← fd.parseFss data (i + 1)
  let s ← CfdpLv.unpack (data.drop j)
  let j := j + s.packetLen
  let t ← CfdpLv.unpack (data.drop j)
  let j := j + t.packetLen
  if j < data.length then
    let opts ← parseOptions (data.drop j)
    pure ⟨fd, decide (b / 64 % 2 = 1), ct, (size : Int), s, t, some (opts.map AnyTlv.generic)⟩
  else
    pure ⟨fd, decide (b / 64 % 2 = 1), ct, (size : Int), s, t, none⟩

/-- `list.__eq__` on two option lists: lengths first, then element by element (`AnyTlv.beq`) -/
def optionsBeqAux : List AnyTlv → List AnyTlv → Py Bool
  | a :: r, b :: s => do
    let e ← a.beq b
    if e then optionsBeqAux r s else pure false
  | _, _ => pure true

def optionsBeq (a b : List AnyTlv) : Py Bool :=
  if a.length ≠ b.length then pure false else optionsBeqAux a b

/-- `__eq__` (`and` short-circuits; `CfdpLv.__eq__` compares the values; `None` options are `[]`) -/
def Metadata.beq (a b : Metadata) : Py Bool :=
  if ¬ a.fd.beq b.fd then pure false
  else if a.closure ≠ b.closure then pure false
  else if a.checksumType ≠ b.checksumType then pure false
  else if a.fileSize ≠ b.fileSize then pure false
  else if a.srcLv.value ≠ b.srcLv.value then pure false
  else if a.dstLv.value ≠ b.dstLv.value then pure false
  else optionsBeq (optList a.options) (optList b.options)

end SpVerif.Metadata
