import SpVerif.BE
/-!
# Model of `spacepackets/ccsds/spacepacket.py` (header, packet id, sequence control, generic packet)

Arithmetic normal form: `x << k | y` on disjoint bit ranges is `x * 2^k + y`; `(x >> k) & m` is
`x / 2^k % (m+1)`. The equivalence on the octet / 16-bit word domain is part of what the
correspondence check establishes exhaustively (DESIGN.md §4).
-/
namespace SpVerif.SpacePacket

/-- `PacketId.raw()` -/
def pidRaw (ptype shf apid : Nat) : Nat := ptype * 4096 + shf * 2048 + apid
/-- `PacketSeqCtrl.raw()` -/
def pscRaw (flags count : Nat) : Nat := flags * 16384 + count

structure PacketId where
  ptype : Nat
  shf : Nat
  apid : Nat
deriving DecidableEq, Repr

structure Psc where
  flags : Nat
  count : Nat
deriving DecidableEq, Repr

/-- `PacketId(ptype, sec_header_flag, apid)`: ValueError on APID out of range. -/
def PacketId.new (ptype shf : Nat) (apid : Int) : Py PacketId :=
  if apid > 2047 ∨ apid < 0 then .error .value else .ok ⟨ptype, shf, apid.toNat⟩
def PacketId.raw (p : PacketId) : Nat := pidRaw p.ptype p.shf p.apid
/-- `PacketId.from_raw(raw)` (for `raw ≥ 0`) -/
def PacketId.fromRaw (raw : Nat) : PacketId := ⟨raw / 4096 % 2, raw / 2048 % 2, raw % 2048⟩

/-- `PacketSeqCtrl(seq_flags, seq_count)`: ValueError on count out of range. -/
def Psc.new (flags : Nat) (count : Int) : Py Psc :=
  if count > 16383 ∨ count < 0 then .error .value else .ok ⟨flags, count.toNat⟩
def Psc.raw (p : Psc) : Nat := pscRaw p.flags p.count
/-- `PacketSeqCtrl.from_raw(raw)`: `raw & ~0xC000` keeps all bits above bit 15 as well, so for a
    raw value beyond 16 bits the count exceeds its range and the constructor raises. -/
def Psc.fromRaw (raw : Nat) : Py Psc :=
  Psc.new (raw / 16384 % 4) (((raw / 65536 * 65536 + raw % 16384 : Nat) : Int))

structure Sph where
  version : Nat
  ptype : Nat
  shf : Nat
  apid : Nat
  flags : Nat
  count : Nat
  dlen : Nat
deriving DecidableEq, Repr

/-- `SpacePacketHeader(...)`: the three range checks, in the order the constructor performs them. -/
def Sph.new (version ptype shf : Nat) (apid : Int) (flags : Nat) (count dlen : Int) : Py Sph :=
  if dlen > 65535 ∨ dlen < 0 then .error .value
  else if apid > 2047 ∨ apid < 0 then .error .value
  else if count > 16383 ∨ count < 0 then .error .value
  else .ok ⟨version, ptype, shf, apid.toNat, flags, count.toNat, dlen.toNat⟩

/-- the constructor on natural numbers -/
theorem Sph.new_nat (v t s f a c d : Nat) :
    Sph.new v t s (a : Int) f (c : Int) (d : Int) =
      if 65535 < d ∨ 2047 < a ∨ 16383 < c then .error .value else .ok ⟨v, t, s, a, f, c, d⟩ := by
  unfold Sph.new
  by_cases h1 : 65535 < d
  · have : (d : Int) > 65535 ∨ (d : Int) < 0 := by omega
    simp [this, h1]
  · have g1 : ¬ ((d : Int) > 65535 ∨ (d : Int) < 0) := by omega
    by_cases h2 : 2047 < a
    · have : (a : Int) > 2047 ∨ (a : Int) < 0 := by omega
      simp [g1, this, h2]
    · have g2 : ¬ ((a : Int) > 2047 ∨ (a : Int) < 0) := by omega
      by_cases h3 : 16383 < c
      · have : (c : Int) > 16383 ∨ (c : Int) < 0 := by omega
        simp [g1, g2, this, h3]
      · have g3 : ¬ ((c : Int) > 16383 ∨ (c : Int) < 0) := by omega
        simp [g1, g2, g3, h1, h2, h3]

theorem Psc.new_nat (f c : Nat) :
    Psc.new f (c : Int) = if 16383 < c then .error .value else .ok ⟨f, c⟩ := by
  unfold Psc.new
  by_cases h3 : 16383 < c
  · have : (c : Int) > 16383 ∨ (c : Int) < 0 := by omega
    simp [this, h3]
  · have g3 : ¬ ((c : Int) > 16383 ∨ (c : Int) < 0) := by omega
    simp [g3, h3]

/-- `SpacePacketHeader.pack()` -/
def Sph.pack (h : Sph) : Py Bytes := do
  let w0 ← packBE 2 (h.version * 8192 + pidRaw h.ptype h.shf h.apid)
  let w1 ← packBE 2 (pscRaw h.flags h.count)
  let w2 ← packBE 2 h.dlen
  pure (w0 ++ w1 ++ w2)

/-- `SpacePacketHeader.packet_len` -/
def Sph.packetLen (h : Sph) : Nat := 6 + h.dlen + 1

/-- `SpacePacketHeader.unpack(data)` -/
def Sph.unpack (d : Bytes) : Py Sph := do
  if d.length < 6 then throw .value
  let d0 ← idx d 0
  let d1 ← idx d 1
  let psc ← unpackBE 2 (slice d 2 4)
  let dl ← unpackBE 2 (slice d 4 6)
  Sph.new (d0 / 32 % 8) (d0 / 16 % 2) (d0 / 8 % 2) ((d0 % 8 * 256 + d1 : Nat) : Int)
    (psc / 16384) ((psc % 16384 : Nat) : Int) ((dl : Nat) : Int)

/-- `get_space_packet_id_bytes` -/
def idBytes (version ptype shf apid : Nat) : Nat × Nat :=
  (version % 8 * 32 + ptype % 2 * 16 + shf % 2 * 8 + apid / 256 % 8, apid % 256)

/-- `get_apid_from_raw_space_packet` -/
def apidFromRaw (d : Bytes) : Py Nat := do
  if d.length < 6 then throw .value
  let d0 ← idx d 0
  let d1 ← idx d 1
  pure (d0 % 8 * 256 + d1)

/-- `get_total_space_packet_len_from_len_field` -/
def totalLenFromLenField (lenField : Nat) : Nat := lenField + 6 + 1

/-- `SpacePacket(sp_header, sec_header, user_data).pack()` -/
def spPack (h : Sph) (sec user : Option Bytes) : Py Bytes := do
  let hdr ← h.pack
  let p1 ←
    if h.shf ≠ 0 then
      match sec with
      | none => throw .value
      | some s => pure (hdr ++ s)
    else
      match user with
      | none => throw .value
      | some _ => pure hdr
  match user with
  | none => pure p1
  | some u => pure (p1 ++ u)

end SpVerif.SpacePacket
