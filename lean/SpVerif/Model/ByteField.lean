import SpVerif.BE
/-!
# Model of `spacepackets/util.py`: `IntByteConversion`, `UnsignedByteField`, `ByteFieldEmpty`,
`ByteFieldU8/U16/U32/U64`, `ByteFieldGenerator`

Python integers enter as `Int` wherever the code has to refuse negative values or widths
(constructors, setters, the two conversion helpers); stored values are `Nat` (the constructor
guards establish `0 ≤ value`).

A field is modelled with the three attributes the object really stores — `_byte_len`, `_val` and
the cached octets `_val_as_bytes` — so that "all views stay in step" is a statement (an invariant
over every history of assignments), not a definition.

Failure modes: `ValueError` (`.value`) for every refusal the code performs itself;
`struct.error` (`.struct`) for `struct.pack` of an out-of-range integer — reachable from outside
only through `IntByteConversion.to_unsigned(n, v)` with `v < 0`; `IndexError` (`.index`) for
`stream[0]` (guarded in `from_u8_bytes`).
-/
namespace SpVerif.ByteField

/-- `byte_len in [0, 1, 2, 4, 8]` (`verify_byte_len`, `to_signed`, `to_unsigned`) -/
def okWidth (n : Int) : Prop := n = 0 ∨ n = 1 ∨ n = 2 ∨ n = 4 ∨ n = 8

instance (n : Int) : Decidable (okWidth n) := by unfold okWidth; infer_instance

/-- `IntByteConversion.unsigned_struct_specifier(n)` / `signed_struct_specifier(n)`:
    `ValueError` unless `n ∈ {1, 2, 4, 8}`; the result stands for the format of that many octets. -/
def structSpec (n : Int) : Py Nat :=
  if n = 1 ∨ n = 2 ∨ n = 4 ∨ n = 8 then .ok n.toNat else .error .value

/-- `struct.pack("!B" / "!H" / "!I" / "!Q", v)`: `struct.error` iff `v ∉ [0, 256^n)`. -/
def packU (n : Nat) (v : Int) : Py Bytes :=
  if 0 ≤ v then packBE n v.toNat else .error .struct

/-- `struct.pack("!b" / "!h" / "!i" / "!q", v)`: `struct.error` iff `v ∉ [-256^n/2, 256^n/2)`;
    otherwise the big-endian two's-complement octets, i.e. the unsigned encoding of `v mod 256^n`. -/
def packS (n : Nat) (v : Int) : Py Bytes :=
  if -((256 ^ n / 2 : Nat) : Int) ≤ v ∧ v < ((256 ^ n / 2 : Nat) : Int)
  then .ok (beBytes n (v % ((256 ^ n : Nat) : Int)).toNat)
  else .error .struct

/-- `struct.unpack("!b" / "!h" / "!i" / "!q", b)[0]` on exactly `n` octets: two's complement. -/
def unpackS (n : Nat) (b : Bytes) : Py Int :=
  if b.length = n then
    .ok (if beNat b < 256 ^ n / 2 then (beNat b : Int) else (beNat b : Int) - ((256 ^ n : Nat) : Int))
  else .error .struct

/-- `IntByteConversion.to_signed(byte_num, val)` -/
def toSigned (byteNum : Int) (v : Int) : Py Bytes :=
  if ¬ okWidth byteNum then .error .value
  else if byteNum = 0 then .ok []
  -- abs(val) > 2^(8n-1) - 1
  else if (v.natAbs : Int) > ((256 ^ byteNum.toNat / 2 : Nat) : Int) - 1 then .error .value
  else do
    let k ← structSpec byteNum
    packS k v

/-- `IntByteConversion.to_unsigned(byte_num, val)` — no guard against negative values: those reach
    `struct.pack` (`struct.error`); with `byte_num = 0` every value gives `b""`. -/
def toUnsigned (byteNum : Int) (v : Int) : Py Bytes :=
  if ¬ okWidth byteNum then .error .value
  else if byteNum = 0 then .ok []
  else if v > ((256 ^ byteNum.toNat : Nat) : Int) - 1 then .error .value
  else do
    let k ← structSpec byteNum
    packU k v

/-- the three stored attributes of an `UnsignedByteField` -/
structure Field where
  width : Nat      -- `_byte_len`
  value : Nat      -- `_val`
  bytes : Bytes    -- `_val_as_bytes`
deriving DecidableEq, Repr

/-- `_verify_int_value` -/
def verifyInt (w : Nat) (v : Int) : Py Unit :=
  if v > ((256 ^ w : Nat) : Int) - 1 ∨ v < 0 then .error .value else .ok ()

/-- `_verify_bytes_value`: too short → ValueError; first `w` octets, big-endian. -/
def verifyBytes (w : Nat) (raw : Bytes) : Py (Nat × Bytes) :=
  if raw.length < w then .error .value
  else do
    let k ← structSpec (w : Int)
    let iv ← unpackBE k (slice raw 0 w)
    verifyInt w (iv : Int)
    pure (iv, slice raw 0 w)

/-- `field.value = <int>` -/
def Field.setInt (f : Field) (v : Int) : Py Field := do
  verifyInt f.width v
  let b ← toUnsigned (f.width : Int) v
  pure { f with value := v.toNat, bytes := b }

/-- `field.value = <bytes | bytearray>` -/
def Field.setBytes (f : Field) (raw : Bytes) : Py Field := do
  let (v, b) ← verifyBytes f.width raw
  pure { f with value := v, bytes := b }

/-- `UnsignedByteField(val, byte_len)`: width check, value setter (integer branch), then the
    octets are computed once more. -/
def Field.new (val : Int) (byteLen : Int) : Py Field :=
  if ¬ okWidth byteLen then .error .value
  else do
    verifyInt byteLen.toNat val
    let _ ← toUnsigned byteLen val
    let b ← toUnsigned byteLen val
    pure ⟨byteLen.toNat, val.toNat, b⟩

/-- `ByteFieldEmpty(val=0)` — the argument is the *byte length*, the value is 0. -/
def emptyNew (byteLen : Int) : Py Field := Field.new 0 byteLen
/-- `ByteFieldU8(val)` … `ByteFieldU64(val)` -/
def u8New (val : Int) : Py Field := Field.new val 1
def u16New (val : Int) : Py Field := Field.new val 2
def u32New (val : Int) : Py Field := Field.new val 4
def u64New (val : Int) : Py Field := Field.new val 8

/-- `UnsignedByteField.from_bytes(raw)`: the whole string, whose length must be 1, 2, 4 or 8. -/
def fromBytes (raw : Bytes) : Py Field := do
  let k ← structSpec (raw.length : Int)
  let v ← unpackBE k raw
  Field.new (v : Int) (raw.length : Int)

/-- `ByteFieldU8.from_u8_bytes(stream)` -/
def fromU8Bytes (stream : Bytes) : Py Field :=
  if stream.length < 1 then .error .value
  else do
    let x ← idx stream 0
    u8New (x : Int)

/-- `ByteFieldU16.from_u16_bytes(stream)` -/
def fromU16Bytes (stream : Bytes) : Py Field :=
  if stream.length < 2 then .error .value
  else do
    let k ← structSpec 2
    let v ← unpackBE k (slice stream 0 2)
    u16New (v : Int)

/-- `ByteFieldU32.from_u32_bytes(stream)` -/
def fromU32Bytes (stream : Bytes) : Py Field :=
  if stream.length < 4 then .error .value
  else do
    let k ← structSpec 4
    let v ← unpackBE k (slice stream 0 4)
    u32New (v : Int)

/-- `ByteFieldU64.from_u64_bytes(stream)` -/
def fromU64Bytes (stream : Bytes) : Py Field :=
  if stream.length < 8 then .error .value
  else do
    let k ← structSpec 8
    let v ← unpackBE k (slice stream 0 8)
    u64New (v : Int)

/-- `ByteFieldGenerator.from_int(byte_len, val)` -/
def genFromInt (byteLen : Int) (val : Int) : Py Field :=
  if byteLen = 1 then u8New val
  else if byteLen = 2 then u16New val
  else if byteLen = 4 then u32New val
  else if byteLen = 8 then u64New val
  else .error .value

/-- `ByteFieldGenerator.from_bytes(byte_len, stream)` -/
def genFromBytes (byteLen : Int) (stream : Bytes) : Py Field :=
  if byteLen = 1 then fromU8Bytes stream
  else if byteLen = 2 then fromU16Bytes stream
  else if byteLen = 4 then fromU32Bytes stream
  else if byteLen = 8 then fromU64Bytes stream
  else .error .value

/-- `int(field)` / `field.value` -/
def Field.intView (f : Field) : Nat := f.value
/-- `len(field)` / `field.byte_len` -/
def Field.lenView (f : Field) : Nat := f.width
/-- `field.as_bytes` -/
def Field.asBytes (f : Field) : Bytes := f.bytes

/-- `field == other_field` -/
def Field.beq (f g : Field) : Bool := f.value == g.value && f.width == g.width
/-- `field == <bytes>` -/
def Field.eqBytes (f : Field) (b : Bytes) : Bool := f.bytes == b
/-- the tuple `__hash__` hashes -/
def Field.hashKey (f : Field) : Nat × Nat := (f.value, f.width)

/-- one lower-case hexadecimal digit -/
def hexDigit (n : Nat) : Char :=
  if n < 10 then Char.ofNat (48 + n) else Char.ofNat (87 + n)

/-- exactly `k` hexadecimal digits of `v`, most significant first -/
def hexFixed : Nat → Nat → List Char
  | 0, _ => []
  | k+1, v => hexFixed k (v / 16) ++ [hexDigit (v % 16)]

/-- `f"{v:#0{k+2}x}"`: `0x`, then at least `k` digits (zero padded). -/
def fmtHex (k v : Nat) : String :=
  String.ofList ('0' :: 'x' :: (if v < 16 ^ k then hexFixed k v else (Nat.toDigits 16 v)))

/-- `field.hex_str` (`None` for the empty field) -/
def Field.hexStr (f : Field) : Option String :=
  if f.width = 1 ∨ f.width = 2 ∨ f.width = 4 ∨ f.width = 8 then some (fmtHex (2 * f.width) f.value)
  else none

/-- two lower-case hexadecimal digits per octet (`bytes.hex()`) -/
def hexOfBytes (b : Bytes) : List Char :=
  b.flatMap fun x => [hexDigit (x.toNat / 16), hexDigit (x.toNat % 16)]

/-- an assignment to `field.value` -/
inductive Assign
  | int (v : Int)
  | octets (raw : Bytes)
deriving Repr

/-- one assignment; a refused assignment leaves the object as it was -/
def Field.assign (f : Field) : Assign → Py Field
  | .int v => f.setInt v
  | .octets raw => f.setBytes raw

/-- state after an assignment attempt (unchanged when it raised) -/
def Field.after (f : Field) (a : Assign) : Field :=
  match f.assign a with
  | .ok g => g
  | .error _ => f

/-- the outcomes and states of a whole history of assignments -/
def Field.trace (f : Field) : List Assign → List (Py Field × Field)
  | [] => []
  | a :: rest => (f.assign a, f.after a) :: (f.after a).trace rest

/-- final state of a history -/
def Field.run (f : Field) (l : List Assign) : Field := l.foldl Field.after f

end SpVerif.ByteField
