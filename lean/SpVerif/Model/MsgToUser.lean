import SpVerif.BE
import SpVerif.Model.Lv
import SpVerif.Model.Tlv
import SpVerif.Model.ByteField
/-!
# Model of the reserved-message part of `spacepackets/cfdp/tlv/msg_to_user.py`
(CCSDS 727.0-B-5 §6.1 "reserved CFDP messages": proxy operations §6.2, directory operations §6.3,
originating transaction ID §6.2.x) and of `TransactionId` (`cfdp/defs.py`)

`MessageToUserTlv` itself (constructor, `pack`, `unpack`, `from_tlv`, `is_reserved_cfdp_message`) is in
`Model/Tlv.lean`; this file adds `to_reserved_msg_tlv`, `ReservedCfdpMessage` with its
classification methods and the eight `get_*` parsers, and the nine builder subclasses
(`ProxyPutRequest`, `ProxyCancelRequest`, `ProxyClosureRequest`, `ProxyTransmissionMode`,
`OriginatingTransactionId`, `DirectoryListingRequest`, `DirectoryListingResponse`,
`DirectoryListingParameters`, `ProxyPutResponse`).

Conventions
* Entity IDs / sequence numbers are `ByteField.Field` objects (width, value, cached octets).
* File and directory names are `CfdpLv` objects, i.e. octet strings (the library's API takes LVs);
  the `*_as_str` accessors are `bytes.decode()` = `decodeUtf8` (identity on well-formed UTF-8).
* Enumeration-valued parameters are natural numbers (the `IntEnum` value; the constructors do not
  validate them); `ConditionCode` is an `Int` because of `NO_CONDITION_FIELD = -1`.
* Failure modes are those of the code as it is: every getter that reads `value[5]` first refuses
  a value of fewer than six octets with `ValueError`; `ReservedCfdpMessage(msg_type, …)` refuses a
  message type outside 0..255 with `ValueError`.
-/
namespace SpVerif.MsgToUser
open SpVerif SpVerif.Lv SpVerif.Tlv SpVerif.ByteField

/-! ## enumerations (`tlv/defs.py`, `cfdp/defs.py`), table-synchronised on every run -/

/-- `ProxyMessageType` member values -/
def proxyTypes : List Nat := [0, 1, 2, 3, 4, 5, 6, 7, 8, 9, 11]
def pPutRequest : Nat := 0
def pTransmissionMode : Nat := 4
def pPutResponse : Nat := 7
def pPutCancel : Nat := 9
def pClosureRequest : Nat := 11
/-- `ORIGINATING_TRANSACTION_ID_MSG_TYPE_ID` -/
def origIdType : Nat := 10
/-- `DirectoryOperationMessageType` member values -/
def dirOpTypes : List Nat := [16, 17, 21]
def dListingRequest : Nat := 16
def dListingResponse : Nat := 17
def dCustomListingParameters : Nat := 21
/-- non-negative member values of `ConditionCode` -/
def conditionCodes : List Nat := [0, 1, 2, 3, 4, 5, 6, 7, 8, 10, 11, 14, 15]

/-- `"cfdp".encode()` -/
def cfdpMarker : Bytes := [0x63, 0x66, 0x64, 0x70]

/-! ## `TransactionId` (`cfdp/defs.py`) -/

structure TransactionId where
  sourceId : Field
  seqNum : Field
deriving DecidableEq, Repr

/-- `TransactionId.__eq__`: the two *values* (widths are not compared) -/
def TransactionId.beq (a b : TransactionId) : Bool :=
  a.sourceId.value == b.sourceId.value && a.seqNum.value == b.seqNum.value
/-- the tuple `TransactionId.__hash__` hashes -/
def TransactionId.hashKey (a : TransactionId) : Nat × Nat := (a.sourceId.value, a.seqNum.value)

/-! ## parameter records -/

structure ProxyPutRequestParams where
  destEntityId : Field
  sourceFileName : CfdpLv
  destFileName : CfdpLv
deriving DecidableEq, Repr

/-- `source_file_as_str` / `dest_file_as_str` (`UnicodeDecodeError` is a `ValueError`) -/
def ProxyPutRequestParams.sourceFileAsStr (p : ProxyPutRequestParams) : Py Bytes :=
  decodeUtf8 p.sourceFileName.value
def ProxyPutRequestParams.destFileAsStr (p : ProxyPutRequestParams) : Py Bytes :=
  decodeUtf8 p.destFileName.value

structure DirectoryParams where
  dirPath : CfdpLv
  dirFileName : CfdpLv
deriving DecidableEq, Repr

/-- `DirectoryParams.from_strs` (strings = their UTF-8 octets) -/
def DirectoryParams.fromStrs (path name : Bytes) : Py DirectoryParams := do
  let a ← CfdpLv.new path
  let b ← CfdpLv.new name
  pure ⟨a, b⟩
def DirectoryParams.dirPathAsStr (p : DirectoryParams) : Py Bytes := decodeUtf8 p.dirPath.value
def DirectoryParams.dirFileNameAsStr (p : DirectoryParams) : Py Bytes := decodeUtf8 p.dirFileName.value

/-- `DirListingOptions(recursive, all)`: booleans on the way in (`True` = 1), the integers
    `(v >> 1) & 1`, `v & 1` on the way out -/
structure DirListingOptions where
  recursive : Nat
  all : Nat
deriving DecidableEq, Repr

structure ProxyPutResponseParams where
  conditionCode : Int
  deliveryCode : Nat
  fileStatus : Nat
deriving DecidableEq, Repr

/-- `ProxyPutResponseParams.from_finished_params`: copies the three codes of the Finished PDU -/
def ProxyPutResponseParams.fromFinishedParams (cc : Int) (dc fs : Nat) : ProxyPutResponseParams :=
  ⟨cc, dc, fs⟩

/-! ## `ReservedCfdpMessage` -/

structure ReservedCfdpMessage where
  tlv : CfdpTlv
deriving DecidableEq, Repr

/-- `ReservedCfdpMessage(msg_type, value)`: `ValueError` unless `0 ≤ msg_type ≤ 255`, then
    `"cfdp"`, `bytearray.append(msg_type)`, the value; the TLV constructor refuses more than 255 octets -/
def ReservedCfdpMessage.new (msgType : Int) (value : Bytes) : Py ReservedCfdpMessage := do
  if msgType < 0 ∨ msgType > 255 then throw .value
  let b ← byteOf msgType
  let t ← CfdpTlv.new tMsgToUser (cfdpMarker ++ b :: value)
  pure ⟨t⟩

def ReservedCfdpMessage.pack (r : ReservedCfdpMessage) : Py Bytes := r.tlv.pack
def ReservedCfdpMessage.packetLen (r : ReservedCfdpMessage) : Nat := r.tlv.packetLen
def ReservedCfdpMessage.tlvType (r : ReservedCfdpMessage) : Nat := r.tlv.ttype
def ReservedCfdpMessage.value (r : ReservedCfdpMessage) : Bytes := r.tlv.value
/-- `to_generic_msg_to_user_tlv()` -/
def ReservedCfdpMessage.toGenericMsgToUserTlv (r : ReservedCfdpMessage) : Py MessageToUserTlv :=
  MessageToUserTlv.fromTlv r.tlv

/-- `MessageToUserTlv.to_reserved_msg_tlv()`: `None` unless reserved; otherwise a new
    `ReservedCfdpMessage(value[4], value[5:])` -/
def toReservedMsgTlv (m : MessageToUserTlv) : Py (Option ReservedCfdpMessage) :=
  if ¬ m.isReservedCfdpMessage then pure none
  else do
    let t ← idx m.tlv.value 4
    let r ← ReservedCfdpMessage.new (t : Int) (m.tlv.value.drop 5)
    pure (some r)

/-- `get_reserved_cfdp_message_type()`: `value[4]` -/
def ReservedCfdpMessage.msgType (r : ReservedCfdpMessage) : Py Nat := idx r.tlv.value 4

/-- `is_cfdp_proxy_operation()`: `ProxyMessageType(type)` does not raise -/
def ReservedCfdpMessage.isCfdpProxyOperation (r : ReservedCfdpMessage) : Py Bool := do
  let t ← r.msgType
  pure (decide (t ∈ proxyTypes))

/-- `is_directory_operation()` -/
def ReservedCfdpMessage.isDirectoryOperation (r : ReservedCfdpMessage) : Py Bool := do
  let t ← r.msgType
  pure (decide (t ∈ dirOpTypes))

/-- `is_originating_transaction_id()` -/
def ReservedCfdpMessage.isOriginatingTransactionId (r : ReservedCfdpMessage) : Py Bool := do
  let t ← r.msgType
  pure (decide (t = origIdType))

/-- `get_cfdp_proxy_message_type()` -/
def ReservedCfdpMessage.getCfdpProxyMessageType (r : ReservedCfdpMessage) : Py (Option Nat) := do
  let t ← r.msgType
  if t ∈ proxyTypes then pure (some t) else pure none

/-- `get_directory_operation_type()` -/
def ReservedCfdpMessage.getDirectoryOperationType (r : ReservedCfdpMessage) : Py (Option Nat) := do
  let t ← r.msgType
  if t ∈ dirOpTypes then pure (some t) else pure none

/-- `get_originating_transaction_id()`. The second length guard of the code counts from 0 although
    the fields start at index 6: `len(value) < source_id_len + seq_num_len + 1` admits values whose
    last field is cut short (the slices then have fewer octets and `from_bytes` decides). -/
def ReservedCfdpMessage.getOriginatingTransactionId (r : ReservedCfdpMessage) :
    Py (Option TransactionId) := do
  let t ← r.msgType
  if t ≠ origIdType then pure none
  else
    let v := r.tlv.value
    if v.length < 6 then throw .value
    let b ← idx v 5
    let sl := b / 16 % 8 + 1
    let ql := b % 8 + 1
    if v.length < sl + ql + 1 then throw .value
    let src ← fromBytes (slice v 6 (6 + sl))
    let seq ← fromBytes (slice v (6 + sl) (6 + sl + ql))
    pure (some ⟨src, seq⟩)

/-- `get_proxy_put_request_params()`: three consecutive LVs from index 5; `None` when the value
    ends right after the first or the second LV -/
def ReservedCfdpMessage.getProxyPutRequestParams (r : ReservedCfdpMessage) :
    Py (Option ProxyPutRequestParams) := do
  let t ← r.msgType
  if t ∉ proxyTypes ∨ t ≠ pPutRequest then pure none
  else
    let v := r.tlv.value
    let destIdLv ← CfdpLv.unpack (v.drop 5)
    let i1 := 5 + destIdLv.packetLen
    if i1 ≥ v.length then pure none
    else
      let srcLv ← CfdpLv.unpack (v.drop i1)
      let i2 := i1 + srcLv.packetLen
      if i2 ≥ v.length then pure none
      else
        let dstLv ← CfdpLv.unpack (v.drop i2)
        let ident ← fromBytes destIdLv.value
        pure (some ⟨ident, srcLv, dstLv⟩)

/-- `get_proxy_put_response_params()`: `ConditionCode(v >> 4 & 15)` (a `ValueError` for the three
    unassigned codes), `DeliveryCode(v >> 2 & 1)`, `FileStatus(v & 3)` -/
def ReservedCfdpMessage.getProxyPutResponseParams (r : ReservedCfdpMessage) :
    Py (Option ProxyPutResponseParams) := do
  let t ← r.msgType
  if t ∉ proxyTypes ∨ t ≠ pPutResponse then pure none
  else
    if r.tlv.value.length < 6 then throw .value
    let b ← idx r.tlv.value 5
    let cc ← enumOf conditionCodes (b / 16 % 16)
    pure (some ⟨(cc : Int), b / 4 % 2, b % 4⟩)

/-- `get_proxy_closure_requested()`: the integer `value[5] & 1` -/
def ReservedCfdpMessage.getProxyClosureRequested (r : ReservedCfdpMessage) : Py (Option Nat) := do
  let t ← r.msgType
  if t ∉ proxyTypes ∨ t ≠ pClosureRequest then pure none
  else
    if r.tlv.value.length < 6 then throw .value
    let b ← idx r.tlv.value 5
    pure (some (b % 2))

/-- `get_proxy_transmission_mode()`: `TransmissionMode(value[5] & 1)` -/
def ReservedCfdpMessage.getProxyTransmissionMode (r : ReservedCfdpMessage) : Py (Option Nat) := do
  let t ← r.msgType
  if t ∉ proxyTypes ∨ t ≠ pTransmissionMode then pure none
  else
    if r.tlv.value.length < 6 then throw .value
    let b ← idx r.tlv.value 5
    pure (some (b % 2))

/-- `get_dir_listing_request_params()`: two consecutive LVs from index 5 -/
def ReservedCfdpMessage.getDirListingRequestParams (r : ReservedCfdpMessage) :
    Py (Option DirectoryParams) := do
  let t ← r.msgType
  if t ∉ dirOpTypes ∨ t ≠ dListingRequest then pure none
  else
    let v := r.tlv.value
    let pathLv ← CfdpLv.unpack (v.drop 5)
    let nameLv ← CfdpLv.unpack (v.drop (5 + pathLv.packetLen))
    pure (some ⟨pathLv, nameLv⟩)

/-- `get_dir_listing_response_params()`: flag octet (`value[5] >> 7`), two consecutive LVs from index 6 -/
def ReservedCfdpMessage.getDirListingResponseParams (r : ReservedCfdpMessage) :
    Py (Option (Bool × DirectoryParams)) := do
  let t ← r.msgType
  if t ∉ dirOpTypes ∨ t ≠ dListingResponse then pure none
  else
    let v := r.tlv.value
    if v.length < 6 then throw .value
    let b ← idx v 5
    let pathLv ← CfdpLv.unpack (v.drop 6)
    let nameLv ← CfdpLv.unpack (v.drop (6 + pathLv.packetLen))
    pure (some (b / 128 % 2 == 1, ⟨pathLv, nameLv⟩))

/-- `get_dir_listing_options()`: `DirListingOptions(v >> 1 & 1, v & 1)` -/
def ReservedCfdpMessage.getDirListingOptions (r : ReservedCfdpMessage) : Py (Option DirListingOptions) := do
  let t ← r.msgType
  if t ∉ dirOpTypes ∨ t ≠ dCustomListingParameters then pure none
  else
    let v := r.tlv.value
    if v.length < 6 then throw .value
    let b ← idx v 5
    pure (some ⟨b / 2 % 2, b % 2⟩)

/-! ## the nine builders -/

/-- `ProxyPutRequest(params)`: LV of the destination entity ID octets, source-name LV, destination-name LV -/
def ProxyPutRequest.new (p : ProxyPutRequestParams) : Py ReservedCfdpMessage := do
  let idLv ← CfdpLv.new p.destEntityId.asBytes
  let a ← idLv.pack
  let b ← p.sourceFileName.pack
  let c ← p.destFileName.pack
  ReservedCfdpMessage.new (pPutRequest : Nat) (a ++ b ++ c)

/-- `ProxyCancelRequest()` -/
def ProxyCancelRequest.new : Py ReservedCfdpMessage := ReservedCfdpMessage.new (pPutCancel : Nat) []

/-- `ProxyClosureRequest(closure_requested)`: `bytes([closure_requested])` (`True` = 1) -/
def ProxyClosureRequest.new (closureRequested : Nat) : Py ReservedCfdpMessage := do
  let b ← byteOfN closureRequested
  ReservedCfdpMessage.new (pClosureRequest : Nat) [b]

/-- `ProxyTransmissionMode(transmission_mode)`: `bytes([transmission_mode])` -/
def ProxyTransmissionMode.new (mode : Nat) : Py ReservedCfdpMessage := do
  let b ← byteOfN mode
  ReservedCfdpMessage.new (pTransmissionMode : Nat) [b]

/-- `OriginatingTransactionId(transaction_id)`: both widths must be 1, 2, 4 or 8; one octet
    `(source width - 1) << 4 | (sequence-number width - 1)`, then the two fields -/
def OriginatingTransactionId.new (tid : TransactionId) : Py ReservedCfdpMessage := do
  if tid.sourceId.width ∉ [1, 2, 4, 8] ∨ tid.seqNum.width ∉ [1, 2, 4, 8] then throw .value
  let b ← byteOfN (((tid.sourceId.width - 1) <<< 4) ||| (tid.seqNum.width - 1))
  ReservedCfdpMessage.new (origIdType : Nat) (b :: (tid.sourceId.asBytes ++ tid.seqNum.asBytes))

/-- `DirectoryListingRequest(params)` -/
def DirectoryListingRequest.new (p : DirectoryParams) : Py ReservedCfdpMessage := do
  let a ← p.dirPath.pack
  let b ← p.dirFileName.pack
  ReservedCfdpMessage.new (dListingRequest : Nat) (a ++ b)

/-- `DirectoryListingResponse(listing_success, dir_params)`: `bytes([listing_success << 7])`, two LVs -/
def DirectoryListingResponse.new (listingSuccess : Bool) (p : DirectoryParams) : Py ReservedCfdpMessage := do
  let f ← byteOfN ((if listingSuccess then 1 else 0) <<< 7)
  let a ← p.dirPath.pack
  let b ← p.dirFileName.pack
  ReservedCfdpMessage.new (dListingResponse : Nat) (f :: (a ++ b))

/-- `DirectoryListingParameters(options)`: `bytes([(recursive << 1) | all])` -/
def DirectoryListingParameters.new (o : DirListingOptions) : Py ReservedCfdpMessage := do
  let b ← byteOfN ((o.recursive <<< 1) ||| o.all)
  ReservedCfdpMessage.new (dCustomListingParameters : Nat) [b]

/-- `ProxyPutResponse(params)`: `bytes([(condition_code << 4) | (delivery_code << 2) | file_status])`
    (`NO_CONDITION_FIELD = -1` gives a negative octet: `ValueError`) -/
def ProxyPutResponse.new (p : ProxyPutResponseParams) : Py ReservedCfdpMessage := do
  if p.conditionCode < 0 then throw .value
  let b ← byteOfN (((p.conditionCode.toNat <<< 4) ||| (p.deliveryCode <<< 2)) ||| p.fileStatus)
  ReservedCfdpMessage.new (pPutResponse : Nat) [b]

end SpVerif.MsgToUser
