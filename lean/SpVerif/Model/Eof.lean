import SpVerif.Model.FileDirective
import SpVerif.Model.Tlv
/-!
# Model of `spacepackets/cfdp/pdu/eof.py` (EOF PDU, CCSDS 727.0-B-5 §5.2.2)

Parameters: condition code (upper nibble of the first parameter octet, lower nibble spare), file
checksum (4 octets), file size (one FSS field: 32 bits, 64 with the large-file flag) and an
optional fault location (entity-ID TLV). Always towards the receiver (0).

* `condition_code` is a Python `int` (`ConditionCode` incl. `NO_CONDITION_FIELD = -1`; the decoder
  stores the plain nibble): `bytearray.append(condition_code << 4)` is a `ValueError` outside 0..15.
* `file_size` is a Python `int`: `struct.pack("!I"/"!Q", …)` raises `struct.error` for a value that
  does not fit (there is no `_verify_file_len` call in `EofPdu.pack`).
* `file_checksum` is checked (4 octets) by the constructor only; `condition_code`, `file_checksum`
  and `file_size` are plain attributes (assignment updates nothing else), `fault_location` is a
  property whose setter recomputes the directive-parameter length.
* The decoder does not look at the directive-code octet; it parses only `data[:end_of_params]`
  (declared PDU without the CRC trailer); when a fault location is present the `fault_location`
  setter recomputes the data-field length from the decoded TLV.

Not modelled: `__repr__`, aliasing of the `PduConfig` / `EntityIdTlv` objects (C11).
-/
namespace SpVerif.Eof
open SpVerif SpVerif.CfdpHeader SpVerif.FileDirective SpVerif.Tlv

structure Eof where
  fd : FileDirective
  /-- `condition_code` -/
  cond : Int
  /-- `file_checksum` -/
  checksum : Bytes
  /-- `file_size` -/
  fileSize : Int
  /-- `fault_location` -/
  faultLoc : Option EntityIdTlv
deriving DecidableEq, Repr

/-- `_calculate_directive_param_field_len` (the length setter refuses a data field above 65 535) -/
def calcLen (fd : FileDirective) (fl : Option EntityIdTlv) : Py FileDirective :=
  let base := if fd.header.largeFileFlagSet then 13 else 9
  let base := match fl with
    | some t => base + t.packetLen
    | none => base
  fd.setParamLen (if fd.header.conf.crcFlag = 1 then base + 2 else base)

/-- `EofPdu(pdu_conf, file_checksum, file_size, fault_location, condition_code)` -/
def Eof.new (conf : PduConfig) (checksum : Bytes) (size : Int) (fl : Option EntityIdTlv) (cond : Int) :
    Py Eof := do
  if checksum.length ≠ 4 then throw .value
  let fd ← FileDirective.new { conf with direction := 0 } DIR_EOF 0
  let fd ← calcLen fd fl
  pure ⟨fd, cond, checksum, size, fl⟩

def Eof.packetLen (k : Eof) : Nat := k.fd.packetLen

/-- the `fault_location` setter -/
def Eof.setFaultLoc (k : Eof) (fl : Option EntityIdTlv) : Py Eof := do
  let fd ← calcLen k.fd fl
  pure { k with fd := fd, faultLoc := fl }

/-- plain attribute assignments -/
def Eof.setCond (k : Eof) (c : Int) : Eof := { k with cond := c }
def Eof.setChecksum (k : Eof) (c : Bytes) : Eof := { k with checksum := c }
def Eof.setFileSize (k : Eof) (s : Int) : Eof := { k with fileSize := s }

/-- `fault_location.pack()` if there is one -/
def packFaultLoc : Option EntityIdTlv → Py Bytes
  | some t => t.pack
  | none => pure []

/-- `pack()` -/
def Eof.pack (k : Eof) : Py Bytes := do
  let d ← k.fd.pack
  let c ← byteOf (k.cond * 16)
  let sz ← packInt (if k.fd.header.largeFileFlagSet then 8 else 4) k.fileSize
  let fl ← packFaultLoc k.faultLoc
  pure (withCrc k.fd.header.conf.crcFlag (d ++ [c] ++ k.checksum ++ sz ++ fl))

/-- `EofPdu.unpack(data)` -/
def Eof.unpack (data : Bytes) : Py Eof := do
  let fd ← FileDirective.unpack data
  let _ ← fd.verify data
  let data := data.take fd.paramsEnd
  if fd.headerLen + 9 > data.length then throw .value
  let i := fd.headerLen
  let b ← idx data i
  let checksum := slice data (i + 1) (i + 5)
  let (j, size) ← fd.parseFss data (i + 5)
  if data.length > j then
    let fl ← EntityIdTlv.unpack (data.drop j)
    let fd ← calcLen fd (some fl)
    pure ⟨fd, ((b / 16 % 16 : Nat) : Int), checksum, (size : Int), some fl⟩
  else
    pure ⟨fd, ((b / 16 % 16 : Nat) : Int), checksum, (size : Int), none⟩

/-- `a._fault_location == b._fault_location`: `None == None`; `None` against a TLV is `False`
    either way round; two TLVs go through `EntityIdTlv.__eq__` (numerical; `ValueError` for a width
    that is not 1, 2, 4 or 8) -/
def optEntityBeq : Option EntityIdTlv → Option EntityIdTlv → Py Bool
  | none, none => pure true
  | some a, some b => a.beq b
  | _, _ => pure false

/-- `__eq__` (`and` short-circuits) -/
def Eof.beq (a b : Eof) : Py Bool :=
  if ¬ a.fd.beq b.fd then pure false
  else if a.cond ≠ b.cond then pure false
  else if a.checksum ≠ b.checksum then pure false
  else if a.fileSize ≠ b.fileSize then pure false
  else optEntityBeq a.faultLoc b.faultLoc

end SpVerif.Eof
