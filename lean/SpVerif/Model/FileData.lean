import SpVerif.Model.CfdpHeader
/-!
# Model of `spacepackets/cfdp/pdu/file_data.py` (CFDP File Data PDU)

`SegmentMetadata`, `FileDataParams`, `FileDataPdu` (constructor, `_calculate_pdu_data_field_len`,
the `file_data` and `segment_metadata` setters, `pack`, `unpack`, `packet_len`, `__eq__`,
`get_max_file_seg_len_for_max_packet_len`) and the module function
`get_max_file_seg_len_for_max_packet_len_and_pdu_cfg`, on top of the header model.

A `FileDataPdu` object is the pair (header, params). Setters are state transitions
(`putX` = the assignment the setter performs, `recalc` = `_calculate_pdu_data_field_len`, which can
raise `ValueError` through the header's length setter). When the length is refused the setter
restores the old attribute value and re-raises, and the `segment_metadata` setter touches the
header flag only after the length check: a refused setter call leaves the whole object unchanged
(`Pdu.step` returns the old object together with the error). On an accepted call the order
"flag, then length" (`putSegMeta` then `recalc`) and the code's order "length, then flag" give the
same object, because `calcLen` does not read the flag.

Arithmetic normal form: `state << 6 | len` with `len ≤ 63` is `state * 64 + len`;
`(b & 0xC0) >> 6` is `b / 64 % 4`; `b & 0x3F` is `b % 64`.

Not modelled: negative offsets (`struct.pack` refuses them like too large ones; the statement's
domain is the 32/64-bit range), record-continuation states that are not non-negative integers,
aliasing of the caller's `FileDataParams` object (C11's subject; the model copies by value).
-/
namespace SpVerif.FileData
open SpVerif SpVerif.CfdpHeader

/-- `SegmentMetadata(record_cont_state, metadata)` -/
structure SegMeta where
  state : Nat
  metadata : Bytes
deriving DecidableEq, Repr

/-- `FileDataParams(file_data, offset, segment_metadata)` -/
structure Params where
  fileData : Bytes
  offset : Nat
  segMeta : Option SegMeta
deriving DecidableEq, Repr

/-- `FileDataParams.empty()` -/
def Params.empty : Params := ⟨[], 0, none⟩

/-- a `FileDataPdu` object: its `PduHeader` and its `FileDataParams` -/
structure Pdu where
  header : PduHeader
  params : Params
deriving DecidableEq, Repr

/-- members of `RecordContinuationState` -/
def recordContStates : List Nat := [0, 1, 2, 3]

/-- width of the offset field: 8 octets with the large-file flag, else 4 -/
def offWidth (h : PduHeader) : Nat := if h.largeFileFlagSet then 8 else 4

/-- octets the segment metadata occupies: none, or the (state, length) octet plus the metadata -/
def metaLen : Option SegMeta → Nat
  | none => 0
  | some m => 1 + m.metadata.length

/-- the value `_calculate_pdu_data_field_len` computes -/
def Pdu.calcLen (p : Pdu) : Nat :=
  metaLen p.params.segMeta + offWidth p.header + p.params.fileData.length
    + (if p.header.conf.crcFlag = 1 then 2 else 0)

/-- `_calculate_pdu_data_field_len()`: stores the value through the header's setter
    (`ValueError` above 65 535) -/
def Pdu.recalc (p : Pdu) : Py Pdu := do
  let h ← p.header.setDataFieldLen p.calcLen
  pure { p with header := h }

/-! ## setters as state transitions -/

/-- the assignment of the `file_data` setter -/
def Pdu.putFileData (p : Pdu) (d : Bytes) : Pdu :=
  { p with params := { p.params with fileData := d } }

/-- the assignments of the `segment_metadata` setter (params and the header flag) -/
def Pdu.putSegMeta (p : Pdu) (m : Option SegMeta) : Pdu :=
  { header := { p.header with segMeta := if m.isSome then 1 else 0 },
    params := { p.params with segMeta := m } }

/-- `pdu.file_data = d` -/
def Pdu.setFileData (p : Pdu) (d : Bytes) : Py Pdu := (p.putFileData d).recalc

/-- `pdu.segment_metadata = m` -/
def Pdu.setSegMeta (p : Pdu) (m : Option SegMeta) : Py Pdu := (p.putSegMeta m).recalc

/-- a call of one of the two documented setters -/
inductive Setter
  | fileData (d : Bytes)
  | segMeta (m : Option SegMeta)
deriving DecidableEq, Repr

def Pdu.put (p : Pdu) : Setter → Pdu
  | .fileData d => p.putFileData d
  | .segMeta m => p.putSegMeta m

/-- one setter call: the object state after the call and the exception raised, if any. When the
    length setter refuses, the setter rolls the assignment back: the object is unchanged. -/
def Pdu.step (p : Pdu) (s : Setter) : Pdu × Option Err :=
  match (p.put s).recalc with
  | .ok q => (q, none)
  | .error e => (p, some e)

/-- a whole sequence of setter calls: every intermediate state with the outcome of the call -/
def Pdu.trace (p : Pdu) : List Setter → List (Pdu × Option Err)
  | [] => []
  | s :: rest => (p.step s) :: (p.step s).1.trace rest

/-- the state after a whole sequence of setter calls -/
def Pdu.run (p : Pdu) (l : List Setter) : Pdu := l.foldl (fun q s => (q.step s).1) p

/-! ## constructor -/

/-- `FileDataPdu(pdu_conf, params)`: copies the configuration, forces the direction towards the
    receiver, sets the segment-metadata flag from the params, PDU type File Data, then computes the
    data-field length. -/
def Pdu.new (conf : PduConfig) (params : Params) : Py Pdu := do
  let conf' := { conf with direction := 0 }
  let flag := if params.segMeta.isSome then 1 else 0
  let h ← PduHeader.new 1 flag 0 conf'
  Pdu.recalc ⟨h, params⟩

/-- `packet_len` -/
def Pdu.packetLen (p : Pdu) : Nat := p.header.packetLen

/-! ## pack -/

/-- the segment-metadata part of `pack()`: nothing, or `state << 6 | len` (through
    `bytearray.append`) followed by the metadata; more than 63 octets → `ValueError` -/
def packMeta : Option SegMeta → Py Bytes
  | none => pure []
  | some m => do
    if m.metadata.length > 63 then throw .value
    let b ← byteOfN (m.state * 64 + m.metadata.length)
    pure (b :: m.metadata)

/-- everything before the optional CRC trailer -/
def Pdu.packBody (p : Pdu) : Py Bytes := do
  let hdr ← p.header.pack
  let md ← packMeta p.params.segMeta
  let off ← packBE (offWidth p.header) p.params.offset
  pure (hdr ++ md ++ off ++ p.params.fileData)

/-- `FileDataPdu.pack()` -/
def Pdu.pack (p : Pdu) : Py Bytes := do
  let body ← p.packBody
  if p.header.conf.crcFlag = 1 then pure (body ++ Crc.crcTrailer body) else pure body

/-! ## unpack -/

/-- the segment-metadata part of `unpack` on the working buffer `data` (already cut to the declared
    PDU without CRC trailer): the object so far and the index reached -/
def parseMeta (h : PduHeader) (data : Bytes) : Py (Pdu × Nat) :=
  let p0 : Pdu := ⟨h, Params.empty⟩
  let i0 := h.headerLen
  if h.segMeta ≠ 0 then do
    if i0 ≥ data.length then throw .value
    let b ← idx data i0
    let st ← enumOf recordContStates (b / 64 % 4)
    let ml := b % 64
    if i0 + 1 + ml ≥ data.length then throw .value
    let md := slice data (i0 + 1) (i0 + 1 + ml)
    let p ← p0.setSegMeta (some ⟨st, md⟩)
    pure (p, i0 + 1 + ml)
  else pure (p0, i0)

/-- offset and file data: the rest of `unpack` -/
def parseRest (p : Pdu) (i : Nat) (data : Bytes) : Py Pdu := do
  let w := offWidth p.header
  if i + w > data.length then throw .value
  let off ← unpackBE w (slice data i (i + w))
  let p2 : Pdu := { p with params := { p.params with offset := off } }
  p2.setFileData (sliceFrom data (i + w))

def parseBody (h : PduHeader) (data : Bytes) : Py Pdu := do
  let r ← parseMeta h data
  parseRest r.1 r.2 data

/-- where the PDU data ends: the declared PDU length minus the CRC trailer -/
def endOfData (h : PduHeader) (n : Nat) : Nat := if h.conf.crcFlag = 1 then n - 2 else n

/-- `FileDataPdu.unpack(data)`: header, `verify_length_and_checksum`, cut to the declared PDU
    without its CRC trailer, then metadata, offset, file data. (The PDU type bit is not checked.) -/
def Pdu.unpack (d : Bytes) : Py Pdu := do
  let h ← PduHeader.unpack d
  let n ← h.verifyLengthAndChecksum d
  parseBody h (slice d 0 (endOfData h n))

/-! ## equality -/

/-- `AbstractPduBase.__eq__` -/
def hdrBeq (a b : PduHeader) : Bool :=
  decide (a.pduType = b.pduType) && decide (a.conf.fileFlag = b.conf.fileFlag)
    && decide (a.conf.crcFlag = b.conf.crcFlag) && decide (a.conf.dest = b.conf.dest)
    && decide (a.conf.source = b.conf.source) && decide (a.packetLen = b.packetLen)

/-- `FileDataPdu.__eq__`: headers under `AbstractPduBase.__eq__`, params as dataclasses -/
def Pdu.beq (a b : Pdu) : Bool := hdrBeq a.header b.header && decide (a.params = b.params)

/-! ## maximum file segment length -/

/-- `get_max_file_seg_len_for_max_packet_len_and_pdu_cfg(pdu_conf, max_packet_len, segment_metadata)` -/
def maxFileSegLen (c : PduConfig) (maxPacketLen : Int) (m : Option SegMeta) : Py Nat :=
  let subtract := c.headerLen + metaLen m + (if c.fileFlag = 1 then 8 else 4)
    + (if c.crcFlag = 1 then 2 else 0)
  if maxPacketLen < (subtract : Int) then .error .value else .ok (maxPacketLen - (subtract : Int)).toNat

/-- `FileDataPdu.get_max_file_seg_len_for_max_packet_len(max_packet_len)` -/
def Pdu.maxFileSegLen (p : Pdu) (maxPacketLen : Int) : Py Nat :=
  FileData.maxFileSegLen p.header.conf maxPacketLen p.params.segMeta

end SpVerif.FileData
