import SpVerif.Model.SpacePacket
import SpVerif.Crc
/-!
# Model of `spacepackets/ecss/tc.py` (PUS-C telecommand) and `check_pus_crc`
-/
namespace SpVerif.PusTc
open SpVerif SpVerif.SpacePacket

/-- `PusTcDataFieldHeader` (PUS version is always PUS-C = 2) -/
structure TcSec where
  ack : Nat
  service : Nat
  subservice : Nat
  sourceId : Nat
deriving DecidableEq, Repr

/-- `PusTcDataFieldHeader.pack()`; `2 << 4 | ack` is `32 + ack` for `ack < 16` -/
def TcSec.pack (s : TcSec) : Py Bytes := do
  let b0 ← byteOfN (32 + s.ack)
  let b1 ← byteOfN s.service
  let b2 ← byteOfN s.subservice
  let src ← packBE 2 s.sourceId
  pure ([b0, b1, b2] ++ src)

/-- `PusTcDataFieldHeader.unpack(data)` -/
def TcSec.unpack (d : Bytes) : Py TcSec := do
  if d.length < 5 then throw .value
  let b0 ← idx d 0
  if b0 / 16 ≠ 2 then throw .value
  let svc ← idx d 1
  let sub ← idx d 2
  let src ← unpackBE 2 (slice d 3 5)
  pure ⟨b0 % 16, svc, sub, src⟩

structure Tc where
  sph : Sph
  sec : TcSec
  appData : Bytes
deriving DecidableEq, Repr

/-- `PusTc.get_data_length` -/
def dataLength (appDataLen secHdrLen : Nat) : Nat := secHdrLen + appDataLen + 1

/-- `PusTc(service, subservice, apid, app_data, seq_count, source_id, ack_flags)` -/
def Tc.new (service subservice : Nat) (apid : Int) (appData : Bytes) (count : Int)
    (sourceId ack : Nat) : Py Tc := do
  let sph ← Sph.new 0 1 1 apid 3 count ((dataLength appData.length 5 : Nat) : Int)
  pure ⟨sph, ⟨ack, service, subservice, sourceId⟩, appData⟩

/-- everything before the CRC trailer -/
def Tc.packNoCrc (t : Tc) : Py Bytes := do
  let h ← t.sph.pack
  let s ← t.sec.pack
  pure (h ++ s ++ t.appData)

/-- `PusTc.pack()` (with the default `recalc_crc=True`) -/
def Tc.pack (t : Tc) : Py Bytes := do
  let p ← t.packNoCrc
  pure (p ++ Crc.crcTrailer p)

/-- `PusTc.packet_len` -/
def Tc.packetLen (t : Tc) : Nat := t.sph.packetLen

/-- `PusTc.unpack(data)` (with the repaired minimum-length guard) -/
def Tc.unpack (d : Bytes) : Py Tc := do
  let sph ← Sph.unpack d
  let sec ← TcSec.unpack (d.drop 6)
  let n := sph.packetLen
  if d.length < n then throw .value
  if n < 6 + 5 + 2 then throw .value
  let app := slice d 11 (n - 2)
  if Crc.crc16 (d.take n) ≠ 0 then throw .crc
  pure ⟨sph, sec, app⟩

/-- `PusTc.to_space_packet().pack()` -/
def Tc.spacePacketPack (t : Tc) : Py Bytes := do
  let h ← t.sph.pack
  let s ← t.sec.pack
  let crc := Crc.crcTrailer (h ++ s ++ t.appData)
  spPack t.sph (some s) (some (t.appData ++ crc))

/-- `PusTc.__eq__` -/
def pyEq (x y : Py Bytes) : Bool :=
  match x, y with
  | .ok a, .ok b => decide (a = b)
  | _, _ => false

def Tc.beq (a b : Tc) : Bool :=
  pyEq a.sph.pack b.sph.pack && pyEq a.sec.pack b.sec.pack && decide (a.appData = b.appData)

/-- `app_data` setter -/
def Tc.setAppData (t : Tc) (d : Bytes) : Tc :=
  { t with appData := d, sph := { t.sph with dlen := dataLength d.length 5 } }

/-- `check_pus_crc(packet)` -/
def checkPusCrc (d : Bytes) : Bool := decide (Crc.crc16 d = 0)

end SpVerif.PusTc
