import SpVerif.Model.UslpHeader
/-!
# Model of `spacepackets/uslp/frame.py`

Transfer frame data field (TFDF), transfer frame, managed parameters (frame properties) and the
decoder `TransferFrame.unpack(raw_frame, frame_type, frame_properties)` with its chain of
subtractions deriving the data-field length (on `Int`: it can go negative and is then refused).
-/
namespace SpVerif.Uslp

/-- `USLP_TFDF_MAX_SIZE` -/
def tfdfMaxSize : Nat := 65529

/-- `FrameType`: FIXED = 0, VARIABLE = 1 -/
inductive FrameType
  | fixed
  | variable
deriving DecidableEq, Repr, Inhabited

/-- construction rules applicable to fixed-length frames (`0b000`, `0b001`, `0b010`) -/
def rulesForFp (rules : Nat) : Bool := rules == 0 || rules == 2 || rules == 1
/-- construction rules applicable to variable-length frames (`0b011` … `0b111`) -/
def rulesForVp (rules : Nat) : Bool := rules == 5 || rules == 6 || rules == 3 || rules == 7 || rules == 4

structure Tfdf where
  rules : Nat
  upid : Nat
  fhp : Option Nat
  tfdz : Bytes
deriving DecidableEq, Repr

/-- `TransferFrameDataField.header_len()` -/
def Tfdf.headerLen (t : Tfdf) : Nat := if t.fhp.isNone then 1 else 3

/-- `TransferFrameDataField.len()` (the size cached by the `tfdz` setter) -/
def Tfdf.len (t : Tfdf) : Nat := t.headerLen + t.tfdz.length

/-- `TransferFrameDataField(rules, upid, tfdz, fhp_or_lvop)`: `ValueError` when too large -/
def Tfdf.new (rules upid : Nat) (tfdz : Bytes) (fhp : Option Nat) : UPy Tfdf :=
  let t : Tfdf := ⟨rules, upid, fhp, tfdz⟩
  if t.len > tfdfMaxSize - t.headerLen then .error (.py .value) else .ok t

/-- `TransferFrameDataField.should_have_fhp_or_lvp_field(truncated, frame_type)` -/
def shouldHaveFhp (rules : Nat) (truncated : Bool) (ft : Option FrameType) : Bool :=
  if ft = some .variable then false
  else if !truncated && rulesForFp rules then true
  else false

/-- `TransferFrameDataField.verify_frame_type(frame_type)` -/
def verifyFrameType (rules : Nat) (ft : FrameType) : Bool :=
  match ft with
  | .fixed => rulesForFp rules
  | .variable => rulesForVp rules

/-- the frame type `pack` determines from the construction rule when none is passed -/
def autoFrameType (rules : Nat) : Option FrameType :=
  if rulesForFp rules then some .fixed else if rulesForVp rules then some .variable else none

/-- the frame type `pack` works with: the one passed, else the one determined from the rule -/
def effectiveFt (ft : Option FrameType) (rules : Nat) : Option FrameType :=
  match ft with
  | some f => some f
  | none => autoFrameType rules

/-- `TransferFrameDataField.pack(truncated, frame_type)` -/
def Tfdf.pack (t : Tfdf) (truncated : Bool) (ft : Option FrameType) : UPy Bytes := do
  let b0 ← liftPy (byteOfN ((32 * t.rules) ||| t.upid))
  let ft' := effectiveFt ft t.rules
  if shouldHaveFhp t.rules truncated ft' then
    match t.fhp with
    | none => throw (.uslp .fhpMissing)
    | some p =>
      let w ← liftPy (packBE 2 p)
      pure ([b0] ++ w ++ t.tfdz)
  else
    pure ([b0] ++ t.tfdz)

/-- `TransferFrameDataField.unpack(raw_tfdf, truncated, exact_len, frame_type)` (`exact_len ≥ 0`) -/
def Tfdf.unpack (raw : Bytes) (truncated : Bool) (exactLen : Nat) (ft : Option FrameType) : UPy Tfdf := do
  if raw.length < 1 then throw (.uslp .invalidLen)
  let r0 ← liftPy (idx raw 0)
  let rules := r0 / 32 % 8
  let upid := r0 % 32
  match ft with
  | some f => if !verifyFrameType rules f then throw (.uslp .invalidConstructionRules)
  | none => pure ()
  if shouldHaveFhp rules truncated ft then
    if raw.length < 3 ∨ exactLen < 3 then throw (.uslp .invalidLen)
    let r1 ← liftPy (idx raw 1)
    let r2 ← liftPy (idx raw 2)
    pure ⟨rules, upid, some (r1 * 256 + r2), slice raw 3 exactLen⟩
  else
    pure ⟨rules, upid, none, slice raw 1 exactLen⟩

/-! ## Transfer frame -/

inductive Header
  | truncated (h : TruncatedHeader)
  | primary (h : PrimaryHeader)
deriving DecidableEq, Repr

def Header.pack : Header → UPy Bytes
  | .truncated h => h.pack
  | .primary h => h.pack

def Header.len : Header → Nat
  | .truncated h => h.len
  | .primary h => h.len

/-- `header.truncated()` -/
def Header.isTruncated : Header → Bool
  | .truncated _ => true
  | .primary _ => false

/-- `header.op_ctrl_flag`: the truncated header class has no such attribute (`AttributeError`) -/
def Header.opCtrlFlag : Header → UPy Bool
  | .truncated _ => .error (.py .attr)
  | .primary h => .ok h.ocf

structure Frame where
  header : Header
  tfdf : Tfdf
  insertZone : Option Bytes
  ocf : Option Bytes
  fecf : Option Bytes
deriving DecidableEq, Repr

def optLen : Option Bytes → Nat
  | none => 0
  | some b => b.length

def optBytes : Option Bytes → Bytes
  | none => []
  | some b => b

/-- `TransferFrame.len()` -/
def Frame.len (f : Frame) : Nat :=
  f.header.len + f.tfdf.len + optLen f.insertZone + optLen f.ocf + optLen f.fecf

/-- `TransferFrame.pack(truncated, frame_type)` -/
def Frame.pack (f : Frame) (truncated : Bool) (ft : Option FrameType) : UPy Bytes := do
  let hb ← f.header.pack
  let tb ← f.tfdf.pack truncated ft
  let ob ←
    if optLen f.ocf ≠ 0 then do
      -- `if self.op_ctrl_field:` (present and not empty)
      let flag ← f.header.opCtrlFlag
      if !flag then throw (.uslp .invalidFrameHeader)
      if optLen f.ocf ≠ 4 then throw (.py .value)
      pure (optBytes f.ocf)
    else do
      if !truncated then
        let flag ← f.header.opCtrlFlag
        if flag then throw (.uslp .invalidFrameHeader)
      pure []
  pure (hb ++ optBytes f.insertZone ++ tb ++ ob ++ optBytes f.fecf)

/-- body of `TransferFrame.set_frame_len_in_header()`, with `len` the value `self.len()` returns:
    for a regular header `ValueError` (header unchanged) when `len - 1 > 0xFFFF`, otherwise the
    field is set to `len - 1`; nothing to do (and nothing checked) for a truncated header.
    (C11's frame machine calls this with the length computed from the data field's cached size.) -/
def Frame.setFrameLenWith (f : Frame) (len : Nat) : UPy Frame :=
  match f.header with
  | .primary h =>
    if len - 1 > 65535 then .error (.py .value)
    else .ok { f with header := .primary { h with frameLen := len - 1 } }
  | .truncated _ => .ok f

/-- `TransferFrame.set_frame_len_in_header()`; an error means the frame object is unchanged -/
def Frame.setFrameLenInHeader (f : Frame) : UPy Frame := f.setFrameLenWith f.len

/-- Managed parameters. `kind` is the class of the object (`FixedFrameProperties` /
    `VarFrameProperties`), `lenParam` its `fixed_len` resp. `truncated_frame_len`; the zone
    entries are `some size` iff `present`. -/
structure FrameProps where
  kind : FrameType
  lenParam : Nat
  insertZone : Option Nat
  fecf : Option Nat
deriving DecidableEq, Repr

/-- `FixedFrameProperties(...)` / `VarFrameProperties(...)`: `ValueError` when a zone is declared
    present without a length -/
def FrameProps.new (kind : FrameType) (lenParam : Nat) (hasIz hasFecf : Bool)
    (izLen fecfLen : Option Nat) : UPy FrameProps :=
  if hasIz ∧ izLen.isNone then .error (.py .value)
  else if hasFecf ∧ fecfLen.isNone then .error (.py .value)
  else .ok ⟨kind, lenParam, if hasIz then izLen else none, if hasFecf then fecfLen else none⟩

def optSize : Option Nat → Nat
  | none => 0
  | some n => n

def optSizeI (o : Option Nat) : Int := ((optSize o : Nat) : Int)

/-- `header.op_ctrl_flag` where the decoder consults it (`not truncated and header.op_ctrl_flag`) -/
def Header.hasOcf : Header → Bool
  | .primary h => h.ocf
  | .truncated _ => false

/-- `TransferFrame.__get_tfdf_len(...)`: start from the frame length (header field + 1, or the
    managed truncated length), subtract the header and every optional field that is present
    (absent fields subtract nothing, written here as subtracting 0). -/
def tfdfLen (ft : FrameType) (hdr : Header) (rawLen : Nat) (p : FrameProps) : UPy Int := do
  let hl : Int := (hdr.len : Int)
  let e0 : Int ←
    match ft, hdr with
    | .fixed, .primary h =>
      let e : Int := (h.frameLen : Int) + 1 - hl
      if (rawLen : Int) < e then throw (.uslp .invalidLen)
      pure e
    | .fixed, .truncated _ => throw (.py .attr)   -- `header.frame_len` (unreachable from `unpack`)
    | .variable, .truncated _ =>
      match p.kind with
      | .variable => pure ((p.lenParam : Int) - hl)
      | .fixed => throw (.py .attr)               -- `properties.truncated_frame_len` (unreachable)
    | .variable, .primary h => pure ((h.frameLen : Int) + 1 - hl)
  pure (e0 - optSizeI p.fecf - (if hdr.hasOcf then 4 else 0) - optSizeI p.insertZone)

/-- first part of `TransferFrame.unpack`: the guards on the buffer and the managed parameters,
    `determine_header_type`, and the header decoder that applies -/
def Frame.unpackHeader (raw : Bytes) (ft : FrameType) (p : FrameProps) : UPy Header := do
  if raw.length < 4 then throw (.uslp .invalidLen)
  if ft = .fixed then
    if p.kind ≠ .fixed then throw (.py .value)
    if raw.length < p.lenParam then throw (.uslp .invalidLen)
  let trunc ← headerIsTruncated raw
  if trunc then do
    if ft ≠ .variable then throw (.uslp .truncatedNotAllowed)
    if p.kind ≠ .variable then throw (.py .value)
    if raw.length < p.lenParam then throw (.uslp .invalidLen)
    let h ← TruncatedHeader.unpack raw
    pure (Header.truncated h)
  else do
    let h ← PrimaryHeader.unpack raw
    pure (Header.primary h)

/-- the two checks of the frame length field of a regular header against the buffer and the
    managed fixed length -/
def frameLenCheck (raw : Bytes) (ft : FrameType) (p : FrameProps) : Header → UPy Unit
  | .primary h => do
    if raw.length < h.frameLen + 1 then throw (.uslp .invalidLen)
    if ft = .fixed ∧ h.frameLen + 1 ≠ p.lenParam then throw (.uslp .invalidLen)
  | .truncated _ => pure ()

/-- second part of `TransferFrame.unpack`: data-field length, insert zone, data field, OCF, FECF -/
def Frame.unpackBody (raw : Bytes) (ft : FrameType) (p : FrameProps) (hdr : Header) : UPy Frame := do
  let hl := hdr.len
  frameLenCheck raw ft p hdr
  let e ← tfdfLen ft hdr raw.length p
  if e ≤ 0 ∨ (hl : Int) + e > (raw.length : Int) then throw (.uslp .invalidLen)
  let n := e.toNat
  let izs := optSize p.insertZone
  if p.insertZone.isSome ∧ hl + izs + n > raw.length then throw (.uslp .invalidLen)
  let iz := p.insertZone.map (fun s => slice raw hl (hl + s))
  let cur := hl + izs
  let tfdf ← Tfdf.unpack (raw.drop cur) hdr.isTruncated n (some ft)
  let cur := cur + n
  let ocf := if hdr.hasOcf then some (slice raw cur (cur + 4)) else none
  let cur := if hdr.hasOcf then cur + 4 else cur
  let fecf := p.fecf.map (fun s => slice raw cur (cur + s))
  pure ⟨hdr, tfdf, iz, ocf, fecf⟩

/-- `TransferFrame.unpack(raw_frame, frame_type, frame_properties)` -/
def Frame.unpack (raw : Bytes) (ft : FrameType) (p : FrameProps) : UPy Frame := do
  let hdr ← Frame.unpackHeader raw ft p
  Frame.unpackBody raw ft p hdr

end SpVerif.Uslp
