import SpVerif.Model.FileDirective
/-!
# Model of `spacepackets/cfdp/pdu/ack.py` (ACK PDU, CCSDS 727.0-B-5 §5.2.4)

Parameters: directive code of the acknowledged PDU (EOF = 4 or Finished = 5; anything else is
refused by the constructor), directive subtype code (1 for Finished, 0 for EOF, set by the
constructor), condition code (a Python `int`: `ConditionCode.NO_CONDITION_FIELD` is −1 and makes
`pack` raise `ValueError` from `bytearray.append`), transaction status.

`(a << 4) | b` is `a * 16 + b`: the low operand is below 16 for every value the constructor or the
decoder produces (subtype ∈ {0,1} / nibble; status a member of `TransactionStatus` / two bits).
The decoder performs no check of the directive code, of the acknowledged directive code or of the
spare bits (it stores the raw nibbles).
-/
namespace SpVerif.Ack
open SpVerif SpVerif.CfdpHeader SpVerif.FileDirective

structure Ack where
  fd : FileDirective
  /-- `directive_code_of_acked_pdu` -/
  ackedCode : Nat
  /-- `directive_subtype_code` -/
  subtype : Nat
  /-- `condition_code_of_acked_pdu` -/
  cond : Int
  /-- `transaction_status` -/
  status : Nat
deriving DecidableEq, Repr

/-- `_calculate_directive_field_len` -/
def calcLen (fd : FileDirective) : Py FileDirective :=
  fd.setParamLen (if fd.header.conf.crcFlag = 1 then 4 else 2)

/-- `AckPdu(pdu_conf, directive_code_of_acked_pdu, condition_code_of_acked_pdu, transaction_status)`:
    the configuration is copied; an ACK of a Finished PDU travels towards the receiver (0), an ACK of
    an EOF PDU towards the sender (1). -/
def Ack.new (conf : PduConfig) (ackedCode : Nat) (cond : Int) (status : Nat) : Py Ack := do
  if ackedCode ≠ DIR_FINISHED ∧ ackedCode ≠ DIR_EOF then throw .value
  let dir := if ackedCode = DIR_FINISHED then 0 else 1
  let sub := if ackedCode = DIR_FINISHED then 1 else 0
  let fd ← FileDirective.new { conf with direction := dir } DIR_ACK 2
  let fd ← calcLen fd
  pure ⟨fd, ackedCode, sub, cond, status⟩

def Ack.packetLen (a : Ack) : Nat := a.fd.packetLen

/-- `pack()` -/
def Ack.pack (a : Ack) : Py Bytes := do
  let p ← a.fd.pack
  let b0 ← byteOfN (a.ackedCode * 16 + a.subtype)
  let b1 ← byteOf (a.cond * 16 + (a.status : Int))
  pure (withCrc a.fd.header.conf.crcFlag (p ++ [b0, b1]))

/-- `AckPdu.unpack(data)` -/
def Ack.unpack (data : Bytes) : Py Ack := do
  let fd ← FileDirective.unpack data
  let _ ← fd.verify data
  let data := data.take fd.paramsEnd
  let i := fd.headerLen
  if i + 2 > data.length then throw .value
  let b0 ← idx data i
  let b1 ← idx data (i + 1)
  pure ⟨fd, b0 / 16 % 16, b0 % 16, ((b1 / 16 % 16 : Nat) : Int), b1 % 4⟩

/-- `__eq__` -/
def Ack.beq (a b : Ack) : Bool :=
  a.fd.beq b.fd && a.ackedCode == b.ackedCode && a.subtype == b.subtype && a.cond == b.cond
    && a.status == b.status

end SpVerif.Ack
