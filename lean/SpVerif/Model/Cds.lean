import SpVerif.BE
/-!
# Model of `spacepackets/ccsds/time/cds.py` (`CdsShortTimestamp`) and the day-offset helpers of
`spacepackets/ccsds/time/common.py`

Everything is exact integer arithmetic. `Int` is used for the two stored fields because the
constructor validates nothing (the library's own docstring builds a stamp with −4383 days); the
range is enforced only by `struct.pack` in `pack()` (`struct.error`).

The two float / `datetime` views of the class (`as_unix_seconds()`, `as_datetime()`) are carried
as the exact integer `unixMs` (milliseconds since 1970-01-01T00:00:00Z); the correspondence check
converts the real views to integers (DESIGN.md §6 C14, *partial*).

Datetimes enter the model as integer microseconds since the Unix epoch, timedeltas as CPython's
normalised triple `(days, seconds, microseconds)` with `0 ≤ seconds < 86400`,
`0 ≤ microseconds < 10^6` (`days` may be negative).

`/` and `%` on `Int` are Lean's `Int.ediv` / `Int.emod`; for the positive literal divisors used
here they coincide with Python's floor division and modulo.
-/
namespace SpVerif.Cds

/-- `DAYS_CCSDS_TO_UNIX` -/
def DAYS_CCSDS_TO_UNIX : Int := -4383
/-- `SECONDS_PER_DAY` -/
def SECONDS_PER_DAY : Int := 86400
/-- `MS_PER_DAY = SECONDS_PER_DAY * 1000` -/
def MS_PER_DAY : Int := SECONDS_PER_DAY * 1000
/-- `CdsShortTimestamp.TIMESTAMP_SIZE` -/
def TIMESTAMP_SIZE : Nat := 7
/-- `CdsShortTimestamp.CDS_SHORT_ID` / `CcsdsTimeCodeId.CDS` -/
def CDS_ID : Nat := 4

/-- `convert_unix_days_to_ccsds_days` -/
def unixDaysToCcsds (unixDays : Int) : Int := unixDays - DAYS_CCSDS_TO_UNIX
/-- `convert_ccsds_days_to_unix_days` -/
def ccsdsDaysToUnix (ccsdsDays : Int) : Int := ccsdsDays + DAYS_CCSDS_TO_UNIX

/-- the two stored fields `_ccsds_days`, `_ms_of_day` -/
structure Stamp where
  days : Int
  ms : Int
deriving DecidableEq, Repr

/-- `CdsShortTimestamp(ccsds_days, ms_of_day)`: the constructor stores its arguments unchecked. -/
def Stamp.new (days ms : Int) : Stamp := ⟨days, ms⟩

/-- `CdsShortTimestamp.from_unix_days(unix_days, ms_of_day)` -/
def Stamp.fromUnixDays (unixDays ms : Int) : Stamp := Stamp.new (unixDaysToCcsds unixDays) ms

/-- `_calculate_unix_seconds`, in milliseconds:
    `unix_days * SECONDS_PER_DAY + ms_of_day / 1000.0` seconds. -/
def Stamp.unixMs (s : Stamp) : Int := ccsdsDaysToUnix s.days * SECONDS_PER_DAY * 1000 + s.ms

/-- `struct.pack("!H" / "!I", v)` for a Python int that may be negative: `struct.error` outside
    `[0, 256^n)`. -/
def packInt (n : Nat) (v : Int) : Py Bytes :=
  if 0 ≤ v then packBE n v.toNat else .error .struct

/-- `CdsShortTimestamp.pack()`: P-field `CDS_SHORT_ID << 4`, `!H` days, `!I` milliseconds. -/
def Stamp.pack (s : Stamp) : Py Bytes := do
  let p : Bytes := [u8 (CDS_ID * 16)]
  let d ← packInt 2 s.days
  let m ← packInt 4 s.ms
  pure (p ++ d ++ m)

/-- `CdsShortTimestamp.unpack_from_raw(data)` (also `unpack` / `read_from_raw`, which store the
    pair unchanged). Guards in the order of the code: length, time-code id, day-segment length. -/
def unpackFromRaw (d : Bytes) : Py Stamp := do
  if d.length < TIMESTAMP_SIZE then throw .value
  let p ← idx d 0
  if p / 16 % 8 ≠ CDS_ID then throw .value
  let lenOfDay ← enumOf [0, 1] (p / 4 % 2)
  if lenOfDay ≠ 0 then throw .value
  let days ← unpackBE 2 (slice d 1 3)
  let ms ← unpackBE 4 (slice d 3 7)
  pure ⟨(days : Int), (ms : Int)⟩

/-- CPython's normalised `timedelta` fields of a duration given in microseconds:
    `days` floored, `0 ≤ seconds < 86400`, `0 ≤ microseconds < 10^6`. -/
structure TimeDelta where
  days : Int
  seconds : Int
  micros : Int
deriving DecidableEq, Repr

def TimeDelta.ofMicros (us : Int) : TimeDelta :=
  ⟨us / 86400000000, us % 86400000000 / 1000000, us % 86400000000 % 1000000⟩

/-- total duration in microseconds -/
def TimeDelta.toMicros (t : TimeDelta) : Int := (t.days * 86400 + t.seconds) * 1000000 + t.micros

/-- `CdsShortTimestamp.from_datetime(dt)` where `us` is `dt − 1970-01-01T00:00:00Z` in microseconds:
    `delta = dt.astimezone(utc) − epoch`; `ms = delta.seconds*1000 + delta.microseconds // 1000`;
    `days = convert_unix_days_to_ccsds_days(delta.days)`. -/
def fromUnixMicros (us : Int) : Stamp :=
  let delta := TimeDelta.ofMicros us
  ⟨unixDaysToCcsds delta.days, delta.seconds * 1000 + delta.micros / 1000⟩

/-- `stamp + timedelta` (`__add__`), mirroring the code line by line: the sub-day part is added to
    the milliseconds, one carry with `>=`, overflow check, then `timedelta.days` is added and the
    overflow check repeated. (`_setup()` afterwards only recomputes the views.) -/
def Stamp.add (s : Stamp) (t : TimeDelta) : Py Stamp := do
  let ms1 := s.ms + (t.micros / 1000 + t.seconds * 1000)
  let (days1, ms2) ← (
    if ms1 ≥ MS_PER_DAY then
      let ms2 := ms1 - MS_PER_DAY
      let days1 := s.days + 1
      if days1 > 2 ^ 16 - 1 then (throw .overflow : Py (Int × Int)) else pure (days1, ms2)
    else pure (s.days, ms1))
  let days2 := days1 + t.days
  if days2 > 2 ^ 16 - 1 then throw .overflow
  pure ⟨days2, ms2⟩

end SpVerif.Cds
