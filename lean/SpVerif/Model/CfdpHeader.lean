import SpVerif.BE
import SpVerif.Crc
/-!
# Model of `spacepackets/cfdp/pdu/header.py` and `spacepackets/cfdp/conf.py` (CFDP fixed PDU header)

`PduConfig`, `PduHeader` (constructor, `pack`, `unpack`, `header_len`, `packet_len`,
`header_len_from_raw`, `set_entity_ids`, the `pdu_data_field_len` setter, `check_len_in_bytes`,
`verify_length_and_checksum` including the CRC check).

Entity IDs and the transaction sequence number are `(width, value)` pairs (`BF`), a minimal local
rendering of `util.UnsignedByteField` restricted to what the header code uses (constructor checks,
`byte_len`, `as_bytes`, `ByteFieldGenerator.from_bytes`).

Arithmetic normal form: `a << k | b` on disjoint bit ranges is `a * 2^k + b`, `(x >> k) & m` is
`x / 2^k % (m+1)`; the enum-valued flags are natural numbers (members are 0 and 1).

Not modelled (outside the property): negative `pdu_data_field_len` (the setter only bounds the
value from above; the model takes the length as a natural number), aliasing of the caller's
`PduConfig` object (the model copies by value; aliasing is C11's subject).
-/
namespace SpVerif.CfdpHeader
open SpVerif

/-! ## minimal unsigned byte field -/

/-- `UnsignedByteField`: `byte_len` and `value`. Every value built by `BF.new` / `BF.fromBytes`
    satisfies `value < 256 ^ width` and `width ∈ {0,1,2,4,8}`. -/
structure BF where
  width : Nat
  value : Nat
deriving DecidableEq, Repr

/-- `UnsignedByteField(val, byte_len)`: `verify_byte_len`, then `_verify_int_value`
    (`val > 2^(8*byte_len) - 1 or val < 0`); both raise `ValueError`. -/
def BF.new (w : Nat) (v : Int) : Py BF :=
  if ¬ (w = 0 ∨ w = 1 ∨ w = 2 ∨ w = 4 ∨ w = 8) then .error .value
  else if v < 0 ∨ 256 ^ w ≤ v.toNat then .error .value
  else .ok ⟨w, v.toNat⟩

/-- `as_bytes` (the cached `struct.pack` of the value; empty for width 0) -/
def BF.bytes (f : BF) : Bytes := beBytes f.width f.value

/-- `ByteFieldGenerator.from_bytes(byte_len, stream)`: widths other than 1/2/4/8 and streams
    shorter than the width are `ValueError`; otherwise the first `byte_len` octets big-endian. -/
def BF.fromBytes (w : Nat) (s : Bytes) : Py BF :=
  if w = 1 ∨ w = 2 ∨ w = 4 ∨ w = 8 then
    if s.length < w then .error .value
    else do
      let v ← unpackBE w (slice s 0 w)
      BF.new w (v : Int)
  else .error .value

/-- `ByteFieldEmpty()` -/
def BF.empty : BF := ⟨0, 0⟩

/-! ## `PduConfig` -/

structure PduConfig where
  source : BF
  dest : BF
  seqNum : BF
  transMode : Nat
  fileFlag : Nat
  crcFlag : Nat
  direction : Nat
  segCtrl : Nat
deriving DecidableEq, Repr

/-- `PduConfig.empty()` -/
def PduConfig.empty : PduConfig := ⟨BF.empty, BF.empty, BF.empty, 0, 0, 0, 0, 0⟩
/-- `PduConfig.default()` -/
def PduConfig.default : PduConfig := ⟨⟨1, 0⟩, ⟨1, 0⟩, ⟨1, 0⟩, 0, 0, 0, 0, 0⟩

/-- `PduConfig.header_len()` -/
def PduConfig.headerLen (c : PduConfig) : Nat := 4 + c.source.width + c.dest.width + c.seqNum.width

/-! ## `PduHeader` -/

structure PduHeader where
  pduType : Nat
  segMeta : Nat
  dataFieldLen : Nat
  conf : PduConfig
deriving DecidableEq, Repr

/-- the `pdu_data_field_len` setter: `ValueError` above `2^16 - 1` -/
def PduHeader.setDataFieldLen (h : PduHeader) (newLen : Nat) : Py PduHeader :=
  if newLen > 65535 then .error .value else .ok { h with dataFieldLen := newLen }

/-- `set_entity_ids(source_entity_id, dest_entity_id)`: both widths must agree -/
def PduHeader.setEntityIds (h : PduHeader) (src dst : BF) : Py PduHeader :=
  if src.width ≠ dst.width then .error .value
  else .ok { h with conf := { h.conf with source := src, dest := dst } }

/-- `PduHeader(pdu_type, segment_metadata_flag, pdu_data_field_len, pdu_conf)`:
    the length setter, then `set_entity_ids` with the configuration's own IDs. -/
def PduHeader.new (pduType segMeta dataFieldLen : Nat) (conf : PduConfig) : Py PduHeader := do
  let h ← PduHeader.setDataFieldLen ⟨pduType, segMeta, 0, conf⟩ dataFieldLen
  h.setEntityIds conf.source conf.dest

/-- `header_len` -/
def PduHeader.headerLen (h : PduHeader) : Nat := 4 + 2 * h.conf.source.width + h.conf.seqNum.width

/-- `packet_len` -/
def PduHeader.packetLen (h : PduHeader) : Nat := h.dataFieldLen + h.headerLen

/-- `large_file_flag_set` -/
def PduHeader.largeFileFlagSet (h : PduHeader) : Bool := decide (h.conf.fileFlag = 1)

/-- `PduHeader.pack()`.
    Octet 3 is `seg_ctrl << 7 | (idw - 1) << 4 | seg_meta << 3 | (seqw - 1)`: with a width of 0
    (`ByteFieldEmpty`) one operand is negative, the whole expression is negative and
    `bytearray.append` raises `ValueError`. -/
def PduHeader.pack (h : PduHeader) : Py Bytes := do
  let b0 ← byteOfN (32 + h.pduType * 16 + h.conf.direction * 8 + h.conf.transMode * 4
                      + h.conf.crcFlag * 2 + h.conf.fileFlag)
  let b1 := u8 (h.dataFieldLen / 256 % 256)
  let b2 := u8 (h.dataFieldLen % 256)
  if h.conf.source.width = 0 ∨ h.conf.seqNum.width = 0 then throw .value
  let b3 ← byteOfN (h.conf.segCtrl * 128 + (h.conf.source.width - 1) * 16 + h.segMeta * 8
                      + (h.conf.seqNum.width - 1))
  pure ([b0, b1, b2, b3] ++ h.conf.source.bytes ++ h.conf.seqNum.bytes ++ h.conf.dest.bytes)

/-- `check_len_in_bytes(detected_len)` -/
def checkLenInBytes (n : Nat) : Py Nat :=
  if n = 1 ∨ n = 2 ∨ n = 4 ∨ n = 8 then .ok n else .error .value

/-- `AbstractPduBase.header_len_from_raw(data)` (no check of the width codes) -/
def headerLenFromRaw (d : Bytes) : Py Nat := do
  if d.length < 4 then throw .value
  let d3 ← idx d 3
  pure (4 + 2 * (d3 / 16 % 8 + 1) + (d3 % 8 + 1))

/-- `PduHeader.unpack(data)`: same guards in the same order as the code. -/
def PduHeader.unpack (d : Bytes) : Py PduHeader := do
  if d.length < 4 then throw .value
  let d0 ← idx d 0
  if d0 / 32 % 8 ≠ 1 then throw .cfdpVersion
  let d1 ← idx d 1
  let d2 ← idx d 2
  if d1 * 256 + d2 > 65535 then throw .value
  let d3 ← idx d 3
  let idw ← checkLenInBytes (d3 / 16 % 8 + 1)
  let seqw ← checkLenInBytes (d3 % 8 + 1)
  if 2 * idw + seqw + 4 > d.length then throw .value
  let src ← BF.fromBytes idw (slice d 4 (4 + idw))
  let seq ← BF.fromBytes seqw (slice d (4 + idw) (4 + idw + seqw))
  let dst ← BF.fromBytes idw (slice d (4 + idw + seqw) (4 + idw + seqw + idw))
  if src.width ≠ dst.width then throw .value
  pure ⟨d0 / 16 % 2, d3 / 8 % 2, d1 * 256 + d2,
        ⟨src, dst, seq, d0 / 4 % 2, d0 % 2, d0 / 2 % 2, d0 / 8 % 2, d3 / 128 % 2⟩⟩

/-- `verify_length_and_checksum(data)`: the buffer must hold the declared PDU; with the CRC flag
    the CRC-16 over exactly the declared PDU must be zero (`InvalidCrc` otherwise; the code first
    reads the two trailer octets with `struct.unpack` for the message). Returns `packet_len`.
    (`packet_len ≥ 4`, so the slice start `packet_len - 2` is never negative.) -/
def PduHeader.verifyLengthAndChecksum (h : PduHeader) (d : Bytes) : Py Nat := do
  if d.length < h.packetLen then throw .value
  if h.conf.crcFlag = 1 then
    if Crc.crc16 (slice d 0 h.packetLen) ≠ 0 then
      let _ ← unpackBE 2 (slice d (h.packetLen - 2) h.packetLen)
      throw .crc
  pure h.packetLen

end SpVerif.CfdpHeader
