import SpVerif.Model.Prefix
import SpVerif.Model.Ack
import SpVerif.Model.Prompt
import SpVerif.Model.KeepAlive
import SpVerif.Model.Nak
import SpVerif.Model.FileData
import SpVerif.Model.Eof
import SpVerif.Model.Finished
import SpVerif.Model.Metadata
/-!
# C09, second half — the table of CFDP PDU kinds

A complete CFDP PDU followed by further octets is either decoded exactly as the PDU alone or
refused with a documented error. The decoders are the models of C06 (EOF, Finished, ACK, Metadata,
NAK, Prompt, Keep Alive) and C07 (File Data); this file only names their codecs (decoder + reported
`packet_len`), the table of kinds with a common result type, and the length of the CRC trailer a
decoded PDU carries.
-/
namespace SpVerif.Prefix
open SpVerif SpVerif.CfdpHeader

def ackCodec : Codec Ack.Ack := ⟨Ack.Ack.unpack, Ack.Ack.packetLen⟩
def promptCodec : Codec Prompt.Prompt := ⟨Prompt.Prompt.unpack, Prompt.Prompt.packetLen⟩
def keepAliveCodec : Codec KeepAlive.KeepAlive := ⟨KeepAlive.KeepAlive.unpack, KeepAlive.KeepAlive.packetLen⟩
def nakCodec : Codec Nak.Nak := ⟨Nak.Nak.unpack, Nak.Nak.packetLen⟩
def fileDataCodec : Codec FileData.Pdu := ⟨FileData.Pdu.unpack, FileData.Pdu.packetLen⟩
def eofCodec : Codec Eof.Eof := ⟨Eof.Eof.unpack, Eof.Eof.packetLen⟩
def finishedCodec : Codec Finished.Finished := ⟨Finished.Finished.unpack, Finished.Finished.packetLen⟩
def metadataCodec : Codec Metadata.Metadata := ⟨Metadata.Metadata.unpack, Metadata.Metadata.packetLen⟩

inductive PduKind
  | ack | prompt | keepAlive | nak | fileData | eof | finished | metadata
deriving DecidableEq, Repr

inductive PduDecoded
  | ack (a : Ack.Ack) | prompt (p : Prompt.Prompt) | keepAlive (k : KeepAlive.KeepAlive) | nak (k : Nak.Nak)
  | fileData (p : FileData.Pdu)
  | eof (k : Eof.Eof) | finished (k : Finished.Finished) | metadata (k : Metadata.Metadata)
deriving DecidableEq, Repr

def PduKind.decode : PduKind → Bytes → Py PduDecoded
  | .ack, d => PduDecoded.ack <$> ackCodec.decode d
  | .prompt, d => PduDecoded.prompt <$> promptCodec.decode d
  | .keepAlive, d => PduDecoded.keepAlive <$> keepAliveCodec.decode d
  | .nak, d => PduDecoded.nak <$> nakCodec.decode d
  | .fileData, d => PduDecoded.fileData <$> fileDataCodec.decode d
  | .eof, d => PduDecoded.eof <$> eofCodec.decode d
  | .finished, d => PduDecoded.finished <$> finishedCodec.decode d
  | .metadata, d => PduDecoded.metadata <$> metadataCodec.decode d

/-- the header of a decoded PDU -/
def PduDecoded.header : PduDecoded → PduHeader
  | .ack a => a.fd.header
  | .prompt p => p.fd.header
  | .keepAlive k => k.fd.header
  | .nak k => k.fd.header
  | .fileData p => p.header
  | .eof k => k.fd.header
  | .finished k => k.fd.header
  | .metadata k => k.fd.header

/-- `packet_len` of the decoded PDU -/
def PduDecoded.len (r : PduDecoded) : Nat := r.header.packetLen

/-- octets of CRC trailer inside the declared PDU -/
def PduDecoded.crcLen (r : PduDecoded) : Nat := if r.header.conf.crcFlag = 1 then 2 else 0

/-- where the parameters / file data end: the declared PDU minus its CRC trailer -/
def PduDecoded.dataEnd (r : PduDecoded) : Nat := r.len - r.crcLen

def PduKind.codec (k : PduKind) : Codec PduDecoded := ⟨k.decode, PduDecoded.len⟩

/-- kinds whose decoder accepts a buffer that is longer than the PDU (all but NAK, which refuses
    it by design — `tests/cfdp/pdus/test_nak_pdu.py::test_nak_pdu_errors`) -/
def PduKind.acceptsTrailing : PduKind → Bool
  | .nak => false
  | _ => true

end SpVerif.Prefix
