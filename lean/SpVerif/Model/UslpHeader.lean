import SpVerif.BE
/-!
# Model of `spacepackets/uslp/header.py` and `spacepackets/uslp/defs.py`

USLP transfer frame primary header (CCSDS 732.1-B-2 §4.1.2) and its truncated 4-octet form.

The shared error type `Err` has a single constructor `uslp` for the seven exception classes of
`uslp/defs.py` (that is what the harness canonicalises to).  The property names individual
classes, so the USLP models run in `UPy = Except UErr`, where `UErr` keeps the class
(`UErr.uslp k`) next to the ordinary Python categories (`UErr.py e`).  `UPy.toPy` collapses a
result to the shared `Py` monad for the cross-cutting properties (C09/C10/C11).

Arithmetic normal form as everywhere (`x << k | y` on disjoint ranges is `x * 2^k + y`), with two
exceptions where an unvalidated field is or-ed into an octet and could overlap its neighbours
(`vcf_count_len` in octet 6 of the header, the protocol id in the data field header): these keep
`|||`, so the model is faithful also outside the field ranges; `Proofs/Uslp.lean` shows that it is
`+` inside them.
-/
namespace SpVerif.Uslp

/-- the seven exception classes of `spacepackets/uslp/defs.py` -/
inductive UslpErr
  | invalidFrameHeader        -- UslpInvalidFrameHeader
  | invalidLen                -- UslpInvalidRawPacketOrFrameLen
  | invalidConstructionRules  -- UslpInvalidConstructionRules
  | fhpMissing                -- UslpFhpVhopFieldMissing
  | truncatedNotAllowed       -- UslpTruncatedFrameNotAllowed
  | versionMismatch           -- UslpVersionMissmatch
  | typeMismatch              -- UslpTypeMissmatch
deriving DecidableEq, Repr, Inhabited

def UslpErr.className : UslpErr → String
  | .invalidFrameHeader => "UslpInvalidFrameHeader"
  | .invalidLen => "UslpInvalidRawPacketOrFrameLen"
  | .invalidConstructionRules => "UslpInvalidConstructionRules"
  | .fhpMissing => "UslpFhpVhopFieldMissing"
  | .truncatedNotAllowed => "UslpTruncatedFrameNotAllowed"
  | .versionMismatch => "UslpVersionMissmatch"
  | .typeMismatch => "UslpTypeMissmatch"

/-- error of a USLP entry point: one of the `Uslp*` classes, or an ordinary Python category -/
inductive UErr
  | uslp (k : UslpErr)
  | py (e : Err)
deriving DecidableEq, Repr, Inhabited

/-- collapse to the shared categories (all seven classes are `Err.uslp`) -/
def UErr.toErr : UErr → Err
  | .uslp _ => .uslp
  | .py e => e

abbrev UPy := Except UErr

/-- view a USLP result in the shared `Py` monad (for C09/C10/C11) -/
def UPy.toPy {α : Type} : UPy α → Py α
  | .ok a => .ok a
  | .error e => .error e.toErr

/-- run a primitive of the Python kit inside `UPy` -/
def liftPy {α : Type} : Py α → UPy α
  | .ok a => .ok a
  | .error e => .error (.py e)

@[simp] theorem liftPy_ok {α : Type} (a : α) : liftPy (Except.ok a : Py α) = .ok a := rfl
@[simp] theorem liftPy_err {α : Type} (e : Err) : liftPy (Except.error e : Py α) = .error (.py e) := rfl
@[simp] theorem toPy_ok {α : Type} (a : α) : UPy.toPy (Except.ok a : UPy α) = .ok a := rfl
@[simp] theorem toPy_err {α : Type} (e : UErr) : UPy.toPy (Except.error e : UPy α) = .error e.toErr := rfl

def b2n (b : Bool) : Nat := if b then 1 else 0

/-- `USLP_VERSION_NUMBER` -/
def versionNumber : Nat := 12

/-- `PrimaryHeaderBase._pack_common_header(truncated)`: the range check on the three identifiers
    (negative values included), then the four common octets. -/
def packCommon (scid : Int) (srcDest : Bool) (vcid mapId : Int) (truncated : Bool) : UPy Bytes :=
  if (scid > 65535 ∨ scid < 0) ∨ (vcid > 63 ∨ vcid < 0) ∨ (mapId > 15 ∨ mapId < 0) then
    .error (.py .value)
  else
    let s := scid.toNat
    let v := vcid.toNat
    let m := mapId.toNat
    .ok [u8 (versionNumber * 16 + s / 4096 % 16), u8 (s / 16 % 256),
         u8 (s % 16 * 16 + b2n srcDest * 8 + v / 8 % 8), u8 (v % 8 * 32 + m * 2 + b2n truncated)]

/-- `PrimaryHeaderBase._unpack_raw_header_base_fields(raw, truncated, uslp_version)`:
    (scid, src_dest, vcid, map_id) -/
def unpackBase (raw : Bytes) (truncated : Bool) (uslpVersion : Nat) : UPy (Nat × Bool × Nat × Nat) := do
  if raw.length < 4 then throw (.uslp .invalidLen)
  let r0 ← liftPy (idx raw 0)
  if r0 / 16 ≠ uslpVersion then throw (.uslp .versionMismatch)
  let r1 ← liftPy (idx raw 1)
  let r2 ← liftPy (idx raw 2)
  let r3 ← liftPy (idx raw 3)
  if (r3 % 2 == 1) ≠ truncated then throw (.uslp .typeMismatch)
  pure (r0 % 16 * 4096 + r1 * 16 + r2 / 16, r2 / 8 % 2 == 1, r2 % 8 * 8 + r3 / 32 % 8, r3 / 2 % 16)

/-! ## Truncated primary header -/

structure TruncatedHeader where
  scid : Int
  srcDest : Bool
  vcid : Int
  mapId : Int
deriving DecidableEq, Repr

/-- `TruncatedPrimaryHeader.pack()` -/
def TruncatedHeader.pack (h : TruncatedHeader) : UPy Bytes :=
  packCommon h.scid h.srcDest h.vcid h.mapId true

/-- `TruncatedPrimaryHeader.len()` -/
def TruncatedHeader.len (_ : TruncatedHeader) : Nat := 4

/-- `TruncatedPrimaryHeader.unpack(raw_packet, uslp_version)` -/
def TruncatedHeader.unpack (raw : Bytes) (uslpVersion : Nat := versionNumber) : UPy TruncatedHeader := do
  let (scid, sd, vcid, mapId) ← unpackBase raw true uslpVersion
  pure ⟨(scid : Int), sd, (vcid : Int), (mapId : Int)⟩

/-! ## Primary header -/

structure PrimaryHeader where
  scid : Int
  srcDest : Bool
  vcid : Int
  mapId : Int
  frameLen : Nat
  bypass : Bool
  protCmd : Bool
  ocf : Bool
  vcfLen : Nat
  vcfCount : Option Nat
deriving DecidableEq, Repr

/-- the VCF count octets appended by `PrimaryHeader.pack()`: `bytearray.append` for one octet
    (`ValueError` beyond 255), `struct.pack("!H"/"!I")` for two and four (`struct.error` beyond the
    width), a shift-and-mask loop (which truncates silently) for every other length -/
def packVcf (vcfLen : Nat) (vcfCount : Option Nat) : UPy Bytes :=
  if vcfLen = 1 then
    match vcfCount with
    | none => .error (.py .value)
    | some c => do let x ← liftPy (byteOfN c); pure [x]
  else if vcfLen = 2 then
    match vcfCount with
    | none => .error (.py .value)
    | some c => liftPy (packBE 2 c)
  else if vcfLen = 4 then
    match vcfCount with
    | none => .error (.py .value)
    | some c => liftPy (packBE 4 c)
  else if vcfLen = 0 then .ok []
  else
    match vcfCount with
    | none => .error (.py .value)
    | some c => .ok (beBytes vcfLen c)

/-- `PrimaryHeader.pack()` -/
def PrimaryHeader.pack (h : PrimaryHeader) : UPy Bytes := do
  let c ← packCommon h.scid h.srcDest h.vcid h.mapId false
  let b6 ← liftPy (byteOfN ((8 * (b2n h.bypass * 16 + b2n h.protCmd * 8 + b2n h.ocf)) ||| h.vcfLen))
  let v ← packVcf h.vcfLen h.vcfCount
  pure (c ++ [u8 (h.frameLen / 256 % 256), u8 (h.frameLen % 256), b6] ++ v)

/-- `PrimaryHeader.len()` -/
def PrimaryHeader.len (h : PrimaryHeader) : Nat := 7 + h.vcfLen

/-- the accumulation loop of `PrimaryHeader.unpack` for VCF count lengths other than 1, 2, 4:
    `k` octets remain, the next one is `raw[pos]` and is shifted by `8 * (k - 1)` -/
def vcfLoop (raw : Bytes) : Nat → Nat → Nat → UPy Nat
  | 0, _, acc => pure acc
  | k + 1, pos, acc => do
    let x ← liftPy (idx raw pos)
    vcfLoop raw k (pos + 1) (acc + x * 256 ^ k)

/-- the branch of `PrimaryHeader.unpack` that reads a VCF count of `n` octets: `raw[7]` for one,
    `struct.unpack` for two and four, the accumulation loop for every other length (0 included) -/
def readVcf (raw : Bytes) (n : Nat) : UPy Nat :=
  if n = 1 then liftPy (idx raw 7)
  else if n = 2 then liftPy (unpackBE 2 (slice raw 7 9))
  else if n = 4 then liftPy (unpackBE 4 (slice raw 7 11))
  else vcfLoop raw n 7 0

/-- `PrimaryHeader.unpack(raw_packet, uslp_version)` -/
def PrimaryHeader.unpack (raw : Bytes) (uslpVersion : Nat := versionNumber) : UPy PrimaryHeader := do
  if raw.length < 7 then throw (.uslp .invalidLen)
  let (scid, sd, vcid, mapId) ← unpackBase raw false uslpVersion
  let r4 ← liftPy (idx raw 4)
  let r5 ← liftPy (idx raw 5)
  let r6 ← liftPy (idx raw 6)
  let vcfLen := r6 % 8
  if vcfLen > raw.length - 7 then throw (.uslp .invalidLen)
  let vcf ← readVcf raw vcfLen
  pure ⟨(scid : Int), sd, (vcid : Int), (mapId : Int), r4 * 256 + r5,
        r6 / 128 % 2 == 1, r6 / 64 % 2 == 1, r6 / 8 % 2 == 1, vcfLen, some vcf⟩

/-- `determine_header_type(header_start)`: `true` = `HeaderType.TRUNCATED` -/
def headerIsTruncated (raw : Bytes) : UPy Bool := do
  if raw.length < 4 then throw (.py .value)
  let r3 ← liftPy (idx raw 3)
  pure (r3 % 2 == 1)

end SpVerif.Uslp
