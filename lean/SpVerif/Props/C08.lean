import SpVerif.Model.Lv
import SpVerif.Model.Tlv
import SpVerif.Proofs.Lv
import SpVerif.Proofs.Tlv
/-!
# C08 — CFDP TLV and LV items encode exactly, round-trip, and are type-safe

Property theorems only. `Spec.*` is the field layout of CCSDS 727.0-B-5 as closed-form octet lists:
* LV (§5.1 "LV"): length octet, value;
* TLV (§5.4, table 5-? "TLV"): type octet, length octet, value;
* filestore request (§5.4.1): TLV type 0; value = action code (4 bits) | spare (4 bits), first file
  name LV, second file name LV for rename / append / replace;
* filestore response (§5.4.2): TLV type 1; value = action code (4) | status code (4) — which is
  the member value of the status-code enumeration itself —, first file name LV, second file name
  LV (same three actions), filestore message LV;
* message to user (§5.4.3): type 2; fault handler override (§5.4.4): type 4, one octet
  condition code (4) | handler code (4); flow label (§5.4.5): type 5; entity ID (§5.4.6): type 6.

File names are octet strings (their UTF-8 encoding); "valid" names satisfy `utf8Valid`.
-/
namespace SpVerif.Props.C08
open SpVerif SpVerif.Lv SpVerif.Tlv

/-! ## what the standard prescribes -/

def Spec.lv (v : Bytes) : Bytes := u8 v.length :: v
def Spec.tlv (t : Nat) (v : Bytes) : Bytes := u8 t :: u8 v.length :: v
/-- rename (2), append (3), replace (4) carry a second file name -/
def Spec.twoNames (action : Nat) : Prop := action = 2 ∨ action = 3 ∨ action = 4
instance (a : Nat) : Decidable (Spec.twoNames a) := by unfold Spec.twoNames; infer_instance
/-- value field common to request and response -/
def Spec.fsValue (firstOctet : Nat) (action : Nat) (first second : Bytes) : Bytes :=
  u8 firstOctet :: (Spec.lv first ++ (if Spec.twoNames action then Spec.lv second else []))
def Spec.fsRequest (r : FileStoreRequestTlv) : Bytes :=
  Spec.tlv 0 (Spec.fsValue (r.action * 16) r.action r.first r.second)
def Spec.fsResponse (r : FileStoreResponseTlv) : Bytes :=
  Spec.tlv 1 (Spec.fsValue r.status.toNat r.action r.first r.second ++ Spec.lv r.msg.value)
def Spec.faultHandler (cc hc : Nat) : Bytes := Spec.tlv 4 [u8 (cc * 16 + hc)]
def Spec.entityId (v : Bytes) : Bytes := Spec.tlv 6 v
def Spec.flowLabel (v : Bytes) : Bytes := Spec.tlv 5 v
def Spec.msgToUser (v : Bytes) : Bytes := Spec.tlv 2 v

/-! ## domains ("valid" inputs) -/

/-- LV / TLV value: 0..255 octets -/
def WFValue (v : Bytes) : Prop := v.length ≤ 255
instance (v : Bytes) : Decidable (WFValue v) := by unfold WFValue; infer_instance

/-- a TLV type of the standard -/
def WFType (t : Nat) : Prop := t ∈ tlvTypes
instance (t : Nat) : Decidable (WFType t) := by unfold WFType; infer_instance

/-- filestore request parameters: an action code of the standard, names that are UTF-8, a second
    name only for the two-name actions, and a value field that fits the one-octet TLV length -/
def WFReq (r : FileStoreRequestTlv) : Prop :=
  r.action ∈ actionCodes ∧ utf8Valid r.first = true ∧ utf8Valid r.second = true ∧
  (¬ Spec.twoNames r.action → r.second = []) ∧
  (Spec.fsValue (r.action * 16) r.action r.first r.second).length ≤ 255
instance (r : FileStoreRequestTlv) : Decidable (WFReq r) := by unfold WFReq; infer_instance

/-- filestore response parameters: additionally a status code of the standard that belongs to the
    action code (its upper nibble), and the filestore message -/
def WFResp (r : FileStoreResponseTlv) : Prop :=
  r.action ∈ actionCodes ∧ 0 ≤ r.status ∧ r.status.toNat ∈ statusCodesNat ∧ r.status.toNat / 16 = r.action ∧
  utf8Valid r.first = true ∧ utf8Valid r.second = true ∧
  (¬ Spec.twoNames r.action → r.second = []) ∧
  (Spec.fsValue r.status.toNat r.action r.first r.second ++ Spec.lv r.msg.value).length ≤ 255
instance (r : FileStoreResponseTlv) : Decidable (WFResp r) := by unfold WFResp; infer_instance

-- non-vacuity: concrete non-trivial members of each domain
example : WFValue [1, 2, 3] ∧ WFType 6 ∧ ¬ WFType 3 := by decide
example : WFReq ⟨2, [0x61, 0xC3, 0xA4], [0x62]⟩ := by decide
example : WFReq ⟨5, [0x64, 0x69, 0x72], []⟩ := by decide
example : WFResp ⟨3, 50, [0x61], [0xE2, 0x82, 0xAC], ⟨[1, 2]⟩⟩ := by decide
example : ¬ WFResp ⟨3, 33, [0x61], [], ⟨[]⟩⟩ := by decide  -- a status code of another action

/-! ## private glue between `Spec` and the layout functions of `Proofs/Tlv.lean` -/

private theorem twoNames_iff (a : Nat) : Spec.twoNames a ↔ a ∈ snpActions := by
  rw [mem_snp]; unfold Spec.twoNames; omega

private theorem spec_fsValue (a s : Nat) (f g : Bytes) :
    Spec.fsValue (a * 16 + s) a f g = fsValue a s f g := by
  unfold Spec.fsValue fsValue Spec.lv
  by_cases h : a ∈ snpActions
  · simp [h, (twoNames_iff a).2 h]
  · have : ¬ Spec.twoNames a := fun x => h ((twoNames_iff a).1 x)
    simp [h, this]

private theorem status_split (s : Int) (a : Nat) (h0 : 0 ≤ s) (h : s.toNat / 16 = a) :
    s.toNat = a * 16 + statusToInt s ∧ ((a * 16 + statusToInt s : Nat) : Int) = s := by
  unfold statusToInt; omega

/-! ## LV -/

/-- **LV packs to length, value** for every value of 0..255 octets -/
theorem C08_lv_pack_exact (v : Bytes) (h : WFValue v) :
    (CfdpLv.new v >>= CfdpLv.pack) = .ok (Spec.lv v) := by
  rw [CfdpLv.new_ok h, bind_ok, CfdpLv.pack_eq _ h]; rfl

/-- **decoding returns the same value**, whatever follows the LV, and reports `length + 1` -/
theorem C08_lv_roundtrip (v rest : Bytes) (h : WFValue v) :
    CfdpLv.unpack (Spec.lv v ++ rest) = .ok ⟨v⟩ ∧ (CfdpLv.mk v).packetLen = v.length + 1 :=
  ⟨CfdpLv.unpack_pack_append v rest h, rfl⟩

/-- **exactly `length + 1` octets are consumed**: whenever the decoder accepts an input, the
    input is the encoding of the decoded LV followed by the untouched remainder -/
theorem C08_lv_consumes (d : Bytes) (l : CfdpLv) (h : CfdpLv.unpack d = .ok l) :
    WFValue l.value ∧ l.packetLen = l.value.length + 1 ∧ l.packetLen ≤ d.length ∧
      d = Spec.lv l.value ++ d.drop l.packetLen := by
  obtain ⟨h1, h2, h3⟩ := CfdpLv.unpack_spec d l h
  exact ⟨h1, rfl, h2, h3⟩

/-- **values longer than 255 octets are refused** (constructor; a hand-built object does not pack) -/
theorem C08_lv_refuse_long (v : Bytes) (h : 255 < v.length) :
    CfdpLv.new v = .error .value ∧ (CfdpLv.mk v).pack = .error .value :=
  ⟨CfdpLv.new_err h, CfdpLv.pack_err _ h⟩

theorem C08_lv_len (l : CfdpLv) (b : Bytes) (h : l.pack = .ok b) : b.length = l.packetLen :=
  CfdpLv.pack_length l b h

/-! ## generic TLV -/

/-- **TLV packs to type, length, value** for every TLV type and every value of 0..255 octets -/
theorem C08_tlv_pack_exact (t : Nat) (v : Bytes) (ht : WFType t) (h : WFValue v) :
    (CfdpTlv.new t v >>= CfdpTlv.pack) = .ok (Spec.tlv t v) := by
  have ht' : t < 256 := by
    simp only [WFType, tlvTypes, List.mem_cons, List.not_mem_nil, or_false] at ht; omega
  have h' : v.length ≤ 255 := h
  rw [CfdpTlv.new_ok h', bind_ok, CfdpTlv.pack_eq _ ht' h']; rfl

/-- **decoding returns the same type and value**, whatever follows, and reports `length + 2` -/
theorem C08_tlv_roundtrip (t : Nat) (v rest : Bytes) (ht : WFType t) (h : WFValue v) :
    CfdpTlv.unpack (Spec.tlv t v ++ rest) = .ok ⟨t, v⟩ ∧ (CfdpTlv.mk t v).packetLen = v.length + 2 :=
  ⟨CfdpTlv.unpack_pack_append t v rest ht h, by simp [CfdpTlv.packetLen]; omega⟩

/-- **exactly `length + 2` octets are consumed** -/
theorem C08_tlv_consumes (d : Bytes) (t : CfdpTlv) (h : CfdpTlv.unpack d = .ok t) :
    WFType t.ttype ∧ WFValue t.value ∧ t.packetLen = t.value.length + 2 ∧ t.packetLen ≤ d.length ∧
      d = Spec.tlv t.ttype t.value ++ d.drop t.packetLen := by
  obtain ⟨h0, h1, h2, h3⟩ := CfdpTlv.unpack_spec d t h
  exact ⟨h0, h1, by simp [CfdpTlv.packetLen]; omega, h2, h3⟩

/-- **values longer than 255 octets are refused** with `ValueError`, by the constructor and — for an
    object built around the constructor — by `pack` (nothing is truncated) -/
theorem C08_tlv_refuse_long (t : Nat) (v : Bytes) (h : 255 < v.length) :
    CfdpTlv.new t v = .error .value ∧ (CfdpTlv.mk t v).pack = .error .value := by
  refine ⟨CfdpTlv.new_err h, ?_⟩
  have hv : ¬ v.length < 256 := by omega
  unfold CfdpTlv.pack
  by_cases ht : t < 256 <;> simp [ht, hv, byteOfN, bind, Except.bind]

theorem C08_tlv_len (t : CfdpTlv) (b : Bytes) (h : t.pack = .ok b) : b.length = t.packetLen :=
  CfdpTlv.pack_length t b h

/-- the encoding is injective on the domain (consequence of the round trip) -/
theorem C08_tlv_injective (t t' : Nat) (v v' : Bytes) (ht : WFType t) (ht' : WFType t')
    (h : WFValue v) (h' : WFValue v') (e : Spec.tlv t v = Spec.tlv t' v') : t = t' ∧ v = v' := by
  have a := (C08_tlv_roundtrip t v [] ht h).1
  have b := (C08_tlv_roundtrip t' v' [] ht' h').1
  rw [e, b] at a
  simpa using a.symm

/-! ## entity ID, flow label, message to user -/

theorem C08_entity_id_pack_exact (v : Bytes) (h : WFValue v) :
    (EntityIdTlv.new v >>= EntityIdTlv.pack) = .ok (Spec.entityId v) ∧
    (EntityIdTlv.new v >>= fun e => pure e.packetLen) = .ok (Spec.entityId v).length := by
  have h' : v.length ≤ 255 := h
  rw [EntityIdTlv.new_eq]
  simp only [h', ↓reduceIte, bind_ok, EntityIdTlv.pack, EntityIdTlv.packetLen]
  rw [CfdpTlv.pack_eq _ (by simp [tEntityId]) h']
  exact ⟨rfl, by simp [CfdpTlv.packetLen, Spec.entityId, Spec.tlv, pure, Except.pure]; omega⟩

theorem C08_entity_id_roundtrip (v rest : Bytes) (h : WFValue v) :
    EntityIdTlv.unpack (Spec.entityId v ++ rest) = EntityIdTlv.new v := by
  have h' : v.length ≤ 255 := h
  rw [EntityIdTlv.unpack_bind, EntityIdTlv.new_eq]
  simp only [h', ↓reduceIte]
  have := CfdpTlv.unpack_pack_append 6 v rest (by decide) h
  simp only [Spec.entityId, Spec.tlv, List.cons_append]
  rw [this, bind_ok, EntityIdTlv.fromTlv_eq]
  simp [tEntityId]

theorem C08_flow_label_pack_exact (v : Bytes) (h : WFValue v) :
    (FlowLabelTlv.new v >>= FlowLabelTlv.pack) = .ok (Spec.flowLabel v) ∧
    (FlowLabelTlv.new v >>= fun e => pure e.packetLen) = .ok (Spec.flowLabel v).length := by
  have h' : v.length ≤ 255 := h
  rw [FlowLabelTlv.new_eq]
  simp only [h', ↓reduceIte, bind_ok, FlowLabelTlv.pack, FlowLabelTlv.packetLen]
  rw [CfdpTlv.pack_eq _ (by simp [tFlowLabel]) h']
  exact ⟨rfl, by simp [CfdpTlv.packetLen, Spec.flowLabel, Spec.tlv, pure, Except.pure]; omega⟩

theorem C08_flow_label_roundtrip (v rest : Bytes) (h : WFValue v) :
    FlowLabelTlv.unpack (Spec.flowLabel v ++ rest) = FlowLabelTlv.new v := by
  have h' : v.length ≤ 255 := h
  rw [FlowLabelTlv.unpack_bind, FlowLabelTlv.new_eq]
  simp only [h', ↓reduceIte]
  have := CfdpTlv.unpack_pack_append 5 v rest (by decide) h
  simp only [Spec.flowLabel, Spec.tlv, List.cons_append]
  rw [this, bind_ok, FlowLabelTlv.fromTlv_eq]
  simp [tFlowLabel]

theorem C08_msg_to_user_pack_exact (v : Bytes) (h : WFValue v) :
    (MessageToUserTlv.new v >>= MessageToUserTlv.pack) = .ok (Spec.msgToUser v) ∧
    (MessageToUserTlv.new v >>= fun e => pure e.packetLen) = .ok (Spec.msgToUser v).length := by
  have h' : v.length ≤ 255 := h
  rw [MessageToUserTlv.new_eq]
  simp only [h', ↓reduceIte, bind_ok, MessageToUserTlv.pack, MessageToUserTlv.packetLen]
  rw [CfdpTlv.pack_eq _ (by simp [tMsgToUser]) h']
  exact ⟨rfl, by simp [CfdpTlv.packetLen, Spec.msgToUser, Spec.tlv, pure, Except.pure]; omega⟩

theorem C08_msg_to_user_roundtrip (v rest : Bytes) (h : WFValue v) :
    MessageToUserTlv.unpack (Spec.msgToUser v ++ rest) = MessageToUserTlv.new v := by
  have h' : v.length ≤ 255 := h
  rw [MessageToUserTlv.unpack_bind, MessageToUserTlv.new_eq]
  simp only [h', ↓reduceIte]
  have := CfdpTlv.unpack_pack_append 2 v rest (by decide) h
  simp only [Spec.msgToUser, Spec.tlv, List.cons_append]
  rw [this, bind_ok, MessageToUserTlv.fromTlv_eq]
  simp [tMsgToUser]

/-- values longer than 255 octets are refused by the three wrappers as well -/
theorem C08_wrappers_refuse_long (v : Bytes) (h : 255 < v.length) :
    EntityIdTlv.new v = .error .value ∧ FlowLabelTlv.new v = .error .value ∧
      MessageToUserTlv.new v = .error .value := by
  have : ¬ v.length ≤ 255 := by omega
  simp [EntityIdTlv.new_eq, FlowLabelTlv.new_eq, MessageToUserTlv.new_eq, this]

/-! ## fault-handler override -/

/-- for every condition code and handler code (nibbles; every member of the two enumerations):
    type 4, length 1, condition code in the upper and handler code in the lower nibble;
    reported length 3 -/
theorem C08_fault_handler_pack_exact (cc hc : Nat) (hcc : cc < 16) (hhc : hc < 16) :
    (FaultHandlerOverrideTlv.new (cc : Int) hc >>= FaultHandlerOverrideTlv.pack) =
      .ok (Spec.faultHandler cc hc) ∧
    (FaultHandlerOverrideTlv.new (cc : Int) hc >>= fun e => pure e.packetLen) = .ok 3 := by
  rw [FaultHandlerOverrideTlv.new_nat cc hc hcc hhc]
  simp only [bind_ok, FaultHandlerOverrideTlv.pack, FaultHandlerOverrideTlv.packetLen]
  rw [CfdpTlv.pack_eq _ (by simp [tFaultHandler]) (by simp)]
  exact ⟨rfl, rfl⟩

/-- decoding gives back both codes, whatever follows the TLV -/
theorem C08_fault_handler_roundtrip (cc hc : Nat) (hcc : cc < 16) (hhc : hc < 16) (rest : Bytes) :
    FaultHandlerOverrideTlv.unpack (Spec.faultHandler cc hc ++ rest) =
      FaultHandlerOverrideTlv.new (cc : Int) hc := by
  rw [FaultHandlerOverrideTlv.new_nat cc hc hcc hhc, FaultHandlerOverrideTlv.unpack_bind]
  have := CfdpTlv.unpack_pack_append 4 [u8 (cc * 16 + hc)] rest (by decide) (by simp)
  simp only [Spec.faultHandler, Spec.tlv, List.cons_append, List.length_cons, List.length_nil] at this ⊢
  rw [this, bind_ok, FaultHandlerOverrideTlv.fromTlv_eq]
  have e0 : (cc * 16 + hc) % 256 = cc * 16 + hc := by omega
  have e1 : (cc * 16 + hc) / 16 = cc := by omega
  have e2 : (cc * 16 + hc) % 16 = hc := by omega
  simp [tFaultHandler, e0, e1, e2]

/-- `ConditionCode.NO_CONDITION_FIELD` (−1) and every other negative code is refused -/
theorem C08_fault_handler_refuse_negative (cc : Int) (hc : Nat) (h : cc < 0) :
    FaultHandlerOverrideTlv.new cc hc = .error .value :=
  FaultHandlerOverrideTlv.new_neg cc hc h

/-! ## filestore request -/

private theorem req_len (r : FileStoreRequestTlv) (wf : WFReq r) :
    (fsValue r.action 0 r.first r.second).length ≤ 255 := by
  have := wf.2.2.2.2
  rwa [show r.action * 16 = r.action * 16 + 0 from rfl, spec_fsValue] at this

/-- **layout of 727.0-B-5 §5.4.1** for every action code and all names of the domain -/
theorem C08_fs_request_pack_exact (r : FileStoreRequestTlv) (wf : WFReq r) :
    r.pack = .ok (Spec.fsRequest r) := by
  have ha := (mem_actionCodes r.action).1 wf.1
  rw [FileStoreRequestTlv.pack_eq r (by omega) (req_len r wf)]
  unfold Spec.fsRequest Spec.tlv
  rw [show r.action * 16 = r.action * 16 + 0 from rfl, spec_fsValue]
  rfl

/-- **decodes back to the same parameters**, whatever follows the TLV -/
theorem C08_fs_request_roundtrip (r : FileStoreRequestTlv) (wf : WFReq r) (rest : Bytes) :
    FileStoreRequestTlv.unpack (Spec.fsRequest r ++ rest) = .ok r := by
  obtain ⟨ha, u1, u2, hsec, _⟩ := wf
  have hl := req_len r ⟨ha, u1, u2, hsec, ‹_›⟩
  have hfl := fsValue_length r.action 0 r.first r.second
  have h1 : r.first.length ≤ 255 := by omega
  have hsnp : r.action ∈ snpActions ∨ r.second = [] := by
    by_cases h : r.action ∈ snpActions
    · exact .inl h
    · exact .inr (hsec fun x => h ((twoNames_iff _).1 x))
  have h2 : r.second.length ≤ 255 := by
    rcases hsnp with h | h
    · simp only [h, ↓reduceIte] at hfl; omega
    · simp [h]
  unfold Spec.fsRequest Spec.tlv
  rw [show r.action * 16 = r.action * 16 + 0 from rfl, spec_fsValue, FileStoreRequestTlv.unpack_bind]
  simp only [List.cons_append]
  rw [CfdpTlv.unpack_pack_append 0 _ rest (by decide) hl, bind_ok]
  have := FileStoreRequestTlv.fromTlv_pack r.action 0 r.first r.second ha (by omega) h1 h2 u1 u2
  simp only [tFsRequest] at this
  rw [this]
  rcases hsnp with h | h
  · simp [h]
  · by_cases h' : r.action ∈ snpActions <;> simp [h', h] <;> (cases r; simp_all)

/-- **reported length = packed length** whenever a request packs, for *all* field values
    (counted in octets of the encoded names) -/
theorem C08_fs_request_len (r : FileStoreRequestTlv) (b : Bytes) (h : r.pack = .ok b) :
    b.length = r.packetLen :=
  FileStoreRequestTlv.pack_length r b h

/-! ## filestore response -/

private theorem resp_len (r : FileStoreResponseTlv) (wf : WFResp r) : (fsRespValue r).length ≤ 255 := by
  obtain ⟨_, h0, _, hdiv, _, _, _, hlen⟩ := wf
  obtain ⟨e1, _⟩ := status_split r.status r.action h0 hdiv
  rw [e1, spec_fsValue] at hlen
  exact hlen

/-- **layout of 727.0-B-5 §5.4.2** for every action code with each of its status codes, one or two
    names and every filestore message of the domain -/
theorem C08_fs_response_pack_exact (r : FileStoreResponseTlv) (wf : WFResp r) :
    r.pack = .ok (Spec.fsResponse r) := by
  have ha := (mem_actionCodes r.action).1 wf.1
  obtain ⟨e1, _⟩ := status_split r.status r.action wf.2.1 wf.2.2.2.1
  rw [FileStoreResponseTlv.pack_eq r (by omega) (resp_len r wf)]
  unfold Spec.fsResponse Spec.tlv
  rw [e1, spec_fsValue]
  rfl

/-- **decodes back to the same parameters**, whatever follows the TLV -/
theorem C08_fs_response_roundtrip (r : FileStoreResponseTlv) (wf : WFResp r) (rest : Bytes) :
    FileStoreResponseTlv.unpack (Spec.fsResponse r ++ rest) = .ok r := by
  have hl := resp_len r wf
  obtain ⟨ha, h0, hmem, hdiv, u1, u2, hsec, _⟩ := wf
  obtain ⟨e1, e2⟩ := status_split r.status r.action h0 hdiv
  have hfl := fsValue_length r.action (statusToInt r.status) r.first r.second
  simp only [fsRespValue, List.length_append, List.length_cons] at hl
  have h1 : r.first.length ≤ 255 := by omega
  have hm : r.msg.value.length ≤ 255 := by omega
  have hsnp : r.action ∈ snpActions ∨ r.second = [] := by
    by_cases h : r.action ∈ snpActions
    · exact .inl h
    · exact .inr (hsec fun x => h ((twoNames_iff _).1 x))
  have h2 : r.second.length ≤ 255 := by
    rcases hsnp with h | h
    · simp only [h, ↓reduceIte] at hfl; omega
    · simp [h]
  unfold Spec.fsResponse Spec.tlv Spec.lv
  rw [e1, spec_fsValue, FileStoreResponseTlv.unpack_bind]
  simp only [List.cons_append]
  have hl2 : (fsValue r.action (statusToInt r.status) r.first r.second ++
      (u8 r.msg.value.length :: r.msg.value)).length ≤ 255 := by
    simp only [List.length_append, List.length_cons]; omega
  rw [CfdpTlv.unpack_pack_append 1 _ rest (by decide) hl2, bind_ok]
  have := FileStoreResponseTlv.fromTlv_pack r.action (statusToInt r.status) r.first r.second
    r.msg.value ha (statusToInt_lt _) (by rw [← e1]; exact hmem) h1 h2 hm u1 u2
  simp only [tFsResponse] at this
  rw [this, e2]
  rcases hsnp with h | h
  · simp [h]
  · by_cases h' : r.action ∈ snpActions <;> simp [h', h] <;> (cases r; simp_all)

/-- **reported length = packed length** whenever a response packs, for *all* field values -/
theorem C08_fs_response_len (r : FileStoreResponseTlv) (b : Bytes) (h : r.pack = .ok b) :
    b.length = r.packetLen :=
  FileStoreResponseTlv.pack_length r b h

/-- **every accepted filestore request reports exactly the declared TLV length** — for *all*
    inputs: the input is a type-0 TLV with a value of `packet_len − 2` octets followed by the
    untouched remainder (a value field holding anything after the names is refused, so the
    reported length, the declared length and the consumed length coincide) -/
theorem C08_fs_request_len_exact (d : Bytes) (x : FileStoreRequestTlv)
    (h : FileStoreRequestTlv.unpack d = .ok x) :
    ∃ v, WFValue v ∧ x.packetLen = v.length + 2 ∧ x.packetLen ≤ d.length ∧
      d = Spec.tlv 0 v ++ d.drop x.packetLen := by
  rw [FileStoreRequestTlv.unpack_bind] at h
  cases ht : CfdpTlv.unpack d with
  | error e => rw [ht] at h; cases h
  | ok t =>
    rw [ht, bind_ok] at h
    have hx := FileStoreRequestTlv.fromTlv_len_exact h
    have hty : t.ttype = 0 := by
      rw [FileStoreRequestTlv.fromTlv_eq] at h
      by_cases hty : t.ttype = tFsRequest
      · exact hty
      · simp [hty] at h
    obtain ⟨_, h1, h2, h3⟩ := CfdpTlv.unpack_spec d t ht
    refine ⟨t.value, h1, by rw [hx]; simp [CfdpTlv.packetLen]; omega, by rw [hx]; exact h2, ?_⟩
    rw [hx, ← hty]; exact h3

/-- **every accepted filestore response reports exactly the declared TLV length** (all inputs) -/
theorem C08_fs_response_len_exact (d : Bytes) (x : FileStoreResponseTlv)
    (h : FileStoreResponseTlv.unpack d = .ok x) :
    ∃ v, WFValue v ∧ x.packetLen = v.length + 2 ∧ x.packetLen ≤ d.length ∧
      d = Spec.tlv 1 v ++ d.drop x.packetLen := by
  rw [FileStoreResponseTlv.unpack_bind] at h
  cases ht : CfdpTlv.unpack d with
  | error e => rw [ht] at h; cases h
  | ok t =>
    rw [ht, bind_ok] at h
    have hx := FileStoreResponseTlv.fromTlv_len_exact h
    have hty : t.ttype = 1 := by
      rw [FileStoreResponseTlv.fromTlv_eq] at h
      by_cases hty : t.ttype = tFsResponse
      · exact hty
      · simp [hty] at h
    obtain ⟨_, h1, h2, h3⟩ := CfdpTlv.unpack_spec d t ht
    refine ⟨t.value, h1, by rw [hx]; simp [CfdpTlv.packetLen]; omega, by rw [hx]; exact h2, ?_⟩
    rw [hx, ← hty]; exact h3

/-- **octets after the encoded names inside the value field of a REQUEST are refused** with
    `ValueError`, for every otherwise valid request and every non-empty slack that still fits the TLV
    (responses: `C08_fs_response_refuse_slack`) -/
theorem C08_fs_refuse_slack (r : FileStoreRequestTlv) (wf : WFReq r) (tail rest : Bytes) (ht : tail ≠ [])
    (hl : (Spec.fsValue (r.action * 16) r.action r.first r.second ++ tail).length ≤ 255) :
    FileStoreRequestTlv.unpack
      (Spec.tlv 0 (Spec.fsValue (r.action * 16) r.action r.first r.second ++ tail) ++ rest) =
      .error .value := by
  obtain ⟨ha, u1, u2, hsec, hlen⟩ := wf
  rw [show r.action * 16 = r.action * 16 + 0 from rfl, spec_fsValue] at hl hlen ⊢
  have hfl := fsValue_length r.action 0 r.first r.second
  have h1 : r.first.length ≤ 255 := by omega
  have h2 : r.second.length ≤ 255 := by
    by_cases h : r.action ∈ snpActions
    · simp only [h, ↓reduceIte] at hfl; omega
    · rw [hsec fun x => h ((twoNames_iff _).1 x)]; simp
  unfold Spec.tlv
  rw [FileStoreRequestTlv.unpack_bind]
  simp only [List.cons_append]
  rw [CfdpTlv.unpack_pack_append 0 _ rest (by decide) hl, bind_ok]
  exact FileStoreRequestTlv.fromTlv_slack r.action 0 r.first r.second tail ha (by omega) h1 h2 u1 u2 ht

-- the repaired C09 finding: a request TLV declaring 12 octets with three octets after the name
example : FileStoreRequestTlv.unpack [0, 10, 0, 5, 0x61, 0x2E, 0x74, 0x78, 0x74, 1, 2, 3] = .error .value := by
  decide
example : FileStoreRequestTlv.unpack [0, 7, 0, 5, 0x61, 0x2E, 0x74, 0x78, 0x74, 1, 2, 3] =
    .ok ⟨0, [0x61, 0x2E, 0x74, 0x78, 0x74], []⟩ := by decide
example : FileStoreResponseTlv.unpack [1, 5, 0x10, 1, 0x61, 0, 9] = .error .value := by decide
example : FileStoreResponseTlv.unpack [1, 4, 0x10, 1, 0x61, 0, 9] = .ok ⟨1, 16, [0x61], [], ⟨[]⟩⟩ := by decide

/-- every TLV object reports its packed length correctly (whenever it packs at all) -/
theorem C08_packet_len (a : AnyTlv) (b : Bytes) (h : a.pack = .ok b) : b.length = a.packetLen := by
  cases a with
  | generic t => exact CfdpTlv.pack_length t b h
  | entityId t => exact CfdpTlv.pack_length t.tlv b h
  | flowLabel t => exact CfdpTlv.pack_length t.tlv b h
  | msgToUser t => exact CfdpTlv.pack_length t.tlv b h
  | faultHandler t => exact CfdpTlv.pack_length t.tlv b h
  | fsRequest t => exact FileStoreRequestTlv.pack_length t b h
  | fsResponse t => exact FileStoreResponseTlv.pack_length t b h

/-- REQUEST names that do not fit are refused with `ValueError`, never encoded:
    a name of more than 255 octets, or a value field of more than 255 octets
    (responses, with their filestore message: `C08_fs_response_refuse_long`) -/
theorem C08_fs_refuse_long (r : FileStoreRequestTlv) (ha : r.action ∈ actionCodes)
    (h : 255 < (Spec.fsValue (r.action * 16) r.action r.first r.second).length) :
    r.pack = .error .value := by
  have ha8 := (mem_actionCodes r.action).1 ha
  rw [show r.action * 16 = r.action * 16 + 0 from rfl, spec_fsValue] at h
  have hfl := fsValue_length r.action 0 r.first r.second
  unfold FileStoreRequestTlv.pack FileStoreRequestTlv.buildTlv
  by_cases h1 : r.first.length ≤ 255
  · by_cases h2 : r.action ∈ snpActions → r.second.length ≤ 255
    · rw [commonPacker_eq _ _ _ _ (by omega) (by omega) h1 h2, bind_ok, CfdpTlv.new_err h]; rfl
    · have hs : r.action ∈ snpActions := by
        apply Classical.byContradiction; intro hn; exact h2 (fun x => absurd x hn)
      have h2' : 255 < r.second.length := by
        apply Classical.byContradiction; intro hn; exact h2 (fun _ => by omega)
      unfold commonPacker
      rw [shl4_or _ _ (by omega), byteOfN_ok (by omega), bind_ok, CfdpLv.new_ok h1, bind_ok,
        CfdpLv.pack_eq _ h1, bind_ok]
      simp only [hs, ↓reduceIte, CfdpLv.new_err h2']
      rfl
  · unfold commonPacker
    rw [shl4_or _ _ (by omega), byteOfN_ok (by omega), bind_ok, CfdpLv.new_err (by omega)]
    rfl

/-- … and the same for **responses**: octets after the filestore-message LV inside the value field
    are refused with `ValueError`, for every otherwise valid response and every non-empty slack that
    still fits the TLV -/
theorem C08_fs_response_refuse_slack (r : FileStoreResponseTlv) (wf : WFResp r) (tail rest : Bytes) (ht : tail ≠ [])
    (hl : (Spec.fsValue r.status.toNat r.action r.first r.second ++ Spec.lv r.msg.value ++ tail).length ≤ 255) :
    FileStoreResponseTlv.unpack
      (Spec.tlv 1 (Spec.fsValue r.status.toNat r.action r.first r.second ++ Spec.lv r.msg.value ++ tail) ++ rest) =
      .error .value := by
  obtain ⟨ha, h0, hmem, hdiv, u1, u2, hsec, _⟩ := wf
  obtain ⟨e1, _⟩ := status_split r.status r.action h0 hdiv
  rw [e1, spec_fsValue] at hl ⊢
  have hfl := fsValue_length r.action (statusToInt r.status) r.first r.second
  simp only [Spec.lv, List.length_append, List.length_cons] at hl
  have h1 : r.first.length ≤ 255 := by omega
  have hm : r.msg.value.length ≤ 255 := by omega
  have h2 : r.second.length ≤ 255 := by
    by_cases h : r.action ∈ snpActions
    · simp only [h, ↓reduceIte] at hfl; omega
    · rw [hsec fun x => h ((twoNames_iff _).1 x)]; simp
  have hv : fsValue r.action (statusToInt r.status) r.first r.second ++ Spec.lv r.msg.value ++ tail
      = fsValue r.action (statusToInt r.status) r.first r.second ++ (u8 r.msg.value.length :: (r.msg.value ++ tail)) := by
    simp [Spec.lv]
  rw [hv]
  have hl2 : (fsValue r.action (statusToInt r.status) r.first r.second ++
      (u8 r.msg.value.length :: (r.msg.value ++ tail))).length ≤ 255 := by
    simp only [List.length_append, List.length_cons]; omega
  unfold Spec.tlv
  rw [FileStoreResponseTlv.unpack_bind]
  simp only [List.cons_append]
  rw [CfdpTlv.unpack_pack_append 1 _ rest (by decide) hl2, bind_ok]
  exact FileStoreResponseTlv.fromTlv_slack r.action (statusToInt r.status) r.first r.second r.msg.value tail ha
    (statusToInt_lt _) (by rw [← e1]; exact hmem) h1 h2 hm u1 u2 ht

private theorem commonPacker_long (action status : Nat) (first second : Bytes) (ha : action < 16) (hs : status < 16)
    (h : 255 < first.length ∨ (action ∈ snpActions ∧ 255 < second.length)) :
    commonPacker action first second status = .error .value := by
  unfold commonPacker
  by_cases h1 : first.length ≤ 255
  · have hsn : action ∈ snpActions ∧ 255 < second.length := by
      rcases h with h | h
      · omega
      · exact h
    rw [shl4_or _ _ hs, byteOfN_ok (by omega), bind_ok, CfdpLv.new_ok h1, bind_ok, CfdpLv.pack_eq _ h1, bind_ok]
    simp only [hsn.1, ↓reduceIte, CfdpLv.new_err hsn.2]
    rfl
  · rw [shl4_or _ _ hs, byteOfN_ok (by omega), bind_ok, CfdpLv.new_err (by omega)]
    rfl

/-- … and **responses** whose names or filestore message do not fit are refused with `ValueError`,
    never encoded: a name or message of more than 255 octets, or a value field (names and message
    LV together) of more than 255 octets — whatever the status code -/
theorem C08_fs_response_refuse_long (r : FileStoreResponseTlv) (ha : r.action ∈ actionCodes)
    (h : 255 < (Spec.fsValue r.status.toNat r.action r.first r.second ++ Spec.lv r.msg.value).length) :
    r.pack = .error .value := by
  have ha8 := (mem_actionCodes r.action).1 ha
  have hlen : (Spec.fsValue r.status.toNat r.action r.first r.second).length
      = (fsValue r.action (statusToInt r.status) r.first r.second).length := by
    rw [← spec_fsValue]; simp [Spec.fsValue]
  simp only [List.length_append, hlen, Spec.lv, List.length_cons] at h
  have hfl := fsValue_length r.action (statusToInt r.status) r.first r.second
  unfold FileStoreResponseTlv.pack FileStoreResponseTlv.buildTlv
  by_cases hc : 255 < r.first.length ∨ (r.action ∈ snpActions ∧ 255 < r.second.length)
  · rw [commonPacker_long _ _ _ _ (by omega) (statusToInt_lt _) hc]; rfl
  · have h1 : r.first.length ≤ 255 := by omega
    have h2 : r.action ∈ snpActions → r.second.length ≤ 255 := by
      intro hs
      have : ¬ 255 < r.second.length := fun x => hc (.inr ⟨hs, x⟩)
      omega
    rw [commonPacker_eq _ _ _ _ (by omega) (statusToInt_lt _) h1 h2, bind_ok]
    by_cases hm : r.msg.value.length ≤ 255
    · rw [CfdpLv.pack_eq _ hm, bind_ok, CfdpTlv.new_err (by simp only [List.length_append, List.length_cons]; omega)]
      rfl
    · rw [CfdpLv.pack_err _ (by omega)]; rfl

/-! ## type safety -/

/-- **`from_tlv` of every concrete class refuses every TLV of another type with the type-mismatch
    error** — whatever its value octets are (also when they would be a perfectly good value of
    the class). -/
theorem C08_type_safe_from_tlv (t : CfdpTlv) :
    (t.ttype ≠ tEntityId → EntityIdTlv.fromTlv t = .error .tlvType) ∧
    (t.ttype ≠ tFlowLabel → FlowLabelTlv.fromTlv t = .error .tlvType) ∧
    (t.ttype ≠ tMsgToUser → MessageToUserTlv.fromTlv t = .error .tlvType) ∧
    (t.ttype ≠ tFaultHandler → FaultHandlerOverrideTlv.fromTlv t = .error .tlvType) ∧
    (t.ttype ≠ tFsRequest → FileStoreRequestTlv.fromTlv t = .error .tlvType) ∧
    (t.ttype ≠ tFsResponse → FileStoreResponseTlv.fromTlv t = .error .tlvType) := by
  refine ⟨fun h => ?_, fun h => ?_, fun h => ?_, fun h => ?_, fun h => ?_, fun h => ?_⟩
  · simp [EntityIdTlv.fromTlv_eq, h]
  · simp [FlowLabelTlv.fromTlv_eq, h]
  · simp [MessageToUserTlv.fromTlv_eq, h]
  · simp [FaultHandlerOverrideTlv.fromTlv_eq, h]
  · simp [FileStoreRequestTlv.fromTlv_eq, h]
  · simp [FileStoreResponseTlv.fromTlv_eq, h]

/-- **`unpack` of every concrete class refuses every well-formed TLV of another type with the
    type-mismatch error**: if the octets are a TLV (the generic decoder accepts them) whose type
    is not the class's, the class decoder returns `TlvTypeMissmatch`. -/
theorem C08_type_safe_unpack (d : Bytes) (t : CfdpTlv) (h : CfdpTlv.unpack d = .ok t) :
    (t.ttype ≠ tEntityId → EntityIdTlv.unpack d = .error .tlvType) ∧
    (t.ttype ≠ tFlowLabel → FlowLabelTlv.unpack d = .error .tlvType) ∧
    (t.ttype ≠ tMsgToUser → MessageToUserTlv.unpack d = .error .tlvType) ∧
    (t.ttype ≠ tFaultHandler → FaultHandlerOverrideTlv.unpack d = .error .tlvType) ∧
    (t.ttype ≠ tFsRequest → FileStoreRequestTlv.unpack d = .error .tlvType) ∧
    (t.ttype ≠ tFsResponse → FileStoreResponseTlv.unpack d = .error .tlvType) := by
  obtain ⟨h1, h2, h3, h4, h5, h6⟩ := C08_type_safe_from_tlv t
  rw [EntityIdTlv.unpack_bind, FlowLabelTlv.unpack_bind, MessageToUserTlv.unpack_bind,
    FaultHandlerOverrideTlv.unpack_bind, FileStoreRequestTlv.unpack_bind,
    FileStoreResponseTlv.unpack_bind, h]
  exact ⟨h1, h2, h3, h4, h5, h6⟩

private theorem first_octet (d : Bytes) (t : CfdpTlv) (h : CfdpTlv.unpack d = .ok t) :
    d.head? = some (u8 t.ttype) := by
  have := (CfdpTlv.unpack_spec d t h).2.2.2
  rw [this]; rfl

private theorem bind_ok_inv {α β : Type} {x : Py α} {f : α → Py β} {b : β}
    (h : (x >>= f) = .ok b) : ∃ a, x = .ok a ∧ f a = .ok b := by
  cases x with
  | error e => cases h
  | ok a => exact ⟨a, rfl, h⟩

/-- **no object of the wrong kind is ever produced**: whenever a concrete decoder accepts octets,
    their first octet is the class's own TLV type (and the object re-packs under that type);
    whenever `from_tlv` accepts a TLV, it has the class's type. For *all* inputs. -/
theorem C08_type_safe_never_wrong_kind (d : Bytes) :
    (∀ x, EntityIdTlv.unpack d = .ok x → d.head? = some 6 ∧ x.tlv.ttype = 6) ∧
    (∀ x, FlowLabelTlv.unpack d = .ok x → d.head? = some 5 ∧ x.tlv.ttype = 5) ∧
    (∀ x, MessageToUserTlv.unpack d = .ok x → d.head? = some 2 ∧ x.tlv.ttype = 2) ∧
    (∀ x, FaultHandlerOverrideTlv.unpack d = .ok x → d.head? = some 4 ∧ x.tlv.ttype = 4) ∧
    (∀ x, FileStoreRequestTlv.unpack d = .ok x → d.head? = some 0) ∧
    (∀ x, FileStoreResponseTlv.unpack d = .ok x → d.head? = some 1) := by
  refine ⟨fun x h => ?_, fun x h => ?_, fun x h => ?_, fun x h => ?_, fun x h => ?_, fun x h => ?_⟩
  · rw [EntityIdTlv.unpack_bind] at h
    obtain ⟨t, ht, hf⟩ := bind_ok_inv h
    rw [EntityIdTlv.fromTlv_eq] at hf
    by_cases hty : t.ttype = tEntityId
    · simp only [hty, ↓reduceIte, Except.ok.injEq] at hf
      subst hf
      exact ⟨by rw [first_octet d t ht, hty]; rfl, hty⟩
    · simp [hty] at hf
  · rw [FlowLabelTlv.unpack_bind] at h
    obtain ⟨t, ht, hf⟩ := bind_ok_inv h
    rw [FlowLabelTlv.fromTlv_eq] at hf
    by_cases hty : t.ttype = tFlowLabel
    · simp only [hty, ↓reduceIte, Except.ok.injEq] at hf
      subst hf
      exact ⟨by rw [first_octet d t ht, hty]; rfl, hty⟩
    · simp [hty] at hf
  · rw [MessageToUserTlv.unpack_bind] at h
    obtain ⟨t, ht, hf⟩ := bind_ok_inv h
    rw [MessageToUserTlv.fromTlv_eq] at hf
    by_cases hty : t.ttype = tMsgToUser
    · simp only [hty, ↓reduceIte, Except.ok.injEq] at hf
      subst hf
      exact ⟨by rw [first_octet d t ht, hty]; rfl, hty⟩
    · simp [hty] at hf
  · rw [FaultHandlerOverrideTlv.unpack_bind] at h
    obtain ⟨t, ht, hf⟩ := bind_ok_inv h
    rw [FaultHandlerOverrideTlv.fromTlv_eq] at hf
    by_cases hty : t.ttype = tFaultHandler
    · simp only [hty, ne_eq, not_true_eq_false, ↓reduceIte] at hf
      cases hv : t.value with
      | nil => simp [hv] at hf
      | cons v0 r =>
        simp only [hv, Except.ok.injEq] at hf
        subst hf
        exact ⟨by rw [first_octet d t ht, hty]; rfl, hty⟩
    · simp [hty] at hf
  · rw [FileStoreRequestTlv.unpack_bind] at h
    obtain ⟨t, ht, hf⟩ := bind_ok_inv h
    rw [FileStoreRequestTlv.fromTlv_eq] at hf
    by_cases hty : t.ttype = tFsRequest
    · rw [first_octet d t ht, hty]; rfl
    · simp [hty] at hf
  · rw [FileStoreResponseTlv.unpack_bind] at h
    obtain ⟨t, ht, hf⟩ := bind_ok_inv h
    rw [FileStoreResponseTlv.fromTlv_eq] at hf
    by_cases hty : t.ttype = tFsResponse
    · rw [first_octet d t ht, hty]; rfl
    · simp [hty] at hf

/-- **`TlvHolder.to_*`**: a conversion succeeds only if the held object has the requested TLV
    type; a generic TLV goes through `from_tlv` (hence `TlvTypeMissmatch` for a foreign type), a
    concrete object of another class is refused with `TypeError` — never re-labelled. -/
theorem C08_type_safe_holder (a : AnyTlv) :
    (∀ x, holderToEntityId a = .ok x → a.tlvType = tEntityId) ∧
    (∀ x, holderToFlowLabel a = .ok x → a.tlvType = tFlowLabel) ∧
    (∀ x, holderToMsgToUser a = .ok x → a.tlvType = tMsgToUser) ∧
    (∀ x, holderToFaultHandler a = .ok x → a.tlvType = tFaultHandler) ∧
    (∀ x, holderToFsRequest a = .ok x → a.tlvType = tFsRequest) ∧
    (∀ x, holderToFsResponse a = .ok x → a.tlvType = tFsResponse) := by
  refine ⟨fun x h => ?_, fun x h => ?_, fun x h => ?_, fun x h => ?_, fun x h => ?_, fun x h => ?_⟩ <;>
    cases a <;> simp only [holderToEntityId, holderToFlowLabel, holderToMsgToUser, holderToFaultHandler,
      holderToFsRequest, holderToFsResponse, AnyTlv.tlvType, reduceCtorEq] at h ⊢
  all_goals
    rename_i t
    apply Classical.byContradiction
    intro hne
    have := C08_type_safe_from_tlv t
    simp_all

/-- the error a `TlvHolder.to_*` conversion raises for a held object of a foreign type, determined
    by the KIND of the held object: a generic `CfdpTlv` goes through `from_tlv` and is refused with
    `TlvTypeMissmatch`; an object of another concrete class is refused with `TypeError` -/
def foreignErr : AnyTlv → Err
  | .generic _ => .tlvType
  | _ => .type

/-- the holder verdicts for a held object whose type is *not* the requested one, class by class,
    with the exact class of the error (`foreignErr`): `TlvTypeMissmatch` for a held generic TLV,
    `TypeError` for a held object of another concrete class -/
theorem C08_type_safe_holder_foreign (a : AnyTlv) :
    (a.tlvType ≠ tEntityId → holderToEntityId a = .error (foreignErr a)) ∧
    (a.tlvType ≠ tFlowLabel → holderToFlowLabel a = .error (foreignErr a)) ∧
    (a.tlvType ≠ tMsgToUser → holderToMsgToUser a = .error (foreignErr a)) ∧
    (a.tlvType ≠ tFaultHandler → holderToFaultHandler a = .error (foreignErr a)) ∧
    (a.tlvType ≠ tFsRequest → holderToFsRequest a = .error (foreignErr a)) ∧
    (a.tlvType ≠ tFsResponse → holderToFsResponse a = .error (foreignErr a)) := by
  refine ⟨fun h => ?_, fun h => ?_, fun h => ?_, fun h => ?_, fun h => ?_, fun h => ?_⟩ <;>
    cases a <;> simp only [holderToEntityId, holderToFlowLabel, holderToMsgToUser, holderToFaultHandler,
      holderToFsRequest, holderToFsResponse, AnyTlv.tlvType, foreignErr, ne_eq,
      not_true_eq_false] at h ⊢
  all_goals
    rename_i t
    have := C08_type_safe_from_tlv t
    simp_all

example : foreignErr (.generic ⟨5, [1]⟩) = .tlvType ∧ foreignErr (.flowLabel ⟨⟨5, [1]⟩⟩) = .type ∧
    holderToEntityId (.generic ⟨5, [1]⟩) = .error .tlvType ∧ holderToEntityId (.flowLabel ⟨⟨5, [1]⟩⟩) = .error .type := by
  decide

-- the (class, foreign type) table on concrete octets: every TLV type through every other class
example : ∀ t ∈ tlvTypes, t ≠ 6 → EntityIdTlv.unpack [u8 t, 1, 7] = .error .tlvType := by decide
example : ∀ t ∈ tlvTypes, t ≠ 5 → FlowLabelTlv.unpack [u8 t, 1, 7] = .error .tlvType := by decide
example : ∀ t ∈ tlvTypes, t ≠ 2 → MessageToUserTlv.unpack [u8 t, 1, 7] = .error .tlvType := by decide
example : ∀ t ∈ tlvTypes, t ≠ 4 → FaultHandlerOverrideTlv.unpack [u8 t, 1, 7] = .error .tlvType := by decide
example : ∀ t ∈ tlvTypes, t ≠ 0 → FileStoreRequestTlv.unpack [u8 t, 2, 0x10, 0] = .error .tlvType := by decide
example : ∀ t ∈ tlvTypes, t ≠ 1 → FileStoreResponseTlv.unpack [u8 t, 3, 0x10, 0, 0] = .error .tlvType := by decide

/-! ## status-code helpers -/

/-- for every status code of the standard: the action code is its upper nibble (a member of the
    action-code enumeration), the packed status is its lower nibble, and mapping the pair back
    gives the code again -/
theorem C08_status_helpers :
    ∀ s ∈ statusCodesNat,
      statusToActionStatus (s : Int) = .ok (s / 16, s % 16) ∧ statusToInt (s : Int) = s % 16 ∧
      s / 16 ∈ actionCodes ∧ statusFromInt (s / 16) (s % 16) = (s : Int) := by
  decide

/-- pairs that are not in the table map to `INVALID`; `INVALID` itself has no action code -/
theorem C08_status_invalid (a n : Nat) (hn : n < 16) :
    statusFromInt a n = if a * 16 + n ∈ statusCodesNat then ((a * 16 + n : Nat) : Int) else statusInvalid := by
  unfold statusFromInt; rw [shl4_or a n hn]

theorem C08_status_invalid_member : statusToActionStatus statusInvalid = .error .value := by decide

/-! ## UTF-8 predicate: sanity -/

/-- every ASCII name is a valid name -/
theorem C08_utf8_ascii (b : Bytes) (h : ∀ x ∈ b, x.toNat < 128) : utf8Valid b = true := by
  unfold utf8Valid
  induction b with
  | nil => rfl
  | cons a r ih =>
    have ha : a.toNat < 128 := h a (by simp)
    simp only [utf8ValidFrom, utf8Step, ha, ↓reduceIte]
    exact ih fun x hx => h x (by simp [hx])

example : utf8Valid [0xC3, 0xA4] = true ∧ utf8Valid [0xF0, 0x9D, 0x84, 0x9E] = true ∧
    utf8Valid [0xC0, 0x80] = false ∧ utf8Valid [0xED, 0xA0, 0x80] = false ∧
    utf8Valid [0xF4, 0x90, 0x80, 0x80] = false ∧ utf8Valid [0xE2, 0x82] = false := by decide

end SpVerif.Props.C08
