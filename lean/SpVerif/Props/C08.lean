import SpVerif.Model.Tlv
namespace SpVerif.Props.C08
open SpVerif SpVerif.Lv SpVerif.Tlv

theorem C08_placeholder : True := trivial

end SpVerif.Props.C08
